// Command translator reads /repo's current Go source (packages ipam and multicidrset, without
// the verif build tag) through go/packages + go/ssa and emits program facts as Gallina data:
//
//	Facts_lock.v  -- per function: lock discipline, callees, shared-state accesses, blocking ops, entry points (C16)
//	Facts_mut.v   -- per function: stores / mutating calls on values derived from informer-cache objects (C20)
//	Facts_startup.v -- order of the start-up actions in main.go (C03)
//
// and the same facts as JSON (for locating the offending path when a check fails).
package main

import (
	"encoding/json"
	"fmt"
	"go/token"
	"go/types"
	"os"
	"sort"
	"strings"

	"golang.org/x/tools/go/packages"
	"golang.org/x/tools/go/ssa"
	"golang.org/x/tools/go/ssa/ssautil"
)

const (
	pkgIPAM = "sigs.k8s.io/node-ipam-controller/pkg/controller/ipam"
	pkgSet  = "sigs.k8s.io/node-ipam-controller/pkg/controller/ipam/multicidrset"
	pkgMain = "sigs.k8s.io/node-ipam-controller"
)

// mutable shared state: owning named type -> field names
var tracked = map[string]map[string]bool{
	pkgIPAM + ".multiCIDRRangeAllocator": {"cidrMap": true},
	pkgSet + ".ClusterCIDR":              {"AssociatedNodes": true, "Terminating": true},
	pkgSet + ".MultiCIDRSet":             {"AllocatedCIDRMap": true, "allocatedCIDRs": true, "nextCandidate": true},
}

type fnFacts struct {
	Name    string   `json:"name"`
	Pos     string   `json:"pos"`
	Lock    string   `json:"lock"` // none | locks | irregular
	Calls   []string `json:"calls"`
	Touches []string `json:"touches"`
	Blocks  []string `json:"blocks"`
	Entry   string   `json:"entry"` // "" or reason
	CacheW  []string `json:"cache_writes"`
}

func fail(format string, a ...interface{}) {
	fmt.Fprintf(os.Stderr, format+"\n", a...)
	os.Exit(2)
}

func main() {
	repo := "/repo"
	outDir := "."
	if len(os.Args) > 1 {
		repo = os.Args[1]
	}
	if len(os.Args) > 2 {
		outDir = os.Args[2]
	}
	cfg := &packages.Config{Mode: packages.LoadAllSyntax, Dir: repo, Tests: false}
	pkgs, err := packages.Load(cfg, pkgIPAM, pkgSet, pkgMain)
	if err != nil {
		fail("load: %v", err)
	}
	if packages.PrintErrors(pkgs) > 0 {
		fail("packages have errors")
	}
	prog, spkgs := ssautil.AllPackages(pkgs, ssa.InstantiateGenerics)
	prog.Build()
	var ours []*ssa.Package
	var mainPkg *ssa.Package
	for i, p := range pkgs {
		switch p.PkgPath {
		case pkgIPAM, pkgSet:
			ours = append(ours, spkgs[i])
		case pkgMain:
			mainPkg = spkgs[i]
		}
	}
	if len(ours) != 2 {
		fail("expected the two packages, got %d", len(ours))
	}
	fns := collect(prog, ours)
	facts := map[string]*fnFacts{}
	var names []string
	for f := range fns {
		ff := analyze(prog, f, fns)
		facts[ff.Name] = ff
		names = append(names, ff.Name)
	}
	sort.Strings(names)
	resolveParamCalls(facts)
	markEntries(prog, fns, facts)
	emitLock(outDir, names, facts)
	// informer handlers: the function literals of the constructor that escape
	handlers := map[string]bool{}
	for n, f := range facts {
		// function values stored into a data structure (the ResourceEventHandlerFuncs tables), wherever the registration
		// code lives; the constructor's own literals as before
		if strings.HasPrefix(f.Entry, "function value stored") || (strings.Contains(n, "NewMultiCIDRRangeAllocator$") && f.Entry != "") {
			handlers[n] = true
		}
	}
	mutSites = runMut(prog, fns, handlers)
	emitMut(outDir, names, facts)
	emitStartup(outDir, prog, mainPkg)
	emitSvc(outDir, prog, fns, facts)
	b, _ := json.MarshalIndent(map[string]interface{}{"functions": facts, "order": names, "cache_write_sites": mutSites}, "", " ")
	writeAtomic(outDir+"/facts.json", b)
}

// resolveParamCalls: fixpoint of "parameter i of f is invoked" over parameters handed on, then one call edge
// callee -> function value for every function value passed for an invoked parameter; a function value passed for a parameter
// that is NOT invoked by the callee (stored, returned, passed outside) is treated as escaping: an entry point.
func resolveParamCalls(facts map[string]*fnFacts) {
	for changed := true; changed; {
		changed = false
		for _, pp := range paramPasses {
			if pp.param == nil || !paramInvoked[pp.callee][pp.idx] {
				continue
			}
			i := paramIndex(pp.caller, pp.param)
			if i < 0 {
				continue
			}
			if paramInvoked[pp.caller] == nil {
				paramInvoked[pp.caller] = map[int]bool{}
			}
			if !paramInvoked[pp.caller][i] {
				paramInvoked[pp.caller][i] = true
				changed = true
			}
		}
	}
	for _, pp := range paramPasses {
		if pp.fn == nil {
			continue
		}
		if paramInvoked[pp.callee][pp.idx] {
			if ff := facts[pp.callee.String()]; ff != nil {
				have := false
				for _, c := range ff.Calls {
					if c == pp.fn.String() {
						have = true
					}
				}
				if !have {
					ff.Calls = append(ff.Calls, pp.fn.String())
					sort.Strings(ff.Calls)
					if paramEdges[pp.callee.String()] == nil {
						paramEdges[pp.callee.String()] = map[string]bool{}
					}
					paramEdges[pp.callee.String()][pp.fn.String()] = true
				}
				if directEdges[pp.caller.String()] == nil {
					directEdges[pp.caller.String()] = map[string]bool{}
				}
				directEdges[pp.caller.String()][pp.fn.String()] = true
			}
		} else if _, ok := passedOut[pp.fn.String()]; !ok {
			passedOut[pp.fn.String()] = "passed to " + pp.callee.String() + ", which does not invoke it itself"
		}
	}
}

func inOurs(f *ssa.Function) bool {
	if f == nil || f.Pkg == nil {
		// anonymous functions have Pkg of their parent
		if f != nil && f.Parent() != nil {
			return inOurs(f.Parent())
		}
		return false
	}
	p := f.Pkg.Pkg.Path()
	return p == pkgIPAM || p == pkgSet
}

func fname(f *ssa.Function) string {
	return f.String()
}

// collect every function, method and function literal of the two packages
func collect(prog *ssa.Program, ours []*ssa.Package) map[*ssa.Function]bool {
	out := map[*ssa.Function]bool{}
	var add func(f *ssa.Function)
	add = func(f *ssa.Function) {
		if f == nil || out[f] || f.Blocks == nil && f.Synthetic == "" {
			if f != nil && f.Blocks == nil {
				return
			}
		}
		if f == nil || out[f] {
			return
		}
		if f.Synthetic != "" && !strings.HasPrefix(f.Synthetic, "bound method") && !strings.HasPrefix(f.Synthetic, "wrapper") {
			// generated init etc.
		}
		out[f] = true
		for _, a := range f.AnonFuncs {
			add(a)
		}
	}
	for _, p := range ours {
		for _, m := range p.Members {
			switch x := m.(type) {
			case *ssa.Function:
				if x.Name() == "init" || strings.HasPrefix(x.Name(), "init#") {
					continue
				}
				add(x)
			case *ssa.Type:
				for _, t := range []types.Type{x.Type(), types.NewPointer(x.Type())} {
					ms := prog.MethodSets.MethodSet(t)
					for i := 0; i < ms.Len(); i++ {
						if fn := prog.MethodValue(ms.At(i)); fn != nil && fn.Pkg == p && fn.Synthetic == "" {
							add(fn)
						}
					}
				}
			}
		}
	}
	return out
}

func namedOf(t types.Type) string {
	for {
		if p, ok := t.(*types.Pointer); ok {
			t = p.Elem()
			continue
		}
		break
	}
	if n, ok := t.(*types.Named); ok && n.Obj().Pkg() != nil {
		return n.Obj().Pkg().Path() + "." + n.Obj().Name()
	}
	return ""
}

func fieldOf(t types.Type, idx int) (string, string) {
	owner := namedOf(t)
	for {
		if p, ok := t.(*types.Pointer); ok {
			t = p.Elem()
			continue
		}
		break
	}
	st, ok := t.Underlying().(*types.Struct)
	if !ok || idx >= st.NumFields() {
		return owner, ""
	}
	return owner, st.Field(idx).Name()
}

// isAllocLock: v is (a load of) the field `lock` of the allocator
func isAllocLock(v ssa.Value) bool {
	switch x := v.(type) {
	case *ssa.UnOp:
		if x.Op == token.MUL {
			return isAllocLockAddr(x.X)
		}
	}
	return false
}
func isAllocLockAddr(v ssa.Value) bool {
	if fa, ok := v.(*ssa.FieldAddr); ok {
		owner, name := fieldOf(fa.X.Type(), fa.Field)
		return owner == pkgIPAM+".multiCIDRRangeAllocator" && name == "lock"
	}
	return false
}

func posOf(prog *ssa.Program, p token.Pos) string {
	if !p.IsValid() {
		return ""
	}
	ps := prog.Fset.Position(p)
	i := strings.Index(ps.Filename, "/pkg/")
	fn := ps.Filename
	if i >= 0 {
		fn = ps.Filename[i+1:]
	}
	return fmt.Sprintf("%s:%d", fn, ps.Line)
}

func calleeName(c *ssa.CallCommon) string {
	if f := c.StaticCallee(); f != nil {
		return f.String()
	}
	if c.IsInvoke() {
		return "invoke " + c.Method.FullName()
	}
	return ""
}

var blockingCallees = map[string]bool{
	"(*sync.WaitGroup).Wait": true, "time.Sleep": true,
	"k8s.io/client-go/tools/cache.WaitForNamedCacheSync": true, "k8s.io/client-go/tools/cache.WaitForCacheSync": true,
	"k8s.io/apimachinery/pkg/util/wait.UntilWithContext": true, "k8s.io/apimachinery/pkg/util/wait.Until": true,
}

func analyze(prog *ssa.Program, f *ssa.Function, all map[*ssa.Function]bool) *fnFacts {
	ff := &fnFacts{Name: fname(f), Pos: posOf(prog, f.Pos()), Lock: "none"}
	calls := map[string]bool{}
	touches := map[string]bool{}
	blocks := map[string]bool{}
	lockOps := 0
	regular := false
	seenCall := false
	var deferUnlock, firstLock bool
	for bi, b := range f.Blocks {
		for _, ins := range b.Instrs {
			// accesses to tracked fields
			switch x := ins.(type) {
			case *ssa.FieldAddr:
				owner, name := fieldOf(x.X.Type(), x.Field)
				if tracked[owner][name] {
					touches[owner[strings.LastIndex(owner, ".")+1:]+"."+name+"@"+posOf(prog, x.Pos())] = true
				}
				if owner == pkgIPAM+".multiCIDRRangeAllocator" && name == "lock" {
					// every use must be a load feeding Lock/Unlock; checked below through the referrers
					for _, r := range *x.Referrers() {
						if u, ok := r.(*ssa.UnOp); ok && u.Op == token.MUL {
							for _, r2 := range *u.Referrers() {
								switch c := r2.(type) {
								case *ssa.Call, *ssa.Defer:
									_ = c
								default:
									ff.Lock = "irregular"
								}
							}
						} else if _, ok := r.(*ssa.Store); ok && f.Name() != "NewMultiCIDRRangeAllocator" {
							ff.Lock = "irregular"
						}
					}
				}
			case *ssa.Field:
				owner, name := fieldOf(x.X.Type(), x.Field)
				if tracked[owner][name] {
					touches[owner[strings.LastIndex(owner, ".")+1:]+"."+name+"@"+posOf(prog, x.Pos())] = true
				}
			case *ssa.Send:
				blocks["chan send@"+posOf(prog, x.Pos())] = true
			case *ssa.Select:
				if x.Blocking {
					blocks["select@"+posOf(prog, x.Pos())] = true
				}
			case *ssa.UnOp:
				if x.Op == token.ARROW {
					blocks["chan receive@"+posOf(prog, x.Pos())] = true
				}
			}
			// calls
			var cc *ssa.CallCommon
			isDefer, isGo := false, false
			switch x := ins.(type) {
			case *ssa.Call:
				cc = x.Common()
			case *ssa.Defer:
				cc = x.Common()
				isDefer = true
			case *ssa.Go:
				cc = x.Common()
				isGo = true
			}
			if cc == nil {
				continue
			}
			cn := calleeName(cc)
			// the allocator's own lock
			if sc := cc.StaticCallee(); sc != nil && len(cc.Args) > 0 && isAllocLock(cc.Args[0]) {
				lockOps++
				switch sc.String() {
				case "(*sync.Mutex).Lock":
					if bi == 0 && !seenCall && !isDefer && !isGo {
						firstLock = true
					} else {
						ff.Lock = "irregular"
					}
				case "(*sync.Mutex).Unlock":
					if isDefer && firstLock && bi == 0 && !deferUnlock {
						deferUnlock = true
					} else {
						ff.Lock = "irregular"
					}
				default:
					ff.Lock = "irregular"
				}
				seenCall = true
				continue
			}
			seenCall = seenCall || !isDefer || true
			if blockingCallees[cn] || (cc.IsInvoke() && cc.Method.Name() == "Get" && strings.Contains(cc.Value.Type().String(), "workqueue")) {
				blocks[cn+"@"+posOf(prog, ins.Pos())] = true
			}
			if isGo {
				// the callee runs on its own goroutine: an entry point, not a call made while holding anything
				if sc := cc.StaticCallee(); sc != nil && all[sc] {
					goEntries[sc.String()] = "go statement at " + posOf(prog, ins.Pos())
				}
				for _, a := range cc.Args {
					noteFuncValue(a, all, "go statement argument")
				}
				continue
			}
			if sc := cc.StaticCallee(); sc != nil {
				if all[sc] {
					calls[sc.String()] = true
				} else if inOurs(sc) {
					calls[sc.String()] = true
				}
			} else if cc.IsInvoke() {
				// interface call: every method of that name implemented in the two packages (class hierarchy analysis)
				for g := range all {
					if g.Signature.Recv() != nil && g.Name() == cc.Method.Name() && types.Implements(g.Signature.Recv().Type(), cc.Value.Type().Underlying().(*types.Interface)) {
						calls[g.String()] = true
					}
				}
			} else {
				// call of a function value: closures created in this function
				if mc, ok := cc.Value.(*ssa.MakeClosure); ok {
					calls[mc.Fn.(*ssa.Function).String()] = true
				} else if fn, ok := cc.Value.(*ssa.Function); ok {
					calls[fn.String()] = true
				} else if pv, ok := cc.Value.(*ssa.Parameter); ok {
					// a function-typed parameter is invoked here
					if i := paramIndex(f, pv); i >= 0 {
						if paramInvoked[f] == nil {
							paramInvoked[f] = map[int]bool{}
						}
						paramInvoked[f][i] = true
					}
				}
			}
			// function values (or own function-typed parameters) passed to one of our own functions
			if sc := cc.StaticCallee(); sc != nil && all[sc] {
				for i, a := range cc.Args {
					if g := funcValue(a); g != nil && all[g] {
						paramPasses = append(paramPasses, paramPass{callee: sc, idx: i, fn: g, caller: f})
					} else if pv, ok := a.(*ssa.Parameter); ok {
						if _, isFn := pv.Type().Underlying().(*types.Signature); isFn {
							paramPasses = append(paramPasses, paramPass{callee: sc, idx: i, param: pv, caller: f})
						}
					}
				}
			}
			// function values handed to someone else may be called in this context AND later on another goroutine
			if cc.StaticCallee() == nil || !all[cc.StaticCallee()] {
				for _, a := range cc.Args {
					if g := funcValue(a); g != nil && all[g] {
						calls[g.String()] = true
						passedOut[g.String()] = "passed to " + cn + " at " + posOf(prog, ins.Pos())
					}
				}
			}
		}
	}
	// function values stored into data structures (handler tables) escape: entry points
	for _, b := range f.Blocks {
		for _, ins := range b.Instrs {
			if st, ok := ins.(*ssa.Store); ok {
				if g := funcValue(st.Val); g != nil && all[g] {
					passedOut[g.String()] = "stored at " + posOf(prog, st.Pos())
				}
			}
			if mi, ok := ins.(*ssa.MakeInterface); ok {
				// a value of one of our types converted to an interface may have the methods of that interface called by the
				// receiver (methods outside the interface's method set are not reachable through it)
				var inIface map[string]bool
				if it, ok := mi.Type().Underlying().(*types.Interface); ok {
					inIface = map[string]bool{}
					for i := 0; i < it.NumMethods(); i++ {
						inIface[it.Method(i).Name()] = true
					}
				}
				for g := range all {
					if g.Signature.Recv() != nil && types.Identical(deref(g.Signature.Recv().Type()), deref(mi.X.Type())) && (inIface == nil || inIface[g.Name()]) {
						calls[g.String()] = true
					}
				}
			}
		}
	}
	if ff.Lock != "irregular" {
		switch {
		case lockOps == 0:
			ff.Lock = "none"
		case firstLock && deferUnlock && lockOps == 2:
			ff.Lock = "locks"
			regular = true
		default:
			ff.Lock = "irregular"
		}
	}
	_ = regular
	ff.Calls = keys(calls)
	ff.Touches = keys(touches)
	ff.Blocks = keys(blocks)
	return ff
}

func deref(t types.Type) types.Type {
	if p, ok := t.(*types.Pointer); ok {
		return p.Elem()
	}
	return t
}

var goEntries = map[string]string{}
var passedOut = map[string]string{}

// function-typed parameters: which parameters a function invokes (directly, or by handing them on to another function of
// ours that invokes them), and which function values are passed for which parameter at the static call sites.  A function
// value passed to one of our own functions runs inside that function (e.g. a withLock(f) helper): an edge callee -> value.
var paramInvoked = map[*ssa.Function]map[int]bool{}

type paramPass struct {
	callee *ssa.Function
	idx    int
	fn     *ssa.Function  // a function value of ours passed for that parameter, or nil
	param  *ssa.Parameter // or: the caller's own parameter handed on
	caller *ssa.Function
}

var paramPasses []paramPass

// for reachability questions a function value passed to a helper that invokes it is called "by the caller" (one level of
// context): paramEdges are the helper -> value edges added to the lock graph, directEdges the caller -> value edges
var paramEdges = map[string]map[string]bool{}
var directEdges = map[string]map[string]bool{}

func reachableCtx(facts map[string]*fnFacts, roots []string, blocked map[string]bool) map[string]bool {
	ctx := map[string]*fnFacts{}
	for n, ff := range facts {
		var calls []string
		for _, c := range ff.Calls {
			if !paramEdges[n][c] {
				calls = append(calls, c)
			}
		}
		for c := range directEdges[n] {
			calls = append(calls, c)
		}
		ctx[n] = &fnFacts{Name: n, Calls: calls}
	}
	return reachableFrom(ctx, roots, blocked)
}

func paramIndex(f *ssa.Function, p *ssa.Parameter) int {
	for i, q := range f.Params {
		if q == p {
			return i
		}
	}
	return -1
}

func funcValue(v ssa.Value) *ssa.Function {
	switch x := v.(type) {
	case *ssa.Function:
		return x
	case *ssa.MakeClosure:
		if f, ok := x.Fn.(*ssa.Function); ok {
			// bound method wrappers: the underlying method
			return unwrapBound(f)
		}
	case *ssa.ChangeType:
		return funcValue(x.X)
	case *ssa.MakeInterface:
		return funcValue(x.X)
	}
	return nil
}

func unwrapBound(f *ssa.Function) *ssa.Function {
	if strings.HasPrefix(f.Synthetic, "bound method wrapper") {
		for _, b := range f.Blocks {
			for _, ins := range b.Instrs {
				if c, ok := ins.(*ssa.Call); ok {
					if sc := c.Common().StaticCallee(); sc != nil {
						return sc
					}
				}
			}
		}
	}
	return f
}

func noteFuncValue(v ssa.Value, all map[*ssa.Function]bool, why string) {
	if g := funcValue(v); g != nil && all[g] {
		passedOut[g.String()] = why
	}
}

func keys(m map[string]bool) []string {
	out := make([]string, 0, len(m))
	for k := range m {
		out = append(out, k)
	}
	sort.Strings(out)
	return out
}

// entry points: exported methods of the allocator (its public interface), functions started with `go`,
// function values that escape (informer handlers, worker loops handed to wait.Until*)
var ifaceMethods = map[string]bool{}

func markEntries(prog *ssa.Program, fns map[*ssa.Function]bool, facts map[string]*fnFacts) {
	for f := range fns {
		if f.Pkg != nil && f.Pkg.Pkg.Path() == pkgIPAM {
			if obj := f.Pkg.Pkg.Scope().Lookup("CIDRAllocator"); obj != nil {
				if it, ok := obj.Type().Underlying().(*types.Interface); ok {
					for i := 0; i < it.NumMethods(); i++ {
						ifaceMethods[it.Method(i).Name()] = true
					}
				}
			}
			break
		}
	}
	for f := range fns {
		ff := facts[f.String()]
		// the allocator type is unexported: other packages reach it only through the CIDRAllocator interface
		if f.Pkg != nil && f.Pkg.Pkg.Path() == pkgIPAM && f.Signature.Recv() != nil &&
			namedOf(f.Signature.Recv().Type()) == pkgIPAM+".multiCIDRRangeAllocator" && ifaceMethods[f.Name()] {
			ff.Entry = "method of the public CIDRAllocator interface"
		}
		// exported functions of package ipam other than the constructor (construction-time code is exempt)
		if f.Pkg != nil && f.Pkg.Pkg.Path() == pkgIPAM && f.Signature.Recv() == nil && f.Parent() == nil && token.IsExported(f.Name()) &&
			f.Name() != "NewMultiCIDRRangeAllocator" {
			ff.Entry = "exported function"
		}
		if why, ok := goEntries[f.String()]; ok {
			ff.Entry = why
		}
		if why, ok := passedOut[f.String()]; ok && ff.Entry == "" {
			ff.Entry = "function value " + why
		}
	}
}

func coqStr(s string) string { return "\"" + strings.ReplaceAll(s, "\"", "'") + "\"" }

func emitLock(dir string, names []string, facts map[string]*fnFacts) {
	idx := map[string]int{}
	for i, n := range names {
		idx[n] = i
	}
	var sb strings.Builder
	sb.WriteString("(* GENERATED by /verif/translator from the current /repo source -- do not edit *)\n")
	sb.WriteString("From NIPAM Require Import LockCheck.\nFrom Coq Require Import String List NArith.\nImport ListNotations.\nOpen Scope N_scope.\n\n")
	sb.WriteString("Definition program : list fn := [\n")
	for i, n := range names {
		f := facts[n]
		mode := map[string]string{"none": "NoLock", "locks": "Locks", "irregular": "Irregular"}[f.Lock]
		var cs []string
		for _, c := range f.Calls {
			if j, ok := idx[c]; ok {
				cs = append(cs, fmt.Sprintf("%d", j))
			}
		}
		sep := ";"
		if i == len(names)-1 {
			sep = ""
		}
		sb.WriteString(fmt.Sprintf("  (* %d %s *) mkFn %s [%s] %v %v %v%s\n", i, strings.ReplaceAll(strings.ReplaceAll(n, "(*", "(ptr "), "*)", ")"), mode, strings.Join(cs, "; "),
			len(f.Touches) > 0, len(f.Blocks) > 0, f.Entry != "", sep))
	}
	sb.WriteString("].\n")
	writeAtomic(dir+"/Facts_lock.v", []byte(sb.String()))
}

var mutSites []string

func emitMut(dir string, names []string, facts map[string]*fnFacts) {
	var sb strings.Builder
	sb.WriteString("(* GENERATED by /verif/translator from the current /repo source -- do not edit *)\n")
	sb.WriteString("From Coq Require Import List String.\nImport ListNotations.\nOpen Scope string_scope.\n\n")
	sb.WriteString("(* instructions that could write through an informer-cache object (taint analysis over SSA) *)\n")
	sb.WriteString("Definition cache_write_sites : list string := [\n")
	for i, s := range mutSites {
		sep := ";"
		if i == len(mutSites)-1 {
			sep = ""
		}
		sb.WriteString("  " + coqStr(s) + sep + "\n")
	}
	sb.WriteString("].\n")
	writeAtomic(dir+"/Facts_mut.v", []byte(sb.String()))
}

func emitStartup(dir string, prog *ssa.Program, mainPkg *ssa.Package) {
	// order, in runControllers (callees of package main inlined), of: listing the nodes, constructing the allocator (with
	// that list), starting the informers, Run
	order := map[string]int{}
	passesList := false
	isList := func(cc *ssa.CallCommon) bool {
		name := calleeName(cc)
		return strings.Contains(name, "NodeInterface.List") || (cc.IsInvoke() && cc.Method.Name() == "List" && strings.Contains(cc.Value.Type().String(), "NodeInterface"))
	}
	cl := func(cc *ssa.CallCommon, ins ssa.Instruction) string {
		name := calleeName(cc)
		switch {
		case isList(cc):
			return "list"
		case strings.HasSuffix(name, "ipam.NewMultiCIDRRangeAllocator"):
			return "construct"
		case cc.IsInvoke() && cc.Method.Name() == "Start" && strings.Contains(cc.Value.Type().String(), "SharedInformerFactory"):
			return "start"
		case cc.IsInvoke() && cc.Method.Name() == "Run" && strings.Contains(cc.Value.Type().String(), "CIDRAllocator"):
			return "run"
		}
		return ""
	}
	other := func(ins ssa.Instruction) string {
		if g, ok := ins.(*ssa.Go); ok {
			gc := g.Common()
			if gc.IsInvoke() && gc.Method.Name() == "Run" {
				return "run"
			}
		}
		return ""
	}
	inMain := func(g *ssa.Function) bool { return mainPkg != nil && g.Pkg == mainPkg }
	if mainPkg != nil {
		if f := mainPkg.Func("runControllers"); f != nil {
			tr := traceOf(f, map[*ssa.Function]bool{}, cl, other, inMain)
			for i, e := range tr {
				if _, ok := order[e]; !ok || e == "construct" || e == "run" {
					order[e] = i + 1
				}
			}
			// the node list argument (7th) of the constructor must come from the List call: directly, or through a function of
			// package main that performs it
			var srcs []ssa.Value
			var ctorCall *ssa.CallCommon
			for _, b := range f.Blocks {
				for _, ins := range b.Instrs {
					c, ok := ins.(ssa.CallInstruction)
					if !ok {
						continue
					}
					cc := c.Common()
					if isList(cc) {
						if v, ok := ins.(ssa.Value); ok {
							srcs = append(srcs, v)
						}
					} else if sc := cc.StaticCallee(); sc != nil && inMain(sc) {
						for _, e := range traceOf(sc, map[*ssa.Function]bool{}, cl, other, inMain) {
							if e == "list" {
								if v, ok := ins.(ssa.Value); ok {
									srcs = append(srcs, v)
								}
								break
							}
						}
					}
					if strings.HasSuffix(calleeName(cc), "ipam.NewMultiCIDRRangeAllocator") {
						ctorCall = cc
					}
				}
			}
			if ctorCall != nil && len(ctorCall.Args) >= 7 {
				for _, src := range srcs {
					if derivesFrom(ctorCall.Args[6], src, 6) {
						passesList = true
					}
				}
			}
		}
	}
	var sb strings.Builder
	sb.WriteString("(* GENERATED by /verif/translator from the current /repo source (main.go:runControllers) -- do not edit *)\n")
	sb.WriteString("From NIPAM Require Import StartupCheck.\n\n")
	sb.WriteString(fmt.Sprintf("Definition startup : startup_facts := mkStartup %d %d %d %d %v.\n",
		order["list"], order["construct"], order["start"], order["run"], passesList))
	writeAtomic(dir+"/Facts_startup.v", []byte(sb.String()))
}

func derivesFrom(v, src ssa.Value, depth int) bool {
	if v == src {
		return true
	}
	if depth == 0 {
		return false
	}
	switch x := v.(type) {
	case *ssa.Extract:
		return derivesFrom(x.Tuple, src, depth-1)
	case *ssa.UnOp:
		return derivesFrom(x.X, src, depth-1)
	case *ssa.Phi:
		for _, e := range x.Edges {
			if derivesFrom(e, src, depth-1) {
				return true
			}
		}
	case *ssa.ChangeType:
		return derivesFrom(x.X, src, depth-1)
	case *ssa.MakeInterface:
		return derivesFrom(x.X, src, depth-1)
	}
	return false
}

// writeAtomic replaces path in one step (checks of several properties may run the translator at the same time) and stops
// the run when the file cannot be written: a stale facts file must never be checked in place of the current one.
func writeAtomic(path string, data []byte) {
	tmp := fmt.Sprintf("%s.%d.tmp", path, os.Getpid())
	if err := os.WriteFile(tmp, data, 0o644); err != nil {
		fmt.Fprintln(os.Stderr, "translator: cannot write", tmp, err)
		os.Exit(2)
	}
	if err := os.Rename(tmp, path); err != nil {
		fmt.Fprintln(os.Stderr, "translator: cannot replace", path, err)
		os.Exit(2)
	}
}
