// trace.go -- linearised event traces of a function with its callees inlined (functions of the analysed packages, function
// literals, and function values passed for parameters that the callee invokes): the order of the primitive operations the
// wiring facts talk about does not depend on how the surrounding code is cut into helper functions.
package main

import (
	"go/constant"
	"go/token"
	"go/types"
	"sort"
	"strings"

	"golang.org/x/tools/go/ssa"
)

// classify returns the primitive event of a call instruction, or "" (then the callee may be inlined).
type classifier func(cc *ssa.CallCommon, ins ssa.Instruction) string

type tracer struct {
	fns      map[*ssa.Function]bool
	classify classifier
	other    func(ins ssa.Instruction) string // events of non-call instructions
	inline   func(f *ssa.Function) bool
	out      []string
}

func (t *tracer) walk(f *ssa.Function, env map[*ssa.Parameter]*ssa.Function, depth int, stack map[*ssa.Function]bool) {
	if f == nil || depth == 0 || stack[f] || len(f.Blocks) == 0 {
		return
	}
	stack[f] = true
	defer delete(stack, f)
	var deferred []func()
	// source order, not block order: the blocks of a loop's exit are created before the blocks of its body's branches
	type item struct {
		pos token.Pos
		seq int
		ins ssa.Instruction
	}
	var items []item
	last := f.Pos()
	for _, b := range f.Blocks {
		for _, ins := range b.Instrs {
			p := ins.Pos()
			if !p.IsValid() {
				p = last
			}
			last = p
			items = append(items, item{p, len(items), ins})
		}
	}
	sort.SliceStable(items, func(i, j int) bool {
		if items[i].pos != items[j].pos {
			return items[i].pos < items[j].pos
		}
		return items[i].seq < items[j].seq
	})
	for _, it := range items {
		{
			ins := it.ins
			if t.other != nil {
				if ev := t.other(ins); ev != "" {
					t.out = append(t.out, ev)
				}
			}
			var cc *ssa.CallCommon
			isDefer := false
			switch x := ins.(type) {
			case *ssa.Call:
				cc = x.Common()
			case *ssa.Defer:
				cc = x.Common()
				isDefer = true
			case *ssa.Go:
				continue
			}
			if cc == nil {
				continue
			}
			if ev := t.classify(cc, ins); ev != "" {
				if isDefer {
					e := ev
					deferred = append(deferred, func() { t.out = append(t.out, e) })
				} else {
					t.out = append(t.out, ev)
				}
				continue
			}
			// whom does this call run?
			var callee *ssa.Function
			if sc := cc.StaticCallee(); sc != nil {
				callee = sc
			} else if g := funcValue(cc.Value); g != nil {
				callee = g
			} else if pv, ok := cc.Value.(*ssa.Parameter); ok {
				callee = env[pv]
			}
			if callee == nil || !(t.fns[callee] || (t.inline != nil && t.inline(callee))) {
				continue
			}
			// bind the callee's function-typed parameters to the function values passed here
			cenv := map[*ssa.Parameter]*ssa.Function{}
			for i, a := range cc.Args {
				if i >= len(callee.Params) {
					break
				}
				if g := funcValue(a); g != nil {
					cenv[callee.Params[i]] = g
				} else if pv, ok := a.(*ssa.Parameter); ok && env[pv] != nil {
					cenv[callee.Params[i]] = env[pv]
				}
			}
			c := callee
			if isDefer {
				deferred = append(deferred, func() { t.walk(c, cenv, depth-1, stack) })
			} else {
				t.walk(c, cenv, depth-1, stack)
			}
		}
	}
	for i := len(deferred) - 1; i >= 0; i-- {
		deferred[i]()
	}
}

func traceOf(f *ssa.Function, fns map[*ssa.Function]bool, cl classifier, other func(ssa.Instruction) string, inline func(*ssa.Function) bool) []string {
	t := &tracer{fns: fns, classify: cl, other: other, inline: inline}
	t.walk(f, map[*ssa.Parameter]*ssa.Function{}, 8, map[*ssa.Function]bool{})
	return t.out
}

func recvOf(f *ssa.Function) string {
	if f != nil && f.Signature.Recv() != nil {
		return f.Signature.Recv().Type().String()
	}
	return ""
}

// the primitive operations of the allocator the C09 wiring talks about
func svcClassify(cc *ssa.CallCommon, ins ssa.Instruction) string {
	if bi, ok := cc.Value.(*ssa.Builtin); ok && bi.Name() == "delete" && len(cc.Args) > 0 {
		if u, ok := cc.Args[0].(*ssa.UnOp); ok {
			if fa, ok := u.X.(*ssa.FieldAddr); ok {
				if _, name := fieldOf(fa.X.Type(), fa.Field); name == "AssociatedNodes" {
					return "assocdel"
				}
			}
		}
		return ""
	}
	callee := cc.StaticCallee()
	if callee == nil {
		return ""
	}
	recv := recvOf(callee)
	switch {
	case callee.Name() == "createClusterCIDR" && strings.Contains(recv, "multiCIDRRangeAllocator"):
		last := cc.Args[len(cc.Args)-1]
		if k, ok := last.(*ssa.Const); ok && k.Value != nil && k.Value.Kind() == constant.Bool {
			if constant.BoolVal(k.Value) {
				return "boot"
			}
			return "create"
		}
		return "bootdyn"
	case callee.Name() == "occupyServiceCIDR" && strings.Contains(recv, "multiCIDRRangeAllocator"):
		return "mark"
	case callee.Name() == "occupyCIDRs" && strings.Contains(recv, "multiCIDRRangeAllocator"):
		return "occupy"
	case callee.Name() == "Release" && strings.Contains(recv, "multiCIDRRangeAllocator"):
		return "release"
	case callee.Name() == "Release" && strings.Contains(recv, "MultiCIDRSet"):
		return "poolrelease"
	}
	return ""
}

func svcOther(ins ssa.Instruction) string {
	if st, ok := ins.(*ssa.Store); ok {
		if fa, ok := st.Addr.(*ssa.FieldAddr); ok {
			if _, name := fieldOf(fa.X.Type(), fa.Field); name == "serviceCIDRs" {
				return "append"
			}
		}
	}
	return ""
}

// reachability in the call graph of the lock facts (static calls, interface calls, function values, invoked parameters)
func reachableFrom(facts map[string]*fnFacts, roots []string, blocked map[string]bool) map[string]bool {
	seen := map[string]bool{}
	var st []string
	for _, r := range roots {
		if !blocked[r] && !seen[r] {
			seen[r] = true
			st = append(st, r)
		}
	}
	for len(st) > 0 {
		n := st[len(st)-1]
		st = st[:len(st)-1]
		ff := facts[n]
		if ff == nil {
			continue
		}
		for _, c := range ff.Calls {
			if !seen[c] && !blocked[c] {
				seen[c] = true
				st = append(st, c)
			}
		}
	}
	return seen
}

func isFuncType(t types.Type) bool {
	_, ok := t.Underlying().(*types.Signature)
	return ok
}
