package main

// Cache-object taint analysis (C20): values obtained from the informer listers and the objects
// handed to informer event handlers are shared cache objects.  The analysis follows them through
// field / index / dereference / conversion / phi instructions and through calls into functions of
// the two packages (parameter taint), and reports every instruction that could write through them:
// stores, map updates, appends on their slices, and calls that hand them to functions outside an
// allow-list of read-only callees.

import (
	"fmt"
	"go/token"
	"go/types"
	"sort"
	"strings"

	"golang.org/x/tools/go/ssa"
)

var readOnlyCallees = []string{
	"k8s.io/klog/v2.", "(k8s.io/klog/v2.", "fmt.", "errors.", "strings.", "(*k8s.io/klog/v2.",
	"k8s.io/apimachinery/pkg/api/errors.", "k8s.io/client-go/tools/cache.MetaNamespaceKeyFunc", "k8s.io/client-go/tools/cache.DeletionHandlingMetaNamespaceKeyFunc",
	"sigs.k8s.io/node-ipam-controller/pkg/util/slice.ContainsString",
	"sigs.k8s.io/node-ipam-controller/pkg/util/node.RecordNodeStatusChange",
	"k8s.io/utils/net.", "(*net.IPNet).", "(net.IP).", "net.", "k8s.io/apimachinery/pkg/labels.", "(k8s.io/apimachinery/pkg/labels.",
	"(*k8s.io/apimachinery/pkg/apis/meta/v1.Time).IsZero", "(*k8s.io/apimachinery/pkg/apis/meta/v1.ObjectMeta).Get", "(*k8s.io/api/core/v1.Node).Get",
	"(*sigs.k8s.io/node-ipam-controller/pkg/apis/clustercidr/v1.ClusterCIDR).Get",
	"(*sigs.k8s.io/node-ipam-controller/pkg/apis/clustercidr/v1.ClusterCIDR).DeepCopy", "(*k8s.io/api/core/v1.Node).DeepCopy",
	"k8s.io/apimachinery/pkg/types.", "len", "cap", "copy-src",
	"(github.com/go-logr/logr.Logger).", "(*k8s.io/apimachinery/pkg/labels.Requirement).Matches", "k8s.io/klog/v2.KObj", "k8s.io/klog/v2.KRef",
}

func isReadOnlyCallee(name string) bool {
	for _, p := range readOnlyCallees {
		if strings.HasPrefix(name, p) {
			return true
		}
	}
	return false
}

// interface methods that only read their receiver / record events
var readOnlyInvokes = map[string]bool{
	"Event": true, "Eventf": true, "AnnotatedEventf": true, "GetName": true, "GetFinalizers": true, "GetDeletionTimestamp": true,
	"Info": true, "Error": true, "V": true, "Get": true, "List": true, "Matches": true, "String": true, "Enabled": true,
}

type mutAnalysis struct {
	prog    *ssa.Program
	fns     map[*ssa.Function]bool
	tainted map[ssa.Value]bool
	params  map[*ssa.Parameter]bool
	sites   map[string]bool
	changed bool
}

func isListerCall(cc *ssa.CallCommon) bool {
	if !cc.IsInvoke() {
		return false
	}
	t := cc.Value.Type().String()
	return (cc.Method.Name() == "Get" || cc.Method.Name() == "List") &&
		(strings.Contains(t, "listers/core/v1.NodeLister") || strings.Contains(t, "listers/clustercidr/v1.ClusterCIDRLister"))
}

func pointerLike(t types.Type) bool {
	switch t.Underlying().(type) {
	case *types.Pointer, *types.Slice, *types.Map, *types.Interface:
		return true
	}
	return false
}

func (a *mutAnalysis) taint(v ssa.Value) {
	if v == nil || a.tainted[v] {
		return
	}
	a.tainted[v] = true
	a.changed = true
}

func (a *mutAnalysis) isT(v ssa.Value) bool { return a.tainted[v] }

func (a *mutAnalysis) site(f *ssa.Function, pos token.Pos, what string) {
	a.sites[fmt.Sprintf("%s: %s (%s)", posOf(a.prog, pos), what, f.String())] = true
}

func runMut(prog *ssa.Program, fns map[*ssa.Function]bool, handlerClosures map[string]bool) []string {
	a := &mutAnalysis{prog: prog, fns: fns, tainted: map[ssa.Value]bool{}, params: map[*ssa.Parameter]bool{}, sites: map[string]bool{}}
	// seeds: parameters of informer handler closures
	for f := range fns {
		if handlerClosures[f.String()] {
			for _, p := range f.Params {
				if pointerLike(p.Type()) {
					a.taint(p)
				}
			}
		}
	}
	for iter := 0; iter < 50; iter++ {
		a.changed = false
		for f := range fns {
			for _, b := range f.Blocks {
				for _, ins := range b.Instrs {
					a.flow(f, ins)
				}
			}
		}
		if !a.changed {
			break
		}
	}
	// sinks
	for f := range fns {
		for _, b := range f.Blocks {
			for _, ins := range b.Instrs {
				a.sink(f, ins)
			}
		}
	}
	out := make([]string, 0, len(a.sites))
	for s := range a.sites {
		out = append(out, s)
	}
	sort.Strings(out)
	return out
}

func (a *mutAnalysis) flow(f *ssa.Function, ins ssa.Instruction) {
	switch x := ins.(type) {
	case *ssa.Call:
		cc := x.Common()
		if isListerCall(cc) {
			a.taint(x)
		}
		// DeepCopy results are fresh; everything else returning pointer-like data derived from tainted args stays clean
		// interprocedural: tainted arguments taint the callee's parameters
		if sc := cc.StaticCallee(); sc != nil && a.fns[sc] {
			for i, arg := range cc.Args {
				if a.isT(arg) && i < len(sc.Params) {
					a.taint(sc.Params[i])
				}
			}
			// results of our own functions: tainted if they return a tainted value
			for _, b := range sc.Blocks {
				for _, in2 := range b.Instrs {
					if r, ok := in2.(*ssa.Return); ok {
						for _, rv := range r.Results {
							if a.isT(rv) {
								a.taint(x)
							}
						}
					}
				}
			}
		} else if mc, ok := cc.Value.(*ssa.MakeClosure); ok {
			if g, ok := mc.Fn.(*ssa.Function); ok {
				for i, arg := range cc.Args {
					if a.isT(arg) && i < len(g.Params) {
						a.taint(g.Params[i])
					}
				}
			}
		}
	case *ssa.Extract:
		if a.isT(x.Tuple) && pointerLike(x.Type()) {
			a.taint(x)
		}
	case *ssa.FieldAddr:
		if a.isT(x.X) {
			a.taint(x)
		}
	case *ssa.Field:
		if a.isT(x.X) && pointerLike(x.Type()) {
			a.taint(x)
		}
	case *ssa.IndexAddr:
		if a.isT(x.X) {
			a.taint(x)
		}
	case *ssa.Index:
		if a.isT(x.X) && pointerLike(x.Type()) {
			a.taint(x)
		}
	case *ssa.Lookup:
		if a.isT(x.X) && pointerLike(x.Type()) {
			a.taint(x)
		}
	case *ssa.UnOp:
		if x.Op == token.MUL && a.isT(x.X) && pointerLike(x.Type()) {
			a.taint(x)
		}
		if x.Op == token.MUL && a.isT(x.X) {
			// loading a struct by value out of a cache object yields a copy whose pointer-like fields still alias the cache:
			// handled by Field above when they are pointer-like
			if _, ok := x.Type().Underlying().(*types.Struct); ok {
				a.taint(x)
			}
		}
	case *ssa.TypeAssert:
		if a.isT(x.X) {
			a.taint(x)
		}
	case *ssa.ChangeType:
		if a.isT(x.X) {
			a.taint(x)
		}
	case *ssa.ChangeInterface:
		if a.isT(x.X) {
			a.taint(x)
		}
	case *ssa.MakeInterface:
		if a.isT(x.X) {
			a.taint(x)
		}
	case *ssa.Slice:
		if a.isT(x.X) {
			a.taint(x)
		}
	case *ssa.Phi:
		for _, e := range x.Edges {
			if a.isT(e) {
				a.taint(x)
			}
		}
	case *ssa.Store:
		// a tainted pointer stored into a local variable: loads from that variable are tainted
		if a.isT(x.Val) {
			if al, ok := x.Addr.(*ssa.Alloc); ok {
				a.taint(al)
			}
		}
	case *ssa.MakeClosure:
		// free variables
		if g, ok := x.Fn.(*ssa.Function); ok {
			for i, b := range x.Bindings {
				if a.isT(b) && i < len(g.FreeVars) {
					a.taint(g.FreeVars[i])
				}
			}
		}
	case *ssa.Range, *ssa.Next:
	}
}

func (a *mutAnalysis) sink(f *ssa.Function, ins ssa.Instruction) {
	switch x := ins.(type) {
	case *ssa.Store:
		// writing THROUGH a tainted address (not: storing into a local variable that merely holds a tainted pointer)
		if _, isAlloc := x.Addr.(*ssa.Alloc); !isAlloc && a.isT(x.Addr) {
			a.site(f, x.Pos(), "store through a cache object")
		}
	case *ssa.MapUpdate:
		if a.isT(x.Map) {
			a.site(f, x.Pos(), "map update on a cache object")
		}
	case *ssa.Call:
		cc := x.Common()
		if b, ok := cc.Value.(*ssa.Builtin); ok {
			switch b.Name() {
			case "append":
				if len(cc.Args) > 0 && a.isT(cc.Args[0]) {
					a.site(f, x.Pos(), "append on a slice of a cache object (may write its backing array)")
				}
			case "copy":
				if len(cc.Args) > 0 && a.isT(cc.Args[0]) {
					a.site(f, x.Pos(), "copy into a slice of a cache object")
				}
			case "delete":
				if len(cc.Args) > 0 && a.isT(cc.Args[0]) {
					a.site(f, x.Pos(), "delete from a map of a cache object")
				}
			}
			return
		}
		name := calleeName(cc)
		if sc := cc.StaticCallee(); sc != nil && a.fns[sc] {
			return // analysed interprocedurally
		}
		if _, ok := cc.Value.(*ssa.MakeClosure); ok {
			return
		}
		if cc.IsInvoke() {
			if readOnlyInvokes[cc.Method.Name()] {
				return
			}
			// DeepCopy / DeepCopyObject through an interface
			if strings.HasPrefix(cc.Method.Name(), "DeepCopy") {
				return
			}
		} else if isReadOnlyCallee(name) {
			return
		}
		args := cc.Args
		if cc.IsInvoke() && a.isT(cc.Value) {
			a.site(f, x.Pos(), "cache object is the receiver of "+name+" (not on the read-only list)")
		}
		for _, arg := range args {
			if a.isT(arg) && pointerLike(arg.Type()) {
				a.site(f, x.Pos(), "cache object passed to "+name+" (not on the read-only list)")
			}
		}
	}
}
