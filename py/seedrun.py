#!/usr/bin/env python3
"""seedrun.py [--all] [seed-id ...] -- run the registered quick checks against every stored seeded change.

Works in isolation: a copy of /verif (without .git) under /var/tmp/vseed_<pid> and a scratch git worktree of /repo,
so /repo's working tree and /verif's evidence are not touched and other checks can run meanwhile. For each
seeded change the patch is applied to the scratch worktree, the checks run with VERIF_REPO pointing at it,
and the outcome (exit code, VIOLATION lines, whether the replay carries a concrete failing input) is recorded in
/verif/seeded/<id>/meta.json (detected_by) and /verif/seeded/RESULTS.json.  Default: the seed's own property
check; --all: every check."""
import json, os, shutil, subprocess, sys, time

ROOT = os.path.dirname(os.path.dirname(os.path.abspath(__file__)))
ALL = ["C%02d" % i for i in range(1, 21)]
args = [a for a in sys.argv[1:] if not a.startswith("--")]
run_all = "--all" in sys.argv
seeds = args or sorted(d for d in os.listdir(os.path.join(ROOT, "seeded")) if os.path.isdir(os.path.join(ROOT, "seeded", d)))
tag = str(os.getpid())
copy = "/var/tmp/vseed_" + tag
wt = "/var/tmp/vseed_repo_" + tag
env = dict(os.environ, GOFLAGS="-mod=mod", GOPROXY="off", GOSUMDB="off", GOTOOLCHAIN="local", VERIF_REPO=wt)


def sh(cmd, cwd=None):
    p = subprocess.run(cmd, shell=True, cwd=cwd, env=env, stdout=subprocess.PIPE, stderr=subprocess.STDOUT, text=True)
    return p.returncode, p.stdout


try:
    sh("rsync -a --exclude .git --exclude replays %s/ %s/" % (ROOT, copy))
    os.makedirs(copy + "/replays", exist_ok=True)
    rc, out = sh("git -C /repo worktree add -q --detach %s HEAD" % wt)
    assert rc == 0, out
    results = {}
    rp = os.path.join(ROOT, "seeded", "RESULTS.json")
    if os.path.exists(rp):
        results = json.load(open(rp))
    for s in seeds:
        sd = os.path.join(ROOT, "seeded", s)
        meta = json.load(open(os.path.join(sd, "meta.json")))
        prop = meta.get("property", s[:3])
        rc, out = sh("git apply %s/patch.diff" % sd, cwd=wt)
        if rc != 0:
            print(s, "patch does not apply:", out[-300:], flush=True)
            results[s] = {"error": "patch does not apply on the current tree"}
            continue
        ids = ALL if run_all else [prop]
        det = results.get(s, {}).get("checks", {}) if isinstance(results.get(s), dict) else {}
        for cid in ids:
            t0 = time.time()
            rc, out = sh("%s/check %s" % (copy, cid))
            vl = [l for l in out.splitlines() if l.startswith("VIOLATION")]
            kinds = []
            for l in vl:
                rpath = l.split("replay=")[1].split()[0]
                try:
                    r = json.load(open(rpath))
                    kinds.append({"kind": r.get("kind"), "clause": r.get("monitor_clause") or r.get("theorem_or_correspondence"),
                                  "concrete_input": not l.rstrip().endswith("no-failing-input-found"),
                                  "case": (r.get("case") or r.get("input") or r.get("first_difference") or "")})
                except Exception as e:
                    kinds.append({"kind": "?", "line": l})
            det[cid] = {"exit": rc, "violations": len(vl), "reports": kinds, "seconds": round(time.time() - t0)}
            print(s, cid, "rc=%d" % rc, [(k.get("kind"), k.get("concrete_input")) for k in kinds], "%.0fs" % (time.time() - t0), flush=True)
        sh("git checkout -- . && git clean -fdq", cwd=wt)
        results[s] = {"property": prop, "checks": det}
        meta["detected_by"] = sorted(c for c, d in det.items() if d["exit"] != 0)
        meta["detected_with_concrete_input"] = sorted(c for c, d in det.items() if any(k.get("concrete_input") for k in d["reports"]))
        json.dump(meta, open(os.path.join(sd, "meta.json"), "w"), indent=1)
        merged = json.load(open(rp)) if os.path.exists(rp) else {}
        merged[s] = results[s]
        json.dump(merged, open(rp, "w"), indent=1)
finally:
    sh("git -C /repo worktree remove --force %s" % wt)
    shutil.rmtree(copy, ignore_errors=True)
    shutil.rmtree(wt, ignore_errors=True)
    sh("git -C /repo worktree prune")
