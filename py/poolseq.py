"""poolseq -- operation sequences on pools (C14, C19) and the reference set machine used as monitor."""
from geomgen import W, hexa, cidr_tok, mask, clean_base, meets_zone, v4mapped

SHAPES = ["block", "sub", "multi", "range", "super", "outside", "otherfam", "edge"]


def pick_geometry(rng, small=False):
    fam = rng.choice(["v4", "v4", "v6", "v6"])
    w = W[fam]
    bits = rng.choice([0, 1, 2, 2, 3, 4, 4, 6, 8]) if not small else rng.choice([0, 1, 2])
    if fam == "v4":
        nlen = rng.choice([32, 32, 31, 30, 28, 28, 24, 24, 20, 16, 12, 8])
    else:
        # node masks on both sides of (and at) the 64-bit boundary, ranges straddling it
        nlen = rng.choice([128, 127, 124, 120, 116, 112, 96, 80, 72, 68, 66, 65, 64, 64, 63, 60, 56, 48])
    bits = min(bits, nlen)
    clen = nlen - bits
    if fam == "v4" and (clen, nlen) == (0, 32):
        clen = 1
    return fam, clen, nlen


def arg_of_shape(rng, shape, fam, base, clen, nlen):
    w = W[fam]
    maxc, bs = 1 << (nlen - clen), 1 << (w - nlen)
    i = rng.randrange(maxc)
    blk = base + i * bs
    if shape == "block":
        return fam, blk, nlen
    if shape == "sub":
        if nlen == w:
            return fam, blk, nlen
        l = rng.randint(nlen + 1, w)
        return fam, mask(fam, blk + rng.randrange(bs), l), l
    if shape == "multi":
        l = rng.randint(clen, nlen)
        return fam, mask(fam, blk, l), l
    if shape == "range":
        return fam, base, clen
    if shape == "super":
        l = rng.randint(0, clen)
        return fam, mask(fam, base, l), l
    if shape == "edge":   # first or last block
        return fam, base + (0 if rng.random() < 0.5 else (maxc - 1) * bs), nlen
    if shape == "outside":
        if clen == 0:
            return fam, blk, nlen
        bit = rng.randrange(clen)
        ob = base ^ (1 << (w - 1 - bit))
        l = rng.randint(clen, w)
        return fam, mask(fam, ob + rng.randrange(1 << (w - clen)), l), l
    of = "v6" if fam == "v4" else "v4"
    l = rng.randint(0, W[of])
    return of, mask(of, rng.getrandbits(W[of]), l), l


class RefPool:
    """reference machine: a set of block numbers + cursor + the four metric series"""

    def __init__(self, fam, base, clen, nlen):
        self.fam, self.base, self.clen, self.nlen = fam, base, clen, nlen
        self.w = W[fam]
        self.bs, self.maxc = 1 << (self.w - nlen), 1 << (nlen - clen)
        self.used, self.cur = set(), 0
        self.alloc = self.rel = 0
        self.usage = None

    def touched(self, fam, a, l):
        if fam != self.fam:
            return None
        size, asz = self.maxc * self.bs, 1 << (self.w - l)
        if a + asz <= self.base or self.base + size <= a:
            return None
        lo, hi = max(a, self.base), min(a + asz, self.base + size) - 1
        return range((lo - self.base) // self.bs, (hi - self.base) // self.bs + 1)

    def key(self, i):
        return "%s:%s/%d" % (self.fam, hexa(self.fam, self.base + i * self.bs), self.nlen)

    def snap(self):
        return "snap %d %d [%s]" % (len(self.used), self.cur, ",".join(sorted(self.key(i) for i in self.used)))

    def met(self):
        return "met %s %s %s %d" % (self.alloc or "-", self.rel or "-", "-" if self.usage is None else self.usage, self.maxc)

    def step(self, op, metrics):
        f = op.split()
        tail = lambda: self.snap() + (" ; " + self.met() if metrics else "")
        if f[0] in ("occ", "rel"):
            t = self.touched(f[2], int(f[3], 16), int(f[4]))
            if t is None:
                return "%s err ; %s" % (f[0], tail())
            for i in t:
                if f[0] == "occ" and i not in self.used:
                    self.used.add(i)
                    self.alloc += 1
                elif f[0] == "rel" and i in self.used:
                    self.used.discard(i)
                    self.rel += 1
            self.usage = len(self.used)
            return "%s ok ; %s" % (f[0], tail())
        if f[0] == "next":
            if len(self.used) == self.maxc:
                return "next exhausted 0 ; " + tail()
            sk, c = 0, self.cur
            while c in self.used:
                c, sk = (c + 1) % self.maxc, sk + 1
            self.cur = (c + 1) % self.maxc
            return "next cand %s %d ; %s" % (self.key(c), sk, tail())
        return None


def gen_sequence(rng, fam, base, clen, nlen, length, pid="p"):
    lines = ["pool %s %s %s %d %d" % (pid, fam, hexa(fam, base), clen, W[fam] - nlen)]
    shapes = []
    for _ in range(length):
        r = rng.random()
        if r < 0.25:
            lines.append("next %s" % pid)
            shapes.append("next")
            continue
        shape = rng.choice(SHAPES)
        f2, a, l = arg_of_shape(rng, shape, fam, base, clen, nlen)
        if v4mapped(f2, a):
            continue
        lines.append("%s %s %s" % ("occ" if r < 0.65 else "rel", pid, cidr_tok(f2, a, l)))
        shapes.append(shape)
    return lines, shapes


def exhaustive_small(rng, maxbits=2):
    """every reachable (used-set, cursor) of pools with capacity <= 2^maxbits, combined with every operation:
    for each state one op sequence reaching it (BFS over the reference machine), then each op"""
    cases = []
    for fam, clen, nlen in [("v4", 24 - 0, 24), ("v4", 23, 24), ("v4", 30, 32), ("v6", 62, 64), ("v6", 118, 120)]:
        if nlen - clen > maxbits:
            continue
        base = clean_base(rng, fam, clen, "rand")
        ref0 = RefPool(fam, base, clen, nlen)
        maxc, bs = ref0.maxc, ref0.bs
        # candidate ops: occupy/release each block, a sub-block, the range, an outside cidr; next
        ops = []
        for i in range(maxc):
            ops.append("occ p " + cidr_tok(fam, base + i * bs, nlen))
            ops.append("rel p " + cidr_tok(fam, base + i * bs, nlen))
        ops += ["occ p " + cidr_tok(fam, base, clen), "rel p " + cidr_tok(fam, base, clen), "next p"]
        if clen > 0:
            ob = base ^ (1 << (W[fam] - clen))
            ops += ["occ p " + cidr_tok(fam, ob, nlen), "rel p " + cidr_tok(fam, ob, nlen)]
        if nlen < W[fam]:
            ops += ["occ p " + cidr_tok(fam, base + (maxc - 1) * bs + bs // 2, nlen + 1)]
        # BFS over reference states
        seen = {(frozenset(), 0): []}
        frontier = [(frozenset(), 0)]
        while frontier:
            nxt = []
            for st in frontier:
                for op in ops:
                    r = RefPool(fam, base, clen, nlen)
                    r.used, r.cur = set(st[0]), st[1]
                    r.step(op, False)
                    st2 = (frozenset(r.used), r.cur)
                    if st2 not in seen:
                        seen[st2] = seen[st] + [op]
                        nxt.append(st2)
            frontier = nxt
        head = "pool p %s %s %d %d" % (fam, hexa(fam, base), clen, W[fam] - nlen)
        n = 0
        for st, path in seen.items():
            for op in ops:
                cases.append(("ex_%s_%d_%d_%d" % (fam, clen, nlen, n), [head] + path + [op]))
                n += 1
    return cases
