import sys
sys.path.insert(0,'/verif/py')
import syscorr, sysmon
casefile, cid, start = sys.argv[1], sys.argv[2], int(sys.argv[3])
fields = sys.argv[4].split(',') if len(sys.argv)>4 else ['res','fx','q','snap']
lines=open(casefile).read().split('\n')
out=[];on=False
for l in lines:
    if l.startswith('case '):
        on = (l=='case '+cid)
        continue
    if on and l.strip(): out.append(l)
res,_=syscorr.run_both([("x",out)],"one")
_,ops,io,mo=res[0]
DEF='6b756265726e657465732e696f2f636c75737465724349445220696e202864656661756c7429'
for k,(op,o,m) in enumerate(zip(ops,io,mo)):
    if k>=start: print(k,op,'|',' | '.join(o[f].replace(DEF,'DEF') for f in fields), '' if all(o[f]==m[f] or (f=='res' and o[f]=='*') for f in fields) else ' <<<MODEL DIFFERS: '+' | '.join(m[f].replace(DEF,'DEF') for f in fields))
