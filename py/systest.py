import sys, random
sys.path.insert(0,'/verif/py')
import vlib, syscorr, sysgen
ok,out,_=vlib.harness_build(); assert ok, out
ok,out,_=vlib.model_build(); assert ok, out
seed=int(sys.argv[1]) if len(sys.argv)>1 else 1
n=int(sys.argv[2]) if len(sys.argv)>2 else 300
rng=random.Random(seed)
cases, agg = sysgen.gen_histories(rng, n)
sc, cnt = sysgen.gen_scenarios(rng, n)
cases += sc
res, st = syscorr.run_both(cases, "systest")
bad=0
for cid, lines, io, mo in res:
    m = syscorr.first_mismatch(lines, io, mo, ["res","fx","rq","snap","q","api","cache"])
    if m:
        bad+=1
        if bad<=int(sys.argv[3] if len(sys.argv)>3 else 5):
            print(cid, m); print("   ", lines[:m['step']+1][-8:])
print("mismatching cases", bad, "of", len(cases), st)
