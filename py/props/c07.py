"""C07 -- the ClusterCIDR serving a node follows the documented priority order."""
import random
import vlib
import corr
import syscorr
import sysmon
from geomgen import hexa

SELKEYS = ["-", "7a6f6e6520696e20286129", "7a6f6e6520696e20286229", "74696572", "7a6f6e6520696e2028612c6229"]   # "", "zone in (a)", "zone in (b)", "tier", "zone in (a,b)"
V4 = [(0x0a000000, 24), (0x0a000100, 24), (0x0a000000, 25), (0x0a000200, 26), (0xc0a80000, 28), (0x0a000000, 23)]
V6 = [(0xfd000000 << 96, 120), (0xfd000001 << 96, 120), (0xfd000000 << 96, 122), ((0xfd000000 << 96) + 0x100, 124)]


def tok4(a, l):
    return "v4:%s/%d" % (hexa("v4", a), l)


def tok6(a, l):
    return "v6:%s/%d" % (hexa("v6", a), l)


def gen_item(rng, fams):
    hb = rng.choice([4, 4, 5, 6])
    r4, r6 = rng.choice(V4), rng.choice(V6)
    if "4" in fams:
        hb = min(hb, 32 - r4[1])
    if "6" in fams:
        hb = min(hb, 128 - r6[1])
    v4 = tok4(*r4) if "4" in fams else "-"
    v6 = tok6(*r6) if "6" in fams else "-"
    return "%d %s %s %s %d" % (rng.choice([0, 1, 1, 2]), rng.choice(SELKEYS), v4, v6, hb)


def gen_less(rng, n):
    lines = []
    for _ in range(n):
        fams = rng.choice(["4", "4", "6", "46"])
        a = gen_item(rng, fams)
        r = rng.random()
        if r < 0.15:
            b = a                                   # full tie
        elif r < 0.6:                               # tie on a prefix of the keys
            fa = a.split()
            fb = gen_item(rng, fams).split()
            k = rng.randint(0, 2)                   # copy the first k fields (match count, selector)
            b = " ".join(fa[:k] + fb[k:])
            if rng.random() < 0.5:                  # same size keys, different range
                b = " ".join(fb[:2] + fa[2:])
        else:
            b = gen_item(rng, rng.choice(["4", "6", "46"]))
        lines.append("less %s | %s" % (a, b))
    return lines


def py_key(item, labels):
    cnt, sel, v4, v6, hb = item.split()
    hb = int(hb)

    def maxc(tok, w):
        return 1 << (w - hb - int(tok.split("/")[1])) if tok != "-" else (1 << 63) - 1
    ma = min(maxc(v4, 32), maxc(v6, 128))
    nms = (32 - hb) if v4 != "-" else (128 - hb)
    lab = labels.get(v4 if v4 != "-" else v6, "")
    return (-int(cnt), ma, -nms, bytes.fromhex(sel) if sel != "-" else b"", lab)


def gen_population(rng, i, sels=None, labelsets=None):
    """2-8 ClusterCIDRs of the same families in random creation order, disjoint ranges, then nodes until exhaustion"""
    fams = rng.choice(["4", "4", "46"])
    n = rng.randint(2, 8)
    sels = sels or ["-", "-", "zone:In:a", "zone:In:a+b", "tier:Exists:", "zone:In:a;tier:Exists:", "zone:NotIn:b", "zone:In:b"]
    ops = []
    names = ["c%d" % j for j in range(1, n + 1)]
    rng.shuffle(names)
    used4 = rng.sample(range(16), n)
    for j, nm in enumerate(names):
        hb = rng.choice([4, 4, 5])
        l4 = rng.choice([26, 27, 28])
        if 32 - hb < l4:
            hb = 32 - l4
        v4 = tok4(0x0a000000 + used4[j] * 64, l4)
        v6 = tok6((0xfd000000 << 96) + used4[j] * 256, rng.choice([122, 123, 124])) if fams == "46" else "-"
        ops.append("cc+ %s %s %s %d %s - 1 %d" % (nm, v4, v6, hb, rng.choice(sels), j))
    pre = rng.random() < 0.5
    body = ["construct - - -", "start"] + ["pc ok"] * n if pre else []
    if not pre:
        body = ["construct - - -", "start"]
        ops2 = []
        for o in ops:
            ops2 += [o, "dc", "pc ok", "dc", "pc ok"]
        ops = []
        body += ops2
    ops = ops + body
    labelsets = labelsets or ["zone=a", "zone=a,tier=x", "zone=b", "tier=x", "-", "zone=c"]
    for ls in labelsets:
        ops.append("om %s 1" % ls)
    for k in range(1, 13):
        ls = rng.choice(labelsets)
        ops += ["n+ n%d %s -" % (k, ls), "dn", "om %s 1" % ls, "pn ok", "dn", "pn ok", "tick", "pn ok", "pn ok"]
    return ("pop%d" % i, ops)


def serving_monitor(t):
    """every PATCH comes from the first eligible ClusterCIDR with room in the order the controller itself reports
    (the order itself is checked against the documented keys by order_monitor)"""
    bad = []
    last_order = None
    for k, op in enumerate(t.ops):
        for e in t.fx[k]:
            if e["kind"] == "order":
                last_order = (k, e["names"])
        if op.startswith("pn") and last_order is not None and last_order[0] == k - 1:
            patches = [e for e in t.fx[k] if e["kind"] == "patch"]
            specs = t.spec_at(k)
            cached = {n["name"]: n for n in t.cache[k - 1][0]}
            ready = t.q[k - 1].split("/")[0]
            node = ready.split(",")[0] if ready != "-" else None
            if node is None or node not in cached or cached[node]["cidrs"]:
                continue
            want = {}
            for kv in ([] if t.ops[k - 1].split()[1] == "-" else t.ops[k - 1].split()[1].split(",")):
                a, _, b = kv.partition("=")
                want[a] = b
            if cached[node]["labels"] != want:
                continue      # the order was queried for another label set
            ents = {en["name"]: en for en in (t.snap[k - 1] or [])}
            expect = None
            for nm in last_order[1]:
                if nm in ents and nm in specs and sysmon.has_room(t, k - 1, ents[nm], specs[nm]):
                    expect = nm
                    break
            got = None
            if patches:
                ent = sysmon.entry_of_patch(t.snap[k], patches[0]["node"], patches[0]["cidrs"])
                got = ent["name"] if ent else "?"
            if got != expect:
                bad.append({"step": k, "clause": "node not served from the first ClusterCIDR with room in priority order",
                            "detail": "%s: expected %s, served from %s (order %s)" % (node, expect, got, last_order[1]), "cls": "wrong-serving-clustercidr"})
    return bad


def order_monitor(t, orc):
    """the reported order follows the documented keys for the ClusterCIDRs with a selector; those without come last"""
    bad = []
    for k, op in enumerate(t.ops):
        f = op.split()
        if f[0] != "om":
            continue
        labels = {}
        for kv in ([] if f[1] == "-" else f[1].split(",")):
            a, _, b = kv.partition("=")
            labels[a] = b
        specs = t.spec_at(k)
        for e in t.fx[k]:
            if e["kind"] != "order":
                continue
            names = e["names"]
            withsel = [n for n in names if n in specs and specs[n]["sel"] != "-"]
            nosel = [n for n in names if n in specs and specs[n]["sel"] == "-"]
            if names != withsel + nosel:
                bad.append({"step": k, "clause": "a ClusterCIDR without selector does not come last", "detail": str(names), "cls": "selectorless-not-last"})
            # completeness: every mapped ClusterCIDR that is eligible for these labels (selector satisfied, or none; not
            # terminating when the list is asked for an allocation) is in the list -- those without a selector included, last
            if t.snap[k] is not None:
                eligible = {en["name"] for en in t.snap[k] if en["name"] in specs and not (f[2] == "1" and en["term"])
                            and (specs[en["name"]]["sel"] == "-" or sysmon.sel_matches(specs[en["name"]]["sel"], labels))}
                missing = sorted(eligible - set(names))
                if missing:
                    bad.append({"step": k, "clause": "an eligible ClusterCIDR is missing from the candidate order", "detail": "%s missing from %s" % (missing, names), "cls": "eligible-missing"})

            def key(n):
                sp = specs[n]
                cnt = sum(1 for r in sp["sel"].split(";") if r and sysmon.sel_matches(r, labels))
                hb = sp["hb"]
                ma = min((1 << (32 - hb - sp["v4"][2])) if sp["v4"] else (1 << 63) - 1, (1 << (128 - hb - sp["v6"][2])) if sp["v6"] else (1 << 63) - 1)
                nms = (32 - hb) if sp["v4"] else (128 - hb)
                rng_tok = "%s:%s/%d" % (sp["v4"][0], hexa(sp["v4"][0], sp["v4"][1]), sp["v4"][2]) if sp["v4"] else "%s:%s/%d" % (sp["v6"][0], hexa(sp["v6"][0], sp["v6"][1]), sp["v6"][2])
                return (-cnt, ma, -nms, orc["selkey"].get(sp["sel"], b""), orc["label"].get(rng_tok, b""))
            ks = [key(n) for n in withsel]
            if ks != sorted(ks):
                bad.append({"step": k, "clause": "reported order violates the documented priority keys", "detail": "%s keys %s" % (withsel, ks), "cls": "order-violates-keys"})
            for n in withsel:
                if not sysmon.sel_matches(specs[n]["sel"], labels):
                    bad.append({"step": k, "clause": "a ClusterCIDR whose selector is not satisfied is considered", "detail": n, "cls": "unselected-considered"})
    return bad


def load_orc(path):
    orc = {"selkey": {}, "label": {}}
    for l in open(path):
        f = l.split()
        if f[0] == "selkey" and f[2] != "fail":
            orc["selkey"][f[1]] = bytes.fromhex(f[2]) if f[2] != "-" else b""
        elif f[0] == "label":
            orc["label"][f[1]] = bytes.fromhex(f[2])
    return orc


def run(res, tier, seed):
    vlib.standard_proof_step(res, "C07")
    if not vlib.build_executors(res, "C07"):
        return
    rng = random.Random(seed)
    # part A: Less on pairs with ties at every level
    lines = gen_less(rng, 6000 if tier == "quick" else 60000)
    cases = [("less%d" % i, lines[i:i + 3000]) for i in range(0, len(lines), 3000)]
    mism, impl, st = corr.run_both("prio", cases, "C07", annotate=True)
    res.obligation("correspondence: PriorityQueue.Less = model less on %d pairs (ties at each of the five levels)" % len(lines), not mism)
    # monitor: documented key order, independently in Python
    labels = {}
    for l in open(st["casefile"] + ".orc"):
        f = l.split()
        if f[0] == "label":
            labels[f[1]] = bytes.fromhex(f[2])
    flat_obs = [l for b in impl for l in b[1:]]
    mon = []
    for op, ob in zip(lines, flat_obs):
        a, b = op[5:].split(" | ")
        exp = "less 1" if py_key(a, labels) < py_key(b, labels) else "less 0"
        if exp != ob:
            mon.append({"op": op, "impl": ob, "model": exp})
    res.obligation("monitor: Less = lexicographic order on the five documented keys", not mon)
    # part B: populations: reported order and serving ClusterCIDR
    npop = 150 if tier == "quick" else 1500
    pops = [gen_population(rng, i) for i in range(npop)]
    results, st2 = syscorr.run_both(pops, "C07pop")
    orc = load_orc(st2["casefile"] + ".orc")
    pm, fails = [], []
    for cid, ls, iobs, mobs in results:
        mm = syscorr.first_mismatch(ls, iobs, mobs, ["fx", "res"])
        if mm:
            pm.append((cid, ls, mm))
        t = sysmon.Trace(cid, ls, iobs)
        for f in order_monitor(t, orc) + serving_monitor(t):
            fails.append((cid, ls, f))
    res.obligation("correspondence: orderedMatchingClusterCIDRs order and serving ClusterCIDR = model on %d populations" % npop, not pm)
    res.obligation("monitor: reported order follows the documented keys; every node is served from the first ClusterCIDR with room", not fails)
    ties = sum(1 for l in lines if l[5:].split(" | ")[0] == l[5:].split(" | ")[1])
    res.coverage.update({
        "evaluations": len(lines) + sum(len(o) for _, o in pops), "distinct_nontrivial": len(set(lines)) + npop,
        "rule": "Less on pairs of items over small key domains (15% full ties, 45% ties on a prefix of the five keys); populations of 2-8 ClusterCIDRs of the same "
                "families with disjoint ranges in random creation order (listed at start-up or created at run time), the order queried for 6 label sets, then 12 nodes "
                "allocated until exhaustion; non-trivial = distinct pair / population",
        "samples": [lines[0], lines[1], pops[0][1][:12]],
        "distribution": {"less_pairs": len(lines), "full_ties": ties, "populations": npop},
        "timing": {"less": st, "populations": st2}, "traces_validated_against_impl": len(lines) + npop,
    })
    for m in (mism + mon)[:4]:
        res.violation({"property": "C07", "kind": "impl-violation", "theorem_or_correspondence": "Less vs documented order", "case": [m["op"]],
                       "impl_obs": m["impl"], "model_obs": m["model"]})
    seen = set()
    for cid, ls, f in fails:
        if f["cls"] in seen:
            continue
        seen.add(f["cls"])
        res.violation({"property": "C07", "kind": "impl-violation", "theorem_or_correspondence": "monitor on the implementation's trace",
                       "monitor_clause": f["clause"], "detail": f["detail"], "case": ["case " + cid] + ls[:f["step"] + 1]})
    if pm and not fails:
        cid, ls, mm = pm[0]
        res.violation({"property": "C07", "kind": "correspondence-break", "theorem_or_correspondence": "model vs real orderedMatchingClusterCIDRs / serving",
                       "first_difference": mm, "case": ["case " + cid] + ls[:mm["step"] + 1]}, nofail=True)
