"""C19 -- exported pool metrics agree with the pool's real state."""
import c14

TECH = "Coq proof (ghost metric invariant over all op sequences) + differential correspondence on gathered Prometheus values + /metrics endpoint sub-check"


def run(res, tier, seed):
    c14.run(res, tier, seed, pid="C19", metrics=True)
