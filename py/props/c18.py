"""C18 -- validation accepts exactly the documented specs; spec is immutable."""
import random
import vlib
import corr
from geomgen import hexa, mask


def xtok(text):
    return "x:" + text.encode().hex()


SELS = ["-", "0", "zone:In:a", "zone:In:", "zone:NotIn:a+b", "zone:Exists:", "zone:Exists:a", "zone:DoesNotExist:", "rack:Gt:3", "rack:Gt:3+4",
        "rack:Lt:", "zone:Foo:a", "-bad-:In:a", "zone:In:a;tier:Exists:", "zone:In:a|tier:Exists:", "F.metadata.name:In:n1", "F.metadata.name:In:n1+n2",
        "F.metadata.name:Exists:", "F.spec.foo:In:n1", "F.metadata.name:In:-Bad-", "zone:In:a;F.metadata.name:NotIn:n1",
        # key validity (IsQualifiedName) and node-name validity (IsDNS1123Subdomain) are computed by the model (ValidSel.v, Lbl.v)
        "example.com/zone:In:a", "Example.com/zone:In:a", "a/b/c:Exists:", "/x:Exists:", "x/:Exists:", "a..b/c:Exists:", "k8s.io/in:In:in", "in:In:a", "notin:Exists:",
        "%s:Exists:" % ("z" * 63), "%s:Exists:" % ("z" * 64), "a.b-c_d/E.f-g_h:Exists:", "ex-ample.com/x_:Exists:", "ex_ample.com/x:Exists:", "%s/x:Exists:" % ".".join(["a" * 63] * 4),
        "%s/x:Exists:" % (".".join(["a" * 63] * 3) + "." + "b" * 61), "-a.com/x:Exists:", "a-.com/x:Exists:", "zone:In:EMPTY", "zone:Gt:EMPTY",
        "F.metadata.name:In:n1.example.com", "F.metadata.name:In:N1", "F.metadata.name:In:a..b", "F.metadata.name:In:EMPTY", "F.metadata.name:NotIn:%s" % ".".join(["a" * 63] * 4),
        "F.metadata.name:In:%s" % (".".join(["a" * 63] * 3) + "." + "b" * 61), "F.metadata.name:In:%s" % (".".join(["a" * 63] * 3) + "." + "b" * 62), "F.metadata.name:In:a-", "F.metadata.name:Gt:5",
        "F.Metadata.name:In:n1", "zone:In:a|F.metadata.name:In:n1|-", ""]
BAD = ["abc", "10.0.0.0", "10.0.0.0/33", "fd00::/129", "/24", " 10.0.0.0/24", "10.0.0.1/24", "::ffff:10.0.0.0/104"]


def gen_cases(rng, tier):
    lines = []
    hbs = list(range(-2, 131))
    sel_ok = [s for s in SELS if s != ""]
    # single family, every prefix length x every host-bit value
    for l in range(0, 33):
        t = "v4:%s/%d" % (hexa("v4", mask("v4", rng.getrandbits(32), l)), l)
        for hb in hbs:
            lines.append("vspec %s - %d -" % (t, hb))
    step = 1 if tier == "thorough" else 3
    for l in list(range(0, 129, step)) + [128]:
        t = "v6:%s/%d" % (hexa("v6", mask("v6", rng.getrandbits(128), l)), l)
        for hb in hbs:
            lines.append("vspec - %s %d -" % (t, hb))
    # wrong family in a field, malformed, empty, dual stack, selector shapes
    n = 20000 if tier == "quick" else 200000
    for _ in range(n):
        def fld(fam):
            k = rng.random()
            l4, l6 = rng.randint(0, 32), rng.randint(0, 128)
            t4 = "v4:%s/%d" % (hexa("v4", mask("v4", rng.getrandbits(32), l4)), l4)
            t6 = "v6:%s/%d" % (hexa("v6", mask("v6", rng.getrandbits(128), l6)), l6)
            if k < 0.55:
                return t4 if fam == 4 else t6
            if k < 0.7:
                return "-"
            if k < 0.85:
                return t6 if fam == 4 else t4
            return xtok(rng.choice(BAD))
        hb = rng.choice(hbs + [4, 4, 8, 8, 16, 24, 28, 32, 64, 100, 124, 128])
        lines.append("vspec %s %s %d %s" % (fld(4), fld(6), hb, rng.choice(sel_ok)))
    # updates: pairs differing in every subset of the four fields
    m = 300 if tier == "quick" else 3000
    for _ in range(m):
        base = ["v4:%s/%d" % (hexa("v4", 0x0a000000), 8), "v6:%s/%d" % (hexa("v6", 0xfd << 120), 64), str(rng.randint(4, 8)), rng.choice(sel_ok)]
        alt = ["v4:%s/%d" % (hexa("v4", 0x0b000000), 8), "-", str(rng.randint(9, 12)), rng.choice(sel_ok)]
        for subset in range(16):
            u = [alt[i] if subset >> i & 1 else base[i] for i in range(4)]
            lines.append("vupd %s | %s" % (" ".join(u), " ".join(base)))
    return lines


def accepts_py(line):
    """independent statement of the documented acceptance condition (used as monitor where it needs no library oracle)"""
    return None


def run(res, tier, seed):
    vlib.standard_proof_step(res, "C18")
    if not vlib.build_executors(res, "C18"):
        return
    rng = random.Random(seed)
    lines = gen_cases(rng, tier)
    cases = [("grid%d" % i, lines[i:i + 2000]) for i in range(0, len(lines), 2000)]
    mism, impl, st = corr.run_both("valid", cases, "C18", annotate=True)
    res.obligation("correspondence: ValidateClusterCIDRSpec / ValidateClusterCIDRUpdate error counts = model on %d specs" % len(lines), not mism)
    flat = [l for b in impl for l in b[1:]]
    acc = sum(1 for l in flat if l == "errs 0")
    res.coverage.update({
        "evaluations": len(lines), "distinct_nontrivial": len(set(lines)),
        "rule": "grid: every IPv4 prefix length x perNodeHostBits -2..130; IPv6 prefix lengths (every 3rd in quick, all in thorough) x the same; "
                "random dual-stack / wrong-family / malformed / empty fields x 52 selector shapes (operators, value counts, qualified-name and DNS-subdomain boundaries of keys and node names); update pairs differing in every subset of the four spec fields; "
                "a case is non-trivial when its line is distinct",
        "samples": [lines[0], lines[len(lines) // 2], lines[-1]],
        "distribution": {"accepted": acc, "rejected": len(flat) - acc, "update_pairs": sum(1 for l in lines if l.startswith("vupd"))},
        "timing": st, "traces_validated_against_impl": len(lines), "exhaustive": False,
    })
    for m in mism[:5]:
        res.violation({"property": "C18", "kind": "impl-violation",
                       "theorem_or_correspondence": "model (= documented acceptance condition by C18_validation_accepts_exactly_documented) vs validation.go",
                       "case": [m["op"]], "impl_obs": m["impl"], "model_obs": m["model"]})
