"""C03 -- system-level check (see csys.py)."""
import csys


def run(res, tier, seed):
    csys.run(res, tier, seed, "C03")


def replay(res, path):
    csys.replay(res, path, "C03")
