"""C03 -- a restart loses no assignment and resurrects none: system check + start-up wiring facts from main.go."""
import json
import os
import shutil
import csys
import c16
import vlib


def run(res, tier, seed):
    csys.run(res, tier, seed, "C03")
    ok, out = c16.translator_build()
    ok2, out2, dt = c16.run_translator() if ok else (False, out, 0)
    res.obligation("start-up facts regenerated from /repo's main.go (order of listing, construction, informer start, Run)", ok and ok2)
    if not (ok and ok2):
        res.violation({"property": "C03", "kind": "proof-break", "theorem_or_correspondence": "translator", "detail": (out + str(out2))[-2000:]}, nofail=True)
        return
    shutil.copy(os.path.join(vlib.COQ, "Properties", "C03_current.v.tmpl"), os.path.join(c16.GEN, "C03_current.v"))
    with vlib.Lock("coq.lock"):
        rc1, o1, _ = vlib.sh("timeout 600 coqc -Q .. NIPAM -R . Gen Facts_startup.v 2>&1", cwd=c16.GEN, timeout=700, check=False)
        rc2, o2, _ = vlib.sh("timeout 600 coqc -Q .. NIPAM -R . Gen C03_current.v 2>&1", cwd=c16.GEN, timeout=700, check=False) if rc1 == 0 else (1, o1, 0)
    res.obligation("theorem current_startup_ok : startup_ok startup = true (nodes listed before construction, that list passed to the constructor, informers started after, Run last)", rc2 == 0)
    txt = open(os.path.join(c16.GEN, "Facts_startup.v")).read()
    res.coverage["startup_facts"] = [l for l in txt.splitlines() if l.startswith("Definition")]
    if rc2 != 0:
        res.violation({"property": "C03", "kind": "static-path", "theorem_or_correspondence": "gen/C03_current.v: startup_ok startup = true no longer holds",
                       "violation": "main.go no longer lists the nodes before constructing the allocator with that list and starting the informers afterwards",
                       "facts": res.coverage["startup_facts"]})


def replay(res, path):
    csys.replay(res, path, "C03")
