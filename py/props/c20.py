"""C20 -- cached objects are never modified in place: static taint analysis (translator) + runtime deep hashes."""
import json
import os
import shutil
import csys
import c16
import vlib


def run(res, tier, seed):
    csys.run(res, tier, seed, "C20")
    ok, out = c16.translator_build()
    ok2, out2, dt = c16.run_translator() if ok else (False, out, 0)
    res.obligation("facts regenerated from /repo's current source (SSA taint analysis of informer-cache objects)", ok and ok2)
    if not (ok and ok2):
        res.violation({"property": "C20", "kind": "proof-break", "theorem_or_correspondence": "translator", "detail": (out + str(out2))[-2000:]}, nofail=True)
        return
    shutil.copy(os.path.join(vlib.COQ, "Properties", "C20_current.v.tmpl"), os.path.join(c16.GEN, "C20_current.v"))
    with vlib.Lock("coq.lock"):
        rc1, o1, _ = vlib.sh("timeout 600 coqc -Q .. NIPAM -R . Gen Facts_mut.v 2>&1", cwd=c16.GEN, timeout=700, check=False)
        rc2, o2, _ = vlib.sh("timeout 600 coqc -Q .. NIPAM -R . Gen C20_current.v 2>&1", cwd=c16.GEN, timeout=700, check=False) if rc1 == 0 else (1, o1, 0)
    res.obligation("theorem current_tree_no_cache_writes : cache_write_sites = [] (regenerated facts)", rc2 == 0)
    facts = json.load(open(os.path.join(c16.GEN, "facts.json")))
    sites = facts.get("cache_write_sites") or []
    res.coverage["static_cache_write_sites"] = sites
    res.coverage["static_functions_analysed"] = len(facts["functions"])
    res.assumptions.append("static part: the translator's taint rules (sources: lister Get/List results and informer handler arguments; propagation through field/index/"
                           "deref/convert/phi and calls inside the two packages; sinks: stores, map updates, append/copy/delete on tainted data, calls handing tainted "
                           "pointers to callees outside the read-only allow-list) are trusted; runtime part: every cached object is hashed before and after every step")
    if rc2 != 0:
        if sites:
            res.violation({"property": "C20", "kind": "static-path", "theorem_or_correspondence": "gen/C20_current.v: cache_write_sites = [] no longer holds",
                           "violation": "instruction(s) that can write through an informer-cache object", "sites": sites})
        else:
            res.violation({"property": "C20", "kind": "proof-break", "theorem_or_correspondence": "gen/C20_current.v", "detail": (o1 + o2)[-2000:]}, nofail=True)


def replay(res, path):
    csys.replay(res, path, "C20")
