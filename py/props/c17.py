"""C17 -- a ClusterCIDR applies to exactly the nodes its selector describes."""
import random
import vlib
import corr

KEYS = ["zone", "tier", "rack", "in", "notin", "example.com/zone", "a.b/c", "x", "node.kubernetes.io/instance-type", "exists",
        "In", "NotIn", "Exists", "DoesNotExist", "gt", "lt", "a_b", "A.b-c/d_e", "0", "k8s.io/in", "notin.io/notin"]
VALS = ["a", "b", "c", "in", "notin", "1", "5", "10", "-3", "007", "x-y", "v1.2", "EMPTY", "9223372036854775807", "abc",
        "A_b", "0", "a.b", "x" * 63, "notin_", "in-x", "In", "exists", "1e3", "0x10", "+5", "9223372036854775808"]
OPS = ["In", "NotIn", "Exists", "DoesNotExist", "Gt", "Lt"]


def gen_req(rng):
    k = rng.choice(KEYS)
    op = rng.choice(OPS)
    if op in ("In", "NotIn"):
        vs = [rng.choice(VALS) for _ in range(rng.randint(1, 3))]
        if rng.random() < 0.06:
            vs = ["EMPTY"] * rng.randint(1, 4)      # only empty strings: "(,,)" is not read back by labels.Parse (D23)
    elif op in ("Gt", "Lt"):
        vs = [rng.choice(["1", "5", "10", "-3", "007", "0", "9223372036854775807"])]
    else:
        vs = []
    return "%s:%s:%s" % (k, op, "+".join(vs))


def gen_sel(rng):
    r = rng.random()
    if r < 0.05:
        return "-"
    n = rng.choice([1, 1, 2, 2, 3, 4])
    reqs = [gen_req(rng) for _ in range(n)]
    if rng.random() < 0.15:
        reqs.append(reqs[0])      # a repeated requirement
    return ";".join(reqs)


def gen_labels(rng):
    n = rng.choice([0, 1, 2, 3, 4])
    ks = rng.sample(KEYS, n)
    kv = ["%s=%s" % (k, rng.choice([v for v in VALS if v != "EMPTY"] + [""])) for k in ks]
    return ",".join(kv) if kv else "-"


def run(res, tier, seed):
    vlib.standard_proof_step(res, "C17")
    if not vlib.build_executors(res, "C17"):
        return
    rng = random.Random(seed)
    nsel = 1500 if tier == "quick" else 15000
    sels = list({gen_sel(rng) for _ in range(nsel)})
    labelsets = list({gen_labels(rng) for _ in range(40)})
    lines = []
    for s in sels:
        lines.append("selkey " + s)
        for ls in rng.sample(labelsets, 12):
            lines.append("match %s %s" % (s, ls))
    cases = [("sel%d" % i, lines[i:i + 2600]) for i in range(0, len(lines), 2600)]
    mism, impl, st = corr.run_both("sel", cases, "C17", annotate=True)
    res.obligation("correspondence: real nodeSelectorKey+matchCIDRLabels (through print/parse of the key) = match_reqs on the selector's own requirements, %d (selector, labels) pairs" % (len(lines) - len(sels)), not mism)
    # same key => same meaning (monitor on the implementation's answers)
    flat_ops = [l for _, ls in cases for l in ls]
    flat_obs = [l for b in impl for l in b[1:]]
    key_of, by_key = {}, {}
    res_of = {}
    for op, ob in zip(flat_ops, flat_obs):
        f = op.split()
        if f[0] == "selkey":
            key_of[f[1]] = ob
        else:
            res_of.setdefault(f[1], {})[f[2]] = ob
    confl = []
    for s, k in key_of.items():
        if k == "key fail":
            continue
        by_key.setdefault(k, []).append(s)
    for k, ss in by_key.items():
        for a in ss[1:]:
            common = set(res_of.get(a, {})) & set(res_of.get(ss[0], {}))
            for ls in common:
                if res_of[a][ls] != res_of[ss[0]][ls]:
                    confl.append((ss[0], a, ls))
    res.obligation("monitor: selectors filed under the same key agree on every label set tried", not confl)
    matched = sum(1 for l in flat_obs if l.startswith("match 1"))
    res.coverage.update({
        "evaluations": len(lines), "distinct_nontrivial": len(set(lines)),
        "rule": "single-term selectors of 1..5 requirements over the six operators with keys that look like operators ('in', 'notin', 'exists'), prefixed keys, "
                "numeric / empty / duplicated values, repeated requirements; each against 12 of 40 label sets; non-trivial = distinct line",
        "samples": [lines[1], lines[len(lines) // 2], lines[-1]],
        "distribution": {"selectors": len(sels), "label_sets": len(labelsets), "matched": matched, "not_matched": sum(1 for l in flat_obs if l.startswith("match 0")),
                         "key_failed": sum(1 for l in flat_obs if l == "key fail"), "keys_shared_by_several_selectors": sum(1 for v in by_key.values() if len(v) > 1)},
        "timing": st, "traces_validated_against_impl": len(lines),
    })
    for m in mism[:5]:
        res.violation({"property": "C17", "kind": "impl-violation",
                       "theorem_or_correspondence": "hypothesis RT of C17_partial_* (print/parse round trip) / requirement semantics: model vs real matchCIDRLabels",
                       "case": [m["op"]], "impl_obs": m["impl"], "model_obs": m["model"]})
    for a, b, ls in confl[:3]:
        res.violation({"property": "C17", "kind": "impl-violation", "theorem_or_correspondence": "same key, different meaning",
                       "case": ["selkey " + a, "selkey " + b, "match %s %s" % (a, ls), "match %s %s" % (b, ls)]})
