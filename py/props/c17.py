"""C17 -- a ClusterCIDR applies to exactly the nodes its selector describes."""
import random
import vlib
import corr

KEYS = ["zone", "tier", "rack", "in", "notin", "example.com/zone", "a.b/c", "x", "node.kubernetes.io/instance-type", "exists",
        "In", "NotIn", "Exists", "DoesNotExist", "gt", "lt", "a_b", "A.b-c/d_e", "0", "k8s.io/in", "notin.io/notin"]
VALS = ["a", "b", "c", "in", "notin", "1", "5", "10", "-3", "007", "x-y", "v1.2", "EMPTY", "9223372036854775807", "abc",
        "A_b", "0", "a.b", "x" * 63, "notin_", "in-x", "In", "exists", "1e3", "0x10", "+5", "9223372036854775808"]
OPS = ["In", "NotIn", "Exists", "DoesNotExist", "Gt", "Lt"]


def gen_req(rng):
    k = rng.choice(KEYS)
    op = rng.choice(OPS)
    if op in ("In", "NotIn"):
        vs = [rng.choice(VALS) for _ in range(rng.randint(1, 3))]
        if rng.random() < 0.06:
            vs = ["EMPTY"] * rng.randint(1, 4)      # only empty strings: "(,,)" is not read back by labels.Parse (D23)
    elif op in ("Gt", "Lt"):
        vs = [rng.choice(["1", "5", "10", "-3", "007", "0", "9223372036854775807"])]
    else:
        vs = []
    return "%s:%s:%s" % (k, op, "+".join(vs))


def gen_sel(rng):
    r = rng.random()
    if r < 0.05:
        return "-"
    n = rng.choice([1, 1, 2, 2, 3, 4])
    reqs = [gen_req(rng) for _ in range(n)]
    if rng.random() < 0.15:
        reqs.append(reqs[0])      # a repeated requirement
    return ";".join(reqs)


def gen_labels(rng):
    n = rng.choice([0, 1, 2, 3, 4])
    ks = rng.sample(KEYS, n)
    kv = ["%s=%s" % (k, rng.choice([v for v in VALS if v != "EMPTY"] + [""])) for k in ks]
    return ",".join(kv) if kv else "-"


# ---- arbitrary strings for labels.Parse (the lexer / parser model of Lbl.v against the real library)
ATOMS = ["a", "b", "zone", "in", "notin", "x-y", "k8s.io/a", "A_b.c", "5", "-3", "007", "9223372036854775808", "a/b/c", "-a", "a-", "", "Z" * 64,
         "example.com/x", "Example.com/x", "/x", "x/", "a..b/c", "in/in", "notin/in", "1e3", "\x00", "\x00", "\t", "\n", "\r", "exists", "!a"]
SYMS = ["=", "==", "!=", "!", "(", ")", ",", ">", "<", " ", "  ", ",", ",", "(", ")", " in ", " notin ", " in (", " notin (", "===", "!==", "=!", ",,", ",,,", "()", "(,)"]


def gen_text(rng):
    """mostly well-formed selector texts, with a share of token soup"""
    r = rng.random()
    if r < 0.55:
        parts = []
        for _ in range(rng.choice([1, 1, 2, 3, 5])):
            k = rng.choice(ATOMS[:10] + ["example.com/x", "in/in"])
            f = rng.random()
            if f < 0.12:
                parts.append(k)
            elif f < 0.22:
                parts.append("!" + k)
            elif f < 0.62:
                n = rng.choice([0, 1, 1, 2, 3, 4, 5])
                vs = [rng.choice(["", "", "a", "b", "in", "notin", "x-y", "5", "A_b.c"]) for _ in range(n)]
                sep = rng.choice([",", ",", ", ", " ,"])
                parts.append("%s%s%s(%s)" % (k, rng.choice([" ", "  ", "\t"]), rng.choice(["in", "notin"]) + rng.choice([" ", "", "  "]), sep.join(vs)))
            elif f < 0.8:
                parts.append(k + rng.choice(["=", "==", "!=", " = ", "== "]) + rng.choice(["a", "", "in", "5", "x-y", "-a"]))
            else:
                parts.append(k + rng.choice([">", "<", " > ", "< "]) + rng.choice(["5", "-3", "007", "a", "", "9223372036854775808", "1e3"]))
        return rng.choice([",", ",", ",", ",", " , ", ",,"]).join(parts) + rng.choice([""] * 12 + [",", " ", "\x00", ")"])
    n = rng.randint(0, 9)
    return "".join(rng.choice(ATOMS if rng.random() < 0.5 else SYMS) for _ in range(n))


def hx(s):
    b = s.encode("latin-1")
    return b.hex() if b else "-"


POPS = {"In": "PIn", "NotIn": "PNotIn", "Eq": "PEq", "DEq": "PDEq", "Ne": "PNe", "Exists": "PExists", "DoesNotExist": "PDNE", "Gt": "PGt", "Lt": "PLt"}


def xcheck_lbl(res, pairs):
    """extraction cross-check for Lbl.v: Coq itself evaluates [parse] on a sample of the texts (vm_compute) and the results are
    compared, inside Coq, with what the extracted model printed through the OCaml driver"""
    import os
    import re
    import xcheck
    body = ["From NIPAM Require Import Sel Lbl.", "From Coq Require Import List NArith.", "Import ListNotations.", "Open Scope N_scope."]
    for i, (op, ob) in enumerate(pairs):
        text = xcheck.unhex(op.split()[1])
        if ob == "parse fail":
            exp = "None"
        else:
            rs = ob.split()[2]
            items = []
            for r in ([] if rs == "-" else rs.split(";")):
                k, o, vs = r.split(":")
                vals = [] if vs == "" else vs.split("+")
                items.append("mkPReq %s %s [%s]" % (xcheck.gstr(xcheck.unhex(k)), POPS[o], "; ".join(xcheck.gstr(xcheck.unhex(v)) for v in vals)))
            exp = "Some [" + "; ".join(items) + "]"
        body.append("Example xl_%d : parse %s = %s.\nProof. vm_compute. reflexivity. Qed." % (i, xcheck.gstr(text), exp))
    gen = os.path.join(vlib.COQ, "gen")
    os.makedirs(gen, exist_ok=True)
    path = os.path.join(gen, "xcheck_lbl_%d.v" % os.getpid())
    open(path, "w").write("\n".join(body) + "\n")
    rc, out, dt = vlib.sh("timeout 900 coqc -Q .. NIPAM %s 2>&1" % os.path.basename(path), cwd=gen, timeout=1000, check=False)
    for ext in (".v", ".vo", ".vok", ".vos", ".glob"):
        try:
            os.remove(path[:-2] + ext)
        except OSError:
            pass
    ok = rc == 0
    res.obligation("extraction cross-check: Coq's own evaluation (vm_compute) of Lbl.parse on %d texts = output of the extracted model through the OCaml driver" % len(pairs), ok)
    if not ok:
        res.violation({"property": "C17", "kind": "correspondence-break",
                       "theorem_or_correspondence": "extraction cross-check of Lbl.parse: Coq vm_compute vs extracted model + OCaml driver", "detail": out[-2500:]}, nofail=True)


def run(res, tier, seed):
    vlib.standard_proof_step(res, "C17")
    if not vlib.build_executors(res, "C17"):
        return
    rng = random.Random(seed)
    nsel = 1500 if tier == "quick" else 15000
    sels = list({gen_sel(rng) for _ in range(nsel)})
    labelsets = list({gen_labels(rng) for _ in range(40)})
    lines = []
    for s in sels:
        lines.append("selkey " + s)
        for ls in rng.sample(labelsets, 12):
            lines.append("match %s %s" % (s, ls))
    nsel_lines = len(lines)
    texts = sorted({gen_text(rng) for _ in range(3000 if tier == "quick" else 40000)})
    for t in texts:
        lines.append("parse " + hx(t))
        if rng.random() < 0.3:
            lines.append("mkey %s %s" % (hx(t), rng.choice(labelsets)))
    cases = [("sel%d" % i, lines[i:i + 2600]) for i in range(0, len(lines), 2600)]
    mism, impl, st = corr.run_both("sel", cases, "C17", annotate=True)
    res.obligation("correspondence: real nodeSelectorKey = the model's selector_key (NewRequirement, Requirement.String, one parse) byte for byte on %d selectors; "
                   "real matchCIDRLabels (through print/parse of the key) = match_reqs on the selector's own requirements, %d (selector, labels) pairs" % (len(sels), nsel_lines - len(sels)),
                   not [m for m in mism if m["op"].split()[0] in ("selkey", "match")])
    res.obligation("correspondence: labels.Parse = the model's lexer and parser (Lbl.parse) on %d texts (requirements, operators as parsed, value sets, errors), "
                   "and matchCIDRLabels on arbitrary keys = match_key" % len(texts), not [m for m in mism if m["op"].split()[0] in ("parse", "mkey")])
    model_obs = [l for b in vlib.split_cases(vlib.read_lines(st["casefile"] + ".model")) for l in b[1:]]
    all_ops = [l for _, ls in cases for l in ls]
    ppairs = [(op, ob) for op, ob in zip(all_ops, model_obs) if op.startswith("parse ")]
    xcheck_lbl(res, rng.sample(ppairs, min(len(ppairs), 150 if tier == "quick" else 1500)))
    # the considered list in the closed loop: orderedMatchingClusterCIDRs on populations of ClusterCIDRs over all six operators
    # and selector-less ones -- a ClusterCIDR is in the list for a node exactly when its selector holds of the node's labels, or
    # it has none (model vs implementation, and the two clauses as a monitor on the implementation's answers)
    import c07
    import syscorr
    import sysmon
    psels = ["-", "-", "zone:In:a", "zone:In:a+b", "tier:Exists:", "zone:NotIn:b", "tier:DoesNotExist:", "rack:Gt:5", "rack:Lt:10", "in:In:in", "zone:In:a;rack:Gt:5",
             "notin:NotIn:notin+x", "zone:In:EMPTY+a", "zone:NotIn:a;tier:Exists:"]
    plabels = ["zone=a", "zone=a,tier=x", "zone=b,rack=7", "tier=x,rack=12", "-", "in=in,rack=3", "zone=,notin=x", "zone=a,rack=007"]
    npop = 60 if tier == "quick" else 600
    pops = [c07.gen_population(rng, i, psels, plabels) for i in range(npop)]
    presults, pst = syscorr.run_both(pops, "C17pop")
    porc = c07.load_orc(pst["casefile"] + ".orc")
    pmm, pfails = [], []
    for cid, ls, iobs, mobs in presults:
        mm = syscorr.first_mismatch(ls, iobs, mobs, ["fx", "res"])
        if mm:
            pmm.append((cid, ls, mm))
        tr = sysmon.Trace(cid, ls, iobs)
        for f in c07.order_monitor(tr, porc):
            if f["cls"] in ("eligible-missing", "unselected-considered"):
                pfails.append((cid, ls, f))
    res.obligation("correspondence: the considered list (orderedMatchingClusterCIDRs) = model on %d populations of ClusterCIDRs with and without selectors" % npop, not pmm)
    res.obligation("monitor: a ClusterCIDR is considered for a node exactly when its selector holds of the node's labels, or it has none (%d populations)" % npop, not pfails)
    for cid, ls, f in pfails[:2]:
        res.violation({"property": "C17", "kind": "impl-violation", "theorem_or_correspondence": "monitor on the implementation's trace",
                       "monitor_clause": f["clause"], "detail": f["detail"], "case": ["case " + cid] + ls[:f["step"] + 1]})
    if pmm and not pfails:
        cid, ls, mm = pmm[0]
        res.violation({"property": "C17", "kind": "correspondence-break", "theorem_or_correspondence": "model vs real orderedMatchingClusterCIDRs (considered list)",
                       "case": ["case " + cid] + ls[:mm["step"] + 1], "first_difference": str(mm)[:600]}, nofail=True)
    # same key => same meaning (monitor on the implementation's answers)
    flat_ops = [l for _, ls in cases for l in ls]
    flat_obs = [l for b in impl for l in b[1:]]
    key_of, by_key = {}, {}
    res_of = {}
    for op, ob in zip(flat_ops, flat_obs):
        f = op.split()
        if f[0] == "selkey":
            key_of[f[1]] = ob
        elif f[0] == "match":
            res_of.setdefault(f[1], {})[f[2]] = ob
    confl = []
    for s, k in key_of.items():
        if k == "key fail":
            continue
        by_key.setdefault(k, []).append(s)
    for k, ss in by_key.items():
        for a in ss[1:]:
            common = set(res_of.get(a, {})) & set(res_of.get(ss[0], {}))
            for ls in common:
                if res_of[a][ls] != res_of[ss[0]][ls]:
                    confl.append((ss[0], a, ls))
    res.obligation("monitor: selectors filed under the same key agree on every label set tried", not confl)
    matched = sum(1 for l in flat_obs if l.startswith("match 1"))
    res.coverage.update({
        "evaluations": len(lines), "distinct_nontrivial": len(set(lines)),
        "rule": "single-term selectors of 1..5 requirements over the six operators with keys that look like operators ('in', 'notin', 'exists'), prefixed keys, "
                "numeric / empty / duplicated values, repeated requirements; each against 12 of 40 label sets; selector texts for labels.Parse: well-formed "
                "requirement lists over all nine operators with empty values, keywords as keys and values, varying white space, and token soup with NUL bytes, "
                "over-long and malformed names; non-trivial = distinct line",
        "samples": [lines[1], lines[len(lines) // 2], lines[-1]],
        "distribution": {"selectors": len(sels), "label_sets": len(labelsets), "matched": matched, "not_matched": sum(1 for l in flat_obs if l.startswith("match 0")),
                         "key_failed": sum(1 for l in flat_obs if l == "key fail"), "texts": len(texts),
                         "texts_parsed": sum(1 for l in flat_obs if l.startswith("parse ok")), "texts_rejected": sum(1 for l in flat_obs if l == "parse fail"),
                         "requirements_parsed_by_operator": {o: sum(l.count(":" + o + ":") for l in flat_obs if l.startswith("parse ok")) for o in
                                                             ("In", "NotIn", "Eq", "DEq", "Ne", "Exists", "DoesNotExist", "Gt", "Lt")},
                         "arbitrary_keys_matched": sum(1 for l in flat_obs if l.startswith("mkey") and l != "mkey err"), "populations": npop, "keys_shared_by_several_selectors": sum(1 for v in by_key.values() if len(v) > 1)},
        "timing": st, "traces_validated_against_impl": len(lines),
    })
    for m in mism[:5]:
        res.violation({"property": "C17", "kind": "impl-violation",
                       "theorem_or_correspondence": ("correspondence of Lbl.v (printer, lexer, parser, selector_key: what C17_print_parse_round_trip is about) with the real labels package / nodeSelectorKey"
                                                     if m["op"].split()[0] in ("parse", "mkey", "selkey") else
                                                     "real nodeSelectorKey + matchCIDRLabels (through print/parse of the key) vs match_reqs on the selector's own requirements"),
                       "case": [m["op"]], "impl_obs": m["impl"], "model_obs": m["model"]})
    for a, b, ls in confl[:3]:
        res.violation({"property": "C17", "kind": "impl-violation", "theorem_or_correspondence": "same key, different meaning",
                       "case": ["selkey " + a, "selkey " + b, "match %s %s" % (a, ls), "match %s %s" % (b, ls)]})
