"""C09 -- service ranges: system check + wiring facts from the Go source (who maps entries at bootstrap, when the service
ranges are filtered out, who can take a block out of use, and that ReleaseCIDR occupies the service ranges again)."""
import os
import shutil
import csys
import c16
import vlib


def run(res, tier, seed):
    csys.run(res, tier, seed, "C09")
    ok, out = c16.translator_build()
    ok2, out2, dt = c16.run_translator() if ok else (False, out, 0)
    res.obligation("service-range wiring facts regenerated from /repo's pkg/controller/ipam (gen/Facts_svc.v)", ok and ok2)
    if not (ok and ok2):
        res.violation({"property": "C09", "kind": "proof-break", "theorem_or_correspondence": "translator", "detail": (out + str(out2))[-2000:]}, nofail=True)
        return
    shutil.copy(os.path.join(vlib.COQ, "Properties", "C09_current.v.tmpl"), os.path.join(c16.GEN, "C09_current.v"))
    with vlib.Lock("coq.lock"):
        rc1, o1, _ = vlib.sh("timeout 600 coqc -Q .. NIPAM -R . Gen Facts_svc.v 2>&1", cwd=c16.GEN, timeout=700, check=False)
        rc2, o2, _ = vlib.sh("timeout 600 coqc -Q .. NIPAM -R . Gen C09_current.v 2>&1", cwd=c16.GEN, timeout=700, check=False) if rc1 == 0 else (1, o1, 0)
    res.obligation("theorem current_svc_wiring_ok : svc_wiring_ok svc = true (bootstrap mapping only from the constructor and before the "
                   "filtering; serviceCIDRs written by the constructor only; blocks released only where the model releases; "
                   "ReleaseCIDR occupies the service ranges again before dropping the association)", rc2 == 0)
    txt = open(os.path.join(c16.GEN, "Facts_svc.v")).read()
    res.coverage["svc_wiring_facts"] = [l.strip() for l in txt.splitlines() if l.strip().startswith("sf_")]
    if rc2 != 0:
        # the corpus / scenario histories decide whether a failing input exists; the wiring break by itself has none
        res.violation({"property": "C09", "kind": "static-path",
                       "theorem_or_correspondence": "gen/C09_current.v: svc_wiring_ok svc = true no longer holds (SvcCheck.v)",
                       "violation": "the wiring the C09 history theorem and the ghost flag cc_start rest on changed: see the facts",
                       "facts": res.coverage["svc_wiring_facts"], "detail": (o1 + o2)[-1500:]}, nofail=True)


def replay(res, path):
    csys.replay(res, path, "C09")
