"""csys -- shared driver of the system-level checks (C01-C06, C08-C12, C20)."""
import glob
import os
import random
import vlib
import syscorr
import sysgen
import sysmon
import xcheck

CFG = {
    # property: (monitor, projection fields compared between implementation and model)
    "C01": (sysmon.mon_c01, ["fx", "cache", "api"]),
    "C02": (sysmon.mon_c02, ["fx", "snap"]),
    "C03": (sysmon.mon_c03, ["fx", "snap", "api"]),
    "C04": (sysmon.mon_c04, ["snap", "api", "q"]),
    "C05": (sysmon.mon_c05, ["res", "fx", "snap"]),
    "C06": (sysmon.mon_c06, ["fx", "snap", "api"]),
    "C08": (sysmon.mon_c08, ["fx", "snap", "cache"]),
    "C09": (sysmon.mon_c09, ["fx", "snap"]),
    "C10": (sysmon.mon_c10, ["snap", "api"]),
    "C11": (lambda t: sysmon.mon_c11(t, 0), ["res", "rq", "q", "api", "fx"]),
    "C12": (sysmon.mon_c12, ["res", "fx"]),
    "C20": (sysmon.mon_c20, ["hash"]),
}


def load_corpus():
    cases = []
    for p in sorted(glob.glob(os.path.join(vlib.ROOT, "corpus", "*.case"))):
        cur = None
        for l in open(p):
            l = l.rstrip("\n")
            if not l.strip() or l.startswith("#"):
                continue
            if l.startswith("case "):
                cur = ("corpus_" + l.split()[1], [])
                cases.append(cur)
            elif cur is not None:
                cur[1].append(l)
    return cases


def known_for(pid):
    return [k for k in vlib.load_known() if k.get("property") == pid and k.get("status") == "open"]


def classify(pid, failure):
    for k in known_for(pid):
        if failure["cls"] in k.get("signature", {}).get("classes", []):
            return k
    return None


def gen_cases(pid, rng, tier):
    n = 1200 if tier == "quick" else 12000
    hist, hstats = sysgen.gen_histories(rng, n)
    scen, sstats = sysgen.gen_scenarios(rng, n)
    cases = hist + scen
    stats = {"random_histories": len(hist), "scenario_histories": len(scen), "ops": hstats["ops"], "faulty_writes": hstats["faults"],
             "crashes": hstats["crashes"], "dual_stack_ccs": hstats["dual"], "preset_nodes": hstats["preset_nodes"], "scenarios": sstats}
    if pid == "C11":
        cases = [(c, ops + sysgen.drain_ops(3)) for c, ops in cases]
    if pid == "C12":
        mal = sysgen.gen_malformed(rng, 600 if tier == "quick" else 6000)
        stats["malformed_histories"] = len(mal)
        cases = cases + mal
    return cases, stats


def failure_key(f):
    return (f["clause"], f["cls"])


def run_cases(pid, cases, tag):
    mon, fields = CFG[pid]
    results, st = syscorr.run_both(cases, tag)
    LAST["raw"], LAST["casefile"] = results, st["casefile"]
    xmap = {}
    try:
        for l in open(st["casefile"] + ".orc"):
            f = l.split()
            if f and f[0] == "cidr" and len(f) == 4:
                xmap[f[1]] = f[2]
    except OSError:
        pass
    XMAP.update(xmap)
    out = []
    for cid, lines, iobs, mobs in results:
        mm = syscorr.first_mismatch(lines, iobs, mobs, fields)
        t = sysmon.Trace(cid, lines, iobs, xmap)
        fails = mon(t)
        out.append((cid, lines, mm, fails))
    return out, st


XMAP = {}
LAST = {}


def shrink_impl_only(pid, lines, pred_key, budget=8):
    mon, _ = CFG[pid]
    cur = list(lines)
    chunk = max(1, len(cur) // 2)
    rounds = 0
    while chunk >= 1 and rounds < budget:
        rounds += 1
        cands = [cur[:i] + cur[i + chunk:] for i in range(0, len(cur), chunk) if cur[:i] + cur[i + chunk:]]
        if not cands:
            break
        res, _ = syscorr.run_impl_only([("s%d" % i, c) for i, c in enumerate(cands)], "shrinkv_" + pid)
        hit = [ls for (cid, ls, iobs, mobs) in res if any(failure_key(f) == pred_key for f in mon(sysmon.Trace(cid, ls, iobs, XMAP)))]
        if hit:
            cur = min(hit, key=len)
        elif chunk == 1:
            break
        else:
            chunk = max(1, chunk // 2)
    return cur


def shrink(pid, lines, pred_key, kind, budget=10):
    """greedy delta debugging on the op list: drop chunks while the same failure persists"""
    mon, fields = CFG[pid]
    cur = list(lines)

    def still_fails(cands):
        res, _ = syscorr.run_both([("s%d" % i, c) for i, c in enumerate(cands)], "shrink_" + pid)
        ok = []
        for (cid, ls, iobs, mobs) in res:
            if kind == "monitor":
                t = sysmon.Trace(cid, ls, iobs, XMAP)
                ok.append(any(failure_key(f) == pred_key for f in mon(t)))
            else:
                mm = syscorr.first_mismatch(ls, iobs, mobs, fields)
                ok.append(mm is not None and mm["field"] == pred_key)
        return ok

    chunk = max(1, len(cur) // 2)
    rounds = 0
    while chunk >= 1 and rounds < budget:
        rounds += 1
        cands, idx = [], []
        for i in range(0, len(cur), chunk):
            c = cur[:i] + cur[i + chunk:]
            if c:
                cands.append(c)
                idx.append(i)
        if not cands:
            break
        oks = still_fails(cands)
        hit = [c for c, ok in zip(cands, oks) if ok]
        if hit:
            cur = min(hit, key=len)
        else:
            if chunk == 1:
                break
            chunk = max(1, chunk // 2)
    return cur


def refreshed(pid, small, f):
    """the failure as it shows on the shrunk history (names and steps differ from the original)"""
    mon, _ = CFG[pid]
    res, _ = syscorr.run_both([("shrunk", small)], "shrunk_" + pid)
    cid, ls, iobs, mobs = res[0]
    for g in mon(sysmon.Trace(cid, ls, iobs, XMAP)):
        if failure_key(g) == failure_key(f):
            return g
    return f


# ---------------------------------------------------------------- directed search after a correspondence break
PROBE_LABELS = ["zone=a,tier=x,rack=5", "zone=b,tier=x,rack=12", "-", "zone=a"]


def probe_suffixes(lines):
    """continuations designed to turn a silent divergence into a visible property failure: serve more nodes, delete the
    ClusterCIDRs, delete the nodes, restart -- each followed by fair processing"""
    ccs = sorted({l.split()[1] for l in lines if l.startswith("cc+ ")})
    nodes = sorted({l.split()[1] for l in lines if l.startswith("n+ ")})
    drain = sysgen.drain_ops(2)
    fill = []
    for i, lb in enumerate(PROBE_LABELS + PROBE_LABELS[:2]):
        fill += ["n+ p%d %s -" % (i, lb), "dn", "pn ok"]
    fill += drain
    delcc = ["cc- " + c for c in ccs] + drain
    delnodes = ["n- " + n for n in nodes] + drain
    restart = ["crash", "construct - - -", "start"] + drain
    return [fill, drain + fill, delcc, drain + delcc, delcc + fill, delnodes + fill, delnodes + delcc, restart + fill, restart + delcc,
            drain + delnodes + restart + fill]


def probe_search(pid, mism, limit=12):
    """from the histories on which model and implementation diverge, look for a concrete history on which the property's
    monitor fails on the implementation"""
    mon, fields = CFG[pid]
    cands = []
    for cid, lines, mm in mism[:limit]:
        for cut in (mm["step"] + 1, len(lines)):
            pre = lines[:cut]
            for j, suf in enumerate(probe_suffixes(pre)):
                cands.append(("probe_%s_%d_%d" % (cid, cut, j), pre + suf))
    if not cands:
        return None, 0
    res, _ = syscorr.run_both(cands, "probe_" + pid)
    for cid, ls, iobs, mobs in res:
        t = sysmon.Trace(cid, ls, iobs, XMAP)
        fs = [f for f in (mon(t)) if classify(pid, f) is None]
        if fs:
            return (cid, ls, fs[0]), len(cands)
    return None, len(cands)


def run(res, tier, seed, pid):
    vlib.standard_proof_step(res, pid)
    import c16
    c16.atomicity(res, pid)
    if not vlib.build_executors(res, pid):
        return
    rng = random.Random(seed)
    corpus = load_corpus()
    cases, stats = gen_cases(pid, rng, tier)
    if pid == "C11":
        corpus = [(c, ops + sysgen.drain_ops(3)) for c, ops in corpus]
    cases = corpus + cases
    stats["corpus_cases"] = len(corpus)
    out, st = run_cases(pid, cases, pid)
    mon, fields = CFG[pid]
    # cross-check of extraction + OCaml driver against Coq's own evaluation, on a sample (generated histories, skipping the corpus)
    xcheck.run(res, LAST["raw"][len(corpus):], LAST["casefile"], 12 if tier == "quick" else 200)
    nops = sum(len(l) for _, l in cases)
    mism = [(cid, lines, mm) for cid, lines, mm, _ in out if mm]
    fails = [(cid, lines, f) for cid, lines, _, fs in out for f in fs]
    unknown = [(cid, lines, f) for cid, lines, f in fails if classify(pid, f) is None]
    res.obligation("correspondence: real controller = model on the projection %s over %d ops in %d histories" % (fields, nops, len(cases)), not mism)
    res.obligation("monitor: the property's executable statement holds on every implementation trace (known findings excepted)", not unknown)
    patches = sum(1 for _, lines, _, _ in out for l in lines if l.startswith("pn") or l.startswith("runn"))
    res.coverage.update({
        "evaluations": nops, "distinct_nontrivial": len({tuple(l) for _, l in cases if len(l) >= 6}),
        "rule": "system histories over a universe of <=4 ClusterCIDRs x <=5 nodes (pools of 1..16 blocks, single/dual stack, identical/nested/disjoint ranges, "
                "6 selector shapes): random histories (user ops, deliveries, resyncs, relists, tombstones, fetch/run splits, scripted write outcomes ok/fail/timeout-applied/"
                "timeout-not-applied, crashes + restarts) and 22 scenario templates with 12% noise ops, plus the committed corpus; a history is non-trivial when it is "
                "distinct and has at least 6 ops",
        "samples": [{"case": cases[i][0], "ops": cases[i][1][:14]} for i in (0, len(cases) // 2, len(cases) - 1)],
        "distribution": stats, "timing": st, "traces_validated_against_impl": len(cases),
        "node_work_items": patches, "monitor_failures_known": len(fails) - len(unknown),
    })
    # C12 only: inputs outside the model's value domain (IPv4-mapped IPv6 text, K1) run on the implementation alone;
    # the crash / stall monitor is the only judge there
    if pid == "C12":
        v4m = sysgen.gen_v4mapped(rng, 200 if tier == "quick" else 2000)
        vres, _ = syscorr.run_impl_only(v4m, pid + "_v4m")
        res.coverage["v4mapped_histories"] = len(v4m)
        vf = []
        for cid, ls, iobs, mobs in vres:
            for f in sysmon.mon_c12(sysmon.Trace(cid, ls, iobs, XMAP)):
                vf.append((cid, ls, f))
        res.obligation("no panic of the implementation on %d histories with IPv4-mapped IPv6 CIDR text (outside the model's domain)" % len(v4m), not vf)
        for cid, ls, f in vf[:1]:
            small = shrink_impl_only(pid, ls[:f["step"] + 1], failure_key(f))
            res.violation({"property": pid, "kind": "impl-violation", "theorem_or_correspondence": "crash monitor on the implementation's trace (input outside the model's value domain)",
                           "monitor_clause": f["clause"], "class": f["cls"], "detail": f["detail"], "case": ["case " + cid] + small,
                           "replay_cmd": "/verif/check %s --replay <this file>" % pid})
    # known findings seen on this run
    for cid, lines, f in fails:
        k = classify(pid, f)
        if k is not None and k["what"] not in res.known:
            res.known.append(k["what"])
    # unknown monitor failures: concrete failing histories
    seen = set()
    for cid, lines, f in unknown:
        if failure_key(f) in seen or len(seen) >= 5:
            continue
        seen.add(failure_key(f))
        small = shrink(pid, lines[:f["step"] + 1] if pid != "C11" else lines, failure_key(f), "monitor")
        f = refreshed(pid, small, f)
        res.violation({"property": pid, "kind": "impl-violation", "theorem_or_correspondence": "property monitor on the implementation's trace",
                       "monitor_clause": f["clause"], "class": f["cls"], "detail": f["detail"],
                       "case": ["case " + cid] + small, "original_length": len(lines), "first_bad_step": f["step"],
                       "replay_cmd": "/verif/check %s --replay <this file>" % pid})
    # correspondence broken on the projection although no monitor failed: the property is no longer shown to hold
    if mism and not unknown:
        found, tried = probe_search(pid, mism)
        res.coverage["probe_histories_after_break"] = tried
        if found is not None:
            cid, lines, f = found
            small = shrink(pid, lines[:f["step"] + 1] if pid != "C11" else lines, failure_key(f), "monitor")
            f = refreshed(pid, small, f)
            res.violation({"property": pid, "kind": "impl-violation", "theorem_or_correspondence": "property monitor on the implementation's trace "
                           "(history found by the directed search that follows a correspondence break)",
                           "monitor_clause": f["clause"], "class": f["cls"], "detail": f["detail"],
                           "case": ["case " + cid] + small, "original_length": len(lines), "first_bad_step": f["step"],
                           "correspondence_first_difference": mism[0][2],
                           "replay_cmd": "/verif/check %s --replay <this file>" % pid})
            return
        cid, lines, mm = mism[0]
        small = shrink(pid, lines[:mm["step"] + 1], mm["field"], "mismatch")
        res.violation({"property": pid, "kind": "correspondence-break",
                       "theorem_or_correspondence": "correspondence model (Alloc.v/Sys.v) vs real controller on projection %s; theorems of Properties/%s.v are about the model" % (fields, pid),
                       "first_difference": mm, "case": ["case " + cid] + small, "mismatching_histories": len(mism),
                       "searched": "monitor evaluated on all %d implementation traces of this run and on %d probe continuations of the diverging histories "
                                   "(more nodes, ClusterCIDR deletion, node deletion, restart, each with fair processing) without finding a failing history" % (len(cases), tried)},
                      nofail=True)


def replay(res, path, pid):
    import json
    r = json.load(open(path))
    lines = [l for l in r.get("case", []) if not l.startswith("case ")]
    vlib.build_executors(res, pid)
    out, st = run_cases(pid, [("replay", lines)], pid + "_replay")
    cid, ls, mm, fails = out[0]
    res.coverage.update({"evaluations": len(lines), "distinct_nontrivial": 2, "rule": "replay of one recorded history", "samples": [lines[:20]]})
    for f in fails:
        print("monitor:", f["clause"], "|", f["detail"], "| class", f["cls"])
        if classify(pid, f) is None:
            res.violation(dict(r, replayed=True))
            return
    if mm:
        print("correspondence differs:", mm)
        res.violation(dict(r, replayed=True), nofail=not fails)
