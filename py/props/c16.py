"""C16 -- shared state only under the lock; the lock cannot self-deadlock (translator + verified checker)."""
import json
import os
import shutil
import vlib

GEN = os.path.join(vlib.COQ, "gen")


def translator_build():
    with vlib.Lock("tr.lock"):
        rc, out, dt = vlib.sh("timeout 900 go build -o %s . 2>&1" % os.path.join(vlib.BUILD, "translator"),
                              cwd=os.path.join(vlib.ROOT, "translator"), env=vlib.GOENV, timeout=1000, check=False)
        return rc == 0, out


def run_translator():
    os.makedirs(GEN, exist_ok=True)
    rc, out, dt = vlib.sh([os.path.join(vlib.BUILD, "translator"), vlib.REPO, GEN], env=vlib.GOENV, timeout=900, check=False)
    return rc == 0, out, dt


def find_path(facts):
    """BFS over (function, held) with parents: the first path breaking a rule"""
    fn = facts["functions"]
    start = [(n, fn[n]["lock"] == "locks") for n in facts["order"] if fn[n]["entry"]]
    parent = {s: None for s in start}
    queue = list(start)

    def path(s):
        out = []
        while s is not None:
            out.append("%s [lock %s]" % (s[0], "held" if s[1] else "free"))
            s = parent[s]
        return list(reversed(out))
    while queue:
        s = queue.pop(0)
        f = fn[s[0]]
        if f["lock"] == "irregular":
            return "irregular use of the lock", path(s), f["pos"]
        if f["touches"] and not s[1]:
            return "shared state touched without the lock: " + ", ".join(f["touches"][:3]), path(s), f["pos"]
        if f["blocks"] and s[1]:
            return "blocking primitive while the lock is held: " + ", ".join(f["blocks"][:3]), path(s), f["pos"]
        for c in f["calls"]:
            if c not in fn:
                continue
            g = fn[c]
            if g["lock"] == "locks" and s[1]:
                return "lock taken while already held (self-deadlock)", path(s) + ["%s [takes the lock]" % c], g["pos"]
            t = (c, s[1] or g["lock"] == "locks")
            if t not in parent:
                parent[t] = s
                queue.append(t)
    return None


def atomicity(res, pid):
    """used by the system-level checks: their model treats one work item as one atomic step on the shared state; that is
    exactly the lock discipline of C16, re-established on the current tree by the translator + verified checker"""
    ok, out = translator_build()
    if not ok:
        res.obligation("atomicity of work items (lock discipline of the current tree): translator build", False)
        res.violation({"property": pid, "kind": "check-error", "theorem_or_correspondence": "translator build", "detail": out[-2000:]}, nofail=True)
        return False
    with vlib.Lock("atom.lock"):
        ok, out, dt = run_translator()
        rc2, o2 = 1, out
        if ok:
            shutil.copy(os.path.join(vlib.COQ, "Properties", "C16_current.v.tmpl"), os.path.join(GEN, "C16_current.v"))
            with vlib.Lock("coq.lock"):
                rc1, o1, _ = vlib.sh("timeout 600 coqc -Q .. NIPAM -R . Gen Facts_lock.v 2>&1", cwd=GEN, timeout=700, check=False)
                rc2, o2, _ = vlib.sh("timeout 600 coqc -Q .. NIPAM -R . Gen C16_current.v 2>&1", cwd=GEN, timeout=700, check=False) if rc1 == 0 else (1, o1, 0)
        facts = json.load(open(os.path.join(GEN, "facts.json"))) if ok else None
    res.obligation("atomicity of work items: every access to the shared state happens under the allocator lock on the current tree "
                   "(translator facts + LockCheck.check_sound; the model's step = one critical section)", rc2 == 0)
    if rc2 != 0:
        found = find_path(facts) if facts else None
        rep = {"property": pid, "kind": "correspondence-break",
               "theorem_or_correspondence": "atomicity assumption of the model (one work item = one atomic step): gen/C16_current.v no longer holds; "
                                            "the sequential correspondence check cannot exhibit interleavings inside a work item",
               "detail": (o2 or "")[-1500:]}
        if found:
            rep.update({"violation": found[0], "call_path": found[1], "at": found[2]})
        res.violation(rep, nofail=True)
        return False
    return True


def run(res, tier, seed):
    vlib.standard_proof_step(res, "C16")
    ok, out = translator_build()
    res.obligation("translator build", ok)
    if not ok:
        res.violation({"property": "C16", "kind": "check-error", "theorem_or_correspondence": "translator build", "detail": out[-2000:]}, nofail=True)
        return
    ok, out, dt = run_translator()
    res.obligation("facts regenerated from /repo's current source (go/packages + SSA)", ok)
    if not ok:
        res.violation({"property": "C16", "kind": "proof-break", "theorem_or_correspondence": "translator run", "detail": out[-2000:]}, nofail=True)
        return
    shutil.copy(os.path.join(vlib.COQ, "Properties", "C16_current.v.tmpl"), os.path.join(GEN, "C16_current.v"))
    with vlib.Lock("coq.lock"):
        rc1, o1, _ = vlib.sh("timeout 600 coqc -Q .. NIPAM -R . Gen Facts_lock.v 2>&1", cwd=GEN, timeout=700, check=False)
        rc2, o2, _ = vlib.sh("timeout 600 coqc -Q .. NIPAM -R . Gen C16_current.v 2>&1", cwd=GEN, timeout=700, check=False) if rc1 == 0 else (1, o1, 0)
    facts = json.load(open(os.path.join(GEN, "facts.json")))
    fn = facts["functions"]
    res.obligation("theorem current_tree_ok : check program = true (vm_compute on the regenerated facts)", rc2 == 0)
    res.obligation("theorem current_tree_discipline (instance of check_sound)", rc2 == 0)
    res.coverage["print_assumptions_current"] = [l for l in o2.splitlines() if l.strip()][-3:]
    entries = [n for n in facts["order"] if fn[n]["entry"]]
    res.coverage.update({
        "evaluations": len(fn), "distinct_nontrivial": sum(1 for f in fn.values() if f["calls"] or f["touches"] or f["lock"] != "none"),
        "rule": "one fact record per function, method and function literal of packages ipam and multicidrset (without the verif tag); non-trivial = has callees, "
                "touches shared state or uses the lock",
        "samples": [{"name": n, "lock": fn[n]["lock"], "entry": fn[n]["entry"], "touches": fn[n]["touches"][:2], "calls": fn[n]["calls"][:4]} for n in entries[:3]],
        "programs": 1, "functions": len(fn), "entry_points": entries,
        "locking_functions": [n for n in facts["order"] if fn[n]["lock"] == "locks"],
        "functions_touching_shared_state": [n for n in facts["order"] if fn[n]["touches"]],
        "translator_s": dt, "exhaustive": True,
    })
    res.assumptions.append("translator's notion of access (field accesses to cidrMap, ClusterCIDR.AssociatedNodes/Terminating, MultiCIDRSet.AllocatedCIDRMap/allocatedCIDRs/nextCandidate), "
                           "callee resolution (static callees, class-hierarchy resolution of interface calls inside the two packages, function values handed on = call + entry point, "
                           "values converted to interfaces = all methods callable) and entry points (CIDRAllocator interface methods, go statements, escaping function values) are trusted; "
                           "construction-time code (NewMultiCIDRRangeAllocator itself) is exempt as the property says; API calls made while holding the lock are assumed to return")
    if rc2 != 0:
        found = find_path(facts)
        if found:
            why, path, pos = found
            res.violation({"property": "C16", "kind": "static-path", "theorem_or_correspondence": "gen/C16_current.v: check program = true no longer holds",
                           "violation": why, "call_path": path, "at": pos})
        else:
            res.violation({"property": "C16", "kind": "proof-break", "theorem_or_correspondence": "gen/C16_current.v current_tree_ok", "detail": (o1 + o2)[-2000:]}, nofail=True)


def replay(res, path):
    run(res, "quick", 1)
