"""C13 -- block numbering is a bijection onto the aligned sub-ranges."""
import random
import vlib
import corr
from geomgen import W, hexa, all_geometries, rand_base, clean_base, cidr_tok, mask, arg_cidrs, v4mapped, meets_zone

TECH = "Coq proof (bit-level Go code = base + i*2^(W-n); bijection, tiling, back-mapping, rejection) + differential correspondence on every geometry"


def gen_cases(rng, tier):
    cases = []
    stats = {"v4": 0, "v6": 0, "ops": {}, "outside_addr": 0}
    geos = all_geometries()
    reps = 1 if tier == "quick" else 4
    for rep in range(reps):
        for n, (fam, clen, nlen) in enumerate(geos):
            w = W[fam]
            base = clean_base(rng, fam, clen)
            unclean = meets_zone(fam, base, clen)
            stats['unclean_geometries'] = stats.get('unclean_geometries', 0) + (1 if unclean else 0)
            maxc = 1 << (nlen - clen)
            bs = 1 << (w - nlen)
            lines = ["pool p %s %s %d %d" % (fam, hexa(fam, base), clen, w - nlen)]
            idxs = {0, maxc - 1, maxc // 2, min(1, maxc - 1), rng.randrange(maxc)}
            if tier == "thorough" and maxc <= 1024 and rep == 0:
                idxs = set(range(maxc))
            for i in sorted(idxs):
                lines.append("blk p %d" % i)
                blk = base + i * bs
                for a in {blk, blk + bs - 1, blk + rng.randrange(bs)}:
                    if not v4mapped(fam, a):
                        lines.append("idx p %s %s" % (fam, hexa(fam, a)))
                if len(idxs) <= 8:
                    lines.append("range p " + cidr_tok(fam, blk, nlen))
                    if nlen < w:
                        l = rng.randint(nlen + 1, w)
                        sa = mask(fam, blk + rng.randrange(bs), l)
                        if not v4mapped(fam, sa):
                            lines.append("range p " + cidr_tok(fam, sa, l))
            # addresses outside the range: neighbours and far away (prefix bits flipped)
            size = 1 << (w - clen)
            outs = set()
            if base > 0:
                outs.add(base - 1)
            if base + size < (1 << w):
                outs.add(base + size)
            for _ in range(3):
                if clen > 0:
                    bit = rng.randrange(clen)
                    outs.add((base ^ (1 << (w - 1 - bit))) + rng.randrange(size))
            for a in sorted(outs):
                if v4mapped(fam, a):
                    continue
                lines.append("idx p %s %s" % (fam, hexa(fam, a)))
                stats["outside_addr"] += 1
            for shape, f2, a, l in arg_cidrs(rng, fam, base, clen, nlen, k=5):
                if not v4mapped(f2, a):
                    lines.append("range p " + cidr_tok(f2, a, l))
            cases.append(("g%d_%s_%d_%d" % (rep, fam, clen, nlen), lines))
            stats[fam] += 1
            for l in lines:
                k = l.split()[0]
                stats["ops"][k] = stats["ops"].get(k, 0) + 1
    return cases, stats


def gen_zone_cases(rng):
    """IPv6 ranges that contain IPv4-mapped addresses, probed with such addresses (known finding K1)"""
    cases = []
    for clen, nlen in [(65, 81), (80, 96), (96, 104), (100, 112), (0, 8), (72, 88)]:
        base = 0 if clen <= 80 else mask("v6", 0xffff00000000 + rng.getrandbits(32), clen)
        lines = ["pool p v6 %s %d %d" % (hexa("v6", base), clen, 128 - nlen)]
        for _ in range(4):
            a = 0xffff00000000 + rng.getrandbits(32)
            lines.append("idx p v6 %s" % hexa("v6", a))
            l = rng.randint(max(96, nlen), 128)
            lines.append("range p " + cidr_tok("v6", mask("v6", a, l), l))
        cases.append(("zone_%d_%d" % (clen, nlen), lines))
    return cases


def spec_obs(pool, op):
    """what the specification (Geom.v: block, in_cidr, overlap) demands for one op; None = no demand"""
    fam, base, clen, nlen = pool
    w = W[fam]
    bs, maxc, size = 1 << (w - nlen), 1 << (nlen - clen), 1 << (w - clen)
    f = op.split()
    if f[0] == "blk":
        return "blk %s:%s/%d" % (fam, hexa(fam, base + int(f[2]) * bs), nlen)
    if f[0] == "idx":
        a = int(f[3], 16)
        return "idx %d" % ((a - base) // bs) if base <= a < base + size else "idx err"
    if f[0] == "range":
        f2, a, l = f[2], int(f[3], 16), int(f[4])
        if f2 != fam:
            return "range err"
        asz = 1 << (w - l)
        if a + asz <= base or base + size <= a:
            return "range err"
        lo, hi = max(a, base), min(a + asz, base + size) - 1
        return "range %d %d" % ((lo - base) // bs, (hi - base) // bs)
    return None


def monitor(cases, impl):
    bad = []
    for (cid, lines), ib in zip(cases, impl):
        f = lines[0].split()
        fam, base, clen = f[2], int(f[3], 16), int(f[4])
        nlen = W[fam] - int(f[5])
        for k, (op, obs) in enumerate(zip(lines, ib[1:])):
            exp = spec_obs((fam, base, clen, nlen), op)
            if exp is not None and exp != obs:
                bad.append({"case": cid, "step": k, "op": op, "impl": obs, "model": exp, "lines": lines, "monitor": True})
    return bad


def is_zone_mismatch(m):
    f = m["op"].split()
    pf = m["lines"][0].split()
    if pf[2] == "v6" and v4mapped("v6", int(pf[3], 16)):
        return True   # the range base itself is IPv4-mapped: the pool is built as an IPv4 pool
    if f[0] == "idx" and f[2] == "v6":
        return v4mapped("v6", int(f[3], 16))
    if f[0] == "range" and f[2] == "v6":
        return v4mapped("v6", int(f[3], 16))
    return False


def run(res, tier, seed):
    proofs_ok = vlib.standard_proof_step(res, "C13")
    if not vlib.build_executors(res, "C13"):
        return
    rng = random.Random(seed)
    cases, stats = gen_cases(rng, tier)
    zone = gen_zone_cases(rng)
    cases = cases + zone
    stats["zone_cases"] = len(zone)
    mism, impl, st = corr.run_both("pool", cases, "C13", allmism=True)
    nops = sum(len(l) for _, l in cases)
    res.obligation("correspondence: Go mapping functions = model on %d ops over %d geometries (outside the recorded K1 domain: IPv4-mapped addresses in IPv6 pools)"
                   % (nops, len(cases)), not [m for m in mism if not classify(m)])
    res.coverage["known_finding_mismatches"] = len([m for m in mism if classify(m)])
    distinct = len({(c, l) for c, ls in cases for l in ls[1:]})
    res.coverage.update({
        "evaluations": nops, "distinct_nontrivial": distinct,
        "rule": "every geometry of the domain (560 IPv4, 2057 IPv6) with random/all-ones/zero prefix bits; per geometry "
                "blk at indices {0,1,max/2,max-1,random} (thorough: all indices when max<=1024), idx at block base/last/random "
                "address and at neighbours / prefix-flipped addresses outside the range, range for block, sub-block, multi-block, "
                "whole range, super-range, outside, other family; a case is non-trivial when it is a distinct (geometry, op) pair "
                "other than the pool construction",
        "samples": [{"case": cases[i][0], "ops": cases[i][1][:8]} for i in (0, len(cases) // 2, len(cases) - 1)],
        "distribution": stats, "timing": st, "exhaustive": False,
        "traces_validated_against_impl": len(cases),
    })
    # property monitor: the specification itself evaluated against the implementation's answers
    mon = monitor(cases, impl)
    res.obligation("monitor: implementation answers = specification (aligned sub-range arithmetic) on all %d ops (K1 domain excepted)" % nops,
                   not [m for m in mon if not classify(m)])
    have = {(m["case"], m["step"]) for m in mism}
    mism = mism + [m for m in mon if (m["case"], m["step"]) not in have]
    # every in-domain disagreement is a failing input: the model is proved equal to the specification
    seen = set()
    for m in mism[:400]:
        key = (m["op"].split()[0], " ".join(m["impl"].split()[:2]) if "err" in m["impl"] else m["impl"].split()[0],
               " ".join(m["model"].split()[:2]) if "err" in m["model"] else m["model"].split()[0], bool(m.get("monitor")))
        known = classify(m)
        if known:
            if known not in res.known:
                res.known.append(known)
            continue
        if key in seen:
            continue
        seen.add(key)
        res.violation({"property": "C13", "kind": "impl-violation",
                       "theorem_or_correspondence": ("specification monitor (Geom.v block/in_cidr/overlap)" if m.get("monitor") else
                                                     "model (= specification by the C13 theorems)") + " vs multicidrset mapping functions",
                       "case": ["case " + m["case"]] + m["lines"], "first_bad_step": m["step"], "op": m["op"],
                       "impl_obs": m["impl"], "model_obs": m["model"],
                       "replay_cmd": "/verif/check C13 --replay <this file>"})


def classify(m):
    for k in vlib.load_known():
        if k.get("property") == "C13" and k.get("status") == "open":
            if k.get("signature", {}).get("class") == "v4mapped-address-in-ipv6-pool" and is_zone_mismatch(m):
                return k["what"]
    return None
