"""C15 -- concurrent workers produce the result of some one-at-a-time processing (partial: theorem + race-detector run)."""
import os
import re
import subprocess
import vlib
import c16
import sysmon


def final_checks(line):
    """monitors on the quiescent final state of one workload"""
    bad = []
    if line.startswith("workload inconclusive"):
        return []
    m = re.match(r"^workload done quiescent=(\w+) \| api=(.*) \| snap=(.*)$", line)
    if not m:
        return ["unexpected output: " + line[:200]]
    if m.group(1) != "true":
        bad.append("did not reach a quiescent state within the time limit")
    ns, _, cs = m.group(2).partition("^")
    nodes = {}
    for t in (ns.split(";") if ns != "-" else []):
        name, rest = t.split(":", 1)
        cid, _, zone = rest.rpartition(":")
        nodes[name] = [sysmon.ptok(x) for x in cid.split(",")] if cid != "-" else []
    ccs = {}
    for t in (cs.split(";") if cs != "-" else []):
        name, fins, d, rng = t.split(":", 3)
        ccs[name] = {"fins": fins, "deleting": d == "d1"}
    names = sorted(nodes)
    for i, a in enumerate(names):
        for b in names[i + 1:]:
            for x in nodes[a]:
                for y in nodes[b]:
                    if sysmon.overlap(x, y):
                        bad.append("nodes %s and %s hold overlapping CIDRs %s %s" % (a, b, x, y))
    entries = {}
    for e in (m.group(3).split(";") if m.group(3) != "empty" else []):
        mm = re.match(r"^([^:]*):t([01]):a=([^:]*):v4=(.*)$", e)
        pool = sysmon.parse_pool(mm.group(4))
        entries[mm.group(1)] = {"assoc": [] if mm.group(3) == "-" else mm.group(3).split("+"), "keys": pool["keys"] if pool else []}
    for nm, e in entries.items():
        for key in e["keys"]:
            if not any(sysmon.overlap(key, c) for cs_ in nodes.values() for c in cs_):
                bad.append("block %s of %s is reserved with no node holding it" % (key, nm))
        for a in e["assoc"]:
            if a not in nodes:
                bad.append("%s is associated with %s but does not exist" % (a, nm))
    for nm, c in ccs.items():
        if c["deleting"] and nm in entries and not entries[nm]["assoc"]:
            bad.append("ClusterCIDR %s: deletion requested, nothing associated, still mapped" % nm)
    for nm in entries:
        if nm not in ccs:
            bad.append("ClusterCIDR %s is gone but still contributes a pool" % nm)
    return bad


def run(res, tier, seed):
    vlib.standard_proof_step(res, "C15")
    # the hypothesis of the theorem for this program: C16's lock discipline on the current tree
    ok, out = c16.translator_build()
    ok2 = ok and c16.run_translator()[0]
    if ok2:
        import shutil
        shutil.copy(os.path.join(vlib.COQ, "Properties", "C16_current.v.tmpl"), os.path.join(c16.GEN, "C16_current.v"))
        with vlib.Lock("coq.lock"):
            rc1, o1, _ = vlib.sh("timeout 600 coqc -Q .. NIPAM -R . Gen Facts_lock.v 2>&1", cwd=c16.GEN, timeout=700, check=False)
            rc2, o2, _ = vlib.sh("timeout 600 coqc -Q .. NIPAM -R . Gen C16_current.v 2>&1", cwd=c16.GEN, timeout=700, check=False) if rc1 == 0 else (1, o1, 0)
        ok2 = rc2 == 0
    res.obligation("hypothesis of C15_partial_lock_serializable for the current tree: lock discipline (gen/C16_current.v)", ok2)
    proof_broken = not ok2      # reported below, with a failing workload if the search finds one
    ok, out, _ = vlib.harness_build(race=True)
    res.obligation("harness built with the Go race detector", ok)
    if not ok:
        res.violation({"property": "C15", "kind": "check-error", "theorem_or_correspondence": "race build", "detail": out[-2000:]}, nofail=True)
        return
    n0 = 12 if tier == "quick" else 120
    # churn workloads: every served node is updated and deleted at the same moment by 16 clients (work items for nodes that
    # hold pod CIDRs race with the deletion handler for the lock); many more of them when the lock-discipline proof broke:
    # that is the search for a failing input
    nch = (4 if tier == "quick" else 40) + (40 if proof_broken else 0)
    n = n0 + nch
    kinds = ["workload"] * n0 + ["churn"] * nch
    specs = []
    cf = vlib.casefile("C15")
    with open(cf, "w") as f:
        for i in range(n):
            if kinds[i] == "workload":
                specs.append("workload %d %d %d" % (seed * 1000 + i, 30 + (i * 7) % 50, 3 + i % 4))
            else:
                specs.append("churn %d %d %d" % (seed * 1000 + i, 60 + (i * 13) % 60, 2 + i % 3))
            f.write("case w%d\n%s\n" % (i, specs[i]))
    p = subprocess.run([os.path.join(vlib.BUILD, "drive_race"), "race", cf], stdout=subprocess.PIPE, stderr=subprocess.PIPE, text=True, timeout=3000,
                       env=dict(os.environ, GORACE="halt_on_error=0 exitcode=0"))
    races = p.stderr.count("WARNING: DATA RACE")
    lines = [l for l in p.stdout.splitlines() if l.startswith("workload")]
    fails = []
    for i, l in enumerate(lines):
        for b in final_checks(l):
            fails.append((i, b))
    res.obligation("no data race reported by the Go race detector in %d workloads (30+30 workers, real informers and queues)" % n, races == 0)
    res.obligation("final-state monitors (no two nodes overlap, nothing withheld without justification, deletions respected dependants) on %d workloads" % n, not fails and len(lines) == n)
    res.coverage.update({
        "evaluations": n, "distinct_nontrivial": len(set(lines)),
        "rule": "seeded concurrent workloads: 30-80 nodes created by 4 goroutines (20% deleted again), 3-6 ClusterCIDRs (half listed at start-up, half created while "
                "running, overlapping and selector-carrying ones included), one deletion request; churn workloads: 60-120 nodes, each updated and deleted at the same "
                "moment by 16 clients once served; the real Run() with its workers; -race build; non-trivial = distinct final state",
        "distribution": {"workloads": n0, "churn_workloads": nch, "inconclusive": sum(1 for l in lines if l.startswith("workload inconclusive"))},
        "samples": [lines[0][:400]] if lines else [], "data_races": races, "explanation": "validation run, not a proof; the theorem is Properties/C15.v",
    })
    res.assumptions.append("PARTIAL: the theorem covers interleavings of lock-protected critical sections (hypothesis: C16's discipline on the current tree); data races outside the lock "
                           "facts' vocabulary and the Go memory model are only looked for by the race-detector run; client-go fakes (tracker, watch) stand in for the API server")
    if races:
        rp = os.path.join(vlib.REPLAYS, "C15-race-%d.txt" % seed)
        open(rp, "w").write(p.stderr[:20000])
        res.violation({"property": "C15", "kind": "impl-violation", "theorem_or_correspondence": "Go race detector", "report": p.stderr[:3000], "workload_seed": seed, "report_file": rp})
    for i, b in fails[:3]:
        res.violation({"property": "C15", "kind": "impl-violation", "theorem_or_correspondence": "final-state monitor", "detail": b,
                       "case": [specs[i] if i < len(specs) else "?"], "final_state": lines[i][:2000],
                       "also": "the lock-discipline hypothesis of C15_partial_lock_serializable no longer checks for this tree (see C16)" if proof_broken else ""})
    if proof_broken and not fails and not races:
        res.violation({"property": "C15", "kind": "proof-break", "theorem_or_correspondence": "lock discipline of the current tree (see C16)",
                       "search": "%d workloads incl. %d churn workloads under the race detector: no data race, no final-state violation" % (n, nch)}, nofail=True)
    if len(lines) != n and not fails and not races:
        res.violation({"property": "C15", "kind": "check-error", "theorem_or_correspondence": "race run", "detail": p.stderr[-2000:]}, nofail=True)


def replay(res, path):
    """run the workload(s) of a replay file again (ten times each: thread schedules vary) under the race detector"""
    import json
    r = json.load(open(path))
    specs = [l for l in r.get("case", []) if l.split()[0] in ("workload", "churn")]
    ok, out, _ = vlib.harness_build(race=True)
    res.obligation("harness built with the Go race detector", ok)
    if not ok or not specs:
        res.violation({"property": "C15", "kind": "check-error", "theorem_or_correspondence": "replay", "detail": (out[-1500:] if not ok else "no workload in the replay file")}, nofail=True)
        return
    cf = vlib.casefile("C15replay")
    with open(cf, "w") as f:
        for k in range(10):
            for i, s in enumerate(specs):
                f.write("case r%d_%d\n%s\n" % (k, i, s))
    p = subprocess.run([os.path.join(vlib.BUILD, "drive_race"), "race", cf], stdout=subprocess.PIPE, stderr=subprocess.PIPE, text=True, timeout=3000,
                       env=dict(os.environ, GORACE="halt_on_error=0 exitcode=0"))
    lines = [l for l in p.stdout.splitlines() if l.startswith("workload")]
    races = p.stderr.count("WARNING: DATA RACE")
    fails = [(i, b) for i, l in enumerate(lines) for b in final_checks(l)]
    res.obligation("replayed workloads: no data race, final-state monitors hold (10 runs each)", not fails and not races and len(lines) == 10 * len(specs))
    for i, b in fails[:3]:
        print("monitor: final state | %s | %s" % (specs[i % len(specs)], b))
        res.violation({"property": "C15", "kind": "impl-violation", "theorem_or_correspondence": "final-state monitor", "detail": b,
                       "case": [specs[i % len(specs)]], "final_state": lines[i][:2000]})
    if races:
        res.violation({"property": "C15", "kind": "impl-violation", "theorem_or_correspondence": "Go race detector", "report": p.stderr[:3000], "case": specs})
