"""C14 -- a pool behaves exactly like a set of block numbers."""
import random
import vlib
import corr
import poolseq
from geomgen import clean_base, meets_zone, W

TECH = "Coq proof (invariant + refinement of the pool to a set of block numbers over all op sequences) + differential correspondence + reference-set monitor"
PID = "C14"
METRICS = False


def gen_cases(rng, tier, metrics):
    cases, stats = [], {"shapes": {}, "fam": {"v4": 0, "v6": 0}, "capacity": {}}
    nseq = (700 if metrics else 2000) if tier == "quick" else (2000 if metrics else 40000)   # gathering is linear in the registered series: quadratic overall
    for n in range(nseq):
        fam, clen, nlen = poolseq.pick_geometry(rng)
        if metrics:
            # unique range string per case: the case number is written into the prefix bits
            clen = max(clen, 20)
            nlen = max(nlen, clen)
            if nlen - clen > 6:
                clen = nlen - 6
            w = W[fam]
            base = ((1 << (w - 1)) | (n << (w - clen))) & (((1 << w) - 1) ^ ((1 << (w - clen)) - 1))
        else:
            base = clean_base(rng, fam, clen)
            if meets_zone(fam, base, clen):
                continue
        lines, shapes = poolseq.gen_sequence(rng, fam, base, clen, nlen, rng.randint(3, 40))
        if metrics:
            lines = ["metrics on"] + lines
        cases.append(("s%d" % n, lines))
        stats["fam"][fam] += 1
        stats["capacity"][str(1 << (nlen - clen))] = stats["capacity"].get(str(1 << (nlen - clen)), 0) + 1
        for s in shapes:
            stats["shapes"][s] = stats["shapes"].get(s, 0) + 1
    if not metrics:
        ex = poolseq.exhaustive_small(rng, maxbits=2)
        stats["exhaustive_small_cases"] = len(ex)
        cases += ex
    return cases, stats


def monitor(cases, impl, metrics):
    bad = []
    for (cid, lines), ib in zip(cases, impl):
        ref = None
        for k, (op, obs) in enumerate(zip(lines, ib[1:])):
            f = op.split()
            if f[0] == "pool":
                ref = poolseq.RefPool(f[2], int(f[3], 16), int(f[4]), W[f[2]] - int(f[5]))
                continue
            if ref is None or f[0] == "metrics":
                continue
            exp = ref.step(op, metrics)
            if exp is not None and exp != obs:
                bad.append({"case": cid, "step": k, "op": op, "impl": obs, "model": exp, "lines": lines, "monitor": True})
                break
    return bad


def run(res, tier, seed, pid=None, metrics=None):
    pid = pid or PID
    metrics = METRICS if metrics is None else metrics
    vlib.standard_proof_step(res, pid)
    if not vlib.build_executors(res, pid):
        return
    rng = random.Random(seed)
    cases, stats = gen_cases(rng, tier, metrics)
    if metrics:
        cases.append(("endpoint", ["metrics on", "pool p v4 0afe0000 24 4", "occ p v4 0afe0010 28", "endpoint p"]))
    mism, impl, st = corr.run_both("pool", cases, pid)
    # the endpoint line is an implementation-side sub-check: 'ok' and 'skipped' are both acceptable
    mism = [m for m in mism if not (m["op"].startswith("endpoint") and m["impl"].split()[:2] in (["endpoint", "ok"], ["endpoint", "skipped"]))]
    nops = sum(len(l) for _, l in cases)
    res.obligation("correspondence: real MultiCIDRSet = model on %d ops in %d sequences (full snapshot%s after every op)"
                   % (nops, len(cases), " + gathered metrics" if metrics else ""), not mism)
    mon = monitor(cases, impl, metrics)
    res.obligation("monitor: real MultiCIDRSet = reference set machine on the same sequences", not mon)
    have = {(m["case"], m["step"]) for m in mism}
    mism = mism + [m for m in mon if (m["case"], m["step"]) not in have]
    distinct = len({tuple(l) for _, l in cases if len(l) > 2})
    ep = [b for b in impl if b[0] == "case endpoint"]
    res.coverage.update({
        "evaluations": nops, "distinct_nontrivial": distinct,
        "rule": "random op sequences (3..40 ops: occupy/release with arguments of shape block/sub-block/multi-block/range/super-range/"
                "outside/other-family/edge, next-candidate) on pools of capacity 1..64 in both families"
                + ("" if metrics else " + for capacities <= 4 every reachable (used-set, cursor) state x every operation (BFS over the reference machine)")
                + "; a case is non-trivial when its op list is distinct and has at least two ops after the pool construction",
        "samples": [{"case": cases[i][0], "ops": cases[i][1][:10]} for i in (0, len(cases) // 2, len(cases) - 1)],
        "distribution": stats, "timing": st, "traces_validated_against_impl": len(cases),
        "endpoint_subcheck": ep[0][-1] if ep else None,
    })
    seen = set()
    for m in mism[:200]:
        key = (m["op"].split()[0], m["impl"].split(";")[0], bool(m.get("monitor")))
        if key in seen:
            continue
        seen.add(key)
        res.violation({"property": pid, "kind": "impl-violation",
                       "theorem_or_correspondence": ("reference set machine" if m.get("monitor") else "pool model (refines the set machine by the C14 theorems)") + " vs real MultiCIDRSet",
                       "case": ["case " + m["case"]] + m["lines"][:m["step"] + 1], "first_bad_step": m["step"], "op": m["op"],
                       "impl_obs": m["impl"], "model_obs": m["model"]})
