#!/usr/bin/env python3
"""confirm_seed.py <id> [name] -- confirm a sub-agent's seeded change in its scratch worktree and keep it under /verif/seeded/.
Checks: the patch applies, the project builds, the existing tests (all but TestAPIs) pass with it,
the demonstration fails with it and passes without it."""
import glob, json, os, shutil, subprocess, sys
pid = sys.argv[1]
name = sys.argv[2] if len(sys.argv) > 2 else pid
src = "/tmp/seed_out/%s" % name
wt = "/tmp/seed_%s" % name
env = dict(os.environ, GOFLAGS="-mod=mod", GOPROXY="off", GOSUMDB="off", GOTOOLCHAIN="local")
def sh(cmd, cwd=wt):
    p = subprocess.run(cmd, shell=True, cwd=cwd, env=env, stdout=subprocess.PIPE, stderr=subprocess.STDOUT, text=True)
    return p.returncode, p.stdout
sh("git checkout -- . && git clean -fdq")
demos = [f for f in glob.glob(src + "/*_test.go")]
assert demos, "no demo test"
base = json.load(open("/root/.vp/BASELINE.json"))["stable_pass"]
def existing_pass():
    rc, out = sh("go test -json -vet=off -count=1 ./... 2>&1")
    passed = set()
    for l in out.splitlines():
        try:
            e = json.loads(l)
        except Exception:
            continue
        if e.get("Action") == "pass" and e.get("Test"):
            passed.add("%s::%s" % (e["Package"], e["Test"]))
    return [t for t in base if t not in passed]
def demo_dir(path):
    txt = open(path).read()
    pkg = [l.split()[1] for l in txt.splitlines() if l.startswith("package ")][0]
    return {"ipam": "pkg/controller/ipam", "multicidrset": "pkg/controller/ipam/multicidrset", "validation": "pkg/apis/clustercidr/v1/validation",
            "ipam_test": "pkg/controller/ipam", "main": "."}.get(pkg, "pkg/controller/ipam")
def run_demo():
    res = {}
    for d in demos:
        dd = demo_dir(d)
        shutil.copy(d, os.path.join(wt, dd, os.path.basename(d)))
    for d in demos:
        dd = demo_dir(d)
        tests = [l.split("(")[0].split()[1] for l in open(d).read().splitlines() if l.startswith("func Test")]
        rc, out = sh("go test -vet=off -count=1 -run '^(%s)$' ./%s 2>&1 | tail -15" % ("|".join(tests), dd))
        res[os.path.basename(d)] = (("FAIL" in out and "ok  " not in out.splitlines()[-1]), out[-600:])
    for d in demos:
        os.remove(os.path.join(wt, demo_dir(d), os.path.basename(d)))
    return res
rc, out = sh("git apply %s/patch.diff" % src)
assert rc == 0, out
rc, out = sh("go build ./... 2>&1")
assert rc == 0, out
missing = existing_pass()
with_change = run_demo()
sh("git checkout -- .")
without_change = run_demo()
ok = (not missing) and all(v[0] for v in with_change.values()) and not any(v[0] for v in without_change.values())
print(pid, name, "existing tests missing:", missing, "| demo fails with change:", {k: v[0] for k, v in with_change.items()},
      "| demo fails without:", {k: v[0] for k, v in without_change.items()}, "| CONFIRMED" if ok else "| NOT CONFIRMED")
if ok:
    dst = "/verif/seeded/%s" % name
    os.makedirs(dst, exist_ok=True)
    shutil.copy(src + "/patch.diff", dst + "/patch.diff")
    for d in demos:
        shutil.copy(d, dst + "/" + os.path.basename(d) + ".txt")   # .txt so that no Go tool ever picks it up
    notes = open(src + "/notes.md").read() if os.path.exists(src + "/notes.md") else ""
    open(dst + "/notes.md", "w").write(notes)
    meta = {"property": pid, "name": name, "needs_to_manifest": "see notes.md",
            "confirmed": {"builds": True, "existing_tests_pass_with_change": True,
                          "demo_fails_with_change": True, "demo_passes_without_change": True,
                          "how": "py/confirm_seed.py in scratch worktree %s (git apply patch.diff; go build ./...; go test -json ./... vs BASELINE stable_pass; demo run with and without the change)" % wt},
            "detected_by": None}
    if os.path.exists(dst + "/meta.json"):
        old = json.load(open(dst + "/meta.json"))
        meta["detected_by"] = old.get("detected_by")
    json.dump(meta, open(dst + "/meta.json", "w"), indent=1)
sh("git checkout -- . && git clean -fdq")
