"""vlib -- shared machinery of the /verif checks: builds, proof re-check, executors, evidence."""
import fcntl
import hashlib
import json
import os
import re
import subprocess
import sys
import time

ROOT = os.path.dirname(os.path.dirname(os.path.abspath(__file__)))  # /verif (or an isolated copy of it)
REPO = os.environ.get("VERIF_REPO", "/repo")
BUILD = os.path.join(ROOT, "build")
COQ = os.path.join(ROOT, "coq")
EVID = os.path.join(ROOT, "evidence")
REPLAYS = os.path.join(ROOT, "replays")
NCPU = os.cpu_count() or 4

GOENV = dict(os.environ, GOFLAGS="-mod=mod", GOPROXY="off", GOSUMDB="off", GOTOOLCHAIN="local",
             CGO_ENABLED=os.environ.get("CGO_ENABLED", "1"), VERIF_REPO=REPO)

FORBIDDEN = re.compile(r"\b(Admitted|admit|Axiom|Axioms|Parameter|Parameters|Conjecture|Conjectures|"
                       r"Admit Obligations|bypass_check|native_compute)\b|Unset\s+Guard|Unset\s+Positivity|"
                       r"Unset\s+Universe|type-in-type|impredicative-set")


class CheckError(Exception):
    pass


def log(*a):
    print(*a, file=sys.stderr, flush=True)


def sh(cmd, timeout=1200, cwd=None, env=None, check=True, capture=True):
    t0 = time.time()
    p = subprocess.run(cmd, shell=isinstance(cmd, str), cwd=cwd, env=env, timeout=timeout,
                       stdout=subprocess.PIPE if capture else None,
                       stderr=subprocess.STDOUT if capture else None, text=True)
    if check and p.returncode != 0:
        raise CheckError("command failed (%d): %s\n%s" % (p.returncode, cmd, (p.stdout or "")[-4000:]))
    return p.returncode, p.stdout or "", time.time() - t0


class StallError(Exception):
    """the implementation did not return from one step within the watchdog time"""
    def __init__(self, casefile, line, op):
        Exception.__init__(self, "implementation stalled at line %d (%s)" % (line, op))
        self.casefile, self.line, self.op = casefile, line, op

    def history(self):
        """the case (op lines) in which the stall happened, up to and including the stalling op"""
        cur, cid = [], "?"
        for i, l in enumerate(open(self.casefile), 1):
            l = l.rstrip("\n")
            if l.startswith("case "):
                cur, cid = [], l.split()[1]
            elif l.strip() and not l.startswith("#"):
                cur.append(l)
            if i == self.line:
                break
        return cid, cur


class Lock:
    def __init__(self, name):
        os.makedirs(BUILD, exist_ok=True)
        self.path = os.path.join(BUILD, name)

    def __enter__(self):
        self.f = open(self.path, "w")
        fcntl.flock(self.f, fcntl.LOCK_EX)
        return self

    def __exit__(self, *a):
        fcntl.flock(self.f, fcntl.LOCK_UN)
        self.f.close()


def casefile(tag):
    """a case file of this process only: two runs of the same check at the same time must not share it.  The files of a
    process are removed when it ends; the last one of each tag is kept under its plain name for py/covreport.py."""
    d = os.path.join(BUILD, "cases")
    os.makedirs(d, exist_ok=True)
    cf = os.path.join(d, "%s.%d.case" % (tag, os.getpid()))
    if cf not in _CASEFILES:
        _CASEFILES.append(cf)
        if len(_CASEFILES) == 1:
            import atexit
            atexit.register(_drop_casefiles)
    return cf


_CASEFILES = []


def _drop_casefiles():
    for cf in _CASEFILES:
        plain = re.sub(r"\.\d+\.case$", ".case", cf)
        for ext in ("", ".orc", ".impl", ".model"):
            try:
                os.replace(cf + ext, plain + ext)
            except OSError:
                pass


# ---------------------------------------------------------------- Coq side
def coq_sources():
    out = []
    for d, _, fs in os.walk(COQ):
        if os.path.basename(d) == "gen":
            continue
        for f in fs:
            if f.endswith(".v"):
                out.append(os.path.join(d, f))
    return sorted(out)


def strip_comments(text):
    # remove (possibly nested) Coq comments
    out, depth, i = [], 0, 0
    while i < len(text):
        if text.startswith("(*", i):
            depth += 1
            i += 2
        elif text.startswith("*)", i) and depth > 0:
            depth -= 1
            i += 2
        else:
            if depth == 0:
                out.append(text[i])
            i += 1
    return "".join(out)


def gate():
    """No Admitted / axiom declarations / disabled kernel checks anywhere in the development."""
    bad = []
    for p in coq_sources():
        txt = strip_comments(open(p).read())
        for m in FORBIDDEN.finditer(txt):
            line = txt.count("\n", 0, m.start()) + 1
            bad.append("%s:%d:%s" % (os.path.relpath(p, ROOT), line, m.group(0)))
        # Variable / Hypothesis outside a section
        depth = 0
        for ln, l in enumerate(txt.split("\n"), 1):
            s = l.strip()
            if re.match(r"Section\b", s):
                depth += 1
            elif re.match(r"End\b", s) and depth > 0:
                depth -= 1
            elif depth == 0 and re.match(r"(Variable|Variables|Hypothesis|Hypotheses|Context)\b", s):
                bad.append("%s:%d:%s outside a section" % (os.path.relpath(p, ROOT), ln, s.split()[0]))
    return bad


def coq_build():
    """Full .vo build of the development (incremental through make)."""
    with Lock("coq.lock"):
        if not os.path.exists(os.path.join(COQ, "Makefile")):
            sh("coq_makefile -f _CoqProject -o Makefile", cwd=COQ)
        rc, out, dt = sh("timeout 3000 make -j%d 2>&1" % NCPU, cwd=COQ, timeout=3100, check=False)
        return rc == 0, out, dt


def coq_property(pid, extra_files=()):
    """Re-run coqc on Properties/<pid>.v and parse theorem names and Print Assumptions output."""
    path = os.path.join(COQ, "Properties", pid + ".v")
    src = strip_comments(open(path).read())
    theorems = re.findall(r"^\s*(?:Theorem|Lemma|Corollary|Example)\s+([A-Za-z0-9_']+)", src, re.M)
    with Lock("coq.lock"):
        rc, out, dt = sh("timeout 1200 coqc -Q . NIPAM Properties/%s.v 2>&1" % pid, cwd=COQ, timeout=1300, check=False)
    # Print Assumptions prints either "Closed under the global context" or "Axioms:\n name : type ..."
    blocks = re.split(r"(?=Closed under the global context|Axioms:)", out)
    assumptions = [b.strip() for b in blocks if b.startswith("Closed under") or b.startswith("Axioms:")]
    return {"ok": rc == 0, "theorems": theorems, "assumptions": assumptions, "log": out, "wall_s": dt}


def model_build():
    """Extraction + OCaml driver, rebuilt when any .vo or driver source is newer than the binary."""
    with Lock("model.lock"):
        mdir = os.path.join(BUILD, "model")
        os.makedirs(mdir, exist_ok=True)
        target = os.path.join(BUILD, "mdrive")
        srcs = [os.path.join(COQ, f) for f in os.listdir(COQ) if f.endswith(".vo") or f == "Extract.v"]
        srcs += [os.path.join(ROOT, "ocaml", f) for f in os.listdir(os.path.join(ROOT, "ocaml")) if f.endswith(".ml")]
        if os.path.exists(target) and all(os.path.getmtime(s) <= os.path.getmtime(target) for s in srcs):
            return True, "up to date", 0.0
        t0 = time.time()
        sh("cp %s/Extract.v ." % COQ, cwd=mdir)
        rc, out, _ = sh("timeout 600 coqc -Q %s NIPAM Extract.v 2>&1" % COQ, cwd=mdir, timeout=700, check=False)
        if rc != 0:
            return False, out, time.time() - t0
        sh("cp %s/ocaml/*.ml ." % ROOT, cwd=mdir)
        order = open(os.path.join(ROOT, "ocaml", "ORDER")).read().split()
        rc, out2, _ = sh("ocamlfind ocamlopt -w -a model.mli model.ml %s -o %s 2>&1" % (" ".join(order), target),
                         cwd=mdir, timeout=600, check=False)
        return rc == 0, out + out2, time.time() - t0


def harness_build(race=False):
    """Build the Go harness against /repo's CURRENT working tree with -tags verif."""
    with Lock("go.lock"):
        hdir = os.path.join(ROOT, "harness")
        sh("./gen_gomod.sh", cwd=hdir, env=GOENV)
        target = os.path.join(BUILD, "drive_race" if race else "drive")
        flags = "-race " if race else ""
        rc, out, dt = sh("timeout 1500 go build %s-tags verif -o %s ./cmd/drive 2>&1" % (flags, target),
                         cwd=hdir, env=GOENV, timeout=1600, check=False)
        return rc == 0, out, dt


def run_impl(mode, casefile, outfile, timeout=1200, race=False):
    exe = os.path.join(BUILD, "drive_race" if race else "drive")
    rc, out, dt = sh([exe, mode, casefile, outfile], timeout=timeout, check=False)
    if rc == 3 and "STALL line=" in out:
        m = re.search(r"STALL line=(\d+) op=(.*)", out)
        raise StallError(casefile, int(m.group(1)), m.group(2).strip())
    if rc != 0:
        raise CheckError("implementation driver failed rc=%d: %s" % (rc, out[-3000:]))
    return dt


def run_model(mode, casefile, outfile, timeout=1200):
    rc, out, dt = sh([os.path.join(BUILD, "mdrive"), mode, casefile, outfile], timeout=timeout, check=False)
    if rc != 0:
        raise CheckError("model driver failed rc=%d: %s" % (rc, out[-3000:]))
    return dt


# ---------------------------------------------------------------- known findings
def load_known():
    p = os.path.join(ROOT, "known_findings.json")
    if not os.path.exists(p):
        return []
    return json.load(open(p))


# ---------------------------------------------------------------- evidence / reporting
TRUSTED_COMMON = [
    "Coq 8.16.1 kernel (coqc); vm_compute used in a few closed computations; no native_compute",
    "extraction (ExtrOcamlBasic only: bool/option/unit/list/prod/sumbool/sumor mapped to OCaml's; N, Z, positive kept as Coq datatypes), OCaml 4.13.1, hand-written /verif/ocaml/*.ml drivers",
    "Go harness /verif/harness (drives the real code built from /repo with -tags verif) and the add-only //go:build verif export files in /repo",
    "Python generator / comparator /verif/py",
    "model-vs-code agreement is established only on the generated and corpus cases of each run (the theorems are about the model)",
]


class Result:
    def __init__(self, pid, tier, seed):
        self.pid, self.tier, self.seed = pid, tier, seed
        self.t0 = time.time()
        self.violations = []      # (replay_path, suffix)
        self.known = []           # text
        self.coverage = {}
        self.assumptions = []
        self.obligations = []     # (name, discharged)
        self.notes = []

    def obligation(self, name, ok):
        self.obligations.append((name, bool(ok)))

    def violation(self, replay_obj, nofail=False):
        os.makedirs(REPLAYS, exist_ok=True)
        body = json.dumps(replay_obj, indent=1, sort_keys=True)
        h = hashlib.sha1(body.encode()).hexdigest()[:10]
        path = os.path.join(REPLAYS, "%s-%s-%s.json" % (self.pid, self.seed, h))
        with open(path, "w") as f:
            f.write(body)
        self.violations.append((path, nofail))

    def finish(self, level="proof"):
        cov = dict(self.coverage)
        cov.setdefault("obligations", len(self.obligations))
        cov["discharged"] = sum(1 for _, ok in self.obligations if ok)
        cov["obligation_list"] = [{"name": n, "discharged": ok} for n, ok in self.obligations]
        cov.setdefault("checker_cmd", "cd /verif/coq && make && coqc -Q . NIPAM Properties/%s.v" % self.pid)
        cov.setdefault("trusted_base", TRUSTED_COMMON)
        ev = {"property_id": self.pid, "tier": self.tier, "seed": self.seed, "level": level,
              "coverage": cov, "assumptions": self.assumptions, "wall_s": round(time.time() - self.t0, 2),
              "violations": len(self.violations), "known_findings": self.known, "notes": self.notes}
        os.makedirs(EVID, exist_ok=True)
        with open(os.path.join(EVID, self.pid + ".json"), "w") as f:
            json.dump(ev, f, indent=1)
        for k in self.known:
            print("KNOWN-FINDING: property=%s %s" % (self.pid, k))
        for path, nofail in self.violations:
            print("VIOLATION property=%s replay=%s%s" % (self.pid, path, " no-failing-input-found" if nofail else ""))
        sys.stdout.flush()
        return 1 if self.violations else 0


def standard_proof_step(res, pid):
    """gate + build + re-check of the property file; records the obligations. Returns True when all proofs check."""
    bad = gate()
    res.obligation("gate: no Admitted/axiom declarations/disabled checks in /verif/coq", not bad)
    if bad:
        res.violation({"property": pid, "kind": "proof-break", "theorem_or_correspondence": "gate", "detail": bad}, nofail=True)
        return False
    ok, out, dt = coq_build()
    res.obligation("full .vo build of /verif/coq (make)", ok)
    if not ok:
        res.violation({"property": pid, "kind": "proof-break", "theorem_or_correspondence": "coq build",
                       "detail": out[-3000:]}, nofail=True)
        return False
    pr = coq_property(pid)
    for t in pr["theorems"]:
        res.obligation("theorem " + t, pr["ok"])
    res.coverage["print_assumptions"] = pr["assumptions"]
    axioms = [a for a in pr["assumptions"] if a.startswith("Axioms:")]
    res.assumptions.append("Print Assumptions: %d theorem(s) closed under the global context, %d with axioms%s"
                           % (sum(1 for a in pr["assumptions"] if a.startswith("Closed")), len(axioms),
                              (": " + " | ".join(axioms)) if axioms else ""))
    if not pr["ok"]:
        res.violation({"property": pid, "kind": "proof-break", "theorem_or_correspondence": "Properties/%s.v" % pid,
                       "detail": pr["log"][-3000:]}, nofail=True)
        return False
    if res.tier == "thorough":
        ck = coqchk_all()
        res.obligation("coqchk -silent -o over all Properties modules and their dependencies (independent checker)", ck["ok"])
        res.coverage["coqchk"] = {k: ck[k] for k in ("ok", "axioms", "seconds", "modules")}
        res.assumptions.append("coqchk axioms: %s" % (ck["axioms"] or "?"))
        if not ck["ok"]:
            res.violation({"property": pid, "kind": "proof-break", "theorem_or_correspondence": "coqchk", "detail": ck["tail"]}, nofail=True)
            return False
    return True


def coqchk_all():
    """thorough tier: re-check every compiled file of the development (and everything it depends on) with the independent
    checker, once per set of .vo files (cached by their hash, behind a lock)."""
    h = hashlib.sha256()
    vos = []
    for d, _, fs in os.walk(COQ):
        if os.path.basename(d) == "gen":
            continue
        for f in sorted(fs):
            if f.endswith(".vo"):
                vos.append(os.path.join(d, f))
    for f in sorted(vos):
        h.update(open(f, "rb").read())
    key = h.hexdigest()[:16]
    cache = os.path.join(BUILD, "coqchk_%s.json" % key)
    with Lock("coqchk.lock"):
        if os.path.exists(cache):
            return json.load(open(cache))
        mods = ["NIPAM.Properties." + os.path.basename(f)[:-3] for f in vos if os.path.basename(os.path.dirname(f)) == "Properties"]
        rc, out, dt = sh(["timeout", "3000", "coqchk", "-silent", "-o", "-Q", ".", "NIPAM"] + sorted(mods), cwd=COQ, timeout=3100, check=False)
        ax = ""
        m = re.search(r"\* Axioms:(.*?)\n\s*\n\* Constants", out, re.S)
        if m:
            ax = " ".join(m.group(1).split())
        r = {"ok": rc == 0, "axioms": ax, "seconds": round(dt), "modules": len(mods), "tail": out[-1500:]}
        json.dump(r, open(cache, "w"))
        return r


def build_executors(res, pid, race=False):
    ok, out, _ = model_build()
    res.obligation("extraction + OCaml model driver build", ok)
    if not ok:
        res.violation({"property": pid, "kind": "correspondence-break", "theorem_or_correspondence": "model build",
                       "detail": out[-3000:]}, nofail=True)
        return False
    ok, out, _ = harness_build(race=race)
    res.obligation("Go harness build from /repo working tree (-tags verif)", ok)
    if not ok:
        res.violation({"property": pid, "kind": "correspondence-break", "theorem_or_correspondence": "harness build",
                       "detail": out[-3000:]}, nofail=True)
        return False
    return True


def split_cases(lines):
    """Split an observation/case stream into blocks starting at 'case <id>' lines."""
    cases, cur = [], None
    for l in lines:
        if l.startswith("case "):
            cur = [l]
            cases.append(cur)
        elif cur is not None:
            cur.append(l)
        else:
            cur = ["case _preamble", l]
            cases.append(cur)
    return cases


def read_lines(p):
    with open(p) as f:
        return [l.rstrip("\n") for l in f if l.strip() and not l.startswith("#")]
