#!/usr/bin/env python3
"""harmrun.py [name ...] -- run every registered quick check against the stored BEHAVIOUR-PRESERVING refactorings
(/verif/harmless/<name>/patch.diff): none of them may raise an alarm.

Works in isolation like seedrun.py: a copy of /verif (without .git) and a scratch git worktree of /repo; for each
refactoring the patch is applied to the scratch worktree, the baseline tests of the touched packages are run once (a
refactoring that breaks them is not harmless and is reported as such), then all checks run with VERIF_REPO pointing at the
worktree.  Results: /verif/harmless/RESULTS.json."""
import json, os, shutil, subprocess, sys, time

ROOT = os.path.dirname(os.path.dirname(os.path.abspath(__file__)))
ALL = ["C%02d" % i for i in range(1, 21)]
only = [a for a in sys.argv[1:] if not a.startswith("--")]
checks = ALL
for a in sys.argv[1:]:
    if a.startswith("--checks="):
        checks = a.split("=", 1)[1].split(",")
names = only or sorted(d for d in os.listdir(os.path.join(ROOT, "harmless")) if os.path.isdir(os.path.join(ROOT, "harmless", d)))
tag = str(os.getpid())
copy = "/var/tmp/vharm_" + tag
wt = "/var/tmp/vharm_repo_" + tag
env = dict(os.environ, GOFLAGS="-mod=mod", GOPROXY="off", GOSUMDB="off", GOTOOLCHAIN="local", VERIF_REPO=wt)


def sh(cmd, cwd=None):
    p = subprocess.run(cmd, shell=True, cwd=cwd, env=env, stdout=subprocess.PIPE, stderr=subprocess.STDOUT, text=True)
    return p.returncode, p.stdout


try:
    sh("rsync -a --exclude .git --exclude replays %s/ %s/" % (ROOT, copy))
    os.makedirs(copy + "/replays", exist_ok=True)
    rc, out = sh("git -C /repo worktree add -q --detach %s HEAD" % wt)
    assert rc == 0, out
    rp = os.path.join(ROOT, "harmless", "RESULTS.json")
    for s in names:
        sd = os.path.join(ROOT, "harmless", s)
        rc, out = sh("git apply %s/patch.diff" % sd, cwd=wt)
        if rc != 0:
            print(s, "patch does not apply:", out[-300:], flush=True)
            continue
        rc, out = sh("go build ./... && go test -vet=off -count=1 -skip '^TestAPIs$' ./pkg/... 2>&1 | tail -5", cwd=wt)
        tests_ok = rc == 0 and "FAIL" not in out
        det = {}
        for cid in checks:
            t0 = time.time()
            rc, out = sh("%s/check %s" % (copy, cid))
            vl = [l for l in out.splitlines() if l.startswith("VIOLATION")]
            reports = []
            for l in vl:
                rpath = l.split("replay=")[1].split()[0]
                try:
                    r = json.load(open(rpath))
                    reports.append({"kind": r.get("kind"), "clause": (r.get("monitor_clause") or r.get("theorem_or_correspondence") or "")[:200],
                                    "concrete_input": not l.rstrip().endswith("no-failing-input-found"),
                                    "detail": str(r.get("detail") or r.get("first_difference") or "")[:600]})
                except Exception:
                    reports.append({"kind": "?", "line": l})
            det[cid] = {"exit": rc, "violations": len(vl), "reports": reports, "seconds": round(time.time() - t0)}
            print(s, cid, "rc=%d" % rc, [(k.get("kind"), k.get("concrete_input")) for k in reports], "%.0fs" % (time.time() - t0), flush=True)
        sh("git checkout -- . && git clean -fdq", cwd=wt)
        merged = json.load(open(rp)) if os.path.exists(rp) else {}
        allc = dict(merged.get(s, {}).get("checks", {}))
        allc.update(det)      # a run restricted with --checks= refreshes those entries only
        merged[s] = {"baseline_tests_pass": tests_ok, "checks": allc, "alarms": sorted(c for c, d in allc.items() if d["exit"] != 0)}
        json.dump(merged, open(rp, "w"), indent=1)
finally:
    sh("git -C /repo worktree remove --force %s" % wt)
    shutil.rmtree(copy, ignore_errors=True)
    shutil.rmtree(wt, ignore_errors=True)
    sh("git -C /repo worktree prune")
