import sys, random, collections
sys.path.insert(0,'/verif/py')
import vlib, syscorr, sysgen, sysmon
seed=int(sys.argv[1]) if len(sys.argv)>1 else 1
n=int(sys.argv[2]) if len(sys.argv)>2 else 300
rng=random.Random(seed)
cases, agg = sysgen.gen_histories(rng, n)
sc, cnt = sysgen.gen_scenarios(rng, n)
cases += sc
cases = [(c, ops + sysgen.drain_ops(3)) for c, ops in cases]
ok,out,_=vlib.harness_build(); assert ok, out
ok,out,_=vlib.model_build(); assert ok, out
res, st = syscorr.run_both(cases, "montest")
mons = {"C01": sysmon.mon_c01, "C02": sysmon.mon_c02, "C03": sysmon.mon_c03, "C04": sysmon.mon_c04, "C05": sysmon.mon_c05,
        "C06": sysmon.mon_c06, "C08": sysmon.mon_c08, "C09": sysmon.mon_c09, "C10": sysmon.mon_c10, "C12": sysmon.mon_c12, "C20": sysmon.mon_c20,
        "C11": lambda t: sysmon.mon_c11(t, 0)}
cls = collections.Counter(); ex = {}
for cid, lines, io, mo in res:
    t = sysmon.Trace(cid, lines, io)
    for p, m in mons.items():
        try:
            fails = m(t)
        except Exception as e:
            import traceback; traceback.print_exc(); print("monitor error", p, cid); sys.exit(1)
        for f in fails:
            key=(p, f["cls"])
            cls[key]+=1
            if key not in ex or len(lines) < len(ex[key][1]): ex[key]=(cid, lines[:f["step"]+1], f)
for k,v in sorted(cls.items()): print(k, v)
for k,(cid,lines,f) in ex.items():
    if len(sys.argv)>3 and sys.argv[3] in (k[0], k[1]):
        print("==", k, cid, f); print(" ; ".join(lines))
