#!/usr/bin/env python3
import os, subprocess, sys, time
ids = sys.argv[2].split(",") if len(sys.argv) > 2 else ["C01","C02","C03","C04","C05","C06","C07","C08","C09","C10","C11","C12","C13","C14","C16","C17","C18","C19","C20"]
seeds = [int(x) for x in sys.argv[1].split(",")] if len(sys.argv) > 1 else [1]
for s in seeds:
    for i in ids:
        t0 = time.time()
        p = subprocess.run([os.path.join(os.path.dirname(os.path.dirname(os.path.abspath(__file__))), "check"), i], env=dict(os.environ, VERIF_SEED=str(s)), stdout=subprocess.PIPE, stderr=subprocess.STDOUT, text=True)
        v = [l[:150] for l in p.stdout.splitlines() if l.startswith("VIOLATION")]
        k = sum(1 for l in p.stdout.splitlines() if l.startswith("KNOWN-FINDING"))
        print("seed %d %s rc=%d %.0fs known=%d %s" % (s, i, p.returncode, time.time() - t0, k, v), flush=True)
