"""sysmon -- property monitors evaluated on the IMPLEMENTATION's traces of system histories.
Each monitor returns a list of failures {step, clause, detail, cls}; cls is a structural class
used to match entries of known_findings.json."""
import re

W = {"v4": 32, "v6": 128}


# ---------------------------------------------------------------- parsing
def ptok(t):
    """'v4:0a000000/28' -> (fam, addr, len) ; None for bad / raw tokens"""
    m = re.match(r"^(v[46]):([0-9a-f]+)/(\d+)$", t)
    if not m:
        return None
    return (m.group(1), int(m.group(2), 16), int(m.group(3)))


def overlap(a, b):
    if a is None or b is None or a[0] != b[0]:
        return False
    w = W[a[0]]
    sa, sb = 1 << (w - a[2]), 1 << (w - b[2])
    return a[1] < b[1] + sb and b[1] < a[1] + sa


def inside(a, b):
    """a inside b"""
    if a is None or b is None or a[0] != b[0]:
        return False
    w = W[a[0]]
    return b[1] <= a[1] and a[1] + (1 << (w - a[2])) <= b[1] + (1 << (w - b[2]))


def parse_cidrs(s):
    return [] if s in ("-", "") else [ptok(x) for x in s.split(",")]


def parse_node(tok):
    # name:cidrs:dN:L<labels>   (cidr tokens contain ':')
    head, _, lab = tok.rpartition(":L")
    head, _, d = head.rpartition(":d")
    name, _, cs = head.partition(":")
    labels = {}
    for kv in lab.split("+"):
        if kv:
            k, _, v = kv.partition("=")
            labels[k] = v
    return {"name": name, "cidrs": parse_cidrs(cs), "raw": cs, "deleting": d == "1", "labels": labels}


def parse_cc(tok):
    name, fins, d, rv = tok.split(":")
    return {"name": name, "fins": [] if fins == "-" else fins.split("+"), "deleting": d == "d1", "rv": rv}


def parse_api(s):
    ns, _, cs = s.partition("^")
    return ([parse_node(x) for x in ns.split(";")] if ns != "-" else [],
            [parse_cc(x) for x in cs.split(";")] if cs != "-" else [])


def parse_cache(s):
    ns, cs, nfeed, cfeed = s.split("^")
    return ([parse_node(x) for x in ns.split(";")] if ns != "-" else [],
            [parse_cc(x) for x in cs.split(";")] if cs != "-" else [], int(nfeed), int(cfeed))


def parse_pool(s):
    if s == "-":
        return None
    mx, cnt, cur, keys = s.split("/", 3)
    return {"max": int(mx), "cnt": int(cnt), "cur": int(cur), "keys": [ptok(k) for k in keys.split("+")] if keys else []}


def parse_snap(s):
    if s in ("none", "empty"):
        return None if s == "none" else []
    out = []
    for e in s.split(";"):
        m = re.match(r"^([0-9a-f]*)#(\d+):([^:]*):t([01]):a=([^:]*):v4=(.*):v6=(.*)$", e)
        sel = bytes.fromhex(m.group(1)).decode("latin1")
        out.append({"sel": sel, "idx": int(m.group(2)), "name": m.group(3), "term": m.group(4) == "1",
                    "assoc": [] if m.group(5) == "-" else m.group(5).split("+"),
                    "v4": parse_pool(m.group(6)), "v6": parse_pool(m.group(7))})
    return out


def parse_fx(s):
    out = []
    if s == "-":
        return out
    for e in s.split(";"):
        f = e.split()
        if f[0] == "patch":
            out.append({"kind": "patch", "node": f[1], "cidrs": parse_cidrs(f[2]), "raw": f[2], "out": f[3], "extra": f[4:]})
        elif f[0] == "updcc":
            out.append({"kind": "updcc", "name": f[1], "fins": [] if f[2] == "fins=-" else f[2][5:].split("+"), "rest": f[3][5:], "out": f[4]})
        elif f[0] == "createcc" and len(f) == 8:
            # the Create of the default ClusterCIDR at start-up: the object as the controller built it from its flags
            out.append({"kind": "createcc", "name": f[1], "fins": [] if f[2] == "fins=-" else f[2][5:].split("+"),
                        "v4": f[3][3:], "v6": f[4][3:], "hb": int(f[5][3:]), "sel": f[6][4:], "out": f[7]})
        elif f[0] == "ev":
            out.append({"kind": "ev", "code": f[1], "obj": f[2]})
        elif f[0] == "order":
            out.append({"kind": "order", "names": [] if f[1:] == ["-"] else (f[1].split(",") if len(f) > 1 else [])})
        elif f[0] == "getnode":
            out.append({"kind": "getnode", "node": f[1], "out": f[2]})
        else:
            out.append({"kind": f[0], "raw": e})
    return out


# ---------------------------------------------------------------- selector semantics (independent of the model)
def parse_int(s):
    return int(s) if re.match(r"^[+-]?\d+$", s) and -2 ** 63 <= int(s) <= 2 ** 63 - 1 else None


def sel_matches(spec, labels):
    """selector spec of the case file (single or several terms, all requirements are ANDed by the controller)"""
    if spec in ("-",):
        return True
    if spec == "0":
        return True
    for term in spec.split("|"):
        for r in term.split(";"):
            if not r:
                continue
            if r.startswith("F."):
                r = r[2:]
            key, op, vals = (r.split(":", 2) + ["", ""])[:3]
            vs = [("" if v == "EMPTY" else v) for v in vals.split("+")] if vals else []
            has = key in labels
            v = labels.get(key)
            if op == "In":
                ok = has and v in vs
            elif op == "NotIn":
                ok = (not has) or v not in vs
            elif op == "Exists":
                ok = has
            elif op == "DoesNotExist":
                ok = not has
            elif op in ("Gt", "Lt"):
                lv = parse_int(v) if has else None
                rv = parse_int(vs[0]) if len(vs) == 1 else None
                ok = lv is not None and rv is not None and (lv > rv if op == "Gt" else lv < rv)
            else:
                ok = False
            if not ok:
                return False
    return True


# ---------------------------------------------------------------- trace view
class Trace:
    def __init__(self, cid, ops, obs, xmap=None):
        self.cid, self.ops = cid, ops
        self.xmap = xmap or {}
        self.res = [o.get("res") for o in obs]
        self.fx = [parse_fx(o.get("fx", "-")) for o in obs]
        self.snap = [parse_snap(o.get("snap", "none")) for o in obs]
        self.api = [parse_api(o.get("api", "-^-")) for o in obs]
        self.cache = [parse_cache(o.get("cache", "-^-^0^0")) for o in obs]
        self.q = [o.get("q", "-/-/-/-") for o in obs]
        self.rq = [o.get("rq", "0") for o in obs]
        self.hash = [o.get("hash", "same") for o in obs]
        # ClusterCIDR specs as created by the history
        self.ccspec = {}
        self.svc = [None, None]
        # E7: nodes created with pod CIDRs that overlap CIDRs another node already holds are the
        # environment's own conflict; findings about them are not the controller's
        self.e7 = set()
        for k, op in enumerate(ops):
            f = op.split()
            if f[0] == "n+" and f[3] != "-" and k > 0:
                mine = parse_cidrs(f[3])
                for n in self.api[k - 1][0]:
                    if n["name"] != f[1] and any(overlap(a, b) for a in mine for b in n["cidrs"]):
                        self.e7.add(f[1])
                        self.e7.add(n["name"])

    def spec_at(self, k):
        """ClusterCIDR specs known up to step k (a name can be re-created: latest wins)"""
        out = {}
        for i, op in enumerate(self.ops[:k + 1]):
            f = op.split()
            live = {c["name"] for c in self.api[i - 1][1]} if i > 0 else set()
            if f[0] == "cc+" and len(f) == 9:
                # a name can be deleted and created again: the latest creation that took effect counts
                if f[1] not in out or f[1] not in live:
                    # arbitrary-text fields (x: tokens) mean what the controller's own parser reads (oracle file)
                    out[f[1]] = {"v4": ptok(self.xmap.get(f[2], f[2])) if f[2] != "-" else None,
                                 "v6": ptok(self.xmap.get(f[3], f[3])) if f[3] != "-" else None,
                                 "hb": int(f[4]), "sel": f[5]}
            # the default ClusterCIDR is the object the controller itself built from its flags and sent to the API at start-up
            # (it is mapped whatever the outcome of that write)
            for e in self.fx[i]:
                if e["kind"] == "createcc" and (e["name"] not in out or e["name"] not in live):
                    out[e["name"]] = {"v4": ptok(e["v4"]) if e["v4"] != "-" else None, "v6": ptok(e["v6"]) if e["v6"] != "-" else None,
                                      "hb": e["hb"], "sel": "-" if e["sel"] == "-" else "?"}
        return out


def blocks_ok(cidr, spec):
    """is cidr an aligned block of the ClusterCIDR spec (family range, prefix = W - hb)?"""
    if cidr is None:
        return False
    rng = spec["v4"] if cidr[0] == "v4" else spec["v6"]
    if rng is None:
        return False
    w = W[cidr[0]]
    n = w - spec["hb"]
    return cidr[2] == n and inside(cidr, rng) and cidr[1] % (1 << (w - n)) == 0


def entry_of_patch(snap_after, node, cidrs):
    """the entry the PATCHed blocks were taken from: its pools hold the blocks as keys (prefer the one associated with the node)"""
    cands = []
    for e in snap_after or []:
        ok = True
        for c in cidrs:
            p = e["v4"] if c and c[0] == "v4" else e["v6"]
            if p is None or c not in p["keys"]:
                ok = False
        if ok and cidrs:
            cands.append(e)
    for e in cands:
        if node in e["assoc"]:
            return e
    return cands[0] if cands else None


def sync_ops(t):
    """steps that run a node sync: (k, node name) ; for pn the key is the queue head before the step"""
    out = []
    fetched = {}
    for k, op in enumerate(t.ops):
        f = op.split()
        if f[0] == "pn" and k > 0:
            ready = t.q[k - 1].split("/")[0]
            if ready != "-" and t.snap[k - 1] is not None:
                out.append((k, ready.split(",")[0], None))
        elif f[0] == "fn":
            cached = {n["name"]: n for n in t.cache[k][0]}
            fetched[f[1]] = (f[2], cached.get(f[2]))
        elif f[0] == "runn" and f[1] in fetched:
            key, obj = fetched.pop(f[1])
            if t.snap[k - 1] is not None:
                out.append((k, key, ("stale", obj)))
        elif f[0] in ("crash", "construct"):
            fetched = {}
    return out


# ---------------------------------------------------------------- monitors
def mon_c01(t):
    bad = []
    written = {}     # node -> cidrs written by the current incarnation
    listed = {}      # node -> cidrs shown by the current incarnation's start-up listing
    for k, op in enumerate(t.ops):
        f = op.split()
        if f[0] == "construct":
            written, listed = {}, {}
            if k > 0:
                for n in t.api[k - 1][0]:
                    if n["cidrs"]:
                        listed[n["name"]] = n["cidrs"]
        if f[0] == "crash":
            written, listed = {}, {}
        for e in t.fx[k]:
            if e["kind"] != "patch" or e["out"] not in ("ok", "tmo"):
                continue
            api_before = {n["name"]: n for n in (t.api[k - 1][0] if k > 0 else [])}
            cache_before = {n["name"]: n for n in (t.cache[k - 1][0] if k > 0 else [])}
            for m, an in api_before.items():
                if m == e["node"] or an["deleting"] or not an["cidrs"] or m in t.e7:
                    continue
                known = []
                if m in cache_before and cache_before[m]["cidrs"]:
                    known.append(("cache", cache_before[m]["cidrs"]))
                if m in listed:
                    known.append(("listed", listed[m]))
                if m in written:
                    known.append(("written", written[m]))
                for how, cs in known:
                    for c in e["cidrs"]:
                        for c2 in cs:
                            if c2 in an["cidrs"] and overlap(c, c2):
                                bad.append({"step": k, "clause": "patch overlaps a known node's CIDR",
                                            "detail": "%s gets %s overlapping %s held by %s (known via %s)" % (e["node"], e["raw"], c2, m, how),
                                            "cls": classify_c01(t, k, e, m, c2, how)})
            # applied writes are known from now on
            an = api_before.get(e["node"])
            if an is not None and not an["cidrs"]:
                written[e["node"]] = e["cidrs"]
    return bad


def classify_c01(t, k, e, m, c2, how):
    """structural class of an overlap: what made the controller blind to node m's CIDR"""
    snap = t.snap[k - 1] or []
    if any(m in en["assoc"] for en in snap):
        return "overlap-although-holder-associated"
    start = max([i for i in range(k) if t.ops[i].split()[0] == "construct"] + [0])
    was_assoc = any(m in en["assoc"] for i in range(start, k) for en in (t.snap[i] or []))
    if not was_assoc:
        # the holder's CIDRs were never recorded by this incarnation: no ClusterCIDR selected by its labels covered
        # them when it was synced (ClusterCIDR created later, selector mismatch), or its work item has not run yet
        return "holder-never-associated"
    for i in range(start, k):
        if any(x["kind"] == "patch" and x["node"] == m and x["out"] == "tmo" for x in t.fx[i]):
            return "released-after-ambiguous-write"   # D9
    return "association-dropped-while-held"


def delseen_steps(t):
    """ds[k]: names of the ClusterCIDRs whose deletion request the controller has processed before step k (a work item of the
    object ran while the cached object carried a deletion timestamp); a name is forgotten when an object of that name is created"""
    ds, delseen, fetched = [], set(), {}
    for k, op in enumerate(t.ops):
        f = op.split()
        if f[0] == "cc+":
            delseen.discard(f[1])
        ds.append(set(delseen))
        proc = None
        if f[0] == "pc" and k > 0:
            ready = t.q[k - 1].split("/")[2]
            if ready != "-" and t.snap[k - 1] is not None:
                proc = {c["name"]: c for c in t.cache[k - 1][1]}.get(ready.split(",")[0])
        elif f[0] == "fc":
            fetched[f[1]] = {c["name"]: c for c in t.cache[k][1]}.get(f[2])
        elif f[0] == "runc" and f[1] in fetched:
            proc = fetched.pop(f[1])
            if t.snap[k - 1] is None:
                proc = None
        elif f[0] in ("crash", "construct"):
            fetched = {}
        if proc is not None and proc["deleting"]:
            delseen.add(proc["name"])
    ds.append(set(delseen))      # ds[len(ops)]: after the last step
    return ds


def mon_c02(t):
    bad = []
    fetched = {}
    ds = delseen_steps(t)
    e3 = e3_ccs(t)
    for k, node, stale in sync_ops(t):
        for e in t.fx[k]:
            if e["kind"] != "patch":
                continue
            specs = t.spec_at(k)
            ent = entry_of_patch(t.snap[k], e["node"], e["cidrs"]) if e["out"] == "ok" else None
            cands = [ent["name"]] if ent else [nm for nm, sp in specs.items() if all(blocks_ok(c, sp) for c in e["cidrs"])]
            ok_any = None
            cached = {n["name"]: n for n in t.cache[k - 1][0]}
            nodeobj = stale[1] if stale else cached.get(node)
            labels = nodeobj["labels"] if nodeobj else {}
            for nm in cands:
                sp = specs.get(nm)
                if sp is None:
                    continue
                fams = [x for x in ("v4", "v6") if sp[x] is not None]
                shape = [c[0] if c else None for c in e["cidrs"]] == fams
                blocks = all(blocks_ok(c, sp) for c in e["cidrs"])
                selok = sel_matches(sp["sel"], labels)
                before = [en for en in (t.snap[k - 1] or []) if en["name"] == nm]
                # eligible: mapped, not marked terminating, and -- whatever the controller's own mark says -- its deletion request
                # has not been processed yet
                # (a ClusterCIDR mapped again by a stale item that was in flight while its key was processed from the queue -- a
                # schedule no work queue produces, E3 -- is not held against the controller, as in the other monitors)
                live = bool(before) and not all(en["term"] for en in before) and (nm not in ds[k] or nm in e3)
                if shape and blocks and selok and live:
                    ok_any = nm
                    break
                why = "shape" if not shape else "block" if not blocks else "selector" if not selok else "terminating-or-unknown"
            if ok_any is None:
                bad.append({"step": k, "clause": "assignment is not one well-formed block per family of one eligible ClusterCIDR",
                            "detail": "patch %s %s (candidates %s)" % (e["node"], e["raw"], cands), "cls": "bad-assignment"})
            if e["extra"]:
                bad.append({"step": k, "clause": "podCIDR is not the first of podCIDRs", "detail": e["raw"], "cls": "podcidr-mismatch"})
    # patches outside node syncs are never expected
    sk = {k for k, _, _ in sync_ops(t)}
    for k in range(len(t.ops)):
        if k not in sk and any(e["kind"] == "patch" for e in t.fx[k]):
            bad.append({"step": k, "clause": "PATCH outside a node work item", "detail": t.ops[k], "cls": "patch-outside-sync"})
    return bad


def used_everywhere(snap, fam):
    out = []
    for en in snap or []:
        p = en[fam]
        if p:
            out += p["keys"]
    return out


def has_room(t, k, en, spec):
    """does the entry have, in every configured family, a block free of overlap with every used key of that family?"""
    for fam in ("v4", "v6"):
        p = en[fam]
        if p is None:
            continue
        rng = spec[fam]
        if rng is None:
            return False
        w = W[fam]
        n = w - spec["hb"]
        # CIDRs in use: every used key of that family in any pool, and the pod CIDRs of the nodes in the cache
        used = used_everywhere(t.snap[k], fam) + [c for n in t.cache[k][0] for c in n["cidrs"] if c and c[0] == fam]
        free = False
        for i in range(p["max"]):
            b = (fam, rng[1] + i * (1 << (w - n)), n)
            if not any(overlap(b, u) for u in used):
                free = True
                break
        if not free:
            return False
    return True


def term_justified(t):
    """tj[k]: names of ClusterCIDRs whose entry may legitimately be marked terminating after step k -- the controller has
    processed a deletion request for the object (a work item ran on a copy carrying a deletion timestamp), or the object was
    being deleted / had a modified spec (generation > 1) when the current incarnation listed it at start-up.  An entry that is
    marked terminating for any other reason still counts as eligible: the mark is the controller's own bookkeeping, the
    property speaks of ClusterCIDRs whose deletion was requested and processed."""
    if getattr(t, "_tj", None) is not None:
        return t._tj
    ds = delseen_steps(t)
    gen = {}
    boot = set()
    tj = []
    for k, op in enumerate(t.ops):
        f = op.split()
        if f[0] == "cc+" and len(f) == 9 and (k == 0 or f[1] not in {c["name"] for c in t.api[k - 1][1]}):
            gen[f[1]] = int(f[7])
            boot.discard(f[1])
        if f[0] == "construct" and (k == 0 or t.snap[k - 1] is None):
            listed = t.api[k - 1][1] if k > 0 else []
            boot = {c["name"] for c in listed if c["deleting"] or gen.get(c["name"], 1) > 1}
        after = ds[k + 1]
        tj.append(set(after) | boot)
    t._tj = tj
    return tj


def eligible_entries(t, k, labels):
    specs = t.spec_at(k)
    tj = term_justified(t)[k]
    present = {c["name"] for c in t.api[k][1]}
    if getattr(t, "_e3", None) is None:
        t._e3 = e3_ccs(t)      # schedules no work queue produces (E3): what they leave behind is not held against the controller
    out = []
    for en in t.snap[k] or []:
        sp = specs.get(en["name"])
        if sp is None:
            continue
        if en["term"] and (en["name"] in tj or en["name"] not in present or en["name"] in t._e3):
            continue
        if sel_matches(sp["sel"], labels):
            out.append((en, sp))
    return out


def mon_c05(t):
    bad = []
    for k, node, stale in sync_ops(t):
        cached = {n["name"]: n for n in t.cache[k - 1][0]}
        nodeobj = stale[1] if stale else cached.get(node)
        if nodeobj is None or nodeobj["cidrs"] or nodeobj["raw"] != "-" or nodeobj["deleting"]:
            continue
        patched = any(e["kind"] == "patch" for e in t.fx[k])
        refused_ev = any(e["kind"] == "ev" and e["code"] == "1" for e in t.fx[k])
        if patched:
            continue
        # the in-lock re-read may show CIDRs already: then nothing is written and that is no refusal
        if node in cached and cached[node]["cidrs"]:
            continue
        if node not in cached:
            continue
        room = [en["name"] for en, sp in eligible_entries(t, k - 1, nodeobj["labels"]) if has_room(t, k - 1, en, sp)]
        if room:
            bad.append({"step": k, "clause": "node refused although an eligible ClusterCIDR has room",
                        "detail": "%s refused; room in %s" % (node, room), "cls": "refused-with-room"})
        elif t.res[k] not in ("2", "3") or not refused_ev:
            bad.append({"step": k, "clause": "refusal not reported as error + CIDRNotAvailable event",
                        "detail": "%s res=%s fx=%s" % (node, t.res[k], t.fx[k]), "cls": "refusal-not-reported"})
    return bad


def running(t, k):
    """informers have been started for the current incarnation"""
    for i in range(k, -1, -1):
        f = t.ops[i].split()[0]
        if f == "start" and t.snap[i] is not None:
            return True
        if f in ("construct", "crash"):
            return False
    return False


def idle(t, k):
    if not running(t, k):
        return False
    ns, cs, nfeed, cfeed = t.cache[k]
    q = t.q[k].split("/")
    # nothing ready to run; items waiting for a retry after a failure do not count (they fail again)
    return q[0] == "-" and q[2] == "-" and nfeed == 0 and cfeed == 0 and t.snap[k] is not None


def mon_c04(t):
    bad = []
    svc = [None, None]
    fetched = 0
    ambiguous = []     # CIDRs of node writes whose outcome the API server left ambiguous (this incarnation)
    for k, op in enumerate(t.ops):
        f = op.split()
        if f[0] in ("construct", "crash"):
            ambiguous = []
        if any(e["kind"] == "getnode" and e["out"] == "fail" for e in t.fx[k]):
            for e in t.fx[k]:
                if e["kind"] == "patch" and e["out"] in ("tmo", "tmn"):
                    ambiguous += e["cidrs"]
        if f[0] == "construct":
            svc = [ptok(f[1]) if f[1] != "-" else None, ptok(f[2]) if f[2] != "-" else None]
        if f[0] in ("fn", "fc"):
            fetched += 1
        if f[0] in ("runn", "runc"):
            fetched = max(0, fetched - 1)
        if f[0] in ("crash", "construct"):
            fetched = 0
        check_here = (idle(t, k) and fetched == 0) or (f[0] == "construct" and t.snap[k] is not None)
        if not check_here:
            continue
        nodes = t.api[k][0]
        for en in t.snap[k] or []:
            for fam in ("v4", "v6"):
                p = en[fam]
                if not p:
                    continue
                for key in p["keys"]:
                    just = any(overlap(key, c) for n in nodes for c in n["cidrs"]) or any(overlap(key, s) for s in svc) \
                        or any(overlap(key, c) for c in ambiguous)
                    if not just:
                        bad.append({"step": k, "clause": "block withheld with nothing justifying it",
                                    "detail": "%s in %s (assoc %s)" % (key, en["name"], en["assoc"]),
                                    "cls": classify_c04(t, k, en, key)})
    return bad


def classify_c04(t, k, en, key):
    """why is an unjustified key there?"""
    # the block once belonged to a node that has since been deleted
    holder = None
    for i in range(k, -1, -1):
        for n in t.api[i][0]:
            if any(overlap(key, c) for c in n["cidrs"]):
                holder = (i, n["name"])
                break
        if holder:
            break
    if holder is None:
        return "never-held"
    i, name = holder
    # the step at which the informer store lost the holder: a deletion was delivered there
    for j in range(k, i, -1):
        before = {n["name"]: n for n in t.cache[j - 1][0]}
        after = {n["name"] for n in t.cache[j][0]}
        if name in before and name not in after:
            f = t.ops[j].split()
            # the notification carried only the store's last known state (missed delete / relist), and that state predates
            # the write of the block: it shows no pod CIDR to release
            if f[0] in ("dnt", "rln") and not any(overlap(key, c) for c in before[name]["cidrs"]):
                return "holder-deleted-stale-tombstone"
            break
    # deleted between the start-up listing and the start of the informers: no notification ever arrives
    for j in range(i, k + 1):
        f = t.ops[j].split()
        if f[0] == "n-" and f[1] == name and not running(t, j):
            return "holder-deleted-before-informers-started"
    # deleted and created again under the same name while the watch was broken: the relist shows one update of the
    # stored object, never a deletion of the old incarnation
    gone = [j for j in range(i, k + 1) if t.ops[j].split()[:2] == ["n-", name]]
    if gone:
        a = gone[0]
        back = [j for j in range(a, k + 1) if t.ops[j].split()[:2] == ["n+", name]]
        if back:
            b = back[0]
            lost = any(name in {n["name"] for n in t.cache[j - 1][0]} and name not in {n["name"] for n in t.cache[j][0]} for j in range(a, b + 1))
            relisted = any(t.ops[j].split()[0] == "rln" for j in range(b, k + 1))
            still = all(name in {n["name"] for n in t.cache[j][0]} for j in range(a, b + 1))
            if relisted and still and not lost:
                return "holder-replaced-seen-as-update"
    return "holder-deleted-not-released"


def mon_c08(t):
    bad = []
    for k in range(1, len(t.ops)):
        cache_before = {n["name"]: n for n in t.cache[k - 1][0]}
        for e in t.fx[k]:
            if e["kind"] == "patch" and e["node"] in cache_before and cache_before[e["node"]]["raw"] != "-":
                bad.append({"step": k, "clause": "write to the pod CIDRs of a node that has them according to the cache",
                            "detail": "patch %s %s ; cache shows %s" % (e["node"], e["raw"], cache_before[e["node"]]["raw"]), "cls": "patch-on-assigned-node"})
    for k, node, stale in sync_ops(t):
        cached = {n["name"]: n for n in t.cache[k - 1][0]}
        nodeobj = stale[1] if stale else cached.get(node)
        if nodeobj is None or not nodeobj["cidrs"] or nodeobj["deleting"]:
            continue
        if t.api[k] != t.api[k - 1]:
            bad.append({"step": k, "clause": "processing a node that has pod CIDRs changed the cluster", "detail": t.ops[k], "cls": "resync-changes-api"})
        # ... nor is anything else written: no PATCH, no ClusterCIDR write, no Event object
        for e in t.fx[k]:
            if e["kind"] in ("patch", "ev", "updcc", "createcc"):
                bad.append({"step": k, "clause": "processing a node that has pod CIDRs wrote to the cluster",
                            "detail": "%s: %s" % (t.ops[k], {x: e[x] for x in e if x in ("kind", "node", "obj", "code", "name", "raw")}), "cls": "resync-writes-" + e["kind"]})
        # nothing beyond the node's own CIDRs gets reserved
        before = {(en["sel"], en["idx"], fam): set(en[fam]["keys"]) for en in (t.snap[k - 1] or []) for fam in ("v4", "v6") if en[fam]}
        for en in t.snap[k] or []:
            for fam in ("v4", "v6"):
                if en[fam]:
                    new = set(en[fam]["keys"]) - before.get((en["sel"], en["idx"], fam), set())
                    for key in new:
                        if not any(overlap(key, c) for c in nodeobj["cidrs"]):
                            bad.append({"step": k, "clause": "re-sync reserved a block beyond the node's own CIDRs",
                                        "detail": "%s reserved %s" % (node, key), "cls": "resync-reserves-more"})
        # ... and nothing that was reserved is given back by processing a node that has pod CIDRs and is not being deleted
        after = {(en["sel"], en["idx"], fam): set(en[fam]["keys"]) for en in (t.snap[k] or []) for fam in ("v4", "v6") if en[fam]}
        if t.snap[k] is not None and t.res[k] != "3":
            for slot, keys in before.items():
                lost = keys - after.get(slot, keys)
                for key in sorted(lost, key=str):
                    bad.append({"step": k, "clause": "re-sync of a node that has pod CIDRs released a reserved block",
                                "detail": "%s: %s lost from %s" % (node, key, slot[:2]), "cls": "resync-releases"})
    return bad


def mon_c09(t):
    bad = []
    svc, at_start = [None, None], set()
    tainted = []    # pod CIDRs nodes were created with: the property's quantifier has no node inside a service range
    for k, op in enumerate(t.ops):
        f = op.split()
        if f[0] == "n+" and f[3] != "-":
            tainted += parse_cidrs(f[3])
        if f[0] == "construct":
            svc = [ptok(f[1]) if f[1] != "-" else None, ptok(f[2]) if f[2] != "-" else None]
            at_start = {c["name"] for c in (t.api[k - 1][1] if k > 0 else [])}
        for e in t.fx[k]:
            if e["kind"] == "patch":
                ent = entry_of_patch(t.snap[k], e["node"], e["cidrs"])
                specs = t.spec_at(k)
                cands = [ent["name"]] if ent is not None else [nm for nm, sp in specs.items() if all(blocks_ok(c, sp) for c in e["cidrs"])]
                if not any(nm in at_start for nm in cands):
                    continue
                for c in e["cidrs"]:
                    for s in svc:
                        if s and overlap(c, s) and not any(overlap(c, x) and overlap(x, s) for x in tainted):
                            bad.append({"step": k, "clause": "assigned pod CIDR overlaps a service range",
                                        "detail": "%s gets %s, service %s" % (e["node"], c, s), "cls": "overlaps-service"})
    return bad


def mon_c10(t):
    bad = []
    gone = set()
    finalized = set()    # names whose object got the finalizer through a write of the controller itself (this object incarnation)
    inflight, e3, fobj = {}, set(), {}
    released = set()     # names from whose deleting object the controller itself took its finalizer off: its part of the deletion is done
    for k, op in enumerate(t.ops):
        f = op.split()
        if f[0] == "cc+":
            gone.discard(f[1])
            if k > 0 and f[1] not in {c["name"] for c in t.api[k - 1][1]}:
                finalized.discard(f[1])
                released.discard(f[1])
        for e in t.fx[k]:
            if e["kind"] == "updcc" and "OURS" in e["fins"] and e["out"] in ("ok", "aerr"):
                finalized.add(e["name"])
            if e["kind"] == "updcc" and "OURS" not in e["fins"] and e["out"] in ("ok", "aerr") and k > 0 \
                    and any(c["name"] == e["name"] and c["deleting"] and "OURS" in c["fins"] for c in t.api[k - 1][1]):
                released.add(e["name"])
        # E3: a work queue never hands one key to two workers at once.  The op alphabet can express such schedules (a fetched
        # item in flight while the same key is processed from the queue); what they produce is not held against the controller
        runkey, fetched_obj = None, None
        if f[0] == "fc":
            inflight[f[1]] = f[2]
            fobj[f[1]] = {c["name"]: c for c in t.cache[k][1]}.get(f[2])
        elif f[0] == "runc":
            key = inflight.pop(f[1], None)
            runkey, fetched_obj = key, fobj.pop(f[1], None)
            if key is not None and key in inflight.values():
                e3.add(key)
        elif f[0] == "pc" and k > 0:
            ready = t.q[k - 1].split("/")[2]
            if ready != "-" and ready.split(",")[0] in inflight.values():
                e3.add(ready.split(",")[0])
        elif f[0] in ("crash", "construct"):
            inflight, fobj = {}, {}
        # handling an object that is not being deleted, for a name that is already mapped, changes nothing in its entry
        procname = None
        if f[0] == "pc" and k > 0:
            ready = t.q[k - 1].split("/")[2]
            if ready != "-":
                procname = ready.split(",")[0]
                obj = {c["name"]: c for c in t.cache[k - 1][1]}.get(procname)
        elif f[0] == "runc" and runkey is not None:
            procname, obj = runkey, fetched_obj
        if procname is not None and obj is not None and not obj["deleting"] and procname not in e3 \
                and t.snap[k - 1] is not None and t.snap[k] is not None and t.res[k] != "3":
            before = [en for en in t.snap[k - 1] if en["name"] == procname]
            after = [en for en in t.snap[k] if en["name"] == procname]
            if before and before != after:
                bad.append({"step": k, "clause": "handling an already mapped ClusterCIDR again changed its entry",
                            "detail": "%s: %s -> %s" % (procname, before, after), "cls": "entry-changed"})
        api_names = {c["name"] for c in t.api[k][1]}
        prev_names = {c["name"] for c in t.api[k - 1][1]} if k > 0 else set()
        for nm in prev_names - api_names:
            gone.add(nm)
        if t.snap[k] is None:
            continue
        count = {}
        for en in t.snap[k]:
            count[en["name"]] = count.get(en["name"], 0) + 1
        for nm, c in count.items():
            if c > 1:
                bad.append({"step": k, "clause": "a ClusterCIDR contributes more than one pool", "detail": "%s has %d entries" % (nm, c), "cls": "duplicate-entry"})
        # once the controller has completed its part of a deletion (finalizer taken off the deleting object) the ClusterCIDR
        # contributes no pool, however often the object -- kept alive by somebody else's finalizer -- is handled again
        for en in t.snap[k]:
            if en["name"] in released and en["name"] not in e3 and not en["term"]:
                bad.append({"step": k, "clause": "a ClusterCIDR whose deletion the controller completed contributes a pool again",
                            "detail": "%s mapped as usable at step %d (%s)" % (en["name"], k, op), "cls": "remapped-after-release"})
        # after its deletion completed (object gone and the notification processed: idle) it contributes none
        if idle(t, k):
            live = {en["name"] for en in t.snap[k] if not en["term"]}
            for nm in count:
                # an entry kept only to protect still-associated nodes is terminating and contributes no pool
                if nm in gone and nm not in api_names and nm in live:
                    bad.append({"step": k, "clause": "a ClusterCIDR whose deletion completed still contributes a pool",
                                "detail": nm, "cls": classify_c10(t, k, nm)})
            # an existing, non-deleting ClusterCIDR to which the controller itself added its finalizer (so it accepted the spec)
            # contributes exactly one entry (possibly terminating, when picked up with a modified spec): handling the same
            # object again -- stale or duplicate notification, failed write, retry -- must not lose it
            have = {en["name"] for en in t.snap[k]}
            for c in t.api[k][1]:
                if c["name"] in finalized and c["name"] not in e3 and not c["deleting"] and "OURS" in c["fins"] and c["name"] not in have:
                    bad.append({"step": k, "clause": "an existing ClusterCIDR carrying the controller's finalizer contributes no pool",
                                "detail": c["name"], "cls": "entry-lost"})
    return bad


def classify_c10(t, k, nm):
    # did the object ever carry our finalizer?
    for i in range(k + 1):
        for c in t.api[i][1]:
            if c["name"] == nm and "OURS" in c["fins"]:
                return "entry-after-completed-deletion"
    return "entry-of-object-deleted-before-finalizer"     # D6b


def mon_c06(t):
    bad = []
    delseen = set()
    removed = set()
    fetched = {}
    served = {}      # node -> (ClusterCIDR name, CIDRs, incarnation): who the controller itself took the node's blocks from
    e3 = e3_ccs(t)   # ClusterCIDR keys touched by a schedule no work queue produces (an item in flight while its key is processed)
    inc = 0
    svc = []         # the service ranges of the current incarnation
    for k, op in enumerate(t.ops):
        f = op.split()
        if f[0] == "cc+":
            removed.discard(f[1])
            delseen.discard(f[1])
            if k > 0 and f[1] not in {c["name"] for c in t.api[k - 1][1]}:
                served = {n: v for n, v in served.items() if v[0] != f[1]}
        if f[0] == "n-":
            served.pop(f[1], None)
        # after a restart the node is accounted to whichever ClusterCIDR re-occupies its CIDRs: [served] is kept, and a removal
        # is excused below when another entry holds the node's CIDRs on its behalf, or when the ClusterCIDR no longer selects
        # the node (a new incarnation finds the ClusterCIDR of a node's CIDRs through the node's current labels)
        if f[0] == "construct":
            inc += 1
            svc = [x for x in (ptok(f[1]) if f[1] != "-" else None, ptok(f[2]) if f[2] != "-" else None) if x]
        # an object the controller itself creates (the default ClusterCIDR) is a new object: what an earlier object or an
        # in-memory entry of that name served is not accounted to it
        for e in t.fx[k]:
            if e["kind"] == "createcc" and e["out"] == "ok":
                served = {n: v for n, v in served.items() if v[0] != e["name"]}
        # which ClusterCIDR object does this step process?
        proc = None
        if f[0] == "pc" and k > 0:
            ready = t.q[k - 1].split("/")[2]
            if ready != "-" and t.snap[k - 1] is not None:
                nm = ready.split(",")[0]
                proc = {c["name"]: c for c in t.cache[k - 1][1]}.get(nm)
        elif f[0] == "fc":
            fetched[f[1]] = {c["name"]: c for c in t.cache[k][1]}.get(f[2])
        elif f[0] == "runc" and f[1] in fetched:
            proc = fetched.pop(f[1])
            if t.snap[k - 1] is None:
                proc = None
        elif f[0] in ("crash", "construct"):
            fetched = {}
        for e in t.fx[k]:
            if e["kind"] == "updcc":
                if e["rest"] == "CHANGED":
                    bad.append({"step": k, "clause": "write to a ClusterCIDR changed something other than its own finalizer",
                                "detail": str(e), "cls": "foreign-field-changed"})
                if "OURS" not in e["fins"] and e["out"] in ("ok", "aerr"):
                    # finalizer dropped: no existing node may depend on this ClusterCIDR
                    ents = [en for en in (t.snap[k - 1] or []) if en["name"] == e["name"]]
                    spec = t.spec_at(k).get(e["name"])
                    for n in t.api[k - 1][0]:
                        for c in n["cidrs"]:
                            for en in ents:
                                p = en["v4"] if c and c[0] == "v4" else en["v6"]
                                # a node depends on the ClusterCIDR when its CIDRs are reserved there on its behalf: it is
                                # associated, or the ClusterCIDR selects it (a node the ClusterCIDR does not select is never
                                # recorded there; an overlap with e.g. a service-range reservation is a coincidence)
                                # (for a node that is not associated, blocks that are marked because they overlap a service
                                # range of this incarnation say nothing: the controller may not even have been told of the node)
                                assoc = n["name"] in en["assoc"]
                                tracked = assoc or (spec is not None and sel_matches(spec["sel"], n["labels"]))
                                keys = [key for key in p["keys"] if assoc or not any(overlap(key, sv) for sv in svc)] if p else []
                                if tracked and p and any(overlap(c, key) for key in keys):
                                    bad.append({"step": k, "clause": "finalizer removed while an existing node depends on the ClusterCIDR",
                                                "detail": "%s still reserves %s for node %s" % (e["name"], c, n["name"]), "cls": classify_c06(t, k, en, n)})
                    # ... or the controller itself took the node's current pod CIDRs from this ClusterCIDR (its own records of
                    # that may be gone: the history of its writes is the ground truth)
                    for n in t.api[k - 1][0]:
                        sv = served.get(n["name"])
                        elsewhere = any(en["name"] != e["name"] and n["name"] in en["assoc"]
                                        and all(c is not None and en[c[0]] is not None and any(overlap(c, key) for key in en[c[0]]["keys"]) for c in n["cidrs"])
                                        for en in (t.snap[k - 1] or []))
                        still_selected = sv is not None and (sv[2] == inc or (spec is not None and sel_matches(spec["sel"], n["labels"])))
                        if sv and sv[0] == e["name"] and not n["deleting"] and n["cidrs"] and sorted(map(str, n["cidrs"])) == sorted(map(str, sv[1])) \
                                and not elsewhere and still_selected \
                                and not any(b["step"] == k and ("node %s" % n["name"]) in b["detail"] for b in bad):
                            bad.append({"step": k, "clause": "finalizer removed while an existing node depends on the ClusterCIDR",
                                        "detail": "%s was the source of %s written to node %s, which still exists" % (e["name"], sv[1], n["name"]),
                                        "cls": "dependant-served-earlier"})
                    removed.add(e["name"])
            if e["kind"] == "patch" and e["out"] in ("ok", "tmo"):
                ent = entry_of_patch(t.snap[k], e["node"], e["cidrs"])
                if ent is not None and e["node"] in ent["assoc"]:
                    served[e["node"]] = (ent["name"], e["cidrs"], inc)
                if ent is not None and ent["name"] in delseen and ent["name"] not in e3:
                    bad.append({"step": k, "clause": "allocation from a ClusterCIDR after its deletion request was processed",
                                "detail": "%s served from %s" % (e["node"], ent["name"]), "cls": "allocated-after-deletion-processed"})
        if proc is not None and proc["deleting"]:
            delseen.add(proc["name"])
        if f[0] in ("crash",):
            pass
    return bad


def classify_c06(t, k, en, n):
    sp = t.spec_at(k).get(en["name"])
    if n["name"] not in en["assoc"] and sp is not None and not sel_matches(sp["sel"], n["labels"]):
        return "dependant-not-selected-by-clustercidr"       # D4 family: never tracked
    if n["name"] not in en["assoc"]:
        ops = " ".join(t.ops[:k + 1])
        if any(x["kind"] == "patch" and x["node"] == n["name"] and x["out"] == "tmo" for i in range(k) for x in t.fx[i]):
            return "dependant-not-associated-after-ambiguous-write"
        return "dependant-not-associated"
    return "dependant-associated"


def e3_ccs(t):
    """ClusterCIDR keys for which the history contains a schedule no work queue produces (E3): a fetched item in flight while
    the same key is processed from the queue or by another worker.  What such schedules produce is not held against the controller."""
    inflight, e3 = {}, set()
    for k, op in enumerate(t.ops):
        f = op.split()
        if f[0] == "fc":
            if f[2] in inflight.values():
                e3.add(f[2])
            inflight[f[1]] = f[2]
        elif f[0] == "runc":
            key = inflight.pop(f[1], None)
            if key is not None and key in inflight.values():
                e3.add(key)
        elif f[0] == "pc" and k > 0:
            ready = t.q[k - 1].split("/")[2]
            if ready != "-" and ready.split(",")[0] in inflight.values():
                e3.add(ready.split(",")[0])
        elif f[0] in ("crash", "construct"):
            inflight = {}
    return e3


def mon_c11(t, drain_from):
    """after the drain: steady state; failed items are requeued"""
    bad = []
    for k, op in enumerate(t.ops):
        f = op.split()
        if f[0] in ("pn", "pc") and t.res[k] == "2" and t.rq[k] != "1":
            bad.append({"step": k, "clause": "a failed work item was not queued again", "detail": op, "cls": "not-requeued"})
    k = len(t.ops) - 1
    if t.snap[k] is None:
        return bad
    nodes, ccs = t.api[k]
    KNOWN_LEAKS = ("holder-deleted-stale-tombstone", "holder-deleted-before-informers-started", "holder-replaced-seen-as-update")
    leaks = [b for b in mon_c04(t) if b["step"] == k and b["cls"] not in KNOWN_LEAKS] if any(n["raw"] == "-" and not n["deleting"] for n in nodes) else []
    for n in nodes:
        if n["raw"] == "-" and not n["deleting"]:
            elig = eligible_entries(t, k, n["labels"])
            room = [en["name"] for en, sp in elig if has_room(t, k, en, sp)]
            if room:
                bad.append({"step": k, "clause": "steady state: a servable node has no pod CIDRs",
                            "detail": "%s could be served by %s" % (n["name"], room), "cls": "node-not-served"})
            else:
                # "can serve" is about CIDRs in use, not about what the allocator has marked: a block of an eligible entry
                # that nothing in the cluster justifies (and that is not one of the recorded leaks) is room the node is denied
                names = {en["name"] for en, sp in elig}
                blocked = [b for b in leaks if any((" in %s " % nm) in b["detail"] for nm in names)]
                if blocked:
                    bad.append({"step": k, "clause": "steady state: a servable node has no pod CIDRs",
                                "detail": "%s is refused only because of %s" % (n["name"], blocked[0]["detail"]), "cls": "node-not-served-unjustified-block"})
    # steady state: every existing, non-deleting ClusterCIDR to which the controller itself added its finalizer (it accepted
    # the spec) is mapped; otherwise nodes only it can serve wait for ever
    finalized = set()
    for i, op in enumerate(t.ops):
        f = op.split()
        if f[0] == "cc+" and i > 0 and f[1] not in {c["name"] for c in t.api[i - 1][1]}:
            finalized.discard(f[1])
        for e in t.fx[i]:
            if e["kind"] == "updcc" and "OURS" in e["fins"] and e["out"] in ("ok", "aerr"):
                finalized.add(e["name"])
    have = {en["name"] for en in t.snap[k]}
    e3 = e3_ccs(t)
    for c in ccs:
        if c["name"] in finalized and c["name"] not in e3 and not c["deleting"] and "OURS" in c["fins"] and c["name"] not in have:
            bad.append({"step": k, "clause": "steady state: an existing ClusterCIDR carrying the controller's finalizer is not mapped",
                        "detail": c["name"], "cls": "clustercidr-not-mapped"})
    for c in ccs:
        if c["deleting"] and "OURS" in c["fins"]:
            ents = [en for en in (t.snap[k] or []) if en["name"] == c["name"]]
            dep = False
            for n in nodes:
                for cc in n["cidrs"]:
                    for en in ents:
                        p = en["v4"] if cc and cc[0] == "v4" else en["v6"]
                        if p and any(overlap(cc, key) for key in p["keys"]):
                            dep = True
            if not dep:
                cls = "not-released-stale-association" if any(en["assoc"] for en in ents) else "not-released"
                bad.append({"step": k, "clause": "steady state: a ClusterCIDR with deletion requested and no dependants still has the finalizer",
                            "detail": "%s assoc=%s" % (c["name"], [en["assoc"] for en in ents]), "cls": cls})
    return bad


def mon_c12(t):
    bad = []
    for k, op in enumerate(t.ops):
        if t.res[k] == "3" or any(e["kind"] == "PANIC" for e in t.fx[k]):
            bad.append({"step": k, "clause": "panic escaped a handler or sync call", "detail": op, "cls": "panic"})
    return bad + [b for b in mon_c02(t) if b["cls"] in ("bad-assignment",)]


def mon_c20(t):
    return [{"step": k, "clause": "a cached object was modified in place", "detail": h, "cls": "cache-mutated"}
            for k, h in enumerate(t.hash) if h != "same"]


def mon_c03(t):
    """after every construct: the rebuilt pools hold only what listed nodes / service ranges justify (no resurrected
    reservation), and hold every listed node's CIDR that some matching ClusterCIDR covers; C01 across incarnations is
    checked by mon_c01 (start-up listing counts as known)"""
    bad = []
    for k, op in enumerate(t.ops):
        f = op.split()
        if f[0] != "construct" or t.snap[k] is None:
            continue
        svc = [ptok(f[1]) if f[1] != "-" else None, ptok(f[2]) if f[2] != "-" else None]
        nodes = t.api[k][0]
        for en in t.snap[k]:
            for fam in ("v4", "v6"):
                p = en[fam]
                for key in (p["keys"] if p else []):
                    if not (any(overlap(key, c) for n in nodes for c in n["cidrs"]) or any(overlap(key, s) for s in svc)):
                        bad.append({"step": k, "clause": "a block is reserved after restart with no listed node or service range justifying it",
                                    "detail": "%s in %s" % (key, en["name"]), "cls": "resurrected-reservation"})
        # every listed node whose pod CIDRs all lie inside the ranges of a mapped ClusterCIDR that selects it (terminating
        # ones included) is associated again, with all its pod CIDRs reserved, before anything is allocated
        specs = t.spec_at(k)
        for n in nodes:
            cs = n["cidrs"]
            if not cs or any(c is None for c in cs):
                continue
            elig = []
            for en in t.snap[k]:
                sp = specs.get(en["name"])
                if sp is None or not sel_matches(sp["sel"], n["labels"]):
                    continue
                if all(sp[c[0]] is not None and en[c[0]] is not None and inside(c, sp[c[0]]) for c in cs):
                    elig.append(en["name"])
            if not elig:
                continue
            held = [en for en in t.snap[k] if n["name"] in en["assoc"]
                    and all(en[c[0]] is not None and any(overlap(c, key) for key in en[c[0]]["keys"]) for c in cs)]
            if not held:
                bad.append({"step": k, "clause": "a listed node's pod CIDRs are not reserved again after restart",
                            "detail": "%s holds %s, eligible ClusterCIDRs %s" % (n["name"], cs, elig), "cls": "listed-node-not-reserved"})
    # "all other guarantees keep holding for everything that happens afterwards": what is assigned after a restart is still one
    # well-formed block per family of an eligible ClusterCIDR -- in particular not of one whose deletion had been requested
    # before the controller stopped (the rebuilt entry must be terminating)
    restarts = [k for k, op in enumerate(t.ops) if op.split()[0] == "construct"]
    after = restarts[1] if len(restarts) > 1 else None
    later = [dict(b, clause="after a restart: " + b["clause"]) for b in mon_c02(t)
             if after is not None and b["step"] > after and b["cls"] == "bad-assignment"]
    return bad + [b for b in mon_c01(t) if "listed" in b["detail"]] + later
