"""xcheck -- cross-check of the extraction and of the hand-written OCaml driver: a sample of the system histories of a run
is translated to Gallina terms by THIS module (an implementation of the case-file syntax independent of ocaml/sysdrv.ml and
ocaml/conv.ml), evaluated by Coq itself (vm_compute on Sys.trace), and compared inside Coq with what the extracted model,
driven by the OCaml code, printed for the same history (result code and PATCHes of every step, final controller pools).
A disagreement means extraction, conv.ml/sysdrv.ml or this translation is wrong -- none of them is then trusted."""
import os
import re
import vlib

OPS = {"In": "OpIn", "NotIn": "OpNotIn", "Exists": "OpExists", "DoesNotExist": "OpDoesNotExist", "Gt": "OpGt", "Lt": "OpLt"}


def gstr(s):
    return "[" + "; ".join(str(b) for b in s.encode("latin-1")) + "]"


def unhex(h):
    return "" if h == "-" else bytes.fromhex(h).decode("latin-1")


def gcidr(tok):
    fam, rest = tok.split(":", 1)
    h, l = rest.split("/")
    return "(mkCidr %s %d %d)" % ("V4" if fam == "v4" else "V6", int(h, 16), int(l))


class Oracles:
    def __init__(self, path):
        self.labels, self.selkey, self.parse, self.cidr = {}, {}, {}, {}
        for l in open(path):
            f = l.split()
            if not f:
                continue
            if f[0] == "label" and len(f) == 3:
                self.labels[f[1]] = unhex(f[2])
            elif f[0] == "selkey" and len(f) == 3:
                self.selkey[f[1]] = None if f[2] == "fail" else unhex(f[2])
            elif f[0] == "parse" and len(f) >= 3:
                self.parse[unhex(f[1])] = None if f[2] == "fail" else (f[3] if len(f) > 3 else "-")
            elif f[0] == "cidr" and len(f) >= 3:
                self.cidr[f[1]] = None if f[2] == "bad" else (f[2], f[3] == "1")

    def greqs(self, rs):
        out = []
        for r in ([] if rs in ("-", "") else rs.split(";")):
            k, o, vs = r.split(":")
            vals = [] if vs == "" else vs.split("+")
            out.append("(mkReq %s %s [%s])" % (gstr(unhex(k)), OPS[o], "; ".join(gstr(unhex(v)) for v in vals)))
        return "[" + "; ".join(out) + "]"

    def gallina(self):
        po = "fun k => " + "".join("if str_eqb k %s then %s else " % (gstr(k), "None" if v is None else "Some " + self.greqs(v))
                                   for k, v in sorted(self.parse.items())) + "None"
        lab = "fun c => " + "".join("if cidr_eqb c %s then %s else " % (gcidr(t), gstr(s)) for t, s in sorted(self.labels.items())) + "[]"
        return po, lab

    def pcidr(self, tok):
        if tok.startswith("x:"):
            v = self.cidr.get(tok)
            return "PBad" if v is None else "(PGood %s %s)" % (gcidr(v[0]), "true" if v[1] else "false")
        return "(PGood %s true)" % gcidr(tok)

    def field(self, tok):
        if tok == "-":
            return "FEmpty"
        if tok.startswith("x:"):
            v = self.cidr.get(tok)
            if v is not None:
                return "(FOk %s)" % gcidr(v[0])
            return "FEmpty" if tok == "x:" else "FBad"
        return "(FOk %s)" % gcidr(tok)


def glabels(s):
    out = []
    for kv in ([] if s in ("-", "") else s.split(",")):
        if "=" in kv:
            k, v = kv.split("=", 1)
        else:
            k, v = kv, ""
        out.append("(%s, %s)" % (gstr(k), gstr(v)))
    return "[" + "; ".join(out) + "]"


def gfins(s):
    return "[" + "; ".join("finalizer" if x == "OURS" else gstr(x) for x in ([] if s in ("-", "") else s.split("+"))) + "]"


POUT = {"ok": "POk", "tmo": "PTimeoutApplied", "tmn": "PTimeoutNotApplied"}
UOUT = {"ok": "UOk", "aerr": "UAppliedErr"}


def gpouts(s):
    return "[" + "; ".join(POUT.get(x, "PFail") for x in ([] if s in ("-", "") else s.split(","))) + "]"


def guout(s):
    xs = [] if s in ("-", "") else s.split(",")
    return UOUT.get(xs[0], "UFail") if xs else "UFail"


def gop(orc, line):
    f = line.split()
    k = f[0]
    if k == "n+" and len(f) == 4:
        return "UCreateNode %s %s [%s]" % (gstr(f[1]), glabels(f[2]), "; ".join(orc.pcidr(t) for t in ([] if f[3] == "-" else f[3].split(","))))
    if k == "nl" and len(f) == 3:
        return "ULabelNode %s %s" % (gstr(f[1]), glabels(f[2]))
    if k == "n-" and len(f) == 2:
        return "UDeleteNode %s" % gstr(f[1])
    if k == "nd" and len(f) == 2:
        return "UMarkNodeDeleting %s" % gstr(f[1])
    if k == "cc+" and len(f) == 9:
        key = orc.selkey.get(f[5])
        return "UCreateCC (mkCCObj %s %s %s (%d)%%Z %s %s false %d 0 %d)" % (
            gstr(f[1]), orc.field(f[2]), orc.field(f[3]), int(f[4]), "None" if key is None else "(Some %s)" % gstr(key), gfins(f[6]), int(f[7]), int(f[8]))
    if k == "cc-" and len(f) == 2:
        return "UDeleteCC %s" % gstr(f[1])
    if k == "ccf" and len(f) == 3:
        return "USetCCFinalizers %s %s" % (gstr(f[1]), gfins(f[2]))
    simple = {"dn": "DeliverNode", "dnt": "DeliverNodeTombstone", "dc": "DeliverCC", "rln": "RelistNodes", "rlc": "RelistCCs",
              "rn": "ResyncNodes", "rc": "ResyncCCs", "tick": "Tick", "crash": "Crash", "start": "StartInformers"}
    if k in simple and len(f) == 1:
        return simple[k]
    if k == "fn" and len(f) == 3:
        return "FetchNode %d %s" % (int(f[1]), gstr(f[2]))
    if k == "runn" and len(f) == 3:
        return "RunNode %d %s" % (int(f[1]), gpouts(f[2]))
    if k == "fc" and len(f) == 3:
        return "FetchCC %d %s" % (int(f[1]), gstr(f[2]))
    if k == "runc" and len(f) == 3:
        return "RunCC %d %s" % (int(f[1]), guout(f[2]))
    if k == "pn" and len(f) == 2:
        return "ProcNode %s" % gpouts(f[1])
    if k == "pc" and len(f) == 2:
        return "ProcCC %s" % guout(f[1])
    if k == "construct" and len(f) in (4, 5):
        s1 = "None" if f[1] == "-" else "(Some %s)" % gcidr(f[1])
        s2 = "None" if f[2] == "-" else "(Some %s)" % gcidr(f[2])
        outs = "[" + "; ".join(UOUT.get(x, "UFail") for x in ([] if f[3] in ("-", "") else f[3].split(","))) + "]"
        dp = "[]"
        if len(f) == 5 and f[4] != "-":
            dp = "[" + "; ".join("(%s, (%d)%%Z)" % (gcidr(x.split("=")[0]), int(x.split("=")[1])) for x in f[4].split(",")) + "]"
        return "Construct %s %s %s %s" % (s1, s2, outs, dp)
    return None


def expected_step(mobs):
    """(res, patches) of one step as printed by the extracted model through the OCaml driver"""
    res = int(mobs.get("res", "0"))
    patches = []
    fx = mobs.get("fx", "-")
    for e in ([] if fx == "-" else fx.split(";")):
        f = e.split()
        if f and f[0] == "patch":
            cs = [] if f[2] == "-" else f[2].split(",")
            patches.append("(%s, [%s], %s)" % (gstr(f[1]), "; ".join(gcidr(c) for c in cs), POUT.get(f[3], "PFail")))
    return "(%d, [%s])" % (res, "; ".join(patches))


PRELUDE = """From NIPAM Require Import Sys.
From Coq Require Import List NArith ZArith.
Import ListNotations.
Open Scope N_scope.
Definition fx_sum (e : effect) : list (str * list cidr * patch_outcome) :=
  match e with FxPatch n cs o => [(n, cs, o)] | _ => [] end.
Definition step_sum (x : op * obs * world) : N * list (str * list cidr * patch_outcome) :=
  (ob_res (snd (fst x)), flat_map fx_sum (ob_fx (snd (fst x)))).
"""


def run(res, results, casefile, sample):
    """results: [(cid, lines, iobs, mobs)] of a csys run; casefile: its path (the .orc file is beside it)"""
    orc = Oracles(casefile + ".orc")
    po, lab = orc.gallina()
    picked = [r for r in results if all(not l.startswith("om ") for l in r[1])][:sample]
    body = [PRELUDE, "Definition po : parse_oracle := %s." % po, "Definition lab : label_oracle := %s." % lab]
    n = 0
    for i, (cid, lines, iobs, mobs) in enumerate(picked):
        ops = [gop(orc, l) for l in lines]
        if any(o is None for o in ops):
            continue
        n += 1
        body.append("Definition ops_%d : list op := [%s]." % (i, ";\n  ".join(ops)))
        body.append("Definition exp_%d : list (N * list (str * list cidr * patch_outcome)) := [%s]." % (i, ";\n  ".join(expected_step(m) for m in mobs)))
        body.append("Example xc_%d : map step_sum (trace po lab init_world ops_%d) = exp_%d.\nProof. vm_compute. reflexivity. Qed." % (i, i, i))
    gen = os.path.join(vlib.COQ, "gen")
    os.makedirs(gen, exist_ok=True)
    path = os.path.join(gen, "xcheck_%s.v" % res.pid)
    open(path, "w").write("\n".join(body) + "\n")
    rc, out, dt = vlib.sh("timeout 900 coqc -Q .. NIPAM %s 2>&1" % os.path.basename(path), cwd=gen, timeout=1000, check=False)
    ok = rc == 0
    res.obligation("extraction cross-check: Coq's own evaluation (vm_compute) of %d histories = output of the extracted model through the OCaml driver" % n, ok)
    res.coverage["xcheck"] = {"histories": n, "seconds": round(dt, 1), "ok": ok}
    if not ok:
        m = re.search(r'File "[^"]*", line (\d+)', out)
        res.violation({"property": res.pid, "kind": "correspondence-break",
                       "theorem_or_correspondence": "extraction cross-check (py/xcheck.py): Coq vm_compute vs extracted model + OCaml driver",
                       "detail": out[-2500:], "file": path, "line": int(m.group(1)) if m else None}, nofail=True)
    return ok
