#!/usr/bin/env python3
"""covreport.py -- which statements of /repo's controller packages the correspondence harness executes.
Builds the driver with Go's coverage instrumentation (binary outside /verif/build), runs it on the case files the last check
runs left in build/cases, and lists the blocks of pkg/controller/ipam that were never executed, with their source.
Not part of any registered check: a tool for finding behaviour the generators do not reach."""
import os, re, subprocess, sys, tempfile, shutil
ROOT = os.path.dirname(os.path.dirname(os.path.abspath(__file__)))
REPO = os.environ.get("VERIF_REPO", "/repo")
env = dict(os.environ, GOFLAGS="-mod=mod", GOPROXY="off", GOSUMDB="off", GOTOOLCHAIN="local")
tmp = tempfile.mkdtemp(prefix="vcov_", dir="/var/tmp")
try:
    exe = os.path.join(tmp, "drive_cov")
    subprocess.run("./gen_gomod.sh", shell=True, cwd=os.path.join(ROOT, "harness"), env=env, check=True, stdout=subprocess.DEVNULL)
    subprocess.run("go build -cover -coverpkg=sigs.k8s.io/node-ipam-controller/pkg/...,verif/harness/... -tags verif -o %s ./cmd/drive" % exe,
                   shell=True, cwd=os.path.join(ROOT, "harness"), env=env, check=True)
    cov = os.path.join(tmp, "cov"); os.makedirs(cov)
    cases = os.path.join(ROOT, "build", "cases")
    runs = [("sys", f) for f in sorted(os.listdir(cases)) if re.fullmatch(r"C(0[1-689]|1[012]|20|07pop|12_v4m)\.case", f)]
    runs += [("prio", "C07.case"), ("pool", "C13.case"), ("pool", "C14.case"), ("pool", "C19.case"), ("sel", "C17.case"), ("valid", "C18.case")]
    e2 = dict(env, GOCOVERDIR=cov)
    for mode, f in runs:
        p = os.path.join(cases, f)
        if not os.path.exists(p):
            continue
        subprocess.run([exe, "annotate", p, os.path.join(tmp, "orc")], env=e2, stdout=subprocess.DEVNULL, stderr=subprocess.DEVNULL)
        subprocess.run([exe, mode, p, os.path.join(tmp, "out")], env=e2, stdout=subprocess.DEVNULL, stderr=subprocess.DEVNULL)
    txt = os.path.join(tmp, "cov.txt")
    subprocess.run("go tool covdata textfmt -i=%s -o %s" % (cov, txt), shell=True, cwd=os.path.join(ROOT, "harness"), env=env, check=True)
    blocks = {}
    for l in open(txt).read().splitlines()[1:]:
        m = re.match(r"(.*):(\d+)\.(\d+),(\d+)\.(\d+) (\d+) (\d+)", l)
        if not m:
            continue
        f, l1, c1, l2, c2, n, cnt = m.groups()
        k = (f, int(l1), int(l2))
        blocks[k] = max(blocks.get(k, 0), int(cnt))
    want = ("pkg/controller/ipam/multi_cidr_range_allocator.go", "pkg/controller/ipam/multicidrset/multi_cidr_set.go", "pkg/util/node/controller_utils.go")
    tot = sum(1 for k in blocks if any(k[0].endswith(w) for w in want)); hit = sum(1 for k, v in blocks.items() if v and any(k[0].endswith(w) for w in want))
    print("blocks executed in the three core files: %d of %d" % (hit, tot))
    for (f, l1, l2), v in sorted(blocks.items()):
        if v or not any(f.endswith(w) for w in want):
            continue
        rel = f.split("node-ipam-controller/")[-1]
        src = open(os.path.join(REPO, rel)).read().splitlines()
        print("--- %s:%d-%d" % (rel, l1, l2))
        for i in range(l1, min(l2, l1 + 6) + 1):
            print("    %4d %s" % (i, src[i - 1]))
finally:
    shutil.rmtree(tmp, ignore_errors=True)
