"""syscorr -- run system histories on the real controller and on the model; field-wise comparison."""
import os
import vlib

FIELDS = ["res", "fx", "rq", "snap", "q", "api", "cache", "hash"]


def parse_obs(line):
    d = {}
    for part in line.split(" | "):
        k, _, v = part.partition("=")
        d[k] = v
    return d


def run_both(cases, tag, timeout=3000):
    cf = vlib.casefile(tag)
    with open(cf, "w") as f:
        for cid, lines in cases:
            f.write("case %s\n" % cid)
            for l in lines:
                f.write(l + "\n")
    vlib.run_impl("annotate", cf, cf + ".orc", timeout=timeout)
    t_impl = vlib.run_impl("sys", cf, cf + ".impl", timeout=timeout)
    t_model = vlib.run_model("sys", cf, cf + ".model", timeout=timeout)
    impl = vlib.split_cases(vlib.read_lines(cf + ".impl"))
    model = vlib.split_cases(vlib.read_lines(cf + ".model"))
    if len(impl) != len(cases) or len(model) != len(cases):
        raise vlib.CheckError("executor output shape: %d cases, impl %d, model %d" % (len(cases), len(impl), len(model)))
    out = []
    for (cid, lines), ib, mb in zip(cases, impl, model):
        if len(ib) != len(lines) + 1 or len(mb) != len(lines) + 1:
            raise vlib.CheckError("case %s: %d ops, impl %d lines, model %d lines" % (cid, len(lines), len(ib) - 1, len(mb) - 1))
        out.append((cid, lines, [parse_obs(x) for x in ib[1:]], [parse_obs(x) for x in mb[1:]]))
    return out, {"t_impl": t_impl, "t_model": t_model, "casefile": cf}


def run_impl_only(cases, tag, timeout=3000):
    """histories outside the model's value domain: the implementation alone (same result shape as run_both, model = impl)"""
    cf = vlib.casefile(tag)
    with open(cf, "w") as f:
        for cid, lines in cases:
            f.write("case %s\n" % cid)
            for l in lines:
                f.write(l + "\n")
    vlib.run_impl("annotate", cf, cf + ".orc", timeout=timeout)
    t_impl = vlib.run_impl("sys", cf, cf + ".impl", timeout=timeout)
    impl = vlib.split_cases(vlib.read_lines(cf + ".impl"))
    if len(impl) != len(cases):
        raise vlib.CheckError("executor output shape: %d cases, impl %d" % (len(cases), len(impl)))
    out = []
    for (cid, lines), ib in zip(cases, impl):
        if len(ib) != len(lines) + 1:
            raise vlib.CheckError("case %s: %d ops, impl %d lines" % (cid, len(lines), len(ib) - 1))
        obs = [parse_obs(x) for x in ib[1:]]
        out.append((cid, lines, obs, obs))
    return out, {"t_impl": t_impl, "casefile": cf}


def first_mismatch(lines, iobs, mobs, fields):
    """first step at which implementation and model differ on one of the projected fields"""
    for k, (op, a, b) in enumerate(zip(lines, iobs, mobs)):
        for f in fields:
            x, y = a.get(f), b.get(f)
            if f == "res" and x == "*":
                continue
            if a.get("res") == "3" and b.get("res") == "3" and f in ("fx",):
                continue
            if x != y:
                return {"step": k, "op": op, "field": f, "impl": x, "model": y}
    return None
