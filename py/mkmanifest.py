#!/usr/bin/env python3
"""Regenerates /verif/MANIFEST.json from the table below (keeps it schema-valid)."""
import json

CHECKS = {
    "C13": dict(
        technique="Coq proof (Go bit code = aligned sub-range arithmetic: bijection, tiling, back-mapping, rejection) + differential correspondence model/Go on every geometry + specification monitor",
        text="Machine-checked theorems (Properties/C13.v) over a transliteration of indexToCIDRBlock/getIndexForIP/getBeginningAndEndIndices with the uint32/uint64 wrap-around written out, for every geometry of the domain, every index, every address; tied to the Go code by running model and real functions on all 2,617 geometries each run.",
        note="Trusted: Coq kernel, extraction, OCaml/Go/Python drivers; model=code agreement is sampled per run (all geometries, selected indices/addresses). IPv6 ranges meeting ::ffff:0:0/96 are outside the theorems' domain (known finding K1).",
        ref="§5 C13"),
    "C14": dict(
        technique="Coq proof (pool invariant + refinement to a set of block numbers for all op sequences; NextCandidate completeness) + differential correspondence with full snapshots + reference-set monitor + exhaustive small capacities",
        text="Theorems (Properties/C14.v) over a statement-by-statement model of NewMultiCIDRSet/Occupy/Release/NextCandidate: every op sequence on every pool of the domain keeps the invariant and refines the set machine; tied to the Go code by comparing counter, cursor and sorted keys after every op.",
        note="Trusted: Coq kernel, extraction, drivers; agreement model/code sampled per run (2,000 random sequences + every reachable state x op for capacity <= 4). Domain: geometries of C13 not meeting ::ffff:0:0/96.",
        ref="§5 C14"),
    "C19": dict(
        technique="Coq proof (ghost metric invariant over all op sequences) + differential correspondence on values read from prometheus.DefaultGatherer + /metrics endpoint sub-check",
        text="Theorems (Properties/C19.v): after every op sequence on a pool configured once max_cidrs = capacity, allocations - releases = used = distinct used blocks, usage = used/capacity, redundant ops counted once; the real counters are read from the default gatherer after every op and compared with the model's ghost series; the /metrics handler is fetched over loopback once.",
        note="Trusted: Prometheus client library and promhttp (exercised, not modelled); unique range string per case (the property's proviso); endpoint sub-check is a test and is skipped if loopback is unavailable.",
        ref="§5 C19"),
}

SYS_NOTE = "Trusted: Coq kernel, extraction, OCaml/Go/Python drivers, the harness's fake API server / informers / queues (assumptions E1-E7 of DESIGN.md), library oracles (CIDR parse/print, labels.Parse, nodeSelectorKey output) fed to the model; model=code agreement is sampled per run on ~2,400 histories + corpus; theorems are about the model (Alloc.v/Sys.v)."

def sysprop(technique, text, ref, note=SYS_NOTE):
    return dict(technique=technique, text=text, note=note, ref=ref)

CHECKS.update({
    "C01": sysprop("Coq proof: (a) over all histories every PATCH avoids every cached node's CIDRs and every reserved block is fresh; (b) reservations (Held) are established by every write, avoided by every allocation and preserved by node, ClusterCIDR and foreign-release work items; (c) theorems over whole histories of one incarnation: without node deletion (invariant FInv, arbitrary schedules incl. relists and stale fetches) with node deletion behind a well-behaved informer (invariant GInv: no two holders -- existing nodes or deleted nodes awaiting their notification -- ever overlap), and across any number of restarts (invariant HInv: protection by reservation or by the node cache); tombstones/relists after deletion, deleting marks and pre-set CIDRs in (c) are monitored, not proved; + differential correspondence real controller/model on system histories + overlap monitor",
                   "Theorems (Properties/C01.v) quantify over every op list of Sys.v: user actions, deliveries, stale fetches, write outcomes, crashes/restarts, any ClusterCIDR population. The model is tied to the real NewMultiCIDRRangeAllocator/syncNode/syncClusterCIDR/handlers by running both on the same histories and comparing PATCHes, caches and API state; a monitor evaluates the property on the implementation's traces.",
                   "§5 C01"),
    "C03": sysprop("Coq proof (a crash keeps exactly the API objects; the new incarnation's state is a function of the API objects only; history theorem: across any number of restarts no incarnation assigns a CIDR overlapping what another holder holds) + correspondence on histories with crashes and restarts + monitor",
                   "Theorems (Properties/C03.v): a crash keeps exactly the API objects; construction depends on the API objects only; the all-history theorems include restarts. Correspondence compares the rebuilt pools and later writes of every incarnation.",
                   "§5 C03"),
    "C06": sysprop("Coq proof at call level (finalizer removed only when unassociated, never while a node is associated; writes change only the own finalizer; associations are recorded with every write and survive every work item other than the release of that node); world-level glue (releases only for gone/deleting nodes) monitored + correspondence on ClusterCIDR UPDATE requests + monitor (dependants by snapshot and by history of own writes)",
                   "Theorems (Properties/C06.v) about reconcile_delete / create_cluster_cidr for every state and object; correspondence compares every UPDATE (finalizers, deep-equality of everything else with what was read) and the pools; monitor checks dependants and allocations after a processed deletion.",
                   "§5 C06"),
    "C08": sysprop("Coq proof over all histories (PATCH only to a node the cache shows without pod CIDRs; re-sync issues no write) + correspondence + monitor",
                   "Theorems (Properties/C08.v) over every history from the initial world; correspondence on PATCHes, pool snapshots and caches; monitor checks repeated syncs change nothing and reserve nothing beyond the node's own CIDRs.",
                   "§5 C08"),
})

CHECKS.update({
    "C07": dict(
        technique="Coq proof (Less is a strict order, total without full ties, decided by the five documented keys; sorted output unique and independent of push order) + differential correspondence on Less pairs and on populations (order query + serving ClusterCIDR) + documented-order monitor",
        text="Theorems (Properties/C07.v) about the model of PriorityQueue.Less and of the pop order; tied to the code by comparing Less on 6,000 pairs with ties at each level, and orderedMatchingClusterCIDRs / the serving ClusterCIDR on 150 populations of 2-8 ClusterCIDRs in random creation order.",
        note="Trusted: container/heap pops in sorted order for a strict weak order (library contract, exercised); Coq kernel, extraction, drivers; agreement sampled per run. The relative order of ClusterCIDRs WITHOUT selector (all come last) is creation order in code and model; the property does not fix it.",
        ref="§5 C07"),
    "C17": dict(
        technique="Coq proof (the print/parse round trip of label selectors proved of a model of apimachinery's validation, printer, lexer and parser; nodeSelectorKey yields a key exactly for representable selectors; on that key matchCIDRLabels says 'match' iff every requirement holds; same key => same meaning; semantics of the six operators; unrepresentable selector rejected) + differential correspondence: labels.Parse vs the model on arbitrary texts, nodeSelectorKey byte for byte, the real print/parse path vs the model applied to the selector's own requirements, and the considered list (orderedMatchingClusterCIDRs) on populations of ClusterCIDRs with and without selectors",
        text="Theorems (Properties/C17.v): C17_print_parse_round_trip, C17_key_exactly_for_representable_selectors, C17_considered_iff_selector_holds, C17_same_key_same_meaning hold for every list of requirements labels.NewRequirement accepts; tied to the code by running labels.Parse, nodeSelectorKey and matchCIDRLabels against the model on ~20,000 lines per run including keys 'in'/'notin', numeric comparisons, repeated keys, empty values, NUL bytes and token soup.",
        note="The theorems are about Lbl.v, a hand transcription of k8s.io/apimachinery/pkg/labels/selector.go v0.28.3 and util/validation (modelled, not verified; sort.Sort modelled as a stable sort, the theorems hold for any order of equal keys); its agreement with the library is sampled per run. Trusted also: Coq kernel, extraction, drivers.",
        ref="§5 C17"),
    "C18": dict(
        technique="Coq proof (validate_spec = 0 errors iff documented acceptance condition, for every answer of ParseCIDRSloppy, with key validity (IsQualifiedName) and node-name validity (IsDNS1123Subdomain) computed by the model from the selector itself; update validation = 0 iff specs equal) + exhaustive-grid correspondence on error counts",
        text="Theorems (Properties/C18.v) over a transliteration of validation.go returning the number of field errors; the real ValidateClusterCIDRSpec/ValidateClusterCIDRUpdate are run on the grid (every prefix length x hostBits -2..130, wrong family, malformed, 52 selector shapes incl. the boundaries of qualified names and DNS subdomains, update pairs differing in every subset of fields) and the counts compared.",
        note="Trusted: the answers of ParseCIDRSloppy enter the model as inputs computed by the real library; ValidateLabelName and NameIsDNSSubdomain are modelled (ValidSel.v, Lbl.v: hand transcriptions of util/validation, compared on every run); Semantic.DeepEqual is modelled as structural equality; Coq kernel, extraction, drivers.",
        ref="§5 C18"),
})

CHECKS.update({
    "C02": sysprop("Coq proof over all histories (the structural invariant holds in every world reachable by well-formed operations; every PATCH of every history carries well-formed CIDRs; allocated CIDR is a free block of its pool; all CIDRs of a PATCH come from one reservation, IPv4 first) + correspondence on PATCHes and pools + well-formedness/eligibility monitor",
                   "Theorems (Properties/C02.v) for every state satisfying the structural invariant and every input; correspondence on system histories; the monitor re-derives from the ClusterCIDR specs that every PATCH is one aligned block per configured family of one eligible, non-terminating ClusterCIDR whose selector the cached node satisfies.",
                   "§5 C02"),
    "C04": sysprop("Coq proof, PARTIAL (reserve-then-release restores the pool; release frees exactly the overlapped blocks; failed attempts keep the invariant) + correspondence on full pool snapshots + justification monitor at every idle point",
                   "Theorems (Properties/C04.v) at pool and call level; the global statement over histories is checked by the monitor on the implementation's traces (every used key must overlap an existing node's CIDR, a service range, or a reservation kept after an unresolved ambiguous write) -- not proved. Known findings K-D21, K-TOMB.",
                   "§5 C04"),
    "C05": sysprop("Coq proof (a refusal is always reported; the allocateCIDR loop is complete: giving up on a pool means every block is used, overlapped through another ClusterCIDR or held by a cached node; prioritizedCIDRs refuses only when every considered entry has an exhausted family, with respect to the state the sync started from) + correspondence + free-capacity monitor",
                   "Theorems (Properties/C05.v); completeness of the allocateCIDR loop across pools blocked by other ClusterCIDRs is checked on every trace by the monitor, which recomputes free capacity from the snapshot and the node cache -- not proved.",
                   "§5 C05"),
    "C09": sysprop("Coq proof (occupying a service range marks every overlapping block; candidates never overlap marked blocks; construction establishes the invariant) + correspondence on histories with service ranges + overlap monitor",
                   "Theorems (Properties/C09.v) for all relative sizes/positions (the only notion is overlap); correspondence and monitor on start-up configurations with primary/secondary ranges of both families until exhaustion.",
                   "§5 C09"),
    "C10": sysprop("Coq proof (handling a mapped object changes nothing; second handling is a no-op at call level and in the closed loop; a failed finalizer write maps nothing) + correspondence on pool snapshots with ClusterCIDR write faults + monitor (one entry per name, entry unchanged by repeated handling, finalized objects keep their entry)",
                   "Theorems (Properties/C10.v) for every state, object and write outcome; correspondence and monitor on histories with failed/retried ClusterCIDR writes, stale caches, start-up listing followed by notifications.",
                   "§5 C10"),
    "C11": sysprop("Coq proof, PARTIAL (a failed work item is always requeued) + correspondence on queues/results + steady-state monitor after a fair drain",
                   "Theorems (Properties/C11.v): requeue. Convergence is checked, not proved: every history is followed by three rounds of fair, fault-free processing and the monitor checks that every servable node has CIDRs and every releasable ClusterCIDR is gone. Fairness/timing of the real rate limiter is represented only by the Tick op. Known finding K-AMB.",
                   "§5 C11"),
    "C12": sysprop("Coq proof over all histories of well-formed operations (no step panics: node items, ClusterCIDR items, notification handlers incl. tombstones and relists, construction; unusable selector/range/family/host bits rejected with an error and no state change) + correspondence incl. a malformed-input stream + panic monitor + per-step watchdog for stalls",
                   "Theorems (Properties/C12.v); 600 malformed histories per run (garbage / other-family / sloppy CIDR strings, host bits from -2^31 to 2^31-1, 14 bad selector shapes, node CIDRs of missing families, service ranges of missing families, tombstones) run on the real code under recover(); any panic is a violation.",
                   "§5 C12"),
    "C20": sysprop("translator: SSA taint analysis of informer-cache objects, facts regenerated every run and checked in Coq (cache_write_sites = []) + Coq frame theorem on the model + runtime deep-hash monitor on every step",
                   "Static: no instruction of packages ipam/multicidrset can write through a value derived from lister results or handler arguments (stores, map updates, append/copy/delete, hand-off to non-read-only callees). Dynamic: every cached object hashed before/after each of ~65,000 steps. Model: work items leave both caches unchanged (Properties/C20.v).",
                   "§5 C20",
                   note="PARTIAL: the static analysis (taint rules, allow-list of read-only callees) is trusted, not verified; aliasing through data structures outside the two packages is not tracked. " + SYS_NOTE),
})

CHECKS.update({
    "C15": dict(
        technique="Coq proof, PARTIAL (mutual exclusion makes critical sections atomic: every interleaving equals a one-at-a-time execution; hypothesis = C16's lock discipline re-checked on the current tree; system theorems hold for every order of atomic steps) + validation run of the real Run() under the Go race detector with final-state monitors",
        text="Theorem (Properties/C15.v, Serial.v) over a generic threads-with-one-lock machine; its hypothesis for this program is discharged by the translator-based C16 check on every run. The race-detector run (12 seeded workloads and 4 churn workloads with delay injection, 30+30 workers, real informers and queues; 40 more churn workloads as the search for a failing schedule when the lock-discipline hypothesis no longer checks) is a test, not a proof.",
        note="PARTIAL: data races on memory outside the lock facts' vocabulary and the Go memory model cannot be exhibited by the model; client-go fake clientsets stand in for the API server in the validation run. Trusted: Coq kernel, translator, Go race detector.",
        ref="§5 C15"),
})

CHECKS.update({
    "C16": dict(
        technique="translator (go/packages + SSA) regenerates lock/call/access facts from the Go source every run; verified checker LockCheck.check with a soundness theorem for all programs; current_tree_ok proved by vm_compute on the regenerated facts",
        text="Theorem (Properties/C16.v): check p = true implies no path from any entry point re-acquires the held lock, touches mutable shared state with the lock free, blocks while holding it, or uses the lock irregularly. The facts of the current tree (76 functions, 12 entry points) are regenerated and the instance theorem is re-proved on every run; a failing instance yields the offending call path.",
        note="Trusted: the translator's notion of access (tracked fields), callee resolution (static, class-hierarchy inside the two packages, escaping function values, interface conversions) and entry points; construction-time code is exempt as the property says; API calls made under the lock are assumed to return. Coq kernel.",
        ref="§5 C16"),
})

NOT_APPLICABLE = []

def main():
    hooks = {
        "guard": "verif",
        "enable": "go build -tags verif (add-only files pkg/controller/ipam/multicidrset/export_verif.go, pkg/controller/ipam/export_verif.go)",
        "baseline_off_cmd": "cd /repo && GOFLAGS=-mod=mod GOPROXY=off GOSUMDB=off GOTOOLCHAIN=local go test -vet=off -count=1 ./...",
        "source_commits": json.load(open("/verif/hooks_commits.json")),
        "add_only": True,
    }
    checks = []
    for pid in sorted(CHECKS):
        c = CHECKS[pid]
        checks.append({
            "property_id": pid,
            "quick_cmd": "/verif/check %s --tier quick" % pid,
            "thorough_cmd": "/verif/check %s --tier thorough" % pid,
            "evidence_file": "/verif/evidence/%s.json" % pid,
            "replay_cmd_template": "/verif/check %s --replay {path}" % pid,
            "engine": "coq-correspondence",
            "level_claimed": {"category": c.get("level", "proof"), "text": c["text"], "design_ref": c["ref"]},
            "level_note": c["note"],
            "technique": c["technique"],
        })
    m = {
        "version": 1,
        "setup_cmd": "/verif/setup.sh",
        "hooks": hooks,
        "engines": [{"name": "coq-correspondence", "path": "/verif/check",
                     "serves_properties": sorted(CHECKS),
                     "kind_free_text": "Coq 8.16.1 theorems over hand-written Gallina models, tied to /repo by differential correspondence (Go harness on the real code vs extracted OCaml model) or by a Go translator that regenerates Coq facts"}],
        "checks": checks,
        "not_applicable": NOT_APPLICABLE,
        "notes": "See DESIGN.md. known_findings.json lists recorded genuine defects; fixed entries suppress nothing.",
    }
    json.dump(m, open("/verif/MANIFEST.json", "w"), indent=1)

if __name__ == "__main__":
    main()
