"""corr -- run a case file on implementation and model, compare observation lines."""
import os
import vlib


def run_both(mode, cases, tag, timeout=1800, allmism=False, annotate=False):
    """cases: list of (case_id, [op lines]).  Returns (mismatches, impl_obs_by_case, stats)."""
    cf = vlib.casefile(tag)
    with open(cf, "w") as f:
        for cid, lines in cases:
            f.write("case %s\n" % cid)
            for l in lines:
                f.write(l + "\n")
    io, mo = cf + ".impl", cf + ".model"
    if annotate:
        vlib.run_impl("annotate", cf, cf + ".orc", timeout=timeout)
    t_impl = vlib.run_impl(mode, cf, io, timeout=timeout)
    t_model = vlib.run_model(mode, cf, mo, timeout=timeout)
    impl = vlib.split_cases(vlib.read_lines(io))
    model = vlib.split_cases(vlib.read_lines(mo))
    mism = []
    if len(impl) != len(cases) or len(model) != len(cases):
        raise vlib.CheckError("executor output shape: %d cases, impl %d, model %d" % (len(cases), len(impl), len(model)))
    for (cid, lines), ib, mb in zip(cases, impl, model):
        if len(ib) != len(lines) + 1 or len(mb) != len(lines) + 1:
            mism.append({"case": cid, "step": -1, "op": "(shape)", "impl": ib, "model": mb, "lines": lines})
            continue
        for k, (op, a, b) in enumerate(zip(lines, ib[1:], mb[1:])):
            if a != b:
                mism.append({"case": cid, "step": k, "op": op, "impl": a, "model": b, "lines": lines})
                if not allmism:
                    break
    return mism, impl, {"t_impl": t_impl, "t_model": t_model, "casefile": cf}
