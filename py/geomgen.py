"""geomgen -- geometries, addresses and CIDR arguments for the pool-level cases (C13, C14, C19)."""
W = {"v4": 32, "v6": 128}


def hexa(fam, x):
    return "%0*x" % (W[fam] // 4, x)


def all_geometries():
    """every geometry of the C13 domain as (fam, clen, nlen)"""
    out = []
    for clen in range(0, 33):
        for nlen in range(clen, 33):
            if (clen, nlen) != (0, 32):
                out.append(("v4", clen, nlen))
    for clen in range(0, 129):
        for nlen in range(clen, min(128, clen + 16) + 1):
            out.append(("v6", clen, nlen))
    return out


def rand_base(rng, fam, clen, style=None):
    w = W[fam]
    style = style or rng.choice(["rand", "rand", "ones", "zero"])
    if style == "ones":
        hi = (1 << w) - 1
    elif style == "zero":
        hi = 0
    else:
        hi = rng.getrandbits(w)
    return (hi >> (w - clen)) << (w - clen) if clen > 0 else 0


ZONE_LO = 0xffff00000000
ZONE_HI = 0xffff00000000 + (1 << 32)


def v4mapped(fam, a):
    return fam == "v6" and (a >> 32) == 0xffff


def meets_zone(fam, base, clen):
    """does the IPv6 range base/clen contain IPv4-mapped addresses (::ffff:0:0/96)?"""
    if fam != "v6":
        return False
    size = 1 << (128 - clen)
    return base < ZONE_HI and ZONE_LO < base + size


def clean_base(rng, fam, clen, style=None):
    """a range base whose range avoids the IPv4-mapped zone whenever that is possible (clen > 0)"""
    base = rand_base(rng, fam, clen, style)
    if meets_zone(fam, base, clen) and clen > 0:
        base |= 1 << 127
    return base


def cidr_tok(fam, addr, l):
    return "%s %s %d" % (fam, hexa(fam, addr), l)


def mask(fam, addr, l):
    w = W[fam]
    return (addr >> (w - l)) << (w - l) if l > 0 else 0


def arg_cidrs(rng, fam, base, clen, nlen, k=6):
    """CIDR arguments of every shape class relative to the geometry: list of (shape, fam, addr, len)"""
    w = W[fam]
    maxc = 1 << (nlen - clen)
    bs = 1 << (w - nlen)
    out = []
    i = rng.randrange(maxc)
    blk = base + i * bs
    out.append(("block", fam, blk, nlen))
    if nlen < w:
        l = rng.randint(nlen + 1, w)
        out.append(("sub", fam, mask(fam, blk + rng.randrange(bs), l), l))
    if clen < nlen:
        l = rng.randint(clen + 1, nlen)  # multi-block (or the block itself)
        out.append(("multi", fam, mask(fam, blk, l), l))
    out.append(("range", fam, base, clen))
    if clen > 0:
        l = rng.randint(0, clen - 1)
        out.append(("super", fam, mask(fam, base, l), l))
        # outside: flip one prefix bit
        bit = rng.randrange(clen)
        ob = base ^ (1 << (w - 1 - bit))
        l = rng.randint(clen, w)
        out.append(("outside", fam, mask(fam, ob + rng.randrange(1 << (w - clen)), l), l))
    of = "v6" if fam == "v4" else "v4"
    l = rng.randint(0, W[of])
    out.append(("otherfam", of, mask(of, rng.getrandbits(W[of]), l), l))
    rng.shuffle(out)
    return out[:k]
