#!/usr/bin/env python3
"""Runs the repository test suite with the verif guard OFF and compares with BASELINE.json stable_pass."""
import json, os, subprocess, sys
env = dict(os.environ, GOFLAGS="-mod=mod", GOPROXY="off", GOSUMDB="off", GOTOOLCHAIN="local")
p = subprocess.run("go test -json -vet=off -count=1 -timeout 25m ./...", shell=True, cwd="/repo", env=env,
                   stdout=subprocess.PIPE, stderr=subprocess.STDOUT, text=True)
passed = set()
for l in p.stdout.splitlines():
    try:
        e = json.loads(l)
    except Exception:
        continue
    if e.get("Action") == "pass" and e.get("Test"):
        passed.add("%s::%s" % (e["Package"], e["Test"]))
base = json.load(open("/root/.vp/BASELINE.json"))["stable_pass"]
missing = [t for t in base if t not in passed]
print("baseline tests: %d, passed now: %d, missing: %d" % (len(base), len(passed & set(base)), len(missing)))
for t in missing:
    print("MISSING", t)
sys.exit(1 if missing else 0)
