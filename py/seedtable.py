#!/usr/bin/env python3
"""seedtable.py -- regenerate the table of DESIGN.md section 10 from seeded/RESULTS.json and the seeds' notes."""
import json, os, re
ROOT = os.path.dirname(os.path.dirname(os.path.abspath(__file__)))
res = json.load(open(os.path.join(ROOT, "seeded", "RESULTS.json")))
rows = ["| seed | the change (one line) | own check | how it is reported | other checks that fire |", "|---|---|---|---|---|"]
for s in sorted(res):
    ch = res[s].get("checks", {})
    if not ch:
        continue
    notes = open(os.path.join(ROOT, "seeded", s, "notes.md")).read().splitlines()
    first = next((l.strip() for l in notes if l.strip()), s)
    # the title is the first line when it is prose, else the first heading
    title = first if not first.startswith("#") else next((l.lstrip("# ").strip() for l in notes if l.startswith("#")), s)
    title = re.sub(r"^(Title|\*\*Title\*\*)\s*[:：]\s*", "", title.strip("* "))
    title = re.sub(r"^(Seed(ed)?( mutation)?\s*)?%s\s*[-—:]*\s*" % s, "", title, flags=re.I)
    prop = res[s].get("property", s[:3])
    own = ch.get(prop, {})
    if own.get("exit", 0) == 0:
        how = "**missed**"
    else:
        kinds = []
        for k in own.get("reports", []):
            cl = (k.get("clause") or "")[:70]
            kinds.append(("concrete history / input: " if k.get("concrete_input") else "no-failing-input-found: ") + cl)
        how = "; ".join(kinds[:2])
    others = [c for c, d in sorted(ch.items()) if d["exit"] != 0 and c != prop]
    conc = [c for c in others if any(k.get("concrete_input") for k in ch[c]["reports"])]
    oth = ", ".join(("**%s**" % c) if c in conc else c for c in others) or "–"
    rows.append("| %s | %s | %s | %s | %s |" % (s, title[:110], "detected" if own.get("exit", 0) else "MISSED", how, oth))
table = "\n".join(rows) + "\n\n(bold = reported with a concrete failing history / input; the others report the broken correspondence with `no-failing-input-found`, because the change alters observables of their projection without violating their property on any history the search found.)"
p = os.path.join(ROOT, "DESIGN.md")
s = open(p).read()
if "<!-- SEEDTABLE -->" in s:
    s = s.replace("<!-- SEEDTABLE -->", "<!-- SEEDTABLE-BEGIN -->\n" + table + "\n<!-- SEEDTABLE-END -->")
else:
    s = re.sub(r"<!-- SEEDTABLE-BEGIN -->.*?<!-- SEEDTABLE-END -->", lambda m: "<!-- SEEDTABLE-BEGIN -->\n" + table + "\n<!-- SEEDTABLE-END -->", s, flags=re.S)
open(p, "w").write(s)
print(table)
