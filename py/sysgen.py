"""sysgen -- random system histories over a small universe (C01-C12, C20)."""
from geomgen import hexa, mask

V4_RANGES = [
    (0x0a000000, 24), (0x0a000000, 25), (0x0a000080, 25), (0x0a000000, 26), (0x0a000100, 24),
    (0x0a000100, 26), (0x0a000000, 23), (0x0a000200, 27), (0xc0a80000, 28), (0x0a000040, 26),
]
V6_RANGES = [
    (0xfd000000 << 96, 120), (0xfd000000 << 96, 121), ((0xfd000000 << 96) + 0x80, 121), ((0xfd000000 << 96) + 0x100, 120),
    (0xfd000000 << 96, 122), ((0xfd000001 << 96), 124), (0xfd000000 << 96, 119),
]
SELECTORS = ["-", "-", "zone:In:a", "zone:In:a+b", "zone:In:b", "tier:Exists:", "zone:NotIn:b", "zone:In:a;tier:Exists:",
             "tier:DoesNotExist:", "rack:Gt:3", "zone:In:a;rack:Lt:10"]
LABELSETS = ["-", "zone=a", "zone=b", "zone=a,tier=x", "tier=x", "zone=a,rack=5", "zone=b,tier=x,rack=12", "zone=c"]
NODES = ["n1", "n2", "n3", "n4", "n5"]
CCS = ["c1", "c2", "c3", "c4"]
OTHER_FINS = ["-", "-", "-", "other.io/f"]


def tok4(a, l):
    assert a & ((1 << (32 - l)) - 1) == 0, "generator bug: unaligned IPv4 CIDR %x/%d" % (a, l)
    return "v4:%s/%d" % (hexa("v4", a), l)


def tok6(a, l):
    assert a & ((1 << (128 - l)) - 1) == 0, "generator bug: unaligned IPv6 CIDR %x/%d" % (a, l)
    return "v6:%s/%d" % (hexa("v6", a), l)


class Gen:
    def __init__(self, rng, profile="mixed"):
        self.rng = rng
        self.profile = profile
        self.cc_specs = {}      # name -> (v4, v6, hb)
        self.presets = []       # pre-set podCIDR tokens handed out so far (kept mutually disjoint: E7)
        self.rest = 0
        self.stats = {"ops": {}, "faults": 0, "crashes": 0, "dual": 0, "preset_nodes": 0, "cc": 0, "nodes": 0}

    def note(self, op):
        k = op.split()[0]
        self.stats["ops"][k] = self.stats["ops"].get(k, 0) + 1

    def new_cc(self, name):
        r = self.rng
        hb = r.choice([4, 4, 5, 6, 4, 7])
        kind = r.choice(["v4", "v4", "v4", "v6", "dual", "dual"])
        v4 = v6 = None
        if kind in ("v4", "dual"):
            a, l = r.choice(V4_RANGES)
            if 32 - hb < l:
                hb = 32 - l
            v4 = (a, l)
        if kind in ("v6", "dual"):
            a, l = r.choice(V6_RANGES)
            if 128 - hb < l:
                hb = min(hb, 128 - l)
                if v4 and 32 - hb < v4[1]:
                    v4 = None
            v6 = (a, l)
        if kind == "dual":
            self.stats["dual"] += 1
        self.cc_specs[name] = (v4, v6, hb)
        self.rest += 1
        sel = r.choice(SELECTORS)
        fins = r.choice(OTHER_FINS)
        gen = 1 if r.random() < 0.93 else 2
        self.stats["cc"] += 1
        return "cc+ %s %s %s %d %s %s %d %d" % (name, tok4(*v4) if v4 else "-", tok6(*v6) if v6 else "-", hb, sel, fins, gen, self.rest)

    def preset_cidrs(self):
        """pre-existing podCIDRs, mutually disjoint between nodes (assumption E7)"""
        import sysmon
        for _ in range(8):
            cs = self._preset_cidrs()
            toks = [sysmon.ptok(x) for x in cs.split(",")]
            if not any(sysmon.overlap(a, b) for a in toks for b in self.presets):
                self.presets += toks
                return cs
        return "-"

    def _preset_cidrs(self):
        """pre-existing podCIDRs: whole blocks of some known ClusterCIDR (or a multiple), or outside all"""
        r = self.rng
        if not self.cc_specs or r.random() < 0.2:
            return tok4(0xac100000 + 16 * r.randrange(16), 28)
        v4, v6, hb = self.cc_specs[r.choice(sorted(self.cc_specs))]
        out = []
        if v4:
            a, l = v4
            n = 32 - hb
            k = r.randrange(1 << (n - l))
            if r.random() < 0.2 and n - 1 >= l:   # a double block
                out.append(tok4(mask("v4", a + k * (1 << hb), n - 1), n - 1))
            else:
                out.append(tok4(a + k * (1 << hb), n))
        if v6:
            a, l = v6
            n = 128 - hb
            k = r.randrange(1 << (n - l))
            out.append(tok6(a + k * (1 << hb), n))
        return ",".join(out)

    def outs(self, kind):
        r = self.rng
        if kind == "patch":
            if r.random() < 0.7:
                return "ok"
            self.stats["faults"] += 1
            return ",".join(r.choice(["ok", "fail", "fail", "tmo", "tmn"]) for _ in range(r.choice([3, 3, 4])))
        if r.random() < 0.75:
            return "ok"
        self.stats["faults"] += 1
        return r.choice(["fail", "aerr"])

    def history(self, length):
        r = self.rng
        ops = []
        # start-up: sometimes objects exist before the first incarnation
        pre = r.random() < 0.4
        if pre:
            for name in r.sample(CCS, r.randint(0, 2)):
                ops.append(self.new_cc(name))
            for name in r.sample(NODES, r.randint(0, 2)):
                cs = self.preset_cidrs() if r.random() < 0.6 else "-"
                if cs != "-":
                    self.stats["preset_nodes"] += 1
                ops.append("n+ %s %s %s" % (name, r.choice(LABELSETS), cs))
        svc1 = svc2 = "-"
        if r.random() < 0.25:
            a, l = r.choice(V4_RANGES)
            sl = r.choice([l - 1, l, l + 1, l + 2, 28, 30])
            svc1 = tok4(mask("v4", a + r.randrange(1 << (32 - l)), sl), sl)
            if r.random() < 0.4:
                a6, l6 = r.choice(V6_RANGES)
                sl6 = r.choice([l6, l6 + 1, 124, 126])
                svc2 = tok6(mask("v6", a6 + r.randrange(1 << (128 - l6)), sl6), sl6)
        self.svc = (svc1, svc2)
        self.flags = default_flags(r) if r.random() < 0.15 else None
        ops.append("construct %s %s %s%s" % (svc1, svc2, "-" if r.random() < 0.8 else self.outs("upd"), (" " + self.flags) if self.flags else ""))
        ops.append("start")
        pending_fetch = {}
        while len(ops) < length:
            x = r.random()
            if x < 0.10:
                free = [c for c in CCS if c not in self.cc_specs] or CCS
                ops.append(self.new_cc(r.choice(free)))
                ops.append("dc")
                ops.append("pc " + self.outs("upd"))
            elif x < 0.24:
                name = r.choice(NODES)
                preset = r.random() < 0.15
                cs = self.preset_cidrs() if preset else "-"
                if preset:
                    self.stats["preset_nodes"] += 1
                self.stats["nodes"] += 1
                ops.append("n+ %s %s %s" % (name, r.choice(LABELSETS), cs))
                ops.append("dn")
                ops.append("pn " + self.outs("patch"))
            elif x < 0.34:
                ops.append(r.choice(["dn", "dn", "dc", "dn", "dc", "dnt", "dn", "dc", "rln", "rlc"]))
            elif x < 0.52:
                ops.append("pn " + self.outs("patch"))
            elif x < 0.62:
                ops.append("pc " + self.outs("upd"))
            elif x < 0.67:
                ops.append("n- " + r.choice(NODES))
                if r.random() < 0.7:
                    ops.append("dn")
            elif x < 0.71:
                ops.append("cc- " + r.choice(CCS))
                if r.random() < 0.7:
                    ops.append("dc")
                    ops.append("pc " + self.outs("upd"))
            elif x < 0.74:
                ops.append("nl %s %s" % (r.choice(NODES), r.choice(LABELSETS)))
            elif x < 0.76:
                ops.append("nd " + r.choice(NODES))
            elif x < 0.78:
                ops.append("ccf %s %s" % (r.choice(CCS), r.choice(["-", "other.io/f", "other.io/f+x.io/g"])))
            elif x < 0.83:
                ops.append("tick")
            elif x < 0.86:
                ops.append(r.choice(["rn", "rc"]))
            elif x < 0.91:
                w = str(r.randint(1, 3))
                if r.random() < 0.5:
                    ops.append("fn %s %s" % (w, r.choice(NODES)))
                    pending_fetch[w] = "n"
                else:
                    ops.append("fc %s %s" % (w, r.choice(CCS)))
                    pending_fetch[w] = "c"
            elif x < 0.96:
                if pending_fetch:
                    w = r.choice(sorted(pending_fetch))
                    if pending_fetch.pop(w) == "n":
                        ops.append("runn %s %s" % (w, self.outs("patch")))
                    else:
                        ops.append("runc %s %s" % (w, self.outs("upd")))
                else:
                    ops.append("pn " + self.outs("patch"))
            elif x < 0.985 or self.profile == "nocrash":
                ops.append("tick")
                ops.append("pn ok")
            else:
                self.stats["crashes"] += 1
                ops.append("crash")
                for _ in range(r.randint(0, 2)):   # things happen while the controller is down
                    ops.append(r.choice(["n- " + r.choice(NODES), "cc- " + r.choice(CCS),
                                         "n+ %s %s -" % (r.choice(NODES), r.choice(LABELSETS))]))
                ops.append("construct %s %s -%s" % (self.svc + ((" " + self.flags) if self.flags else "",)))
                if r.random() < 0.3:
                    ops.append("n+ %s %s -" % (r.choice(NODES), r.choice(LABELSETS)))
                ops.append("start")
        for o in ops:
            self.note(o)
        return ops


def drain_ops(rounds=6):
    """fair processing with no further faults: deliver everything, tick, process every queued item"""
    ops = []
    for _ in range(rounds):
        ops += ["dn"] * 6 + ["dc"] * 6 + ["tick"] + ["pc ok"] * 5 + ["pn ok"] * 6
    return ops


def gen_histories(rng, n, length=(10, 40), profile="mixed"):
    cases, stats = [], []
    for i in range(n):
        g = Gen(rng, profile)
        ops = g.history(rng.randint(*length))
        cases.append(("h%d" % i, ops))
        stats.append(g.stats)
    agg = {"ops": {}, "faults": 0, "crashes": 0, "dual": 0, "preset_nodes": 0, "cc": 0, "nodes": 0}
    for s in stats:
        for k, v in s["ops"].items():
            agg["ops"][k] = agg["ops"].get(k, 0) + v
        for k in ("faults", "crashes", "dual", "preset_nodes", "cc", "nodes"):
            agg[k] += s[k]
    return cases, agg


# ---------------------------------------------------------------- scenario templates
def _rng_sel_and_labels(r):
    """a selector together with a label set satisfying it and one that does not"""
    return r.choice([
        ("-", "zone=a", "zone=b"), ("zone:In:a", "zone=a", "zone=b"), ("zone:In:a+b", "zone=b,tier=x", "zone=c"),
        ("tier:Exists:", "tier=x", "zone=a"), ("zone:NotIn:b", "zone=a", "zone=b"), ("rack:Gt:3", "zone=a,rack=5", "rack=2"),
        ("zone:In:a;tier:Exists:", "zone=a,tier=x", "zone=a"), ("-", "-", "tier=x"),
    ])


def _overlapping_v4(r):
    """two IPv4 ranges that are identical, nested or disjoint, with host bits giving small pools"""
    a, l = r.choice(V4_RANGES)
    kind = r.choice(["same", "same", "nested", "nested", "disjoint"])
    if kind == "same":
        b, m = a, l
    elif kind == "nested":
        m = min(l + r.choice([1, 2]), 28)
        b = mask("v4", a + r.randrange(1 << (32 - l)), m)
    else:
        b, m = r.choice(V4_RANGES)
    hb1 = r.choice([4, 4, 5])
    hb2 = r.choice([4, 4, 5, 6])
    hb1 = min(hb1, 32 - l)
    hb2 = min(hb2, 32 - m)
    return (a, l, hb1), (b, m, hb2)


def sc_replace_cc(r):
    (a, l, h1), (b, m, h2) = _overlapping_v4(r)
    sel, good, bad = _rng_sel_and_labels(r)
    sel2, good2, _ = _rng_sel_and_labels(r)
    ops = ["cc+ c1 %s - %d %s - 1 1" % (tok4(a, l), h1, sel), "dc", "pc ok",
           "n+ n1 %s -" % good, "dn", "pn ok", "dn", "pn ok",
           "cc- c1", "dc", "pc ok",
           "cc+ c2 %s - %d %s - 1 2" % (tok4(b, m), h2, sel2), "dc", "pc ok",
           "n+ n2 %s -" % good2, "dn", "pn ok", "dn",
           "n+ n3 %s -" % good2, "dn", "pn ok", "dn"]
    if r.random() < 0.5:
        ops += ["n- n1", "dn", "tick", "pc ok", "dc", "n+ n4 %s -" % good2, "dn", "pn ok"]
    return ops


def sc_stale_fetch(r):
    (a, l, h1), _ = _overlapping_v4(r)
    sel, good, bad = _rng_sel_and_labels(r)
    ops = ["cc+ c1 %s - %d %s - 1 1" % (tok4(a, l), h1, sel), "dc", "pc ok", "n+ n1 %s -" % good, "dn", "fn 1 n1"]
    k = r.random()
    if k < 0.4:
        ops += ["pn ok", "dn", "runn 1 ok", "runn 1 ok", "fn 2 n1", "runn 2 ok"]
    elif k < 0.7:
        ops += ["pn ok", "runn 1 ok", "dn", "pn ok"]           # cache still stale at the second run
    else:
        ops += ["n- n1", "dn", "runn 1 ok", "n+ n2 %s -" % good, "dn", "pn ok"]
    ops += ["rn", "pn ok", "pn ok"]
    return ops


def sc_dual_exhaust(r):
    a, l = r.choice(V4_RANGES)
    hb = 4
    l6 = 124 + r.choice([0, 0, -1])
    v6 = (mask("v6", (0xfd000000 << 96) + 0x10 * r.randrange(8), l6), l6)
    sel, good, bad = _rng_sel_and_labels(r)
    ops = ["cc+ c1 %s %s %d %s - 1 1" % (tok4(a, min(l, 28)), tok6(*v6), hb, sel), "dc", "pc ok"]
    if r.random() < 0.7:
        b, m = r.choice(V4_RANGES)
        ops += ["cc+ c2 %s - %d - - 1 2" % (tok4(b, min(m, 28)), 4), "dc", "pc ok"]
    if r.random() < 0.4:   # an overlapping IPv6-only ClusterCIDR taking the same IPv6 blocks
        ops += ["cc+ c3 - %s %d %s - 1 3" % (tok6(mask("v6", v6[0], 124), 124), hb, "-"), "dc", "pc ok"]
    for i in range(1, 6):
        ops += ["n+ n%d %s -" % (i, good if r.random() < 0.8 else bad), "dn", "pn ok", "dn"]
    ops += ["n- n1", "dn", "tick", "pn ok", "pn ok", "pn ok"]
    return ops


def sc_faults(r):
    (a, l, h1), (b, m, h2) = _overlapping_v4(r)
    sel, good, bad = _rng_sel_and_labels(r)
    ops = ["cc+ c1 %s - %d %s - 1 1" % (tok4(a, l), h1, sel), "dc", "pc " + r.choice(["ok", "fail", "aerr"]), "tick", "pc ok", "dc", "pc ok"]
    for i in range(1, 4):
        ops += ["n+ n%d %s -" % (i, good), "dn",
                "pn " + r.choice(["fail,fail,fail", "tmo,tmo,tmo", "fail,tmo,ok", "tmo,fail,fail", "fail,ok", "ok", "tmn,fail,fail", "fail,tmn,tmn", "tmo,fail,fail,fail", "tmn,tmn,tmn,fail"]),
                "tick", "pn ok", "dn", "pn ok"]
    ops += ["n- n2", "dn", "cc- c1", "dc", "pc ok", "tick", "pc ok"]
    return ops


def sc_cc_retry(r):
    (a, l, h1), (b, m, h2) = _overlapping_v4(r)
    sel, good, bad = _rng_sel_and_labels(r)
    fins = r.choice(["-", "other.io/f"])
    ops = ["cc+ c1 %s - %d %s %s 1 1" % (tok4(a, l), h1, sel, fins), "dc", "pc " + r.choice(["fail", "aerr", "fail"]),
           "n+ n1 %s -" % good, "dn", "pn ok", "dn"]
    ops += r.choice([["tick", "pc ok"], ["dc", "tick", "pc ok"], ["tick", "pc fail", "tick", "pc ok"], ["rc", "pc ok", "tick", "pc ok"]])
    ops += ["dc", "pc ok", "cc- c1", "dc", "pc ok", "n- n1", "dn", "tick", "pc ok", "dc", "pc ok",
            "n+ n2 %s -" % good, "dn", "pn ok"]
    return ops


def sc_restart(r):
    (a, l, h1), (b, m, h2) = _overlapping_v4(r)
    sel, good, bad = _rng_sel_and_labels(r)
    ops = ["cc+ c1 %s - %d %s - 1 1" % (tok4(a, l), h1, sel), "dc", "pc ok", "n+ n1 %s -" % good, "dn", "pn ok"]
    if r.random() < 0.5:
        ops += ["cc- c1", "dc"] + (["pc ok"] if r.random() < 0.5 else [])
    if r.random() < 0.5:
        ops += ["n+ n2 %s -" % good, "dn", "pn " + r.choice(["ok", "tmo,tmo,tmo", "fail,fail,fail"])]
    ops += ["crash"]
    if r.random() < 0.4:
        ops += [r.choice(["n- n1", "cc+ c2 %s - %d - - 1 2" % (tok4(b, m), h2), "n+ n3 %s -" % good])]
    ops += ["construct - - " + r.choice(["-", "fail", "aerr"])]
    if r.random() < 0.4:
        ops += ["n+ n4 %s -" % good]
    ops += ["start"]
    if r.random() < 0.5:
        ops += ["pn ok", "pn ok", "pc ok", "pc ok", "pn ok"]
    else:
        ops += ["pc ok", "pc ok", "pn ok", "pn ok", "pn ok"]
    ops += ["n+ n5 %s -" % good, "dn", "pn ok"]
    return ops


def sc_cursor(r):
    a, l = r.choice([(0x0a000000, 26), (0x0a000000, 27), (0xc0a80000, 28), (0x0a000100, 26)])
    hb = 4
    n = 1 << (32 - hb - l)
    ops = ["cc+ c1 %s - %d - - 1 1" % (tok4(a, l), hb), "dc", "pc ok"]
    if r.random() < 0.5:   # blocks of c1 blocked only by another ClusterCIDR's allocations
        ops += ["cc+ c2 %s - %d zone:In:b - 1 2" % (tok4(a, l), hb), "dc", "pc ok"]
        for i in range(1, min(n, 4)):
            ops += ["n+ n%d zone=b -" % i, "dn", "pn ok", "dn"]
        ops += ["n+ n5 zone=a -", "dn", "pn ok"]
        return ops
    names = NODES[:min(n, 5)]
    for nm in names:
        ops += ["n+ %s - -" % nm, "dn", "pn ok", "dn"]
    victim = r.choice(names)
    ops += ["n- " + victim, "dn", "n+ %s - -" % victim, "dn", "pn ok", "dn", "pn ok"]
    return ops


def sc_labels(r):
    (a, l, h1), (b, m, h2) = _overlapping_v4(r)
    ops = ["cc+ c1 %s - %d zone:In:a - 1 1" % (tok4(a, l), h1), "dc", "pc ok", "n+ n1 zone=a -", "dn", "pn ok", "dn"]
    k = r.random()
    if k < 0.5:
        ops += ["nl n1 zone=b", "dn", "pn ok", "n- n1", "dn"]
    else:   # a higher-priority overlapping ClusterCIDR appears, the node is re-synced, then deleted
        ops += ["cc+ c2 %s - %d zone:In:a;tier:Exists: - 1 2" % (tok4(a, l), h1), "dc", "pc ok", "nl n1 zone=a,tier=x", "dn", "pn ok", "n- n1", "dn"]
    ops += ["cc- c1", "dc", "pc ok", "tick", "pc ok", "n+ n2 zone=a -", "dn", "pn ok"]
    return ops


def sc_service(r):
    a, l = r.choice(V4_RANGES)
    hb = min(r.choice([4, 5]), 32 - l)
    sl = r.choice([max(l - 1, 8), l, min(l + 1, 32), min(l + 2, 32), 32 - hb, min(32 - hb + 1, 32), 30])
    svc = tok4(mask("v4", a + r.randrange(1 << (32 - l)), sl), sl)
    ops = ["cc+ c1 %s - %d - - 1 1" % (tok4(a, l), hb)]
    svc2 = "-"
    if r.random() < 0.5:
        a6, l6 = r.choice(V6_RANGES)
        hb6 = min(hb, 128 - l6)
        s6 = r.choice([l6, l6 + 1, 126])
        ops += ["cc+ c2 - %s %d - - 1 2" % (tok6(a6, l6), hb6)]
        svc2 = tok6(mask("v6", a6 + r.randrange(1 << (128 - l6)), s6), s6)
    ops += ["construct %s %s -" % (svc, svc2), "start", "pc ok", "pc ok"]
    for i in range(1, 6):
        ops += ["n+ n%d - -" % i, "dn", "pn ok", "dn"]
    return ops


def sc_preset(r):
    (a, l, h1), (b, m, h2) = _overlapping_v4(r)
    n = 32 - h1
    k = r.randrange(1 << (n - l))
    ops = ["n+ n1 zone=a %s" % tok4(a + k * (1 << h1), n)]
    if r.random() < 0.5:
        ops += ["cc+ c1 %s - %d %s - 1 1" % (tok4(a, l), h1, r.choice(["-", "zone:In:a"])), "construct - - -", "start", "pc ok", "pn ok"]
    else:   # the ClusterCIDR is created after the node already holds a CIDR inside it
        ops += ["construct - - -", "start", "pn ok", "cc+ c1 %s - %d - - 1 1" % (tok4(a, l), h1), "dc", "pc ok"]
        if r.random() < 0.5:
            ops += ["rn", "pn ok"]
    for i in range(2, 5):
        ops += ["n+ n%d zone=a -" % i, "dn", "pn ok", "dn"]
    return ops


def sc_terminating_overlap(r):
    """two overlapping ClusterCIDRs exist; nodes hold blocks of the preferred one; it is deleted (stays terminating) or the
    controller restarts; further nodes -- known before those blocks were written, so the informer cache may still lack
    them -- are then served from the other ClusterCIDR, which never saw those blocks itself"""
    (a, l, h1), (b, m, h2) = _overlapping_v4(r)
    ops = ["cc+ c1 %s - %d zone:In:a;tier:Exists: - 1 1" % (tok4(a, l), h1), "cc+ c2 %s - %d %s - 1 2" % (tok4(b, m), h2, r.choice(["-", "zone:In:a"])),
           "dc", "dc", "pc ok", "pc ok", "dc", "dc"]
    k = r.randint(1, 3)
    for i in range(1, 6):
        ops += ["n+ n%d %s -" % (i, "zone=a,tier=x" if i <= k else "zone=a")]
    ops += ["dn"] * 5 + ["pn ok"] * k
    ops += ["dn"] * r.choice([0, 0, 1, k])          # the informer often lags behind the controller's own writes
    ops += ["cc- c1", "dc", "pc ok", "pc ok"]
    if r.random() < 0.3:
        ops += ["crash", "construct - - -", "start", "pc ok", "pc ok"]
    ops += ["pn ok"] * 5
    if r.random() < 0.5:
        ops += ["dn"] * 5 + ["n- n1", "dn", "tick", "pc ok", "dc", "pc ok", "n+ n1 zone=a -", "dn", "pn ok"]
    return ops


def sc_dual_blocked(r):
    """a dual-stack ClusterCIDR whose IPv6 blocks are all taken through ANOTHER ClusterCIDR over the same IPv6 range (its own
    IPv6 pool counts nothing used): nodes it selects get an IPv4 block reserved and then find no IPv6 block"""
    a, l = r.choice([(0x0a000000, 26), (0x0a000100, 27), (0xc0a80000, 28)])
    l6 = r.choice([124, 124, 123])
    v6 = mask("v6", (0xfd000000 << 96) + 0x20 * r.randrange(4), l6)
    ops = ["cc+ c1 %s %s 4 zone:In:a - 1 1" % (tok4(a, l), tok6(v6, l6)), "cc+ c3 - %s 4 %s - 1 2" % (tok6(v6, l6), r.choice(["-", "zone:In:b"])),
           "dc", "dc", "pc ok", "pc ok", "dc", "dc", "pc ok", "pc ok"]
    nb = 1 << (124 - l6)
    for i in range(1, nb + 1):
        ops += ["n+ n%d zone=b -" % i, "dn", "pn ok", "dn", "pn ok"]
    for i in range(nb + 1, 6):
        ops += ["n+ n%d zone=a -" % i, "dn", "pn ok", "tick", "pn ok"]
    if r.random() < 0.5:
        ops += ["n- n1", "dn", "tick", "pn ok", "pn ok", "dn", "pn ok"]
    return ops


def sc_bootstrap_unfinalized(r):
    """a ClusterCIDR created while the controller was down is mapped at start-up although the write adding the finalizer
    failed; nodes are served from it; the finalizer is added later by the ordinary create path, which must keep the pools"""
    (a, l, h1), (b, m, h2) = _overlapping_v4(r)
    sel, good, bad = _rng_sel_and_labels(r)
    ops = ["cc+ c1 %s - %d %s %s 1 1" % (tok4(a, l), h1, sel, r.choice(["-", "other.io/f"]))]
    if r.random() < 0.5:
        ops += ["n+ n1 %s %s" % (good, tok4(a + (1 << h1) * r.randrange(1 << (32 - h1 - l)), 32 - h1))]
    else:
        ops += ["n+ n1 %s -" % good]
    ops += ["n+ n2 %s -" % good, "construct - - " + r.choice(["fail", "aerr", "fail", "ok"]), "start"]
    ops += r.choice([["pn ok", "pn ok", "pc ok"], ["pn ok", "pc fail", "pn ok", "tick", "pc ok"], ["pc fail", "pn ok", "pn ok", "tick", "pc ok"]])
    ops += ["dc", "pc ok"]
    more = ["n+ n3 %s -" % good, "n+ n4 %s -" % good, "dn", "dn", "dn", "dn", "pn ok", "pn ok", "pn ok", "pn ok"]
    gone = ["cc- c1", "dc", "dc", "pc ok", "pc ok", "n- n2", "dn", "dn", "dn", "dn", "dn", "tick", "pc ok"]
    ops += r.choice([more, gone, more + gone, gone + more])
    return ops


def sc_replaced_node(r):
    """a node served by the controller is deleted and created again under the same name with other pod CIDRs while the
    watch is broken; the informer relists (one update, no delete), the node is synced, deleted again"""
    (a, l, h1), _ = _overlapping_v4(r)
    sel, good, bad = _rng_sel_and_labels(r)
    dual = r.random() < 0.3
    v6 = tok6(0xfd000000 << 96, 122) if dual else "-"
    ops = ["cc+ c1 %s %s %d %s - 1 1" % (tok4(a, l), v6, h1, sel), "dc", "pc ok", "n+ n1 %s -" % good, "dn", "pn ok"]
    ops += r.choice([[], ["dn"]])
    blk = tok4(a, 32 - h1)
    other = r.choice([blk + "," + tok6((0xfd000000 << 96) + 16 * r.randrange(4), 124), tok6((0xfd000000 << 96) + 16, 124),
                      tok4(a + (1 << h1), 32 - h1), blk, tok4(0xac100000, 28), "-"])
    ops += ["n- n1", "n+ n1 %s %s" % (r.choice([good, bad]), other), "rln", "pn ok", "pn ok"]
    ops += ["n+ n2 %s -" % good, "dn", "pn ok"]
    ops += ["n- n1", r.choice(["dn", "dnt", "rln"]), "pn ok", "cc- c1", "dc", "dc", "pc ok", "n- n2", "dn", "dn", "tick", "pc ok", "pc ok"]
    return ops


def sc_sibling_cc(r):
    """two ClusterCIDRs filed under the same selector; the second one's creation meets write faults (applied-but-error,
    clean failure, stale retry); the first is small, so nodes need the second"""
    sel, good, bad = _rng_sel_and_labels(r)
    a, l = r.choice([(0x0a000000, 27), (0xc0a80000, 28), (0x0a000100, 27)])
    b, m = r.choice([(0x0a000200, 26), (0xac100000, 26)])
    ops = ["cc+ c1 %s - 4 %s - 1 1" % (tok4(a, l), sel), "dc", "pc ok", "dc", "pc ok"]
    ops += ["cc+ c2 %s - 4 %s %s 1 2" % (tok4(b, m), sel, r.choice(["-", "-", "other.io/f"])), "dc",
            "pc " + r.choice(["aerr", "aerr", "fail", "ok"])]
    ops += r.choice([["tick", "pc ok"], ["dc", "tick", "pc ok", "pc ok"], ["tick", "pc fail", "dc", "tick", "pc ok", "pc ok"], ["dc", "pc ok", "tick", "pc ok"]])
    for i in range(1, 6):
        ops += ["n+ n%d %s -" % (i, good), "dn", "pn ok"]
    if r.random() < 0.4:
        ops += ["cc- c1", "dc", "dc", "pc ok", "pc ok"]
    ops += ["tick", "pn ok", "pn ok", "pn ok"]
    return ops


def sc_service_release(r):
    """a node holds a pod CIDR inside a service range -- assigned from a ClusterCIDR created after start-up (not filtered),
    or before the service range was configured -- and is deleted after a restart: the release must not make the blocks
    of the service range assignable again (D22)"""
    sel, good, bad = _rng_sel_and_labels(r)
    a, l = r.choice([(0x0a000000, 26), (0xc0a80000, 26), (0x0a000100, 27)])
    hb = r.choice([3, 4, 4])
    svc = tok4(a, r.choice([32 - hb, 32 - hb - 1, 32 - hb + 1]))
    cc = "cc+ c1 %s - %d %s - 1 1" % (tok4(a, l), hb, sel)
    if r.random() < 0.5:      # ClusterCIDR created after start-up, service range configured from the beginning
        ops = ["construct %s - -" % svc, "start", cc, "dc", "pc ok", "dc", "pc ok"]
    else:                     # service range configured at the restart only
        ops = [cc, "construct - - -", "start", "pc ok", "dc", "pc ok"]
    k = r.choice([1, 2, 3])
    for i in range(1, k + 1):
        ops += ["n+ n%d %s -" % (i, good), "dn", "pn ok", "dn"]
    ops += ["crash", "construct %s - -" % svc, "start", "pc ok"] + ["pn ok"] * k
    for i in range(1, k + 1):
        ops += ["n- n%d" % i] + r.choice([["dn", "pn ok"], ["nd n%d" % i, "dn", "dn", "pn ok"], ["dn"]])
    for i in range(k + 1, k + 4):
        ops += ["n+ n%d %s -" % (i, good), "dn", "pn ok"]
    return ops


def sc_applied_then_failed(r):
    """a node write that timed out AFTER being applied is followed by cleanly failing retries; the other nodes are known to the
    controller already and are processed next, without any notification in between, on a pool so small that the search
    wraps around to the first node's block: the controller must keep what it wrote itself (C01: "or has itself written")"""
    sel, good, bad = _rng_sel_and_labels(r)
    a = r.choice([0x0a000000, 0xc0a80000, 0x0a000100])
    hb = r.choice([4, 4, 3])
    nblocks = r.choice([2, 2, 3, 4])
    l = 32 - hb - {2: 1, 3: 2, 4: 2}[nblocks]
    ops = ["cc+ c1 %s - %d %s - 1 1" % (tok4(a, l), hb, sel), "construct - - -", "start", "pc ok"]
    k = nblocks + 1
    for i in range(1, k + 1):
        ops += ["n+ n%d %s -" % (i, good)]
    ops += ["dn"] * k
    ops += ["pn " + r.choice(["tmo,fail,fail", "fail,tmo,fail", "tmo,tmn,fail", "tmo,fail,fail,ok", "tmo,fail,tmn", "fail,fail,tmo"])]
    ops += ["pn ok"] * (k - 1)
    ops += r.choice([[], ["tick", "pn ok", "pn ok"], ["dn", "dn", "tick", "pn ok"]])
    return ops


def sc_foreign_preset(r):
    """a node that no ClusterCIDR selects holds a pod CIDR inside the range of a ClusterCIDR with few blocks; the other nodes are
    served around it; it is deleted; the next node must get the freed block (nothing may stay withheld on its behalf)"""
    sels = [x for x in [_rng_sel_and_labels(r) for _ in range(6)] if x[0] != "-"]
    sel, good, bad = sels[0] if sels else ("zone:In:a", "zone=a", "zone=b")
    a = r.choice([0x0a000000, 0xc0a80000, 0x0a010000])      # aligned to every prefix length used below
    hb = r.choice([4, 4, 8])
    nblocks = r.choice([2, 2, 4])
    l = 32 - hb - {2: 1, 4: 2}[nblocks]
    k = r.randrange(nblocks)
    legacy = "n+ n1 %s %s" % (bad, tok4(a + k * (1 << hb), 32 - hb))
    cc = "cc+ c1 %s - %d %s - 1 1" % (tok4(a, l), hb, sel)
    if r.random() < 0.5:
        ops = [legacy, "construct - - -", "start", "pn ok", cc, "dc", "pc ok", "dc", "pc ok"]
    else:
        ops = [legacy, cc, "construct - - -", "start", "pc ok", "pn ok"]
    for i in range(2, nblocks + 1):
        ops += ["n+ n%d %s -" % (i, good), "dn", "pn ok", "dn"]
    ops += ["n+ n9 %s -" % good, "dn", "pn ok"]          # refused: everything is in use
    ops += ["n- n1", "dn", "tick", "pn ok", "pn ok", "dn", "tick", "pn ok"]
    return ops


def sc_stale_relabel(r):
    """a work item holds a copy of the node fetched before the node was served; meanwhile the node is relabelled and served from
    a ClusterCIDR with a different number of families; then the stale item runs: it must not write to a node that has pod
    CIDRs according to the cache, and what it reserved must be given back"""
    a, b = 0x0a000000, 0x0a000100
    single = "cc+ c1 %s - 4 zone:In:a - 1 1" % tok4(a, 26)
    dual = "cc+ c2 %s %s 4 zone:In:b - 1 2" % (tok4(b, 26), tok6((0xfd000000 << 96) + 0x100, 120))
    ops = r.choice([[single, dual], [dual, single]]) + ["construct - - -", "start", "pc ok", "pc ok"]
    first, second = r.choice([("zone=a", "zone=b"), ("zone=b", "zone=a")])
    ops += ["n+ n1 %s -" % first, "dn", "fn 1 n1", "nl n1 %s" % second, "dn", "pn ok", "pn ok", "dn",
            "runn 1 " + r.choice(["ok", "ok", "fail,fail,fail", "tmo,fail,fail"])]
    ops += ["n+ n2 %s -" % first, "dn", "pn ok", "tick", "pn ok"]
    return ops


def sc_bootstrap_pair(r):
    """two ClusterCIDRs filed under one selector are mapped at start-up; the write adding the finalizer fails for one of them, which
    is then deleted (it vanishes at once, having no finalizer): the left-over entry must be removed from a list that still
    holds the other one, and the other one keeps serving"""
    sel, good, bad = _rng_sel_and_labels(r)
    ops = ["cc+ c1 %s - 4 %s - 1 1" % (tok4(0x0a000000, 27), sel), "cc+ c2 %s - 4 %s - 1 2" % (tok4(0x0a000100, 27), sel),
           "n+ n1 %s -" % good, "construct - - " + r.choice(["fail,ok", "ok,fail", "fail,fail", "aerr,fail"]), "start"]
    ops += r.choice([["pn ok"], ["pn ok", "pc ok"], []])
    gone = r.choice(["c1", "c2"])
    ops += ["cc- " + gone, "dc", "dc", "pc ok", "pc ok", "tick", "pc ok"]
    for i in range(2, 5):
        ops += ["n+ n%d %s -" % (i, good), "dn", "pn ok"]
    ops += ["tick", "pn ok", "pn ok"]
    return ops


def sc_v6_too_big(r):
    """an IPv6 range with more than 2^16 per-node blocks: the ClusterCIDR is rejected when its pools are built (also at start-up),
    it serves nobody and disturbs nobody else"""
    sel, good, bad = _rng_sel_and_labels(r)
    big = "cc+ c1 - %s %d %s - 1 1" % (tok6(0xfd000000 << 96, r.choice([64, 96, 100])), r.choice([4, 8]), sel)
    ok = "cc+ c2 %s - 4 %s - 1 2" % (tok4(0x0a000000, 27), sel)
    if r.random() < 0.5:
        ops = [big, ok, "construct - - -", "start", "pc ok", "pc ok"]
    else:
        ops = ["construct - - -", "start", big, "dc", "pc ok", ok, "dc", "pc ok", "dc", "pc ok", "tick", "pc ok"]
    for i in range(1, 4):
        ops += ["n+ n%d %s -" % (i, good), "dn", "pn ok"]
    ops += ["cc- c1", "dc", "pc ok", "tick", "pc ok", "pn ok"]
    return ops


def default_flags(r):
    """the --cluster-cidr / --node-cidr-mask-size* flags: one range, or an IPv4 and an IPv6 one (either order), with
    mask sizes around the interesting borders (4 host bits, the dual-stack rule)"""
    a4, l4 = r.choice(V4_RANGES)
    a6, l6 = r.choice(V6_RANGES)
    m4 = r.choice([l4 + 1, l4 + 2, 28, 28, 27, 29, 30])
    m6 = r.choice([l6 + 1, l6 + 2, 124, 124, 123, 125, 100])
    kind = r.choice(["v4", "v4", "v6", "dual", "dual", "dual6"])
    if kind == "v4":
        return "%s=%d" % (tok4(a4, l4), m4)
    if kind == "v6":
        return "%s=%d" % (tok6(a6, l6), m6)
    if kind == "dual":
        return "%s=%d,%s=%d" % (tok4(a4, l4), m4, tok6(a6, l6), m6)
    return "%s=%d,%s=%d" % (tok6(a6, l6), m6, tok4(a4, l4), m4)


def sc_default_cc(r):
    """the controller is started with --cluster-cidr: it builds the default ClusterCIDR (no selector) from the flags, creates
    it -- the write may fail or be applied with an error -- and serves nodes from it; a restart finds the object (or
    not) and must not add a second one"""
    flags = default_flags(r)
    sel, good, bad = _rng_sel_and_labels(r)
    ops = []
    if r.random() < 0.5:
        ops.append("cc+ c1 %s - 4 %s - 1 1" % (tok4(0xc0a80000, 28), sel))
    ops += ["construct - - %s %s" % (r.choice(["-", "-", "ok,ok", "fail", "ok,fail", "aerr", "ok,aerr"]), flags), "start", "pc ok", "pc ok"]
    for i in range(1, 4):
        ops += ["n+ n%d %s -" % (i, r.choice([good, bad, "-"])), "dn", "pn ok"]
    if r.random() < 0.7:
        ops += ["crash", "construct - - %s %s" % (r.choice(["-", "-", "fail"]), r.choice([flags, flags, default_flags(r), "-"])), "start", "pc ok", "pc ok"]
        ops += ["n+ n4 %s -" % good, "dn", "pn ok", "pn ok", "pn ok"]
    if r.random() < 0.4:
        ops += ["cc- default-cluster-cidr", "dc", "pc ok", "n- n1", "dn", "pn ok", "tick", "pc ok", "n+ n5 - -", "dn", "pn ok"]
    return ops


SCENARIOS = [sc_default_cc, sc_replace_cc, sc_stale_fetch, sc_dual_exhaust, sc_faults, sc_cc_retry, sc_restart, sc_cursor, sc_labels, sc_service, sc_preset, sc_terminating_overlap, sc_dual_blocked, sc_bootstrap_unfinalized, sc_replaced_node, sc_sibling_cc, sc_service_release, sc_applied_then_failed, sc_foreign_preset, sc_stale_relabel, sc_bootstrap_pair, sc_v6_too_big]


def noise_op(r):
    return r.choice(["dn", "dc", "tick", "pn ok", "pc ok", "rn", "rc", "dn", "pn ok", "rln", "rlc",
                     "n- " + r.choice(NODES), "nl %s %s" % (r.choice(NODES), r.choice(LABELSETS)),
                     "pn fail,fail,fail", "pc fail", "dnt", "nd " + r.choice(NODES), "ccf c1 other.io/f"])


def gen_scenarios(rng, n, noise=0.12):
    cases, counts = [], {}
    for i in range(n):
        sc = rng.choice(SCENARIOS)
        ops = sc(rng)
        if not any(o.startswith("construct") for o in ops):
            ops = ["construct - - -", "start"] + ops
        out = []
        for o in ops:
            out.append(o)
            while rng.random() < noise:
                out.append(noise_op(rng))
        cases.append(("%s%d" % (sc.__name__[3:], i), out))
        counts[sc.__name__] = counts.get(sc.__name__, 0) + 1
    return cases, counts


# ---------------------------------------------------------------- malformed stream (C12)
def xtok(text):
    return "x:" + text.encode().hex()


BAD_TEXTS = ["abc", "10.0.0.0", "10.0.0.0/33", "300.1.1.1/24", "fd00::/129", "/24", "10.0.0.0/-1", " 10.0.0.0/24", "10.0.0.0/24 ",
             "010.000.000.000/24", "10.0.0.1/24", "fd00::1/120", "1.2.3.4/32", "::1/128", "10.0.0.0/22"]
BAD_SELECTORS = ["zone:Foo:a", "zone:In:", "zone:Exists:a", "rack:Gt:abc", "rack:Gt:1+2", "-bad-:In:a", "zone:In:" + "v" * 70,
                 "in:In:in", "notin:NotIn:notin", "zone:In:a|tier:Exists:", "0", "F.metadata.name:In:n1", "zone:DoesNotExist:x", "a/b/c:Exists:"]


def gen_malformed(rng, n):
    r = rng
    cases = []
    for i in range(n):
        ops = []
        pre = r.random() < 0.5

        def cc(name):
            v4 = v6 = "-"
            k = r.random()
            a4, l4 = r.choice(V4_RANGES)
            a6, l6 = r.choice(V6_RANGES)
            if k < 0.25:      # families swapped
                v4, v6 = tok6(a6, l6), (tok4(a4, l4) if r.random() < 0.5 else "-")
            elif k < 0.5:     # garbage / sloppy text
                v4 = xtok(r.choice(BAD_TEXTS))
                v6 = r.choice(["-", xtok(r.choice(BAD_TEXTS)), tok6(a6, l6)])
            elif k < 0.6:
                v4, v6 = "-", "-"
            else:
                v4 = tok4(a4, l4) if r.random() < 0.7 else "-"
                v6 = tok6(a6, l6) if (r.random() < 0.5 or v4 == "-") else "-"
            hb = r.choice([-3, -1, 0, 1, 4, 4, 5, 8, 9, 31, 32, 33, 64, 127, 128, 129, 2147483647, -2147483648])
            sel = r.choice(BAD_SELECTORS + SELECTORS)
            return "cc+ %s %s %s %d %s %s %d %d" % (name, v4, v6, hb, sel, r.choice(OTHER_FINS), r.choice([1, 1, 2]), i)

        def node(name):
            k = r.random()
            if k < 0.3:
                cs = xtok(r.choice(BAD_TEXTS))
            elif k < 0.5:
                cs = r.choice([tok4(0x0a000000, 28), tok4(0xac100000, 28), xtok("10.0.0.16/27"), xtok("010.0.0.0/28")]) + "," + tok6((0xfd000000 << 96) + 16 * r.randrange(8), 124)
            elif k < 0.6:
                cs = tok6((0xfd000000 << 96) + 16 * r.randrange(8), 124)
            elif k < 0.7:
                cs = tok4(0x0a000000, r.choice([8, 16, 22, 24, 30, 32])) + "," + tok4(0x0a000100, 28)
            else:
                cs = "-"
            return "n+ %s %s %s" % (name, r.choice(LABELSETS), cs)

        if pre:
            ops += [cc(nm) for nm in r.sample(CCS, r.randint(1, 3))]
            ops += [node(nm) for nm in r.sample(NODES, r.randint(0, 3))]
        svc1 = r.choice(["-", tok4(0x0a000000, 26), tok6(0xfd000000 << 96, 122), tok4(0, 0)])
        svc2 = r.choice(["-", "-", tok6(0xfd000000 << 96, 124), tok4(0x0a000100, 30)])
        ops += ["construct %s %s -" % (svc1, svc2), "start"]
        for _ in range(r.randint(4, 14)):
            k = r.random()
            if k < 0.3:
                ops += [cc(r.choice(CCS)), "dc", "pc ok"]
            elif k < 0.6:
                ops += [node(r.choice(NODES)), "dn", "pn ok"]
            elif k < 0.68:
                ops += ["n- " + r.choice(NODES), r.choice(["dn", "dnt"])]
            elif k < 0.74:
                # a node is deleted and created again with other content while the watch is broken: the informer sees one update,
                # and later a deletion carrying the new content
                nm = r.choice(NODES)
                ops += ["n- " + nm, node(nm), "rln", "pn ok", "n- " + nm, r.choice(["dn", "dnt", "rln"])]
            elif k < 0.8:
                ops += ["cc- " + r.choice(CCS), "dc", "pc ok"]
            else:
                ops += [r.choice(["pn ok", "pc ok", "tick", "dn", "dc", "rn", "rc", "rln", "rlc", "nd " + r.choice(NODES)])]
        if r.random() < 0.3:
            ops += ["crash", "construct %s %s -" % (svc1, svc2), "start", "pn ok", "pc ok"]
        cases.append(("mal%d" % i, ops))
    return cases


# ---------------------------------------------------------------- IPv4-mapped IPv6 text forms (outside the model's value domain, K1)
V4MAPPED_TEXTS = ["::ffff:10.0.0.32/124", "::ffff:10.0.0.0/120", "::ffff:10.0.0.16/124", "::ffff:a00:20/124", "::ffff:10.0.1.0/120",
                  "::ffff:0:0/96", "::ffff:10.0.0.0/104", "::ffff:192.168.0.0/124", "0:0:0:0:0:ffff:a00:0/124", "::ffff:10.0.0.0/128"]


def gen_v4mapped(rng, n):
    """histories in which nodes and ClusterCIDRs carry IPv4-mapped IPv6 CIDR text: the model does not represent these values (K1),
    so only the implementation is run on them and only the crash / stall monitor judges it"""
    r = rng
    cases = []
    for i in range(n):
        ops = []
        a4, l4 = r.choice([(0x0a000000, 24), (0x0a000000, 26), (0x0a000000, 25)])
        ccs = ["cc+ c1 %s - 4 - - 1 1" % tok4(a4, l4)]
        if r.random() < 0.5:
            ccs.append("cc+ c2 %s %s 4 - - 1 2" % (tok4(0x0a000100, 24), tok6(0xfd000000 << 96, 120)))
        if r.random() < 0.3:
            ccs.append("cc+ c3 - %s %d - - 1 3" % (xtok(r.choice(V4MAPPED_TEXTS)), r.choice([4, 8, 100])))

        def node(name):
            k = r.random()
            if k < 0.5:
                cs = xtok(r.choice(V4MAPPED_TEXTS))
            elif k < 0.7:
                cs = tok4(a4 + 16 * r.randrange(4), 28) + "," + xtok(r.choice(V4MAPPED_TEXTS))
            elif k < 0.8:
                cs = xtok(r.choice(V4MAPPED_TEXTS)) + "," + tok6((0xfd000000 << 96) + 16, 124)
            else:
                cs = "-"
            return "n+ %s %s %s" % (name, r.choice(["-", "zone=a"]), cs)
        pre = r.random() < 0.6
        if pre:
            ops += ccs + [node(nm) for nm in r.sample(NODES, r.randint(1, 3))]
        svc = r.choice(["-", "-", tok4(a4, 28)])
        ops += ["construct %s - -" % svc, "start"] + ["pc ok"] * 3 + ["pn ok"] * 3
        if not pre:
            for c in ccs:
                ops += [c, "dc", "pc ok"]
        for _ in range(r.randint(3, 9)):
            k = r.random()
            if k < 0.5:
                nm = r.choice(NODES)
                ops += [node(nm), "dn", "pn ok"]
            elif k < 0.7:
                ops += ["n- " + r.choice(NODES), r.choice(["dn", "dnt", "rln"])]
            elif k < 0.8:
                ops += ["nd " + r.choice(NODES), "dn", "pn ok"]
            else:
                ops += [r.choice(["pn ok", "rn", "rln", "tick", "dn", "pc ok"])]
        if r.random() < 0.4:
            ops += ["crash", "construct %s - -" % svc, "start", "pn ok", "pn ok", "pc ok"]
        cases.append(("v4m%d" % i, ops))
    return cases
