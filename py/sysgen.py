"""sysgen -- random system histories over a small universe (C01-C12, C20)."""
from geomgen import hexa, mask

V4_RANGES = [
    (0x0a000000, 24), (0x0a000000, 25), (0x0a000080, 25), (0x0a000000, 26), (0x0a000100, 24),
    (0x0a000100, 26), (0x0a000000, 23), (0x0a000200, 27), (0xc0a80000, 28), (0x0a000040, 26),
]
V6_RANGES = [
    (0xfd000000 << 96, 120), (0xfd000000 << 96, 121), ((0xfd000000 << 96) + 0x80, 121), ((0xfd000000 << 96) + 0x100, 120),
    (0xfd000000 << 96, 122), ((0xfd000001 << 96), 124), (0xfd000000 << 96, 119),
]
SELECTORS = ["-", "-", "zone:In:a", "zone:In:a+b", "zone:In:b", "tier:Exists:", "zone:NotIn:b", "zone:In:a;tier:Exists:",
             "tier:DoesNotExist:", "rack:Gt:3", "zone:In:a;rack:Lt:10"]
LABELSETS = ["-", "zone=a", "zone=b", "zone=a,tier=x", "tier=x", "zone=a,rack=5", "zone=b,tier=x,rack=12", "zone=c"]
NODES = ["n1", "n2", "n3", "n4", "n5"]
CCS = ["c1", "c2", "c3", "c4"]
OTHER_FINS = ["-", "-", "-", "other.io/f"]


def tok4(a, l):
    return "v4:%s/%d" % (hexa("v4", a), l)


def tok6(a, l):
    return "v6:%s/%d" % (hexa("v6", a), l)


class Gen:
    def __init__(self, rng, profile="mixed"):
        self.rng = rng
        self.profile = profile
        self.cc_specs = {}      # name -> (v4, v6, hb)
        self.rest = 0
        self.stats = {"ops": {}, "faults": 0, "crashes": 0, "dual": 0, "preset_nodes": 0, "cc": 0, "nodes": 0}

    def note(self, op):
        k = op.split()[0]
        self.stats["ops"][k] = self.stats["ops"].get(k, 0) + 1

    def new_cc(self, name):
        r = self.rng
        hb = r.choice([4, 4, 5, 6, 4, 7])
        kind = r.choice(["v4", "v4", "v4", "v6", "dual", "dual"])
        v4 = v6 = None
        if kind in ("v4", "dual"):
            a, l = r.choice(V4_RANGES)
            if 32 - hb < l:
                hb = 32 - l
            v4 = (a, l)
        if kind in ("v6", "dual"):
            a, l = r.choice(V6_RANGES)
            if 128 - hb < l:
                hb = min(hb, 128 - l)
                if v4 and 32 - hb < v4[1]:
                    v4 = None
            v6 = (a, l)
        if kind == "dual":
            self.stats["dual"] += 1
        self.cc_specs[name] = (v4, v6, hb)
        self.rest += 1
        sel = r.choice(SELECTORS)
        fins = r.choice(OTHER_FINS)
        gen = 1 if r.random() < 0.93 else 2
        self.stats["cc"] += 1
        return "cc+ %s %s %s %d %s %s %d %d" % (name, tok4(*v4) if v4 else "-", tok6(*v6) if v6 else "-", hb, sel, fins, gen, self.rest)

    def preset_cidrs(self):
        """pre-existing podCIDRs: whole blocks of some known ClusterCIDR (or a multiple), or outside all"""
        r = self.rng
        if not self.cc_specs or r.random() < 0.2:
            return tok4(0xac100000 + 16 * r.randrange(16), 28)
        v4, v6, hb = self.cc_specs[r.choice(sorted(self.cc_specs))]
        out = []
        if v4:
            a, l = v4
            n = 32 - hb
            k = r.randrange(1 << (n - l))
            if r.random() < 0.2 and n - 1 >= l:   # a double block
                out.append(tok4(mask("v4", a + k * (1 << hb), n - 1), n - 1))
            else:
                out.append(tok4(a + k * (1 << hb), n))
        if v6:
            a, l = v6
            n = 128 - hb
            k = r.randrange(1 << (n - l))
            out.append(tok6(a + k * (1 << hb), n))
        return ",".join(out)

    def outs(self, kind):
        r = self.rng
        if kind == "patch":
            if r.random() < 0.7:
                return "ok"
            self.stats["faults"] += 1
            return ",".join(r.choice(["ok", "fail", "fail", "tmo"]) for _ in range(3))
        if r.random() < 0.75:
            return "ok"
        self.stats["faults"] += 1
        return r.choice(["fail", "aerr"])

    def history(self, length):
        r = self.rng
        ops = []
        # start-up: sometimes objects exist before the first incarnation
        pre = r.random() < 0.4
        if pre:
            for name in r.sample(CCS, r.randint(0, 2)):
                ops.append(self.new_cc(name))
            for name in r.sample(NODES, r.randint(0, 2)):
                cs = self.preset_cidrs() if r.random() < 0.6 else "-"
                if cs != "-":
                    self.stats["preset_nodes"] += 1
                ops.append("n+ %s %s %s" % (name, r.choice(LABELSETS), cs))
        svc1 = svc2 = "-"
        if r.random() < 0.25:
            a, l = r.choice(V4_RANGES)
            sl = r.choice([l - 1, l, l + 1, l + 2, 28, 30])
            svc1 = tok4(mask("v4", a + r.randrange(1 << (32 - l)), sl), sl)
            if r.random() < 0.4:
                a6, l6 = r.choice(V6_RANGES)
                sl6 = r.choice([l6, l6 + 1, 124, 126])
                svc2 = tok6(mask("v6", a6 + r.randrange(1 << (128 - l6)), sl6), sl6)
        self.svc = (svc1, svc2)
        ops.append("construct %s %s %s" % (svc1, svc2, "-" if r.random() < 0.8 else self.outs("upd")))
        ops.append("start")
        pending_fetch = {}
        while len(ops) < length:
            x = r.random()
            if x < 0.10:
                free = [c for c in CCS if c not in self.cc_specs] or CCS
                ops.append(self.new_cc(r.choice(free)))
                ops.append("dc")
                ops.append("pc " + self.outs("upd"))
            elif x < 0.24:
                name = r.choice(NODES)
                preset = r.random() < 0.15
                cs = self.preset_cidrs() if preset else "-"
                if preset:
                    self.stats["preset_nodes"] += 1
                self.stats["nodes"] += 1
                ops.append("n+ %s %s %s" % (name, r.choice(LABELSETS), cs))
                ops.append("dn")
                ops.append("pn " + self.outs("patch"))
            elif x < 0.34:
                ops.append(r.choice(["dn", "dn", "dc", "dn", "dc", "dnt"]))
            elif x < 0.52:
                ops.append("pn " + self.outs("patch"))
            elif x < 0.62:
                ops.append("pc " + self.outs("upd"))
            elif x < 0.67:
                ops.append("n- " + r.choice(NODES))
                if r.random() < 0.7:
                    ops.append("dn")
            elif x < 0.71:
                ops.append("cc- " + r.choice(CCS))
                if r.random() < 0.7:
                    ops.append("dc")
                    ops.append("pc " + self.outs("upd"))
            elif x < 0.74:
                ops.append("nl %s %s" % (r.choice(NODES), r.choice(LABELSETS)))
            elif x < 0.76:
                ops.append("nd " + r.choice(NODES))
            elif x < 0.78:
                ops.append("ccf %s %s" % (r.choice(CCS), r.choice(["-", "other.io/f", "other.io/f+x.io/g"])))
            elif x < 0.83:
                ops.append("tick")
            elif x < 0.86:
                ops.append(r.choice(["rn", "rc"]))
            elif x < 0.91:
                w = str(r.randint(1, 3))
                if r.random() < 0.5:
                    ops.append("fn %s %s" % (w, r.choice(NODES)))
                    pending_fetch[w] = "n"
                else:
                    ops.append("fc %s %s" % (w, r.choice(CCS)))
                    pending_fetch[w] = "c"
            elif x < 0.96:
                if pending_fetch:
                    w = r.choice(sorted(pending_fetch))
                    if pending_fetch.pop(w) == "n":
                        ops.append("runn %s %s" % (w, self.outs("patch")))
                    else:
                        ops.append("runc %s %s" % (w, self.outs("upd")))
                else:
                    ops.append("pn " + self.outs("patch"))
            elif x < 0.985 or self.profile == "nocrash":
                ops.append("tick")
                ops.append("pn ok")
            else:
                self.stats["crashes"] += 1
                ops.append("crash")
                for _ in range(r.randint(0, 2)):   # things happen while the controller is down
                    ops.append(r.choice(["n- " + r.choice(NODES), "cc- " + r.choice(CCS),
                                         "n+ %s %s -" % (r.choice(NODES), r.choice(LABELSETS))]))
                ops.append("construct %s %s -" % self.svc)
                if r.random() < 0.3:
                    ops.append("n+ %s %s -" % (r.choice(NODES), r.choice(LABELSETS)))
                ops.append("start")
        for o in ops:
            self.note(o)
        return ops


def drain_ops(rounds=6):
    """fair processing with no further faults: deliver everything, tick, process every queued item"""
    ops = []
    for _ in range(rounds):
        ops += ["dn"] * 6 + ["dc"] * 6 + ["tick"] + ["pc ok"] * 5 + ["pn ok"] * 6
    return ops


def gen_histories(rng, n, length=(10, 40), profile="mixed"):
    cases, stats = [], []
    for i in range(n):
        g = Gen(rng, profile)
        ops = g.history(rng.randint(*length))
        cases.append(("h%d" % i, ops))
        stats.append(g.stats)
    agg = {"ops": {}, "faults": 0, "crashes": 0, "dual": 0, "preset_nodes": 0, "cc": 0, "nodes": 0}
    for s in stats:
        for k, v in s["ops"].items():
            agg["ops"][k] = agg["ops"].get(k, 0) + v
        for k in ("faults", "crashes", "dual", "preset_nodes", "cc", "nodes"):
            agg[k] += s[k]
    return cases, agg
