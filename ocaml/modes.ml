let table : (string * (in_channel -> out_channel -> unit)) list ref = ref []
