(* sysdrv.ml -- runs system histories on the extracted model (Sys.step); prints the same
   observation lines as harness/cmd/drive/sys.go.  Oracles are read from <casefile>.orc. *)
open Model
open Conv

let str_of_string (s : string) : n list = List.init (String.length s) (fun i -> n_of_int (Char.code s.[i]))
let string_of_str (l : n list) : string =
  let b = Buffer.create 16 in List.iter (fun c -> Buffer.add_char b (Char.chr (int_of_n c))) l; Buffer.contents b

let unhex (h : string) : string =
  if h = "-" then "" else
  String.init (String.length h / 2) (fun i -> Char.chr (int_of_string ("0x" ^ String.sub h (2 * i) 2)))
let hex_of_string (s : string) : string =
  let b = Buffer.create 32 in String.iter (fun c -> Buffer.add_string b (Printf.sprintf "%02x" (Char.code c))) s; Buffer.contents b

let split_list (s : string) (sep : char) : string list = if s = "-" || s = "" then [] else String.split_on_char sep s

(* ---- oracles ---- *)
let labels_tbl : (string, string) Hashtbl.t = Hashtbl.create 64       (* canon cidr -> printed *)
let selkey_tbl : (string, string option) Hashtbl.t = Hashtbl.create 64 (* selspec -> key *)
let parse_tbl : (string, req list option) Hashtbl.t = Hashtbl.create 64 (* key -> reqs *)
let cidr_tbl : (string, (cidr * bool) option) Hashtbl.t = Hashtbl.create 64

let op_of_string = function
  | "In" -> OpIn | "NotIn" -> OpNotIn | "Exists" -> OpExists | "DoesNotExist" -> OpDoesNotExist
  | "Gt" -> OpGt | "Lt" -> OpLt | s -> failwith ("bad op " ^ s)

let parse_reqs (s : string) : req list =
  List.map (fun r ->
      match String.split_on_char ':' r with
      | [k; o; vs] -> { rkey = str_of_string (unhex k); rop = op_of_string o;
                        rvals = List.map (fun v -> str_of_string (unhex v)) (if vs = "" then [] else String.split_on_char '+' vs) }
      | _ -> failwith ("bad req " ^ r)) (split_list s ';')

let load_oracles (path : string) : unit =
  Hashtbl.reset labels_tbl; Hashtbl.reset selkey_tbl; Hashtbl.reset parse_tbl; Hashtbl.reset cidr_tbl;
  if Sys.file_exists path then begin
    let ic = open_in path in
    (try while true do
         match fields (input_line ic) with
         | ["label"; tok; h] -> Hashtbl.replace labels_tbl tok (unhex h)
         | ["selkey"; spec; "fail"] -> Hashtbl.replace selkey_tbl spec None
         | ["selkey"; spec; h] -> Hashtbl.replace selkey_tbl spec (Some (unhex h))
         | ["parse"; h; "fail"] -> Hashtbl.replace parse_tbl (unhex h) None
         | ["parse"; h; "ok"; rs] -> Hashtbl.replace parse_tbl (unhex h) (Some (parse_reqs rs))
         | ["cidr"; tok; "bad"] -> Hashtbl.replace cidr_tbl tok None
         | ["cidr"; tok; c; canon] -> Hashtbl.replace cidr_tbl tok (Some (cidr_of_canon c, canon = "1"))
         | _ -> ()
       done with End_of_file -> ());
    close_in ic
  end

(* labels.Parse on a map key: the model's own lexer and parser (Lbl.v); the table filled from the real library by the
   annotate pass is kept for py/xcheck.py only *)
let po (k : n list) : req list option = sel_parse k

let selop_of_string = function
  | "In" -> Some OpIn | "NotIn" -> Some OpNotIn | "Exists" -> Some OpExists | "DoesNotExist" -> Some OpDoesNotExist
  | "Gt" -> Some OpGt | "Lt" -> Some OpLt | _ -> None


(* selector spec -> the model's nodesel (own parser of the case-file mini language) *)
let nodesel_of_spec (s : string) : term list option =
  if s = "-" then None else if s = "0" then Some [] else
  Some (List.map (fun t ->
      let reqs = List.filter (fun r -> r <> "") (String.split_on_char ';' t) in
      let mk r =
        let isf = String.length r > 2 && String.sub r 0 2 = "F." in
        let r = if isf then String.sub r 2 (String.length r - 2) else r in
        let (k, op, vs) = match String.split_on_char ':' r with
          | [k; op; vs] -> (k, op, vs) | [k; op] -> (k, op, "") | [k] -> (k, "", "") | k :: op :: rest -> (k, op, String.concat ":" rest) | [] -> ("", "", "") in
        let vals = if vs = "" then [] else List.map (fun v -> if v = "EMPTY" then "" else v) (String.split_on_char '+' vs) in
        (* an operator outside the six is kept distinguishable by tagging the key (update comparison only) *)
        let (k, o) = match selop_of_string op with Some o -> (k, o) | None -> (k ^ "\000op=" ^ op, OpIn) in
        (isf, { rkey = str_of_string k; rop = o; rvals = List.map str_of_string vals }) in
      let all = List.map mk reqs in
      { t_exprs = List.map snd (List.filter (fun (f, _) -> not f) all); t_fields = List.map snd (List.filter (fun (f, _) -> f) all) })
      (String.split_on_char '|' s))

let reqs_of_spec (spec : string) : req list =
  match nodesel_of_spec spec with Some ts -> flatten_sel ts | None -> default_reqs
let lab (c : cidr) : n list =
  match Hashtbl.find_opt labels_tbl (canon_cidr c) with Some s -> str_of_string s | None -> str_of_string (canon_cidr c)

(* ---- tokens -> model values ---- *)
let pcidr_of_tok (tok : string) : pcidr =
  if String.length tok > 2 && String.sub tok 0 2 = "x:" then
    (match Hashtbl.find_opt cidr_tbl tok with Some (Some (c, canon)) -> PGood (c, canon) | _ -> PBad)
  else PGood (cidr_of_canon tok, true)

let field_of_tok (tok : string) : fieldparse =
  if tok = "-" then FEmpty
  else if String.length tok > 2 && String.sub tok 0 2 = "x:" then
    (match Hashtbl.find_opt cidr_tbl tok with
     | Some (Some (c, _)) -> FOk c
     | _ -> if tok = "x:" then FEmpty else FBad)
  else FOk (cidr_of_canon tok)

let labels_of_tok (s : string) : (n list * n list) list =
  List.map (fun kv -> match String.index_opt kv '=' with
      | Some i -> (str_of_string (String.sub kv 0 i), str_of_string (String.sub kv (i + 1) (String.length kv - i - 1)))
      | None -> (str_of_string kv, [])) (split_list s ',')

let fins_of_tok (s : string) : n list list =
  List.map (fun x -> if x = "OURS" then finalizer else str_of_string x) (split_list s '+')

let pouts_of_tok (s : string) : patch_outcome list =
  List.map (function "ok" -> POk | "tmo" -> PTimeoutApplied | "tmn" -> PTimeoutNotApplied | _ -> PFail) (split_list s ',')
let uout_of_string = function "ok" -> UOk | "aerr" -> UAppliedErr | _ -> UFail
let uouts_of_tok (s : string) : upd_outcome list = List.map uout_of_string (split_list s ',')
let first_uout (s : string) : upd_outcome = match split_list s ',' with x :: _ -> uout_of_string x | [] -> UFail

let svc_of_tok (s : string) : cidr option = if s = "-" then None else Some (cidr_of_canon s)
(* the --cluster-cidr flags: <cidr>=<mask size>,... *)
let dp_of_tok (s : string) =
  List.map (fun x -> match String.index_opt x '=' with
      | Some i -> (cidr_of_canon (String.sub x 0 i), z_of_int (int_of_string (String.sub x (i + 1) (String.length x - i - 1))))
      | None -> failwith "bad dp token") (split_list s ',')

let ccobj_of_fields (f : string array) : ccobj =
  (* cc+ name v4 v6 hb sel fins gen rest *)
  { o_name = str_of_string f.(1); o_v4 = field_of_tok f.(2); o_v6 = field_of_tok f.(3);
    o_hb = z_of_int (int_of_string f.(4));
    o_selkey = selector_key (reqs_of_spec f.(5));
    o_fins = fins_of_tok f.(6); o_deleting = false; o_gen = n_of_int (int_of_string f.(7)); o_rv = N0;
    o_rest = n_of_int (int_of_string f.(8)) }

let op_of_line (f : string list) : op option =
  let a = Array.of_list f in
  match f with
  | ["n+"; name; ls; cs] -> Some (UCreateNode (str_of_string name, labels_of_tok ls, List.map pcidr_of_tok (split_list cs ',')))
  | ["nl"; name; ls] -> Some (ULabelNode (str_of_string name, labels_of_tok ls))
  | ["n-"; name] -> Some (UDeleteNode (str_of_string name))
  | ["nd"; name] -> Some (UMarkNodeDeleting (str_of_string name))
  | "cc+" :: _ when Array.length a = 9 -> Some (UCreateCC (ccobj_of_fields a))
  | ["cc-"; name] -> Some (UDeleteCC (str_of_string name))
  | ["ccf"; name; fins] -> Some (USetCCFinalizers (str_of_string name, fins_of_tok fins))
  | ["dn"] -> Some DeliverNode | ["dnt"] -> Some DeliverNodeTombstone | ["dc"] -> Some DeliverCC
  | ["rln"] -> Some RelistNodes | ["rlc"] -> Some RelistCCs
  | ["rn"] -> Some ResyncNodes | ["rc"] -> Some ResyncCCs | ["tick"] -> Some Tick
  | ["crash"] -> Some Crash | ["start"] -> Some StartInformers
  | ["fn"; w; key] -> Some (FetchNode (n_of_int (int_of_string w), str_of_string key))
  | ["runn"; w; outs] -> Some (RunNode (n_of_int (int_of_string w), pouts_of_tok outs))
  | ["fc"; w; key] -> Some (FetchCC (n_of_int (int_of_string w), str_of_string key))
  | ["runc"; w; out] -> Some (RunCC (n_of_int (int_of_string w), first_uout out))
  | ["pn"; outs] -> Some (ProcNode (pouts_of_tok outs))
  | ["pc"; out] -> Some (ProcCC (first_uout out))
  | ["construct"; s1; s2; outs] -> Some (Construct (svc_of_tok s1, svc_of_tok s2, uouts_of_tok outs, []))
  | ["construct"; s1; s2; outs; dp] -> Some (Construct (svc_of_tok s1, svc_of_tok s2, uouts_of_tok outs, dp_of_tok dp))
  | _ -> None

(* ---- printing ---- *)
let join_or (l : string list) (sep : string) (empty : string) = if l = [] then empty else String.concat sep l

let fins_tok (f : n list list) : string =
  join_or (List.map (fun s -> if s = finalizer then "OURS" else string_of_str s) f) "+" "-"

let pcidr_tok = function PBad -> "bad" | PGood (c, _) -> canon_cidr c
let cidrs_tok (l : pcidr list) = join_or (List.map pcidr_tok l) "," "-"

let effect_tok (e : effect) : string =
  match e with
  | FxPatch (n, cs, o) ->
    Printf.sprintf "patch %s %s %s" (string_of_str n) (join_or (List.map canon_cidr cs) "," "-")
      (match o with POk -> "ok" | PFail -> "fail" | PTimeoutApplied -> "tmo" | PTimeoutNotApplied -> "tmn")
  | FxEvent (r, n) -> Printf.sprintf "ev %s %s" (dec_of_n r) (string_of_str n)
  | FxGetNode (n, ok) -> Printf.sprintf "getnode %s %s" (string_of_str n) (if ok then "ok" else "fail")
  | FxUpdateCC (o, out) ->
    Printf.sprintf "updcc %s fins=%s rest=%s %s" (string_of_str o.o_name) (fins_tok o.o_fins) (dec_of_n o.o_rest)
      (match out with UOk -> "ok" | UFail -> "fail" | UAppliedErr -> "aerr")
  | FxCreateCC (o, out) ->
    let ftok = function FOk c -> canon_cidr c | FEmpty -> "-" | FBad -> "bad" in
    Printf.sprintf "createcc %s fins=%s v4=%s v6=%s hb=%s sel=%s %s" (string_of_str o.o_name) (fins_tok o.o_fins)
      (ftok o.o_v4) (ftok o.o_v6) (string_of_int (int_of_z o.o_hb)) (if o.o_selkey = Some default_key then "-" else "set")
      (match out with UOk -> "ok" | UFail -> "fail" | UAppliedErr -> "aerr")

let pool_tok (p : pool option) : string =
  match p with
  | None -> "-"
  | Some p ->
    Printf.sprintf "%s/%s/%s/%s" (dec_of_n p.pmax) (dec_of_n p.cnt) (dec_of_n p.cur)
      (String.concat "+" (List.sort compare (List.map canon_cidr p.used)))

let snap_tok (w : world) : string =
  match w.w_ctl with
  | None -> "none"
  | Some m ->
    let ents = List.concat (List.map (fun (k, l) -> List.mapi (fun i c -> (string_of_str k, i, c)) l) m) in
    let ents = List.sort (fun (k1, i1, _) (k2, i2, _) -> compare (k1, i1) (k2, i2)) ents in
    join_or (List.map (fun (k, i, c) ->
        Printf.sprintf "%s#%d:%s:t%d:a=%s:v4=%s:v6=%s" (hex_of_string k) i (string_of_str c.cc_name)
          (if c.cc_term then 1 else 0)
          (join_or (List.sort compare (List.map string_of_str c.cc_assoc)) "+" "-")
          (pool_tok c.cc_v4) (pool_tok c.cc_v6)) ents) ";" "empty"

let qtok (l : n list list) = join_or (List.map string_of_str l) "," "-"
let queue_tok (w : world) =
  Printf.sprintf "%s/%s/%s/%s" (qtok w.w_nq.q_ready) (qtok w.w_nq.q_retry) (qtok w.w_cq.q_ready) (qtok w.w_cq.q_retry)

let labels_tok (ls : (n list * n list) list) : string =
  String.concat "+" (List.sort compare (List.map (fun (k, v) -> string_of_str k ^ "=" ^ string_of_str v) ls))
let node_tok name cidrs deleting ls =
  Printf.sprintf "%s:%s:d%d:L%s" (string_of_str name) (cidrs_tok cidrs) (if deleting then 1 else 0) (labels_tok ls)
let cc_tok (o : ccobj) = Printf.sprintf "%s:%s:d%d:rv%s" (string_of_str o.o_name) (fins_tok o.o_fins) (if o.o_deleting then 1 else 0) (dec_of_n o.o_rv)

let api_tok (w : world) =
  join_or (List.map (fun a -> node_tok a.an_name a.an_cidrs a.an_deleting a.an_labels) w.w_nodes) ";" "-" ^ "^" ^
  join_or (List.map cc_tok w.w_ccs) ";" "-"

let cache_tok (w : world) =
  join_or (List.sort compare (List.map (fun n -> node_tok n.n_name n.n_cidrs n.n_deleting n.n_labels) w.w_ncache)) ";" "-" ^ "^" ^
  join_or (List.sort compare (List.map cc_tok w.w_ccache)) ";" "-" ^
  Printf.sprintf "^%d^%d" (List.length w.w_nfeed) (List.length w.w_cfeed)

let run (ic : in_channel) (oc : out_channel) : unit =
  load_oracles (Sys.argv.(2) ^ ".orc");
  let w = ref init_world in
  (try while true do
       let line = String.trim (input_line ic) in
       if line = "" || line.[0] = '#' then () else
       match fields line with
       | ["case"; id] -> w := init_world; Printf.fprintf oc "case %s\n" id
       | ["om"; ls; occ] ->
         let rest = Printf.sprintf "rq=0 | snap=%s | q=%s | api=%s | cache=%s | hash=same" (snap_tok !w) (queue_tok !w) (api_tok !w) (cache_tok !w) in
         (match !w.w_ctl with
          | None -> Printf.fprintf oc "res=0 | fx=- | %s\n" rest
          | Some m ->
            (match ordered_matching po lab m (labels_of_tok ls) (occ = "1") with
             | Ok ps ->
               let names = List.map (fun p -> match get_entry m p with Some c -> string_of_str c.cc_name | None -> "?") ps in
               Printf.fprintf oc "res=1 | fx=order %s | %s\n" (join_or names "," "-") rest
             | _ -> Printf.fprintf oc "res=2 | fx=order ERR | %s\n" rest))
       | f ->
         (match op_of_line f with
          | None -> Printf.fprintf oc "res=0 | fx=BADOP %s | rq=0 | snap=%s | q=%s | api=%s | cache=%s | hash=same\n"
                      (List.hd f) (snap_tok !w) (queue_tok !w) (api_tok !w) (cache_tok !w)
          | Some o ->
            let (w', ob) = step po lab !w o in
            w := w';
            Printf.fprintf oc "res=%s | fx=%s | rq=%s | snap=%s | q=%s | api=%s | cache=%s | hash=same\n"
              (dec_of_n ob.ob_res) (join_or (List.map effect_tok ob.ob_fx) ";" "-") (if ob.ob_requeued then "1" else "0")
              (snap_tok w') (queue_tok w') (api_tok w') (cache_tok w'))
     done with End_of_file -> ())

let () = Modes.table := ("sys", run) :: !Modes.table
