(* pooldrv.ml -- runs geometry / pool scripts on the extracted model; prints the same
   observation lines as harness/cmd/drive/pool.go *)
open Model
open Conv

let snap_line (p : pool) : string =
  let keys = List.sort compare (List.map canon_cidr p.used) in
  Printf.sprintf "snap %s %s [%s]" (dec_of_n p.cnt) (dec_of_n p.cur) (String.concat "," keys)

let met_line (p : pool) : string =
  let usage = match p.m_usage with
    | None -> "-"
    | Some (num, den) -> if den = N0 then "nan" else dec_of_n num in
  Printf.sprintf "met %s %s %s %s"
    (if p.m_alloc = N0 then "-" else dec_of_n p.m_alloc)
    (if p.m_rel = N0 then "-" else dec_of_n p.m_rel)
    usage (dec_of_n p.m_max)

let run (ic : in_channel) (oc : out_channel) : unit =
  let pools : (string, pool) Hashtbl.t = Hashtbl.create 16 in
  let with_metrics = ref false in
  let pr fmt = Printf.fprintf oc fmt in
  let tail p = if !with_metrics then Printf.sprintf "%s ; %s" (snap_line p) (met_line p) else snap_line p in
  (try
    while true do
      let line = String.trim (input_line ic) in
      if line = "" || line.[0] = '#' then () else
      match fields line with
      | ["case"; id] -> Hashtbl.reset pools; pr "case %s\n" id
      | ["metrics"; v] -> with_metrics := (v = "on"); pr "metrics %s\n" v
      | ["pool"; id; fam; base; clen; hb] ->
        (match new_pool (fam_of_string fam) (n_of_hex base) (n_of_int (int_of_string clen)) (z_of_int (int_of_string hb)) with
         | NewErr -> pr "new err\n"
         | NewOk p -> Hashtbl.replace pools id p;
           pr "new ok %s %s %s\n" (dec_of_n p.pmax) (dec_of_n p.pg.gnlen) (dec_of_n p.pg.gclen))
      | ["blk"; id; i] ->
        (match Hashtbl.find_opt pools id with
         | None -> pr "nopool\n"
         | Some p -> pr "blk %s\n" (canon_cidr (go_index_to_block p.pg (n_of_int (int_of_string i)))))
      | ["idx"; id; _fam; a] ->
        (match Hashtbl.find_opt pools id with
         | None -> pr "nopool\n"
         | Some p ->
           (match go_get_index p.pg (n_of_hex a) with
            | None -> pr "idx err\n"
            | Some i -> pr "idx %s\n" (dec_of_n i)))
      | ["range"; id; fam; a; l] ->
        (match Hashtbl.find_opt pools id with
         | None -> pr "nopool\n"
         | Some p ->
           (match go_begin_end p.pg (mk_cidr fam a l) with
            | None -> pr "range err\n"
            | Some (b, e) -> pr "range %s %s\n" (dec_of_n b) (dec_of_n e)))
      | [("occ" | "rel") as op; id; fam; a; l] ->
        (match Hashtbl.find_opt pools id with
         | None -> pr "nopool\n"
         | Some p ->
           let c = mk_cidr fam a l in
           (match (if op = "occ" then occupy p c else release p c) with
            | None -> pr "%s err ; %s\n" op (tail p)
            | Some p' -> Hashtbl.replace pools id p'; pr "%s ok ; %s\n" op (tail p')))
      | ["next"; id] ->
        (match Hashtbl.find_opt pools id with
         | None -> pr "nopool\n"
         | Some p ->
           (match next_candidate p with
            | Exhausted ev -> pr "next exhausted %s ; %s\n" (dec_of_n ev) (tail p)
            | Cand (blk, sk, p') -> Hashtbl.replace pools id p';
              pr "next cand %s %s ; %s\n" (canon_cidr blk) (dec_of_n sk) (tail p')))
      | ["endpoint"; id] ->
        (match Hashtbl.find_opt pools id with
         | None -> pr "nopool\n"
         | Some _ -> pr "endpoint ok\n")
      | op :: _ -> pr "badcase unknown op %s\n" op
      | [] -> ()
    done
  with End_of_file -> ())
