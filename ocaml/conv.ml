(* conv.ml -- conversions between text and the extracted Coq number types (trusted, hand-written) *)
open Model

let rec pos_of_bits (bits : bool list) : positive option =
  (* bits: most significant first *)
  let rec go acc = function
    | [] -> acc
    | b :: tl ->
      let acc' = match acc with
        | None -> if b then Some XH else None
        | Some p -> Some (if b then XI p else XO p) in
      go acc' tl in
  go None bits

let n_of_hex (s : string) : n =
  let bits = ref [] in
  String.iter (fun ch ->
      let v = match ch with
        | '0'..'9' -> Char.code ch - 48
        | 'a'..'f' -> Char.code ch - 87
        | 'A'..'F' -> Char.code ch - 55
        | _ -> failwith ("bad hex " ^ s) in
      bits := !bits @ [v land 8 <> 0; v land 4 <> 0; v land 2 <> 0; v land 1 <> 0]) s;
  match pos_of_bits !bits with None -> N0 | Some p -> Npos p

let n_of_int (i : int) : n =
  if i < 0 then failwith "n_of_int negative" else
  let rec bits i acc = if i = 0 then acc else bits (i lsr 1) ((i land 1 = 1) :: acc) in
  match pos_of_bits (bits i []) with None -> N0 | Some p -> Npos p

let z_of_int (i : int) : z =
  if i = 0 then Z0 else if i > 0 then (match n_of_int i with Npos p -> Zpos p | N0 -> Z0)
  else (match n_of_int (-i) with Npos p -> Zneg p | N0 -> Z0)

(* bits of a positive, least significant first *)
let rec pos_bits (p : positive) : bool list =
  match p with XH -> [true] | XO q -> false :: pos_bits q | XI q -> true :: pos_bits q

let n_bits (x : n) : bool list = match x with N0 -> [] | Npos p -> pos_bits p

(* decimal text of an N via arbitrary-precision string arithmetic on small numbers:
   we only print numbers below 2^62 in decimal, larger ones in hex *)
let int_of_n (x : n) : int =
  let bs = n_bits x in
  if List.length bs > 62 then failwith "int_of_n too large" else
  List.fold_right (fun b acc -> acc * 2 + (if b then 1 else 0)) bs 0

let int_of_z (x : z) : int =
  match x with Z0 -> 0 | Zpos p -> int_of_n (Npos p) | Zneg p -> - (int_of_n (Npos p))

let hex_of_n (width_bits : int) (x : n) : string =
  let bs = Array.of_list (n_bits x) in
  let nb = Array.length bs in
  let digits = max (width_bits / 4) ((nb + 3) / 4) in
  let buf = Bytes.make digits '0' in
  for d = 0 to digits - 1 do
    let v = ref 0 in
    for k = 3 downto 0 do
      let idx = d * 4 + k in
      v := !v * 2 + (if idx < nb && bs.(idx) then 1 else 0)
    done;
    Bytes.set buf (digits - 1 - d) "0123456789abcdef".[!v]
  done;
  Bytes.to_string buf

let dec_of_n (x : n) : string =
  let bs = n_bits x in
  if List.length bs <= 62 then string_of_int (int_of_n x) else "0x" ^ hex_of_n 0 x

let fam_of_string = function "v4" -> V4 | "v6" -> V6 | s -> failwith ("bad family " ^ s)
let string_of_fam = function V4 -> "v4" | V6 -> "v6"
let width_of_fam = function V4 -> 32 | V6 -> 128

let canon_cidr (c : cidr) : string =
  Printf.sprintf "%s:%s/%s" (string_of_fam c.cf) (hex_of_n (width_of_fam c.cf) c.ca) (dec_of_n c.cl)

let mk_cidr fam hexs len : cidr = { cf = fam_of_string fam; ca = n_of_hex hexs; cl = n_of_int (int_of_string len) }

(* "v4:0a000000/24" *)
let cidr_of_canon (s : string) : cidr =
  match String.split_on_char ':' s with
  | [f; rest] ->
    (match String.split_on_char '/' rest with
     | [h; l] -> mk_cidr f h l
     | _ -> failwith ("bad cidr " ^ s))
  | _ -> failwith ("bad cidr " ^ s)

let fields (line : string) : string list =
  List.filter (fun s -> s <> "") (String.split_on_char ' ' (String.trim line))
