(* driver.ml -- entry point of the model executor *)
let () =
  if Array.length Sys.argv < 3 then (prerr_endline "usage: mdrive <mode> <casefile> [outfile]"; exit 2);
  let ic = open_in Sys.argv.(2) in
  let oc = if Array.length Sys.argv > 3 then open_out Sys.argv.(3) else stdout in
  (match Sys.argv.(1) with
   | "pool" -> Pooldrv.run ic oc
   | m -> (match List.assoc_opt m !Modes.table with
       | Some f -> f ic oc
       | None -> prerr_endline ("unknown mode " ^ m); exit 2));
  close_out oc
