(* puredrv.ml -- prio / sel / valid modes on the extracted model *)
open Model
open Conv
open Sysdrv

let vcidr_tbl : (string, vfield) Hashtbl.t = Hashtbl.create 64
let load_pure_oracles (path : string) : unit =
  Hashtbl.reset vcidr_tbl;
  if Sys.file_exists path then begin
    let ic = open_in path in
    (try while true do
         match fields (input_line ic) with
         | ["vcidr"; tok; "empty"] -> Hashtbl.replace vcidr_tbl tok VEmpty
         | ["vcidr"; tok; "bad"] -> Hashtbl.replace vcidr_tbl tok VBad
         | ["vcidr"; tok; "cidr"; is4; ms] -> Hashtbl.replace vcidr_tbl tok (VCidr (is4 = "1", z_of_int (int_of_string ms)))
         | _ -> ()
       done with End_of_file -> ());
    close_in ic
  end

let rec int_of_nat = function O -> 0 | S n -> 1 + int_of_nat n

let hxs (s : string) : string = if s = "" then "-" else hex_of_string s
let unhxs (h : string) : string = if h = "-" then "" else unhex h
let pop_name = function
  | PIn -> "In" | PNotIn -> "NotIn" | PEq -> "Eq" | PDEq -> "DEq" | PNe -> "Ne" | PExists -> "Exists" | PDNE -> "DoesNotExist"
  | PGt -> "Gt" | PLt -> "Lt"

let pview_of_tok (tok : string) (hb : int) : pview option =
  if tok = "-" then None else
  let c = cidr_of_canon tok in
  match new_pool c.cf c.ca c.cl (z_of_int hb) with
  | NewOk p -> Some { pv_max = p.pmax; pv_nms = p.pg.gnlen; pv_label = lab c }
  | NewErr -> None

let item_of_fields (f : string list) : item =
  match f with
  | [cnt; sel; v4; v6; hb] ->
    { it_match = n_of_int (int_of_string cnt); it_sel = (if sel = "-" then [] else str_of_string (unhex sel));
      it_v4 = pview_of_tok v4 (int_of_string hb); it_v6 = pview_of_tok v6 (int_of_string hb) }
  | _ -> failwith "bad item"

(* the selector of a vspec line as the API object carries it (own parser of the case-file mini language); validation's
   view of it -- key validity, field key, bad values -- is computed by the model (ValidSel.v), not taken from the library *)
let rawsel_of_spec (s : string) : rawterm list option =
  if s = "-" then None else if s = "0" then Some [] else
  Some (List.map (fun t ->
      let reqs = List.filter (fun r -> r <> "") (String.split_on_char ';' t) in
      let reqs = if t = "-" then [] else reqs in
      let mk r =
        let isf = String.length r > 2 && String.sub r 0 2 = "F." in
        let r = if isf then String.sub r 2 (String.length r - 2) else r in
        let (k, op, vs) = match String.split_on_char ':' r with
          | [k; op; vs] -> (k, op, vs) | [k; op] -> (k, op, "") | [k] -> (k, "", "") | k :: op :: rest -> (k, op, String.concat ":" rest) | [] -> ("", "", "") in
        let vals = if vs = "" then [] else List.map (fun v -> if v = "EMPTY" then "" else v) (String.split_on_char '+' vs) in
        (isf, { rr_key = str_of_string k; rr_op = selop_of_string op; rr_vals = List.map str_of_string vals }) in
      let all = List.map mk reqs in
      { rt_exprs = List.map snd (List.filter (fun (f, _) -> not f) all); rt_fields = List.map snd (List.filter (fun (f, _) -> f) all) })
      (String.split_on_char '|' s))

let vspec_errors (f : string list) : int =
  match f with
  | [v4; v6; hb; sel] ->
    let fld t = match Hashtbl.find_opt vcidr_tbl t with Some v -> v | None -> VEmpty in
    int_of_nat (validate_spec_raw (rawsel_of_spec sel) (z_of_int (int_of_string hb)) (fld v4) (fld v6))
  | _ -> failwith "bad vspec"

let uspec_of_fields (f : string list) : uspec =
  match f with
  | [v4; v6; hb; sel] ->
    { us_sel = nodesel_of_spec sel; us_hb = z_of_int (int_of_string hb);
      us_v4 = (if v4 = "-" then [] else str_of_string v4); us_v6 = (if v6 = "-" then [] else str_of_string v6) }
  | _ -> failwith "bad uspec"

let rec take n l = if n = 0 then [] else match l with [] -> [] | x :: t -> x :: take (n - 1) t
let rec drop n l = if n = 0 then l else match l with [] -> [] | _ :: t -> drop (n - 1) t

let run (ic : in_channel) (oc : out_channel) : unit =
  load_oracles (Sys.argv.(2) ^ ".orc");
  load_pure_oracles (Sys.argv.(2) ^ ".orc");
  (try while true do
       let line = String.trim (input_line ic) in
       if line = "" || line.[0] = '#' then () else
       match fields line with
       | ["case"; id] -> Printf.fprintf oc "case %s\n" id
       | "less" :: rest when List.length rest = 11 ->
         let a = item_of_fields (take 5 rest) and b = item_of_fields (drop 6 rest) in
         Printf.fprintf oc "less %d\n" (if less a b then 1 else 0)
       | ["selkey"; spec] ->
         (* the model's own nodeSelectorKey: NewRequirement per requirement, print, one parse of the printed form *)
         (match selector_key (reqs_of_spec spec) with
          | Some k -> Printf.fprintf oc "key %s\n" (hxs (string_of_str k))
          | None -> Printf.fprintf oc "key fail\n")
       | ["match"; spec; ls] ->
         (match selector_key (reqs_of_spec spec) with
          | Some _ ->
            (* the model evaluates the selector's OWN requirements (no print / parse round trip) *)
            let (ok, cnt) = match_reqs (labels_of_tok ls) (reqs_of_spec spec) in
            Printf.fprintf oc "match %d %s\n" (if ok then 1 else 0) (dec_of_n cnt)
          | None -> Printf.fprintf oc "match keyfail\n")
       | ["parse"; h] ->
         (match parse (str_of_string (unhxs h)) with
          | None -> Printf.fprintf oc "parse fail\n"
          | Some [] -> Printf.fprintf oc "parse ok -\n"
          | Some ps ->
            Printf.fprintf oc "parse ok %s\n"
              (String.concat ";" (List.map (fun p ->
                   Printf.sprintf "%s:%s:%s" (hxs (string_of_str p.pkey)) (pop_name p.pop_)
                     (String.concat "+" (List.map (fun v -> hxs (string_of_str v)) p.pvals))) ps)))
       | ["mkey"; h; ls] ->
         (match match_key (labels_of_tok ls) (str_of_string (unhxs h)) with
          | None -> Printf.fprintf oc "mkey err\n"
          | Some (ok, cnt) -> Printf.fprintf oc "mkey %d %s\n" (if ok then 1 else 0) (dec_of_n cnt))
       | "vspec" :: rest when List.length rest = 4 ->
         Printf.fprintf oc "errs %d\n" (vspec_errors rest)
       | "vupd" :: rest when List.length rest = 9 ->
         Printf.fprintf oc "errs %d\n" (int_of_nat (validate_update (uspec_of_fields (take 4 rest)) (uspec_of_fields (drop 5 rest))))
       | _ -> Printf.fprintf oc "badcase\n"
     done with End_of_file -> ())

let () = Modes.table := ("prio", run) :: ("sel", run) :: ("valid", run) :: !Modes.table
