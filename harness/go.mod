module verif/harness

go 1.21

require (
	github.com/prometheus/client_golang v1.20.5
	github.com/prometheus/client_model v0.6.1
	k8s.io/utils v0.0.0-20230726121419-3b25d923346b
	sigs.k8s.io/node-ipam-controller v0.0.0
)

require (
	github.com/beorn7/perks v1.0.1 // indirect
	github.com/cespare/xxhash/v2 v2.3.0 // indirect
	github.com/go-logr/logr v1.3.0 // indirect
	github.com/klauspost/compress v1.17.9 // indirect
	github.com/munnerz/goautoneg v0.0.0-20191010083416-a7dc8b61c822 // indirect
	github.com/prometheus/common v0.55.0 // indirect
	github.com/prometheus/procfs v0.15.1 // indirect
	golang.org/x/sys v0.22.0 // indirect
	google.golang.org/protobuf v1.34.2 // indirect
	k8s.io/apimachinery v0.28.3 // indirect
	k8s.io/klog/v2 v2.110.1 // indirect
)

replace sigs.k8s.io/node-ipam-controller => /repo

replace github.com/prometheus/common => github.com/prometheus/common v0.56.0
