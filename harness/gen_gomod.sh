#!/bin/sh
# Generates go.mod / go.sum of the harness module from /repo's own (replace directives only
# apply in the main module, so they are repeated here).  Run before every build.
set -e
cd "$(dirname "$0")"
REPO=${VERIF_REPO:-/repo}
{
  echo "module verif/harness"
  echo
  echo "go 1.21"
  echo
  echo "require sigs.k8s.io/node-ipam-controller v0.0.0"
  echo
  echo "replace sigs.k8s.io/node-ipam-controller => $REPO"
  # single-line replace directives
  grep -E '^replace[[:space:]]+[^(]' "$REPO/go.mod" || true
  # replace blocks
  awk '/^replace[[:space:]]*\(/{f=1;print;next} f{print} f&&/^\)/{f=0}' "$REPO/go.mod"
} > go.mod
cp "$REPO/go.sum" go.sum
