package main

// annotate: library answers the model consumes as oracles (it never parses or prints text itself):
//   label  <cidr token> <hex of net.IPNet.String()>
//   selkey <selector spec> <hex of the map key> | fail         (the repo's nodeSelectorKey)
//   parse  <hex key> ok <requirements> | fail                  (labels.Parse on a map key)
//   cidr   <x:hex token> <canonical token> <canon 0|1> | bad   (netutils.ParseCIDRSloppy)

import (
	"bufio"
	"encoding/hex"
	"flag"
	"fmt"
	"sort"
	"strings"

	metav1 "k8s.io/apimachinery/pkg/apis/meta/v1"
	"k8s.io/apimachinery/pkg/labels"
	"k8s.io/apimachinery/pkg/selection"
	"k8s.io/klog/v2"
	netutils "k8s.io/utils/net"

	v1 "sigs.k8s.io/node-ipam-controller/pkg/apis/clustercidr/v1"
	"sigs.k8s.io/node-ipam-controller/pkg/controller/ipam"
)

func init() {
	modes["annotate"] = runAnnotate
	fs := flag.NewFlagSet("klog", flag.ContinueOnError)
	klog.InitFlags(fs)
	_ = fs.Set("logtostderr", "false")
	_ = fs.Set("alsologtostderr", "false")
	_ = fs.Set("stderrthreshold", "FATAL")
}

func hx(s string) string {
	if s == "" {
		return "-"
	}
	return hex.EncodeToString([]byte(s))
}

var selOpNames = map[selection.Operator]string{
	selection.In: "In", selection.NotIn: "NotIn", selection.Exists: "Exists", selection.DoesNotExist: "DoesNotExist",
	selection.GreaterThan: "Gt", selection.LessThan: "Lt", selection.Equals: "In", selection.DoubleEquals: "In", selection.NotEquals: "NotIn",
}

func reqsTok(key string) string {
	sel, err := labels.Parse(key)
	if err != nil {
		return "fail"
	}
	reqs, selectable := sel.Requirements()
	if !selectable {
		return "fail"
	}
	var parts []string
	for _, r := range reqs {
		vals := r.Values().List() // sorted
		hv := make([]string, len(vals))
		for i, v := range vals {
			hv[i] = hx(v)
		}
		parts = append(parts, fmt.Sprintf("%s:%s:%s", hx(r.Key()), selOpNames[r.Operator()], strings.Join(hv, "+")))
	}
	if len(parts) == 0 {
		return "ok -"
	}
	return "ok " + strings.Join(parts, ";")
}

var selOpNamesExact = map[selection.Operator]string{
	selection.In: "In", selection.NotIn: "NotIn", selection.Exists: "Exists", selection.DoesNotExist: "DoesNotExist",
	selection.GreaterThan: "Gt", selection.LessThan: "Lt", selection.Equals: "Eq", selection.DoubleEquals: "DEq", selection.NotEquals: "Ne",
}

func unhx(s string) string {
	if s == "-" {
		return ""
	}
	b, err := hex.DecodeString(s)
	if err != nil {
		panic(err)
	}
	return string(b)
}

// reqsTokExact is labels.Parse with the operators as parsed ('=', '==' and '!=' kept apart), in the order Parse returns.
func reqsTokExact(s string) string {
	sel, err := labels.Parse(s)
	if err != nil {
		return "fail"
	}
	reqs, selectable := sel.Requirements()
	if !selectable {
		return "fail"
	}
	var parts []string
	for _, r := range reqs {
		vals := r.Values().List()
		hv := make([]string, len(vals))
		for i, v := range vals {
			hv[i] = hx(v)
		}
		parts = append(parts, fmt.Sprintf("%s:%s:%s", hx(r.Key()), selOpNamesExact[r.Operator()], strings.Join(hv, "+")))
	}
	if len(parts) == 0 {
		return "ok -"
	}
	return "ok " + strings.Join(parts, ";")
}

func runAnnotate(sc *bufio.Scanner, out *bufio.Writer) {
	labelsSeen := map[string]bool{}
	sels := map[string]bool{}
	keys := map[string]bool{}
	xs := map[string]bool{}
	vcidrs := map[string]bool{}
	vsels := map[string]bool{}
	noteTok := func(tok string) {
		if strings.HasPrefix(tok, "x:") {
			xs[tok] = true
		}
	}
	for sc.Scan() {
		f := strings.Fields(strings.TrimSpace(sc.Text()))
		if len(f) == 0 {
			continue
		}
		switch f[0] {
		case "cc+":
			for _, t := range []string{f[2], f[3]} {
				if t != "-" {
					labelsSeen[t] = true
					noteTok(t)
				}
			}
			sels[f[5]] = true
		case "n+":
			for _, t := range splitList(f[3], ",") {
				noteTok(t)
			}
		case "selkey", "match": // sel-mode cases
			sels[f[1]] = true
		case "less":
			for _, i := range []int{3, 4, 9, 10} {
				if i < len(f) && f[i] != "-" {
					labelsSeen[f[i]] = true
				}
			}
		case "vspec", "vupd":
			for _, i := range []int{1, 2, 6, 7} {
				if i < len(f) && f[i] != "|" {
					vcidrs[f[i]] = true
				}
			}
			for _, i := range []int{4, 9} {
				if i < len(f) {
					vsels[f[i]] = true
				}
			}
		}
	}
	for t := range vcidrs {
		fmt.Fprintf(out, "vcidr %s %s\n", t, vcidrTok(t))
	}
	for t := range vsels {
		fmt.Fprintf(out, "vsel %s %s\n", t, vselTok(t))
	}
	sels["-"] = true
	var sl []string
	for s := range sels {
		sl = append(sl, s)
	}
	sort.Strings(sl)
	for _, s := range sl {
		cc := &v1.ClusterCIDR{ObjectMeta: metav1.ObjectMeta{Name: "x"}, Spec: v1.ClusterCIDRSpec{NodeSelector: parseSelSpec(s)}}
		k, err := ipam.VerifNodeSelectorKey(cc)
		if err != nil {
			fmt.Fprintf(out, "selkey %s fail\n", s)
			continue
		}
		fmt.Fprintf(out, "selkey %s %s\n", s, hx(k))
		keys[k] = true
	}
	var kl []string
	for k := range keys {
		kl = append(kl, k)
	}
	sort.Strings(kl)
	for _, k := range kl {
		fmt.Fprintf(out, "parse %s %s\n", hx(k), reqsTok(k))
	}
	var xl []string
	for x := range xs {
		xl = append(xl, x)
	}
	sort.Strings(xl)
	for _, x := range xl {
		txt := tokText(x)
		_, n, err := netutils.ParseCIDRSloppy(txt)
		if err != nil {
			fmt.Fprintf(out, "cidr %s bad\n", x)
			continue
		}
		c := 0
		if n.String() == txt {
			c = 1
		}
		fmt.Fprintf(out, "cidr %s %s %d\n", x, canonNet(n), c)
		labelsSeen[canonNet(n)] = true
	}
	var ll []string
	for l := range labelsSeen {
		ll = append(ll, l)
	}
	sort.Strings(ll)
	for _, l := range ll {
		if strings.HasPrefix(l, "x:") || strings.HasPrefix(l, "raw:") {
			continue
		}
		p := strings.SplitN(l, ":", 2)
		q := strings.SplitN(p[1], "/", 2)
		n, err := mkNet(p[0], q[0], q[1])
		if err != nil {
			continue
		}
		fmt.Fprintf(out, "label %s %s\n", l, hx(n.String()))
	}
}
