package main

// Pure-function modes: prio (PriorityQueue.Less), sel (nodeSelectorKey + matchCIDRLabels), valid (validation).

import (
	"bufio"
	"fmt"
	"strconv"
	"strings"

	corev1 "k8s.io/api/core/v1"
	metav1 "k8s.io/apimachinery/pkg/apis/meta/v1"
	apimachineryvalidation "k8s.io/apimachinery/pkg/api/validation"
	unversionedvalidation "k8s.io/apimachinery/pkg/apis/meta/v1/validation"
	"k8s.io/apimachinery/pkg/util/validation/field"
	netutils "k8s.io/utils/net"

	v1 "sigs.k8s.io/node-ipam-controller/pkg/apis/clustercidr/v1"
	"sigs.k8s.io/node-ipam-controller/pkg/apis/clustercidr/v1/validation"
	"sigs.k8s.io/node-ipam-controller/pkg/controller/ipam"
	cidrset "sigs.k8s.io/node-ipam-controller/pkg/controller/ipam/multicidrset"
)

func init() {
	modes["prio"] = runPrio
	modes["sel"] = runSel
	modes["valid"] = runValid
}

func mkSet(tok string, hb int) (*cidrset.MultiCIDRSet, error) {
	if tok == "-" {
		return nil, nil
	}
	p := strings.SplitN(tok, ":", 2)
	q := strings.SplitN(p[1], "/", 2)
	n, err := mkNet(p[0], q[0], q[1])
	if err != nil {
		return nil, err
	}
	return cidrset.NewMultiCIDRSet(n, hb)
}

// item: <cnt> <selhex> <v4tok|-> <v6tok|-> <hb>
func mkItem(f []string) (*cidrset.ClusterCIDR, int, string, error) {
	cnt, _ := strconv.Atoi(f[0])
	hb, _ := strconv.Atoi(f[4])
	s4, err := mkSet(f[2], hb)
	if err != nil {
		return nil, 0, "", err
	}
	s6, err := mkSet(f[3], hb)
	if err != nil {
		return nil, 0, "", err
	}
	sel := ""
	if f[1] != "-" {
		b, _ := hexDecode(f[1])
		sel = string(b)
	}
	return &cidrset.ClusterCIDR{Name: "x", IPv4CIDRSet: s4, IPv6CIDRSet: s6, AssociatedNodes: map[string]bool{}}, cnt, sel, nil
}

func hexDecode(s string) ([]byte, error) {
	out := make([]byte, len(s)/2)
	for i := 0; i+1 < len(s); i += 2 {
		v, err := strconv.ParseUint(s[i:i+2], 16, 8)
		if err != nil {
			return nil, err
		}
		out[i/2] = byte(v)
	}
	return out, nil
}

func runPrio(sc *bufio.Scanner, out *bufio.Writer) {
	for sc.Scan() {
		line := strings.TrimSpace(sc.Text())
		if line == "" || strings.HasPrefix(line, "#") {
			continue
		}
		f := strings.Fields(line)
		if f[0] == "case" {
			fmt.Fprintf(out, "case %s\n", f[1])
			continue
		}
		func() {
			defer func() {
				if r := recover(); r != nil {
					fmt.Fprintf(out, "PANIC\n")
				}
			}()
			if f[0] != "less" || len(f) != 12 {
				fmt.Fprintf(out, "badcase\n")
				return
			}
			a, ca, sa, err1 := mkItem(f[1:6])
			b, cb, sb, err2 := mkItem(f[7:12])
			if err1 != nil || err2 != nil {
				fmt.Fprintf(out, "badcase pool\n")
				return
			}
			r := 0
			if ipam.VerifLess(a, b, ca, cb, sa, sb) {
				r = 1
			}
			fmt.Fprintf(out, "less %d\n", r)
		}()
	}
}

func runSel(sc *bufio.Scanner, out *bufio.Writer) {
	for sc.Scan() {
		line := strings.TrimSpace(sc.Text())
		if line == "" || strings.HasPrefix(line, "#") {
			continue
		}
		f := strings.Fields(line)
		if f[0] == "case" {
			fmt.Fprintf(out, "case %s\n", f[1])
			continue
		}
		func() {
			defer func() {
				if r := recover(); r != nil {
					fmt.Fprintf(out, "PANIC\n")
				}
			}()
			switch f[0] {
			case "selkey":
				cc := &v1.ClusterCIDR{ObjectMeta: metav1.ObjectMeta{Name: "x"}, Spec: v1.ClusterCIDRSpec{NodeSelector: parseSelSpec(f[1])}}
				k, err := ipam.VerifNodeSelectorKey(cc)
				if err != nil {
					fmt.Fprintf(out, "key fail\n")
					return
				}
				fmt.Fprintf(out, "key %s\n", hx(k))
			case "match": // match <selspec> <labels>
				cc := &v1.ClusterCIDR{ObjectMeta: metav1.ObjectMeta{Name: "x"}, Spec: v1.ClusterCIDRSpec{NodeSelector: parseSelSpec(f[1])}}
				k, err := ipam.VerifNodeSelectorKey(cc)
				if err != nil {
					fmt.Fprintf(out, "match keyfail\n")
					return
				}
				node := &corev1.Node{ObjectMeta: metav1.ObjectMeta{Name: "n", Labels: parseLabels(f[2])}}
				ok, cnt, err := ipam.VerifMatchCIDRLabels(node, k)
				if err != nil {
					fmt.Fprintf(out, "match err\n")
					return
				}
				b := 0
				if ok {
					b = 1
				}
				fmt.Fprintf(out, "match %d %d\n", b, cnt)
			case "parse": // parse <hex of an arbitrary string>: labels.Parse itself
				fmt.Fprintf(out, "parse %s\n", reqsTokExact(unhx(f[1])))
			case "mkey": // mkey <hex of an arbitrary map key> <labels>: matchCIDRLabels on that key
				node := &corev1.Node{ObjectMeta: metav1.ObjectMeta{Name: "n", Labels: parseLabels(f[2])}}
				ok, cnt, err := ipam.VerifMatchCIDRLabels(node, unhx(f[1]))
				if err != nil {
					fmt.Fprintf(out, "mkey err\n")
					return
				}
				b := 0
				if ok {
					b = 1
				}
				fmt.Fprintf(out, "mkey %d %d\n", b, cnt)
			default:
				fmt.Fprintf(out, "badcase\n")
			}
		}()
	}
}

func specOf(f []string) *v1.ClusterCIDRSpec {
	// <v4tok|-> <v6tok|-> <hb> <selspec>
	hb, _ := strconv.Atoi(f[2])
	s := &v1.ClusterCIDRSpec{PerNodeHostBits: int32(hb), NodeSelector: parseSelSpec(f[3])}
	if f[0] != "-" {
		s.IPv4 = tokText(f[0])
	}
	if f[1] != "-" {
		s.IPv6 = tokText(f[1])
	}
	return s
}

func runValid(sc *bufio.Scanner, out *bufio.Writer) {
	for sc.Scan() {
		line := strings.TrimSpace(sc.Text())
		if line == "" || strings.HasPrefix(line, "#") {
			continue
		}
		f := strings.Fields(line)
		if f[0] == "case" {
			fmt.Fprintf(out, "case %s\n", f[1])
			continue
		}
		func() {
			defer func() {
				if r := recover(); r != nil {
					fmt.Fprintf(out, "PANIC\n")
				}
			}()
			switch f[0] {
			case "vspec":
				errs := validation.ValidateClusterCIDRSpec(specOf(f[1:5]), field.NewPath("spec"))
				fmt.Fprintf(out, "errs %d\n", len(errs))
			case "vupd": // vupd <4 fields> | <4 fields>
				u := &v1.ClusterCIDR{ObjectMeta: metav1.ObjectMeta{Name: "x", ResourceVersion: "1"}, Spec: *specOf(f[1:5])}
				o := &v1.ClusterCIDR{ObjectMeta: metav1.ObjectMeta{Name: "x", ResourceVersion: "1"}, Spec: *specOf(f[6:10])}
				errs := validation.ValidateClusterCIDRUpdate(u, o)
				fmt.Fprintf(out, "errs %d\n", len(errs))
			default:
				fmt.Fprintf(out, "badcase\n")
			}
		}()
	}
}

// ---- oracles for the validation model (library answers)
func vcidrTok(tok string) string {
	if tok == "-" {
		return "empty"
	}
	txt := tokText(tok)
	if txt == "" {
		return "empty"
	}
	ip, n, err := netutils.ParseCIDRSloppy(txt)
	if err != nil {
		return "bad"
	}
	ones, _ := n.Mask.Size()
	is4 := 0
	if netutils.IsIPv4(ip) {
		is4 = 1
	}
	return fmt.Sprintf("cidr %d %d", is4, ones)
}

func vselTok(spec string) string {
	ns := parseSelSpec(spec)
	if ns == nil {
		return "nil"
	}
	var terms []string
	for _, t := range ns.NodeSelectorTerms {
		var parts []string
		for _, r := range t.MatchExpressions {
			keyok := 0
			if len(unversionedvalidation.ValidateLabelName(r.Key, field.NewPath("key"))) == 0 {
				keyok = 1
			}
			parts = append(parts, fmt.Sprintf("E,%s,%d,%d", opTok(r.Operator), len(r.Values), keyok))
		}
		for _, r := range t.MatchFields {
			isName := 0
			if r.Key == metav1.ObjectNameField {
				isName = 1
			}
			bad := 0
			for _, v := range r.Values {
				bad += len(apimachineryvalidation.NameIsDNSSubdomain(v, false))
			}
			parts = append(parts, fmt.Sprintf("F,%s,%d,%d,%d", opTok(r.Operator), len(r.Values), isName, bad))
		}
		if len(parts) == 0 {
			terms = append(terms, "-")
		} else {
			terms = append(terms, strings.Join(parts, ";"))
		}
	}
	if len(terms) == 0 {
		return "terms"
	}
	return "terms " + strings.Join(terms, "|")
}

func opTok(op corev1.NodeSelectorOperator) string {
	switch op {
	case corev1.NodeSelectorOpIn, corev1.NodeSelectorOpNotIn, corev1.NodeSelectorOpExists, corev1.NodeSelectorOpDoesNotExist, corev1.NodeSelectorOpGt, corev1.NodeSelectorOpLt:
		return string(op)
	}
	return "Unknown"
}
