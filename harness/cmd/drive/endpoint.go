package main

import (
	"context"
	"fmt"
	"io"
	"math"
	"net"
	"net/http"
	"strconv"
	"strings"
	"time"

	cidrset "sigs.k8s.io/node-ipam-controller/pkg/controller/ipam/multicidrset"
	"sigs.k8s.io/node-ipam-controller/pkg/util/server"
)

var endpointAddr string

// endpointCheck starts the repository's web server on a loopback port (once), GETs /metrics and
// compares the four series of the pool with the values of the default gatherer.
func endpointCheck(s *cidrset.MultiCIDRSet) string {
	if endpointAddr == "" {
		l, err := net.Listen("tcp", "127.0.0.1:0")
		if err != nil {
			return "skipped loopback-unavailable"
		}
		endpointAddr = l.Addr().String()
		l.Close()
		server.StartWebServer(context.Background(), endpointAddr)
	}
	var body string
	var lastErr error
	for i := 0; i < 50; i++ {
		resp, err := http.Get("http://" + endpointAddr + "/metrics")
		if err != nil {
			lastErr = err
			time.Sleep(100 * time.Millisecond)
			continue
		}
		b, _ := io.ReadAll(resp.Body)
		resp.Body.Close()
		body = string(b)
		lastErr = nil
		break
	}
	if lastErr != nil {
		return "skipped server-not-reachable"
	}
	mv := gatherMetrics(s.Label)
	want := map[string]float64{}
	if mv.hasAlloc {
		want["node_ipam_controller_multicidrset_cidrs_allocations_total"] = mv.alloc
	}
	if mv.hasRel {
		want["node_ipam_controller_multicidrset_cidrs_releases_total"] = mv.rel
	}
	if mv.hasUsage {
		want["node_ipam_controller_multicidrset_usage_cidrs"] = mv.usage
	}
	if mv.hasMax {
		want["node_ipam_controller_multicirdset_max_cidrs"] = mv.max
	}
	sel := fmt.Sprintf("{clusterCIDR=%q}", s.Label)
	found := 0
	for _, line := range strings.Split(body, "\n") {
		for name, w := range want {
			if strings.HasPrefix(line, name+sel+" ") {
				v, err := strconv.ParseFloat(strings.TrimSpace(line[len(name+sel):]), 64)
				if err != nil || math.Abs(v-w) > 1e-9 {
					return fmt.Sprintf("mismatch %s served=%q gathered=%v", name, line, w)
				}
				found++
			}
		}
	}
	if found != len(want) || found < 3 {
		return fmt.Sprintf("mismatch served %d of %d series", found, len(want))
	}
	return "ok"
}
