package main

// race mode (C15 validation run, not a proof): the REAL Run() with its 30+30 workers, real shared
// informers and rate limited work queues over fake clientsets with watch support, driven by a
// seeded concurrent workload; meant to be built with -race.

import (
	"bufio"
	"context"
	"fmt"
	"math/rand"
	"strconv"
	"strings"
	"sync"
	"sync/atomic"
	"time"

	corev1 "k8s.io/api/core/v1"
	metav1 "k8s.io/apimachinery/pkg/apis/meta/v1"
	"k8s.io/client-go/informers"
	coreinformers "k8s.io/client-go/informers/core/v1"
	kubefake "k8s.io/client-go/kubernetes/fake"
	corelisters "k8s.io/client-go/listers/core/v1"

	v1 "sigs.k8s.io/node-ipam-controller/pkg/apis/clustercidr/v1"
	ccfake "sigs.k8s.io/node-ipam-controller/pkg/client/clientset/versioned/fake"
	ccinformers "sigs.k8s.io/node-ipam-controller/pkg/client/informers/externalversions"
	"sigs.k8s.io/node-ipam-controller/pkg/controller/ipam"
)

func init() { modes["race"] = runRace }

// slowNodeInformer hands the allocator a node lister whose Get, while [on] is set, pauses for a moment after it has found a
// node that holds pod CIDRs: delay injection.  A look-up made under the allocator lock only holds the lock a little longer;
// a look-up whose answer is acted upon later (check, then lock) gets a window in which a deletion can slip in.
type slowNodeInformer struct {
	coreinformers.NodeInformer
	on    *atomic.Bool
	delay time.Duration
}

type slowNodeLister struct {
	corelisters.NodeLister
	on    *atomic.Bool
	delay time.Duration
}

func (s slowNodeInformer) Lister() corelisters.NodeLister {
	return slowNodeLister{NodeLister: s.NodeInformer.Lister(), on: s.on, delay: s.delay}
}

func (l slowNodeLister) Get(name string) (*corev1.Node, error) {
	n, err := l.NodeLister.Get(name)
	if err == nil && l.on.Load() && len(n.Spec.PodCIDRs) > 0 {
		time.Sleep(l.delay)
	}
	return n, err
}

func runRace(sc *bufio.Scanner, out *bufio.Writer) {
	for sc.Scan() {
		f := strings.Fields(strings.TrimSpace(sc.Text()))
		if len(f) == 0 || strings.HasPrefix(f[0], "#") {
			continue
		}
		if f[0] == "case" {
			fmt.Fprintf(out, "case %s\n", f[1])
			continue
		}
		if (f[0] != "workload" && f[0] != "churn") || len(f) < 4 {
			fmt.Fprintf(out, "badcase\n")
			continue
		}
		seed, _ := strconv.Atoi(f[1])
		nNodes, _ := strconv.Atoi(f[2])
		nCC, _ := strconv.Atoi(f[3])
		fmt.Fprintln(out, oneWorkload(int64(seed), nNodes, nCC, f[0] == "churn"))
	}
}

// churn: after the nodes have been served, every node is updated and deleted at (almost) the same moment, by many clients at
// once: work items for nodes that hold pod CIDRs race with the deletion handler for the allocator lock (check-then-act windows).
func oneWorkload(seed int64, nNodes, nCC int, churn bool) string {
	rng := rand.New(rand.NewSource(seed))
	ctx, cancel := context.WithCancel(bgctx)
	defer cancel()
	kube := kubefake.NewSimpleClientset()
	net := ccfake.NewSimpleClientset()
	kf := informers.NewSharedInformerFactory(kube, 0)
	cf := ccinformers.NewSharedInformerFactory(net, 0)
	slow := &atomic.Bool{}
	overflow := &atomic.Bool{}
	var nodeInf coreinformers.NodeInformer = slowNodeInformer{NodeInformer: kf.Core().V1().Nodes(), on: slow, delay: 400 * time.Microsecond}
	ccInf := cf.Networking().V1().ClusterCIDRs()

	// ClusterCIDRs: disjoint /26.. ranges plus one overlapping pair, some with selectors
	ranges := []string{"10.0.0.0/25", "10.0.0.128/25", "10.0.1.0/26", "10.0.1.0/25", "10.0.2.0/27", "10.0.3.0/26"}
	sels := []map[string]string{nil, {"zone": "a"}, {"zone": "b"}, nil, {"zone": "a"}, {"zone": "b"}}
	for i := 0; i < nCC && i < len(ranges); i++ {
		cc := &v1.ClusterCIDR{ObjectMeta: metav1.ObjectMeta{Name: fmt.Sprintf("c%d", i), ResourceVersion: "1"}, Spec: v1.ClusterCIDRSpec{IPv4: ranges[i], PerNodeHostBits: 4}}
		if sels[i] != nil {
			for k, val := range sels[i] {
				cc.Spec.NodeSelector = &corev1.NodeSelector{NodeSelectorTerms: []corev1.NodeSelectorTerm{{MatchExpressions: []corev1.NodeSelectorRequirement{{Key: k, Operator: corev1.NodeSelectorOpIn, Values: []string{val}}}}}}
			}
		}
		if i%2 == 0 { // half exist before start-up, half are created while running
			_, _ = net.NetworkingV1().ClusterCIDRs().Create(ctx, cc, metav1.CreateOptions{})
		} else {
			defer func(c *v1.ClusterCIDR) {}(cc)
			go func(c *v1.ClusterCIDR, d time.Duration) {
				time.Sleep(d)
				_, _ = net.NetworkingV1().ClusterCIDRs().Create(ctx, c, metav1.CreateOptions{})
			}(cc, time.Duration(rng.Intn(300))*time.Millisecond)
		}
	}
	nl, _ := kube.CoreV1().Nodes().List(ctx, metav1.ListOptions{})
	alloc, err := ipam.VerifNew(ctx, kube, net.NetworkingV1().ClusterCIDRs(), nodeInf, ccInf, ipam.CIDRAllocatorParams{}, nl)
	if err != nil {
		return "workload construct-error " + err.Error()
	}
	kf.Start(ctx.Done())
	cf.Start(ctx.Done())
	go alloc.Allocator().Run(ctx)

	var wg sync.WaitGroup
	zones := []string{"a", "b", "c"}
	for g := 0; g < 4; g++ {
		wg.Add(1)
		go func(g int, r *rand.Rand) {
			defer wg.Done()
			for i := g; i < nNodes; i += 4 {
				n := &corev1.Node{ObjectMeta: metav1.ObjectMeta{Name: fmt.Sprintf("n%d", i), Labels: map[string]string{"zone": zones[r.Intn(3)]}}}
				_, _ = kube.CoreV1().Nodes().Create(ctx, n, metav1.CreateOptions{})
				time.Sleep(time.Duration(r.Intn(5)) * time.Millisecond)
				if r.Intn(5) == 0 {
					_ = kube.CoreV1().Nodes().Delete(ctx, n.Name, metav1.DeleteOptions{})
				}
			}
		}(g, rand.New(rand.NewSource(seed*7+int64(g))))
	}
	wg.Add(1)
	go func() { // a deletion request for a ClusterCIDR while nodes come and go
		defer wg.Done()
		time.Sleep(time.Duration(100+rng.Intn(200)) * time.Millisecond)
		c, err := net.NetworkingV1().ClusterCIDRs().Get(ctx, "c0", metav1.GetOptions{})
		if err == nil {
			now := metav1.Now()
			c.DeletionTimestamp = &now
			_, _ = net.NetworkingV1().ClusterCIDRs().Update(ctx, c, metav1.UpdateOptions{})
		}
	}()
	wg.Wait()
	if churn {
		time.Sleep(400 * time.Millisecond) // let the assignments happen
		slow.Store(true)
		nl2, _ := kube.CoreV1().Nodes().List(ctx, metav1.ListOptions{})
		var wg2 sync.WaitGroup
		// 6 clients, paced: the fake clientset's watch channel holds 100 undelivered events and panics beyond that, and the
		// deletion handler queues behind the allocator lock; an overflow (recovered) makes the workload inconclusive
		for g := 0; g < 6; g++ {
			wg2.Add(1)
			go func(g int) {
				defer wg2.Done()
				defer func() {
					if r := recover(); r != nil {
						overflow.Store(true)
					}
				}()
				for i := g; i < len(nl2.Items); i += 6 {
					n := nl2.Items[i].DeepCopy()
					cur, err := kube.CoreV1().Nodes().Get(ctx, n.Name, metav1.GetOptions{})
					if err != nil {
						continue
					}
					cur = cur.DeepCopy()
					if cur.Labels == nil {
						cur.Labels = map[string]string{}
					}
					cur.Labels["touched"] = "1"
					_, _ = kube.CoreV1().Nodes().Update(ctx, cur, metav1.UpdateOptions{})
					// long enough for a worker to pick the item up, short enough for it to be still waiting for the lock
					time.Sleep(time.Duration((seed*31+int64(i)*17)%1500) * time.Microsecond)
					_ = kube.CoreV1().Nodes().Delete(ctx, n.Name, metav1.DeleteOptions{})
					time.Sleep(3 * time.Millisecond)
				}
			}(g)
		}
		wg2.Wait()
		time.Sleep(300 * time.Millisecond)
		slow.Store(false)
	}
	// quiescence: the API state stops changing
	last, stable := "", 0
	deadline := time.Now().Add(20 * time.Second)
	for stable < 10 && time.Now().Before(deadline) {
		time.Sleep(100 * time.Millisecond)
		cur := raceAPI(ctx, kube, net)
		if cur == last {
			stable++
		} else {
			stable = 0
			last = cur
		}
	}
	if overflow.Load() {
		cancel()
		return "workload inconclusive: the fake clientset's watch channel overflowed"
	}
	snap := alloc.Snapshot()
	cancel()
	var parts []string
	for _, e := range snap {
		t := 0
		if e.Terminating {
			t = 1
		}
		parts = append(parts, fmt.Sprintf("%s:t%d:a=%s:v4=%s", e.Name, t, joinOr(e.Associated, "+", "-"), poolTok(e.V4)))
	}
	return fmt.Sprintf("workload done quiescent=%v | api=%s | snap=%s", stable >= 10, last, joinOr(parts, ";", "empty"))
}

func raceAPI(ctx context.Context, kube *kubefake.Clientset, net *ccfake.Clientset) string {
	nl, _ := kube.CoreV1().Nodes().List(ctx, metav1.ListOptions{})
	cl, _ := net.NetworkingV1().ClusterCIDRs().List(ctx, metav1.ListOptions{})
	var ns, cs []string
	for i := range nl.Items {
		n := &nl.Items[i]
		ns = append(ns, fmt.Sprintf("%s:%s:%s", n.Name, canonListB(n.Spec.PodCIDRs), n.Labels["zone"]))
	}
	for i := range cl.Items {
		c := &cl.Items[i]
		d := 0
		if c.DeletionTimestamp != nil {
			d = 1
		}
		cs = append(cs, fmt.Sprintf("%s:%s:d%d:%s", c.Name, finsTok(c.Finalizers), d, canonStr(c.Spec.IPv4)))
	}
	return joinOr(ns, ";", "-") + "^" + joinOr(cs, ";", "-")
}
