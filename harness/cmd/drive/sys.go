package main

// System histories: a small in-memory API server, fake informers that capture the handlers the
// real constructor registers, deterministic work queues, scripted outcomes for every API write,
// and the REAL allocator (constructor, handlers, syncNode, syncClusterCIDR, processNext*WorkItem).

import (
	"sync/atomic"
	"bufio"
	"context"
	"os"
	"encoding/hex"
	"encoding/json"
	"fmt"
	"io"
	"reflect"
	"sort"
	"strconv"
	"strings"
	"time"

	"github.com/go-logr/logr"
	corev1 "k8s.io/api/core/v1"
	apierrors "k8s.io/apimachinery/pkg/api/errors"
	metav1 "k8s.io/apimachinery/pkg/apis/meta/v1"
	"k8s.io/apimachinery/pkg/labels"
	"k8s.io/apimachinery/pkg/runtime"
	"k8s.io/apimachinery/pkg/runtime/schema"
	coreinformers "k8s.io/client-go/informers/core/v1"
	kubefake "k8s.io/client-go/kubernetes/fake"
	corelisters "k8s.io/client-go/listers/core/v1"
	k8stesting "k8s.io/client-go/testing"
	"k8s.io/client-go/tools/cache"
	"k8s.io/client-go/util/workqueue"
	"k8s.io/klog/v2"

	v1 "sigs.k8s.io/node-ipam-controller/pkg/apis/clustercidr/v1"
	ccfake "sigs.k8s.io/node-ipam-controller/pkg/client/clientset/versioned/fake"
	ccinformers "sigs.k8s.io/node-ipam-controller/pkg/client/informers/externalversions/clustercidr/v1"
	cclisters "sigs.k8s.io/node-ipam-controller/pkg/client/listers/clustercidr/v1"
	"sigs.k8s.io/node-ipam-controller/pkg/controller/ipam"
)

func init() {
	modes["sys"] = runSys
	klog.SetOutput(io.Discard)
	klog.LogToStderr(false)
}

const finalizerName = "networking.x-k8s.io/cluster-cidr-finalizer"
const restAnnotation = "verif/rest"

// ---------------------------------------------------------------- deterministic work queue
type detQueue struct {
	ready     []string
	retry     []string
	rlAdds    int // number of AddRateLimited calls (a failed item is re-queued through it)
}

func (q *detQueue) has(l []string, k string) bool {
	for _, x := range l {
		if x == k {
			return true
		}
	}
	return false
}
func (q *detQueue) Add(item interface{}) {
	k := item.(string)
	if !q.has(q.ready, k) {
		q.ready = append(q.ready, k)
	}
}
func (q *detQueue) Len() int { return len(q.ready) }
func (q *detQueue) Get() (interface{}, bool) {
	if len(q.ready) == 0 {
		panic("verif: Get on empty queue")
	}
	k := q.ready[0]
	q.ready = q.ready[1:]
	return k, false
}
func (q *detQueue) Done(item interface{})                          {}
func (q *detQueue) ShutDown()                                      {}
func (q *detQueue) ShutDownWithDrain()                             {}
func (q *detQueue) ShuttingDown() bool                             { return false }
func (q *detQueue) AddAfter(item interface{}, d time.Duration)     { q.AddRateLimited(item) }
func (q *detQueue) Forget(item interface{})                        {}
func (q *detQueue) NumRequeues(item interface{}) int               { return 0 }
func (q *detQueue) AddRateLimited(item interface{}) {
	q.rlAdds++
	k := item.(string)
	if !q.has(q.retry, k) {
		q.retry = append(q.retry, k)
	}
}
func (q *detQueue) tick() {
	r := q.retry
	q.retry = nil
	for _, k := range r {
		q.Add(k)
	}
}

var _ workqueue.RateLimitingInterface = &detQueue{}

// ---------------------------------------------------------------- fake informers
type fakeSharedInformer struct {
	cache.SharedIndexInformer // nil: only the methods below are used by the allocator
	indexer                   cache.Indexer
	handlers                  []cache.ResourceEventHandler
}

func (f *fakeSharedInformer) AddEventHandler(h cache.ResourceEventHandler) (cache.ResourceEventHandlerRegistration, error) {
	f.handlers = append(f.handlers, h)
	return nil, nil
}
func (f *fakeSharedInformer) HasSynced() bool          { return true }
func (f *fakeSharedInformer) GetStore() cache.Store     { return f.indexer }
func (f *fakeSharedInformer) GetIndexer() cache.Indexer { return f.indexer }

// nodeLister with a one-shot override used to replay a read made earlier (Fetch / Run split)
type overrideNodeLister struct {
	inner    corelisters.NodeLister
	override map[string]*corev1.Node // value nil = NotFound
	active   map[string]bool
}

func (l *overrideNodeLister) List(sel labels.Selector) ([]*corev1.Node, error) { return l.inner.List(sel) }
func (l *overrideNodeLister) Get(name string) (*corev1.Node, error) {
	if l.active[name] {
		delete(l.active, name)
		n := l.override[name]
		delete(l.override, name)
		if n == nil {
			return nil, apierrors.NewNotFound(schema.GroupResource{Resource: "nodes"}, name)
		}
		return n, nil
	}
	return l.inner.Get(name)
}

type overrideCCLister struct {
	inner    cclisters.ClusterCIDRLister
	override map[string]*v1.ClusterCIDR
	active   map[string]bool
	lastRead map[string]*v1.ClusterCIDR // deep copy of what Get last returned, per name
}

func (l *overrideCCLister) List(sel labels.Selector) ([]*v1.ClusterCIDR, error) { return l.inner.List(sel) }
func (l *overrideCCLister) Get(name string) (*v1.ClusterCIDR, error) {
	if l.active[name] {
		delete(l.active, name)
		n := l.override[name]
		delete(l.override, name)
		if n == nil {
			return nil, apierrors.NewNotFound(schema.GroupResource{Resource: "clustercidrs"}, name)
		}
		l.lastRead[name] = n.DeepCopy()
		return n, nil
	}
	c, err := l.inner.Get(name)
	if err == nil {
		l.lastRead[name] = c.DeepCopy()
	}
	return c, err
}

type fakeNodeInformer struct {
	inf    *fakeSharedInformer
	lister *overrideNodeLister
}

func (f *fakeNodeInformer) Informer() cache.SharedIndexInformer { return f.inf }
func (f *fakeNodeInformer) Lister() corelisters.NodeLister      { return f.lister }

type fakeCCInformer struct {
	inf    *fakeSharedInformer
	lister *overrideCCLister
}

func (f *fakeCCInformer) Informer() cache.SharedIndexInformer   { return f.inf }
func (f *fakeCCInformer) Lister() cclisters.ClusterCIDRLister    { return f.lister }

var _ coreinformers.NodeInformer = &fakeNodeInformer{}
var _ ccinformers.ClusterCIDRInformer = &fakeCCInformer{}

// ---------------------------------------------------------------- capturing recorder
type capRecorder struct{ w *sysWorld }

func (r *capRecorder) Event(object runtime.Object, eventtype, reason, message string) {
	r.w.recordEvent(object, reason)
}
func (r *capRecorder) Eventf(object runtime.Object, eventtype, reason, messageFmt string, args ...interface{}) {
	r.w.recordEvent(object, reason)
}
func (r *capRecorder) AnnotatedEventf(object runtime.Object, annotations map[string]string, eventtype, reason, messageFmt string, args ...interface{}) {
	r.w.recordEvent(object, reason)
}

// ---------------------------------------------------------------- the world
type nev struct {
	kind string // add upd del
	obj  *corev1.Node
}
type cev struct {
	kind string
	obj  *v1.ClusterCIDR
}

type sysWorld struct {
	nodes []*corev1.Node
	ccs   []*v1.ClusterCIDR
	rv    int
	nfeed []nev
	cfeed []cev

	nodeInf *fakeNodeInformer
	ccInf   *fakeCCInformer
	nq, cq  *detQueue
	ctl     *ipam.VerifAllocator
	synced  bool
	nfetch  map[string]fetchedNode
	cfetch  map[string]fetchedCC

	kube *kubefake.Clientset
	net  *ccfake.Clientset

	patchScript []string
	updScript   []string
	bootOut     map[string]string // during construction: outcome of the start-up write per object, by listing position (as in the model)
	effects     []string
	hashBad     []string // C20: cached objects found modified
	listed      map[string]*v1.ClusterCIDR // what the start-up listing returned
}

type fetchedNode struct {
	key string
	obj *corev1.Node
}
type fetchedCC struct {
	key string
	obj *v1.ClusterCIDR
}

func newSysWorld() *sysWorld {
	w := &sysWorld{rv: 1}
	w.resetProcess()
	w.kube = kubefake.NewSimpleClientset()
	w.net = ccfake.NewSimpleClientset()
	w.kube.PrependReactor("patch", "nodes", w.patchNodeReactor)
	w.kube.PrependReactor("get", "nodes", w.getNodeReactor)
	w.kube.PrependReactor("*", "events", func(a k8stesting.Action) (bool, runtime.Object, error) { return true, nil, nil })
	w.net.PrependReactor("update", "clustercidrs", w.updateCCReactor)
	w.net.PrependReactor("create", "clustercidrs", w.createCCReactor)
	w.net.PrependReactor("list", "clustercidrs", w.listCCReactor)
	return w
}

func (w *sysWorld) resetProcess() {
	w.bootOut = nil
	nidx := cache.NewIndexer(cache.MetaNamespaceKeyFunc, cache.Indexers{})
	cidx := cache.NewIndexer(cache.MetaNamespaceKeyFunc, cache.Indexers{})
	w.nodeInf = &fakeNodeInformer{inf: &fakeSharedInformer{indexer: nidx},
		lister: &overrideNodeLister{inner: corelisters.NewNodeLister(nidx), override: map[string]*corev1.Node{}, active: map[string]bool{}}}
	w.ccInf = &fakeCCInformer{inf: &fakeSharedInformer{indexer: cidx},
		lister: &overrideCCLister{inner: cclisters.NewClusterCIDRLister(cidx), override: map[string]*v1.ClusterCIDR{}, active: map[string]bool{}, lastRead: map[string]*v1.ClusterCIDR{}}}
	w.nq, w.cq = &detQueue{}, &detQueue{}
	w.ctl = nil
	w.synced = false
	w.nfeed, w.cfeed = nil, nil
	w.nfetch, w.cfetch = map[string]fetchedNode{}, map[string]fetchedCC{}
}

func (w *sysWorld) findNode(name string) *corev1.Node {
	for _, n := range w.nodes {
		if n.Name == name {
			return n
		}
	}
	return nil
}
func (w *sysWorld) findCC(name string) *v1.ClusterCIDR {
	for _, c := range w.ccs {
		if c.Name == name {
			return c
		}
	}
	return nil
}
func (w *sysWorld) delNode(name string) {
	out := w.nodes[:0:0]
	for _, n := range w.nodes {
		if n.Name != name {
			out = append(out, n)
		}
	}
	w.nodes = out
}
func (w *sysWorld) delCC(name string) {
	out := w.ccs[:0:0]
	for _, c := range w.ccs {
		if c.Name != name {
			out = append(out, c)
		}
	}
	w.ccs = out
}
func (w *sysWorld) pushN(kind string, n *corev1.Node) {
	if w.synced {
		w.nfeed = append(w.nfeed, nev{kind, n.DeepCopy()})
	}
}
func (w *sysWorld) pushC(kind string, c *v1.ClusterCIDR) {
	if w.synced {
		w.cfeed = append(w.cfeed, cev{kind, c.DeepCopy()})
	}
}

func (w *sysWorld) recordEvent(object runtime.Object, reason string) {
	name := "?"
	switch o := object.(type) {
	case *corev1.ObjectReference:
		name = o.Name
	case metav1.Object:
		name = o.GetName()
	}
	code := "0"
	switch reason {
	case "CIDRNotAvailable":
		code = "1"
	case "CIDRAssignmentFailed":
		code = "2"
	}
	w.effects = append(w.effects, fmt.Sprintf("ev %s %s", code, name))
}

// ---- reactors
func canonList(cs []string) string {
	out := make([]string, len(cs))
	for i, c := range cs {
		out[i] = canonStr(c)
	}
	if len(out) == 0 {
		return "-"
	}
	return strings.Join(out, ",")
}

func sameStrings(a, b []string) bool {
	if len(a) != len(b) {
		return false
	}
	for i := range a {
		if a[i] != b[i] {
			return false
		}
	}
	return true
}

func (w *sysWorld) patchNodeReactor(a k8stesting.Action) (bool, runtime.Object, error) {
	pa := a.(k8stesting.PatchAction)
	name := pa.GetName()
	var body struct {
		Spec struct {
			PodCIDR  string   `json:"podCIDR"`
			PodCIDRs []string `json:"podCIDRs"`
		} `json:"spec"`
	}
	if err := json.Unmarshal(pa.GetPatch(), &body); err != nil {
		w.effects = append(w.effects, "patch "+name+" UNPARSEABLE fail")
		return true, nil, fmt.Errorf("bad patch")
	}
	cidrs := body.Spec.PodCIDRs
	node := w.findNode(name)
	canp := node != nil && (len(node.Spec.PodCIDRs) == 0 || sameStrings(node.Spec.PodCIDRs, cidrs))
	out := "fail"
	if len(w.patchScript) > 0 {
		out = w.patchScript[0]
		w.patchScript = w.patchScript[1:]
	}
	if !canp {
		out = "fail"
	}
	// the single-valued podCIDR must be the first of podCIDRs
	first := ""
	if len(cidrs) > 0 {
		first = cidrs[0]
	}
	extra := ""
	if body.Spec.PodCIDR != first {
		extra = " PODCIDR-MISMATCH"
	}
	w.effects = append(w.effects, fmt.Sprintf("patch %s %s %s%s", name, canonList(cidrs), out, extra))
	if out == "ok" || out == "tmo" {
		if len(node.Spec.PodCIDRs) == 0 {
			node.Spec.PodCIDRs = append([]string(nil), cidrs...)
			node.Spec.PodCIDR = body.Spec.PodCIDR
			w.pushN("upd", node)
		}
	}
	switch out {
	case "ok":
		return true, node.DeepCopy(), nil
	case "tmo", "tmn":
		return true, nil, apierrors.NewServerTimeout(schema.GroupResource{Resource: "nodes"}, "patch", 1)
	default:
		if node == nil {
			return true, nil, apierrors.NewNotFound(schema.GroupResource{Resource: "nodes"}, name)
		}
		return true, nil, apierrors.NewInternalError(fmt.Errorf("scripted failure"))
	}
}

// the controller reads a node back from the API server after a timed out write; the next scripted
// outcome decides whether that read succeeds ("fail" = it does not)
func (w *sysWorld) getNodeReactor(a k8stesting.Action) (bool, runtime.Object, error) {
	name := a.(k8stesting.GetAction).GetName()
	out := "ok"
	if len(w.patchScript) > 0 {
		if w.patchScript[0] == "fail" {
			out = "fail"
		}
		w.patchScript = w.patchScript[1:]
	}
	w.effects = append(w.effects, fmt.Sprintf("getnode %s %s", name, out))
	if out == "fail" {
		return true, nil, apierrors.NewInternalError(fmt.Errorf("scripted failure"))
	}
	n := w.findNode(name)
	if n == nil {
		return true, nil, apierrors.NewNotFound(schema.GroupResource{Resource: "nodes"}, name)
	}
	return true, n.DeepCopy(), nil
}

func ccRestView(c *v1.ClusterCIDR) *v1.ClusterCIDR {
	x := c.DeepCopy()
	x.Finalizers = nil
	x.ResourceVersion = ""
	x.ManagedFields = nil
	return x
}

func ccRestViewRV(c *v1.ClusterCIDR) *v1.ClusterCIDR {
	x := c.DeepCopy()
	x.Finalizers = nil
	x.ManagedFields = nil
	return x
}

func finsTok(f []string) string {
	if len(f) == 0 {
		return "-"
	}
	out := make([]string, len(f))
	for i, s := range f {
		if s == finalizerName {
			out[i] = "OURS"
		} else {
			out[i] = s
		}
	}
	return strings.Join(out, "+")
}

func (w *sysWorld) updateCCReactor(a k8stesting.Action) (bool, runtime.Object, error) {
	ua := a.(k8stesting.UpdateAction)
	obj := ua.GetObject().(*v1.ClusterCIDR)
	cur := w.findCC(obj.Name)
	out := "fail"
	if w.ctl == nil && w.bootOut != nil {
		out = w.bootOut[obj.Name]
	} else if len(w.updScript) > 0 {
		out = w.updScript[0]
		w.updScript = w.updScript[1:]
	}
	stale := cur == nil || cur.ResourceVersion != obj.ResourceVersion
	if stale {
		out = "fail"
	}
	// everything but the finalizers must be sent back exactly as it was read (from the lister, or
	// from the start-up listing during construction)
	rest := obj.Annotations[restAnnotation]
	read := w.ccInf.lister.lastRead[obj.Name]
	if w.ctl == nil {
		read = w.listed[obj.Name]
	}
	if read == nil || !reflect.DeepEqual(ccRestViewRV(read), ccRestViewRV(obj)) {
		rest = "CHANGED"
	}
	w.effects = append(w.effects, fmt.Sprintf("updcc %s fins=%s rest=%s %s", obj.Name, finsTok(obj.Finalizers), rest, out))
	if out == "ok" || out == "aerr" {
		w.rv++
		cur.Finalizers = append([]string(nil), obj.Finalizers...)
		cur.ResourceVersion = strconv.Itoa(w.rv)
		if cur.DeletionTimestamp != nil && len(cur.Finalizers) == 0 {
			w.delCC(cur.Name)
			w.pushC("del", cur)
		} else {
			w.pushC("upd", cur)
		}
	}
	switch out {
	case "ok":
		return true, cur.DeepCopy(), nil
	case "aerr":
		return true, nil, apierrors.NewServerTimeout(schema.GroupResource{Resource: "clustercidrs"}, "update", 1)
	default:
		if cur == nil {
			return true, nil, apierrors.NewNotFound(schema.GroupResource{Resource: "clustercidrs"}, obj.Name)
		}
		if stale {
			return true, nil, apierrors.NewConflict(schema.GroupResource{Resource: "clustercidrs"}, obj.Name, fmt.Errorf("stale"))
		}
		return true, nil, apierrors.NewInternalError(fmt.Errorf("scripted failure"))
	}
}

// the only Create the controller issues is that of the default ClusterCIDR at start-up; the scripted outcome decides
// whether it reaches the API ("ok", "aerr": applied, the latter with an error returned)
func (w *sysWorld) createCCReactor(a k8stesting.Action) (bool, runtime.Object, error) {
	ca := a.(k8stesting.CreateAction)
	obj := ca.GetObject().(*v1.ClusterCIDR)
	out := "fail"
	if w.ctl == nil && w.bootOut != nil {
		out = w.bootOut[obj.Name]
	} else if len(w.updScript) > 0 {
		out = w.updScript[0]
		w.updScript = w.updScript[1:]
	}
	exists := w.findCC(obj.Name) != nil
	sel := "-"
	if obj.Spec.NodeSelector != nil {
		sel = "set"
	}
	w.effects = append(w.effects, fmt.Sprintf("createcc %s fins=%s v4=%s v6=%s hb=%d sel=%s %s", obj.Name, finsTok(obj.Finalizers),
		specTok(obj.Spec.IPv4), specTok(obj.Spec.IPv6), obj.Spec.PerNodeHostBits, sel, out))
	var stored *v1.ClusterCIDR
	if (out == "ok" || out == "aerr") && !exists {
		w.rv++
		stored = obj.DeepCopy()
		stored.ResourceVersion = strconv.Itoa(w.rv)
		if stored.Annotations == nil {
			stored.Annotations = map[string]string{}
		}
		stored.Annotations[restAnnotation] = "0"
		w.ccs = append(w.ccs, stored)
		w.pushC("add", stored)
	}
	switch {
	case out == "ok" && stored != nil:
		return true, stored.DeepCopy(), nil
	case out == "aerr":
		return true, nil, apierrors.NewServerTimeout(schema.GroupResource{Resource: "clustercidrs"}, "create", 1)
	case exists:
		return true, nil, apierrors.NewAlreadyExists(schema.GroupResource{Resource: "clustercidrs"}, obj.Name)
	default:
		return true, nil, apierrors.NewInternalError(fmt.Errorf("scripted failure"))
	}
}

func specTok(s string) string {
	if s == "" {
		return "-"
	}
	return canonStr(s)
}

func (w *sysWorld) listCCReactor(a k8stesting.Action) (bool, runtime.Object, error) {
	l := &v1.ClusterCIDRList{}
	w.listed = map[string]*v1.ClusterCIDR{}
	for _, c := range w.ccs {
		l.Items = append(l.Items, *c.DeepCopy())
		w.listed[c.Name] = c.DeepCopy()
	}
	return true, l, nil
}

// ---- object construction from tokens
func splitList(s, sep string) []string {
	if s == "-" || s == "" {
		return nil
	}
	return strings.Split(s, sep)
}

func parseLabels(s string) map[string]string {
	m := map[string]string{}
	for _, kv := range splitList(s, ",") {
		p := strings.SplitN(kv, "=", 2)
		if len(p) == 2 {
			m[p[0]] = p[1]
		} else {
			m[p[0]] = ""
		}
	}
	return m
}

// cidr token -> text: v4:hex/len and v6:hex/len print canonically; x:<hex> is arbitrary text
func tokText(tok string) string {
	if strings.HasPrefix(tok, "x:") {
		b, _ := hex.DecodeString(tok[2:])
		return string(b)
	}
	p := strings.SplitN(tok, ":", 2)
	q := strings.SplitN(p[1], "/", 2)
	n, err := mkNet(p[0], q[0], q[1])
	if err != nil {
		return tok
	}
	return n.String()
}

var opNames = map[string]corev1.NodeSelectorOperator{
	"In": corev1.NodeSelectorOpIn, "NotIn": corev1.NodeSelectorOpNotIn, "Exists": corev1.NodeSelectorOpExists,
	"DoesNotExist": corev1.NodeSelectorOpDoesNotExist, "Gt": corev1.NodeSelectorOpGt, "Lt": corev1.NodeSelectorOpLt,
}

// selector spec: "-" nil; "0" no terms; terms separated by '|', requirements by ';', req = key:Op:v1+v2
// a requirement prefixed with "F." goes to matchFields
func parseSelSpec(s string) *corev1.NodeSelector {
	if s == "-" {
		return nil
	}
	ns := &corev1.NodeSelector{}
	if s == "0" {
		return ns
	}
	for _, t := range strings.Split(s, "|") {
		term := corev1.NodeSelectorTerm{}
		for _, r := range splitList(t, ";") {
			isField := strings.HasPrefix(r, "F.")
			if isField {
				r = r[2:]
			}
			p := strings.SplitN(r, ":", 3)
			for len(p) < 3 {
				p = append(p, "")
			}
			op, ok := opNames[p[1]]
			if !ok {
				op = corev1.NodeSelectorOperator(p[1])
			}
			var vals []string
			if p[2] != "" {
				vals = strings.Split(p[2], "+")
				for i := range vals {
					if vals[i] == "EMPTY" {
						vals[i] = ""
					}
				}
			}
			req := corev1.NodeSelectorRequirement{Key: p[0], Operator: op, Values: vals}
			if isField {
				term.MatchFields = append(term.MatchFields, req)
			} else {
				term.MatchExpressions = append(term.MatchExpressions, req)
			}
		}
		ns.NodeSelectorTerms = append(ns.NodeSelectorTerms, term)
	}
	return ns
}

func mkNodeObj(name, lbls, cidrs string) *corev1.Node {
	n := &corev1.Node{ObjectMeta: metav1.ObjectMeta{Name: name, Labels: parseLabels(lbls)}}
	for _, t := range splitList(cidrs, ",") {
		n.Spec.PodCIDRs = append(n.Spec.PodCIDRs, tokText(t))
	}
	if len(n.Spec.PodCIDRs) > 0 {
		n.Spec.PodCIDR = n.Spec.PodCIDRs[0]
	}
	return n
}

func mkCCObj(f []string) *v1.ClusterCIDR {
	// cc+ <name> <v4> <v6> <hb> <sel> <fins> <gen> <rest>
	hb, _ := strconv.Atoi(f[4])
	gen, _ := strconv.Atoi(f[7])
	c := &v1.ClusterCIDR{
		ObjectMeta: metav1.ObjectMeta{Name: f[1], Generation: int64(gen), Annotations: map[string]string{restAnnotation: f[8]}},
		Spec:       v1.ClusterCIDRSpec{PerNodeHostBits: int32(hb), NodeSelector: parseSelSpec(f[5])},
	}
	if f[2] != "-" {
		c.Spec.IPv4 = tokText(f[2])
	}
	if f[3] != "-" {
		c.Spec.IPv6 = tokText(f[3])
	}
	for _, x := range splitList(f[6], "+") {
		if x == "OURS" {
			x = finalizerName
		}
		c.Finalizers = append(c.Finalizers, x)
	}
	return c
}

// ---- deep hashes of cached objects (C20 runtime monitor)
func (w *sysWorld) cacheHashes() map[string]string {
	h := map[string]string{}
	for _, o := range w.nodeInf.inf.indexer.List() {
		n := o.(*corev1.Node)
		b, _ := json.Marshal(n)
		h["node/"+n.Name] = string(b)
	}
	for _, o := range w.ccInf.inf.indexer.List() {
		c := o.(*v1.ClusterCIDR)
		b, _ := json.Marshal(c)
		h["cc/"+c.Name] = string(b)
	}
	return h
}

// ---- printing
func poolTok(p ipam.VerifPool) string {
	if !p.Present {
		return "-"
	}
	ck := make([]string, len(p.Keys))
	for i, k := range p.Keys {
		ck[i] = canonStr(k)
	}
	sort.Strings(ck)
	return fmt.Sprintf("%d/%d/%d/%s", p.MaxCIDRs, p.Allocated, p.Next, strings.Join(ck, "+"))
}

func (w *sysWorld) snapTok() string {
	if w.ctl == nil {
		return "none"
	}
	var parts []string
	for _, e := range w.ctl.Snapshot() {
		assoc := "-"
		if len(e.Associated) > 0 {
			assoc = strings.Join(e.Associated, "+")
		}
		t := 0
		if e.Terminating {
			t = 1
		}
		parts = append(parts, fmt.Sprintf("%s#%d:%s:t%d:a=%s:v4=%s:v6=%s", hex.EncodeToString([]byte(e.Selector)), e.Index, e.Name, t, assoc, poolTok(e.V4), poolTok(e.V6)))
	}
	if len(parts) == 0 {
		return "empty"
	}
	return strings.Join(parts, ";")
}

func joinOr(l []string, sep, empty string) string {
	if len(l) == 0 {
		return empty
	}
	return strings.Join(l, sep)
}

// unparseable podCIDR strings are shown as "bad" (the model does not carry their text)
func canonListB(cs []string) string {
	out := make([]string, len(cs))
	for i, c := range cs {
		out[i] = canonStr(c)
		if strings.HasPrefix(out[i], "raw:") {
			out[i] = "bad"
		}
	}
	if len(out) == 0 {
		return "-"
	}
	return strings.Join(out, ",")
}

func nodeTok(n *corev1.Node) string {
	d := 0
	if n.DeletionTimestamp != nil {
		d = 1
	}
	var ls []string
	for k, v := range n.Labels {
		ls = append(ls, k+"="+v)
	}
	sort.Strings(ls)
	return fmt.Sprintf("%s:%s:d%d:L%s", n.Name, canonListB(n.Spec.PodCIDRs), d, strings.Join(ls, "+"))
}
func ccTok(c *v1.ClusterCIDR) string {
	d := 0
	if c.DeletionTimestamp != nil {
		d = 1
	}
	return fmt.Sprintf("%s:%s:d%d:rv%s", c.Name, finsTok(c.Finalizers), d, c.ResourceVersion)
}

func (w *sysWorld) apiTok() string {
	var ns, cs []string
	for _, n := range w.nodes {
		ns = append(ns, nodeTok(n))
	}
	for _, c := range w.ccs {
		cs = append(cs, ccTok(c))
	}
	return joinOr(ns, ";", "-") + "^" + joinOr(cs, ";", "-")
}

func (w *sysWorld) cacheTok() string {
	var ns, cs []string
	for _, o := range w.nodeInf.inf.indexer.List() {
		ns = append(ns, nodeTok(o.(*corev1.Node)))
	}
	for _, o := range w.ccInf.inf.indexer.List() {
		cs = append(cs, ccTok(o.(*v1.ClusterCIDR)))
	}
	sort.Strings(ns)
	sort.Strings(cs)
	return joinOr(ns, ";", "-") + "^" + joinOr(cs, ";", "-") + fmt.Sprintf("^%d^%d", len(w.nfeed), len(w.cfeed))
}

func (w *sysWorld) queueTok() string {
	return joinOr(w.nq.ready, ",", "-") + "/" + joinOr(w.nq.retry, ",", "-") + "/" + joinOr(w.cq.ready, ",", "-") + "/" + joinOr(w.cq.retry, ",", "-")
}

// ---- steps
var bgctx = klog.NewContext(context.Background(), logr.Discard())

func (w *sysWorld) nodeHandlers() []cache.ResourceEventHandler { return w.nodeInf.inf.handlers }
func (w *sysWorld) ccHandlers() []cache.ResourceEventHandler   { return w.ccInf.inf.handlers }

func scriptOf(s string) []string { return splitList(s, ",") }

// step executes one op; returns res code (0 none, 1 ok, 2 err, 3 panic) and whether the item was requeued
func (w *sysWorld) step(f []string) (res int, requeued bool) {
	defer func() {
		if r := recover(); r != nil {
			w.effects = append(w.effects, "PANIC")
			w.resetProcess()
			res = 3
		}
	}()
	switch f[0] {
	case "n+":
		if w.findNode(f[1]) == nil {
			n := mkNodeObj(f[1], f[2], f[3])
			w.nodes = append(w.nodes, n)
			w.pushN("add", n)
		}
	case "nl":
		if n := w.findNode(f[1]); n != nil {
			n.Labels = parseLabels(f[2])
			w.pushN("upd", n)
		}
	case "nd":
		if n := w.findNode(f[1]); n != nil {
			t := metav1.NewTime(time.Unix(1, 0))
			n.DeletionTimestamp = &t
			w.pushN("upd", n)
		}
	case "n-":
		if n := w.findNode(f[1]); n != nil {
			w.delNode(f[1])
			w.pushN("del", n)
		}
	case "cc+":
		if w.findCC(f[1]) == nil {
			c := mkCCObj(f)
			w.rv++
			c.ResourceVersion = strconv.Itoa(w.rv)
			w.ccs = append(w.ccs, c)
			w.pushC("add", c)
		}
	case "cc-":
		if c := w.findCC(f[1]); c != nil {
			if len(c.Finalizers) == 0 {
				w.rv++
				c.ResourceVersion = strconv.Itoa(w.rv)
				w.delCC(c.Name)
				w.pushC("del", c)
			} else if c.DeletionTimestamp == nil {
				w.rv++
				t := metav1.NewTime(time.Unix(1, 0))
				c.DeletionTimestamp = &t
				c.ResourceVersion = strconv.Itoa(w.rv)
				w.pushC("upd", c)
			}
		}
	case "ccf":
		if c := w.findCC(f[1]); c != nil {
			w.rv++
			var fins []string
			for _, x := range c.Finalizers {
				if x == finalizerName {
					fins = append(fins, x)
				}
			}
			for _, x := range splitList(f[2], "+") {
				if x != "OURS" && x != finalizerName {
					fins = append(fins, x)
				}
			}
			c.Finalizers = fins
			c.ResourceVersion = strconv.Itoa(w.rv)
			if c.DeletionTimestamp != nil && len(fins) == 0 {
				w.delCC(c.Name)
				w.pushC("del", c)
			} else {
				w.pushC("upd", c)
			}
		}
	case "dn", "dnt":
		if len(w.nfeed) == 0 {
			return 0, false
		}
		e := w.nfeed[0]
		if f[0] == "dnt" && e.kind != "del" {
			return 0, false
		}
		w.nfeed = w.nfeed[1:]
		idx := w.nodeInf.inf.indexer
		switch e.kind {
		case "add", "upd":
			old, exists, _ := idx.GetByKey(e.obj.Name)
			_ = idx.Add(e.obj)
			if w.ctl != nil {
				for _, h := range w.nodeHandlers() {
					if exists {
						h.OnUpdate(old, e.obj)
					} else {
						h.OnAdd(e.obj, false)
					}
				}
			}
		case "del":
			var payload interface{} = e.obj
			if f[0] == "dnt" {
				last, exists, _ := idx.GetByKey(e.obj.Name)
				if exists {
					payload = cache.DeletedFinalStateUnknown{Key: e.obj.Name, Obj: last}
				} else {
					payload = cache.DeletedFinalStateUnknown{Key: e.obj.Name, Obj: e.obj}
				}
			}
			_ = idx.Delete(e.obj)
			if w.ctl != nil {
				// the handler's ReleaseCIDR result is only logged by the real code; observe it through the snapshot
				for _, h := range w.nodeHandlers() {
					h.OnDelete(payload)
				}
				return 9, false // release outcome unknown to the harness: printed as '*'
			}
		}
	case "dc":
		if len(w.cfeed) == 0 {
			return 0, false
		}
		e := w.cfeed[0]
		w.cfeed = w.cfeed[1:]
		idx := w.ccInf.inf.indexer
		switch e.kind {
		case "add", "upd":
			old, exists, _ := idx.GetByKey(e.obj.Name)
			_ = idx.Add(e.obj)
			if w.ctl != nil {
				for _, h := range w.ccHandlers() {
					if exists {
						h.OnUpdate(old, e.obj)
					} else {
						h.OnAdd(e.obj, false)
					}
				}
			}
		case "del":
			_ = idx.Delete(e.obj)
			if w.ctl != nil {
				for _, h := range w.ccHandlers() {
					h.OnDelete(e.obj)
				}
			}
		}
	case "rn":
		if w.ctl != nil {
			objs := w.nodeInf.inf.indexer.List()
			sort.Slice(objs, func(i, j int) bool { return objs[i].(*corev1.Node).Name < objs[j].(*corev1.Node).Name })
			for _, o := range objs {
				for _, h := range w.nodeHandlers() {
					h.OnUpdate(o, o)
				}
			}
		}
	case "rc":
		if w.ctl != nil {
			objs := w.ccInf.inf.indexer.List()
			sort.Slice(objs, func(i, j int) bool { return objs[i].(*v1.ClusterCIDR).Name < objs[j].(*v1.ClusterCIDR).Name })
			for _, o := range objs {
				for _, h := range w.ccHandlers() {
					h.OnUpdate(o, o)
				}
			}
		}
	case "rln":
		// the watch broke: the informer lists again and replaces its store (DeltaFIFO.Replace): pending events are
		// dropped, every listed object is delivered as an update (or add), every stored object that is no longer
		// listed as a deletion carrying the store's last known state
		if !w.synced {
			return 0, false
		}
		w.nfeed = nil
		idx := w.nodeInf.inf.indexer
		listed := map[string]bool{}
		for _, n := range w.nodes {
			listed[n.Name] = true
			obj := n.DeepCopy()
			old, exists, _ := idx.GetByKey(obj.Name)
			_ = idx.Add(obj)
			for _, h := range w.nodeHandlers() {
				if exists {
					h.OnUpdate(old, obj)
				} else {
					h.OnAdd(obj, false)
				}
			}
		}
		keys := idx.ListKeys()
		sort.Strings(keys)
		dels := 0
		for _, k := range keys {
			if listed[k] {
				continue
			}
			last, _, _ := idx.GetByKey(k)
			_ = idx.Delete(last)
			dels++
			for _, h := range w.nodeHandlers() {
				h.OnDelete(cache.DeletedFinalStateUnknown{Key: k, Obj: last})
			}
		}
		if dels > 0 {
			return 9, false
		}
	case "rlc":
		if !w.synced {
			return 0, false
		}
		w.cfeed = nil
		idx := w.ccInf.inf.indexer
		listed := map[string]bool{}
		for _, c := range w.ccs {
			listed[c.Name] = true
			obj := c.DeepCopy()
			old, exists, _ := idx.GetByKey(obj.Name)
			_ = idx.Add(obj)
			for _, h := range w.ccHandlers() {
				if exists {
					h.OnUpdate(old, obj)
				} else {
					h.OnAdd(obj, false)
				}
			}
		}
		keys := idx.ListKeys()
		sort.Strings(keys)
		for _, k := range keys {
			if listed[k] {
				continue
			}
			last, _, _ := idx.GetByKey(k)
			_ = idx.Delete(last)
			for _, h := range w.ccHandlers() {
				h.OnDelete(cache.DeletedFinalStateUnknown{Key: k, Obj: last})
			}
		}
	case "fn":
		var obj *corev1.Node
		if o, ok, _ := w.nodeInf.inf.indexer.GetByKey(f[2]); ok {
			obj = o.(*corev1.Node)
		}
		w.nfetch[f[1]] = fetchedNode{f[2], obj}
	case "runn":
		ft, ok := w.nfetch[f[1]]
		if !ok {
			return 0, false
		}
		delete(w.nfetch, f[1])
		if w.ctl == nil {
			return 0, false
		}
		w.patchScript = scriptOf(f[2])
		w.nodeInf.lister.override[ft.key] = ft.obj
		w.nodeInf.lister.active[ft.key] = true
		err := w.ctl.SyncNode(logr.Discard(), ft.key)
		delete(w.nodeInf.lister.active, ft.key)
		if err != nil {
			return 2, false
		}
		return 1, false
	case "fc":
		var obj *v1.ClusterCIDR
		if o, ok, _ := w.ccInf.inf.indexer.GetByKey(f[2]); ok {
			obj = o.(*v1.ClusterCIDR)
		}
		w.cfetch[f[1]] = fetchedCC{f[2], obj}
	case "runc":
		ft, ok := w.cfetch[f[1]]
		if !ok {
			return 0, false
		}
		delete(w.cfetch, f[1])
		if w.ctl == nil {
			return 0, false
		}
		w.updScript = scriptOf(f[2])
		w.ccInf.lister.override[ft.key] = ft.obj
		w.ccInf.lister.active[ft.key] = true
		err := w.ctl.SyncClusterCIDR(bgctx, ft.key)
		delete(w.ccInf.lister.active, ft.key)
		if err != nil {
			return 2, false
		}
		return 1, false
	case "pn":
		if w.ctl == nil || len(w.nq.ready) == 0 {
			return 0, false
		}
		w.patchScript = scriptOf(f[1])
		before := w.nq.rlAdds
		w.ctl.ProcessNextNodeItem(bgctx)
		if w.nq.rlAdds > before {
			return 2, true
		}
		return 1, false
	case "pc":
		if w.ctl == nil || len(w.cq.ready) == 0 {
			return 0, false
		}
		w.updScript = scriptOf(f[1])
		before := w.cq.rlAdds
		w.ctl.ProcessNextCIDRItem(bgctx)
		if w.cq.rlAdds > before {
			return 2, true
		}
		return 1, false
	case "om": // om <labels> <0|1>: read-only query of orderedMatchingClusterCIDRs
		if w.ctl == nil {
			return 0, false
		}
		node := &corev1.Node{ObjectMeta: metav1.ObjectMeta{Name: "probe", Labels: parseLabels(f[1])}}
		names, err := w.ctl.OrderedMatching(node, f[2] == "1")
		if err != nil {
			w.effects = append(w.effects, "order ERR")
			return 2, false
		}
		w.effects = append(w.effects, "order "+joinOr(names, ",", "-"))
		return 1, false
	case "tick":
		w.nq.tick()
		w.cq.tick()
	case "crash":
		w.resetProcess()
	case "construct":
		if w.ctl != nil {
			return 0, false
		}
		w.resetProcess()
		params := ipam.CIDRAllocatorParams{}
		if f[1] != "-" {
			p := strings.SplitN(f[1], ":", 2)
			q := strings.SplitN(p[1], "/", 2)
			params.ServiceCIDR, _ = mkNet(p[0], q[0], q[1])
		}
		if f[2] != "-" {
			p := strings.SplitN(f[2], ":", 2)
			q := strings.SplitN(p[1], "/", 2)
			params.SecondaryServiceCIDR, _ = mkNet(p[0], q[0], q[1])
		}
		// f[4] (optional): the --cluster-cidr flags with their per-node mask sizes, <cidr>=<mask>,...
		if len(f) > 4 && f[4] != "-" {
			for _, x := range strings.Split(f[4], ",") {
				cm := strings.SplitN(x, "=", 2)
				p := strings.SplitN(cm[0], ":", 2)
				q := strings.SplitN(p[1], "/", 2)
				n, _ := mkNet(p[0], q[0], q[1])
				ms, _ := strconv.Atoi(cm[1])
				params.ClusterCIDRs = append(params.ClusterCIDRs, n)
				params.NodeCIDRMaskSizes = append(params.NodeCIDRMaskSizes, ms)
			}
		}
		// the i-th scripted outcome belongs to the i-th object of the start-up listing (the default ClusterCIDR, when it is
		// added, comes last); a missing outcome means success (the model does the same)
		script := scriptOf(f[3])
		w.bootOut = map[string]string{}
		names := []string{}
		for _, c := range w.ccs {
			names = append(names, c.Name)
		}
		names = append(names, "default-cluster-cidr")
		for i, nm := range names {
			if _, dup := w.bootOut[nm]; dup {
				continue
			}
			if i < len(script) {
				w.bootOut[nm] = script[i]
			} else {
				w.bootOut[nm] = "ok"
			}
		}
		w.updScript = nil
		nl := &corev1.NodeList{}
		for _, n := range w.nodes {
			nl.Items = append(nl.Items, *n.DeepCopy())
		}
		a, err := ipam.VerifNew(bgctx, w.kube, w.net.NetworkingV1().ClusterCIDRs(), w.nodeInf, w.ccInf, params, nl)
		w.bootOut = nil
		if err != nil {
			return 2, false
		}
		a.SetQueues(w.nq, w.cq)
		a.SetRecorder(&capRecorder{w})
		w.ctl = a
		return 1, false
	case "start":
		if w.ctl == nil || w.synced {
			return 0, false
		}
		w.synced = true
		for _, n := range w.nodes {
			c := n.DeepCopy()
			_ = w.nodeInf.inf.indexer.Add(c)
			for _, h := range w.nodeHandlers() {
				h.OnAdd(c, true)
			}
		}
		for _, c := range w.ccs {
			cc := c.DeepCopy()
			_ = w.ccInf.inf.indexer.Add(cc)
			for _, h := range w.ccHandlers() {
				h.OnAdd(cc, true)
			}
		}
	default:
		w.effects = append(w.effects, "BADOP "+f[0])
	}
	return 0, false
}

const stallTimeout = 20 * time.Second

// the whole handling of a line -- the step AND the observation that follows it (the snapshot reads the allocator's state under
// its own locks) -- is watched: a lock left held by a step that returned shows up when the observation is taken
var (
	beatAt   atomic.Int64
	beatLine atomic.Int64
	beatOp   atomic.Value
)

func startLineWatchdog(out *bufio.Writer) {
	beatAt.Store(time.Now().UnixNano())
	beatOp.Store("")
	go func() {
		for {
			time.Sleep(time.Second)
			if time.Since(time.Unix(0, beatAt.Load())) > stallTimeout+5*time.Second {
				op, _ := beatOp.Load().(string)
				fmt.Fprintf(os.Stderr, "STALL line=%d op=%s\n", beatLine.Load(), op)
				os.Exit(3)
			}
		}
	}()
}

func runSys(sc *bufio.Scanner, out *bufio.Writer) {
	var w *sysWorld
	lineNo := 0
	startLineWatchdog(out)
	for sc.Scan() {
		lineNo++
		line := strings.TrimSpace(sc.Text())
		beatAt.Store(time.Now().UnixNano())
		beatLine.Store(int64(lineNo))
		beatOp.Store(line)
		if line == "" || strings.HasPrefix(line, "#") {
			continue
		}
		f := strings.Fields(line)
		if f[0] == "case" {
			w = newSysWorld()
			fmt.Fprintf(out, "case %s\n", f[1])
			continue
		}
		if w == nil {
			w = newSysWorld()
		}
		w.effects = nil
		before := w.cacheHashes()
		// watchdog: a step that does not return (e.g. a lock taken twice on one path) is a stall inside a single
		// work item; the process state is unusable afterwards, so the run ends here with a STALL report
		type stepRes struct {
			res int
			rq  bool
		}
		ch := make(chan stepRes, 1)
		go func() { r, q := w.step(f); ch <- stepRes{r, q} }()
		var res int
		var rq bool
		select {
		case sr := <-ch:
			res, rq = sr.res, sr.rq
		case <-time.After(stallTimeout):
			fmt.Fprintf(out, "STALL op=%s\n", line)
			out.Flush()
			fmt.Fprintf(os.Stderr, "STALL line=%d op=%s\n", lineNo, line)
			os.Exit(3)
		}
		// C20 runtime monitor: objects that were in the cache before the step and are still the same
		// cached instance must be byte-for-byte unchanged unless the step itself replaced them
		hash := "same"
		if f[0] != "dn" && f[0] != "dnt" && f[0] != "dc" && f[0] != "rln" && f[0] != "rlc" && f[0] != "start" && f[0] != "crash" && f[0] != "construct" && res != 3 {
			after := w.cacheHashes()
			for k, v := range before {
				if v2, ok := after[k]; ok && v2 != v {
					hash = "CHANGED:" + k
				}
			}
		}
		rs := strconv.Itoa(res)
		if res == 9 {
			rs = "*"
		}
		rqs := "0"
		if rq {
			rqs = "1"
		}
		fmt.Fprintf(out, "res=%s | fx=%s | rq=%s | snap=%s | q=%s | api=%s | cache=%s | hash=%s\n",
			rs, joinOr(w.effects, ";", "-"), rqs, w.snapTok(), w.queueTok(), w.apiTok(), w.cacheTok(), hash)
	}
}
