// Command drive runs verification case files against the real node-ipam-controller code
// (built from /repo's working tree with -tags verif) and prints one observation block per op.
package main

import (
	"bufio"
	"fmt"
	"os"
)

func main() {
	if len(os.Args) < 3 {
		fmt.Fprintln(os.Stderr, "usage: drive <pool|prio|valid|sel|sys> <casefile> [outfile]")
		os.Exit(2)
	}
	in, err := os.Open(os.Args[2])
	if err != nil {
		fmt.Fprintln(os.Stderr, err)
		os.Exit(2)
	}
	defer in.Close()
	var outf *os.File = os.Stdout
	if len(os.Args) > 3 {
		outf, err = os.Create(os.Args[3])
		if err != nil {
			fmt.Fprintln(os.Stderr, err)
			os.Exit(2)
		}
		defer outf.Close()
	}
	out := bufio.NewWriterSize(outf, 1<<20)
	defer out.Flush()
	sc := bufio.NewScanner(in)
	sc.Buffer(make([]byte, 1<<20), 1<<26)
	switch os.Args[1] {
	case "pool":
		runPool(sc, out)
	default:
		if f, ok := modes[os.Args[1]]; ok {
			f(sc, out)
			return
		}
		fmt.Fprintln(os.Stderr, "unknown mode", os.Args[1])
		os.Exit(2)
	}
}

var modes = map[string]func(*bufio.Scanner, *bufio.Writer){}
