package main

import (
	"bufio"
	"encoding/hex"
	"fmt"
	"math"
	"net"
	"sort"
	"strconv"
	"strings"

	"github.com/prometheus/client_golang/prometheus"
	dto "github.com/prometheus/client_model/go"
	netutils "k8s.io/utils/net"
	cidrset "sigs.k8s.io/node-ipam-controller/pkg/controller/ipam/multicidrset"
)

// canonical text of an IPNet: v4:0a000000/24 or v6:<32 hex>/64 ; anything else raw:<text>
func canonNet(n *net.IPNet) string {
	if n == nil {
		return "raw:nil"
	}
	ones, bits := n.Mask.Size()
	if len(n.IP) == 4 && bits == 32 {
		return fmt.Sprintf("v4:%s/%d", hex.EncodeToString(n.IP), ones)
	}
	if len(n.IP) == 16 && bits == 128 {
		return fmt.Sprintf("v6:%s/%d", hex.EncodeToString(n.IP), ones)
	}
	return "raw:" + n.String()
}

// canonical text of a CIDR string as the controller's own parser reads it
func canonStr(s string) string {
	_, n, err := netutils.ParseCIDRSloppy(s)
	if err != nil {
		return "raw:" + s
	}
	return canonNet(n)
}

func parseFamHex(fam, h string) (net.IP, int, error) {
	b, err := hex.DecodeString(h)
	if err != nil {
		return nil, 0, err
	}
	switch fam {
	case "v4":
		if len(b) != 4 {
			return nil, 0, fmt.Errorf("bad v4 length")
		}
		return net.IP(b), 32, nil
	case "v6":
		if len(b) != 16 {
			return nil, 0, fmt.Errorf("bad v6 length")
		}
		return net.IP(b), 128, nil
	}
	return nil, 0, fmt.Errorf("bad family %q", fam)
}

func mkNet(fam, h, l string) (*net.IPNet, error) {
	ip, bits, err := parseFamHex(fam, h)
	if err != nil {
		return nil, err
	}
	n, err := strconv.Atoi(l)
	if err != nil {
		return nil, err
	}
	return &net.IPNet{IP: ip, Mask: net.CIDRMask(n, bits)}, nil
}

type metricVals struct {
	alloc, rel, usage, max float64
	hasAlloc, hasRel, hasUsage, hasMax bool
}

func gatherMetrics(label string) metricVals {
	var mv metricVals
	mfs, err := prometheus.DefaultGatherer.Gather()
	if err != nil {
		return mv
	}
	for _, mf := range mfs {
		name := mf.GetName()
		for _, m := range mf.GetMetric() {
			if !hasLabel(m, "clusterCIDR", label) {
				continue
			}
			switch name {
			case "node_ipam_controller_multicidrset_cidrs_allocations_total":
				mv.alloc, mv.hasAlloc = m.GetCounter().GetValue(), true
			case "node_ipam_controller_multicidrset_cidrs_releases_total":
				mv.rel, mv.hasRel = m.GetCounter().GetValue(), true
			case "node_ipam_controller_multicidrset_usage_cidrs":
				mv.usage, mv.hasUsage = m.GetGauge().GetValue(), true
			case "node_ipam_controller_multicirdset_max_cidrs":
				mv.max, mv.hasMax = m.GetGauge().GetValue(), true
			}
		}
	}
	return mv
}

func hasLabel(m *dto.Metric, k, v string) bool {
	for _, lp := range m.GetLabel() {
		if lp.GetName() == k && lp.GetValue() == v {
			return true
		}
	}
	return false
}

func fmtMetric(has bool, v float64) string {
	if !has {
		return "-"
	}
	if math.IsNaN(v) {
		return "nan"
	}
	return strconv.FormatFloat(v, 'g', -1, 64)
}

// usage is printed as round(usage*max) when that is within 1e-6 of an integer, so that the
// model never has to compare floats
func fmtUsage(mv metricVals) string {
	if !mv.hasUsage {
		return "-"
	}
	if math.IsNaN(mv.usage) || math.IsInf(mv.usage, 0) {
		return "nan"
	}
	x := mv.usage * mv.max
	r := math.Round(x)
	if math.Abs(x-r) < 1e-6 {
		return strconv.FormatInt(int64(r), 10)
	}
	return "frac:" + strconv.FormatFloat(mv.usage, 'g', -1, 64)
}

func snapLine(s *cidrset.MultiCIDRSet) string {
	cnt, cur, keys := s.VerifSnapshot()
	ck := make([]string, len(keys))
	for i, k := range keys {
		ck[i] = canonStr(k)
	}
	sort.Strings(ck)
	return fmt.Sprintf("snap %d %d [%s]", cnt, cur, strings.Join(ck, ","))
}

func metLine(s *cidrset.MultiCIDRSet) string {
	mv := gatherMetrics(s.Label)
	return fmt.Sprintf("met %s %s %s %s", fmtMetric(mv.hasAlloc, mv.alloc), fmtMetric(mv.hasRel, mv.rel), fmtUsage(mv), fmtMetric(mv.hasMax, mv.max))
}

// runPool interprets geometry / pool scripts.  Every op is run under recover().
func runPool(sc *bufio.Scanner, out *bufio.Writer) {
	pools := map[string]*cidrset.MultiCIDRSet{}
	withMetrics := false
	for sc.Scan() {
		line := strings.TrimSpace(sc.Text())
		if line == "" || strings.HasPrefix(line, "#") {
			continue
		}
		f := strings.Fields(line)
		func() {
			defer func() {
				if r := recover(); r != nil {
					fmt.Fprintf(out, "PANIC %v\n", r)
				}
			}()
			switch f[0] {
			case "case":
				// new case: forget pools (metrics are global; the generator uses unique ranges when it matters)
				pools = map[string]*cidrset.MultiCIDRSet{}
				fmt.Fprintf(out, "case %s\n", f[1])
			case "metrics":
				withMetrics = f[1] == "on"
				fmt.Fprintf(out, "metrics %s\n", f[1])
			case "pool": // pool <id> <fam> <basehex> <clen> <hostbits>
				n, err := mkNet(f[2], f[3], f[4])
				if err != nil {
					fmt.Fprintf(out, "badcase %v\n", err)
					return
				}
				hb, _ := strconv.Atoi(f[5])
				s, err := cidrset.NewMultiCIDRSet(n, hb)
				if err != nil {
					fmt.Fprintf(out, "new err\n")
					return
				}
				pools[f[1]] = s
				fmt.Fprintf(out, "new ok %d %d %d\n", s.MaxCIDRs, s.NodeMaskSize, s.VerifClusterMaskSize())
			case "blk": // blk <id> <index>
				s := pools[f[1]]
				if s == nil {
					fmt.Fprintf(out, "nopool\n")
					return
				}
				i, _ := strconv.Atoi(f[2])
				b, err := s.VerifIndexToCIDRBlock(i)
				if err != nil {
					fmt.Fprintf(out, "blk err\n")
					return
				}
				fmt.Fprintf(out, "blk %s\n", canonNet(b))
			case "idx": // idx <id> <fam> <addrhex>
				s := pools[f[1]]
				if s == nil {
					fmt.Fprintf(out, "nopool\n")
					return
				}
				ip, _, err := parseFamHex(f[2], f[3])
				if err != nil {
					fmt.Fprintf(out, "badcase %v\n", err)
					return
				}
				i, err := s.VerifGetIndexForIP(ip)
				if err != nil {
					fmt.Fprintf(out, "idx err\n")
					return
				}
				fmt.Fprintf(out, "idx %d\n", i)
			case "range": // range <id> <fam> <addrhex> <len>
				s := pools[f[1]]
				if s == nil {
					fmt.Fprintf(out, "nopool\n")
					return
				}
				n, err := mkNet(f[2], f[3], f[4])
				if err != nil {
					fmt.Fprintf(out, "badcase %v\n", err)
					return
				}
				b, e, err := s.VerifBeginEnd(n)
				if err != nil {
					fmt.Fprintf(out, "range err\n")
					return
				}
				fmt.Fprintf(out, "range %d %d\n", b, e)
			case "occ", "rel": // occ <id> <fam> <addrhex> <len>
				s := pools[f[1]]
				if s == nil {
					fmt.Fprintf(out, "nopool\n")
					return
				}
				n, err := mkNet(f[2], f[3], f[4])
				if err != nil {
					fmt.Fprintf(out, "badcase %v\n", err)
					return
				}
				if f[0] == "occ" {
					err = s.Occupy(n)
				} else {
					err = s.Release(n)
				}
				res := "ok"
				if err != nil {
					res = "err"
				}
				if withMetrics {
					fmt.Fprintf(out, "%s %s ; %s ; %s\n", f[0], res, snapLine(s), metLine(s))
				} else {
					fmt.Fprintf(out, "%s %s ; %s\n", f[0], res, snapLine(s))
				}
			case "next": // next <id>
				s := pools[f[1]]
				if s == nil {
					fmt.Fprintf(out, "nopool\n")
					return
				}
				c, skipped, err := s.NextCandidate()
				res := ""
				if err != nil {
					res = fmt.Sprintf("exhausted %d", skipped)
				} else {
					res = fmt.Sprintf("cand %s %d", canonNet(c), skipped)
				}
				if withMetrics {
					fmt.Fprintf(out, "next %s ; %s ; %s\n", res, snapLine(s), metLine(s))
				} else {
					fmt.Fprintf(out, "next %s ; %s\n", res, snapLine(s))
				}
			case "endpoint": // endpoint <id>: serve /metrics through the repo's web server and compare
				s := pools[f[1]]
				if s == nil {
					fmt.Fprintf(out, "nopool\n")
					return
				}
				fmt.Fprintf(out, "endpoint %s\n", endpointCheck(s))
			default:
				fmt.Fprintf(out, "badcase unknown op %s\n", f[0])
			}
		}()
	}
}
