(* StartupCheck.v -- the start-up wiring of main.go:runControllers as facts (C03): positions (in
   instruction order) of the node listing, the construction of the allocator, the start of the
   informers and Run, and whether the listed nodes are what is passed to the constructor. *)
From Coq Require Import Arith Bool.

Record startup_facts := mkStartup {
  su_list : nat; su_construct : nat; su_start : nat; su_run : nat; su_passes_list : bool
}.

(* the order the model's Construct / StartInformers ops assume *)
Definition startup_ok (s : startup_facts) : bool :=
  (0 <? su_list s) && (su_list s <? su_construct s) && (su_construct s <? su_start s) && (su_start s <? su_run s) && su_passes_list s.

Theorem startup_ok_spec s : startup_ok s = true ->
  (su_list s < su_construct s)%nat /\ (su_construct s < su_start s)%nat /\ (su_start s < su_run s)%nat /\ su_passes_list s = true.
Proof.
  unfold startup_ok. intros H. repeat (apply andb_true_iff in H; destruct H as [H ?]).
  repeat split; try (apply Nat.ltb_lt; assumption). assumption.
Qed.
