(* Net.v -- values: address families, addresses as numbers, CIDRs.
   Definitions only (the model must keep running when a proof breaks). *)
From Coq Require Export List NArith ZArith Bool Lia.
Export ListNotations.
Open Scope N_scope.

Inductive fam := V4 | V6.

Definition fam_eqb (a b : fam) : bool :=
  match a, b with V4, V4 => true | V6, V6 => true | _, _ => false end.

Definition width (f : fam) : N := match f with V4 => 32 | V6 => 128 end.

(* A CIDR as Go's net.IPNet after ParseCIDRSloppy / indexToCIDRBlock:
   family, address (as a number below 2^width), prefix length. *)
Record cidr := mkCidr { cf : fam; ca : N; cl : N }.

Definition cidr_eqb (a b : cidr) : bool :=
  fam_eqb (cf a) (cf b) && (ca a =? ca b) && (cl a =? cl b).

(* size of the host part *)
Definition hostsz (f : fam) (l : N) : N := 2 ^ (width f - l).

(* well-formed: prefix fits, address fits and is masked *)
Definition wf_cidr (c : cidr) : Prop :=
  cl c <= width (cf c) /\ ca c < 2 ^ width (cf c) /\ ca c mod hostsz (cf c) (cl c) = 0.

Definition wf_cidrb (c : cidr) : bool :=
  (cl c <=? width (cf c)) && (ca c <? 2 ^ width (cf c)) && (ca c mod hostsz (cf c) (cl c) =? 0).

(* net.IPNet.Contains(ip) for an address of the same family:
   the prefix bits of ip equal the prefix bits of the network. *)
Definition contains_addr (c : cidr) (x : N) : bool :=
  x / hostsz (cf c) (cl c) =? ca c / hostsz (cf c) (cl c).

(* The overlap test the Go code writes in three places
   (multi_cidr_set.go:237, allocator:718, allocator:900):
     a.Contains(b.IP.Mask(a.Mask)) || b.Contains(a.IP.Mask(b.Mask))
   x.Mask(m) clears the host bits of x under m. *)
Definition mask_addr (f : fam) (l : N) (x : N) : N := (x / hostsz f l) * hostsz f l.

Definition overlapb (a b : cidr) : bool :=
  fam_eqb (cf a) (cf b) &&
  (contains_addr a (mask_addr (cf a) (cl a) (ca b)) || contains_addr b (mask_addr (cf b) (cl b) (ca a))).

(* the mathematical notion: some address lies in both *)
Definition in_cidr (c : cidr) (x : N) : Prop :=
  ca c <= x < ca c + hostsz (cf c) (cl c).

Definition overlap (a b : cidr) : Prop :=
  cf a = cf b /\ exists x, in_cidr a x /\ in_cidr b x.

Definition subcidr (a b : cidr) : Prop :=   (* a inside b *)
  cf a = cf b /\ forall x, in_cidr a x -> in_cidr b x.
