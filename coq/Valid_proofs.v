(* Valid_proofs.v -- validation accepts exactly the documented specs; spec is immutable (C18). *)
From NIPAM Require Import Valid Prio_proofs.
From Coq Require Import Lia.
Open Scope Z_scope.

Lemma b2n_0 b : b2n b = 0%nat <-> b = false.
Proof. destruct b; cbn; split; congruence. Qed.

Lemma sum_nat_0 l : sum_nat l = 0%nat <-> Forall (fun x => x = 0%nat) l.
Proof.
  induction l as [|x l IH]; [cbn; split; constructor|].
  change (sum_nat (x :: l)) with (x + sum_nat l)%nat. split.
  - intros H. constructor; [lia|apply IH; lia].
  - intros H. inversion H; subst. apply IH in H3. lia.
Qed.

Lemma vreq_ok_spec r : vreq_errors r = 0%nat <-> vreq_ok r = true.
Proof.
  unfold vreq_errors, vreq_ok. destruct (vr_keyerrs r) as [|k]; cbn [Nat.eqb andb].
  - rewrite Nat.add_0_r. destruct (vr_op r) as [[]|]; destruct (vr_nvals r) as [|[|n]]; cbn; split; (congruence || lia).
  - split; [lia|discriminate].
Qed.

Lemma vfreq_ok_spec r : vfreq_errors r = 0%nat <-> vfreq_ok r = true.
Proof.
  unfold vfreq_errors, vfreq_ok. destruct (vf_keyname r); cbn [andb].
  - destruct (Nat.eqb_spec (vf_badvals r) 0); destruct (Nat.eqb_spec (vf_nvals r) 1);
      destruct (vf_op r) as [[]|]; cbn; split; (congruence || lia).
  - split; [lia|discriminate].
Qed.

Lemma vterm_ok_spec t : vterm_errors t = 0%nat <-> (forallb vreq_ok (vt_exprs t) && forallb vfreq_ok (vt_fields t) = true)%bool.
Proof.
  unfold vterm_errors. rewrite Bool.andb_true_iff, !forallb_forall. split.
  - intros H. assert (H1 : sum_nat (map vreq_errors (vt_exprs t)) = 0%nat) by lia.
    assert (H2 : sum_nat (map vfreq_errors (vt_fields t)) = 0%nat) by lia.
    rewrite sum_nat_0, Forall_forall in H1, H2. split; intros x Hx.
    + apply vreq_ok_spec. apply H1. apply in_map. exact Hx.
    + apply vfreq_ok_spec. apply H2. apply in_map. exact Hx.
  - intros [H1 H2].
    assert (E1 : sum_nat (map vreq_errors (vt_exprs t)) = 0%nat).
    { apply sum_nat_0, Forall_forall. intros x Hx. apply in_map_iff in Hx. destruct Hx as (r & <- & Hr). apply vreq_ok_spec. apply H1. exact Hr. }
    assert (E2 : sum_nat (map vfreq_errors (vt_fields t)) = 0%nat).
    { apply sum_nat_0, Forall_forall. intros x Hx. apply in_map_iff in Hx. destruct Hx as (r & <- & Hr). apply vfreq_ok_spec. apply H2. exact Hr. }
    lia.
Qed.

Lemma vsel_ok_spec ts : vsel_errors ts = 0%nat <-> vsel_ok ts = true.
Proof.
  unfold vsel_errors, vsel_ok. destruct ts as [|t ts]; [split; [lia|discriminate]|].
  rewrite sum_nat_0, Forall_forall, forallb_forall. split.
  - intros H x Hx. apply vterm_ok_spec. apply H. apply in_map. exact Hx.
  - intros H x Hx. apply in_map_iff in Hx. destruct Hx as (r & <- & Hr). apply vterm_ok_spec. apply H. exact Hr.
Qed.

Lemma vcidr_ok_spec want w hb f : vcidr_errors want w hb f = 0%nat <-> field_ok want w hb f = true.
Proof.
  destruct f as [| |is4 ms]; [cbn; tauto|cbn; split; [lia|discriminate]|].
  unfold vcidr_errors, field_ok.
  destruct (Bool.eqb is4 want); cbn [negb b2n andb]; [|split; [lia|discriminate]].
  destruct (Z.ltb_spec hb 4), (Z.leb_spec 4 hb), (Z.ltb_spec (w - ms) hb), (Z.leb_spec hb (w - ms)); cbn; split; (congruence || lia).
Qed.

Theorem validate_spec_accepts s : validate_spec s = 0%nat <-> accepts s = true.
Proof.
  unfold validate_spec, accepts.
  assert (Hsel : match vs_sel s with Some ts => vsel_errors ts | None => 0%nat end = 0%nat <->
                 match vs_sel s with Some ts => vsel_ok ts | None => true end = true).
  { destruct (vs_sel s); [apply vsel_ok_spec|tauto]. }
  set (se := match vs_sel s with Some ts => vsel_errors ts | None => 0%nat end) in *.
  set (so := match vs_sel s with Some ts => vsel_ok ts | None => true end) in *.
  pose proof (vcidr_ok_spec true 32 (vs_hb s) (vs_v4 s)) as H4.
  pose proof (vcidr_ok_spec false 128 (vs_hb s) (vs_v6 s)) as H6.
  set (e4 := vcidr_errors true 32 (vs_hb s) (vs_v4 s)) in *.
  set (e6 := vcidr_errors false 128 (vs_hb s) (vs_v6 s)) in *.
  set (o4 := field_ok true 32 (vs_hb s) (vs_v4 s)) in *.
  set (o6 := field_ok false 128 (vs_hb s) (vs_v6 s)) in *.
  assert (Hmain : (se + e4 + e6)%nat = 0%nat <-> (o4 && o6 && so)%bool = true).
  { rewrite !Bool.andb_true_iff. split.
    - intros H. repeat split; [apply H4|apply H6|apply Hsel]; lia.
    - intros [[A B] C]. apply H4 in A. apply H6 in B. apply Hsel in C. lia. }
  destruct (vs_v4 s) eqn:E4; destruct (vs_v6 s) eqn:E6; cbn [negb andb];
    try exact Hmain; try (rewrite Bool.andb_true_l; exact Hmain).
  split; [lia|discriminate].
Qed.

(* boundary facts, for every prefix length at once *)
Corollary hostbits_boundary (is4 : bool) (ms hb : Z) :
  let w := if is4 then 32 else 128 in
  0 <= ms <= w ->
  (accepts (mkVspec None hb (if is4 then VCidr true ms else VEmpty) (if is4 then VEmpty else VCidr false ms)) = true
   <-> 4 <= hb <= w - ms).
Proof.
  intros w Hms. unfold accepts. destruct is4; cbn; unfold w;
  destruct (Z.leb_spec 4 hb), (Z.leb_spec hb (32 - ms)), (Z.leb_spec hb (128 - ms)); cbn; split; (congruence || lia).
Qed.

(* ---- update ---- *)
Theorem validate_update_immutable u o : validate_update u o = 0%nat <-> uspec_eqb u o = true.
Proof.
  unfold validate_update, uspec_eqb.
  destruct (sel_eqb (us_sel u) (us_sel o)), (us_hb u =? us_hb o), (str_eqb (us_v4 u) (us_v4 o)), (str_eqb (us_v6 u) (us_v6 o));
    cbn; split; (congruence || lia).
Qed.

Lemma list_eqb_eq {A} (eq : A -> A -> bool) (Heq : forall a b, eq a b = true <-> a = b) l1 l2 :
  list_eqb eq l1 l2 = true <-> l1 = l2.
Proof.
  revert l2. induction l1 as [|x l1 IH]; intros [|y l2]; cbn; split; try congruence; try discriminate.
  - intros H. apply andb_prop in H. destruct H as [H1 H2]. apply Heq in H1. apply IH in H2. congruence.
  - intros H. inversion H; subst. apply andb_true_intro. split; [apply Heq; reflexivity|apply IH; reflexivity].
Qed.

Lemma opeq_eq a b : opeq a b = true <-> a = b.
Proof. destruct a, b; cbn; split; congruence. Qed.

Lemma req_eqb_eq a b : req_eqb a b = true <-> a = b.
Proof.
  unfold req_eqb. rewrite !Bool.andb_true_iff, str_eqb_eq, opeq_eq, (list_eqb_eq str_eqb str_eqb_eq).
  destruct a, b; cbn. split; [intros [[-> ->] ->]; reflexivity|intros H; inversion H; auto].
Qed.

Lemma term_eqb_eq a b : term_eqb a b = true <-> a = b.
Proof.
  unfold term_eqb. rewrite Bool.andb_true_iff, !(list_eqb_eq req_eqb req_eqb_eq).
  destruct a, b; cbn. split; [intros [-> ->]; reflexivity|intros H; inversion H; auto].
Qed.

(* the boolean comparison is equality of the compared data *)
Theorem uspec_eqb_eq u o : uspec_eqb u o = true <-> u = o.
Proof.
  unfold uspec_eqb. rewrite !Bool.andb_true_iff, Z.eqb_eq, !str_eqb_eq.
  assert (Hs : sel_eqb (us_sel u) (us_sel o) = true <-> us_sel u = us_sel o).
  { unfold sel_eqb. destruct (us_sel u), (us_sel o); try (split; congruence).
    rewrite (list_eqb_eq term_eqb term_eqb_eq). split; congruence. }
  rewrite Hs. destruct u, o; cbn. split; [intros [[[-> ->] ->] ->]; reflexivity|intros H; inversion H; auto].
Qed.
