(* Geom_proofs.v -- the Go bit code computes the aligned sub-range arithmetic (C13). *)
From NIPAM Require Import Geom BitLemmas.
From Coq Require Import ZifyN ZifyBool.
Open Scope N_scope.

Arguments N.pow : simpl never.
Arguments N.shiftl : simpl never.
Arguments N.shiftr : simpl never.
Arguments N.lor : simpl never.
Arguments N.lxor : simpl never.
Arguments N.div : simpl never.
Arguments N.modulo : simpl never.
Arguments N.mul : simpl never.
Arguments N.add : simpl never.
Arguments N.sub : simpl never.

(* ---------- small-number facts about the fixed-width helpers ---------- *)
Lemma u32_small x : x < 2 ^ 32 -> u32 x = x.
Proof. intros H. unfold u32. apply N.mod_small. exact H. Qed.
Lemma u64_small x : x < 2 ^ 64 -> u64 x = x.
Proof. intros H. unfold u64. apply N.mod_small. exact H. Qed.

Lemma sub_u32_le a b : b <= a -> a < 2 ^ 32 -> sub_u32 a b = a - b.
Proof.
  intros H Ha. unfold sub_u32. destruct (N.leb_spec b a); [|lia]. apply u32_small. lia.
Qed.
Lemma sub_u64_le a b : b <= a -> a < 2 ^ 64 -> sub_u64 a b = a - b.
Proof.
  intros H Ha. unfold sub_u64. destruct (N.leb_spec b a); [|lia]. apply u64_small. lia.
Qed.

Lemma pow2_add a b : 2 ^ a * 2 ^ b = 2 ^ (a + b).
Proof. symmetry. apply N.pow_add_r. Qed.

Lemma lt_pow2_mul (i a b c : N) : i < 2 ^ a -> a + b <= c -> i * 2 ^ b < 2 ^ c.
Proof.
  intros Hi Hc. apply N.lt_le_trans with (2 ^ (a + b)); [|apply pow2_le; exact Hc].
  rewrite <- pow2_add. pose proof (pow2_pos b). nia.
Qed.

Lemma shl32_small x s : s < 32 -> x * 2 ^ s < 2 ^ 32 -> shl32 x s = x * 2 ^ s.
Proof.
  intros Hs Hx. unfold shl32. destruct (N.ltb_spec s 32); [|lia].
  rewrite N.shiftl_mul_pow2. apply u32_small. exact Hx.
Qed.
Lemma shl64_small x s : s < 64 -> x * 2 ^ s < 2 ^ 64 -> shl64 x s = x * 2 ^ s.
Proof.
  intros Hs Hx. unfold shl64. destruct (N.ltb_spec s 64); [|lia].
  rewrite N.shiftl_mul_pow2. apply u64_small. exact Hx.
Qed.

Lemma go_max_cidrs_ok n c : c <= n -> n - c < 64 -> n < 2 ^ 32 -> go_max_cidrs n c = 2 ^ (n - c).
Proof.
  intros H1 H2 H3. unfold go_max_cidrs. rewrite sub_u32_le by lia.
  rewrite shl64_small; [lia|lia|]. rewrite N.mul_1_l. apply pow2_lt. lia.
Qed.

Lemma gW_cases g : (gf g = V4 /\ gW g = 32) \/ (gf g = V6 /\ gW g = 128).
Proof. unfold gW. destruct (gf g); [left|right]; split; reflexivity. Qed.

Lemma gmax_ok g : wf_geom g -> gmax g = maxc g.
Proof.
  intros (H1 & H2 & H3 & H4 & H5). unfold gmax, maxc.
  destruct (gW_cases g) as [[Hf HW]|[Hf HW]]; rewrite Hf in H5; rewrite HW in *.
  - apply go_max_cidrs_ok; [lia|lia|]. change (2 ^ 32) with 4294967296. lia.
  - apply go_max_cidrs_ok; [lia|lia|]. change (2 ^ 32) with 4294967296. lia.
Qed.

Lemma maxc_pos g : 0 < maxc g.
Proof. apply pow2_pos. Qed.
Lemma bsz_pos g : 0 < bsz g.
Proof. apply pow2_pos. Qed.

(* maxc * bsz = size of the range *)
Lemma maxc_bsz g : gclen g <= gnlen g -> gnlen g <= gW g -> maxc g * bsz g = 2 ^ (gW g - gclen g).
Proof. intros H1 H2. unfold maxc, bsz. rewrite pow2_add. f_equal. lia. Qed.

(* ---------- the IPv6 code works on two 64-bit halves ---------- *)
Lemma split_halves b c :
  c <= 128 -> b mod 2 ^ (128 - c) = 0 ->
  b = (b / 2 ^ 64) * 2 ^ 64 + b mod 2 ^ 64 /\
  (c <= 64 -> b mod 2 ^ 64 = 0 /\ aligned (64 - c) (b / 2 ^ 64)) /\
  (64 <= c -> aligned (128 - c) (b mod 2 ^ 64)).
Proof.
  intros Hc Hb. unfold aligned. pose proof (pow2_pos 64) as P64. split; [|split].
  - rewrite N.mul_comm. apply N.div_mod. lia.
  - intros Hc64. split.
    + apply mod_pow2_0_le with (128 - c); [lia|assumption].
    + assert (Hsp : 2 ^ (128 - c) = 2 ^ 64 * 2 ^ (64 - c)) by (rewrite pow2_add; f_equal; lia).
      rewrite Hsp in Hb. pose proof (pow2_pos (64 - c)) as Pc.
      rewrite N.mod_mul_r in Hb by lia.
      pose proof (N.mod_lt b (2 ^ 64)). nia.
  - intros Hc64. rewrite mod_mod_pow2_le by lia. assumption.
Qed.

Lemma one_block_index i c n : n = 0 -> c <= n -> i < 2 ^ (n - c) -> i = 0.
Proof. intros -> Hc Hi. assert (c = 0) by lia. subst c. change (2 ^ (0 - 0)) with 1 in Hi. lia. Qed.

Lemma v6_left_case L i c n :
  c <= n -> n <= 64 -> L mod 2 ^ (64 - c) = 0 -> i < 2 ^ (n - c) ->
  N.lor L (shl64 i (sub_u64 64 n)) = L + i * 2 ^ (64 - n).
Proof.
  intros Hc Hn HL Hi.
  rewrite sub_u64_le by (change (2 ^ 64) with 18446744073709551616; lia).
  destruct (N.eq_dec n 0) as [Hn0|Hn0].
  - rewrite (one_block_index i c n Hn0 Hc Hi). subst n. unfold shl64.
    change (64 - 0 <? 64) with false. cbn iota. rewrite N.lor_0_r. lia.
  - assert (Hlt : i * 2 ^ (64 - n) < 2 ^ (64 - c)).
    { apply lt_pow2_mul with (n - c); [exact Hi|lia]. }
    rewrite shl64_small; [|lia|].
    + apply lor_add_disjoint with (64 - c); assumption.
    + eapply N.lt_le_trans; [exact Hlt|]. apply pow2_le. lia.
Qed.

Lemma v6_right_case R i c n :
  64 <= c -> c <= n -> n <= 128 -> R mod 2 ^ (128 - c) = 0 -> i < 2 ^ (n - c) ->
  N.lor R (shl64 i (sub_u64 128 n)) = R + i * 2 ^ (128 - n).
Proof.
  intros Hc64 Hc Hn HR Hi.
  rewrite sub_u64_le by (change (2 ^ 64) with 18446744073709551616; lia).
  assert (Hlt : i * 2 ^ (128 - n) < 2 ^ (128 - c)).
  { apply lt_pow2_mul with (n - c); [exact Hi|lia]. }
  destruct (N.eq_dec n 64) as [Hn0|Hn0].
  - assert (c = 64) by lia. subst c n. change (2 ^ (64 - 64)) with 1 in Hi.
    assert (i = 0) by lia. subst i. unfold shl64. change (128 - 64 <? 64) with false. cbn iota.
    rewrite N.lor_0_r. lia.
  - rewrite shl64_small; [|lia|].
    + apply lor_add_disjoint with (128 - c); assumption.
    + eapply N.lt_le_trans; [exact Hlt|]. apply pow2_le. lia.
Qed.

Lemma bitlen_le i k : i < 2 ^ k -> bitlen i <= k.
Proof.
  intros H. destruct i as [|p]; [simpl; lia|]. unfold bitlen.
  destruct (N.eq_dec k 0) as [->|Hk]; [change (2 ^ 0) with 1 in H; lia|].
  assert (N.log2 (N.pos p) < k) by (apply N.log2_lt_pow2; lia). lia.
Qed.

Lemma v6_straddle_left L i c n :
  c < 64 -> 64 < n -> n <= 128 -> L mod 2 ^ (64 - c) = 0 -> i < 2 ^ (n - c) -> i < 2 ^ 64 ->
  (if sub_u64 n 64 <? bitlen i then N.lor L (shr64 i (sub_u64 n 64)) else L) = L + i / 2 ^ (n - 64).
Proof.
  intros Hc Hn Hn128 HL Hi Hi64. pose proof (bitlen_le i 64 Hi64) as Hbl.
  rewrite sub_u64_le by (change (2 ^ 64) with 18446744073709551616; lia).
  set (btl := n - 64).
  assert (Hq : i / 2 ^ btl < 2 ^ (64 - c)).
  { apply N.div_lt_upper_bound; [pose proof (pow2_pos btl); lia|].
    rewrite pow2_add. eapply N.lt_le_trans; [exact Hi|]. apply pow2_le. unfold btl. lia. }
  destruct (N.ltb_spec btl (bitlen i)) as [Hb|Hb].
  - unfold shr64. destruct (N.ltb_spec btl 64); [|lia].
    rewrite N.shiftr_div_pow2. apply lor_add_disjoint with (64 - c); assumption.
  - assert (Hsm : i < 2 ^ btl).
    { destruct i as [|p]; [apply pow2_pos|].
      unfold bitlen in Hb. apply N.log2_lt_pow2; lia. }
    rewrite (N.div_small _ _ Hsm). lia.
Qed.

Lemma v6_straddle_right i n :
  64 < n -> n <= 128 ->
  shl64 i (sub_u64 128 n) = (i mod 2 ^ (n - 64)) * 2 ^ (128 - n).
Proof.
  intros Hn Hn128.
  rewrite sub_u64_le by (change (2 ^ 64) with 18446744073709551616; lia).
  unfold shl64. destruct (N.ltb_spec (128 - n) 64); [|lia].
  rewrite N.shiftl_mul_pow2. unfold u64.
  replace (2 ^ 64) with (2 ^ (n - 64) * 2 ^ (128 - n)) by (rewrite pow2_add; f_equal; lia).
  pose proof (pow2_pos (n - 64)). pose proof (pow2_pos (128 - n)).
  rewrite N.mul_mod_distr_r by lia. reflexivity.
Qed.

(* ---------- T1: indexToCIDRBlock computes the i-th aligned sub-range ---------- *)
Theorem index_to_block_ok g i :
  wf_geom g -> i < maxc g -> go_index_to_block g i = block g i.
Proof.
  intros Hwf Hi. pose proof Hwf as (H1 & H2 & H3 & H4 & H5).
  change (aligned (gW g - gclen g) (gbase g)) in H4.
  unfold go_index_to_block, block, bsz, maxc in *.
  destruct (gW_cases g) as [[Hf HW]|[Hf HW]]; rewrite Hf in *; rewrite HW in *.
  - (* IPv4 *)
    f_equal.
    assert (Hi32 : i < 2 ^ 32).
    { eapply N.lt_le_trans; [exact Hi|]. apply pow2_le. lia. }
    rewrite (u32_small i Hi32).
    rewrite sub_u32_le by (change (2 ^ 32) with 4294967296; lia).
    destruct (N.eq_dec (gnlen g) 0) as [Hn0|Hn0].
    + rewrite (one_block_index i _ _ Hn0 H1 Hi). unfold shl32. rewrite Hn0.
      change (32 - 0 <? 32) with false. cbn iota. rewrite N.lor_0_r. lia.
    + assert (Hlt : i * 2 ^ (32 - gnlen g) < 2 ^ (32 - gclen g)).
      { apply lt_pow2_mul with (gnlen g - gclen g); [exact Hi|lia]. }
      rewrite shl32_small; [|lia|].
      * apply lor_add_disjoint with (32 - gclen g); assumption.
      * eapply N.lt_le_trans; [exact Hlt|]. apply pow2_le. lia.
  - (* IPv6 *)
    assert (Hi64 : i < 2 ^ 64).
    { eapply N.lt_le_trans; [exact Hi|]. apply pow2_le. lia. }
    rewrite (u64_small i Hi64).
    destruct (split_halves (gbase g) (gclen g)) as (Hbase & Hlo & Hhi); [lia|assumption|].
    set (left := gbase g / 2 ^ 64) in *. set (right := gbase g mod 2 ^ 64) in *.
    clearbody left right.
    destruct (N.leb_spec (gnlen g) 64) as [Hn|Hn].
    + f_equal. destruct Hlo as (Hr0 & Hl0); [lia|].
      rewrite (v6_left_case left i (gclen g) (gnlen g)) by assumption.
      rewrite Hbase, Hr0.
      replace (2 ^ (128 - gnlen g)) with (2 ^ (64 - gnlen g) * 2 ^ 64) by (rewrite pow2_add; f_equal; lia).
      lia.
    + f_equal.
      destruct (N.ltb_spec (gclen g) 64) as [Hc|Hc].
      * destruct Hlo as (Hr0 & Hl0); [lia|].
        rewrite (v6_straddle_left left i (gclen g) (gnlen g)) by (assumption || lia).
        rewrite Hr0, N.lor_0_l, v6_straddle_right by lia.
        rewrite Hbase, Hr0.
        set (btl := gnlen g - 64).
        replace (128 - gnlen g) with (64 - btl) by (unfold btl; lia).
        replace (2 ^ 64) with (2 ^ btl * 2 ^ (64 - btl)) by (rewrite pow2_add; f_equal; unfold btl; lia).
        pose proof (pow2_pos btl) as Pb. pose proof (N.div_mod i (2 ^ btl)) as Hdm.
        generalize dependent (2 ^ btl). generalize (2 ^ (64 - btl)). intros. nia.
      * rewrite (v6_right_case right i (gclen g) (gnlen g)) by (assumption || lia || (apply Hhi; lia)).
        rewrite Hbase. lia.
Qed.

(* ---------- intervals: what a well-formed CIDR contains ---------- *)
Lemma div_eq_interval x a s : 0 < s -> a mod s = 0 -> (x / s = a / s <-> a <= x < a + s).
Proof.
  intros Hs Ha.
  pose proof (N.div_mod a s ltac:(lia)) as Da. rewrite Ha, N.add_0_r in Da.
  pose proof (N.div_mod x s ltac:(lia)) as Dx. pose proof (N.mod_lt x s ltac:(lia)) as Mx.
  generalize dependent (x / s). generalize dependent (a / s). generalize dependent (x mod s).
  intros r Hr qa Hqa qx Hqx. clear Ha. subst a x. split.
  - intros ->. lia.
  - intros [H1 H2]. nia.
Qed.

Lemma hostsz_pos f l : 0 < hostsz f l.
Proof. apply pow2_pos. Qed.

Lemma contains_addr_spec c x : wf_cidr c -> (contains_addr c x = true <-> in_cidr c x).
Proof.
  intros (H1 & H2 & H3). unfold contains_addr, in_cidr.
  rewrite N.eqb_eq. apply div_eq_interval; [apply hostsz_pos|exact H3].
Qed.

Lemma mask_addr_le f l x : mask_addr f l x <= x.
Proof.
  unfold mask_addr. pose proof (hostsz_pos f l) as Hs.
  pose proof (N.div_mod x (hostsz f l) ltac:(lia)). nia.
Qed.

Lemma mask_addr_aligned f l x : wf_cidr (mkCidr f x l) -> mask_addr f l x = x.
Proof.
  intros (H1 & H2 & H3). cbn [cf ca cl] in *. unfold mask_addr.
  pose proof (hostsz_pos f l) as Hs.
  pose proof (N.div_mod x (hostsz f l) ltac:(lia)) as D. rewrite H3 in D. lia.
Qed.

(* s = m * t : a coarser alignment implies the finer one *)
Lemma mod_mul_0 a t m : 0 < t -> 0 < m -> a mod (m * t) = 0 -> a mod t = 0.
Proof.
  intros Ht Hm Ha.
  pose proof (N.div_mod a (m * t) ltac:(nia)) as D. rewrite Ha, N.add_0_r in D.
  rewrite D. rewrite <- N.mul_assoc, (N.mul_comm t), N.mul_assoc. apply N.mod_mul. lia.
Qed.

Lemma hostsz_split f la lb : la <= lb -> lb <= width f ->
  hostsz f la = 2 ^ (lb - la) * hostsz f lb.
Proof. intros H1 H2. unfold hostsz. rewrite pow2_add. f_equal. lia. Qed.

(* laminarity: two aligned power-of-two intervals, the second not larger than the first,
   intersect iff the second starts inside the first, iff it lies inside the first *)
Lemma laminar_core (ca cb t m : N) :
  0 < t -> 0 < m -> ca mod (m * t) = 0 -> cb mod t = 0 ->
  ((exists x, (ca <= x < ca + m * t) /\ (cb <= x < cb + t)) <-> ca <= cb < ca + m * t) /\
  (ca <= cb < ca + m * t -> cb + t <= ca + m * t).
Proof.
  intros Ht Hm Ha Hb.
  pose proof (N.div_mod ca (m * t) ltac:(nia)) as Da. rewrite Ha, N.add_0_r in Da.
  pose proof (N.div_mod cb t ltac:(lia)) as Db. rewrite Hb, N.add_0_r in Db.
  generalize dependent (ca / (m * t)). generalize dependent (cb / t). intros qb Hqb qa Hqa.
  clear Ha Hb. subst ca cb.
  assert (Hin : m * t * qa <= t * qb < m * t * qa + m * t -> t * qb + t <= m * t * qa + m * t).
  { intros [H1 H2]. assert (qb < m * qa + m) by nia. nia. }
  split; [split|exact Hin].
  - intros (x & [Hx1 Hx2] & [Hx3 Hx4]).
    assert (m * qa < qb + 1) by nia. assert (qb < m * qa + m) by nia. nia.
  - intros H. exists (t * qb). specialize (Hin H). lia.
Qed.

Lemma overlapb_spec a b : wf_cidr a -> wf_cidr b -> (overlapb a b = true <-> overlap a b).
Proof.
  intros Ha Hb. pose proof Ha as (Ha1 & Ha2 & Ha3). pose proof Hb as (Hb1 & Hb2 & Hb3).
  unfold overlapb, overlap.
  destruct (fam_eqb (cf a) (cf b)) eqn:Hf.
  2:{ cbn. split; [discriminate|]. intros [Hff _]. destruct (cf a), (cf b); discriminate. }
  assert (Hfe : cf a = cf b) by (destruct (cf a), (cf b); try reflexivity; discriminate).
  rewrite Bool.andb_true_l, Bool.orb_true_iff.
  rewrite !contains_addr_spec by assumption.
  unfold in_cidr.
  destruct (N.le_ge_cases (cl a) (cl b)) as [Hl|Hl].
  - (* a is the larger (or equal) one *)
    pose proof (hostsz_split (cf a) (cl a) (cl b) Hl ltac:(rewrite Hfe; exact Hb1)) as Hsp.
    rewrite Hfe in Hsp at 2. set (t := hostsz (cf b) (cl b)) in *. set (m := 2 ^ (cl b - cl a)) in *.
    assert (Ht : 0 < t) by apply hostsz_pos. assert (Hm : 0 < m) by apply pow2_pos.
    assert (Hmt : 0 < m * t) by (apply N.mul_pos_pos; assumption).
    assert (Hmt0 : m * t <> 0) by (apply N.neq_0_lt_0; exact Hmt).
    rewrite Hsp in Ha3.
    destruct (laminar_core (ca a) (ca b) t m Ht Hm Ha3 Hb3) as [Hiff Hin].
    rewrite Hsp. 
    assert (Hmb : mask_addr (cf a) (cl a) (ca b) <= ca b) by apply mask_addr_le.
    assert (Hma : mask_addr (cf b) (cl b) (ca a) = ca a).
    { apply mask_addr_aligned. split; [exact Hb1|split]; cbn [cf ca cl].
      - rewrite <- Hfe. exact Ha2.
      - apply mod_mul_0 with m; assumption. }
    rewrite Hma.
    (* mask of cb under a's mask is in a iff cb is in a *)
    assert (Hmb2 : ca a <= mask_addr (cf a) (cl a) (ca b) < ca a + m * t <-> ca a <= ca b < ca a + m * t).
    { unfold mask_addr. rewrite Hsp.
      pose proof (div_eq_interval (ca b) (ca a) (m * t) Hmt Ha3) as E1.
      pose proof (div_eq_interval (ca b / (m * t) * (m * t)) (ca a) (m * t) Hmt Ha3) as E2.
      rewrite N.div_mul in E2 by exact Hmt0. rewrite <- E1, <- E2. reflexivity. }
    rewrite Hmb2. split.
    + intros [H|H]; (split; [exact Hfe|]).
      * apply Hiff. exact H.
      * exists (ca a). split; [nia|exact H].
    + intros [_ Hex]. left. apply Hiff. exact Hex.
  - (* b is the larger one: symmetric *)
    pose proof (hostsz_split (cf b) (cl b) (cl a) Hl ltac:(rewrite <- Hfe; exact Ha1)) as Hsp.
    rewrite <- Hfe in Hsp at 2. set (t := hostsz (cf a) (cl a)) in *. set (m := 2 ^ (cl a - cl b)) in *.
    assert (Ht : 0 < t) by apply hostsz_pos. assert (Hm : 0 < m) by apply pow2_pos.
    assert (Hmt : 0 < m * t) by (apply N.mul_pos_pos; assumption).
    assert (Hmt0 : m * t <> 0) by (apply N.neq_0_lt_0; exact Hmt).
    rewrite Hsp in Hb3.
    destruct (laminar_core (ca b) (ca a) t m Ht Hm Hb3 Ha3) as [Hiff Hin].
    rewrite Hsp.
    assert (Hma : mask_addr (cf a) (cl a) (ca b) = ca b).
    { apply mask_addr_aligned. split; [exact Ha1|split]; cbn [cf ca cl].
      - rewrite Hfe. exact Hb2.
      - apply mod_mul_0 with m; assumption. }
    rewrite Hma.
    assert (Hmb2 : ca b <= mask_addr (cf b) (cl b) (ca a) < ca b + m * t <-> ca b <= ca a < ca b + m * t).
    { unfold mask_addr. rewrite Hsp.
      pose proof (div_eq_interval (ca a) (ca b) (m * t) Hmt Hb3) as E1.
      pose proof (div_eq_interval (ca a / (m * t) * (m * t)) (ca b) (m * t) Hmt Hb3) as E2.
      rewrite N.div_mul in E2 by exact Hmt0. rewrite <- E1, <- E2. reflexivity. }
    rewrite Hmb2. split.
    + intros [H|H]; (split; [exact Hfe|]).
      * exists (ca b). split; [exact H|nia].
      * destruct Hiff as [_ Hiff]. destruct (Hiff H) as (x & Hx1 & Hx2). exists x. split; assumption.
    + intros [_ (x & Hx1 & Hx2)]. right. apply Hiff. exists x. split; assumption.
Qed.

(* ---------- T2: blocks are aligned, disjoint, inside the range, and tile it ---------- *)
Lemma in_block g i x : in_cidr (block g i) x <-> gbase g + i * bsz g <= x < gbase g + (i + 1) * bsz g.
Proof. unfold in_cidr, block, hostsz, bsz, gW. cbn [cf ca cl]. lia. Qed.

Lemma in_grange g x : gclen g <= gnlen g -> gnlen g <= gW g ->
  (in_cidr (grange g) x <-> gbase g <= x < gbase g + maxc g * bsz g).
Proof.
  intros H1 H2. rewrite maxc_bsz by assumption. unfold in_cidr, grange, hostsz, gW. cbn [cf ca cl]. lia.
Qed.

Lemma base_mod_bsz g : wf_geom g -> gbase g mod bsz g = 0.
Proof.
  intros (H1 & H2 & H3 & H4 & H5). unfold bsz. apply mod_pow2_0_le with (gW g - gclen g); [lia|exact H4].
Qed.

Lemma block_end_fit g i : wf_geom g -> i < maxc g -> gbase g + (i + 1) * bsz g <= 2 ^ gW g.
Proof.
  intros (H1 & H2 & H3 & H4 & H5) Hi.
  assert (Hfit : gbase g + 2 ^ (gW g - gclen g) <= 2 ^ gW g) by (apply aligned_fit; [lia|exact H3|exact H4]).
  pose proof (maxc_bsz g H1 H2) as Hmb. pose proof (bsz_pos g) as Hs. clear H4. nia.
Qed.

Theorem block_wf g i : wf_geom g -> i < maxc g -> wf_cidr (block g i).
Proof.
  intros Hwf Hi. pose proof (base_mod_bsz g Hwf) as Hb. pose proof Hwf as (H1 & H2 & H3 & H4 & H5).
  unfold wf_cidr, block. cbn [cf ca cl]. fold (gW g). unfold hostsz. fold (gW g). fold (bsz g).
  split; [exact H2|split].
  - pose proof (block_end_fit g i Hwf Hi) as Hfit. pose proof (bsz_pos g) as Hs. clear H4 Hb. nia.
  - pose proof (bsz_pos g). rewrite N.add_mod, Hb, N.mod_mul, N.add_0_l, N.mod_0_l; lia.
Qed.

Theorem block_prefix g i : cl (block g i) = gnlen g /\ cf (block g i) = gf g.
Proof. split; reflexivity. Qed.

Theorem blocks_disjoint g i j : i <> j -> ~ overlap (block g i) (block g j).
Proof.
  intros Hne [_ (x & Hx1 & Hx2)]. rewrite in_block in Hx1, Hx2. pose proof (bsz_pos g). nia.
Qed.

Theorem block_in_range g i : wf_geom g -> i < maxc g -> subcidr (block g i) (grange g).
Proof.
  intros (H1 & H2 & _) Hi. split; [reflexivity|]. intros x Hx.
  rewrite in_block in Hx. rewrite in_grange by assumption. pose proof (bsz_pos g). nia.
Qed.

(* every address of the range lies in exactly one block *)
Theorem blocks_tile g x : wf_geom g -> in_cidr (grange g) x ->
  exists i, i < maxc g /\ in_cidr (block g i) x /\ forall j, in_cidr (block g j) x -> j = i.
Proof.
  intros (H1 & H2 & _) Hx. rewrite in_grange in Hx by assumption. pose proof (bsz_pos g) as Hs.
  exists ((x - gbase g) / bsz g).
  pose proof (N.div_mod (x - gbase g) (bsz g) ltac:(lia)) as D.
  pose proof (N.mod_lt (x - gbase g) (bsz g) ltac:(lia)) as M.
  generalize dependent ((x - gbase g) / bsz g). generalize dependent ((x - gbase g) mod bsz g).
  intros r Hr q Hq. split; [nia|split].
  - rewrite in_block. nia.
  - intros j Hj. rewrite in_block in Hj. nia.
Qed.

(* ---------- T3: mapping an address of block i back yields i ---------- *)
Lemma shiftr_block_offset (i r s : N) : r < 2 ^ s -> N.shiftr (i * 2 ^ s + r) s = i.
Proof.
  intros Hr. rewrite N.shiftr_div_pow2. pose proof (pow2_pos s).
  rewrite N.div_add_l by lia. rewrite (N.div_small r) by exact Hr. lia.
Qed.

Lemma maxc_lt_pow32 g : wf_geom g -> gf g = V4 -> maxc g < 2 ^ 32.
Proof.
  intros (H1 & H2 & H3 & H4 & H5) Hf. unfold gW in *. rewrite Hf in *. cbn [width] in *.
  unfold maxc. apply pow2_lt. lia.
Qed.

Lemma maxc_le_pow16 g : wf_geom g -> gf g = V6 -> maxc g <= 2 ^ 16.
Proof.
  intros (H1 & H2 & H3 & H4 & H5) Hf. rewrite Hf in *. unfold maxc. apply pow2_le. lia.
Qed.

Theorem get_index_ok g i a :
  wf_geom g -> i < maxc g -> addr_ok g a = true -> in_cidr (block g i) a -> go_get_index g a = Some i.
Proof.
  intros Hwf Hi Hok Ha. pose proof (gmax_ok g Hwf) as Hmax. pose proof Hwf as (H1 & H2 & H3 & H4 & H5).
  rewrite in_block in Ha. pose proof (bsz_pos g) as Hs. pose proof (maxc_bsz g H1 H2) as Hmb.
  set (d := a - gbase g). assert (Had : a = gbase g + d) by (unfold d; lia).
  assert (Hd : d < 2 ^ (gW g - gclen g)) by (unfold d; nia).
  assert (Hdi : exists r, d = i * bsz g + r /\ r < bsz g) by (exists (d - i * bsz g); unfold d; nia).
  destruct Hdi as (r & Hdr & Hr). clearbody d. subst a. clear Ha.
  unfold addr_ok in Hok.
  assert (Hx : N.lxor (gbase g) (gbase g + d) = d) by (apply lxor_add_disjoint with (gW g - gclen g); assumption).
  unfold go_get_index. rewrite Hmax.
  destruct (gW_cases g) as [[Hf HW]|[Hf HW]]; rewrite Hf in *.
  - pose proof (maxc_lt_pow32 g Hwf Hf) as Hm32.
    assert (Hfit : gbase g + d < 2 ^ 32).
    { pose proof (block_end_fit g i Hwf Hi) as Hfit. rewrite HW in Hfit. clear - Hfit Hdr Hr Hs. nia. }
    rewrite (u32_small (gbase g)) by (rewrite <- HW; exact H3). rewrite (u32_small _ Hfit). rewrite Hx.
    rewrite (u32_small _ Hm32).
    rewrite sub_u32_le by (rewrite HW in *; change (2 ^ 32) with 4294967296; lia).
    assert (Hidx : shr32 d (32 - gnlen g) = i).
    { unfold shr32. destruct (N.ltb_spec (32 - gnlen g) 32) as [Hlt|Hge].
      - subst d. unfold bsz. rewrite HW. apply shiftr_block_offset. unfold bsz in Hr. rewrite HW in Hr. exact Hr.
      - assert (gnlen g = 0) by lia. assert (gclen g = 0) by lia.
        symmetry. apply (one_block_index i (gclen g) (gnlen g)); [assumption|lia|exact Hi]. }
    rewrite Hidx. destruct (N.leb_spec (maxc g) i); [lia|reflexivity].
  - pose proof (maxc_le_pow16 g Hwf Hf) as Hm16.
    assert (P16 : 2 ^ 16 < 2 ^ 64) by (apply pow2_lt; lia).
    apply Bool.negb_true_iff in Hok. rewrite Hok.
    rewrite Hx. rewrite sub_u64_le by (rewrite HW in *; change (2 ^ 64) with 18446744073709551616; lia).
    assert (Hidx : N.shiftr d (128 - gnlen g) = i).
    { subst d. unfold bsz. rewrite HW. apply shiftr_block_offset. unfold bsz in Hr. rewrite HW in Hr. exact Hr. }
    rewrite Hidx. rewrite (u64_small i) by lia. rewrite (u64_small (maxc g)) by lia.
    destruct (N.leb_spec (2 ^ 64) i); [lia|].
    destruct (N.leb_spec (maxc g) i); [lia|reflexivity].
Qed.

(* ---------- T4: addresses outside the range are rejected (IPv4) ---------- *)
Lemma grange_wf g : wf_geom g -> wf_cidr (grange g).
Proof.
  intros (H1 & H2 & H3 & H4 & H5). unfold wf_cidr, grange, hostsz. cbn [cf ca cl]. fold (gW g).
  split; [lia|split; assumption].
Qed.

Theorem get_index_reject_v4 g a :
  wf_geom g -> gf g = V4 -> a < 2 ^ 32 -> ~ in_cidr (grange g) a -> go_get_index g a = None.
Proof.
  intros Hwf Hf Ha Hout. pose proof (gmax_ok g Hwf) as Hmax. pose proof (grange_wf g Hwf) as Hgr.
  pose proof (maxc_lt_pow32 g Hwf Hf) as Hm32.
  pose proof Hwf as (H1 & H2 & H3 & H4 & H5).
  assert (HW : gW g = 32) by (unfold gW; rewrite Hf; reflexivity). rewrite HW in *.
  unfold go_get_index. rewrite Hf, Hmax.
  rewrite (u32_small _ H3), (u32_small _ Ha), (u32_small _ Hm32).
  rewrite sub_u32_le by (change (2 ^ 32) with 4294967296; lia).
  (* the prefixes differ, so the XOR has a bit at or above position 32 - clen *)
  assert (Hne : gbase g / 2 ^ (32 - gclen g) <> a / 2 ^ (32 - gclen g)).
  { intros Heq. apply Hout. apply (contains_addr_spec (grange g) a Hgr).
    unfold contains_addr, grange, hostsz. cbn [cf ca cl]. rewrite Hf. cbn [width].
    apply N.eqb_eq. symmetry. exact Heq. }
  pose proof (lxor_high_differs _ _ _ Hne) as Hhigh.
  pose proof (lxor_lt_pow2 _ _ 32 H3 Ha) as Hlt.
  set (x := N.lxor (gbase g) a) in *. clearbody x.
  destruct (N.eq_dec (gnlen g) 0) as [Hn0|Hn0].
  - (* /0 range: everything is inside *)
    exfalso. assert (Hc0 : gclen g = 0) by (clear - H1 Hn0; lia). apply Hout.
    unfold in_cidr, grange, hostsz. cbn [cf ca cl]. rewrite Hf, Hc0. cbn [width].
    change (32 - 0) with 32. rewrite Hc0 in H4. change (32 - 0) with 32 in H4.
    rewrite N.mod_small in H4 by exact H3. rewrite H4. clear - Ha. lia.
  - unfold shr32. destruct (N.ltb_spec (32 - gnlen g) 32) as [Hs|Hs]; [|clear - Hs Hn0 H2; lia].
    rewrite N.shiftr_div_pow2.
    assert (Hge : maxc g <= x / 2 ^ (32 - gnlen g)).
    { unfold maxc. apply N.div_le_lower_bound; [apply N.neq_0_lt_0, pow2_pos|].
      rewrite pow2_add. replace (32 - gnlen g + (gnlen g - gclen g)) with (32 - gclen g) by (clear - H1 H2; lia). exact Hhigh. }
    destruct (N.leb_spec (maxc g) (x / 2 ^ (32 - gnlen g))); [reflexivity|lia].
Qed.

(* IPv6: the pinned tree truncated the index to 64 bits BEFORE the range test (finding D13,
   repaired: the test is now made on the unbounded value). *)
Theorem get_index_reject_v6 g a :
  wf_geom g -> gf g = V6 -> a < 2 ^ 128 -> v4mapped a = false -> ~ in_cidr (grange g) a -> go_get_index g a = None.
Proof.
  intros Hwf Hf Ha Hnm Hout. pose proof (gmax_ok g Hwf) as Hmax. pose proof (grange_wf g Hwf) as Hgr.
  pose proof (maxc_le_pow16 g Hwf Hf) as Hm16.
  assert (P16 : 2 ^ 16 < 2 ^ 64) by (apply pow2_lt; lia).
  pose proof Hwf as (H1 & H2 & H3 & H4 & H5).
  assert (HW : gW g = 128) by (unfold gW; rewrite Hf; reflexivity). rewrite HW in *.
  unfold go_get_index. rewrite Hf, Hmax, Hnm.
  rewrite sub_u64_le by (change (2 ^ 64) with 18446744073709551616; lia).
  assert (Hne : gbase g / 2 ^ (128 - gclen g) <> a / 2 ^ (128 - gclen g)).
  { intros Heq. apply Hout. apply (contains_addr_spec (grange g) a Hgr).
    unfold contains_addr, grange, hostsz. cbn [cf ca cl]. rewrite Hf. cbn [width].
    apply N.eqb_eq. symmetry. exact Heq. }
  pose proof (lxor_high_differs _ _ _ Hne) as Hhigh.
  set (x := N.lxor (gbase g) a) in *. clearbody x.
  rewrite N.shiftr_div_pow2.
  assert (Hge : maxc g <= x / 2 ^ (128 - gnlen g)).
  { unfold maxc. apply N.div_le_lower_bound; [apply N.neq_0_lt_0, pow2_pos|].
    rewrite pow2_add. replace (128 - gnlen g + (gnlen g - gclen g)) with (128 - gclen g) by (clear - H1 H2; lia). exact Hhigh. }
  set (q := x / 2 ^ (128 - gnlen g)) in *. clearbody q.
  destruct (N.leb_spec (2 ^ 64) q) as [Hbig|Hsmall]; [reflexivity|].
  rewrite (u64_small q Hsmall). rewrite (u64_small (maxc g)) by (clear - Hm16 P16; lia).
  destruct (N.leb_spec (maxc g) q); [reflexivity|]. clear - Hge H. lia.
Qed.

(* ---------- T3b: sub-ranges map to the blocks they touch ---------- *)
Lemma last_addr_ok c : wf_cidr c -> last_addr c = ca c + hostsz (cf c) (cl c) - 1.
Proof.
  intros (H1 & H2 & H3). unfold last_addr, hostsz in *. pose proof (pow2_pos (width (cf c) - cl c)) as P.
  rewrite (lor_add_disjoint (ca c) _ (width (cf c) - cl c)); [lia|exact H3|lia].
Qed.


(* in a range that does not meet ::ffff:0:0/96 no address is IPv4-mapped *)
Lemma v4zone_wf : wf_cidr v4zone.
Proof. unfold wf_cidr, v4zone, hostsz. cbn [cf ca cl width]. repeat split; vm_compute; congruence. Qed.

Lemma clean_addr_ok g x : wf_geom g -> clean_geom g = true -> in_cidr (grange g) x -> addr_ok g x = true.
Proof.
  intros Hwf Hcl Hx. unfold addr_ok, clean_geom in *. destruct (gf g) eqn:Hf; [reflexivity|].
  apply Bool.negb_true_iff. apply Bool.negb_true_iff in Hcl.
  destruct (v4mapped x) eqn:Hm; [|reflexivity]. exfalso.
  assert (Hov : overlap (grange g) v4zone).
  { split; [cbn [grange cf v4zone]; exact Hf|]. exists x. split; [exact Hx|].
    unfold v4mapped in Hm. apply N.eqb_eq in Hm.
    unfold in_cidr, v4zone, hostsz. cbn [cf ca cl width]. change (2 ^ (128 - 96)) with (2 ^ 32).
    pose proof (N.div_mod x (2 ^ 32) ltac:(apply N.pow_nonzero; discriminate)) as D.
    pose proof (N.mod_lt x (2 ^ 32) ltac:(apply N.pow_nonzero; discriminate)) as M.
    rewrite Hm in D. change (2 ^ 32) with 4294967296 in *. clear - D M. lia. }
  apply (overlapb_spec _ _ (grange_wf g Hwf) v4zone_wf) in Hov. congruence.
Qed.

(* index of the block containing an in-range address, after masking with the node mask *)
Lemma get_index_masked g x :
  wf_geom g -> clean_geom g = true -> in_cidr (grange g) x ->
  go_get_index g (mask_addr (gf g) (gnlen g) x) = Some ((x - gbase g) / bsz g) /\ (x - gbase g) / bsz g < maxc g.
Proof.
  intros Hwf Hcl Hx. pose proof Hwf as (H1 & H2 & _). pose proof (base_mod_bsz g Hwf) as Hb.
  rewrite in_grange in Hx by assumption. pose proof (bsz_pos g) as Hs.
  assert (Hlt : (x - gbase g) / bsz g < maxc g).
  { apply N.div_lt_upper_bound; [lia|]. rewrite N.mul_comm. lia. }
  split; [|exact Hlt].
  assert (Hin : in_cidr (block g ((x - gbase g) / bsz g)) (mask_addr (gf g) (gnlen g) x)).
  2:{ apply get_index_ok; [exact Hwf|exact Hlt| |exact Hin].
      apply clean_addr_ok; [exact Hwf|exact Hcl|]. apply (block_in_range g _ Hwf Hlt). exact Hin. }
  rewrite in_block. unfold mask_addr, hostsz. fold (gW g). fold (bsz g).
  pose proof (N.div_mod (gbase g) (bsz g) ltac:(lia)) as Db. rewrite Hb, N.add_0_r in Db.
  set (qb := gbase g / bsz g) in *. clearbody qb.
  assert (Hxq : x / bsz g = qb + (x - gbase g) / bsz g).
  { replace x with ((x - gbase g) + qb * bsz g) at 1 by lia. rewrite N.div_add by lia. lia. }
  rewrite Hxq. generalize dependent ((x - gbase g) / bsz g). intros q Hq Hxq. clear Hb Hxq. nia.
Qed.

Theorem begin_end_ok g c :
  wf_geom g -> clean_geom g = true -> wf_cidr c ->
  match go_begin_end g c with
  | None => ~ overlap (grange g) c
  | Some (b, e) =>
      overlap (grange g) c /\ b <= e /\ e < maxc g /\
      forall i, i < maxc g -> (overlap (block g i) c <-> b <= i <= e)
  end.
Proof.
  intros Hwf Hcl Hc. pose proof (grange_wf g Hwf) as Hgr. pose proof (gmax_ok g Hwf) as Hmax.
  unfold go_begin_end.
  destruct (overlapb (grange g) c) eqn:Hov; cbn [negb].
  2:{ intros Ho. apply (overlapb_spec _ _ Hgr Hc) in Ho. congruence. }
  apply (overlapb_spec _ _ Hgr Hc) in Hov.
  pose proof Hwf as (H1 & H2 & H3 & H4 & H5). pose proof (bsz_pos g) as Hs.
  pose proof (maxc_bsz g H1 H2) as Hmb. pose proof (maxc_pos g) as Hmp.
  pose proof Hc as (Hc1 & Hc2 & Hc3).
  destruct Hov as [Hfam (x0 & Hx0r & Hx0c)]. cbn [grange cf] in Hfam.
  destruct (N.ltb_spec (gclen g) (cl c)) as [Hlen|Hlen].
  - (* c is smaller than the range: it lies inside *)
    assert (Hsp : hostsz (gf g) (gclen g) = 2 ^ (cl c - gclen g) * hostsz (cf c) (cl c)).
    { rewrite <- Hfam. apply hostsz_split; [clear - Hlen; lia|]. rewrite Hfam. exact Hc1. }
    set (t := hostsz (cf c) (cl c)) in *. set (m := 2 ^ (cl c - gclen g)) in *.
    assert (Ht : 0 < t) by apply hostsz_pos. assert (Hm : 0 < m) by apply pow2_pos.
    destruct Hgr as (_ & _ & Hgr3). cbn [grange cf ca cl] in Hgr3. rewrite Hsp in Hgr3.
    destruct (laminar_core (gbase g) (ca c) t m Ht Hm Hgr3 Hc3) as [Hiff Hin].
    assert (Hstart : gbase g <= ca c < gbase g + m * t).
    { apply Hiff. exists x0. unfold in_cidr in Hx0r, Hx0c. cbn [grange cf ca cl] in Hx0r. rewrite Hsp in Hx0r.
      split; assumption. }
    specialize (Hin Hstart).
    assert (Hrange : m * t = maxc g * bsz g).
    { rewrite Hmb, <- Hsp. reflexivity. }
    pose proof (last_addr_ok c Hc) as Hlast. fold t in Hlast.
    assert (Hfirst_in : in_cidr (grange g) (ca c)).
    { rewrite in_grange by assumption. clear - Hstart Hin Hrange Hlast Ht. lia. }
    assert (Hlast_in : in_cidr (grange g) (last_addr c)).
    { rewrite in_grange by assumption. clear - Hstart Hin Hrange Hlast Ht. lia. }
    destruct (get_index_masked g (ca c) Hwf Hcl Hfirst_in) as [Eb Hb].
    destruct (get_index_masked g (last_addr c) Hwf Hcl Hlast_in) as [Ee He].
    rewrite Eb, Ee.
    set (b := (ca c - gbase g) / bsz g) in *. set (e := (last_addr c - gbase g) / bsz g) in *.
    assert (Hbe : b <= e).
    { unfold b, e. apply N.div_le_mono; [apply N.neq_0_lt_0; exact Hs|clear - Hstart Hin Hrange Hlast Ht; lia]. }
    split; [split; [exact Hfam|exists x0; split; assumption]|].
    split; [exact Hbe|split; [exact He|]].
    intros i Hi.
    pose proof (N.div_mod (ca c - gbase g) (bsz g) ltac:(lia)) as Db.
    pose proof (N.mod_lt (ca c - gbase g) (bsz g) ltac:(lia)) as Mb.
    pose proof (N.div_mod (last_addr c - gbase g) (bsz g) ltac:(lia)) as De.
    pose proof (N.mod_lt (last_addr c - gbase g) (bsz g) ltac:(lia)) as Me.
    fold b in Db. fold e in De.
    set (rb := (ca c - gbase g) mod bsz g) in *. set (re := (last_addr c - gbase g) mod bsz g) in *.
    clearbody b e rb re. clear Eb Ee Hiff Hgr3 Hc3 H4.
    unfold overlap. split.
    + intros [_ (x & Hx1 & Hx2)]. rewrite in_block in Hx1. unfold in_cidr in Hx2. fold t in Hx2.
      clear - Hx1 Hx2 Db Mb De Me Hlast Hstart Hs Ht. split; nia.
    + intros [Hi1 Hi2]. split; [exact Hfam|].
      (* witness: the larger of the two interval starts *)
      exists (N.max (ca c) (gbase g + i * bsz g)). rewrite in_block. unfold in_cidr. fold t.
      clear - Hi1 Hi2 Db Mb De Me Hlast Hstart Hs Ht. split; nia.
  - (* c contains the whole range: every block is touched *)
    rewrite Hmax.
    split; [split; [exact Hfam|exists x0; split; assumption]|].
    split; [clear - Hmp; lia|split; [clear - Hmp; lia|]].
    intros i Hi. split; [intros _; clear - Hi; lia|]. intros _.
    split; [exact Hfam|].
    assert (Hsp : hostsz (cf c) (cl c) = 2 ^ (gclen g - cl c) * hostsz (gf g) (gclen g)).
    { rewrite <- Hfam. apply hostsz_split; [exact Hlen|]. fold (gW g). clear - H1 H2. lia. }
    set (t := hostsz (gf g) (gclen g)) in *. set (m := 2 ^ (gclen g - cl c)) in *.
    assert (Ht : 0 < t) by apply hostsz_pos. assert (Hm : 0 < m) by apply pow2_pos.
    destruct Hgr as (_ & _ & Hgr3). cbn [grange cf ca cl] in Hgr3. fold t in Hgr3.
    rewrite Hsp in Hc3.
    destruct (laminar_core (ca c) (gbase g) t m Ht Hm Hc3 Hgr3) as [Hiff Hin].
    assert (Hstart : ca c <= gbase g < ca c + m * t).
    { apply Hiff. exists x0. unfold in_cidr in Hx0r, Hx0c. cbn [grange cf ca cl] in Hx0r. fold t in Hx0r.
      rewrite Hsp in Hx0c. split; assumption. }
    specialize (Hin Hstart).
    assert (Ht2 : t = maxc g * bsz g).
    { rewrite Hmb. reflexivity. }
    exists (gbase g + i * bsz g). rewrite in_block. unfold in_cidr. rewrite Hsp.
    clear - Hstart Hin Ht2 Hi Hs. split; nia.
Qed.

Lemma in_cidr_self c : in_cidr c (ca c).
Proof. unfold in_cidr. pose proof (hostsz_pos (cf c) (cl c)). lia. Qed.

Lemma overlap_sub_unique g i j c :
  subcidr c (block g i) -> overlap (block g j) c -> j = i.
Proof.
  intros [Hf Hsub] [_ (x & Hx1 & Hx2)]. apply Hsub in Hx2.
  destruct (N.eq_dec j i) as [E|E]; [exact E|]. exfalso.
  apply (blocks_disjoint g j i E). split; [reflexivity|]. exists x. split; assumption.
Qed.

(* any sub-range of block i maps back to exactly (i, i) *)
Theorem begin_end_subblock g i c :
  wf_geom g -> clean_geom g = true -> wf_cidr c -> i < maxc g -> subcidr c (block g i) -> go_begin_end g c = Some (i, i).
Proof.
  intros Hwf Hcl Hc Hi Hsub. pose proof (begin_end_ok g c Hwf Hcl Hc) as Hbe.
  assert (Hov : overlap (block g i) c).
  { destruct Hsub as [Hf Hs]. split; [symmetry; exact Hf|]. exists (ca c). split; [apply Hs|]; apply in_cidr_self. }
  destruct (go_begin_end g c) as [[b e]|].
  - destruct Hbe as (_ & Hbe1 & Hbe2 & Hall).
    assert (Hb : b = i).
    { apply (overlap_sub_unique g i b c Hsub). apply Hall; lia. }
    assert (He : e = i).
    { apply (overlap_sub_unique g i e c Hsub). apply Hall; lia. }
    subst. reflexivity.
  - exfalso. apply Hbe. destruct Hov as [Hf (x & Hx1 & Hx2)]. split; [exact Hf|].
    exists x. split; [|exact Hx2]. apply (block_in_range g i Hwf Hi). exact Hx1.
Qed.
