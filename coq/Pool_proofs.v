(* Pool_proofs.v -- a pool behaves exactly like a set of block numbers (C14) and its ghost
   metrics agree with it (C19). *)
From NIPAM Require Import Pool BitLemmas Geom_proofs.
From Coq Require Import ZifyN ZifyBool Permutation.
Open Scope N_scope.

Arguments N.pow : simpl never.
Arguments N.mul : simpl never.
Arguments N.add : simpl never.
Arguments N.sub : simpl never.
Arguments N.div : simpl never.
Arguments N.modulo : simpl never.

(* ---------- cidr equality ---------- *)
Lemma fam_eqb_eq a b : fam_eqb a b = true <-> a = b.
Proof. destruct a, b; cbn; split; congruence. Qed.

Lemma cidr_eqb_eq a b : cidr_eqb a b = true <-> a = b.
Proof.
  unfold cidr_eqb. rewrite !Bool.andb_true_iff, fam_eqb_eq, !N.eqb_eq.
  destruct a, b; cbn. split; [intros [[-> ->] ->]; reflexivity|intros H; inversion H; auto].
Qed.

Lemma cidr_eqb_refl a : cidr_eqb a a = true.
Proof. apply cidr_eqb_eq. reflexivity. Qed.

Lemma mem_cidr_In c l : mem_cidr c l = true <-> In c l.
Proof.
  unfold mem_cidr. rewrite existsb_exists. split.
  - intros (x & Hx & He). apply cidr_eqb_eq in He. subst. exact Hx.
  - intros H. exists c. split; [exact H|apply cidr_eqb_refl].
Qed.

Lemma mem_cidr_false c l : mem_cidr c l = false <-> ~ In c l.
Proof. rewrite <- mem_cidr_In. destruct (mem_cidr c l); split; congruence. Qed.

Lemma remove_cidr_In c x l : In x (remove_cidr c l) <-> In x l /\ x <> c.
Proof.
  unfold remove_cidr. rewrite filter_In. split; intros [H1 H2]; split; try exact H1.
  - intros ->. rewrite cidr_eqb_refl in H2. discriminate.
  - destruct (cidr_eqb c x) eqn:E; [|reflexivity]. apply cidr_eqb_eq in E. congruence.
Qed.

Lemma remove_cidr_NoDup c l : NoDup l -> NoDup (remove_cidr c l).
Proof. intros H. unfold remove_cidr. apply NoDup_filter. exact H. Qed.

Lemma remove_cidr_length c l : NoDup l -> In c l -> S (length (remove_cidr c l)) = length l.
Proof.
  induction l as [|x l IH]; intros Hnd Hin; [destruct Hin|].
  inversion Hnd as [|? ? Hx Hl]; subst. cbn [remove_cidr filter].
  destruct (cidr_eqb c x) eqn:E; cbn [negb].
  - apply cidr_eqb_eq in E. subst x. fold (remove_cidr c l).
    assert (Hid : remove_cidr c l = l).
    { unfold remove_cidr. clear IH Hnd Hin Hl. induction l as [|y l IH]; [reflexivity|].
      cbn [filter]. destruct (cidr_eqb c y) eqn:Ey.
      - apply cidr_eqb_eq in Ey. subst. exfalso. apply Hx. left. reflexivity.
      - cbn [negb]. f_equal. apply IH. intros H. apply Hx. right. exact H. }
    rewrite Hid. reflexivity.
  - cbn [length]. f_equal. apply IH; [exact Hl|]. destruct Hin as [->|Hin]; [|exact Hin].
    rewrite cidr_eqb_refl in E. discriminate.
Qed.

(* ---------- iter_range ---------- *)
Lemma iter_range_0 {S} b (f : N -> S -> S) s : iter_range b 0 f s = s.
Proof. reflexivity. Qed.

Lemma iter_range_aux {S} b n (f : N -> S -> S) s :
  N.iter n (fun st => (N.succ (fst st), f (fst st) (snd st))) (b, s) = (b + n, iter_range b n f s).
Proof.
  unfold iter_range. induction n as [|n IH] using N.peano_ind.
  - cbn. f_equal. lia.
  - rewrite N.iter_succ, IH. cbn [fst snd]. f_equal. lia.
Qed.

Lemma iter_range_succ {S} b n (f : N -> S -> S) s :
  iter_range b (N.succ n) f s = f (b + n) (iter_range b n f s).
Proof.
  unfold iter_range at 1. rewrite N.iter_succ, iter_range_aux. reflexivity.
Qed.

Lemma iter_range_ind {S} (P : N -> S -> Prop) b n (f : N -> S -> S) s :
  P 0 s -> (forall k t, k < n -> P k t -> P (N.succ k) (f (b + k) t)) -> P n (iter_range b n f s).
Proof.
  intros H0 Hstep. induction n as [|n IH] using N.peano_ind; [exact H0|].
  rewrite iter_range_succ. apply Hstep; [lia|]. apply IH. intros k t Hk. apply Hstep. lia.
Qed.

(* ---------- the invariant ---------- *)
Definition is_block (g : geom) (c : cidr) : Prop := exists i, i < maxc g /\ c = block g i.

Record PoolInv (p : pool) : Prop := {
  inv_wf : wf_geom (pg p);
  inv_max : pmax p = maxc (pg p);
  inv_nodup : NoDup (used p);
  inv_blocks : forall c, In c (used p) -> is_block (pg p) c;
  inv_cnt : cnt p = N.of_nat (length (used p));
  inv_cur : cur p < pmax p;
  (* ghost metrics (C19) *)
  inv_m_max : m_max p = pmax p;
  inv_m_diff : m_alloc p = m_rel p + cnt p
}.

(* the usage gauge, when it has been set, shows used/capacity; holds between operations
   (inside Occupy/Release it is stale until the final Set) *)
Definition UsageOk (p : pool) : Prop :=
  match m_usage p with None => True | Some (a, b) => a = cnt p /\ b = pmax p end.

Lemma block_inj g i j : block g i = block g j -> i = j.
Proof.
  unfold block. intros H. inversion H as [H1]. pose proof (bsz_pos g). nia.
Qed.

(* pigeonhole: the used list has at most maxc entries; if it has maxc, every block is used *)
Definition all_blocks (g : geom) : list cidr := map (fun k => block g (N.of_nat k)) (seq 0 (N.to_nat (maxc g))).

Lemma all_blocks_In g c : In c (all_blocks g) <-> is_block g c.
Proof.
  unfold all_blocks, is_block. rewrite in_map_iff. split.
  - intros (k & <- & Hk). apply in_seq in Hk. exists (N.of_nat k). split; [lia|reflexivity].
  - intros (i & Hi & ->). exists (N.to_nat i). split; [f_equal; lia|]. apply in_seq. lia.
Qed.

Lemma all_blocks_length g : length (all_blocks g) = N.to_nat (maxc g).
Proof. unfold all_blocks. rewrite map_length, seq_length. reflexivity. Qed.

Lemma used_le_max p : PoolInv p -> cnt p <= pmax p.
Proof.
  intros I. rewrite (inv_cnt p I), (inv_max p I).
  assert (H : (length (used p) <= length (all_blocks (pg p)))%nat).
  { apply NoDup_incl_length; [apply (inv_nodup p I)|]. intros c Hc. apply all_blocks_In. apply (inv_blocks p I c Hc). }
  rewrite all_blocks_length in H. lia.
Qed.

Lemma full_all_used p : PoolInv p -> cnt p = pmax p -> forall i, i < maxc (pg p) -> In (block (pg p) i) (used p).
Proof.
  intros I Hfull i Hi.
  assert (Hincl : incl (all_blocks (pg p)) (used p)).
  { apply NoDup_length_incl; [apply (inv_nodup p I)| |].
    - rewrite all_blocks_length. rewrite (inv_cnt p I), (inv_max p I) in Hfull. lia.
    - intros c Hc. apply all_blocks_In. apply (inv_blocks p I c Hc). }
  apply Hincl. apply all_blocks_In. exists i. split; [exact Hi|reflexivity].
Qed.

(* ---------- a new pool ---------- *)
Lemma new_pool_inv f base clen hb p :
  new_pool f base clen hb = NewOk p -> wf_geom (pg p) -> PoolInv p.
Proof.
  unfold new_pool. intros H Hwf.
  destruct (_ && _)%bool; [discriminate|]. destruct (_ || _)%bool; [discriminate|].
  inversion H; subst; clear H. cbn [pg] in Hwf.
  constructor; cbn [pg pmax used cnt cur m_max m_alloc m_rel m_usage]; try reflexivity; try exact Hwf.
  - apply gmax_ok. exact Hwf.
  - constructor.
  - intros c [].
  - rewrite gmax_ok by exact Hwf. apply maxc_pos.
Qed.

(* ---------- one block ---------- *)
Lemma occupy_one_spec p i :
  PoolInv p -> i < maxc (pg p) ->
  let p' := occupy_one i p in
  PoolInv p' /\ pg p' = pg p /\ cur p' = cur p /\ pmax p' = pmax p /\ m_rel p' = m_rel p /\ m_usage p' = m_usage p /\
  (forall c, In c (used p') <-> In c (used p) \/ c = block (pg p) i) /\
  (In (block (pg p) i) (used p) -> p' = p).
Proof.
  intros I Hi. cbn zeta. unfold occupy_one. rewrite (index_to_block_ok _ _ (inv_wf p I) Hi).
  destruct (mem_cidr (block (pg p) i) (used p)) eqn:Hm.
  - apply mem_cidr_In in Hm. repeat split; try reflexivity; try apply I.
    + intros H. left. exact H.
    + intros [H| ->]; assumption.
  - apply mem_cidr_false in Hm. cbn [pg cur pmax used m_rel m_usage].
    split; [|repeat split; try reflexivity].
    + destruct I as [Iwf Imax Ind Ibl Icnt Icur Imm Imd].
      constructor; cbn [pg pmax used cnt cur m_max m_alloc m_rel m_usage]; try assumption.
      * constructor; assumption.
      * intros c [<- |Hc]; [exists i; split; [exact Hi|reflexivity]|apply Ibl; exact Hc].
      * cbn [length]. rewrite Icnt. lia.
      * rewrite Imd. lia.
    + intros [<- |H]; [right; reflexivity|left; exact H].
    + intros [H| ->]; [right; exact H|left; reflexivity].
    + intros H. contradiction.
Qed.

Lemma release_one_spec p i :
  PoolInv p -> i < maxc (pg p) ->
  let p' := release_one i p in
  PoolInv p' /\ pg p' = pg p /\ cur p' = cur p /\ pmax p' = pmax p /\ m_alloc p' = m_alloc p /\ m_usage p' = m_usage p /\
  (forall c, In c (used p') <-> In c (used p) /\ c <> block (pg p) i) /\
  (~ In (block (pg p) i) (used p) -> p' = p).
Proof.
  intros I Hi. cbn zeta. unfold release_one. rewrite (index_to_block_ok _ _ (inv_wf p I) Hi).
  destruct (mem_cidr (block (pg p) i) (used p)) eqn:Hm.
  - apply mem_cidr_In in Hm. cbn [pg cur pmax used m_alloc m_usage].
    split; [|repeat split; try reflexivity].
    + destruct I as [Iwf Imax Ind Ibl Icnt Icur Imm Imd].
      pose proof (remove_cidr_length _ _ Ind Hm) as Hlen.
      constructor; cbn [pg pmax used cnt cur m_max m_alloc m_rel m_usage]; try assumption.
      * apply remove_cidr_NoDup. exact Ind.
      * intros c Hc. apply remove_cidr_In in Hc. apply Ibl. apply Hc.
      * rewrite Icnt. lia.
      * rewrite Imd, Icnt. lia.
    + apply remove_cidr_In in H. apply H.
    + apply remove_cidr_In in H. apply H.
    + intros [H1 H2]. apply remove_cidr_In. split; assumption.
    + intros H. contradiction.
  - apply mem_cidr_false in Hm. repeat split; try reflexivity; try apply I; try tauto.
    intros ->. contradiction.
Qed.

(* ---------- Occupy / Release on an interval of block numbers ---------- *)
Lemma occupy_range_spec p b n :
  PoolInv p -> b + n <= maxc (pg p) ->
  let p' := iter_range b n occupy_one p in
  PoolInv p' /\ pg p' = pg p /\ cur p' = cur p /\ pmax p' = pmax p /\ m_rel p' = m_rel p /\
  (forall c, In c (used p') <-> In c (used p) \/ exists i, b <= i < b + n /\ c = block (pg p) i).
Proof.
  intros I Hb. cbn zeta.
  apply (iter_range_ind (fun k t =>
    PoolInv t /\ pg t = pg p /\ cur t = cur p /\ pmax t = pmax p /\ m_rel t = m_rel p /\
    (forall c, In c (used t) <-> In c (used p) \/ exists i, b <= i < b + k /\ c = block (pg p) i))).
  - split; [exact I|]. do 4 (split; [reflexivity|]). intros c. split.
    + intros H. left. exact H.
    + intros [H|(i & Hi & _)]; [exact H|lia].
  - intros k t Hk (It & Hg & Hc & Hm & Hr & Hu).
    assert (Hi : b + k < maxc (pg t)) by (rewrite Hg; lia).
    destruct (occupy_one_spec t (b + k) It Hi) as (I' & Hg' & Hc' & Hm' & Hr' & _ & Hu' & _).
    split; [exact I'|]. do 4 (split; [congruence|]). intros c. split.
    + intros H. apply Hu' in H. destruct H as [H|H].
      * apply Hu in H. destruct H as [H|(i & Hi2 & He)]; [left; exact H|right; exists i; split; [lia|exact He]].
      * right. exists (b + k). split; [lia|]. rewrite <- Hg. exact H.
    + intros H. apply Hu'. destruct H as [H|(i & Hi2 & He)].
      * left. apply Hu. left. exact H.
      * destruct (N.eq_dec i (b + k)) as [->|Hne].
        -- right. rewrite Hg. exact He.
        -- left. apply Hu. right. exists i. split; [lia|exact He].
Qed.

Lemma release_range_spec p b n :
  PoolInv p -> b + n <= maxc (pg p) ->
  let p' := iter_range b n release_one p in
  PoolInv p' /\ pg p' = pg p /\ cur p' = cur p /\ pmax p' = pmax p /\ m_alloc p' = m_alloc p /\
  (forall c, In c (used p') <-> In c (used p) /\ ~ exists i, b <= i < b + n /\ c = block (pg p) i).
Proof.
  intros I Hb. cbn zeta.
  apply (iter_range_ind (fun k t =>
    PoolInv t /\ pg t = pg p /\ cur t = cur p /\ pmax t = pmax p /\ m_alloc t = m_alloc p /\
    (forall c, In c (used t) <-> In c (used p) /\ ~ exists i, b <= i < b + k /\ c = block (pg p) i))).
  - split; [exact I|]. do 4 (split; [reflexivity|]). intros c. split.
    + intros H. split; [exact H|]. intros (i & Hi & _). lia.
    + intros [H _]. exact H.
  - intros k t Hk (It & Hg & Hc & Hm & Hr & Hu).
    assert (Hi : b + k < maxc (pg t)) by (rewrite Hg; lia).
    destruct (release_one_spec t (b + k) It Hi) as (I' & Hg' & Hc' & Hm' & Hr' & _ & Hu' & _).
    split; [exact I'|]. do 4 (split; [congruence|]). intros c. split.
    + intros H. apply Hu' in H. destruct H as [H Hne]. apply Hu in H. destruct H as [H Hn].
      split; [exact H|]. intros (i & Hi2 & He).
      destruct (N.eq_dec i (b + k)) as [->|Hd].
      * apply Hne. rewrite Hg. exact He.
      * apply Hn. exists i. split; [lia|exact He].
    + intros [H Hn]. apply Hu'. split.
      * apply Hu. split; [exact H|]. intros (i & Hi2 & He). apply Hn. exists i. split; [lia|exact He].
      * intros He. apply Hn. exists (b + k). split; [lia|]. rewrite <- Hg. exact He.
Qed.

Lemma set_usage_inv p : PoolInv p -> PoolInv (set_usage p) /\ UsageOk (set_usage p).
Proof.
  intros [Iwf Imax Ind Ibl Icnt Icur Imm Imd]. split.
  - constructor; cbn [set_usage pg pmax used cnt cur m_max m_alloc m_rel m_usage]; assumption.
  - unfold UsageOk, set_usage. cbn. split; reflexivity.
Qed.

(* ---------- C14: Occupy / Release affect exactly the blocks the argument overlaps ---------- *)
Theorem occupy_spec p c :
  PoolInv p -> clean_geom (pg p) = true -> wf_cidr c ->
  match occupy p c with
  | None => ~ overlap (grange (pg p)) c
  | Some p' =>
      overlap (grange (pg p)) c /\ PoolInv p' /\ UsageOk p' /\ pg p' = pg p /\ cur p' = cur p /\ m_rel p' = m_rel p /\
      forall i, i < maxc (pg p) ->
        (In (block (pg p) i) (used p') <-> In (block (pg p) i) (used p) \/ overlap (block (pg p) i) c)
  end.
Proof.
  intros I Hcl Hc. unfold occupy.
  pose proof (begin_end_ok (pg p) c (inv_wf p I) Hcl Hc) as Hbe.
  destruct (go_begin_end (pg p) c) as [[b e]|]; [|exact Hbe].
  destruct Hbe as (Hov & Hbe1 & Hbe2 & Hall).
  unfold span. rewrite (inv_max p I). pose proof (maxc_pos (pg p)) as Hmp.
  destruct (N.eqb_spec (maxc (pg p)) 0) as [E|_]; [lia|].
  destruct (occupy_range_spec p b (N.succ e - b) I ltac:(lia)) as (I' & Hg & Hcur & Hm & Hr & Hu).
  destruct (set_usage_inv _ I') as [I'' U''].
  split; [exact Hov|]. split; [exact I''|]. split; [exact U''|].
  split; [exact Hg|]. split; [exact Hcur|]. split; [exact Hr|].
  intros i Hi. cbn [set_usage used]. rewrite Hu. split.
  - intros [H|(j & Hj & He)]; [left; exact H|]. apply block_inj in He. subst j.
    right. apply Hall; [exact Hi|lia].
  - intros [H|H]; [left; exact H|]. right. exists i. split; [|reflexivity]. apply Hall in H; [lia|exact Hi].
Qed.

Theorem release_spec p c :
  PoolInv p -> clean_geom (pg p) = true -> wf_cidr c ->
  match release p c with
  | None => ~ overlap (grange (pg p)) c
  | Some p' =>
      overlap (grange (pg p)) c /\ PoolInv p' /\ UsageOk p' /\ pg p' = pg p /\ cur p' = cur p /\ m_alloc p' = m_alloc p /\
      forall i, i < maxc (pg p) ->
        (In (block (pg p) i) (used p') <-> In (block (pg p) i) (used p) /\ ~ overlap (block (pg p) i) c)
  end.
Proof.
  intros I Hcl Hc. unfold release.
  pose proof (begin_end_ok (pg p) c (inv_wf p I) Hcl Hc) as Hbe.
  destruct (go_begin_end (pg p) c) as [[b e]|]; [|exact Hbe].
  destruct Hbe as (Hov & Hbe1 & Hbe2 & Hall).
  unfold span. rewrite (inv_max p I). pose proof (maxc_pos (pg p)) as Hmp.
  destruct (N.eqb_spec (maxc (pg p)) 0) as [E|_]; [lia|].
  destruct (release_range_spec p b (N.succ e - b) I ltac:(lia)) as (I' & Hg & Hcur & Hm & Hr & Hu).
  destruct (set_usage_inv _ I') as [I'' U''].
  split; [exact Hov|]. split; [exact I''|]. split; [exact U''|].
  split; [exact Hg|]. split; [exact Hcur|]. split; [exact Hr|].
  intros i Hi. cbn [set_usage used]. rewrite Hu. split.
  - intros [H Hn]. split; [exact H|]. intros Ho. apply Hn. exists i. split; [|reflexivity].
    apply Hall in Ho; [lia|exact Hi].
  - intros [H Hn]. split; [exact H|]. intros (j & Hj & He). apply block_inj in He. subst j.
    apply Hn. apply Hall; [exact Hi|lia].
Qed.

(* ---------- NextCandidate ---------- *)
Definition with_cur (p : pool) (c : N) : pool :=
  mkPool (pg p) (pmax p) (used p) (cnt p) c (m_alloc p) (m_rel p) (m_usage p) (m_max p).

Definition next_inv (p : pool) (k : N) (st : (N * N) + nextres) : Prop :=
  match st with
  | inl (cand, i) =>
      i = k /\ cand = (cur p + k) mod pmax p /\
      forall j, j < k -> In (block (pg p) ((cur p + j) mod pmax p)) (used p)
  | inr (Cand blk sk p') =>
      sk < k /\ blk = block (pg p) ((cur p + sk) mod pmax p) /\ ~ In blk (used p) /\
      (forall j, j < sk -> In (block (pg p) ((cur p + j) mod pmax p)) (used p)) /\
      p' = with_cur p (((cur p + sk) mod pmax p + 1) mod pmax p)
  | inr (Exhausted _) => False
  end.

Lemma next_iter_inv p k :
  PoolInv p -> k <= pmax p -> next_inv p k (N.iter k (next_step p) (inl (cur p, 0))).
Proof.
  intros I. pose proof (inv_cur p I) as Hcur. pose proof (inv_max p I) as Hmax.
  induction k as [|k IH] using N.peano_ind; intros Hk.
  - cbn. split; [reflexivity|split].
    + rewrite N.add_0_r. symmetry. apply N.mod_small. exact Hcur.
    + intros j Hj. lia.
  - rewrite N.iter_succ. specialize (IH ltac:(lia)).
    destruct (N.iter k (next_step p) (inl (cur p, 0))) as [[cand i]|[blk sk p'|ev]]; cbn [next_inv next_step] in *.
    + destruct IH as (-> & -> & Hall).
      assert (Hlt : (cur p + k) mod pmax p < maxc (pg p)) by (rewrite <- Hmax; apply N.mod_lt; lia).
      rewrite (index_to_block_ok _ _ (inv_wf p I) Hlt).
      destruct (mem_cidr (block (pg p) ((cur p + k) mod pmax p)) (used p)) eqn:Hm.
      * apply mem_cidr_In in Hm. split; [reflexivity|split].
        -- replace (cur p + N.succ k) with ((cur p + k) + 1) by lia.
           rewrite <- (N.add_mod_idemp_l (cur p + k) 1) by lia. reflexivity.
        -- intros j Hj. destruct (N.eq_dec j k) as [->|Hne]; [exact Hm|apply Hall; lia].
      * apply mem_cidr_false in Hm. split; [lia|]. split; [reflexivity|]. split; [exact Hm|]. split; [exact Hall|].
        reflexivity.
    + destruct IH as (Hsk & Hrest). split; [lia|exact Hrest].
    + exact IH.
Qed.

Lemma cyclic_cover (c m i : N) : c < m -> i < m -> exists j, j < m /\ (c + j) mod m = i.
Proof.
  intros Hc Hi. destruct (N.le_gt_cases c i) as [H|H].
  - exists (i - c). split; [lia|]. replace (c + (i - c)) with i by lia. apply N.mod_small. exact Hi.
  - exists (i + m - c). split; [lia|]. replace (c + (i + m - c)) with (i + 1 * m) by lia.
    rewrite N.mod_add by lia. apply N.mod_small. exact Hi.
Qed.

Lemma with_cur_inv p c : PoolInv p -> c < pmax p -> PoolInv (with_cur p c) /\ (UsageOk p -> UsageOk (with_cur p c)).
Proof.
  intros [Iwf Imax Ind Ibl Icnt Icur Imm Imd] Hc. split.
  - constructor; cbn [with_cur pg pmax used cnt cur m_max m_alloc m_rel m_usage]; assumption.
  - unfold UsageOk, with_cur. cbn. intros H. exact H.
Qed.

Theorem next_spec p :
  PoolInv p ->
  match next_candidate p with
  | Cand blk sk p' =>
      exists i, i < maxc (pg p) /\ blk = block (pg p) i /\ ~ In blk (used p) /\
        sk < pmax p /\ i = (cur p + sk) mod pmax p /\
        (forall j, j < sk -> In (block (pg p) ((cur p + j) mod pmax p)) (used p)) /\
        p' = with_cur p ((i + 1) mod pmax p) /\ PoolInv p' /\ (UsageOk p -> UsageOk p')
  | Exhausted _ => forall i, i < maxc (pg p) -> In (block (pg p) i) (used p)
  end.
Proof.
  intros I. unfold next_candidate. pose proof (inv_max p I) as Hmax. pose proof (inv_cur p I) as Hcur.
  destruct (N.eqb_spec (cnt p) (pmax p)) as [Hfull|Hnf].
  - apply full_all_used; assumption.
  - pose proof (next_iter_inv p (pmax p) I ltac:(lia)) as Hinv.
    destruct (N.iter (pmax p) (next_step p) (inl (cur p, 0))) as [[cand i]|[blk sk p'|ev]]; cbn [next_inv] in Hinv.
    + (* the loop ran out: then every block is used, so the counter equals the capacity *)
      exfalso. destruct Hinv as (_ & _ & Hall). apply Hnf.
      assert (Hallb : forall i, i < maxc (pg p) -> In (block (pg p) i) (used p)).
      { intros i0 Hi0. destruct (cyclic_cover (cur p) (pmax p) i0 Hcur ltac:(lia)) as (j & Hj & <-). apply Hall. exact Hj. }
      pose proof (used_le_max p I) as Hle.
      assert (Hincl : incl (all_blocks (pg p)) (used p)).
      { intros c Hc. apply all_blocks_In in Hc. destruct Hc as (i0 & Hi0 & ->). apply Hallb. exact Hi0. }
      assert (Hnd : NoDup (all_blocks (pg p))).
      { unfold all_blocks. apply FinFun.Injective_map_NoDup; [|apply seq_NoDup].
        intros x y Hxy. apply block_inj in Hxy. lia. }
      pose proof (NoDup_incl_length Hnd Hincl) as Hlen. rewrite all_blocks_length in Hlen.
      rewrite (inv_cnt p I) in *. lia.
    + destruct Hinv as (Hsk & -> & Hnot & Hall & ->).
      assert (Hlt : (cur p + sk) mod pmax p < maxc (pg p)) by (rewrite <- Hmax; apply N.mod_lt; lia).
      exists ((cur p + sk) mod pmax p).
      destruct (with_cur_inv p (((cur p + sk) mod pmax p + 1) mod pmax p) I ltac:(apply N.mod_lt; lia)) as [I' U'].
      repeat (split; [first [exact Hlt|reflexivity|exact Hnot|exact Hsk|exact Hall|exact I']|]). exact U'.
    + destruct Hinv.
Qed.

(* ---------- refinement to a set of block numbers, over all operation sequences ---------- *)
Definition iset := N -> Prop.
Definition abs (p : pool) : iset := fun i => In (block (pg p) i) (used p).

Definition sstep (g : geom) (S : iset) (o : pop) : iset :=
  match o with
  | POcc c => fun i => S i \/ overlap (block g i) c
  | PRel c => fun i => S i /\ ~ overlap (block g i) c
  | PNext => S
  end.

Definition wf_pop (o : pop) : Prop :=
  match o with POcc c | PRel c => wf_cidr c | PNext => True end.

Lemma pstep_refines p o :
  PoolInv p -> clean_geom (pg p) = true -> wf_pop o ->
  PoolInv (pstep p o) /\ pg (pstep p o) = pg p /\ (UsageOk p -> UsageOk (pstep p o)) /\
  forall i, i < maxc (pg p) -> (abs (pstep p o) i <-> sstep (pg p) (abs p) o i).
Proof.
  intros I Hcl Hw. destruct o as [c|c|]; cbn [pstep sstep wf_pop] in *.
  - pose proof (occupy_spec p c I Hcl Hw) as H. destruct (occupy p c) as [p'|].
    + destruct H as (_ & I' & U' & Hg & _ & _ & Hu). split; [exact I'|]. split; [exact Hg|]. split; [intros _; exact U'|].
      intros i Hi. unfold abs. rewrite Hg. apply Hu. exact Hi.
    + split; [exact I|]. split; [reflexivity|]. split; [tauto|]. intros i Hi. split; [intros Ha; left; exact Ha|].
      intros [Ha|Ho]; [exact Ha|]. exfalso. apply H. destruct Ho as [Hf (x & Hx1 & Hx2)].
      split; [exact Hf|]. exists x. split; [|exact Hx2]. apply (block_in_range _ i (inv_wf p I) Hi). exact Hx1.
  - pose proof (release_spec p c I Hcl Hw) as H. destruct (release p c) as [p'|].
    + destruct H as (_ & I' & U' & Hg & _ & _ & Hu). split; [exact I'|]. split; [exact Hg|]. split; [intros _; exact U'|].
      intros i Hi. unfold abs. rewrite Hg. apply Hu. exact Hi.
    + split; [exact I|]. split; [reflexivity|]. split; [tauto|]. intros i Hi. split; [|intros [Ha _]; exact Ha].
      intros Ha. split; [exact Ha|]. intros Ho. apply H. destruct Ho as [Hf (x & Hx1 & Hx2)].
      split; [exact Hf|]. exists x. split; [|exact Hx2]. apply (block_in_range _ i (inv_wf p I) Hi). exact Hx1.
  - pose proof (next_spec p I) as H. destruct (next_candidate p) as [blk sk p'|ev].
    + destruct H as (i0 & _ & _ & _ & _ & _ & _ & -> & I' & U'). split; [exact I'|]. split; [reflexivity|].
      split; [exact U'|]. intros i Hi. reflexivity.
    + split; [exact I|]. split; [reflexivity|]. split; [tauto|]. intros i Hi. reflexivity.
Qed.

Lemma sstep_ext g S1 S2 o : (forall i, i < maxc g -> (S1 i <-> S2 i)) -> forall i, i < maxc g -> (sstep g S1 o i <-> sstep g S2 o i).
Proof.
  intros H i Hi. destruct o; cbn [sstep]; [rewrite (H i Hi)|rewrite (H i Hi)|apply H; exact Hi]; reflexivity.
Qed.

Lemma srun_ext g ops : forall S1 S2, (forall i, i < maxc g -> (S1 i <-> S2 i)) ->
  forall i, i < maxc g -> (fold_left (sstep g) ops S1 i <-> fold_left (sstep g) ops S2 i).
Proof.
  induction ops as [|o ops IH]; intros S1 S2 H; [exact H|]. cbn [fold_left]. apply IH. apply sstep_ext. exact H.
Qed.

Theorem prun_refines ops : forall p,
  PoolInv p -> clean_geom (pg p) = true -> Forall wf_pop ops ->
  PoolInv (prun p ops) /\ pg (prun p ops) = pg p /\ (UsageOk p -> UsageOk (prun p ops)) /\
  forall i, i < maxc (pg p) -> (abs (prun p ops) i <-> fold_left (sstep (pg p)) ops (abs p) i).
Proof.
  induction ops as [|o ops IH]; intros p I Hcl Hw.
  - cbn. split; [exact I|]. split; [reflexivity|]. split; [tauto|]. intros i Hi. reflexivity.
  - inversion Hw as [|? ? Ho Hops]; subst. unfold prun. cbn [fold_left]. fold (prun (pstep p o) ops).
    destruct (pstep_refines p o I Hcl Ho) as (I1 & Hg1 & U1 & Ha1).
    destruct (IH (pstep p o) I1 ltac:(rewrite Hg1; exact Hcl) Hops) as (I2 & Hg2 & U2 & Ha2).
    split; [exact I2|]. split; [congruence|]. split; [tauto|].
    intros i Hi. rewrite Hg1 in Ha2. rewrite (Ha2 i Hi). apply srun_ext; [|exact Hi]. exact Ha1.
Qed.

(* the counter is determined by the set of used block numbers *)
Lemma abs_determines_cnt p q :
  PoolInv p -> PoolInv q -> pg p = pg q -> (forall i, i < maxc (pg p) -> (abs p i <-> abs q i)) -> cnt p = cnt q.
Proof.
  intros Ip Iq Hg Ha. rewrite (inv_cnt p Ip), (inv_cnt q Iq). f_equal.
  apply Permutation_length. apply NoDup_Permutation; [apply Ip|apply Iq|].
  intros c. split; intros Hc.
  - destruct (inv_blocks p Ip c Hc) as (i & Hi & ->). rewrite Hg. apply (Ha i Hi). exact Hc.
  - destruct (inv_blocks q Iq c Hc) as (i & Hi & ->). rewrite <- Hg in *. apply (Ha i Hi). unfold abs. rewrite <- Hg. exact Hc.
Qed.

(* repeating an operation is harmless *)
Theorem occupy_idempotent p c p1 p2 :
  PoolInv p -> clean_geom (pg p) = true -> wf_cidr c -> occupy p c = Some p1 -> occupy p1 c = Some p2 ->
  (forall i, i < maxc (pg p) -> (abs p2 i <-> abs p1 i)) /\ cnt p2 = cnt p1 /\ cur p2 = cur p1 /\
  m_alloc p2 = m_alloc p1 /\ m_rel p2 = m_rel p1.
Proof.
  intros I Hcl Hc H1 H2.
  pose proof (occupy_spec p c I Hcl Hc) as S1. rewrite H1 in S1. destruct S1 as (_ & I1 & _ & Hg1 & _ & _ & Hu1).
  pose proof (occupy_spec p1 c I1 ltac:(rewrite Hg1; exact Hcl) Hc) as S2. rewrite H2 in S2.
  destruct S2 as (_ & I2 & _ & Hg2 & Hc2 & Hr2 & Hu2).
  assert (Habs : forall i, i < maxc (pg p) -> (abs p2 i <-> abs p1 i)).
  { intros i Hi. unfold abs. rewrite Hg2, Hg1. rewrite Hg1 in Hu2. rewrite (Hu2 i Hi). rewrite (Hu1 i Hi). tauto. }
  assert (Hcnt : cnt p2 = cnt p1).
  { apply abs_determines_cnt; [exact I2|exact I1|exact Hg2|]. rewrite Hg2, Hg1. exact Habs. }
  split; [exact Habs|]. split; [exact Hcnt|]. split; [exact Hc2|]. split; [|exact Hr2].
  pose proof (inv_m_diff p2 I2). pose proof (inv_m_diff p1 I1). lia.
Qed.

Theorem release_idempotent p c p1 p2 :
  PoolInv p -> clean_geom (pg p) = true -> wf_cidr c -> release p c = Some p1 -> release p1 c = Some p2 ->
  (forall i, i < maxc (pg p) -> (abs p2 i <-> abs p1 i)) /\ cnt p2 = cnt p1 /\ cur p2 = cur p1 /\
  m_alloc p2 = m_alloc p1 /\ m_rel p2 = m_rel p1.
Proof.
  intros I Hcl Hc H1 H2.
  pose proof (release_spec p c I Hcl Hc) as S1. rewrite H1 in S1. destruct S1 as (_ & I1 & _ & Hg1 & _ & _ & Hu1).
  pose proof (release_spec p1 c I1 ltac:(rewrite Hg1; exact Hcl) Hc) as S2. rewrite H2 in S2.
  destruct S2 as (_ & I2 & _ & Hg2 & Hc2 & Hr2 & Hu2).
  assert (Habs : forall i, i < maxc (pg p) -> (abs p2 i <-> abs p1 i)).
  { intros i Hi. unfold abs. rewrite Hg2, Hg1. rewrite Hg1 in Hu2. rewrite (Hu2 i Hi). rewrite (Hu1 i Hi). tauto. }
  assert (Hcnt : cnt p2 = cnt p1).
  { apply abs_determines_cnt; [exact I2|exact I1|exact Hg2|]. rewrite Hg2, Hg1. exact Habs. }
  split; [exact Habs|]. split; [exact Hcnt|]. split; [exact Hc2|]. split; [exact Hr2|].
  pose proof (inv_m_diff p2 I2). pose proof (inv_m_diff p1 I1). lia.
Qed.

(* ---------- reserve / give back; service ranges ---------- *)
Lemma block_overlap_iff g i j : overlap (block g j) (block g i) <-> j = i.
Proof.
  split.
  - intros H. destruct (N.eq_dec j i) as [E|E]; [exact E|]. exfalso. exact (blocks_disjoint g j i E H).
  - intros ->. split; [reflexivity|]. exists (ca (block g i)). split; apply in_cidr_self.
Qed.

(* C04: a block that was free, is reserved and is then given back (failed write, other family
   exhausted, node already had CIDRs) leaves the pool exactly as it was: same used blocks, same count *)
Theorem reserve_then_release_restores p i p1 p2 :
  PoolInv p -> clean_geom (pg p) = true -> i < maxc (pg p) -> ~ In (block (pg p) i) (used p) ->
  occupy p (block (pg p) i) = Some p1 -> release p1 (block (pg p) i) = Some p2 ->
  (forall j, j < maxc (pg p) -> (abs p2 j <-> abs p j)) /\ cnt p2 = cnt p /\ pg p2 = pg p.
Proof.
  intros I Hcl Hi Hfree H1 H2. pose proof (block_wf _ _ (inv_wf p I) Hi) as Hw.
  pose proof (occupy_spec p _ I Hcl Hw) as S1. rewrite H1 in S1. destruct S1 as (_ & I1 & _ & Hg1 & _ & _ & Hu1).
  pose proof (release_spec p1 (block (pg p) i) I1 ltac:(rewrite Hg1; exact Hcl) Hw) as S2. rewrite H2 in S2.
  destruct S2 as (_ & I2 & _ & Hg2 & _ & _ & Hu2).
  assert (Habs : forall j, j < maxc (pg p) -> (abs p2 j <-> abs p j)).
  { intros j Hj. unfold abs. rewrite Hg2, Hg1. rewrite Hg1 in Hu2. rewrite (Hu2 j Hj), (Hu1 j Hj), block_overlap_iff.
    split; [intros [[H|H] Hn]; [exact H|contradiction]|]. intros H. split; [left; exact H|]. intros ->. contradiction. }
  split; [exact Habs|]. split; [|congruence].
  apply abs_determines_cnt; [exact I2|exact I|congruence|]. rewrite Hg2, Hg1. exact Habs.
Qed.

(* C09: occupying a service range marks every block it overlaps as used ... *)
Theorem occupy_marks_all_overlapping p svc p' :
  PoolInv p -> clean_geom (pg p) = true -> wf_cidr svc -> occupy p svc = Some p' ->
  pg p' = pg p /\ PoolInv p' /\ forall i, i < maxc (pg p) -> overlap (block (pg p) i) svc -> In (block (pg p) i) (used p').
Proof.
  intros I Hcl Hw H. pose proof (occupy_spec p svc I Hcl Hw) as S. rewrite H in S.
  destruct S as (_ & I' & _ & Hg & _ & _ & Hu). split; [exact Hg|]. split; [exact I'|].
  intros i Hi Ho. apply (Hu i Hi). right. exact Ho.
Qed.

(* ... and the candidate search never returns a used block, hence never one overlapping the service range *)
Theorem candidate_avoids_marked p svc blk sk p' :
  PoolInv p -> (forall i, i < maxc (pg p) -> overlap (block (pg p) i) svc -> In (block (pg p) i) (used p)) ->
  next_candidate p = Cand blk sk p' -> ~ overlap blk svc.
Proof.
  intros I Hm Hn. pose proof (next_spec p I) as S. rewrite Hn in S.
  destruct S as (i & Hi & -> & Hfree & _). intros Ho. apply Hfree. apply Hm; assumption.
Qed.

(* a range that does not meet the pool's range touches no block *)
Lemma no_overlap_no_block p svc i :
  PoolInv p -> i < maxc (pg p) -> ~ overlap (grange (pg p)) svc -> ~ overlap (block (pg p) i) svc.
Proof.
  intros I Hi Hn [Hf (x & Hx1 & Hx2)]. apply Hn. split; [exact Hf|]. exists x. split; [|exact Hx2].
  apply (block_in_range _ i (inv_wf p I) Hi). exact Hx1.
Qed.
