(* ValidSel.v -- the selector part of ClusterCIDR validation on the selector itself: what [Valid.v] takes as library answers
   about a requirement (ValidateLabelName(key) has no error; the key is metadata.name; how many errors NameIsDNSSubdomain
   reports for the values) is computed here from the requirement's key and values with the model of util/validation in
   [Lbl.v] (IsQualifiedName, IsDNS1123Subdomain).  Definitions and the characterisation they inherit. *)
From NIPAM Require Export Valid Lbl.
From NIPAM Require Import Valid_proofs.
Open Scope N_scope.

(* a requirement as the API object carries it: the operator may be none of the six *)
Record rawreq := mkRaw { rr_key : str; rr_op : option selop; rr_vals : list str }.
Record rawterm := mkRawTerm { rt_exprs : list rawreq; rt_fields : list rawreq }.

Definition metadata_name : str := [109; 101; 116; 97; 100; 97; 116; 97; 46; 110; 97; 109; 101].

(* len(IsDNS1123Subdomain(s)): too long, and / or not of the form label(.label)* *)
Definition dns_subdomain_errors (s : str) : nat :=
  (b2n (253 <? N.of_nat (length s))%N + b2n (negb (forallb dns_label_re (split_on 46 s))))%nat.

(* len(IsQualifiedName(k)): more than one '/'; an empty or malformed prefix (each error of IsDNS1123Subdomain); an empty or
   over-long name; a name not of the required form *)
Definition name_part_errors (name : str) : nat :=
  (match name with [] => 1%nat | _ => b2n (63 <? N.of_nat (length name))%N end + b2n (negb (name_re name)))%nat.
Definition qualified_name_errors (k : str) : nat :=
  match split_on 47 k with
  | [name] => name_part_errors name
  | [prefix; name] => (match prefix with [] => 1%nat | _ => dns_subdomain_errors prefix end + name_part_errors name)%nat
  | _ => 1%nat
  end.

Definition vreq_of_raw (r : rawreq) : vreq := mkVreq (rr_op r) (length (rr_vals r)) (qualified_name_errors (rr_key r)).
Definition vfreq_of_raw (r : rawreq) : vfreq :=
  mkVfreq (rr_op r) (length (rr_vals r)) (str_eqb (rr_key r) metadata_name) (sum_nat (map dns_subdomain_errors (rr_vals r))).
Definition vterm_of_raw (t : rawterm) : vterm := mkVterm (map vreq_of_raw (rt_exprs t)) (map vfreq_of_raw (rt_fields t)).

(* ValidateClusterCIDRSpec on the ranges as parsed (library answers, [Valid.v]) and the selector as given *)
Definition validate_spec_raw (sel : option (list rawterm)) (hb : Z) (v4 v6 : vfield) : nat :=
  validate_spec (mkVspec (option_map (map vterm_of_raw) sel) hb v4 v6).

(* the acceptance condition, spelled out on the selector itself *)
Definition rawreq_ok (r : rawreq) : bool :=
  valid_key (rr_key r) &&
  match rr_op r with
  | Some OpIn | Some OpNotIn => negb (Nat.eqb (length (rr_vals r)) 0)
  | Some OpExists | Some OpDoesNotExist => Nat.eqb (length (rr_vals r)) 0
  | Some OpGt | Some OpLt => Nat.eqb (length (rr_vals r)) 1
  | None => false
  end.
Definition rawfield_ok (r : rawreq) : bool :=
  str_eqb (rr_key r) metadata_name &&
  match rr_vals r with [v] => dns_subdomain v | _ => false end &&
  match rr_op r with Some OpIn | Some OpNotIn => true | _ => false end.
Definition rawsel_ok (ts : list rawterm) : bool :=
  match ts with [] => false | _ => forallb (fun t => forallb rawreq_ok (rt_exprs t) && forallb rawfield_ok (rt_fields t)) ts end.

Lemma dns_subdomain_errors_0 v : Nat.eqb (dns_subdomain_errors v) 0 = dns_subdomain v.
Proof.
  unfold dns_subdomain_errors, dns_subdomain. rewrite N.leb_antisym.
  destruct (253 <? N.of_nat (length v)); destruct (forallb dns_label_re (split_on 46 v)); reflexivity.
Qed.

Lemma name_part_errors_0 name : Nat.eqb (name_part_errors name) 0 = ((N.of_nat (length name) <=? 63) && name_re name)%bool.
Proof.
  unfold name_part_errors. destruct name as [|c name]; [reflexivity|]. rewrite N.leb_antisym.
  destruct (63 <? N.of_nat (length (c :: name))); destruct (name_re (c :: name)); reflexivity.
Qed.

Lemma add_eqb_0 p q : Nat.eqb (p + q) 0 = (Nat.eqb p 0 && Nat.eqb q 0)%bool.
Proof. destruct p; [reflexivity|]. reflexivity. Qed.

Lemma qualified_name_errors_0 k : Nat.eqb (qualified_name_errors k) 0 = valid_key k.
Proof.
  unfold qualified_name_errors, valid_key. destruct (split_on 47 k) as [|a [|b [|c l]]]; try reflexivity.
  - apply name_part_errors_0.
  - rewrite add_eqb_0, name_part_errors_0. destruct a as [|x a]; [reflexivity|]. cbn [is_nil negb andb].
    rewrite dns_subdomain_errors_0. rewrite andb_assoc. reflexivity.
Qed.

Lemma vreq_of_raw_ok r : vreq_ok (vreq_of_raw r) = rawreq_ok r.
Proof. unfold vreq_ok, vreq_of_raw, rawreq_ok. cbn [vr_keyerrs vr_op vr_nvals]. rewrite qualified_name_errors_0. reflexivity. Qed.

Lemma vfreq_of_raw_ok r : vfreq_ok (vfreq_of_raw r) = rawfield_ok r.
Proof.
  unfold vfreq_ok, vfreq_of_raw, rawfield_ok. cbn [vf_keyname vf_badvals vf_nvals vf_op].
  destruct (str_eqb (rr_key r) metadata_name); [|reflexivity]. cbn [andb].
  destruct (rr_vals r) as [|v [|v2 l]].
  - reflexivity.
  - cbn [map sum_nat fold_right length]. rewrite Nat.add_0_r, dns_subdomain_errors_0.
    destruct (dns_subdomain v); destruct (rr_op r) as [[]|]; reflexivity.
  - cbn [length Nat.eqb]. rewrite andb_false_r. reflexivity.
Qed.

Lemma forallb_map_ext {A B} (f : B -> bool) (g : A -> bool) (h : A -> B) l : (forall x, f (h x) = g x) -> forallb f (map h l) = forallb g l.
Proof. intros H. induction l as [|x l IH]; [reflexivity|]. cbn. rewrite H, IH. reflexivity. Qed.

Lemma vsel_of_raw_ok ts : vsel_ok (map vterm_of_raw ts) = rawsel_ok ts.
Proof.
  unfold vsel_ok, rawsel_ok. destruct ts as [|t ts]; [reflexivity|]. change (map vterm_of_raw (t :: ts)) with (vterm_of_raw t :: map vterm_of_raw ts).
  change (match vterm_of_raw t :: map vterm_of_raw ts with [] => false | _ => ?x end) with x.
  rewrite <- (map_cons vterm_of_raw t ts). apply forallb_map_ext. intros x. unfold vterm_of_raw. cbn [vt_exprs vt_fields].
  rewrite (forallb_map_ext vreq_ok rawreq_ok vreq_of_raw _ vreq_of_raw_ok), (forallb_map_ext vfreq_ok rawfield_ok vfreq_of_raw _ vfreq_of_raw_ok).
  reflexivity.
Qed.

(* no field error exactly when: a range is given, every given range parses, is of its family and leaves room for the host
   bits, 4 <= perNodeHostBits, and the selector -- if any -- has a term, every matchExpressions requirement has a key that is a
   qualified name and the number of values its operator asks for, and every matchFields requirement is metadata.name In / NotIn
   exactly one value that is a DNS subdomain *)
Theorem validate_spec_raw_accepts sel hb v4 v6 :
  validate_spec_raw sel hb v4 v6 = 0%nat <->
  (negb (match v4, v6 with VEmpty, VEmpty => true | _, _ => false end) && field_ok true 32 hb v4 && field_ok false 128 hb v6 &&
   match sel with Some ts => rawsel_ok ts | None => true end)%bool = true.
Proof.
  unfold validate_spec_raw. rewrite validate_spec_accepts. unfold accepts. cbn [vs_v4 vs_v6 vs_hb vs_sel].
  destruct sel as [ts|]; cbn [option_map]; [rewrite vsel_of_raw_ok|]; reflexivity.
Qed.

(* ------------------------------------------------------------------ validation and the map key (C18 meets C17) *)
(* A matchExpressions requirement that validation accepts is one labels.NewRequirement accepts -- hence, by the round trip
   (Lbl_proofs), one that gets a map key unless it has the D23 shape -- PROVIDED its values are label values and, for Gt / Lt,
   an integer: exactly what validation does not look at.  (A ClusterCIDR that passes validation but fails one of these is
   rejected by the controller when it is created: C17_unrepresentable_selector_rejected.) *)
Definition req_of_raw (r : rawreq) (op : selop) : req := mkReq (rr_key r) op (rr_vals r).

Theorem validated_requirement_is_accepted r op :
  rr_op r = Some op -> rawreq_ok r = true -> forallb valid_value (rr_vals r) = true ->
  (match op with OpGt | OpLt => forallb (fun v => is_some (parse_int64 v)) (rr_vals r) = true | _ => True end) ->
  new_req_ok (req_of_raw r op) = true.
Proof.
  intros Hop Hok Hv Hi. unfold rawreq_ok in Hok. rewrite Hop in Hok. apply andb_true_iff in Hok. destruct Hok as [Hk Hc].
  unfold new_req_ok, req_of_raw. cbn [rkey rvals rop]. rewrite Hk, Hv. cbn [andb].
  destruct op; destruct (rr_vals r) as [|v [|v2 l]]; cbn in *; try reflexivity; try discriminate.
  - rewrite andb_true_r in Hi. exact Hi.
  - rewrite andb_true_r in Hi. exact Hi.
Qed.

(* what validation does not look at, by example: each of these passes validation and is refused by NewRequirement *)
Example validation_does_not_look_at_values :
  let r1 := mkRaw [122] (Some OpIn) [[97; 32; 98]] in      (* z in ("a b") *)
  let r2 := mkRaw [122] (Some OpGt) [[97]] in               (* z > a *)
  rawreq_ok r1 = true /\ new_req_ok (req_of_raw r1 OpIn) = false /\ rawreq_ok r2 = true /\ new_req_ok (req_of_raw r2 OpGt) = false.
Proof. vm_compute. repeat split. Qed.
