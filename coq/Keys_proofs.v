(* Keys_proofs.v -- where the keys of the controller's map come from, in every history: every key under which a ClusterCIDR is
   filed is the selector key of an object the controller was given (created through the API, or its own default ClusterCIDR).
   With [Lbl_proofs] (the print / parse round trip): when every object's key is what nodeSelectorKey computes from its selector,
   every key of the map of every reachable world is read back by labels.Parse -- matchCIDRLabels fails on no key, and the
   collection of matching ClusterCIDRs for a node never fails because of some ClusterCIDR's selector (what D23 broke). *)
From NIPAM Require Import Sys Geom_proofs Pool_proofs Prio_proofs Alloc_proofs Inv_proofs Sys_proofs World_proofs Complete_proofs Resv_proofs Path_proofs NoPanic_proofs Svc_proofs Term_proofs Uniq_proofs Default_proofs Sel Lbl Sel_proofs Lbl_proofs.
From Coq Require Import Lia.
Open Scope N_scope.

Section Keys.
  Variable G : str -> Prop.                 (* a property of selector keys *)

  Definition okey (o : ccobj) : Prop := forall k, o_selkey o = Some k -> G k.
  Lemma okey_ext o o' : o_selkey o' = o_selkey o -> okey o -> okey o'.
  Proof. intros E H k Hk. apply H. rewrite <- E. exact Hk. Qed.

  Definition KG (m : cidrmap) : Prop := forall k l, In (k, l) m -> G k.

  Lemma kg_shape m m' : shape m' = shape m -> KG m -> KG m'.
  Proof.
    intros Hs H k l Hin. apply (in_map fst) in Hin. cbn [fst] in Hin. rewrite (shape_keys _ _ Hs) in Hin.
    apply in_map_iff in Hin. destruct Hin as ([k0 l0] & E & Hin). cbn in E. subst k0. exact (H k l0 Hin).
  Qed.

  Lemma kg_set_key_present m k l l0 : KG m -> find_key k m = Some l0 -> KG (set_key k l m).
  Proof.
    intros H Ef k0 l1 Hin. apply in_set_key in Hin. destruct Hin as [E|Hin]; [|exact (H _ _ Hin)].
    inversion E; subst. exact (H _ _ (find_key_In _ _ _ Ef)).
  Qed.

  Lemma kg_del_key m k : KG m -> KG (del_key k m).
  Proof. intros H k0 l0 Hin. apply in_del_key in Hin. exact (H _ _ Hin). Qed.

  Lemma kg_set_entry m p c c' : KG m -> get_entry m p = Some c -> KG (set_entry m p c').
  Proof.
    intros H Hg. unfold get_entry in Hg. unfold set_entry. destruct (find_key (fst p) m) as [l|] eqn:Ef; [|discriminate].
    eapply kg_set_key_present; eassumption.
  Qed.

  Lemma kg_map_set m k c : KG m -> G k -> KG (map_set m k c).
  Proof.
    intros H Hk. unfold map_set. destruct (find_key k m) as [l|] eqn:Ef.
    - eapply kg_set_key_present; eassumption.
    - intros k0 l0 Hin. apply in_app_or in Hin. destruct Hin as [Hin|[E|[]]]; [exact (H _ _ Hin)|]. inversion E; subst. exact Hk.
  Qed.

  Lemma kg_create m o term boot out m' r fx : KG m -> okey o -> create_cluster_cidr m o term boot out = (m', r, fx) -> KG m'.
  Proof.
    unfold create_cluster_cidr. intros N Ho H.
    destruct (o_selkey o) as [k|] eqn:Ek; [|inversion H; subst; exact N].
    destruct (create_set o term boot) as [c|e|] eqn:Ec; try (inversion H; subst; exact N).
    assert (Hm : KG (if is_mapped m k (o_name o) then m else map_set m k c)).
    { destruct (is_mapped m k (o_name o)); [exact N|]. apply kg_map_set; [exact N|]. apply Ho. exact Ek. }
    destruct (cc_v4 c), (cc_v6 c); try (inversion H; subst; exact N);
      (destruct boot; [|destruct (need_finalizer o); [destruct out|]]); inversion H; subst; first [exact Hm|exact N].
  Qed.

  Lemma kg_delete m o m' r : KG m -> delete_cluster_cidr m o = (m', r) -> KG m'.
  Proof.
    unfold delete_cluster_cidr. intros N H. destruct (o_selkey o) as [k|]; [|inversion H; subst; exact N].
    destruct (find_key k m) as [l|] eqn:Ef; [|inversion H; subst; exact N].
    destruct (find_name (o_name o) l 0) as [[i c]|] eqn:En; [|inversion H; subst; exact N].
    destruct (find_name_spec _ _ _ _ _ En) as (_ & Hn & _). rewrite Nat.sub_0_r in Hn.
    assert (Hg : get_entry m (k, i) = Some c) by (unfold get_entry; cbn; rewrite Ef; exact Hn).
    assert (N1 : KG (set_entry m (k, i) (with_term c true))) by (eapply kg_set_entry; eassumption).
    destruct (cc_assoc c); [|inversion H; subst; exact N1].
    destruct l as [|c0 [|c1 l']]; [cbn in En; discriminate|..]; inversion H; subst; clear H.
    - apply kg_del_key. exact N1.
    - intros k0 l0 Hin. apply in_set_key in Hin. destruct Hin as [E|Hin]; [|exact (N1 k0 l0 Hin)].
      inversion E; subst. exact (N _ _ (find_key_In _ _ _ Ef)).
  Qed.

  Lemma kg_remove_deleted m name : KG m -> KG (remove_deleted m name).
  Proof.
    intros N k l Hin. apply (in_map fst) in Hin. cbn [fst] in Hin. apply remove_deleted_keys in Hin.
    apply in_map_iff in Hin. destruct Hin as ([k0 l0] & E & Hin). cbn in E. subst k0. exact (N _ _ Hin).
  Qed.

  Theorem sync_cc_kg m key cached out m' r fx : KG m -> (forall o, cached = Some o -> okey o) -> sync_cc m key cached out = (m', r, fx) -> KG m'.
  Proof.
    intros N Hc H. unfold sync_cc in H. destruct cached as [o|]; [|inversion H; subst; apply kg_remove_deleted; exact N].
    destruct (o_deleting o).
    - unfold reconcile_delete in H. destruct (delete_cluster_cidr m o) as [m1 r1] eqn:Ed.
      pose proof (kg_delete _ _ _ _ N Ed) as N1.
      destruct r1 as [[]|e|]; [destruct (has_str finalizer (o_fins o))|..]; inversion H; subst; exact N1.
    - unfold reconcile_create in H. destruct (need_finalizer o || negb (is_mapped_obj m o))%bool; [|inversion H; subst; exact N].
      eapply kg_create; [exact N|apply Hc; reflexivity|exact H].
  Qed.

  Theorem sync_node_kg po lab svcs canp apisame held m cached reread outs m' r fx :
    KG m -> sync_node po lab svcs canp apisame held m cached reread outs = (m', r, fx) -> KG m'.
  Proof. intros N H. eapply kg_shape; [eapply sync_node_shape; exact H|exact N]. Qed.

  Lemma release_cidr_kg svcs m node m' r : KG m -> release_cidr svcs m node = (m', r) -> KG m'.
  Proof. intros N H. eapply kg_shape; [eapply release_cidr_shape; exact H|exact N]. Qed.

  Lemma bootstrap_kg os : forall m outs m' fx, KG m -> Forall okey os -> bootstrap_ccs m os outs = (m', fx) -> KG m'.
  Proof.
    induction os as [|o os IH]; intros m outs m' fx N Ho H; cbn in H; [inversion H; subst; exact N|].
    inversion Ho as [|? ? Ho1 Ho2]; subst.
    destruct (reconcile_bootstrap m o (match outs with x :: _ => x | [] => UOk end)) as [[m1 r1] fx1] eqn:E1.
    destruct (bootstrap_ccs m1 os (tl outs)) as [m2 fx2] eqn:E2. inversion H; subst.
    eapply IH; [|exact Ho2|exact E2]. eapply kg_create; [exact N|exact Ho1|exact E1].
  Qed.

  Lemma kg_filter_service m svc : KG m -> KG (filter_service m svc).
  Proof.
    intros N k l Hin. unfold filter_service in Hin. apply in_map_iff in Hin. destruct Hin as ([k0 l0] & E & Hin). cbn [fst snd] in E.
    inversion E; subst. exact (N _ _ Hin).
  Qed.

  Lemma occupy_nodes_kg po lab ns : forall m m' pan, KG m -> occupy_nodes po lab m ns = (m', pan) -> KG m'.
  Proof.
    induction ns as [|n ns IH]; intros m m' pan N H; cbn in H; [inversion H; subst; exact N|].
    destruct (n_cidrs n) eqn:En; [eapply IH; eassumption|].
    destruct (occupy_cidrs po lab m n) as [m1 r1] eqn:Eo.
    assert (N1 : KG m1) by (eapply kg_shape; [eapply occupy_cidrs_shape; exact Eo|exact N]).
    destruct r1; try (eapply IH; eassumption). inversion H; subst. exact N1.
  Qed.

  Theorem construct_kg po lab ccs outs s1 s2 nodes m fx pan :
    Forall okey ccs -> construct po lab ccs outs s1 s2 nodes = (m, fx, pan) -> KG m.
  Proof.
    unfold construct. intros Ho H.
    destruct (bootstrap_ccs [] ccs outs) as [m1 fx1] eqn:Eb.
    assert (N1 : KG m1) by (eapply (bootstrap_kg ccs [] outs m1 fx1); [intros k l []|exact Ho|exact Eb]).
    set (m2 := match s1 with Some s => filter_service m1 s | None => m1 end) in *.
    assert (N2 : KG m2) by (unfold m2; destruct s1; [apply kg_filter_service|]; exact N1).
    set (m3 := match s2 with Some s => filter_service m2 s | None => m2 end) in *.
    assert (N3 : KG m3) by (unfold m3; destruct s2; [apply kg_filter_service|]; exact N2).
    destruct (occupy_nodes po lab m3 nodes) as [m4 p4] eqn:Eo. inversion H; subst.
    eapply occupy_nodes_kg; eassumption.
  Qed.

  (* ------------------------------------------------------------------ the closed loop *)
  Hypothesis Gd : G default_key.

  Record J (w : world) : Prop := {
    j_ccs : Forall okey (w_ccs w);
    j_cfeed : Forall (fun e => okey (cev_obj e)) (w_cfeed w);
    j_ccache : Forall okey (w_ccache w);
    j_cfetch : forall wk key o, In (wk, (key, Some o)) (w_cfetch w) -> okey o;
    j_ctl : forall m, w_ctl w = Some m -> KG m
  }.

  Ltac jsplit I :=
    let a := fresh "Jc" in let b := fresh "Jf" in let c := fresh "Jcc" in let d := fresh "Jft" in let e := fresh "Jm" in
    destruct I as [a b c d e]; constructor;
    cbn [w_nodes w_ccs w_rv w_nfeed w_cfeed w_ncache w_ccache w_nq w_cq w_ctl w_synced w_nfetch w_cfetch w_svc w_delseen
         set_api set_ctl set_caches set_queues set_fetch set_delseen crashed] in *.

  Lemma j_same w w' : w_ccs w' = w_ccs w -> w_cfeed w' = w_cfeed w -> w_ccache w' = w_ccache w -> w_cfetch w' = w_cfetch w ->
    w_ctl w' = w_ctl w -> J w -> J w'.
  Proof. intros E1 E2 E3 E4 E5 [a b c d e]. constructor; rewrite ?E1, ?E2, ?E3, ?E4, ?E5; assumption. Qed.

  Lemma push_cev_j w e : Forall (fun e => okey (cev_obj e)) (w_cfeed w) -> okey (cev_obj e) -> Forall (fun e => okey (cev_obj e)) (push_cev w e).
  Proof. intros H He. unfold push_cev. destruct (w_synced w); [apply Forall_snoc; assumption|exact H]. Qed.

  Lemma in_ccs_okey w o : J w -> In o (w_ccs w) -> okey o.
  Proof. intros I H. pose proof (j_ccs w I) as F. rewrite Forall_forall in F. apply F. exact H. Qed.
  Lemma cached_cc_okey w k o : J w -> find_cc k (w_ccache w) = Some o -> okey o.
  Proof. intros I H. pose proof (j_ccache w I) as F. rewrite Forall_forall in F. apply F. eapply find_cc_in. exact H. Qed.

  Lemma apply_patch_j w n cs o : J w -> J (apply_patch w n cs o).
  Proof.
    intros I. unfold apply_patch. destruct o; try exact I;
      (destruct (find_anode n (w_nodes w)) as [a|]; [|exact I]; destruct (an_cidrs a); [|exact I]);
      apply (j_same w); try reflexivity; exact I.
  Qed.

  Lemma apply_update_cc_j w o' out : J w -> J (apply_update_cc w o' out).
  Proof.
    intros I. unfold apply_update_cc. destruct out; try exact I;
      (destruct (find_cc (o_name o') (w_ccs w)) as [cur|] eqn:Ec; [|exact I]; destruct (negb (o_rv cur =? o_rv o')); [exact I|]).
    all: assert (Hg : okey cur) by (apply (in_ccs_okey w cur I); eapply find_cc_in; exact Ec).
    all: match goal with |- context [with_rv ?x ?r] => assert (Hs : okey (with_rv x r)) by (eapply okey_ext; [|exact Hg]; reflexivity) end.
    all: match goal with |- context [if ?b then _ else _] => destruct b end.
    all: jsplit I; try assumption.
    all: try (apply Forall_del_cc; assumption).
    all: try (apply Forall_put_cc; assumption).
    all: apply push_cev_j; assumption.
  Qed.

  Lemma apply_create_cc_j w o' out : J w -> okey o' -> J (apply_create_cc w o' out).
  Proof.
    intros I Hg. unfold apply_create_cc. destruct out; try exact I; (destruct (find_cc (o_name o') (w_ccs w)); [exact I|]).
    all: assert (Hs : okey (with_rv o' (w_rv w + 1))) by (eapply okey_ext; [|exact Hg]; reflexivity).
    all: jsplit I; try assumption.
    all: try (apply Forall_snoc; assumption).
    all: apply push_cev_j; assumption.
  Qed.

  Definition fx_okey (fx : list effect) : Prop := forall o' out, In (FxCreateCC o' out) fx -> okey o'.

  Lemma apply_effects_j fx : forall w, J w -> fx_okey fx -> J (apply_effects w fx).
  Proof.
    induction fx as [|e fx IH]; intros w I Hc; [exact I|].
    assert (Ht : fx_okey fx) by (intros o' out Hin; eapply Hc; right; exact Hin).
    destruct e; cbn [apply_effects].
    - apply IH; [apply apply_patch_j; exact I|exact Ht].
    - apply IH; [exact I|exact Ht].
    - apply IH; [exact I|exact Ht].
    - apply IH; [apply apply_update_cc_j; exact I|exact Ht].
    - apply IH; [apply apply_create_cc_j; [exact I|eapply Hc; left; reflexivity]|exact Ht].
  Qed.

  Lemma crashed_j w : J w -> J (crashed w).
  Proof. intros I. jsplit I; try assumption; try constructor; try (intros; contradiction). intros; discriminate. Qed.

  Lemma after_call_j {A} w (r : res A) m' : J w -> KG m' -> J (after_call w r m').
  Proof.
    intros I M. unfold after_call. destruct r; try (apply crashed_j; exact I).
    all: jsplit I; try assumption; intros m0 E; inversion E; subst; exact M.
  Qed.

  Lemma set_queues_j w a b : J w -> J (set_queues w a b).
  Proof. intros I. apply (j_same w); try reflexivity; exact I. Qed.
  Lemma set_delseen_j w d : J w -> J (set_delseen w d).
  Proof. intros I. apply (j_same w); try reflexivity; exact I. Qed.

  Section WorldKeys.
    Variable po : parse_oracle.
    Variable lab : label_oracle.

    Lemma run_node_sync_j w cached key outs : J w -> J (fst (run_node_sync po lab w cached key outs)).
    Proof.
      intros I. unfold run_node_sync. destruct (w_ctl w) as [m|] eqn:Em; [|exact I].
      destruct (sync_node po lab (svc_list (w_svc w)) (can_patch w key) (api_same w key) (held_cidrs (w_ncache w)) m cached (find_node key (w_ncache w)) outs)
        as [[m' r] fx] eqn:Es.
      cbn [fst]. apply apply_effects_j.
      - apply after_call_j; [exact I|]. eapply sync_node_kg; [exact (j_ctl w I m Em)|exact Es].
      - intros o' uo Hin. pose proof (sync_node_no_cc_write _ _ _ _ _ _ _ _ _ _ _ _ _ Es _ Hin) as Hp. discriminate Hp.
    Qed.

    Lemma run_cc_sync_j w key cached out : J w -> (forall o, cached = Some o -> okey o) -> J (fst (run_cc_sync w key cached out)).
    Proof.
      intros I Hc. unfold run_cc_sync. destruct (w_ctl w) as [m|] eqn:Em; [|exact I].
      match goal with |- context [sync_cc m key cached ?o] => destruct (sync_cc m key cached o) as [[m' r] fx] eqn:Es end.
      cbn [fst]. assert (M' : KG m') by (eapply sync_cc_kg; [exact (j_ctl w I m Em)|exact Hc|exact Es]).
      apply apply_effects_j.
      - destruct cached as [o|]; [|apply after_call_j; assumption].
        match goal with |- context [if ?b then _ else _] => destruct b end; [apply set_delseen_j|]; apply after_call_j; assumption.
      - intros o' uo Hin. destruct cached as [o|]; [|cbn in Es; inversion Es; subst; destruct Hin].
        destruct (sync_cc_create_same _ _ _ _ _ _ _ Es _ _ Hin) as (_ & _ & _ & _ & Hk & _).
        eapply okey_ext; [exact Hk|apply Hc; reflexivity].
    Qed.

    Lemma handle_nevent_j w e : J w -> J (fst (handle_nevent w e)).
    Proof.
      intros I. unfold handle_nevent. destruct e as [n|n|n].
      - cbn [set_caches w_ctl]. destruct (w_ctl w) eqn:Em; cbn [fst]; apply (j_same w); try reflexivity; exact I.
      - cbn [set_caches w_ctl]. destruct (w_ctl w) eqn:Em; cbn [fst]; apply (j_same w); try reflexivity; exact I.
      - cbn [set_caches w_ctl w_svc]. destruct (w_ctl w) as [m|] eqn:Em.
        + destruct (release_cidr (svc_list (w_svc w)) m n) as [m' r] eqn:Er.
          pose proof (release_cidr_kg _ m n m' r (j_ctl w I m Em) Er) as M'.
          destruct r; cbn [fst].
          * jsplit I; try assumption. intros m0 E; inversion E; subst; exact M'.
          * jsplit I; try assumption. intros m0 E; inversion E; subst; exact M'.
          * apply crashed_j. apply (j_same w); try reflexivity; exact I.
        + cbn [fst]. apply (j_same w); try reflexivity; exact I.
    Qed.

    Lemma handle_cevent_j w e : J w -> okey (cev_obj e) -> J (fst (handle_cevent w e)).
    Proof.
      intros I He. unfold handle_cevent.
      destruct e as [o|o|o]; cbn [cev_obj] in He; cbn [set_caches w_ctl]; destruct (w_ctl w) eqn:Em; cbn [fst];
        jsplit I; try assumption; first [apply Forall_put_cc; assumption|apply Forall_del_cc; assumption].
    Qed.

    Lemma deliver_all_n_j es : forall w acc, J w -> J (fst (deliver_all_n w es acc)).
    Proof.
      induction es as [|e es IH]; intros w acc I; cbn [deliver_all_n]; [exact I|].
      pose proof (handle_nevent_j w e I) as I1.
      destruct (handle_nevent w e) as [w1 ob]. cbn [fst] in I1.
      destruct (ob_res ob =? 3); [exact I1|]. apply IH; assumption.
    Qed.

    Lemma deliver_all_c_j es : forall w, J w -> Forall (fun e => okey (cev_obj e)) es -> J (deliver_all_c w es).
    Proof.
      induction es as [|e es IH]; intros w I H; cbn [deliver_all_c]; [exact I|].
      inversion H; subst. apply IH; [apply handle_cevent_j; assumption|assumption].
    Qed.

    Lemma relist_cevents_okey w : J w -> Forall (fun e => okey (cev_obj e)) (relist_cevents w).
    Proof.
      intros I. unfold relist_cevents. apply Forall_app. split.
      - rewrite Forall_forall. intros e He. apply in_map_iff in He. destruct He as (a & <- & Ha). cbn. exact (in_ccs_okey w a I Ha).
      - rewrite Forall_forall. intros e He. apply in_flat_map in He. destruct He as (k & _ & Hk).
        destruct (find_cc k (w_ccs w)); [destruct Hk|].
        destruct (find_cc k (w_ccache w)) as [n|] eqn:En; [|destruct Hk].
        destruct Hk as [<-|[]]. cbn. eapply cached_cc_okey; eassumption.
    Qed.

    Definition op_okey (o : op) : Prop := match o with UCreateCC obj => okey obj | _ => True end.

    Lemma with_default_okey dp ccs : Forall okey ccs -> Forall okey (with_default dp ccs).
    Proof.
      intros H. unfold with_default. destruct dp as [|cm dp']; [exact H|].
      destruct (existsb _ ccs); [exact H|]. apply Forall_app. split; [exact H|]. constructor; [|constructor].
      intros k Hk. cbn in Hk. inversion Hk; subst. exact Gd.
    Qed.

    Theorem step_j w o : J w -> op_okey o -> J (fst (step po lab w o)).
    Proof.
      intros I Ho. destruct o; cbn [step op_okey] in *.
      - destruct (find_anode name (w_nodes w)); [exact I|]. apply (j_same w); try reflexivity; exact I.
      - destruct (find_anode name (w_nodes w)); [|exact I]. apply (j_same w); try reflexivity; exact I.
      - destruct (find_anode name (w_nodes w)); [|exact I]. apply (j_same w); try reflexivity; exact I.
      - destruct (find_anode name (w_nodes w)); [|exact I]. apply (j_same w); try reflexivity; exact I.
      - (* UCreateCC *)
        destruct (find_cc (o_name o) (w_ccs w)); [exact I|]. cbn [fst].
        assert (Hg : okey (with_rv o (w_rv w + 1))) by (eapply okey_ext; [|exact Ho]; reflexivity).
        jsplit I; try assumption; [apply Forall_snoc; assumption|apply push_cev_j; assumption].
      - (* UDeleteCC *)
        destruct (find_cc name (w_ccs w)) as [c|] eqn:Ec; [|exact I].
        assert (Hg : okey c) by (apply (in_ccs_okey w c I); eapply find_cc_in; exact Ec).
        destruct (o_fins c).
        + cbn [fst]. assert (Hg' : okey (with_rv c (w_rv w + 1))) by (eapply okey_ext; [|exact Hg]; reflexivity).
          jsplit I; try assumption; [apply Forall_del_cc; assumption|apply push_cev_j; assumption].
        + destruct (o_deleting c); [exact I|]. cbn [fst].
          assert (Hg' : okey (with_rv (with_deleting c) (w_rv w + 1))) by (eapply okey_ext; [|exact Hg]; reflexivity).
          jsplit I; try assumption; [apply Forall_put_cc; assumption|apply push_cev_j; assumption].
      - (* USetCCFinalizers *)
        destruct (find_cc name (w_ccs w)) as [c|] eqn:Ec; [|exact I].
        assert (Hg : okey c) by (apply (in_ccs_okey w c I); eapply find_cc_in; exact Ec).
        match goal with |- context [with_rv ?x ?r] => assert (Hg' : okey (with_rv x r)) by (eapply okey_ext; [|exact Hg]; reflexivity) end.
        match goal with |- context [if ?b then _ else _] => destruct b end; cbn [fst];
          jsplit I; try assumption; first [apply Forall_del_cc; assumption|apply Forall_put_cc; assumption|apply push_cev_j; assumption].
      - (* DeliverNode *)
        destruct (w_nfeed w) as [|e rest]; [exact I|]. apply handle_nevent_j. apply (j_same w); try reflexivity; exact I.
      - (* DeliverNodeTombstone *)
        destruct (w_nfeed w) as [|[n|n|n] rest]; try exact I. apply handle_nevent_j. apply (j_same w); try reflexivity; exact I.
      - (* DeliverCC *)
        destruct (w_cfeed w) as [|e rest] eqn:Ef; [exact I|].
        pose proof (j_cfeed w I) as Hf. rewrite Ef in Hf. inversion Hf; subst.
        apply handle_cevent_j; [|assumption]. jsplit I; assumption.
      - destruct (w_ctl w); [|exact I]. cbn [fst]. apply set_queues_j. exact I.
      - destruct (w_ctl w); [|exact I]. cbn [fst]. apply set_queues_j. exact I.
      - (* RelistNodes *)
        destruct (w_synced w); [|exact I]. apply deliver_all_n_j. apply (j_same w); try reflexivity; exact I.
      - (* RelistCCs *)
        destruct (w_synced w); [|exact I]. cbn [fst]. apply deliver_all_c_j; [|apply relist_cevents_okey; exact I].
        jsplit I; try assumption. constructor.
      - (* FetchNode *) cbn [fst]. apply (j_same w); try reflexivity; exact I.
      - (* RunNode *)
        destruct (find (fun x => fst x =? w0) (w_nfetch w)) as [[wk [key cached]]|]; [|exact I].
        apply run_node_sync_j. apply (j_same w); try reflexivity; exact I.
      - (* FetchCC *)
        cbn [fst]. pose proof I as I0. jsplit I; try assumption.
        intros wk k n [E|Hin]; [inversion E; subst; eapply cached_cc_okey; eassumption|].
        apply filter_In in Hin. destruct Hin as [Hin _]. eapply Jft. exact Hin.
      - (* RunCC *)
        destruct (find (fun x => fst x =? w0) (w_cfetch w)) as [[wk [key cached]]|] eqn:Ef; [|exact I].
        apply run_cc_sync_j.
        + pose proof I as I0. jsplit I; try assumption. intros wk' k n Hin. apply filter_In in Hin. destruct Hin as [Hin _]. eapply Jft. exact Hin.
        + intros n E. subst cached. apply find_some in Ef. destruct Ef as [Hin _]. eapply (j_cfetch w I). exact Hin.
      - (* ProcNode *)
        destruct (w_ctl w) as [m|] eqn:Em; [|exact I]. destruct (q_ready (w_nq w)) as [|key rest]; [exact I|].
        match goal with |- context [run_node_sync po lab ?w1 ?c ?k ?o] =>
          assert (I2 : J (fst (run_node_sync po lab w1 c k o)));
            [|destruct (run_node_sync po lab w1 c k o) as [w2 ob2]] end.
        { apply run_node_sync_j. apply set_queues_j. exact I. }
        cbn [fst] in I2. destruct (ob_res ob2 =? 2); cbn [fst]; [apply set_queues_j|]; exact I2.
      - (* ProcCC *)
        destruct (w_ctl w) as [m|] eqn:Em; [|exact I]. destruct (q_ready (w_cq w)) as [|key rest]; [exact I|].
        match goal with |- context [run_cc_sync ?w1 ?k ?c ?o] =>
          assert (I2 : J (fst (run_cc_sync w1 k c o)));
            [|destruct (run_cc_sync w1 k c o) as [w2 ob2]] end.
        { apply run_cc_sync_j; [apply set_queues_j; exact I|].
          cbn [set_queues w_ccache]. intros n E. eapply cached_cc_okey; eassumption. }
        cbn [fst] in I2. destruct (ob_res ob2 =? 2); cbn [fst]; [apply set_queues_j|]; exact I2.
      - (* Tick *) cbn [fst]. apply set_queues_j. exact I.
      - (* Crash *) cbn [fst]. apply crashed_j. exact I.
      - (* Construct *)
        destruct (w_ctl w) as [m0|] eqn:Em; [exact I|].
        destruct (construct po lab (with_default dp (w_ccs w)) outs svc1 svc2 (map node_view (w_nodes w))) as [[m fx] pan] eqn:Ec.
        cbn [fst].
        assert (Hgood : Forall okey (with_default dp (w_ccs w))) by (apply with_default_okey; exact (j_ccs w I)).
        assert (M : KG m) by (eapply construct_kg; [exact Hgood|exact Ec]).
        apply apply_effects_j.
        + jsplit I; [assumption|constructor|constructor|intros; contradiction|].
          intros m1 E. destruct pan; [discriminate|]. inversion E; subst. exact M.
        + intros o' uo Hin. unfold construct in Ec.
          destruct (bootstrap_ccs [] (with_default dp (w_ccs w)) outs) as [m1 fx1] eqn:Eb.
          match type of Ec with context [occupy_nodes po lab ?m3 ?ns] => destruct (occupy_nodes po lab m3 ns) as [m4 p4] end.
          inversion Ec; subst. destruct (bootstrap_create_same _ _ _ _ _ Eb _ _ Hin) as (o & Hoin & (_ & _ & _ & _ & Hk & _)).
          eapply okey_ext; [exact Hk|]. rewrite Forall_forall in Hgood. apply Hgood. exact Hoin.
      - (* StartInformers *)
        destruct (w_ctl w) as [m|] eqn:Em; [|exact I]. destruct (w_synced w); [exact I|]. cbn [fst].
        pose proof I as I0. jsplit I; [assumption|constructor|assumption|assumption|].
        intros m1 E. inversion E; subst. apply Jm. exact Em.
    Qed.

    Theorem run_j ops : forall w, J w -> Forall op_okey ops -> J (run po lab w ops).
    Proof.
      induction ops as [|o ops IH]; intros w I H; [exact I|]. inversion H; subst.
      unfold run. cbn [fold_left]. apply IH; [apply step_j; assumption|assumption].
    Qed.

    Lemma j_init : J init_world.
    Proof. constructor; cbn; try constructor; try (intros; contradiction). intros; discriminate. Qed.

    (* every key of the map of every reachable world is the key of an object the controller was given *)
    Theorem keys_come_from_objects ops m : Forall op_okey ops -> w_ctl (run po lab init_world ops) = Some m -> KG m.
    Proof. intros H E. exact (j_ctl _ (run_j ops init_world j_init H) m E). Qed.
  End WorldKeys.
End Keys.

(* ------------------------------------------------------------------ with the model of the labels package *)
(* the key is what nodeSelectorKey computes from some selector *)
Definition key_of_a_selector (k : str) : Prop := exists rs, selector_key rs = Some k.

Lemma default_key_of_a_selector : key_of_a_selector default_key.
Proof. exists default_reqs. vm_compute. reflexivity. Qed.

(* a ClusterCIDR object as the API server hands it to the controller: its key (None = the selector cannot be converted) is
   nodeSelectorKey of the requirements of its selector *)
Definition obj_key_computed (o : ccobj) : Prop := okey key_of_a_selector o.
Definition op_keys_computed (o : op) : Prop := op_okey key_of_a_selector o.

Lemma collect_items_total po lab ls occ m : (forall k l, In (k, l) m -> po k <> None) -> collect_items po lab ls occ m <> None.
Proof.
  induction m as [|[k ents] m IH]; intros H; cbn [collect_items]; [discriminate|].
  destruct (po k) as [rs|] eqn:Ek; [|exfalso; exact (H k ents (or_introl eq_refl) Ek)].
  destruct (match_reqs ls rs) as [ok cnt].
  destruct (collect_items po lab ls occ m) as [rest|] eqn:Er; [|exfalso; apply IH; [intros k0 l0 Hin; apply (H k0 l0); right; exact Hin|reflexivity]].
  destruct ok; discriminate.
Qed.

(* In every history of the closed loop -- API operations, notifications in any order, work items with any write outcomes,
   crashes and restarts with any flags -- in which ClusterCIDR objects carry the key nodeSelectorKey computes, the controller's
   map holds only keys that labels.Parse reads back, each with the meaning of a selector it was computed from: matchCIDRLabels
   fails on no key, for no node, and the collection of the ClusterCIDRs matching a node never fails on a key (the failure D23
   caused for every node). *)
Theorem every_key_is_read_back_in_every_history lab ops m :
  Forall op_keys_computed ops -> w_ctl (run sel_parse lab init_world ops) = Some m ->
  (forall k l, In (k, l) m -> exists rs, selector_key rs = Some k /\ forall ls, match_key ls k = Some (match_reqs ls rs)) /\
  (forall ls occ, collect_items sel_parse lab ls occ m <> None) /\
  (forall ls occ, ordered_matching sel_parse lab m ls occ <> Err EBadKey).
Proof.
  intros H E.
  pose proof (keys_come_from_objects key_of_a_selector default_key_of_a_selector sel_parse lab ops m H E) as K.
  assert (A : forall k l, In (k, l) m -> exists rs, selector_key rs = Some k /\ forall ls, match_key ls k = Some (match_reqs ls rs)).
  { intros k l Hin. destruct (K k l Hin) as (rs & Hrs). exists rs. split; [exact Hrs|]. intros ls. exact (match_key_of_selector_key rs k Hrs ls). }
  assert (B : forall ls occ, collect_items sel_parse lab ls occ m <> None).
  { intros ls occ. apply collect_items_total. intros k l Hin Hn. destruct (A k l Hin) as (rs & _ & Hm). specialize (Hm []).
    unfold match_key in Hm. rewrite Hn in Hm. discriminate Hm. }
  split; [exact A|]. split; [exact B|].
  intros ls occ. unfold ordered_matching. specialize (B ls occ). destruct (collect_items sel_parse lab ls occ m); [|congruence].
  destruct (forallb _ _); discriminate.
Qed.

(* objects whose key is computed from their selector satisfy the hypothesis, whatever the selector *)
Lemma computed_key_ok name v4 v6 hb rs fins del gen rv rest :
  obj_key_computed (mkCCObj name v4 v6 hb (selector_key rs) fins del gen rv rest).
Proof. intros k Hk. exists rs. exact Hk. Qed.

(* a history that meets the hypothesis and ends with a non-default key in the map: a ClusterCIDR with the selector
   "zone in (a), !tier" is created, the controller starts, the informers deliver, the work item is processed *)
Example keys_nonvacuous :
  let lab0 : label_oracle := fun k => [cl k] in
  let rs := [mkReq [122; 111; 110; 101] OpIn [[97]]; mkReq [116; 105; 101; 114] OpDoesNotExist []] in
  let o := mkCCObj [99; 49] (FOk (mkCidr V4 167772160 24)) FEmpty 4%Z (selector_key rs) [] false 1 0 0 in
  let ops := [UCreateCC o; Construct None None [] []; StartInformers; ProcCC UOk] in
  Forall op_keys_computed ops /\
  match w_ctl (run sel_parse lab0 init_world ops) with
  | Some m => map fst m = [[33; 116; 105; 101; 114; 44; 122; 111; 110; 101; 32; 105; 110; 32; 40; 97; 41]]
  | None => False
  end.
Proof.
  cbv zeta. split.
  - repeat constructor. apply computed_key_ok.
  - vm_compute. reflexivity.
Qed.

(* C02 / C05 with the selector's own requirements: every PATCH of every step of every history carries blocks of an entry that is
   not terminating and whose key is nodeSelectorKey of a requirement list EVERY requirement of which the node's labels satisfy
   (or it is the catch-all default key) -- "whose selector the node's labels satisfy", with no parser in the statement *)
Theorem every_assignment_respects_the_selectors_requirements lab ops o w' ob :
  Forall wf_op ops -> Forall op_keys_computed ops ->
  let w := run sel_parse lab init_world ops in
  step sel_parse lab w o = (w', ob) ->
  forall nm cs out, In (FxPatch nm cs out) (ob_fx ob) ->
  exists m node p e, w_ctl w = Some m /\ nm = n_name node /\ get_entry m p = Some e /\ cc_term e = false /\
    exists rs, selector_key rs = Some (fst p) /\ (fst p = default_key \/ forallb (req_matches (n_labels node)) rs = true).
Proof.
  intros Hw Hk w Hs nm cs out He.
  destruct (history_assignment_ok sel_parse lab ops o w' ob Hw Hs nm cs out He) as (m & node & Em & En & p & e & Hg & Ht & Hsel & _).
  exists m, node, p, e. split; [exact Em|]. split; [exact En|]. split; [exact Hg|]. split; [exact Ht|].
  destruct (every_key_is_read_back_in_every_history lab ops m Hk Em) as (A & _).
  assert (Hin : exists l, In (fst p, l) m).
  { unfold get_entry in Hg. destruct (find_key (fst p) m) as [l|] eqn:Ef; [|discriminate]. exists l. exact (find_key_In _ _ _ Ef). }
  destruct Hin as (l & Hin). destruct (A _ _ Hin) as (rs & Hrs & Hm). exists rs. split; [exact Hrs|].
  destruct Hsel as [Hd|(rs' & Hp & Hok)]; [left; exact Hd|right].
  specialize (Hm (n_labels node)). unfold match_key in Hm. rewrite Hp in Hm.
  assert (Heq : match_reqs (n_labels node) rs' = match_reqs (n_labels node) rs) by congruence.
  apply match_reqs_all. rewrite <- Heq. exact Hok.
Qed.
