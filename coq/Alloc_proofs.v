(* Alloc_proofs.v -- facts about single controller calls (any state, any inputs). *)
From NIPAM Require Import Alloc Prio_proofs Pool_proofs Geom_proofs.
From Coq Require Import Lia.
Open Scope N_scope.

(* ---------- effects of a node sync ---------- *)
Definition is_patch (e : effect) : bool := match e with FxPatch _ _ _ => true | _ => false end.
Definition is_write (e : effect) : bool :=
  match e with FxPatch _ _ _ | FxUpdateCC _ _ | FxCreateCC _ _ => true | _ => false end.

Lemma patch_loop_patches canp name cs outs n :
  forall e, In e (snd (patch_loop canp name cs outs n)) -> exists o, e = FxPatch name cs o.
Proof.
  revert outs. induction n as [|n IH]; intros outs e; cbn; [tauto|].
  destruct (if canp then match outs with o :: _ => o | [] => PFail end else PFail) eqn:Eo.
  - cbn. intros [<-|[]]. eexists; reflexivity.
  - destruct (patch_loop canp name cs (tl outs) n) as [ok fx] eqn:Ep. cbn. intros [<-|H]; [eexists; reflexivity|].
    apply (IH (tl outs)). rewrite Ep. exact H.
  - destruct (patch_loop canp name cs (tl outs) n) as [ok fx] eqn:Ep. cbn. intros [<-|H]; [eexists; reflexivity|].
    apply (IH (tl outs)). rewrite Ep. exact H.
  - destruct (patch_loop canp name cs (tl outs) n) as [ok fx] eqn:Ep. cbn. intros [<-|H]; [eexists; reflexivity|].
    apply (IH (tl outs)). rewrite Ep. exact H.
Qed.

Lemma patch_loop_nonempty canp name cs outs n :
  exists o, In (FxPatch name cs o) (snd (patch_loop canp name cs outs (S n))).
Proof.
  cbn [patch_loop]. destruct (if canp then match outs with o :: _ => o | [] => PFail end else PFail).
  - eexists. left. reflexivity.
  - destruct (patch_loop canp name cs (tl outs) n). eexists. left. reflexivity.
  - destruct (patch_loop canp name cs (tl outs) n). eexists. left. reflexivity.
  - destruct (patch_loop canp name cs (tl outs) n). eexists. left. reflexivity.
Qed.

(* C08 (a): a PATCH is only ever issued when the node as re-read under the lock shows no pod CIDRs,
   and it goes to the node being processed *)
Theorem update_patches_only_unassigned canp apisame m name cs p reread outs m' r fx :
  update_cidrs_allocation canp apisame m name cs p reread outs = (m', r, fx) ->
  forall e, In e fx -> is_patch e = true ->
    (exists n, reread = Some n /\ n_cidrs n = []) /\ exists o, e = FxPatch name cs o.
Proof.
  unfold update_cidrs_allocation. intros H e He Hp.
  destruct reread as [n|].
  2:{ destruct (release_in m p cs) as [m1 r1]. inversion H; subst. destruct He. }
  destruct ((length (n_cidrs n) =? length cs)%nat && same_cidrs (n_cidrs n) cs)%bool.
  { destruct (get_entry m p); inversion H; subst; destruct He. }
  destruct (n_cidrs n) as [|c0 cs0] eqn:En.
  2:{ destruct (release_in m p cs) as [m1 r1]. inversion H; subst. destruct He. }
  split; [exists n; split; [reflexivity|exact En]|].
  pose proof (patch_loop_patches (canp cs) name cs outs 3) as Hpl.
  destruct (patch_loop (canp cs) name cs outs 3) as [ok fxp] eqn:Epl. cbn [snd] in Hpl.
  assert (Hin : In e fxp).
  { destruct ok.
    - destruct (get_entry m p); inversion H; subst; exact He.
    - (* failure paths append only events / read-backs *)
      repeat match type of H with
             | context [if ?b then _ else _] => destruct b
             | context [match nth_error ?l ?k with _ => _ end] => destruct (nth_error l k) as [[]|]
             | context [match get_entry ?a ?b with _ => _ end] => destruct (get_entry a b)
             | context [let '(_, _) := release_in ?a ?b ?c in _] => destruct (release_in a b c)
             end;
      inversion H; subst; clear H;
      repeat (apply in_app_or in He; destruct He as [He|He]); try exact He;
      repeat (destruct He as [<-|He]; [discriminate Hp|]); try destruct He. }
  apply Hpl. exact Hin.
Qed.

(* processing a node that already has pod CIDRs issues no API request at all *)
Theorem sync_assigned_node_writes_nothing po lab svcs canp apisame held m node reread outs :
  n_cidrs node <> [] -> n_deleting node = false ->
  snd (sync_node po lab svcs canp apisame held m (Some node) reread outs) = [].
Proof.
  intros Hc Hd. unfold sync_node. rewrite Hd. unfold allocate_or_occupy.
  destruct (n_cidrs node) as [|c cs]; [congruence|].
  destruct reread; [destruct (occupy_cidrs po lab m node)|]; reflexivity.
Qed.

(* ---------- writes to a ClusterCIDR ---------- *)
(* C06 (d): whatever the controller sends for a ClusterCIDR is the object it read with exactly its own
   finalizer added or removed: every other finalizer and every other field is unchanged *)
Definition same_but_own_finalizer (o o' : ccobj) : Prop :=
  o_name o' = o_name o /\ o_v4 o' = o_v4 o /\ o_v6 o' = o_v6 o /\ o_hb o' = o_hb o /\ o_selkey o' = o_selkey o /\
  o_deleting o' = o_deleting o /\ o_gen o' = o_gen o /\ o_rv o' = o_rv o /\ o_rest o' = o_rest o /\
  remove_str finalizer (o_fins o') = remove_str finalizer (o_fins o).

Lemma remove_str_app s a b : remove_str s (a ++ b) = remove_str s a ++ remove_str s b.
Proof. unfold remove_str. apply filter_app. Qed.

Lemma remove_str_idem s l : remove_str s (remove_str s l) = remove_str s l.
Proof.
  unfold remove_str. induction l as [|x l IH]; cbn; [reflexivity|].
  destruct (str_eqb s x) eqn:E; cbn; [exact IH|]. rewrite E. cbn. f_equal. exact IH.
Qed.

Lemma remove_str_self s : remove_str s [s] = [].
Proof. unfold remove_str. cbn [filter]. rewrite str_eqb_refl. reflexivity. Qed.

Lemma same_refl o : same_but_own_finalizer o o.
Proof. repeat split. Qed.

Theorem create_writes_only_own_finalizer m o term boot out m' r fx :
  create_cluster_cidr m o term boot out = (m', r, fx) ->
  forall e, In e fx -> match e with
                       | FxUpdateCC o' _ | FxCreateCC o' _ => same_but_own_finalizer o o'
                       | _ => False end.
Proof.
  unfold create_cluster_cidr. intros H e He.
  destruct (o_selkey o); [|inversion H; subst; destruct He].
  destruct (create_set o term boot) as [c|er|]; try (inversion H; subst; destruct He; fail).
  assert (Hsame : same_but_own_finalizer o (if need_finalizer o then with_fins o (o_fins o ++ [finalizer]) else o)).
  { destruct (need_finalizer o); [|apply same_refl]. repeat split. cbn [with_fins o_fins].
    rewrite remove_str_app, remove_str_self. apply app_nil_r. }
  destruct (cc_v4 c), (cc_v6 c); try (inversion H; subst; destruct He; fail);
    destruct boot; try (destruct (need_finalizer o) eqn:En); try (destruct out); inversion H; subst; clear H;
    try destruct He as [<-|[]]; try destruct He; try (destruct (o_rv o =? 0); exact Hsame).
Qed.

Theorem delete_writes_only_own_finalizer m o out m' r fx :
  reconcile_delete m o out = (m', r, fx) ->
  forall e, In e fx -> match e with
                       | FxUpdateCC o' _ => same_but_own_finalizer o o' /\ has_str finalizer (o_fins o') = false
                       | _ => False end.
Proof.
  unfold reconcile_delete. intros H e He.
  destruct (delete_cluster_cidr m o) as [m1 [u|er|]]; try (inversion H; subst; destruct He; fail).
  destruct (has_str finalizer (o_fins o)); inversion H; subst; clear H; [|destruct He].
  destruct He as [<-|[]]. split.
  - repeat split. cbn [with_fins o_fins]. apply remove_str_idem.
  - cbn [with_fins o_fins]. unfold has_str, remove_str.
    destruct (existsb (str_eqb finalizer) (filter (fun x => negb (str_eqb finalizer x)) (o_fins o))) eqn:E; [|reflexivity].
    apply existsb_exists in E. destruct E as (x & Hx & Hxe). apply filter_In in Hx. destruct Hx as [_ Hx]. rewrite Hxe in Hx. discriminate.
Qed.

(* ---------- a block handed out is fresh ---------- *)
Definition fresh_for (held : list cidr) (m : cidrmap) (x : cidr) : Prop :=
  in_allocated_list m x = false /\ overlaps_allocated m x = false /\ in_use_by_node held x = false.

(* ---------- deletion: the finalizer goes only when nothing is associated ---------- *)
Lemma find_name_spec name l i j c :
  find_name name l i = Some (j, c) -> (i <= j)%nat /\ nth_error l (j - i) = Some c /\ cc_name c = name.
Proof.
  revert i. induction l as [|x l IH]; intros i; cbn; [discriminate|].
  destruct (str_eqb (cc_name x) name) eqn:E.
  - intros H. inversion H; subst. replace (j - j)%nat with 0%nat by lia. cbn. split; [lia|split; [reflexivity|apply str_eqb_eq; exact E]].
  - intros H. apply IH in H. destruct H as (H1 & H2 & H3). split; [lia|split; [|exact H3]].
    replace (j - i)%nat with (S (j - S i)) by lia. exact H2.
Qed.

Theorem delete_ok_means_unassociated m o m' :
  delete_cluster_cidr m o = (m', Ok tt) ->
  forall k l i c, o_selkey o = Some k -> find_key k m = Some l -> find_name (o_name o) l 0 = Some (i, c) -> cc_assoc c = [].
Proof.
  unfold delete_cluster_cidr. intros H k l i c Hk Hl Hn. rewrite Hk, Hl, Hn in H.
  destruct (cc_assoc c); [reflexivity|]. inversion H.
Qed.

Theorem finalizer_removed_only_when_unassociated m o out m' r fx o' uo :
  reconcile_delete m o out = (m', r, fx) -> In (FxUpdateCC o' uo) fx ->
  forall k l i c, o_selkey o = Some k -> find_key k m = Some l -> find_name (o_name o) l 0 = Some (i, c) -> cc_assoc c = [].
Proof.
  unfold reconcile_delete. intros H He.
  destruct (delete_cluster_cidr m o) as [m1 [[]|er|]] eqn:Ed; try (inversion H; subst; destruct He; fail).
  apply (delete_ok_means_unassociated m o m1 Ed).
Qed.

(* ---------- map access ---------- *)
Lemma find_key_set_key_same k l m : find_key k (set_key k l m) = Some l.
Proof.
  induction m as [|[k0 l0] m IH]; cbn; [rewrite str_eqb_refl; reflexivity|].
  destruct (str_eqb k k0) eqn:Ek; cbn; [rewrite str_eqb_refl; reflexivity|rewrite Ek; exact IH].
Qed.

Lemma nth_error_set_nth {A} n (x c : A) l : nth_error l n = Some c -> nth_error (set_nth n x l) n = Some x.
Proof. revert l. induction n as [|n IH]; intros [|h t]; cbn; try discriminate; [reflexivity|apply IH]. Qed.

Lemma get_set_entry_same m p c c' : get_entry m p = Some c -> get_entry (set_entry m p c') p = Some c'.
Proof.
  unfold get_entry, set_entry. destruct (find_key (fst p) m) as [l|] eqn:Ef; [|discriminate].
  intros Hn. rewrite find_key_set_key_same. eapply nth_error_set_nth. exact Hn.
Qed.

(* ---------- C01 core: a block handed out is fresh at the moment it is reserved ---------- *)
(* [reserved_fresh held p m' x]: m' is obtained from a state m1 in which x overlapped no used key of its
   family in any entry and no pod CIDR of a cached node, by occupying x in the entry at p *)
Definition reserved_fresh (held : list cidr) (p : path) (m' : cidrmap) (x : cidr) : Prop :=
  exists m1 c1 c2,
    in_allocated_list m1 x = false /\ overlaps_allocated m1 x = false /\ in_use_by_node held x = false /\
    get_entry m1 p = Some c1 /\ cc_occupy c1 x = Ok c2 /\ m' = set_entry m1 p c2.

Definition alloc_good (held : list cidr) (p : path) (st : alloc_state) : Prop :=
  match st with
  | ADone m' (Ok x) => reserved_fresh held p m' x
  | _ => True
  end.

Lemma alloc_step_good held p f st : alloc_good held p st -> alloc_good held p (alloc_step held p f st).
Proof.
  destruct st as [ev m|m r]; [intros _|intros H; exact H].
  unfold alloc_step. destruct (get_entry m p) as [c|] eqn:Eg; [|exact I].
  destruct (pool_of c f) as [pl|]; [|exact I].
  destruct (pmax pl <=? ev); [exact I|].
  destruct (next_candidate pl) as [blk sk pl'|]; [|exact I].
  set (c1 := with_pool c f pl'). set (m1 := set_entry m p c1).
  destruct (in_allocated_list m1 blk || overlaps_allocated m1 blk || in_use_by_node held blk)%bool eqn:E; [exact I|].
  apply Bool.orb_false_iff in E. destruct E as [E E3]. apply Bool.orb_false_iff in E. destruct E as [E1 E2].
  destruct (cc_occupy c1 blk) as [c2|e|] eqn:Eo; try exact I.
  cbn [alloc_good]. exists m1, c1, c2. repeat split; try assumption.
  subst m1. eapply get_set_entry_same. exact Eg.
Qed.

Theorem allocate_cidr_fresh held m p f m' x :
  allocate_cidr held m p f = (m', Ok x) -> reserved_fresh held p m' x.
Proof.
  unfold allocate_cidr. intros H.
  set (fuel := match get_entry m p with
               | Some c => match pool_of c f with Some pl => pmax pl + 1 | None => 1 end
               | None => 1 end) in *.
  assert (G : alloc_good held p (N.iter fuel (alloc_step held p f) (ARun 0 m))).
  { apply N.iter_invariant; [intros st; apply alloc_step_good|exact I]. }
  destruct (N.iter fuel (alloc_step held p f) (ARun 0 m)) as [ev m2|m2 r]; inversion H; subst. exact G.
Qed.

(* freshness in terms of the data: no used key of the block's family anywhere, no cached node's pod CIDR *)
Lemma overlaps_allocated_false m x :
  overlaps_allocated m x = false ->
  forall c pl k, In c (all_entries m) -> pool_of c (cf x) = Some pl -> In k (used pl) -> overlapb x k = false.
Proof.
  unfold overlaps_allocated. intros H c pl k Hc Hp Hk.
  destruct (overlapb x k) eqn:E; [|reflexivity]. exfalso.
  assert (Hex : existsb (fun c0 => match pool_of c0 (cf x) with Some p => existsb (overlapb x) (used p) | None => false end) (all_entries m) = true).
  { apply existsb_exists. exists c. split; [exact Hc|]. rewrite Hp. apply existsb_exists. exists k. split; assumption. }
  congruence.
Qed.

Lemma in_use_by_node_false held x : in_use_by_node held x = false -> forall h, In h held -> overlapb x h = false.
Proof.
  unfold in_use_by_node. intros H h Hh. destruct (overlapb x h) eqn:E; [|reflexivity].
  exfalso. assert (existsb (overlapb x) held = true) by (apply existsb_exists; exists h; split; assumption). congruence.
Qed.

(* ---------- from allocate_cidr up to a node sync ---------- *)
Definition all_unheld (held : list cidr) (cs : list cidr) : Prop := Forall (fun c => in_use_by_node held c = false) cs.

Lemma prioritized_try_unheld held ps : forall m m' cs p,
  prioritized_try held m ps = (m', Ok (cs, p)) -> all_unheld held cs.
Proof.
  induction ps as [|p0 ps IH]; intros m m' cs p H; cbn in H; [discriminate|].
  destruct (get_entry m p0) as [c|]; [|discriminate].
  destruct (cc_v4 c) as [p4|].
  - destruct (allocate_cidr held m p0 V4) as [m1 r4] eqn:E4.
    destruct r4 as [x4|e4|]; [|eapply IH; exact H|discriminate].
    pose proof (allocate_cidr_fresh _ _ _ _ _ _ E4) as (ma & ca & cb & _ & _ & Hh4 & _).
    destruct (cc_v6 c) as [p6|].
    + destruct (allocate_cidr held m1 p0 V6) as [m2 r6] eqn:E6.
      destruct r6 as [x6|e6|]; [| |discriminate].
      * inversion H; subst. pose proof (allocate_cidr_fresh _ _ _ _ _ _ E6) as (mc & cc & cd & _ & _ & Hh6 & _).
        constructor; [exact Hh4|constructor; [exact Hh6|constructor]].
      * eapply IH; exact H.
    + inversion H; subst. constructor; [exact Hh4|constructor].
  - destruct (cc_v6 c) as [p6|].
    + destruct (allocate_cidr held m p0 V6) as [m2 r6] eqn:E6.
      destruct r6 as [x6|e6|]; [| |discriminate].
      * inversion H; subst. pose proof (allocate_cidr_fresh _ _ _ _ _ _ E6) as (mc & cc & cd & _ & _ & Hh6 & _).
        constructor; [exact Hh6|constructor].
      * eapply IH; exact H.
    + inversion H; subst. constructor.
Qed.

Lemma prioritized_cidrs_unheld po lab held m node m' cs p :
  prioritized_cidrs po lab held m node = (m', Ok (cs, p)) -> all_unheld held cs.
Proof.
  unfold prioritized_cidrs. destruct (ordered_matching po lab m (n_labels node) true) as [ps|e|]; try discriminate.
  apply prioritized_try_unheld.
Qed.

(* every PATCH of a node sync goes to the node being processed, is issued only when the re-read under
   the lock shows no pod CIDRs, and carries CIDRs none of which overlaps a pod CIDR of a cached node *)
Theorem sync_node_patches po lab svcs canp apisame held m cached reread outs m' r fx :
  sync_node po lab svcs canp apisame held m cached reread outs = (m', r, fx) ->
  forall nm cs o, In (FxPatch nm cs o) fx ->
    (exists node, cached = Some node /\ nm = n_name node /\ n_cidrs node = []) /\
    (exists n, reread = Some n /\ n_cidrs n = []) /\
    all_unheld held cs.
Proof.
  unfold sync_node. intros H nm cs o He.
  destruct cached as [node|]; [|inversion H; subst; destruct He].
  destruct (n_deleting node).
  { destruct (release_cidr svcs m node) as [m1 r1]. inversion H; subst. destruct He. }
  unfold allocate_or_occupy in H.
  destruct (n_cidrs node) as [|c0 cs0] eqn:En.
  2:{ destruct reread; [destruct (occupy_cidrs po lab m node) as [m1 r1]|]; inversion H; subst; destruct He. }
  destruct (prioritized_cidrs po lab held m node) as [m1 rp] eqn:Ep.
  destruct rp as [[cs1 p1]|e|].
  - destruct cs1 as [|c1 cs1'].
    + inversion H; subst. destruct He as [He|[]]. discriminate He.
    + pose proof (prioritized_cidrs_unheld _ _ _ _ _ _ _ _ Ep) as Hun.
      destruct (update_patches_only_unassigned _ _ _ _ _ _ _ _ _ _ _ H _ He eq_refl) as [Hre (o' & Ho')].
      inversion Ho'; subst. split; [exists node; repeat split; assumption|]. split; [exact Hre|exact Hun].
  - inversion H; subst. destruct He as [He|[]]. discriminate He.
  - inversion H; subst. destruct He.
Qed.

(* a node work item writes to nodes only: no ClusterCIDR update or creation among its effects *)
Definition is_cc_write (e : effect) : bool := match e with FxUpdateCC _ _ | FxCreateCC _ _ => true | _ => false end.

Lemma update_no_cc_write canp apisame m name cs p reread outs m' r fx :
  update_cidrs_allocation canp apisame m name cs p reread outs = (m', r, fx) -> forall e, In e fx -> is_cc_write e = false.
Proof.
  unfold update_cidrs_allocation. intros H e He.
  destruct reread as [n|].
  2:{ destruct (release_in m p cs) as [m1 r1]. inversion H; subst. destruct He. }
  destruct ((length (n_cidrs n) =? length cs)%nat && same_cidrs (n_cidrs n) cs)%bool.
  { destruct (get_entry m p); inversion H; subst; destruct He. }
  destruct (n_cidrs n) as [|c0 cs0] eqn:En.
  2:{ destruct (release_in m p cs) as [m1 r1]. inversion H; subst. destruct He. }
  pose proof (patch_loop_patches (canp cs) name cs outs 3) as Hpl.
  destruct (patch_loop (canp cs) name cs outs 3) as [ok fxp] eqn:Epl. cbn [snd] in Hpl.
  assert (Hin : In e fxp \/ is_cc_write e = false).
  { destruct ok.
    - destruct (get_entry m p); inversion H; subst; left; exact He.
    - repeat match type of H with
             | context [if ?b then _ else _] => destruct b
             | context [match nth_error ?l ?k with _ => _ end] => destruct (nth_error l k) as [[]|]
             | context [match get_entry ?a ?b with _ => _ end] => destruct (get_entry a b)
             | context [let '(_, _) := release_in ?a ?b ?c in _] => destruct (release_in a b c)
             end;
      inversion H; subst; clear H;
      repeat (apply in_app_or in He; destruct He as [He|He]); try (left; exact He);
      repeat (destruct He as [<-|He]; [right; reflexivity|]); try destruct He. }
  destruct Hin as [Hin|Hin]; [|exact Hin]. destruct (Hpl e Hin) as (o & ->). reflexivity.
Qed.

Theorem sync_node_no_cc_write po lab svcs canp apisame held m cached reread outs m' r fx :
  sync_node po lab svcs canp apisame held m cached reread outs = (m', r, fx) -> forall e, In e fx -> is_cc_write e = false.
Proof.
  unfold sync_node. intros H e He.
  destruct cached as [node|]; [|inversion H; subst; destruct He].
  destruct (n_deleting node).
  { destruct (release_cidr svcs m node) as [m1 r1]. inversion H; subst. destruct He. }
  unfold allocate_or_occupy in H.
  destruct (n_cidrs node) as [|c0 cs0] eqn:En.
  2:{ destruct reread; [destruct (occupy_cidrs po lab m node) as [m1 r1]|]; inversion H; subst; destruct He. }
  destruct (prioritized_cidrs po lab held m node) as [m1 rp] eqn:Ep.
  destruct rp as [[cs1 p1]|er|].
  - destruct cs1 as [|c1 cs1'].
    + inversion H; subst. destruct He as [<-|[]]. reflexivity.
    + eapply update_no_cc_write; eassumption.
  - inversion H; subst. destruct He as [<-|[]]. reflexivity.
  - inversion H; subst. destruct He.
Qed.

(* ---------- C05 / C11: a refusal is reported ---------- *)
Theorem refusal_is_reported po lab canp apisame held m node reread outs m' e fx :
  n_cidrs node = [] ->
  allocate_or_occupy po lab canp apisame held m node reread outs = (m', Err e, fx) ->
  (forall nm cs o, ~ In (FxPatch nm cs o) fx) ->
  In (FxEvent 1 (n_name node)) fx \/ e = ENotFound \/ exists n, reread = Some n /\ n_cidrs n <> [].
Proof.
  unfold allocate_or_occupy. intros Hc H Hnp. rewrite Hc in H.
  destruct (prioritized_cidrs po lab held m node) as [m1 rp].
  destruct rp as [[cs p]|e1|].
  - destruct cs as [|c1 cs1]; [inversion H; subst; left; left; reflexivity|].
    unfold update_cidrs_allocation in H. destruct reread as [n|].
    + destruct ((length (n_cidrs n) =? length (c1 :: cs1))%nat && same_cidrs (n_cidrs n) (c1 :: cs1))%bool.
      { destruct (get_entry m1 p); inversion H. }
      destruct (n_cidrs n) eqn:En; [|right; right; exists n; split; [reflexivity|rewrite En; discriminate]].
      exfalso.
      destruct (patch_loop (canp (c1 :: cs1)) (n_name node) (c1 :: cs1) outs 3) as [ok fxp] eqn:Ep.
      (* the patch loop always issues at least one PATCH *)
      assert (Hsome : exists o, In (FxPatch (n_name node) (c1 :: cs1) o) fxp).
      { pose proof (patch_loop_nonempty (canp (c1 :: cs1)) (n_name node) (c1 :: cs1) outs 2) as Hne. rewrite Ep in Hne. exact Hne. }
      destruct Hsome as (o & Ho).
      assert (Hin : In (FxPatch (n_name node) (c1 :: cs1) o) fx).
      { destruct ok.
        - destruct (get_entry m1 p); inversion H; subst; exact Ho.
        - repeat match type of H with
                 | context [if ?b then _ else _] => destruct b
                 | context [match nth_error ?l ?k with _ => _ end] => destruct (nth_error l k) as [[]|]
                 | context [match get_entry ?a ?b with _ => _ end] => destruct (get_entry a b)
                 | context [let '(_, _) := release_in ?a ?b ?c in _] => destruct (release_in a b c)
                 end; inversion H; subst; repeat (apply in_or_app; left); exact Ho. }
      exact (Hnp _ _ _ Hin).
    + destruct (release_in m1 p (c1 :: cs1)). inversion H; subst. right. left. reflexivity.
  - inversion H; subst. left. left. reflexivity.
  - inversion H.
Qed.

(* ---------- C10: handling the same object again adds nothing ---------- *)
Theorem create_when_mapped_keeps_map m o term boot out k :
  o_selkey o = Some k -> is_mapped m k (o_name o) = true ->
  fst (fst (create_cluster_cidr m o term boot out)) = m.
Proof.
  intros Hk Hm. unfold create_cluster_cidr. rewrite Hk.
  destruct (create_set o term boot) as [c|e|]; try reflexivity.
  destruct (cc_v4 c), (cc_v6 c); try reflexivity; rewrite Hm;
    destruct boot; try reflexivity; destruct (need_finalizer o); try reflexivity; destruct out; reflexivity.
Qed.

Lemma is_mapped_map_set m k c : is_mapped (map_set m k c) k (cc_name c) = true.
Proof.
  unfold is_mapped, map_set. destruct (find_key k m) as [l|] eqn:Ef.
  - rewrite find_key_set_key_same. rewrite existsb_app. cbn. rewrite str_eqb_refl. rewrite Bool.orb_true_r. reflexivity.
  - assert (H : forall m0, find_key k m0 = None -> find_key k (m0 ++ [(k, [c])]) = Some [c]).
    { induction m0 as [|[k0 l0] m0 IH]; cbn; [rewrite str_eqb_refl; reflexivity|].
      destruct (str_eqb k k0); [discriminate|exact IH]. }
    rewrite (H m Ef). cbn. rewrite str_eqb_refl. reflexivity.
Qed.

Lemma create_set_name o term st c : create_set o term st = Ok c -> cc_name c = o_name o.
Proof.
  unfold create_set. destruct (mk_pool V4 (o_v4 o) (o_hb o)); try discriminate. destruct (mk_pool V6 (o_v6 o) (o_hb o)); try discriminate.
  intros H. inversion H. reflexivity.
Qed.

(* after a successful handling the object is mapped; handling it again changes nothing *)
Theorem reconcile_create_idempotent m o out1 out2 m1 fx1 :
  reconcile_create m o out1 = (m1, Ok tt, fx1) -> need_finalizer o = false ->
  reconcile_create m1 o out2 = (m1, Ok tt, []).
Proof.
  unfold reconcile_create. intros H Hn. rewrite Hn in *. cbn [orb] in *.
  destruct (negb (is_mapped_obj m o)) eqn:Em.
  - (* it was not mapped: it is now *)
    unfold create_cluster_cidr in H. unfold is_mapped_obj in *. destruct (o_selkey o) as [k|] eqn:Ek; [|discriminate].
    destruct (create_set o false false) as [c|e|] eqn:Ec; try discriminate.
    apply Bool.negb_true_iff in Em. rewrite Em in H. rewrite Hn in H.
    destruct (cc_v4 c), (cc_v6 c); inversion H; subst;
      rewrite <- (create_set_name _ _ _ _ Ec), is_mapped_map_set; reflexivity.
  - inversion H; subst. rewrite Em. reflexivity.
Qed.
