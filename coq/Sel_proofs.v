(* Sel_proofs.v -- a ClusterCIDR applies to exactly the nodes its selector describes (C17, stage 1:
   printing a selector to the map key and parsing it back is library code; its round-trip
   property is the named hypothesis RT, validated by the correspondence check). *)
From NIPAM Require Import Sel Alloc Prio_proofs.
From Coq Require Import Lia.
Open Scope N_scope.

Lemma filter_length_le {A} (f : A -> bool) l : (length (filter f l) <= length l)%nat.
Proof. induction l as [|x l IH]; cbn; [lia|]. destruct (f x); cbn; lia. Qed.

Lemma filter_all_length {A} (f : A -> bool) l : length (filter f l) = length l <-> forallb f l = true.
Proof.
  induction l as [|x l IH]; cbn; [tauto|]. destruct (f x) eqn:E; cbn.
  - rewrite <- IH. split; lia.
  - pose proof (filter_length_le f l). split; [lia|discriminate].
Qed.

(* matchCIDRLabels says "labels match" exactly when every requirement is satisfied, and the count it
   returns is the number of satisfied requirements *)
Theorem match_reqs_all ls rs :
  fst (match_reqs ls rs) = true <-> forallb (req_matches ls) rs = true.
Proof.
  unfold match_reqs, match_count. cbn [fst]. rewrite N.eqb_eq, <- filter_all_length. split; lia.
Qed.

Theorem match_reqs_count ls rs :
  snd (match_reqs ls rs) = N.of_nat (length (filter (req_matches ls) rs)).
Proof. reflexivity. Qed.

(* the semantics of each operator, spelled out *)
Theorem req_matches_in ls k vs : req_matches ls (mkReq k OpIn vs) = true <-> exists v, lookup k ls = Some v /\ str_in v vs = true.
Proof.
  cbn. destruct (lookup k ls) as [v|]; split.
  - intros H. exists v. split; [reflexivity|exact H].
  - intros (v' & E & H). inversion E; subst. exact H.
  - discriminate.
  - intros (v & E & _). discriminate.
Qed.
Theorem req_matches_notin ls k vs : req_matches ls (mkReq k OpNotIn vs) = true <-> (lookup k ls = None \/ exists v, lookup k ls = Some v /\ str_in v vs = false).
Proof.
  cbn. destruct (lookup k ls) as [v|]; split.
  - intros H. right. exists v. split; [reflexivity|]. apply Bool.negb_true_iff in H. exact H.
  - intros [H|(v' & E & H)]; [discriminate|]. injection E as E'. subst v'. apply Bool.negb_true_iff. exact H.
  - intros _. left. reflexivity.
  - intros _. reflexivity.
Qed.
Theorem req_matches_exists ls k vs : req_matches ls (mkReq k OpExists vs) = true <-> lookup k ls <> None.
Proof. cbn. destruct (lookup k ls); split; congruence. Qed.
Theorem req_matches_notexists ls k vs : req_matches ls (mkReq k OpDoesNotExist vs) = true <-> lookup k ls = None.
Proof. cbn. destruct (lookup k ls); split; congruence. Qed.
Theorem req_matches_gt ls k vs : req_matches ls (mkReq k OpGt vs) = true <->
  exists v lv rv rvz, lookup k ls = Some v /\ parse_int64 v = Some lv /\ vs = [rv] /\ parse_int64 rv = Some rvz /\ (rvz < lv)%Z.
Proof.
  cbn. destruct (lookup k ls) as [v|]; [|split; [discriminate|intros (v & lv & rv & rvz & E & _); discriminate]].
  destruct (parse_int64 v) as [lv|] eqn:El; [|split; [discriminate|intros (v' & lv & rv & rvz & E & E2 & _); inversion E; subst; congruence]].
  destruct vs as [|rv [|rv2 vs]]; try (split; [discriminate|intros (v' & lv' & rv' & rvz & _ & _ & E3 & _); discriminate]).
  destruct (parse_int64 rv) as [rvz|] eqn:Er.
  - rewrite Z.ltb_lt. split.
    + intros H. exists v, lv, rv, rvz. auto.
    + intros (v' & lv' & rv' & rvz' & E1 & E2 & E3 & E4 & H). inversion E1; inversion E3; subst. congruence.
  - split; [discriminate|]. intros (v' & lv' & rv' & rvz' & E1 & E2 & E3 & E4 & H). inversion E3; subst. congruence.
Qed.
Theorem req_matches_lt ls k vs : req_matches ls (mkReq k OpLt vs) = true <->
  exists v lv rv rvz, lookup k ls = Some v /\ parse_int64 v = Some lv /\ vs = [rv] /\ parse_int64 rv = Some rvz /\ (lv < rvz)%Z.
Proof.
  cbn. destruct (lookup k ls) as [v|]; [|split; [discriminate|intros (v & lv & rv & rvz & E & _); discriminate]].
  destruct (parse_int64 v) as [lv|] eqn:El; [|split; [discriminate|intros (v' & lv & rv & rvz & E & E2 & _); inversion E; subst; congruence]].
  destruct vs as [|rv [|rv2 vs]]; try (split; [discriminate|intros (v' & lv' & rv' & rvz & _ & _ & E3 & _); discriminate]).
  destruct (parse_int64 rv) as [rvz|] eqn:Er.
  - rewrite Z.ltb_lt. split.
    + intros H. exists v, lv, rv, rvz. auto.
    + intros (v' & lv' & rv' & rvz' & E1 & E2 & E3 & E4 & H). inversion E1; inversion E3; subst. congruence.
  - split; [discriminate|]. intros (v' & lv' & rv' & rvz' & E1 & E2 & E3 & E4 & H). inversion E3; subst. congruence.
Qed.

Section KeyRoundTrip.
  (* labels.Selector.String on the converted requirements, labels.Parse on a map key *)
  Variable sel_print : list req -> str.
  Variable sel_parse : str -> option (list req).
  Variable valid_reqs : list req -> Prop.        (* labels.NewRequirement accepts every one of them *)
  (* RT: parsing the printed form yields requirements with the same meaning (same match result and
     same number of satisfied requirements for every label set) *)
  Hypothesis RT : forall rs, valid_reqs rs ->
    exists rs', sel_parse (sel_print rs) = Some rs' /\ forall ls, match_reqs ls rs' = match_reqs ls rs.

  (* a ClusterCIDR filed under the key of its own selector is considered for a node exactly when
     every requirement of the selector holds of the node's labels *)
  Theorem considered_iff_all_requirements rs ls :
    valid_reqs rs ->
    exists rs', sel_parse (sel_print rs) = Some rs' /\
      (fst (match_reqs ls rs') = true <-> forallb (req_matches ls) rs = true).
  Proof.
    intros Hv. destruct (RT rs Hv) as (rs' & Hp & Hs). exists rs'. split; [exact Hp|].
    rewrite Hs. apply match_reqs_all.
  Qed.

  (* two selectors filed under the same key mean the same: no ClusterCIDR is ever found under a
     selector with a different meaning *)
  Theorem same_key_same_meaning rs1 rs2 :
    valid_reqs rs1 -> valid_reqs rs2 -> sel_print rs1 = sel_print rs2 ->
    forall ls, match_reqs ls rs1 = match_reqs ls rs2.
  Proof.
    intros H1 H2 Hk ls. destruct (RT rs1 H1) as (r1 & P1 & S1). destruct (RT rs2 H2) as (r2 & P2 & S2).
    rewrite Hk in P1. rewrite P1 in P2. inversion P2; subst. rewrite <- S1, <- S2. reflexivity.
  Qed.
End KeyRoundTrip.

(* a selector that cannot be represented is rejected at creation and nothing changes *)
Theorem unrepresentable_selector_rejected m o term boot out :
  o_selkey o = None -> create_cluster_cidr m o term boot out = (m, Err ESelector, []).
Proof. intros H. unfold create_cluster_cidr. rewrite H. reflexivity. Qed.
