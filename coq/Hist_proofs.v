(* Hist_proofs.v -- C01 as a theorem over whole histories, for pod CIDRs the controller itself writes.
   Universe: one incarnation of the controller; nodes are created without pod CIDRs and are never deleted;
   everything else is arbitrary -- any number of nodes and ClusterCIDRs (overlapping, nested, identical
   ranges, any block sizes, single and dual stack, created and deleted at any time), label edits, any
   interleaving of deliveries, resyncs, relists, stale fetches and work items, any pattern of failed and
   timed-out writes, a crash at any point.  Theorem: in every reachable world no two nodes hold overlapping
   pod CIDRs.  (Node deletion needs the world-level glue described in Properties/C01.v and is monitored.) *)
From NIPAM Require Import Sys Geom_proofs Pool_proofs Prio_proofs Alloc_proofs Inv_proofs Sys_proofs World_proofs Complete_proofs Resv_proofs.
From Coq Require Import Lia.
Open Scope N_scope.

Lemma fam_eqb_sym a b : fam_eqb a b = fam_eqb b a.
Proof. destruct a, b; reflexivity. Qed.
Lemma overlapb_sym a b : overlapb a b = overlapb b a.
Proof. unfold overlapb. rewrite (fam_eqb_sym (cf a) (cf b)). rewrite Bool.orb_comm. reflexivity. Qed.

Definition quiet_op (o : op) : Prop :=
  match o with
  | UDeleteNode _ | UMarkNodeDeleting _ | Construct _ _ _ _ => False
  | UCreateNode _ _ cs => cs = []
  | UCreateCC obj => good_obj obj
  | _ => True
  end.

Lemma quiet_wf o : quiet_op o -> wf_op o.
Proof. destruct o; cbn; try tauto. intros ->. constructor. Qed.

Definition node_cidr (a : anode) (c : cidr) : Prop := exists canon, In (PGood c canon) (an_cidrs a).
Definition no_del_event (e : nevent) : Prop := match e with NDel _ => False | _ => True end.

Record FInv (w : world) : Prop := {
  fi_w : WInv w;
  fi_nodel : forall a, In a (w_nodes w) -> an_deleting a = false;
  fi_names : NoDup (map an_name (w_nodes w));
  fi_feed : forall e, In e (w_nfeed w) -> no_del_event e /\ n_deleting (nev_node e) = false /\
                                           exists a, In a (w_nodes w) /\ an_name a = n_name (nev_node e);
  fi_cache : forall n, In n (w_ncache w) -> n_deleting n = false /\ exists a, In a (w_nodes w) /\ an_name a = n_name n;
  fi_fetch : forall wk key n, In (wk, (key, Some n)) (w_nfetch w) -> n_deleting n = false;
  fi_disj : forall a b, In a (w_nodes w) -> In b (w_nodes w) -> an_name a <> an_name b ->
              forall c d, node_cidr a c -> node_cidr b d -> overlapb c d = false;
  fi_held : forall m, w_ctl w = Some m -> forall a c, In a (w_nodes w) -> node_cidr a c -> Held m (an_name a) c
}.

Ltac fsplit I :=
  let a := fresh "Fw" in let b := fresh "Fnd" in let c := fresh "Fnm" in let d := fresh "Ffd" in
  let e := fresh "Fca" in let f := fresh "Fft" in let g := fresh "Fdj" in let h := fresh "Fhd" in
  destruct I as [a b c d e f g h]; constructor;
  cbn [w_nodes w_ccs w_rv w_nfeed w_cfeed w_ncache w_ccache w_nq w_cq w_ctl w_synced w_nfetch w_cfetch w_svc w_delseen
       set_api set_ctl set_caches set_queues set_fetch set_delseen crashed] in *.

Lemma find_anode_some k l : (exists a, In a l /\ an_name a = k) -> find_anode k l <> None.
Proof.
  intros (a & Ha & Hn). induction l as [|x l IH]; [destruct Ha|]. cbn. destruct (str_eqb (an_name x) k) eqn:E; [discriminate|].
  destruct Ha as [->|Ha]; [rewrite Hn, str_eqb_refl in E; discriminate|apply IH; exact Ha].
Qed.
Lemma find_anode_name k l a : find_anode k l = Some a -> an_name a = k.
Proof.
  induction l as [|x l IH]; cbn; [discriminate|]. destruct (str_eqb (an_name x) k) eqn:E; [|exact IH].
  intros H. inversion H; subst. apply str_eqb_eq. exact E.
Qed.

(* replacing the node of a name (names occur once) *)
Lemma upd_anode_names a' l : map an_name (upd_anode a' l) = map an_name l.
Proof.
  induction l as [|h t IH]; cbn; [reflexivity|]. destruct (str_eqb (an_name h) (an_name a')) eqn:E; cbn.
  - apply str_eqb_eq in E. congruence.
  - rewrite IH. reflexivity.
Qed.
Lemma in_upd_anode a' l x : NoDup (map an_name l) -> In x (upd_anode a' l) -> x = a' \/ (In x l /\ an_name x <> an_name a').
Proof.
  induction l as [|h t IH]; cbn; [tauto|]. intros Hnd. inversion Hnd; subst.
  destruct (str_eqb (an_name h) (an_name a')) eqn:E.
  - apply str_eqb_eq in E. intros [<-|H]; [left; reflexivity|]. right. split; [right; exact H|].
    intros Hn. apply H1. rewrite E, <- Hn. apply in_map. exact H.
  - intros [<-|H]; [right; split; [left; reflexivity|]|].
    + intros Hn. rewrite Hn, str_eqb_refl in E. discriminate.
    + destruct (IH H2 H) as [->|[Hin Hne]]; [left; reflexivity|right; split; [right; exact Hin|exact Hne]].
Qed.
Lemma in_upd_anode_old a' l x : In x l -> an_name x <> an_name a' -> In x (upd_anode a' l).
Proof.
  induction l as [|h t IH]; cbn; [tauto|]. intros [->|H] Hne.
  - destruct (str_eqb (an_name x) (an_name a')) eqn:E; [apply str_eqb_eq in E; contradiction|left; reflexivity].
  - destruct (str_eqb (an_name h) (an_name a')); [right; exact H|right; apply IH; assumption].
Qed.

Lemma in_upd_anode_weak a' l x : In x (upd_anode a' l) -> x = a' \/ In x l.
Proof.
  induction l as [|h t IH]; cbn; [tauto|]. destruct (str_eqb (an_name h) (an_name a')).
  - intros [<-|H]; [left; reflexivity|right; right; exact H].
  - intros [<-|H]; [right; left; reflexivity|]. destruct (IH H) as [->|H']; [left; reflexivity|right; right; exact H'].
Qed.

Lemma in_upd_anode_new a' l : (exists a, In a l /\ an_name a = an_name a') -> In a' (upd_anode a' l).
Proof.
  intros (a & Ha & Hn). induction l as [|h t IH]; [destruct Ha|]. cbn.
  destruct (str_eqb (an_name h) (an_name a')) eqn:E; [left; reflexivity|].
  destruct Ha as [->|Ha]; [rewrite Hn, str_eqb_refl in E; discriminate|right; apply IH; exact Ha].
Qed.

Lemma node_cidr_written a nm cs c :
  node_cidr (mkANode nm (an_labels a) (map (fun c => PGood c true) cs) (an_deleting a)) c -> In c cs.
Proof. intros (canon & H). cbn in H. apply in_map_iff in H. destruct H as (x & E & Hx). inversion E; subst. exact Hx. Qed.

Lemma patched_finv w nm cs a :
  FInv w -> Forall wf_cidr cs ->
  (forall b, In b (w_nodes w) -> an_name b <> nm -> forall d, node_cidr b d -> forall x, In x cs -> overlapb x d = false) ->
  (forall m, w_ctl w = Some m -> forall x, In x cs -> Held m nm x) ->
  find_anode nm (w_nodes w) = Some a -> an_cidrs a = [] ->
  let a' := mkANode (an_name a) (an_labels a) (map (fun c => PGood c true) cs) (an_deleting a) in
  WInv (set_api w (upd_anode a' (w_nodes w)) (w_ccs w) (w_rv w) (push_nev w (NUpd (node_view a'))) (w_cfeed w)) ->
  FInv (set_api w (upd_anode a' (w_nodes w)) (w_ccs w) (w_rv w) (push_nev w (NUpd (node_view a'))) (w_cfeed w)).
Proof.
  intros I Hw Hav Hheld Ea Ec a' W'.
  pose proof (find_anode_name _ _ _ Ea) as Hnm. pose proof (find_anode_in _ _ _ Ea) as Hina.
  assert (Hex : exists a0, In a0 (w_nodes w) /\ an_name a0 = an_name a') by (exists a; split; [exact Hina|reflexivity]).
  assert (Hname' : forall k, (exists b, In b (w_nodes w) /\ an_name b = k) -> exists b, In b (upd_anode a' (w_nodes w)) /\ an_name b = k).
  { intros k (b & Hb & Hk). destruct (list_eq_dec N.eq_dec (an_name b) (an_name a')) as [E|E];
      [exists a'; split; [apply in_upd_anode_new; exact Hex|congruence]|exists b; split; [apply in_upd_anode_old; assumption|exact Hk]]. }
  fsplit I.
  - exact W'.
  - intros x Hx. destruct (in_upd_anode a' _ x Fnm Hx) as [->|[Hx' _]]; [cbn; apply Fnd; exact Hina|apply Fnd; exact Hx'].
  - rewrite upd_anode_names. exact Fnm.
  - intros e He. unfold push_nev in He. destruct (w_synced w).
    + apply in_app_or in He. destruct He as [He|[<-|[]]].
      * destruct (Ffd e He) as (A & B & C). split; [exact A|]. split; [exact B|apply Hname'; exact C].
      * split; [exact Logic.I|]. split; [cbn; apply Fnd; exact Hina|]. exists a'. split; [apply in_upd_anode_new; exact Hex|reflexivity].
    + destruct (Ffd e He) as (A & B & C). split; [exact A|]. split; [exact B|apply Hname'; exact C].
  - intros n Hn. destruct (Fca n Hn) as (A & C). split; [exact A|apply Hname'; exact C].
  - exact Fft.
  - intros x y Hx Hy Hne c d Hc Hd.
    destruct (in_upd_anode a' _ x Fnm Hx) as [->|[Hx' Hxn]]; destruct (in_upd_anode a' _ y Fnm Hy) as [->|[Hy' Hyn]].
    + contradiction.
    + apply (Hav y Hy'); [cbn in Hyn; congruence|exact Hd|eapply node_cidr_written; exact Hc].
    + rewrite overlapb_sym. apply (Hav x Hx'); [cbn in Hxn; congruence|exact Hc|eapply node_cidr_written; exact Hd].
    + exact (Fdj x y Hx' Hy' Hne c d Hc Hd).
  - intros m Em x c Hx Hc. destruct (in_upd_anode a' _ x Fnm Hx) as [->|[Hx' _]].
    + cbn [an_name a']. rewrite Hnm. apply (Hheld m Em c). eapply node_cidr_written. exact Hc.
    + exact (Fhd m Em x c Hx' Hc).
Qed.

Lemma apply_patch_finv w nm cs o :
  FInv w -> Forall wf_cidr cs ->
  (forall b, In b (w_nodes w) -> an_name b <> nm -> forall d, node_cidr b d -> forall x, In x cs -> overlapb x d = false) ->
  (o = POk \/ o = PTimeoutApplied -> forall m, w_ctl w = Some m -> forall x, In x cs -> Held m nm x) ->
  FInv (apply_patch w nm cs o).
Proof.
  intros I Hw Hav Hheld. pose proof (apply_patch_winv w nm cs o (fi_w w I) Hw) as W'.
  unfold apply_patch in *.
  destruct o; try exact I;
    (destruct (find_anode nm (w_nodes w)) as [a|] eqn:Ea; [|exact I]; destruct (an_cidrs a) eqn:Ec; [|exact I]);
    (eapply patched_finv; try eassumption; apply Hheld; auto).
Qed.

Lemma apply_patch_ctl w nm cs o : w_ctl (apply_patch w nm cs o) = w_ctl w.
Proof. unfold apply_patch. destruct o; try reflexivity; destruct (find_anode nm (w_nodes w)) as [a|]; try reflexivity; destruct (an_cidrs a); reflexivity. Qed.
Lemma apply_update_cc_ctl w o out : w_ctl (apply_update_cc w o out) = w_ctl w.
Proof.
  unfold apply_update_cc. destruct out; try reflexivity; destruct (find_cc (o_name o) (w_ccs w)) as [c|]; try reflexivity;
    destruct (negb (o_rv c =? o_rv o)); try reflexivity; match goal with |- context [if ?b then _ else _] => destruct b end; reflexivity.
Qed.

Lemma apply_patch_other_nodes w nm cs o b :
  NoDup (map an_name (w_nodes w)) -> In b (w_nodes (apply_patch w nm cs o)) -> an_name b <> nm -> In b (w_nodes w).
Proof.
  intros Hnd Hb Hne. unfold apply_patch in Hb.
  destruct o; try exact Hb;
    (destruct (find_anode nm (w_nodes w)) as [a|] eqn:Ea; [|exact Hb]; destruct (an_cidrs a); [|exact Hb]);
    cbn [set_api w_nodes] in Hb;
    (destruct (in_upd_anode _ _ b Hnd Hb) as [->|[Hin _]]; [cbn in Hne; rewrite (find_anode_name _ _ _ Ea) in Hne; contradiction|exact Hin]).
Qed.

Lemma apply_update_cc_nodes w o out : w_nodes (apply_update_cc w o out) = w_nodes w.
Proof.
  unfold apply_update_cc. destruct out; try reflexivity; destruct (find_cc (o_name o) (w_ccs w)) as [c|]; try reflexivity;
    destruct (negb (o_rv c =? o_rv o)); try reflexivity; match goal with |- context [if ?b then _ else _] => destruct b end; reflexivity.
Qed.

Lemma apply_update_cc_finv w o out : FInv w -> FInv (apply_update_cc w o out).
Proof.
  intros I. pose proof (apply_update_cc_winv w o out (fi_w w I)) as W'. unfold apply_update_cc in *.
  destruct out; try exact I;
    (destruct (find_cc (o_name o) (w_ccs w)) as [cur|]; [|exact I]; destruct (negb (o_rv cur =? o_rv o)); [exact I|]);
    match goal with |- context [if ?b then _ else _] => destruct b end; fsplit I; assumption.
Qed.

Lemma apply_create_cc_nodes w o out : w_nodes (apply_create_cc w o out) = w_nodes w.
Proof. exact (proj1 (apply_create_cc_frame w o out)). Qed.
Lemma apply_create_cc_ctl w o out : w_ctl (apply_create_cc w o out) = w_ctl w.
Proof. destruct (apply_create_cc_frame w o out) as (_ & _ & _ & H & _). exact H. Qed.

Lemma apply_create_cc_finv w o out : FInv w -> good_obj o -> FInv (apply_create_cc w o out).
Proof.
  intros I Hg. pose proof (apply_create_cc_winv w o out (fi_w w I) Hg) as W'. unfold apply_create_cc in *.
  destruct out; try exact I; (destruct (find_cc (o_name o) (w_ccs w)) as [cur|]; [exact I|]); fsplit I; assumption.
Qed.

Lemma apply_effects_finv fx : forall w nm cs, FInv w -> Forall wf_cidr cs -> fx_good fx ->
  (forall nm' cs' o, In (FxPatch nm' cs' o) fx -> nm' = nm /\ cs' = cs) ->
  (forall b, In b (w_nodes w) -> an_name b <> nm -> forall d, node_cidr b d -> forall x, In x cs -> overlapb x d = false) ->
  ((exists o, In (FxPatch nm cs o) fx /\ (o = POk \/ o = PTimeoutApplied)) -> forall m, w_ctl w = Some m -> forall x, In x cs -> Held m nm x) ->
  FInv (apply_effects w fx).
Proof.
  induction fx as [|e fx IH]; intros w nm cs I Hw Hg Hsame Hav Hheld; [exact I|].
  pose proof (fx_good_tail _ _ Hg) as Hg'.
  destruct e; cbn [apply_effects].
  - destruct (Hsame _ _ _ (or_introl eq_refl)) as [-> ->].
    apply (IH _ nm cs); [|exact Hw|exact Hg'| | |].
    + apply apply_patch_finv; [exact I|exact Hw|exact Hav|]. intros Ho. apply Hheld. exists o. split; [left; reflexivity|exact Ho].
    + intros nm' cs' o' Hin. apply (Hsame nm' cs' o'). right. exact Hin.
    + intros b Hb Hne. apply Hav; [|exact Hne]. eapply apply_patch_other_nodes; [exact (fi_names w I)|exact Hb|exact Hne].
    + intros (o' & Hin & Ho') m Em. rewrite apply_patch_ctl in Em. apply Hheld; [|exact Em]. exists o'. split; [right; exact Hin|exact Ho'].
  - apply (IH _ nm cs); try assumption. intros; eapply Hsame; right; eassumption.
    intros (o' & Hin & Ho'). apply Hheld. exists o'. split; [right; exact Hin|exact Ho'].
  - apply (IH _ nm cs); try assumption. intros; eapply Hsame; right; eassumption.
    intros (o' & Hin & Ho'). apply Hheld. exists o'. split; [right; exact Hin|exact Ho'].
  - apply (IH _ nm cs); [apply apply_update_cc_finv; exact I|exact Hw|exact Hg'| | |].
    + intros; eapply Hsame; right; eassumption.
    + rewrite apply_update_cc_nodes. exact Hav.
    + intros (o'' & Hin & Ho') m Em. rewrite apply_update_cc_ctl in Em. apply Hheld; [|exact Em]. exists o''. split; [right; exact Hin|exact Ho'].
  - apply (IH _ nm cs); [apply apply_create_cc_finv; [exact I|exact (fx_good_head _ _ _ Hg)]|exact Hw|exact Hg'| | |].
    + intros; eapply Hsame; right; eassumption.
    + rewrite apply_create_cc_nodes. exact Hav.
    + intros (o'' & Hin & Ho') m Em. rewrite apply_create_cc_ctl in Em. apply Hheld; [|exact Em]. exists o''. split; [right; exact Hin|exact Ho'].
Qed.

Lemma patch_dec (fx : list effect) : (exists nm cs o, In (FxPatch nm cs o) fx) \/ (forall nm cs o, ~ In (FxPatch nm cs o) fx).
Proof.
  induction fx as [|e fx IH]; [right; intros nm cs o []|].
  destruct e as [nm cs o| | | |]; try (destruct IH as [(nm & cs & o & H)|H]; [left; exists nm, cs, o; right; exact H|right; intros nm cs o [E|Hin]; [discriminate E|exact (H _ _ _ Hin)]]).
  left. exists nm, cs, o. left. reflexivity.
Qed.

Lemma crashed_finv w : FInv w -> FInv (crashed w).
Proof.
  intros I. pose proof (crashed_winv w (fi_w w I)) as W'. fsplit I; try assumption.
  - intros e [].
  - intros n [].
  - intros wk key n [].
  - intros m E. discriminate E.
Qed.


Lemma NoDup_app_snoc {A} (l : list A) x : NoDup l -> ~ In x l -> NoDup (l ++ [x]).
Proof.
  intros H Hx. induction H as [|y l Hy H IH]; cbn; [constructor; [intros []|constructor]|].
  constructor.
  - intros Hin. apply in_app_or in Hin. destruct Hin as [Hin|[->|[]]]; [contradiction|apply Hx; left; reflexivity].
  - apply IH. intros Hin. apply Hx. right. exact Hin.
Qed.

Lemma res_eq_panic {A} (r : res A) : r = Panic \/ r <> Panic.
Proof. destruct r; [right; discriminate|right; discriminate|left; reflexivity]. Qed.

Lemma finv_init : FInv init_world.
Proof.
  constructor; cbn.
  - apply winv_init.
  - intros a [].
  - apply NoDup_nil.
  - intros e [].
  - intros n [].
  - intros wk key n [].
  - intros a b [].
  - intros m E. discriminate E.
Qed.

Section Hist.
  Variable po : parse_oracle.
  Variable lab : label_oracle.

  Lemma run_node_sync_finv w cached key outs :
    FInv w -> (forall n, cached = Some n -> wf_node n /\ n_deleting n = false) ->
    FInv (fst (run_node_sync po lab w cached key outs)).
  Proof.
    intros I Hc. unfold run_node_sync. destruct (w_ctl w) as [m|] eqn:Em; [|exact I].
    destruct (sync_node po lab (svc_list (w_svc w)) (can_patch w key) (api_same w key) (held_cidrs (w_ncache w)) m cached (find_node key (w_ncache w)) outs)
      as [[m' r] fx] eqn:Es.
    cbn [fst]. pose proof (wi_ctl w (fi_w w I) m Em) as M.
    destruct (res_eq_panic r) as [->|Hnp].
    { rewrite (sync_node_panic_writes_nothing _ _ _ _ _ _ _ _ _ _ _ _ M Es). cbn. apply crashed_finv. exact I. }
    destruct (sync_node_keeps _ _ _ _ _ _ _ _ _ _ _ _ _ M Hc Hnp Es) as (Hmono & Havoid & Hkept).
    assert (M' : MapInv m') by (eapply sync_node_inv; [exact M|exact (wi_svc w (fi_w w I))|intros n E; apply (Hc n E)|exact Es]).
    (* the world after the call, before the API writes are applied *)
    assert (IA : FInv (after_call w r m')).
    { assert (Hac : after_call w r m' = set_ctl w (Some m')) by (unfold after_call; destruct r; [reflexivity|reflexivity|contradiction]).
      rewrite Hac. pose proof (after_call_winv w r m' (fi_w w I) M') as W'. rewrite Hac in W'.
      fsplit I; try assumption. intros m0 E0 a c Ha Hc0. inversion E0; subst. apply Hmono. eapply Fhd; [exact Em|exact Ha|exact Hc0]. }
    assert (Hctl : w_ctl (after_call w r m') = Some m') by (unfold after_call; destruct r; [reflexivity|reflexivity|contradiction]).
    assert (Hnodes : w_nodes (after_call w r m') = w_nodes w) by (unfold after_call; destruct r; reflexivity).
    destruct (patch_dec fx) as [(nm & cs & o & Hin)|Hno].
    - apply (apply_effects_finv fx _ nm cs IA).
      + exact (sync_node_patches_wf po lab _ _ _ _ _ _ _ _ _ _ _ M Es nm cs o Hin).
      + eapply sync_node_fx_good; exact Es.
      + intros nm' cs' o' Hin'. exact (sync_node_patches_same _ _ _ _ _ _ _ _ _ _ _ _ _ Es _ _ _ _ _ _ Hin' Hin).
      + rewrite Hnodes. intros b Hb Hne d Hd x Hx. eapply Havoid; [exact Hin| |exact Hx].
        eapply (fi_held w I m Em b d Hb Hd).
      + intros (o' & Hin' & Ho') m0 E0 x Hx. rewrite Hctl in E0. inversion E0; subst m0.
        eapply Hkept; [exact Hin'| |exact Hx].
        exact (sync_node_applied_is_kept _ _ _ _ _ _ _ _ _ _ _ _ _ M Es _ _ _ Hin' Ho').
    - apply (apply_effects_finv fx _ key [] IA); [constructor|eapply sync_node_fx_good; exact Es| | |].
      + intros nm' cs' o' Hin'. destruct (Hno _ _ _ Hin').
      + intros b _ _ d _ x [].
      + intros _ m0 _ x [].
  Qed.

  Lemma run_cc_sync_finv w key cached out :
    FInv w -> (forall o, cached = Some o -> good_obj o) -> FInv (fst (run_cc_sync w key cached out)).
  Proof.
    intros I Hc. pose proof (run_cc_sync_winv w key cached out (fi_w w I) Hc) as W'.
    unfold run_cc_sync in *. destruct (w_ctl w) as [m|] eqn:Em; [|exact I].
    match goal with |- context [sync_cc m key cached ?o] => destruct (sync_cc m key cached o) as [[m' r] fx] eqn:Es end.
    cbn [fst] in *. pose proof (sync_cc_keeps _ _ _ _ _ _ _ Es) as Hmono.
    assert (Hnp : forall nm cs o, ~ In (FxPatch nm cs o) fx).
    { intros nm cs o Hin. pose proof (sync_cc_no_patch _ _ _ _ _ _ _ Es _ Hin) as Hp. discriminate Hp. }
    assert (IA : FInv (after_call w r m')).
    { unfold after_call. destruct r; try (apply crashed_finv; exact I).
      all: assert (M' : MapInv m') by (eapply sync_cc_inv; [exact (wi_ctl w (fi_w w I) m Em)|exact Hc|exact Es]).
      all: pose proof (after_call_winv w (@Ok unit tt) m' (fi_w w I) M') as Wa; cbn [after_call] in Wa.
      all: fsplit I; try assumption; intros m0 E0 a0 c0 Ha Hc0; inversion E0; subst; apply Hmono; eapply Fhd; [exact Em|exact Ha|exact Hc0]. }
    assert (IB : forall w1, FInv w1 -> FInv (apply_effects w1 fx)).
    { intros w1 I1. apply (apply_effects_finv fx w1 key [] I1); [constructor|eapply sync_cc_fx_good; eassumption| | |].
      - intros nm' cs' o' Hin'. destruct (Hnp _ _ _ Hin').
      - intros b _ _ d _ x [].
      - intros _ m0 _ x []. }
    apply IB. destruct cached as [o|]; [|exact IA].
    match goal with |- context [if ?b then _ else _] => destruct b end; [|exact IA].
    pose proof IA as IA0. fsplit IA; try assumption. apply set_delseen_winv. exact Fw.
  Qed.

  Lemma handle_nevent_finv w e :
    FInv w -> no_del_event e -> wf_node (nev_node e) -> n_deleting (nev_node e) = false ->
    (exists a, In a (w_nodes w) /\ an_name a = n_name (nev_node e)) -> FInv (fst (handle_nevent w e)).
  Proof.
    intros I Hnd Hwf Hdel Hex. pose proof (handle_nevent_winv w e (fi_w w I) Hwf) as W'.
    unfold handle_nevent in *. destruct e as [n|n|n]; cbn [nev_node] in *; try contradiction.
    all: destruct (w_ctl w) eqn:Em; cbn [set_caches w_ctl] in *; rewrite ?Em in *; cbn [fst] in *.
    all: fsplit I; try assumption.
    all: intros x Hx; unfold put_node in Hx; destruct (find_node (n_name n) (w_ncache w));
      [apply in_map_iff in Hx; destruct Hx as (y & <- & Hy); destruct (str_eqb (n_name y) (n_name n)); [split; assumption|apply Fca; exact Hy]
      |apply in_app_or in Hx; destruct Hx as [Hx|[<-|[]]]; [apply Fca; exact Hx|split; assumption]].
  Qed.

  Lemma finv_same w w' :
    FInv w -> WInv w' -> w_nodes w' = w_nodes w -> w_nfeed w' = w_nfeed w -> w_ncache w' = w_ncache w ->
    w_nfetch w' = w_nfetch w -> w_ctl w' = w_ctl w -> FInv w'.
  Proof.
    intros I W' E1 E2 E3 E4 E5. destruct I as [Fw Fnd Fnm Ffd Fca Fft Fdj Fhd]. constructor; rewrite ?E1, ?E2, ?E3, ?E4, ?E5; assumption.
  Qed.

  Lemma handle_cevent_same w e : let w' := fst (handle_cevent w e) in
    w_nodes w' = w_nodes w /\ w_nfeed w' = w_nfeed w /\ w_ncache w' = w_ncache w /\ w_nfetch w' = w_nfetch w /\ w_ctl w' = w_ctl w.
  Proof. unfold handle_cevent. destruct e; cbn; destruct (w_ctl w) eqn:E; cbn; rewrite ?E; repeat split; reflexivity. Qed.

  Lemma deliver_all_c_same es : forall w, let w' := deliver_all_c w es in
    w_nodes w' = w_nodes w /\ w_nfeed w' = w_nfeed w /\ w_ncache w' = w_ncache w /\ w_nfetch w' = w_nfetch w /\ w_ctl w' = w_ctl w.
  Proof.
    induction es as [|e es IH]; intros w; cbn [deliver_all_c]; [repeat split; reflexivity|].
    destruct (IH (fst (handle_cevent w e))) as (A & B & C & D & E). destruct (handle_cevent_same w e) as (A' & B' & C' & D' & E').
    cbn zeta in *. repeat split; congruence.
  Qed.

  Lemma handle_nevent_nodes w e : w_nodes (fst (handle_nevent w e)) = w_nodes w.
  Proof.
    unfold handle_nevent. destruct e as [n|n|n]; cbn [set_caches w_ctl]; try (destruct (w_ctl w); reflexivity).
    destruct (w_ctl w) as [m|]; [|reflexivity]. destruct (release_cidr (svc_list (w_svc w)) m n) as [m' r]. destruct r; reflexivity.
  Qed.

  Definition ev_ok (w : world) (e : nevent) : Prop :=
    no_del_event e /\ wf_node (nev_node e) /\ n_deleting (nev_node e) = false /\
    exists a, In a (w_nodes w) /\ an_name a = n_name (nev_node e).

  Lemma deliver_all_n_finv es : forall w acc, FInv w -> Forall (ev_ok w) es -> FInv (fst (deliver_all_n w es acc)).
  Proof.
    induction es as [|e es IH]; intros w acc I H; cbn [deliver_all_n]; [exact I|].
    inversion H as [|? ? (A & B & C & D) Hrest]; subst.
    pose proof (handle_nevent_finv w e I A B C D) as I1. pose proof (handle_nevent_nodes w e) as Hn.
    destruct (handle_nevent w e) as [w1 ob]. cbn [fst] in *.
    destruct (ob_res ob =? 3); [exact I1|]. apply IH; [exact I1|].
    eapply Forall_impl; [|exact Hrest]. intros x (A' & B' & C' & D'). split; [exact A'|]. split; [exact B'|]. split; [exact C'|].
    rewrite Hn. exact D'.
  Qed.

  Lemma find_anode_none k l : find_anode k l = None -> ~ In k (map an_name l).
  Proof.
    induction l as [|x l IH]; cbn; [tauto|]. destruct (str_eqb (an_name x) k) eqn:E; [discriminate|].
    intros H [Hx|Hx]; [rewrite Hx, str_eqb_refl in E; discriminate|exact (IH H Hx)].
  Qed.

  Theorem step_finv w o : FInv w -> quiet_op o -> FInv (fst (step po lab w o)).
  Proof.
    intros I Hq. pose proof (step_winv po lab w o (fi_w w I) (quiet_wf o Hq)) as W'.
    destruct o; cbn [step quiet_op] in *; try contradiction.
    - (* UCreateNode without pod CIDRs *)
      subst cs. destruct (find_anode name (w_nodes w)) eqn:Ef; [exact I|]. cbn [fst] in *.
      set (a' := mkANode name ls [] false) in *.
      fsplit I; try assumption.
      + intros x Hx. apply in_app_or in Hx. destruct Hx as [Hx|[<-|[]]]; [apply Fnd; exact Hx|reflexivity].
      + rewrite map_app. cbn. apply NoDup_app_snoc; [exact Fnm|apply find_anode_none; exact Ef].
      + intros e He. unfold push_nev in He. destruct (w_synced w).
        * apply in_app_or in He. destruct He as [He|[<-|[]]].
          -- destruct (Ffd e He) as (A & B & a & Ha & Hn). split; [exact A|]. split; [exact B|]. exists a. split; [apply in_or_app; left; exact Ha|exact Hn].
          -- split; [exact Logic.I|]. split; [reflexivity|]. exists a'. split; [apply in_or_app; right; left; reflexivity|reflexivity].
        * destruct (Ffd e He) as (A & B & a & Ha & Hn). split; [exact A|]. split; [exact B|]. exists a. split; [apply in_or_app; left; exact Ha|exact Hn].
      + intros n Hn. destruct (Fca n Hn) as (A & a & Ha & Hnm). split; [exact A|]. exists a. split; [apply in_or_app; left; exact Ha|exact Hnm].
      + intros x y Hx Hy Hne c d Hc Hd. apply in_app_or in Hx. apply in_app_or in Hy.
        destruct Hx as [Hx|[<-|[]]]; [|destruct Hc as (cn & [])]. destruct Hy as [Hy|[<-|[]]]; [|destruct Hd as (cn & [])].
        exact (Fdj x y Hx Hy Hne c d Hc Hd).
      + intros m Em x c Hx Hc. apply in_app_or in Hx. destruct Hx as [Hx|[<-|[]]]; [exact (Fhd m Em x c Hx Hc)|destruct Hc as (cn & [])].
    - (* ULabelNode *)
      destruct (find_anode name (w_nodes w)) as [a|] eqn:Ea; [|exact I]. cbn [fst] in *.
      pose proof (find_anode_name _ _ _ Ea) as Hnm. pose proof (find_anode_in _ _ _ Ea) as Hina.
      set (a' := mkANode name ls (an_cidrs a) (an_deleting a)) in *.
      assert (Hex : exists a0, In a0 (w_nodes w) /\ an_name a0 = an_name a') by (exists a; split; [exact Hina|exact Hnm]).
      assert (Hname' : forall k, (exists b, In b (w_nodes w) /\ an_name b = k) -> exists b, In b (upd_anode a' (w_nodes w)) /\ an_name b = k).
      { intros k (b & Hb & Hk). destruct (list_eq_dec N.eq_dec (an_name b) (an_name a')) as [E|E];
          [exists a'; split; [apply in_upd_anode_new; exact Hex|congruence]|exists b; split; [apply in_upd_anode_old; assumption|exact Hk]]. }
      assert (Hcid : forall c, node_cidr a' c -> node_cidr a c) by (intros c H; exact H).
      fsplit I; try assumption.
      + intros x Hx. destruct (in_upd_anode a' _ x Fnm Hx) as [->|[Hx' _]]; [cbn; apply Fnd; exact Hina|apply Fnd; exact Hx'].
      + rewrite upd_anode_names. exact Fnm.
      + intros e He. unfold push_nev in He. destruct (w_synced w).
        * apply in_app_or in He. destruct He as [He|[<-|[]]].
          -- destruct (Ffd e He) as (A & B & C). split; [exact A|]. split; [exact B|apply Hname'; exact C].
          -- split; [exact Logic.I|]. split; [cbn; apply Fnd; exact Hina|]. exists a'. split; [apply in_upd_anode_new; exact Hex|reflexivity].
        * destruct (Ffd e He) as (A & B & C). split; [exact A|]. split; [exact B|apply Hname'; exact C].
      + intros n Hn. destruct (Fca n Hn) as (A & C). split; [exact A|apply Hname'; exact C].
      + intros x y Hx Hy Hne c d Hc Hd.
        destruct (in_upd_anode a' _ x Fnm Hx) as [->|[Hx' Hxn]]; destruct (in_upd_anode a' _ y Fnm Hy) as [->|[Hy' Hyn]].
        * contradiction.
        * apply (Fdj a y Hina Hy'); [cbn in Hne; congruence|apply Hcid; exact Hc|exact Hd].
        * apply (Fdj x a Hx' Hina); [cbn in Hne; congruence|exact Hc|apply Hcid; exact Hd].
        * exact (Fdj x y Hx' Hy' Hne c d Hc Hd).
      + intros m Em x c Hx Hc. destruct (in_upd_anode a' _ x Fnm Hx) as [->|[Hx' _]].
        * cbn [an_name a']. rewrite <- Hnm. apply (Fhd m Em a c Hina). apply Hcid. exact Hc.
        * exact (Fhd m Em x c Hx' Hc).
    - (* UCreateCC *)
      destruct (find_cc (o_name o) (w_ccs w)); [exact I|]. apply (finv_same w); try reflexivity; assumption.
    - (* UDeleteCC *)
      destruct (find_cc name (w_ccs w)) as [c|]; [|exact I]. destruct (o_fins c); [apply (finv_same w); try reflexivity; assumption|].
      destruct (o_deleting c); [exact I|apply (finv_same w); try reflexivity; assumption].
    - (* USetCCFinalizers *)
      destruct (find_cc name (w_ccs w)) as [c|]; [|exact I].
      match goal with |- context [if ?b then _ else _] => destruct b end; apply (finv_same w); try reflexivity; assumption.
    - (* DeliverNode *)
      destruct (w_nfeed w) as [|e rest] eqn:Ef; [exact I|].
      destruct (fi_feed w I e ltac:(rewrite Ef; left; reflexivity)) as (A & B & C).
      apply handle_nevent_finv; try assumption.
      + pose proof I as I0. fsplit I; try assumption.
        * pose proof (fi_w w I0) as Ww. destruct Ww as [a1 b1 c1 d1 e1 f1 g1 h1 i1 j1]. constructor; cbn; try assumption. rewrite Ef in c1. inversion c1; assumption.
        * intros x Hx. apply Ffd. rewrite Ef. right. exact Hx.
      + pose proof (wi_nfeed w (fi_w w I)) as Hf. rewrite Ef in Hf. inversion Hf; assumption.
    - (* DeliverNodeTombstone: there is no deletion to deliver *)
      destruct (w_nfeed w) as [|[n|n|n] rest] eqn:Ef; try exact I.
      destruct (fi_feed w I (NDel n) ltac:(rewrite Ef; left; reflexivity)) as ([] & _).
    - (* DeliverCC *)
      destruct (w_cfeed w) as [|e rest]; [exact I|].
      match goal with |- FInv (fst (handle_cevent ?w0 e)) => destruct (handle_cevent_same w0 e) as (A & B & C & D & E) end.
      apply (finv_same w); assumption.
    - (* ResyncNodes *) destruct (w_ctl w); [|exact I]. apply (finv_same w); try reflexivity; assumption.
    - (* ResyncCCs *) destruct (w_ctl w); [|exact I]. apply (finv_same w); try reflexivity; assumption.
    - (* RelistNodes *)
      destruct (w_synced w); [|exact I]. apply deliver_all_n_finv.
      + pose proof I as I0. fsplit I; try assumption.
        * pose proof (fi_w w I0) as Ww. destruct Ww as [a1 b1 c1 d1 e1 f1 g1 h1 i1 j1]. constructor; cbn; try assumption. constructor.
        * intros e [].
      + cbn [set_caches w_nodes]. unfold relist_nevents. apply Forall_app. split.
        * rewrite Forall_forall. intros e He. apply in_map_iff in He. destruct He as (a & <- & Ha). cbn.
          split; [exact Logic.I|]. split; [apply wf_node_view; eapply in_anodes_wf; [exact (fi_w w I)|exact Ha]|].
          split; [apply (fi_nodel w I a Ha)|exists a; split; [exact Ha|reflexivity]].
        * rewrite Forall_forall. intros e He. apply in_flat_map in He. destruct He as (k & Hk & He).
          apply (Permutation.Permutation_in _ (Permutation.Permutation_sym (sort_perm _ _))) in Hk. apply in_map_iff in Hk. destruct Hk as (n & <- & Hn).
          destruct (fi_cache w I n Hn) as (_ & Hex). pose proof (find_anode_some _ _ Hex) as Hsome.
          destruct (find_anode (n_name n) (w_nodes w)); [destruct He|contradiction].
    - (* RelistCCs *)
      destruct (w_synced w); [|exact I]. cbn [fst] in *.
      match goal with |- FInv (deliver_all_c ?w0 ?es) => destruct (deliver_all_c_same es w0) as (A & B & C & D & E) end.
      apply (finv_same w); assumption.
    - (* FetchNode *)
      cbn [fst] in *. pose proof I as I0. fsplit I; try assumption.
      intros wk k n [E|Hin].
      + inversion E; subst. match goal with H : find_node _ _ = Some n |- _ => apply find_node_in in H; exact (proj1 (Fca n H)) end.
      + apply filter_In in Hin. destruct Hin as [Hin _]. eapply Fft. exact Hin.
    - (* RunNode *)
      destruct (find (fun x => fst x =? w0) (w_nfetch w)) as [[wk [key cached]]|] eqn:Ef; [|exact I].
      apply find_some in Ef. destruct Ef as [Hin _].
      apply run_node_sync_finv.
      + pose proof I as I0. fsplit I; try assumption.
        * pose proof (fi_w w I0) as Ww. destruct Ww as [a1 b1 c1 d1 e1 f1 g1 h1 i1 j1]. constructor; cbn; try assumption.
          intros wk' k n Hi. apply filter_In in Hi. destruct Hi as [Hi _]. eapply g1. exact Hi.
        * intros wk' k n Hi. apply filter_In in Hi. destruct Hi as [Hi _]. eapply Fft. exact Hi.
      + intros n E. subst cached. split; [eapply (wi_nfetch w (fi_w w I)); exact Hin|eapply (fi_fetch w I); exact Hin].
    - (* FetchCC *) apply (finv_same w); try reflexivity; assumption.
    - (* RunCC *)
      destruct (find (fun x => fst x =? w0) (w_cfetch w)) as [[wk [key cached]]|] eqn:Ef; [|exact I].
      apply find_some in Ef. destruct Ef as [Hin _].
      apply run_cc_sync_finv.
      + apply (finv_same w); try reflexivity; [exact I|].
        pose proof (fi_w w I) as Ww. destruct Ww as [a1 b1 c1 d1 e1 f1 g1 h1 i1 j1]. constructor; cbn; try assumption.
        intros wk' k n Hi. apply filter_In in Hi. destruct Hi as [Hi _]. eapply h1. exact Hi.
      + intros n E. subst cached. eapply (wi_cfetch w (fi_w w I)). exact Hin.
    - (* ProcNode *)
      destruct (w_ctl w) as [m|] eqn:Em; [|exact I]. destruct (q_ready (w_nq w)) as [|key rest]; [exact I|].
      match goal with |- context [run_node_sync po lab ?w1 ?c ?k ?o] =>
        assert (I2 : FInv (fst (run_node_sync po lab w1 c k o)));
          [|destruct (run_node_sync po lab w1 c k o) as [w2 ob2]] end.
      { apply run_node_sync_finv.
        - apply (finv_same w); try reflexivity; [exact I|apply set_queues_winv; exact (fi_w w I)].
        - cbn [set_queues w_ncache]. intros n E. apply find_node_in in E. split; [|exact (proj1 (fi_cache w I n E))].
          pose proof (wi_ncache w (fi_w w I)) as F. rewrite Forall_forall in F. apply F. exact E. }
      cbn [fst] in I2. destruct (ob_res ob2 =? 2); cbn [fst]; [|exact I2].
      apply (finv_same w2); try reflexivity; [exact I2|apply set_queues_winv; exact (fi_w w2 I2)].
    - (* ProcCC *)
      destruct (w_ctl w) as [m|] eqn:Em; [|exact I]. destruct (q_ready (w_cq w)) as [|key rest]; [exact I|].
      match goal with |- context [run_cc_sync ?w1 ?k ?c ?o] =>
        assert (I2 : FInv (fst (run_cc_sync w1 k c o)));
          [|destruct (run_cc_sync w1 k c o) as [w2 ob2]] end.
      { apply run_cc_sync_finv.
        - apply (finv_same w); try reflexivity; [exact I|apply set_queues_winv; exact (fi_w w I)].
        - cbn [set_queues w_ccache]. intros n E. eapply cached_cc_good; [exact (fi_w w I)|exact E]. }
      cbn [fst] in I2. destruct (ob_res ob2 =? 2); cbn [fst]; [|exact I2].
      apply (finv_same w2); try reflexivity; [exact I2|apply set_queues_winv; exact (fi_w w2 I2)].
    - (* Tick *) apply (finv_same w); try reflexivity; assumption.
    - (* Crash *) apply crashed_finv. exact I.
    - (* StartInformers *)
      destruct (w_ctl w) as [m|] eqn:Em; [|exact I]. destruct (w_synced w); [exact I|]. cbn [fst] in *.
      pose proof I as I0. fsplit I; try assumption.
      + intros e [].
      + intros n Hn. apply in_map_iff in Hn. destruct Hn as (a & <- & Ha). split; [cbn; apply Fnd; exact Ha|exists a; split; [exact Ha|reflexivity]].
      + intros m0 E0. inversion E0; subst m0. exact (Fhd m Em).
  Qed.

  Theorem run_finv ops : forall w, FInv w -> Forall quiet_op ops -> FInv (run po lab w ops).
  Proof.
    induction ops as [|o ops IH]; intros w I H; [exact I|]. inversion H; subst.
    unfold run. cbn [fold_left]. apply IH; [apply step_finv; assumption|assumption].
  Qed.

  (* start of the one incarnation: users create ClusterCIDRs and nodes (without pod CIDRs), then the controller starts *)
  Definition user_op (o : op) : Prop :=
    match o with
    | UCreateNode _ _ cs => cs = []
    | ULabelNode _ _ | UDeleteCC _ | USetCCFinalizers _ _ => True
    | UCreateCC obj => good_obj obj
    | _ => False
    end.
  Lemma user_quiet o : user_op o -> quiet_op o.
  Proof. destruct o; cbn; tauto. Qed.

  Definition bare (w : world) : Prop := w_ctl w = None /\ forall a, In a (w_nodes w) -> an_cidrs a = [].

  Lemma step_bare w o : bare w -> user_op o -> bare (fst (step po lab w o)).
  Proof.
    intros [Hc Hn] Hu. destruct o; cbn [step user_op] in *; try contradiction.
    - subst cs. destruct (find_anode name (w_nodes w)); [split; assumption|]. cbn. split; [exact Hc|].
      intros a Ha. apply in_app_or in Ha. destruct Ha as [Ha|[<-|[]]]; [apply Hn; exact Ha|reflexivity].
    - destruct (find_anode name (w_nodes w)) as [a|] eqn:Ea; [|split; assumption]. cbn. split; [exact Hc|].
      intros x Hx. destruct (in_upd_anode_weak _ _ _ Hx) as [->|Hx']; [cbn; apply Hn; eapply find_anode_in; exact Ea|apply Hn; exact Hx'].
    - destruct (find_cc (o_name o) (w_ccs w)); split; assumption.
    - destruct (find_cc name (w_ccs w)) as [c|]; [|split; assumption]. destruct (o_fins c); [split; assumption|]. destruct (o_deleting c); split; assumption.
    - destruct (find_cc name (w_ccs w)) as [c|]; [|split; assumption].
      match goal with |- context [if ?b then _ else _] => destruct b end; split; assumption.
  Qed.

  Lemma run_bare ops : forall w, bare w -> Forall user_op ops -> bare (run po lab w ops).
  Proof.
    induction ops as [|o ops IH]; intros w B H; [exact B|]. inversion H; subst.
    unfold run. cbn [fold_left]. apply IH; [apply step_bare; assumption|assumption].
  Qed.

  Lemma apply_effects_cc_only fx : (forall nm cs o, ~ In (FxPatch nm cs o) fx) -> fx_good fx -> forall w, FInv w -> FInv (apply_effects w fx).
  Proof.
    intros Hnp Hg w I. apply (apply_effects_finv fx w [] [] I); [constructor|exact Hg| | |].
    - intros nm' cs' o' Hin'. destruct (Hnp _ _ _ Hin').
    - intros b _ _ d _ x [].
    - intros _ m0 _ x [].
  Qed.

  Lemma construct_finv w s1 s2 outs dp :
    FInv w -> bare w -> (forall s, s1 = Some s -> wf_cidr s) -> (forall s, s2 = Some s -> wf_cidr s) -> wf_dp dp ->
    FInv (fst (step po lab w (Construct s1 s2 outs dp))).
  Proof.
    intros I [Hc Hn] H1 H2 Hdp. pose proof (step_winv po lab w (Construct s1 s2 outs dp) (fi_w w I) (conj H1 (conj H2 Hdp))) as W'.
    assert (Hgood : Forall good_obj (with_default dp (w_ccs w))) by (apply with_default_good; [exact Hdp|exact (wi_ccs w (fi_w w I))]).
    cbn [step] in *. rewrite Hc in *.
    destruct (construct po lab (with_default dp (w_ccs w)) outs s1 s2 (map node_view (w_nodes w))) as [[m fx] pan] eqn:Ec. cbn [fst] in *.
    assert (Hnp : forall nm cs o, ~ In (FxPatch nm cs o) fx).
    { intros nm cs o Hin. unfold construct in Ec. destruct (bootstrap_ccs [] (with_default dp (w_ccs w)) outs) as [m1 fx1] eqn:Eb.
      match type of Ec with context [occupy_nodes po lab ?m3 ?ns] => destruct (occupy_nodes po lab m3 ns) as [m4 p4] end.
      inversion Ec; subst. pose proof (bootstrap_no_patch _ _ _ _ _ Eb _ Hin) as Hp. discriminate Hp. }
    apply apply_effects_cc_only; [exact Hnp|eapply construct_fx_good; eassumption|].
    assert (M : forall m0, (if pan then None else Some m) = Some m0 -> MapInv m0).
    { intros m0 E. destruct pan; [discriminate|]. inversion E; subst.
      eapply construct_inv; [exact Hgood| |exact H1|exact H2|exact Ec].
      rewrite Forall_forall. intros n Hin. apply in_map_iff in Hin. destruct Hin as (a & <- & Ha). apply wf_node_view. eapply in_anodes_wf; [exact (fi_w w I)|exact Ha]. }
    pose proof I as I0. fsplit I; try assumption.
    - pose proof (fi_w w I0) as Ww. destruct Ww as [a1 b1 c1 d1 e1 f1 g1 h1 i1 j1].
      constructor; cbn; [assumption|assumption|constructor|constructor|constructor|constructor|intros; contradiction|intros; contradiction|exact M|apply svc_list_wf; assumption].
    - intros e [].
    - intros n [].
    - intros wk key n [].
    - intros m0 E0 a c Ha (cn & Hcn). rewrite (Hn a Ha) in Hcn. destruct Hcn.
  Qed.

  (* C01 over whole histories of one incarnation without node deletions *)
  Theorem no_overlap_in_quiet_histories pre s1 s2 outs dp ops :
    Forall user_op pre -> (forall s, s1 = Some s -> wf_cidr s) -> (forall s, s2 = Some s -> wf_cidr s) -> wf_dp dp -> Forall quiet_op ops ->
    let w := run po lab init_world (pre ++ Construct s1 s2 outs dp :: ops) in
    forall a b, In a (w_nodes w) -> In b (w_nodes w) -> an_name a <> an_name b ->
    forall c d, node_cidr a c -> node_cidr b d -> overlapb c d = false.
  Proof.
    intros Hpre H1 H2 Hdp Hops w. apply fi_disj. subst w. unfold run. rewrite fold_left_app. cbn [fold_left].
    apply run_finv; [|exact Hops]. apply construct_finv; [| |exact H1|exact H2|exact Hdp].
    - apply run_finv; [|eapply Forall_impl; [exact user_quiet|exact Hpre]].
      apply finv_init.
    - apply run_bare; [split; [reflexivity|intros a []]|exact Hpre].
  Qed.
End Hist.
