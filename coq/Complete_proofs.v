(* Complete_proofs.v -- C05: completeness of the allocation loop.  allocateCIDR examines candidates of one
   pool starting at its cursor; a candidate is skipped when it is a used key somewhere, overlaps a used key
   somewhere, or overlaps a pod CIDR of a cached node.  Theorem: when the loop gives up, EVERY block of the
   pool is blocked in that sense (with respect to the state the loop started from) -- whatever the cursor
   position, however many blocks are blocked only through other ClusterCIDRs. *)
From NIPAM Require Import Alloc Geom_proofs Pool_proofs Prio_proofs Alloc_proofs Inv_proofs.
From Coq Require Import Lia.
Open Scope N_scope.

Definition blockedb (m : cidrmap) (held : list cidr) (b : cidr) : bool :=
  in_allocated_list m b || overlaps_allocated m b || in_use_by_node held b.

(* two maps whose pools have the same used keys answer the two scans alike *)
Definition same_scans (m0 m : cidrmap) : Prop :=
  forall b, in_allocated_list m b = in_allocated_list m0 b /\ overlaps_allocated m b = overlaps_allocated m0 b.

Lemma existsb_set_nth {A} (g : A -> bool) i c c1 l :
  nth_error l i = Some c -> g c1 = g c -> existsb g (set_nth i c1 l) = existsb g l.
Proof.
  revert l. induction i as [|i IH]; intros [|h t]; cbn; try discriminate.
  - intros E Hg. inversion E; subst. rewrite Hg. reflexivity.
  - intros E Hg. rewrite (IH t E Hg). reflexivity.
Qed.

Lemma existsb_all_entries_set_key (g : ccset -> bool) k l l' m :
  find_key k m = Some l -> existsb g l' = existsb g l ->
  existsb g (all_entries (set_key k l' m)) = existsb g (all_entries m).
Proof.
  induction m as [|[k0 l0] m IH]; cbn; [discriminate|]. intros Hf Hg.
  destruct (str_eqb k k0) eqn:E.
  - inversion Hf; subst. unfold all_entries. cbn. rewrite !existsb_app. rewrite Hg. reflexivity.
  - unfold all_entries in *. cbn. rewrite !existsb_app. rewrite (IH Hf Hg). reflexivity.
Qed.

Lemma existsb_all_entries_set_entry (g : ccset -> bool) m p c c1 :
  get_entry m p = Some c -> g c1 = g c -> existsb g (all_entries (set_entry m p c1)) = existsb g (all_entries m).
Proof.
  unfold get_entry, set_entry. destruct (find_key (fst p) m) as [l|] eqn:Ef; [|discriminate]. intros Hn Hg.
  eapply existsb_all_entries_set_key; [exact Ef|]. eapply existsb_set_nth; eassumption.
Qed.

Lemma fam_eq_dec (a b : fam) : {a = b} + {a <> b}.
Proof. decide equality. Qed.

Lemma pool_of_with_pool_same c f pl : pool_of (with_pool c f pl) f = Some pl.
Proof. destruct f; reflexivity. Qed.
Lemma pool_of_with_pool_other c f f' pl : f <> f' -> pool_of (with_pool c f pl) f' = pool_of c f'.
Proof. destruct f, f'; intros H; try reflexivity; congruence. Qed.

(* moving the cursor of one pool changes neither scan *)
Lemma same_scans_cursor m p c f pl pl' :
  get_entry m p = Some c -> pool_of c f = Some pl -> used pl' = used pl ->
  forall b, in_allocated_list (set_entry m p (with_pool c f pl')) b = in_allocated_list m b /\
            overlaps_allocated (set_entry m p (with_pool c f pl')) b = overlaps_allocated m b.
Proof.
  intros Hg Hp Hu b. unfold in_allocated_list, overlaps_allocated. split.
  - eapply existsb_all_entries_set_entry; [exact Hg|].
    destruct (fam_eq_dec f (cf b)) as [<-|Hne].
    + rewrite pool_of_with_pool_same, Hp, Hu. reflexivity.
    + rewrite (pool_of_with_pool_other _ _ _ _ Hne). reflexivity.
  - eapply existsb_all_entries_set_entry; [exact Hg|].
    destruct (fam_eq_dec f (cf b)) as [<-|Hne].
    + rewrite pool_of_with_pool_same, Hp, Hu. reflexivity.
    + rewrite (pool_of_with_pool_other _ _ _ _ Hne). reflexivity.
Qed.

Lemma get_entry_in_all m p c : get_entry m p = Some c -> In c (all_entries m).
Proof.
  unfold get_entry. destruct (find_key (fst p) m) as [l|] eqn:Ef; [|discriminate]. intros Hn.
  eapply find_key_in; [exact Ef|]. eapply nth_error_In. exact Hn.
Qed.

Lemma maxc_pos g : 0 < maxc g.
Proof. unfold maxc. apply N.neq_0_lt_0. apply N.pow_nonzero. discriminate. Qed.

(* ring arithmetic, kept away from lia's treatment of mod *)
Lemma ring_step P a e t : P <> 0 -> ((a + e) mod P + t) mod P = (a + (e + t)) mod P.
Proof. intros HP. rewrite N.add_mod_idemp_l by exact HP. f_equal. lia. Qed.

Lemma ring_onto P a i : a < P -> i < P -> exists j, j < P /\ (a + j) mod P = i.
Proof.
  intros Ha Hi. assert (HP : P <> 0) by lia.
  exists ((i + P - a) mod P). split; [apply N.mod_upper_bound; exact HP|].
  rewrite N.add_mod_idemp_r by exact HP.
  replace (a + (i + P - a)) with (i + 1 * P) by lia.
  rewrite N.mod_add by exact HP. apply N.mod_small. exact Hi.
Qed.

(* ---------------------------------------------------------------------------------------------
   Lift over the attempts of prioritizedCIDRs.  Between the state a node sync starts from and the
   state an attempt on a later entry sees, only cursors move and one IPv4 block is reserved and
   given back; [msim] says: same keys, same entries position by position, every pool with the same
   geometry and the same SET of used keys. *)
Definition psim (a b : pool) : Prop := pg a = pg b /\ forall z, In z (used a) <-> In z (used b).
Definition orel {A} (R : A -> A -> Prop) (x y : option A) : Prop :=
  match x, y with Some a, Some b => R a b | None, None => True | _, _ => False end.
Definition esim (c c' : ccset) : Prop :=
  orel psim (cc_v4 c) (cc_v4 c') /\ orel psim (cc_v6 c) (cc_v6 c') /\
  cc_name c = cc_name c' /\ cc_assoc c = cc_assoc c' /\ cc_term c = cc_term c'.
Definition msim (m m' : cidrmap) : Prop :=
  Forall2 (fun kl kl' => fst kl = fst kl' /\ Forall2 esim (snd kl) (snd kl')) m m'.

Lemma psim_refl a : psim a a.  Proof. split; [reflexivity|intros z; tauto]. Qed.
Lemma psim_trans a b c : psim a b -> psim b c -> psim a c.
Proof. intros [H1 H2] [H3 H4]. split; [congruence|]. intros z. rewrite H2. apply H4. Qed.
Lemma psim_sym a b : psim a b -> psim b a.
Proof. intros [H1 H2]. split; [congruence|]. intros z. symmetry. apply H2. Qed.
Lemma orel_refl {A} (R : A -> A -> Prop) : (forall a, R a a) -> forall x, orel R x x.
Proof. intros H [a|]; cbn; auto. Qed.
Lemma orel_trans {A} (R : A -> A -> Prop) : (forall a b c, R a b -> R b c -> R a c) -> forall x y z, orel R x y -> orel R y z -> orel R x z.
Proof. intros H [a|] [b|] [c|]; cbn; try tauto. apply H. Qed.
Lemma orel_sym {A} (R : A -> A -> Prop) : (forall a b, R a b -> R b a) -> forall x y, orel R x y -> orel R y x.
Proof. intros H [a|] [b|]; cbn; try tauto. apply H. Qed.
Lemma esim_refl c : esim c c.
Proof. split; [apply orel_refl; apply psim_refl|]. split; [apply orel_refl; apply psim_refl|]. repeat split. Qed.
Lemma esim_trans a b c : esim a b -> esim b c -> esim a c.
Proof.
  intros (A1 & A2 & A3 & A4 & A5) (B1 & B2 & B3 & B4 & B5).
  split; [eapply orel_trans; try eassumption; apply psim_trans|]. split; [eapply orel_trans; try eassumption; apply psim_trans|].
  repeat split; congruence.
Qed.
Lemma esim_sym a b : esim a b -> esim b a.
Proof.
  intros (A1 & A2 & A3 & A4 & A5). split; [apply orel_sym; try assumption; apply psim_sym|].
  split; [apply orel_sym; try assumption; apply psim_sym|]. repeat split; congruence.
Qed.

Lemma Forall2_refl {A} (R : A -> A -> Prop) : (forall a, R a a) -> forall l, Forall2 R l l.
Proof. intros H l. induction l; constructor; auto. Qed.
Lemma Forall2_trans {A} (R : A -> A -> Prop) : (forall a b c, R a b -> R b c -> R a c) ->
  forall l1 l2 l3, Forall2 R l1 l2 -> Forall2 R l2 l3 -> Forall2 R l1 l3.
Proof.
  intros H l1 l2 l3 H12. revert l3. induction H12; intros l3 H23; inversion H23; subst; constructor; eauto.
Qed.
Lemma Forall2_sym {A} (R : A -> A -> Prop) : (forall a b, R a b -> R b a) -> forall l1 l2, Forall2 R l1 l2 -> Forall2 R l2 l1.
Proof. intros H l1 l2 H12. induction H12; constructor; auto. Qed.

Lemma msim_refl m : msim m m.
Proof. apply Forall2_refl. intros [k l]. split; [reflexivity|apply Forall2_refl; apply esim_refl]. Qed.
Lemma msim_trans a b c : msim a b -> msim b c -> msim a c.
Proof.
  apply Forall2_trans. intros [k1 l1] [k2 l2] [k3 l3] [E1 F1] [E2 F2]; cbn in *. split; [congruence|].
  eapply Forall2_trans; try eassumption. apply esim_trans.
Qed.
Lemma msim_sym a b : msim a b -> msim b a.
Proof.
  apply Forall2_sym. intros [k1 l1] [k2 l2] [E F]; cbn in *. split; [congruence|]. apply Forall2_sym; [apply esim_sym|exact F].
Qed.

Lemma msim_find m m' k : msim m m' ->
  match find_key k m, find_key k m' with
  | Some l, Some l' => Forall2 esim l l'
  | None, None => True
  | _, _ => False
  end.
Proof.
  intros H. induction H as [|[k1 l1] [k2 l2] m m' [E F] H IH]; cbn; [exact I|]. cbn in E, F. subst k2.
  destruct (str_eqb k k1); [exact F|exact IH].
Qed.

Lemma Forall2_nth {A} (R : A -> A -> Prop) l l' i : Forall2 R l l' -> orel R (nth_error l i) (nth_error l' i).
Proof. intros H. revert i. induction H; intros [|i]; cbn; auto. Qed.

Lemma msim_get m m' q : msim m m' -> orel esim (get_entry m q) (get_entry m' q).
Proof.
  intros H. unfold get_entry. pose proof (msim_find m m' (fst q) H) as Hf.
  destruct (find_key (fst q) m) as [l|], (find_key (fst q) m') as [l'|]; try contradiction; [|exact I].
  apply Forall2_nth. exact Hf.
Qed.

Lemma Forall2_set_nth {A} (R : A -> A -> Prop) l l' i a b : Forall2 R l l' -> R a b -> Forall2 R (set_nth i a l) (set_nth i b l').
Proof. intros H Hab. revert i. induction H; intros [|i]; cbn; constructor; auto. Qed.

Lemma msim_set_key m m' k l l' : msim m m' -> Forall2 esim l l' -> msim (set_key k l m) (set_key k l' m').
Proof.
  intros H Hl. induction H as [|[k1 l1] [k2 l2] m m' [E F] H IH]; cbn.
  - constructor; [split; [reflexivity|exact Hl]|constructor].
  - cbn in E, F. subst k2. destruct (str_eqb k k1).
    + constructor; [split; [reflexivity|exact Hl]|exact H].
    + constructor; [split; [reflexivity|exact F]|exact IH].
Qed.

Lemma msim_set_entry A B q a b : msim A B -> esim a b -> msim (set_entry A q a) (set_entry B q b).
Proof.
  intros H Hab. unfold set_entry. pose proof (msim_find A B (fst q) H) as Hf.
  destruct (find_key (fst q) A) as [l|], (find_key (fst q) B) as [l'|]; try contradiction; [|exact H].
  apply msim_set_key; [exact H|]. apply Forall2_set_nth; assumption.
Qed.

Lemma set_nth_same {A} i (c : A) l : nth_error l i = Some c -> set_nth i c l = l.
Proof. revert l. induction i as [|i IH]; intros [|h t]; cbn; try discriminate; intros E; [inversion E; reflexivity|rewrite IH; auto]. Qed.
Lemma set_key_same k l m : find_key k m = Some l -> set_key k l m = m.
Proof.
  induction m as [|[k0 l0] m IH]; cbn; [discriminate|]. destruct (str_eqb k k0) eqn:E.
  - intros H. inversion H; subst. apply str_eqb_eq in E. subst. reflexivity.
  - intros H. rewrite IH; auto.
Qed.
Lemma set_entry_same m q c : get_entry m q = Some c -> set_entry m q c = m.
Proof.
  unfold get_entry, set_entry. destruct (find_key (fst q) m) as [l|] eqn:Ef; [|reflexivity]. intros Hn.
  rewrite (set_nth_same _ _ _ Hn). apply set_key_same. exact Ef.
Qed.

Lemma msim_set_entry_self m q c c1 : get_entry m q = Some c -> esim c c1 -> msim m (set_entry m q c1).
Proof.
  intros Hg He. rewrite <- (set_entry_same m q c Hg) at 1. apply msim_set_entry; [apply msim_refl|exact He].
Qed.

(* the two scans look at used SETS only *)
Lemma existsb_seteq {A} (h : A -> bool) l l' : (forall z, In z l <-> In z l') -> existsb h l = existsb h l'.
Proof.
  intros H. destruct (existsb h l) eqn:E.
  - apply existsb_exists in E. destruct E as (x & Hx & Hh). symmetry. apply existsb_exists. exists x. split; [apply H; exact Hx|exact Hh].
  - destruct (existsb h l') eqn:E'; [|reflexivity]. apply existsb_exists in E'. destruct E' as (x & Hx & Hh).
    assert (existsb h l = true) by (apply existsb_exists; exists x; split; [apply H; exact Hx|exact Hh]). congruence.
Qed.

Lemma esim_pool_of c c' f : esim c c' -> orel psim (pool_of c f) (pool_of c' f).
Proof. intros (H4 & H6 & _). destruct f; assumption. Qed.

Lemma msim_scans m m' : msim m m' -> same_scans m m'.
Proof.
  intros H b. apply msim_sym in H.
  assert (G : forall (g : ccset -> bool), (forall c c', esim c c' -> g c = g c') ->
              existsb g (all_entries m') = existsb g (all_entries m)).
  { intros g Hg. unfold all_entries. induction H as [|[k1 l1] [k2 l2] a b' [E F] H IH]; [reflexivity|].
    cbn [flat_map snd]. rewrite !existsb_app, IH. f_equal. cbn in F. clear - F Hg.
    induction F; [reflexivity|]. cbn. rewrite IHF. f_equal. apply Hg. assumption. }
  unfold in_allocated_list, overlaps_allocated. split; apply G; intros c c' He;
    pose proof (esim_pool_of c c' (cf b) He) as Hp;
    destruct (pool_of c (cf b)) as [x|], (pool_of c' (cf b)) as [y|]; try contradiction; try reflexivity;
    destruct Hp as [_ Hu]; unfold mem_cidr; apply existsb_seteq; exact Hu.
Qed.

Section Loop.
  Variables (held : list cidr) (p : path) (f : fam) (m0 : cidrmap) (c0 : ccset) (pl0 : pool).
  Hypothesis Hg0 : get_entry m0 p = Some c0.
  Hypothesis Hp0 : pool_of c0 f = Some pl0.
  Hypothesis I0 : PoolInv pl0.
  Hypothesis Hf0 : gf (pg pl0) = f.

  Definition pos (j : N) : cidr := block (pg pl0) ((cur pl0 + j) mod pmax pl0).

  Lemma own_used_blocked b : In b (used pl0) -> cf b = f -> blockedb m0 held b = true.
  Proof.
    intros Hb Hcf. unfold blockedb. apply Bool.orb_true_iff. left. apply Bool.orb_true_iff. left.
    unfold in_allocated_list. apply existsb_exists. exists c0. split; [eapply get_entry_in_all; exact Hg0|].
    rewrite Hcf, Hp0. apply mem_cidr_In. exact Hb.
  Qed.

  Definition cover (st : alloc_state) : Prop :=
    match st with
    | ARun ev m => exists c pl, get_entry m p = Some c /\ pool_of c f = Some pl /\ msim m0 m /\
         PoolInv pl /\ pg pl = pg pl0 /\ pmax pl = pmax pl0 /\ used pl = used pl0 /\
         cur pl = (cur pl0 + ev) mod pmax pl0 /\
         forall j, j < ev -> blockedb m0 held (pos j) = true
    | ADone m (Err e) => msim m0 m /\ (clean_geom (pg pl0) = true -> e = EExhausted) /\
                         (e = EExhausted -> forall i, i < maxc (pg pl0) -> blockedb m0 held (block (pg pl0) i) = true)
    | ADone m' (Ok x) => exists m1 c1 c2 pl1 j, msim m0 m1 /\ get_entry m1 p = Some c1 /\ pool_of c1 f = Some pl1 /\
                           PoolInv pl1 /\ pg pl1 = pg pl0 /\ j < maxc (pg pl0) /\ x = block (pg pl0) j /\
                           in_allocated_list m1 x = false /\ overlaps_allocated m1 x = false /\
                           cc_occupy c1 x = Ok c2 /\ m' = set_entry m1 p c2
    | ADone _ Panic => False
    end.

  Lemma cover_init : cover (ARun 0 m0).
  Proof.
    exists c0, pl0. split; [exact Hg0|]. split; [exact Hp0|]. split; [apply msim_refl|].
    split; [exact I0|]. split; [reflexivity|]. split; [reflexivity|]. split; [reflexivity|]. split.
    - rewrite N.add_0_r. symmetry. apply N.mod_small. apply (inv_cur pl0 I0).
    - intros j Hj. lia.
  Qed.

  Lemma cover_step st : cover st -> cover (alloc_step held p f st).
  Proof.
    destruct st as [ev m|m r]; [|intros H; exact H].
    intros (c & pl & Hg & Hp & Hms & I & Hpg & Hpm & Hu & Hcur & Hcov). pose proof (msim_scans _ _ Hms) as Hs.
    pose proof (inv_max pl0 I0) as Hmax0. pose proof (maxc_pos (pg pl0)) as Hpos.
    assert (HP : pmax pl0 <> 0) by lia.
    unfold alloc_step. rewrite Hg, Hp.
    destruct (pmax pl <=? ev) eqn:Ele.
    { (* the counter reached the capacity: the ring has been walked round completely *)
      apply N.leb_le in Ele. cbn [cover]. split; [exact Hms|]. split; [reflexivity|]. intros _ i Hi.
      destruct (ring_onto (pmax pl0) (cur pl0) i (inv_cur pl0 I0) ltac:(lia)) as (j & Hj & Hij).
      specialize (Hcov j ltac:(lia)). unfold pos in Hcov. rewrite Hij in Hcov. exact Hcov. }
    apply N.leb_gt in Ele.
    pose proof (next_spec pl I) as Hn. destruct (next_candidate pl) as [blk sk pl'|e].
    2:{ (* every block of the pool itself is used *)
      cbn [cover]. split; [exact Hms|]. split; [reflexivity|]. intros _ i Hi.
      apply own_used_blocked; [rewrite <- Hu, <- Hpg; apply Hn; rewrite Hpg; exact Hi|cbn; exact Hf0]. }
    destruct Hn as (i & Hi & Hblk & Hfree & Hsk & Hidx & Hskip & Hpl' & I' & _).
    assert (Hu' : used pl' = used pl) by (rewrite Hpl'; reflexivity).
    pose proof (same_scans_cursor m p c f pl pl' Hg Hp Hu') as Hsc.
    set (c1 := with_pool c f pl') in *. set (m1 := set_entry m p c1) in *.
    assert (Hms1 : msim m0 m1).
    { eapply msim_trans; [exact Hms|]. subst m1. eapply msim_set_entry_self; [exact Hg|].
      assert (Hps : psim pl pl') by (split; [rewrite Hpl'; reflexivity|intros z; rewrite Hu'; tauto]).
      subst c1. clear - Hp Hps. destruct f; cbn in *; (split; cbn; [try (rewrite Hp; exact Hps); try (apply orel_refl; apply psim_refl)|]);
        (split; cbn; [try (rewrite Hp; exact Hps); try (apply orel_refl; apply psim_refl)|repeat split]). }
    assert (Hpos_eq : forall t, block (pg pl) ((cur pl + t) mod pmax pl) = pos (ev + t)).
    { intros t. unfold pos. rewrite Hpg, Hpm, Hcur. f_equal. apply ring_step. exact HP. }
    destruct (in_allocated_list m1 blk || overlaps_allocated m1 blk || in_use_by_node held blk)%bool eqn:Eb.
    - (* the candidate is blocked: go on *)
      cbn [cover]. exists c1, pl'. split; [subst m1; eapply get_set_entry_same; exact Hg|].
      split; [subst c1; apply pool_of_with_pool_same|].
      split; [exact Hms1|].
      split; [exact I'|].
      split; [rewrite Hpl'; exact Hpg|]. split; [rewrite Hpl'; exact Hpm|]. split; [congruence|].
      split.
      + rewrite Hpl'. cbn [cur with_cur]. rewrite Hidx, Hpm, Hcur.
        rewrite (ring_step _ _ _ _ HP). rewrite N.add_mod_idemp_l by exact HP. f_equal. lia.
      + intros j Hj. destruct (N.lt_ge_cases j ev) as [Hlt|Hge]; [apply Hcov; exact Hlt|].
        destruct (N.eq_dec j (ev + sk)) as [->|Hne].
        * (* the candidate itself *)
          rewrite <- Hpos_eq. rewrite <- Hidx, <- Hblk.
          unfold blockedb. destruct (Hsc blk) as [A B]. destruct (Hs blk) as [A0 B0].
          rewrite <- A0, <- B0, <- A, <- B. exact Eb.
        * (* a block skipped by the pool's own search: it is used in the pool itself *)
          replace j with (ev + (j - ev)) by lia. rewrite <- Hpos_eq.
          apply own_used_blocked; [rewrite <- Hu; apply Hskip; lia|cbn; rewrite Hpg; exact Hf0].
    - destruct (cc_occupy c1 blk) as [c2|e|] eqn:Eo; cbn [cover];
        [| |unfold cc_occupy in Eo; destruct (pool_of c1 (cf blk)) as [q0|]; [destruct (occupy q0 blk)|]; discriminate Eo].
      { exists m1, c1, c2, pl', i. split; [exact Hms1|]. split; [subst m1; eapply get_set_entry_same; exact Hg|].
        split; [subst c1; apply pool_of_with_pool_same|]. split; [exact I'|].
        split; [rewrite Hpl'; exact Hpg|]. split; [rewrite <- Hpg; exact Hi|]. split; [rewrite <- Hpg; exact Hblk|].
        apply Bool.orb_false_iff in Eb. destruct Eb as [Eb _]. apply Bool.orb_false_iff in Eb. destruct Eb as [Eb Eb2].
        split; [exact Eb|]. split; [exact Eb2|]. split; [exact Eo|reflexivity]. }
      split; [exact Hms1|].
      (* occupying a block of the pool itself cannot fail in the clean domain, and never reports exhaustion *)
      assert (Hcf : cf blk = f) by (rewrite Hblk; cbn; rewrite Hpg; exact Hf0).
      unfold cc_occupy in Eo. rewrite Hcf in Eo. subst c1. rewrite pool_of_with_pool_same in Eo.
      destruct (occupy pl' blk) as [q|] eqn:Eq; [discriminate|]. inversion Eo; subst e.
      split; [|discriminate]. intros Hcl. exfalso.
      assert (Hwfb : wf_cidr blk) by (rewrite Hblk; apply block_wf; [apply (inv_wf pl I)|exact Hi]).
      pose proof (occupy_spec pl' blk I' ltac:(rewrite Hpl'; cbn [pg with_cur]; rewrite Hpg; exact Hcl) Hwfb) as Ho.
      rewrite Eq in Ho. apply Ho. rewrite Hpl'. cbn [pg with_cur].
      destruct (block_in_range (pg pl) i (inv_wf pl I) Hi) as [Hfam Hsub]. rewrite <- Hblk in Hfam, Hsub.
      split; [symmetry; exact Hfam|]. exists (ca blk). split; [apply Hsub|]; unfold in_cidr; split; try lia;
        apply N.lt_add_pos_r; unfold hostsz; apply N.neq_0_lt_0; apply N.pow_nonzero; discriminate.
  Qed.
End Loop.

Lemma alloc_step_progress held p f st :
  match st, alloc_step held p f st with
  | ARun ev _, ARun ev' _ => ev < ev'
  | _, _ => True
  end.
Proof.
  destruct st as [ev m|m r]; [|exact I]. unfold alloc_step.
  destruct (get_entry m p) as [c|]; [|exact I]. destruct (pool_of c f) as [pl|]; [|exact I].
  destruct (pmax pl <=? ev); [exact I|]. destruct (next_candidate pl) as [blk sk pl'|]; [|exact I].
  match goal with |- context [if ?b then _ else _] => destruct b end; [lia|].
  destruct (cc_occupy _ blk); exact I.
Qed.

Lemma alloc_iter_lb held p f m n :
  match N.iter n (alloc_step held p f) (ARun 0 m) with ARun ev _ => n <= ev | ADone _ _ => True end.
Proof.
  induction n as [|n IH] using N.peano_ind; [cbn; lia|].
  rewrite N.iter_succ. pose proof (alloc_step_progress held p f (N.iter n (alloc_step held p f) (ARun 0 m))) as Hp.
  destruct (N.iter n (alloc_step held p f) (ARun 0 m)) as [ev m1|m1 r]; [|cbn; exact I].
  destruct (alloc_step held p f (ARun ev m1)) as [ev' m2|m2 r]; [lia|exact I].
Qed.

(* C05, the allocation loop: giving up on a pool means every one of its blocks is blocked *)
Theorem allocate_cidr_complete held m p f c pl m' e :
  get_entry m p = Some c -> pool_of c f = Some pl -> PoolInv pl -> gf (pg pl) = f -> clean_geom (pg pl) = true ->
  allocate_cidr held m p f = (m', Err e) ->
  e = EExhausted /\ msim m m' /\ forall i, i < maxc (pg pl) -> blockedb m held (block (pg pl) i) = true.
Proof.
  intros Hg Hp I Hf Hcl H. unfold allocate_cidr in H. rewrite Hg, Hp in H.
  assert (G : cover held p f m pl (N.iter (pmax pl + 1) (alloc_step held p f) (ARun 0 m))).
  { apply N.iter_invariant; [intros st; apply (cover_step held p f m c pl Hg Hp I Hf)|apply (cover_init held p f m c pl Hg Hp I)]. }
  pose proof (alloc_iter_lb held p f m (pmax pl + 1)) as Hlb.
  destruct (N.iter (pmax pl + 1) (alloc_step held p f) (ARun 0 m)) as [ev m2|m2 r].
  - (* cannot happen: the counter would exceed the capacity; covered anyway *)
    destruct G as (c2 & pl2 & _ & _ & Hs & _ & _ & _ & _ & _ & Hcov). inversion H; subst.
    split; [reflexivity|]. split; [exact Hs|].
    intros i Hi. pose proof (inv_max pl I) as Hmax.
    destruct (ring_onto (pmax pl) (cur pl) i (inv_cur pl I) ltac:(lia)) as (j & Hj & Hij).
    specialize (Hcov j ltac:(lia)). unfold pos in Hcov. rewrite Hij in Hcov. exact Hcov.
  - inversion H; subst. cbn [cover] in G. destruct G as (Hs & He & Hall).
    specialize (He Hcl). subst e. split; [reflexivity|]. split; [exact Hs|]. apply Hall. reflexivity.
Qed.


Theorem allocate_cidr_ok_shape held m p f c pl m' x :
  get_entry m p = Some c -> pool_of c f = Some pl -> PoolInv pl -> gf (pg pl) = f ->
  allocate_cidr held m p f = (m', Ok x) ->
  exists m1 c1 c2 pl1 j, msim m m1 /\ get_entry m1 p = Some c1 /\ pool_of c1 f = Some pl1 /\
    PoolInv pl1 /\ pg pl1 = pg pl /\ j < maxc (pg pl) /\ x = block (pg pl) j /\
    in_allocated_list m1 x = false /\ overlaps_allocated m1 x = false /\ cc_occupy c1 x = Ok c2 /\ m' = set_entry m1 p c2.
Proof.
  intros Hg Hp I Hf H. unfold allocate_cidr in H. rewrite Hg, Hp in H.
  assert (G : cover held p f m pl (N.iter (pmax pl + 1) (alloc_step held p f) (ARun 0 m))).
  { apply N.iter_invariant; [intros st; apply (cover_step held p f m c pl Hg Hp I Hf)|apply (cover_init held p f m c pl Hg Hp I)]. }
  destruct (N.iter (pmax pl + 1) (alloc_step held p f) (ARun 0 m)) as [ev m2|m2 r]; [discriminate|].
  inversion H; subst. exact G.
Qed.

Lemma set_nth_twice {A} i (a b : A) l : set_nth i b (set_nth i a l) = set_nth i b l.
Proof. revert l. induction i as [|i IH]; intros [|h t]; cbn; try reflexivity. rewrite IH. reflexivity. Qed.
Lemma set_key_twice k l1 l2 m : set_key k l2 (set_key k l1 m) = set_key k l2 m.
Proof.
  induction m as [|[k0 l0] m IH]; cbn; [rewrite str_eqb_refl; reflexivity|].
  destruct (str_eqb k k0) eqn:E; cbn; [rewrite str_eqb_refl; reflexivity|rewrite E, IH; reflexivity].
Qed.
Lemma set_entry_twice m q a b : set_entry (set_entry m q a) q b = set_entry m q b.
Proof.
  unfold set_entry. destruct (find_key (fst q) m) as [l|] eqn:Ef.
  - rewrite find_key_set_key_same, set_nth_twice, set_key_twice. reflexivity.
  - rewrite Ef. reflexivity.
Qed.

(* a block reserved and given back leaves the map as it was, up to [msim], whatever happened to cursors in between *)
Lemma reserve_release_sim m1 p c1 c2 x m2 c' c'' pl1 j :
  PoolInv pl1 -> clean_geom (pg pl1) = true -> MapInv m2 ->
  get_entry m1 p = Some c1 -> pool_of c1 (cf x) = Some pl1 -> j < maxc (pg pl1) -> x = block (pg pl1) j ->
  in_allocated_list m1 x = false -> cc_occupy c1 x = Ok c2 ->
  msim (set_entry m1 p c2) m2 -> get_entry m2 p = Some c' -> cc_release c' x = Ok c'' ->
  msim m1 (set_entry m2 p c'').
Proof.
  intros I1 Hcl1 M2 Hg1 Hp1 Hj Hx Hfresh Ho Hms Hg2 Hr.
  assert (E' : EntryInv c') by exact (get_entry_inv m2 p c' M2 Hg2).
  assert (Hwx : wf_cidr x) by (rewrite Hx; apply block_wf; [apply (inv_wf pl1 I1)|exact Hj]).
  (* x is not used in its own pool *)
  assert (Hnot : ~ In x (used pl1)).
  { intros Hin. assert (in_allocated_list m1 x = true); [|congruence].
    unfold in_allocated_list. apply existsb_exists. exists c1. split; [eapply get_entry_in_all; exact Hg1|].
    rewrite Hp1. apply mem_cidr_In. exact Hin. }
  unfold cc_occupy in Ho. rewrite Hp1 in Ho. destruct (occupy pl1 x) as [q|] eqn:Eq; [|discriminate]. inversion Ho; subst c2. clear Ho.
  pose proof (msim_get _ _ p Hms) as Hge. rewrite (get_set_entry_same _ _ _ _ Hg1), Hg2 in Hge. cbn in Hge.
  unfold cc_release in Hr. destruct (pool_of c' (cf x)) as [pl'|] eqn:Ep'; [|discriminate].
  destruct (release pl' x) as [r|] eqn:Er; [|discriminate]. inversion Hr; subst c''. clear Hr.
  pose proof (esim_pool_of _ _ (cf x) Hge) as Hpq. rewrite pool_of_with_pool_same, Ep' in Hpq. cbn in Hpq. destruct Hpq as [Hpgq Huq].
  destruct (pool_of_PI c' (cf x) pl' E' Ep') as (I' & Hf' & Hcl').
  pose proof (occupy_spec pl1 x I1 Hcl1 Hwx) as Hos. rewrite Eq in Hos. destruct Hos as (_ & Iq & _ & Hpgq1 & _ & _ & Hoccu).
  pose proof (release_spec pl' x I' Hcl' Hwx) as Hrs. rewrite Er in Hrs. destruct Hrs as (_ & Ir & _ & Hpgr & _ & _ & Hrelu).
  assert (Hgeo : pg pl' = pg pl1) by congruence.
  assert (Hps : psim pl1 r).
  { split; [congruence|]. intros z. split.
    - intros Hz. destruct (inv_blocks pl1 I1 z Hz) as (i & Hi & ->).
      rewrite <- Hgeo. apply Hrelu; [rewrite Hgeo; exact Hi|]. rewrite Hgeo. split.
      + apply Huq. apply Hoccu; [exact Hi|]. left. exact Hz.
      + intros Hov. rewrite Hx in Hov. destruct (N.eq_dec i j) as [->|Hne]; [apply Hnot; rewrite Hx; exact Hz|].
        exact (blocks_disjoint (pg pl1) i j Hne Hov).
    - intros Hz. destruct (inv_blocks r Ir z Hz) as (i & Hi & ->). rewrite Hpgr in Hi, Hz |- *.
      apply Hrelu in Hz; [|exact Hi]. destruct Hz as [Hz Hno]. rewrite Hgeo in Hz, Hno |- *.
      apply Huq in Hz. apply Hoccu in Hz; [|rewrite <- Hgeo; exact Hi]. destruct Hz as [Hz|Hz]; [exact Hz|contradiction]. }
  rewrite <- (set_entry_same m1 p c1 Hg1) at 1. rewrite <- (set_entry_twice m1 p (with_pool c1 (cf x) q) c1).
  apply msim_set_entry; [exact Hms|].
  destruct Hge as (H4 & H6 & Hn & Ha & Ht). destruct (cf x); cbn in *; (split; cbn; [try assumption; rewrite Hp1; exact Hps|]);
    (split; cbn; [try assumption; rewrite Hp1; exact Hps|repeat split; congruence]).
Qed.

(* scans for a CIDR of one family do not see the pools of the other family *)
Lemma scans_other_family m q c c1 b :
  get_entry m q = Some c -> pool_of c1 (cf b) = pool_of c (cf b) ->
  in_allocated_list (set_entry m q c1) b = in_allocated_list m b /\
  overlaps_allocated (set_entry m q c1) b = overlaps_allocated m b.
Proof.
  intros Hg Hp. unfold in_allocated_list, overlaps_allocated.
  split; (eapply existsb_all_entries_set_entry; [exact Hg|rewrite Hp; reflexivity]).
Qed.

Lemma blockedb_scans m m' held b : same_scans m m' -> blockedb m' held b = blockedb m held b.
Proof. intros H. unfold blockedb. destruct (H b) as [A B]. rewrite A, B. reflexivity. Qed.

(* an entry has no room: in one of its families every block is blocked *)
Definition no_room (m : cidrmap) (held : list cidr) (c : ccset) : Prop :=
  exists f pl, pool_of c f = Some pl /\ forall i, i < maxc (pg pl) -> blockedb m held (block (pg pl) i) = true.

Lemma release_own_block_ok pl x j : PoolInv pl -> clean_geom (pg pl) = true -> j < maxc (pg pl) -> x = block (pg pl) j -> release pl x <> None.
Proof.
  intros I Hcl Hj Hx Hn. assert (Hwx : wf_cidr x) by (rewrite Hx; apply block_wf; [apply (inv_wf pl I)|exact Hj]).
  pose proof (release_spec pl x I Hcl Hwx) as Hs. rewrite Hn in Hs. apply Hs.
  destruct (block_in_range (pg pl) j (inv_wf pl I) Hj) as [Hfam Hsub]. rewrite <- Hx in Hfam, Hsub.
  split; [symmetry; exact Hfam|]. exists (ca x). split; [apply Hsub|]; unfold in_cidr; split; try lia;
    apply N.lt_add_pos_r; unfold hostsz; apply N.neq_0_lt_0; apply N.pow_nonzero; discriminate.
Qed.

Theorem prioritized_try_refusal held ps : forall m0 m m' e,
  MapInv m -> msim m0 m -> prioritized_try held m ps = (m', Err e) ->
  forall p c0, In p ps -> get_entry m0 p = Some c0 -> no_room m0 held c0.
Proof.
  induction ps as [|p0 ps IH]; intros m0 m m' e M Hms H p c0 Hin Hg0; [destruct Hin|].
  cbn [prioritized_try] in H.
  destruct (get_entry m p0) as [c|] eqn:Eg; [|discriminate].
  pose proof (get_entry_inv m p0 c M Eg) as Ec.
  pose proof (msim_scans _ _ Hms) as Hsc.
  (* the entry of m0 at p0 *)
  assert (Hrel : forall c00, get_entry m0 p0 = Some c00 -> esim c00 c).
  { intros c00 Hg. pose proof (msim_get _ _ p0 Hms) as Ho. rewrite Hg, Eg in Ho. exact Ho. }
  (* what a failed attempt on family f at state mk (related to m0, entry ck related to c) shows about c00 *)
  assert (Hfail : forall f mk ck plk mk' ek c00, get_entry m0 p0 = Some c00 -> esim c00 ck -> same_scans m0 mk ->
             get_entry mk p0 = Some ck -> pool_of ck f = Some plk -> PI f plk ->
             allocate_cidr held mk p0 f = (mk', Err ek) -> msim mk mk' /\ no_room m0 held c00).
  { intros f mk ck plk mk' ek c00 Hg00 He Hs Hgk Hpk (Ik & Hfk & Hclk) Ha.
    destruct (allocate_cidr_complete held mk p0 f ck plk mk' ek Hgk Hpk Ik Hfk Hclk Ha) as (_ & Hmk & Hall).
    split; [exact Hmk|]. pose proof (esim_pool_of _ _ f He) as Hpo. rewrite Hpk in Hpo.
    destruct (pool_of c00 f) as [pl00|] eqn:Ep00; [|contradiction]. destruct Hpo as [Hpg _].
    exists f, pl00. split; [exact Ep00|]. intros i Hi. rewrite Hpg in *. rewrite <- (blockedb_scans _ _ held _ Hs). apply Hall. exact Hi. }
  destruct (cc_v4 c) as [p4|] eqn:E4.
  - destruct (allocate_cidr held m p0 V4) as [m1 r4] eqn:Ea4.
    pose proof (allocate_cidr_inv _ _ _ _ _ _ M Ea4) as M1.
    destruct r4 as [x4|e4|]; [| |discriminate].
    + (* IPv4 block reserved *)
      destruct (cc_v6 c) as [p6|] eqn:E6; [|discriminate].
      destruct (allocate_cidr held m1 p0 V6) as [m2 r6] eqn:Ea6.
      pose proof (allocate_cidr_inv _ _ _ _ _ _ M1 Ea6) as M2.
      destruct r6 as [x6|e6|]; [discriminate| |discriminate].
      destruct (allocate_cidr_ok_shape held m p0 V4 c p4 m1 x4 Eg E4 (proj1 (ei_v4 c Ec p4 E4)) (proj1 (proj2 (ei_v4 c Ec p4 E4))) Ea4)
        as (ma & c1 & c2 & pl1 & j & Hma & Hga & Hpa & Ia & Hpga & Hj & Hx4 & Hfr & _ & Hocc & Hm1).
      assert (Hcf4 : cf x4 = V4) by (rewrite Hx4; cbn; exact (proj1 (proj2 (ei_v4 c Ec p4 E4)))).
      assert (Hcla : clean_geom (pg pl1) = true) by (rewrite Hpga; exact (proj2 (proj2 (ei_v4 c Ec p4 E4)))).
      (* the entry at p0 in m1 and its IPv6 pool *)
      assert (Hg1 : get_entry m1 p0 = Some c2) by (rewrite Hm1; eapply get_set_entry_same; exact Hga).
      assert (Hc2 : c2 = with_pool c1 V4 (match occupy pl1 x4 with Some q => q | None => pl1 end)).
      { unfold cc_occupy in Hocc. rewrite Hcf4, Hpa in Hocc. destruct (occupy pl1 x4); [inversion Hocc; reflexivity|discriminate]. }
      assert (He1 : esim c c1) by (pose proof (msim_get _ _ p0 Hma) as Ho; rewrite Eg, Hga in Ho; exact Ho).
      assert (Hp62 : pool_of c2 V6 = pool_of c1 V6) by (rewrite Hc2; reflexivity).
      destruct (pool_of c1 V6) as [p6a|] eqn:Ep6a; [|destruct He1 as (_ & He6 & _); rewrite E6 in He6; cbn in Ep6a; rewrite Ep6a in He6; contradiction].
      assert (PI6 : PI V6 p6a) by (apply (pool_of_PI c2 V6 p6a (get_entry_inv m1 p0 c2 M1 Hg1)); exact Hp62).
      (* scans for IPv6 CIDRs in m1 are those of ma, hence of m0 *)
      assert (Hs1 : forall b, cf b = V6 -> blockedb m1 held b = blockedb m0 held b).
      { intros b Hb. rewrite Hm1. unfold blockedb.
        destruct (scans_other_family ma p0 c1 c2 b Hga ltac:(rewrite Hb, Hp62, Ep6a; reflexivity)) as [A B]. rewrite A, B.
        pose proof (msim_scans _ _ (msim_trans _ _ _ Hms Hma)) as Hs. destruct (Hs b) as [A0 B0]. rewrite A0, B0. reflexivity. }
      destruct (allocate_cidr_complete held m1 p0 V6 c2 p6a m2 e6 Hg1 Hp62 (proj1 PI6) (proj1 (proj2 PI6)) (proj2 (proj2 PI6)) Ea6)
        as (_ & Hm12 & Hall6).
      (* the IPv4 block is given back *)
      pose proof (msim_get _ _ p0 Hm12) as Hg2. rewrite Hg1 in Hg2.
      destruct (get_entry m2 p0) as [c'|] eqn:Eg2; [|contradiction].
      assert (Hrel_ok : exists c'', cc_release c' x4 = Ok c'').
      { unfold cc_release. rewrite Hcf4. pose proof (esim_pool_of _ _ V4 Hg2) as Hpo.
        destruct (pool_of c' V4) as [pl'|] eqn:Ep'; [|rewrite Hc2 in Hpo; cbn in Hpo; contradiction].
        destruct (pool_of_PI c' V4 pl' (get_entry_inv m2 p0 c' M2 Eg2) Ep') as (I' & _ & Hcl').
        rewrite Hc2 in Hpo. cbn in Hpo. destruct Hpo as [Hpg' _].
        assert (Hgeo : pg pl' = pg pl1).
        { rewrite <- Hpg'. destruct (occupy pl1 x4) as [q|] eqn:Eq; [|reflexivity].
          pose proof (occupy_spec pl1 x4 Ia Hcla ltac:(rewrite Hx4, <- Hpga; apply block_wf; [apply (inv_wf pl1 Ia)|rewrite Hpga; exact Hj])) as Ho.
          rewrite Eq in Ho. destruct Ho as (_ & _ & _ & Hq & _). exact Hq. }
        destruct (release pl' x4) as [r|] eqn:Er; [eexists; reflexivity|].
        exfalso. eapply (release_own_block_ok pl' x4 j I' Hcl'); [rewrite Hgeo, Hpga; exact Hj|rewrite Hgeo, Hpga; exact Hx4|exact Er]. }
      destruct Hrel_ok as (c'' & Hrel_ok). rewrite Hrel_ok in H.
      assert (Hm3 : msim ma (set_entry m2 p0 c'')).
      { eapply (reserve_release_sim ma p0 c1 c2 x4 m2 c' c'' pl1 j Ia Hcla M2 Hga); try eassumption.
        - rewrite Hcf4. exact Hpa.
        - rewrite Hpga. exact Hj.
        - rewrite Hpga. exact Hx4.
        - rewrite <- Hm1. exact Hm12. }
      assert (M3 : MapInv (set_entry m2 p0 c'')).
      { apply set_entry_inv; [exact M2|]. eapply cc_release_inv; [exact (get_entry_inv m2 p0 c' M2 Eg2)| |exact Hrel_ok].
        rewrite Hx4, <- Hpga. apply block_wf; [apply (inv_wf pl1 Ia)|rewrite Hpga; exact Hj]. }
      destruct Hin as [<-|Hin].
      * (* p0 itself: its IPv6 pool is exhausted *)
        pose proof (Hrel c0 Hg0) as He0. pose proof (esim_pool_of _ _ V6 (esim_trans _ _ _ He0 He1)) as Hpo. rewrite Ep6a in Hpo.
        destruct (pool_of c0 V6) as [pl00|] eqn:Ep00; [|contradiction]. destruct Hpo as [Hpg _].
        exists V6, pl00. split; [exact Ep00|]. intros i Hi. rewrite Hpg in *.
        rewrite <- Hs1; [apply Hall6; exact Hi|]. cbn. exact (proj1 (proj2 PI6)).
      * eapply (IH m0 _ m' e M3); [|exact H|exact Hin|exact Hg0].
        eapply msim_trans; [exact Hms|]. eapply msim_trans; [exact Hma|exact Hm3].
    + (* the IPv4 pool is exhausted *)
      pose proof (msim_get _ _ p0 Hms) as Ho0. rewrite Eg in Ho0.
      destruct (get_entry m0 p0) as [c00|] eqn:Eg00; [|contradiction].
      destruct (Hfail V4 m c p4 m1 e4 c00 eq_refl Ho0 Hsc Eg E4 (ei_v4 c Ec p4 E4) Ea4) as [Hm1 Hnr0].
      destruct Hin as [<-|Hin]; [rewrite Eg00 in Hg0; inversion Hg0; subst; exact Hnr0|].
      eapply (IH m0 m1 m' e M1); [eapply msim_trans; eassumption|exact H|exact Hin|exact Hg0].
  - destruct (cc_v6 c) as [p6|] eqn:E6; [|discriminate].
    destruct (allocate_cidr held m p0 V6) as [m2 r6] eqn:Ea6.
    pose proof (allocate_cidr_inv _ _ _ _ _ _ M Ea6) as M2.
    destruct r6 as [x6|e6|]; [discriminate| |discriminate].
    destruct Hin as [<-|Hin].
    + destruct (Hfail V6 m c p6 m2 e6 c0 Hg0 (Hrel c0 Hg0) Hsc Eg E6 (ei_v6 c Ec p6 E6) Ea6) as [_ Hnr]. exact Hnr.
    + assert (Hm2 : msim m m2).
      { destruct (allocate_cidr_complete held m p0 V6 c p6 m2 e6 Eg E6 (proj1 (ei_v6 c Ec p6 E6)) (proj1 (proj2 (ei_v6 c Ec p6 E6))) (proj2 (proj2 (ei_v6 c Ec p6 E6))) Ea6) as (_ & Hm & _). exact Hm. }
      eapply (IH m0 m2 m' e M2); [eapply msim_trans; eassumption|exact H|exact Hin|exact Hg0].
Qed.

(* C05 at the level of a node sync: when prioritizedCIDRs refuses, every entry it considered (the matching,
   non-terminating entries in priority order) has a family in which every block is blocked -- with respect to
   the state the sync started from *)
Theorem prioritized_cidrs_refusal po lab held m node m' e ps :
  MapInv m -> ordered_matching po lab m (n_labels node) true = Ok ps ->
  prioritized_cidrs po lab held m node = (m', Err e) ->
  forall p c, In p ps -> get_entry m p = Some c -> no_room m held c.
Proof.
  intros M Ho H. unfold prioritized_cidrs in H. rewrite Ho in H.
  eapply prioritized_try_refusal; [exact M|apply msim_refl|exact H].
Qed.

Theorem allocate_cidr_no_panic held m p f c pl :
  get_entry m p = Some c -> pool_of c f = Some pl -> PoolInv pl -> gf (pg pl) = f ->
  snd (allocate_cidr held m p f) <> Panic.
Proof.
  intros Hg Hp I Hf. unfold allocate_cidr. rewrite Hg, Hp.
  assert (G : cover held p f m pl (N.iter (pmax pl + 1) (alloc_step held p f) (ARun 0 m))).
  { apply N.iter_invariant; [intros st; apply (cover_step held p f m c pl Hg Hp I Hf)|apply (cover_init held p f m c pl Hg Hp I)]. }
  destruct (N.iter (pmax pl + 1) (alloc_step held p f) (ARun 0 m)) as [ev m2|m2 r]; cbn; [discriminate|].
  destruct r; [discriminate|discriminate|destruct G].
Qed.
