(* Complete_proofs.v -- C05: completeness of the allocation loop.  allocateCIDR examines candidates of one
   pool starting at its cursor; a candidate is skipped when it is a used key somewhere, overlaps a used key
   somewhere, or overlaps a pod CIDR of a cached node.  Theorem: when the loop gives up, EVERY block of the
   pool is blocked in that sense (with respect to the state the loop started from) -- whatever the cursor
   position, however many blocks are blocked only through other ClusterCIDRs. *)
From NIPAM Require Import Alloc Geom_proofs Pool_proofs Alloc_proofs Inv_proofs.
From Coq Require Import Lia.
Open Scope N_scope.

Definition blockedb (m : cidrmap) (held : list cidr) (b : cidr) : bool :=
  in_allocated_list m b || overlaps_allocated m b || in_use_by_node held b.

(* two maps whose pools have the same used keys answer the two scans alike *)
Definition same_scans (m0 m : cidrmap) : Prop :=
  forall b, in_allocated_list m b = in_allocated_list m0 b /\ overlaps_allocated m b = overlaps_allocated m0 b.

Lemma existsb_set_nth {A} (g : A -> bool) i c c1 l :
  nth_error l i = Some c -> g c1 = g c -> existsb g (set_nth i c1 l) = existsb g l.
Proof.
  revert l. induction i as [|i IH]; intros [|h t]; cbn; try discriminate.
  - intros E Hg. inversion E; subst. rewrite Hg. reflexivity.
  - intros E Hg. rewrite (IH t E Hg). reflexivity.
Qed.

Lemma existsb_all_entries_set_key (g : ccset -> bool) k l l' m :
  find_key k m = Some l -> existsb g l' = existsb g l ->
  existsb g (all_entries (set_key k l' m)) = existsb g (all_entries m).
Proof.
  induction m as [|[k0 l0] m IH]; cbn; [discriminate|]. intros Hf Hg.
  destruct (str_eqb k k0) eqn:E.
  - inversion Hf; subst. unfold all_entries. cbn. rewrite !existsb_app. rewrite Hg. reflexivity.
  - unfold all_entries in *. cbn. rewrite !existsb_app. rewrite (IH Hf Hg). reflexivity.
Qed.

Lemma existsb_all_entries_set_entry (g : ccset -> bool) m p c c1 :
  get_entry m p = Some c -> g c1 = g c -> existsb g (all_entries (set_entry m p c1)) = existsb g (all_entries m).
Proof.
  unfold get_entry, set_entry. destruct (find_key (fst p) m) as [l|] eqn:Ef; [|discriminate]. intros Hn Hg.
  eapply existsb_all_entries_set_key; [exact Ef|]. eapply existsb_set_nth; eassumption.
Qed.

Lemma fam_eq_dec (a b : fam) : {a = b} + {a <> b}.
Proof. decide equality. Qed.

Lemma pool_of_with_pool_same c f pl : pool_of (with_pool c f pl) f = Some pl.
Proof. destruct f; reflexivity. Qed.
Lemma pool_of_with_pool_other c f f' pl : f <> f' -> pool_of (with_pool c f pl) f' = pool_of c f'.
Proof. destruct f, f'; intros H; try reflexivity; congruence. Qed.

(* moving the cursor of one pool changes neither scan *)
Lemma same_scans_cursor m p c f pl pl' :
  get_entry m p = Some c -> pool_of c f = Some pl -> used pl' = used pl ->
  forall b, in_allocated_list (set_entry m p (with_pool c f pl')) b = in_allocated_list m b /\
            overlaps_allocated (set_entry m p (with_pool c f pl')) b = overlaps_allocated m b.
Proof.
  intros Hg Hp Hu b. unfold in_allocated_list, overlaps_allocated. split.
  - eapply existsb_all_entries_set_entry; [exact Hg|].
    destruct (fam_eq_dec f (cf b)) as [<-|Hne].
    + rewrite pool_of_with_pool_same, Hp, Hu. reflexivity.
    + rewrite (pool_of_with_pool_other _ _ _ _ Hne). reflexivity.
  - eapply existsb_all_entries_set_entry; [exact Hg|].
    destruct (fam_eq_dec f (cf b)) as [<-|Hne].
    + rewrite pool_of_with_pool_same, Hp, Hu. reflexivity.
    + rewrite (pool_of_with_pool_other _ _ _ _ Hne). reflexivity.
Qed.

Lemma get_entry_in_all m p c : get_entry m p = Some c -> In c (all_entries m).
Proof.
  unfold get_entry. destruct (find_key (fst p) m) as [l|] eqn:Ef; [|discriminate]. intros Hn.
  eapply find_key_in; [exact Ef|]. eapply nth_error_In. exact Hn.
Qed.

Lemma maxc_pos g : 0 < maxc g.
Proof. unfold maxc. apply N.neq_0_lt_0. apply N.pow_nonzero. discriminate. Qed.

(* ring arithmetic, kept away from lia's treatment of mod *)
Lemma ring_step P a e t : P <> 0 -> ((a + e) mod P + t) mod P = (a + (e + t)) mod P.
Proof. intros HP. rewrite N.add_mod_idemp_l by exact HP. f_equal. lia. Qed.

Lemma ring_onto P a i : a < P -> i < P -> exists j, j < P /\ (a + j) mod P = i.
Proof.
  intros Ha Hi. assert (HP : P <> 0) by lia.
  exists ((i + P - a) mod P). split; [apply N.mod_upper_bound; exact HP|].
  rewrite N.add_mod_idemp_r by exact HP.
  replace (a + (i + P - a)) with (i + 1 * P) by lia.
  rewrite N.mod_add by exact HP. apply N.mod_small. exact Hi.
Qed.

Section Loop.
  Variables (held : list cidr) (p : path) (f : fam) (m0 : cidrmap) (c0 : ccset) (pl0 : pool).
  Hypothesis Hg0 : get_entry m0 p = Some c0.
  Hypothesis Hp0 : pool_of c0 f = Some pl0.
  Hypothesis I0 : PoolInv pl0.
  Hypothesis Hf0 : gf (pg pl0) = f.

  Definition pos (j : N) : cidr := block (pg pl0) ((cur pl0 + j) mod pmax pl0).

  Lemma own_used_blocked b : In b (used pl0) -> cf b = f -> blockedb m0 held b = true.
  Proof.
    intros Hb Hcf. unfold blockedb. apply Bool.orb_true_iff. left. apply Bool.orb_true_iff. left.
    unfold in_allocated_list. apply existsb_exists. exists c0. split; [eapply get_entry_in_all; exact Hg0|].
    rewrite Hcf, Hp0. apply mem_cidr_In. exact Hb.
  Qed.

  Definition cover (st : alloc_state) : Prop :=
    match st with
    | ARun ev m => exists c pl, get_entry m p = Some c /\ pool_of c f = Some pl /\ same_scans m0 m /\
         PoolInv pl /\ pg pl = pg pl0 /\ pmax pl = pmax pl0 /\ used pl = used pl0 /\
         cur pl = (cur pl0 + ev) mod pmax pl0 /\
         forall j, j < ev -> blockedb m0 held (pos j) = true
    | ADone m (Err e) => same_scans m0 m /\ (clean_geom (pg pl0) = true -> e = EExhausted) /\
                         (e = EExhausted -> forall i, i < maxc (pg pl0) -> blockedb m0 held (block (pg pl0) i) = true)
    | ADone _ _ => True
    end.

  Lemma cover_init : cover (ARun 0 m0).
  Proof.
    exists c0, pl0. split; [exact Hg0|]. split; [exact Hp0|]. split; [intros b; split; reflexivity|].
    split; [exact I0|]. split; [reflexivity|]. split; [reflexivity|]. split; [reflexivity|]. split.
    - rewrite N.add_0_r. symmetry. apply N.mod_small. apply (inv_cur pl0 I0).
    - intros j Hj. lia.
  Qed.

  Lemma cover_step st : cover st -> cover (alloc_step held p f st).
  Proof.
    destruct st as [ev m|m r]; [|intros H; exact H].
    intros (c & pl & Hg & Hp & Hs & I & Hpg & Hpm & Hu & Hcur & Hcov).
    pose proof (inv_max pl0 I0) as Hmax0. pose proof (maxc_pos (pg pl0)) as Hpos.
    assert (HP : pmax pl0 <> 0) by lia.
    unfold alloc_step. rewrite Hg, Hp.
    destruct (pmax pl <=? ev) eqn:Ele.
    { (* the counter reached the capacity: the ring has been walked round completely *)
      apply N.leb_le in Ele. cbn [cover]. split; [exact Hs|]. split; [reflexivity|]. intros _ i Hi.
      destruct (ring_onto (pmax pl0) (cur pl0) i (inv_cur pl0 I0) ltac:(lia)) as (j & Hj & Hij).
      specialize (Hcov j ltac:(lia)). unfold pos in Hcov. rewrite Hij in Hcov. exact Hcov. }
    apply N.leb_gt in Ele.
    pose proof (next_spec pl I) as Hn. destruct (next_candidate pl) as [blk sk pl'|e].
    2:{ (* every block of the pool itself is used *)
      cbn [cover]. split; [exact Hs|]. split; [reflexivity|]. intros _ i Hi.
      apply own_used_blocked; [rewrite <- Hu, <- Hpg; apply Hn; rewrite Hpg; exact Hi|cbn; exact Hf0]. }
    destruct Hn as (i & Hi & Hblk & Hfree & Hsk & Hidx & Hskip & Hpl' & I' & _).
    assert (Hu' : used pl' = used pl) by (rewrite Hpl'; reflexivity).
    pose proof (same_scans_cursor m p c f pl pl' Hg Hp Hu') as Hsc.
    set (c1 := with_pool c f pl') in *. set (m1 := set_entry m p c1) in *.
    assert (Hpos_eq : forall t, block (pg pl) ((cur pl + t) mod pmax pl) = pos (ev + t)).
    { intros t. unfold pos. rewrite Hpg, Hpm, Hcur. f_equal. apply ring_step. exact HP. }
    destruct (in_allocated_list m1 blk || overlaps_allocated m1 blk || in_use_by_node held blk)%bool eqn:Eb.
    - (* the candidate is blocked: go on *)
      cbn [cover]. exists c1, pl'. split; [subst m1; eapply get_set_entry_same; exact Hg|].
      split; [subst c1; apply pool_of_with_pool_same|].
      split; [intros b; destruct (Hsc b) as [A B]; destruct (Hs b) as [A0 B0]; split; congruence|].
      split; [exact I'|].
      split; [rewrite Hpl'; exact Hpg|]. split; [rewrite Hpl'; exact Hpm|]. split; [congruence|].
      split.
      + rewrite Hpl'. cbn [cur with_cur]. rewrite Hidx, Hpm, Hcur.
        rewrite (ring_step _ _ _ _ HP). rewrite N.add_mod_idemp_l by exact HP. f_equal. lia.
      + intros j Hj. destruct (N.lt_ge_cases j ev) as [Hlt|Hge]; [apply Hcov; exact Hlt|].
        destruct (N.eq_dec j (ev + sk)) as [->|Hne].
        * (* the candidate itself *)
          rewrite <- Hpos_eq. rewrite <- Hidx, <- Hblk.
          unfold blockedb. destruct (Hsc blk) as [A B]. destruct (Hs blk) as [A0 B0].
          rewrite <- A0, <- B0, <- A, <- B. exact Eb.
        * (* a block skipped by the pool's own search: it is used in the pool itself *)
          replace j with (ev + (j - ev)) by lia. rewrite <- Hpos_eq.
          apply own_used_blocked; [rewrite <- Hu; apply Hskip; lia|cbn; rewrite Hpg; exact Hf0].
    - destruct (cc_occupy c1 blk) as [c2|e|] eqn:Eo; cbn [cover]; try exact Logic.I.
      assert (Hs1 : same_scans m0 m1) by (intros b; destruct (Hsc b) as [A B]; destruct (Hs b) as [A0 B0]; split; congruence).
      split; [exact Hs1|].
      (* occupying a block of the pool itself cannot fail in the clean domain, and never reports exhaustion *)
      assert (Hcf : cf blk = f) by (rewrite Hblk; cbn; rewrite Hpg; exact Hf0).
      unfold cc_occupy in Eo. rewrite Hcf in Eo. subst c1. rewrite pool_of_with_pool_same in Eo.
      destruct (occupy pl' blk) as [q|] eqn:Eq; [discriminate|]. inversion Eo; subst e.
      split; [|discriminate]. intros Hcl. exfalso.
      assert (Hwfb : wf_cidr blk) by (rewrite Hblk; apply block_wf; [apply (inv_wf pl I)|exact Hi]).
      pose proof (occupy_spec pl' blk I' ltac:(rewrite Hpl'; cbn [pg with_cur]; rewrite Hpg; exact Hcl) Hwfb) as Ho.
      rewrite Eq in Ho. apply Ho. rewrite Hpl'. cbn [pg with_cur].
      destruct (block_in_range (pg pl) i (inv_wf pl I) Hi) as [Hfam Hsub]. rewrite <- Hblk in Hfam, Hsub.
      split; [symmetry; exact Hfam|]. exists (ca blk). split; [apply Hsub|]; unfold in_cidr; split; try lia;
        apply N.lt_add_pos_r; unfold hostsz; apply N.neq_0_lt_0; apply N.pow_nonzero; discriminate.
  Qed.
End Loop.

Lemma alloc_step_progress held p f st :
  match st, alloc_step held p f st with
  | ARun ev _, ARun ev' _ => ev < ev'
  | _, _ => True
  end.
Proof.
  destruct st as [ev m|m r]; [|exact I]. unfold alloc_step.
  destruct (get_entry m p) as [c|]; [|exact I]. destruct (pool_of c f) as [pl|]; [|exact I].
  destruct (pmax pl <=? ev); [exact I|]. destruct (next_candidate pl) as [blk sk pl'|]; [|exact I].
  match goal with |- context [if ?b then _ else _] => destruct b end; [lia|].
  destruct (cc_occupy _ blk); exact I.
Qed.

Lemma alloc_iter_lb held p f m n :
  match N.iter n (alloc_step held p f) (ARun 0 m) with ARun ev _ => n <= ev | ADone _ _ => True end.
Proof.
  induction n as [|n IH] using N.peano_ind; [cbn; lia|].
  rewrite N.iter_succ. pose proof (alloc_step_progress held p f (N.iter n (alloc_step held p f) (ARun 0 m))) as Hp.
  destruct (N.iter n (alloc_step held p f) (ARun 0 m)) as [ev m1|m1 r]; [|cbn; exact I].
  destruct (alloc_step held p f (ARun ev m1)) as [ev' m2|m2 r]; [lia|exact I].
Qed.

(* C05, the allocation loop: giving up on a pool means every one of its blocks is blocked *)
Theorem allocate_cidr_complete held m p f c pl m' e :
  get_entry m p = Some c -> pool_of c f = Some pl -> PoolInv pl -> gf (pg pl) = f -> clean_geom (pg pl) = true ->
  allocate_cidr held m p f = (m', Err e) ->
  e = EExhausted /\ same_scans m m' /\ forall i, i < maxc (pg pl) -> blockedb m held (block (pg pl) i) = true.
Proof.
  intros Hg Hp I Hf Hcl H. unfold allocate_cidr in H. rewrite Hg, Hp in H.
  assert (G : cover held p f m pl (N.iter (pmax pl + 1) (alloc_step held p f) (ARun 0 m))).
  { apply N.iter_invariant; [intros st; apply (cover_step held p f m c pl Hg Hp I Hf)|apply (cover_init held p f m c pl Hg Hp I)]. }
  pose proof (alloc_iter_lb held p f m (pmax pl + 1)) as Hlb.
  destruct (N.iter (pmax pl + 1) (alloc_step held p f) (ARun 0 m)) as [ev m2|m2 r].
  - (* cannot happen: the counter would exceed the capacity; covered anyway *)
    destruct G as (c2 & pl2 & _ & _ & Hs & _ & _ & _ & _ & _ & Hcov). inversion H; subst.
    split; [reflexivity|]. split; [exact Hs|].
    intros i Hi. pose proof (inv_max pl I) as Hmax.
    destruct (ring_onto (pmax pl) (cur pl) i (inv_cur pl I) ltac:(lia)) as (j & Hj & Hij).
    specialize (Hcov j ltac:(lia)). unfold pos in Hcov. rewrite Hij in Hcov. exact Hcov.
  - inversion H; subst. cbn [cover] in G. destruct G as (Hs & He & Hall).
    specialize (He Hcl). subst e. split; [reflexivity|]. split; [exact Hs|]. apply Hall. reflexivity.
Qed.
