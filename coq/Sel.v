(* Sel.v -- label selectors as the controller uses them: requirement semantics
   (= k8s.io/apimachinery labels.Requirement.Matches), conversion of a NodeSelector
   (nodeSelectorAsSelector), and matchCIDRLabels.  Definitions only.
   Printing a selector to the map key and parsing it back are library behaviour
   (labels.Selector.String / labels.Parse); they enter as explicit functions/oracles. *)
From NIPAM Require Export Str.
From Coq Require Export ZArith.
Open Scope N_scope.

Inductive selop := OpIn | OpNotIn | OpExists | OpDoesNotExist | OpGt | OpLt.

Record req := mkReq { rkey : str; rop : selop; rvals : list str }.

Definition labels := list (str * str).

Fixpoint lookup (k : str) (ls : labels) : option str :=
  match ls with
  | [] => None
  | (k', v) :: ls' => if str_eqb k k' then Some v else lookup k ls'
  end.

Definition str_in (v : str) (vs : list str) : bool := existsb (str_eqb v) vs.

(* strconv.ParseInt(s, 10, 64): optional sign, at least one digit, only digits, fits in int64 *)
Definition digit_val (c : N) : option Z := if (48 <=? c) && (c <=? 57) then Some (Z.of_N (c - 48)) else None.

Fixpoint digits_val (acc : Z) (s : str) : option Z :=
  match s with
  | [] => Some acc
  | c :: s' => match digit_val c with Some d => digits_val (acc * 10 + d)%Z s' | None => None end
  end.

Definition parse_int64 (s : str) : option Z :=
  let '(neg, body) := match s with
                      | 45 :: t => (true, t)     (* '-' *)
                      | 43 :: t => (false, t)    (* '+' *)
                      | _ => (false, s)
                      end in
  match body with
  | [] => None
  | _ => match digits_val 0 body with
         | None => None
         | Some v => let v' := if neg then (- v)%Z else v in
                     if ((- 2 ^ 63 <=? v') && (v' <=? 2 ^ 63 - 1))%Z%bool then Some v' else None
         end
  end.

(* labels.Requirement.Matches *)
Definition req_matches (ls : labels) (r : req) : bool :=
  match rop r with
  | OpIn => match lookup (rkey r) ls with Some v => str_in v (rvals r) | None => false end
  | OpNotIn => match lookup (rkey r) ls with Some v => negb (str_in v (rvals r)) | None => true end
  | OpExists => match lookup (rkey r) ls with Some _ => true | None => false end
  | OpDoesNotExist => match lookup (rkey r) ls with Some _ => false | None => true end
  | OpGt | OpLt =>
      match lookup (rkey r) ls with
      | None => false
      | Some v =>
          match parse_int64 v with
          | None => false
          | Some lv =>
              match rvals r with
              | [rv] => match parse_int64 rv with
                        | None => false
                        | Some rvz => match rop r with OpGt => (rvz <? lv)%Z | _ => (lv <? rvz)%Z end
                        end
              | _ => false
              end
          end
      end
  end.

(* matchCIDRLabels (allocator:986-1010) on the requirements obtained from the map key:
   (labelsMatch, matchCnt) *)
Definition match_count (ls : labels) (rs : list req) : N :=
  N.of_nat (length (filter (req_matches ls) rs)).

Definition match_reqs (ls : labels) (rs : list req) : bool * N :=
  let c := match_count ls rs in (c =? N.of_nat (length rs), c).

(* the node selector of a ClusterCIDR spec, single list of requirements per term;
   nodeSelectorAsSelector concatenates matchExpressions and matchFields of ALL terms *)
Record term := mkTerm { t_exprs : list req; t_fields : list req }.
Definition nodesel := list term.

Definition flatten_sel (ns : nodesel) : list req :=
  flat_map (fun t => t_exprs t ++ t_fields t) ns.

(* the default selector used when a ClusterCIDR has no nodeSelector:
   kubernetes.io/clusterCIDR in (default) *)
Definition default_key_label : str :=
  [107;117;98;101;114;110;101;116;101;115;46;105;111;47;99;108;117;115;116;101;114;67;73;68;82].
Definition default_value : str := [100;101;102;97;117;108;116].
Definition default_reqs : list req := [mkReq default_key_label OpIn [default_value]].
