(* Just_proofs.v -- C03 "resurrects none" / the base case of C04: right after construction every block that is in use in any
   pool overlaps a configured service range or a pod CIDR of one of the listed nodes.  Nothing the previous incarnation
   had reserved survives unless the API objects justify it. *)
From NIPAM Require Import Sys Geom_proofs Pool_proofs Prio_proofs Alloc_proofs Inv_proofs Sys_proofs World_proofs Complete_proofs.
From Coq Require Import Lia.
Open Scope N_scope.

Definition JU (J : cidr -> Prop) (e : ccset) : Prop :=
  forall f pl, pool_of e f = Some pl -> forall b, In b (used pl) -> J b.
Definition JM (J : cidr -> Prop) (m : cidrmap) : Prop := forall e, In e (all_entries m) -> JU J e.

Lemma ju_with_assoc (J : cidr -> Prop) e a : JU J e -> JU J (with_assoc e a).
Proof. intros H f pl Hp. apply (H f pl). destruct f; exact Hp. Qed.

Lemma ju_occupy (J : cidr -> Prop) e x e' : EntryInv e -> wf_cidr x -> (forall b, overlap b x -> J b) -> cc_occupy e x = Ok e' -> JU J e -> JU J e'.
Proof.
  intros E Hw Hj H Hu. unfold cc_occupy in H. destruct (pool_of e (cf x)) as [p|] eqn:Ep; [|discriminate].
  destruct (occupy p x) as [p'|] eqn:Eo; [|discriminate]. inversion H; subst e'.
  destruct (pool_of_PI e (cf x) p E Ep) as (I & _ & Hcl).
  pose proof (occupy_spec p x I Hcl Hw) as S. rewrite Eo in S. destruct S as (_ & I' & _ & Hg & _ & _ & Hu').
  intros f q Hq b Hb. destruct (fam_eq_dec (cf x) f) as [<-|Hne].
  - rewrite pool_of_with_pool_same in Hq. inversion Hq; subst q.
    destruct (inv_blocks p' I' b Hb) as (i & Hi & ->). rewrite Hg in *. apply (Hu' i Hi) in Hb. destruct Hb as [Hb|Hb]; [exact (Hu _ _ Ep _ Hb)|exact (Hj _ Hb)].
  - rewrite pool_of_with_pool_other in Hq by exact Hne. exact (Hu f q Hq b Hb).
Qed.

Lemma ju_occupy_list (J : cidr -> Prop) cs : forall e e' o, EntryInv e -> Forall wf_pcidr cs ->
  (forall c cn, In (PGood c cn) cs -> forall b, overlap b c -> J b) ->
  occupy_list e cs = (e', o) -> JU J e -> JU J e'.
Proof.
  induction cs as [|pc cs IH]; intros e e' o E Hw Hj H Hu; cbn in H; [inversion H; subst; exact Hu|].
  inversion Hw as [|pc0 l0 Hw1 Hw2]; subst. destruct pc as [|x canon]; [inversion H; subst; exact Hu|].
  destruct (cc_occupy e x) as [e1|er|] eqn:Eo; try (inversion H; subst; exact Hu).
  eapply IH; [eapply cc_occupy_inv; eassumption|exact Hw2| |exact H|].
  - intros c cn Hc. apply (Hj c cn). right. exact Hc.
  - eapply ju_occupy; [exact E|exact Hw1| |exact Eo|exact Hu]. apply (Hj x canon). left. reflexivity.
Qed.

Lemma jm_set_entry (J : cidr -> Prop) m p e' : JM J m -> JU J e' -> JM J (set_entry m p e').
Proof.
  intros H He x Hx. unfold set_entry in Hx. destruct (find_key (fst p) m) as [l|] eqn:Ef; [|apply H; exact Hx].
  apply all_entries_set_key in Hx. destruct Hx as [Hx|Hx]; [|apply H; exact Hx].
  apply in_set_nth in Hx. destruct Hx as [->|Hx]; [exact He|]. apply H. eapply find_key_in; eassumption.
Qed.
Lemma get_entry_all m p e : get_entry m p = Some e -> In e (all_entries m).
Proof.
  unfold get_entry. destruct (find_key (fst p) m) as [l|] eqn:Ef; [|discriminate]. intros H.
  eapply find_key_in; [exact Ef|]. eapply nth_error_In. exact H.
Qed.

Lemma jm_occupy_try (J : cidr -> Prop) node ps : forall m m' r, MapInv m -> wf_node node ->
  (forall c cn, In (PGood c cn) (n_cidrs node) -> forall b, overlap b c -> J b) ->
  occupy_try m node ps = (m', r) -> JM J m -> JM J m'.
Proof.
  induction ps as [|p ps IH]; intros m m' r M Hw Hj H Hm; cbn in H; [inversion H; subst; exact Hm|].
  destruct (get_entry m p) as [c|] eqn:Eg; [|inversion H; subst; exact Hm].
  destruct (negb (can_occupy_all c (n_cidrs node))); [eapply IH; eassumption|].
  destruct (occupy_list c (n_cidrs node)) as [c' o] eqn:Eo.
  pose proof (get_entry_inv _ _ _ M Eg) as Ec.
  pose proof (occupy_list_inv _ _ _ _ Ec Hw Eo) as I'.
  pose proof (ju_occupy_list J _ _ _ _ Ec Hw Hj Eo (Hm c (get_entry_all _ _ _ Eg))) as Hu'.
  destruct o.
  - inversion H; subst. apply jm_set_entry; [exact Hm|apply ju_with_assoc; exact Hu'].
  - eapply IH; [apply set_entry_inv; [exact M|exact I']|exact Hw|exact Hj|exact H|apply jm_set_entry; assumption].
  - inversion H; subst. apply jm_set_entry; assumption.
Qed.
Lemma jm_occupy_cidrs (J : cidr -> Prop) po lab m node m' r : MapInv m -> wf_node node ->
  (forall c cn, In (PGood c cn) (n_cidrs node) -> forall b, overlap b c -> J b) ->
  occupy_cidrs po lab m node = (m', r) -> JM J m -> JM J m'.
Proof.
  unfold occupy_cidrs. intros M Hw Hj H Hm. destruct (n_cidrs node) as [|pc0 pcs] eqn:En; [inversion H; subst; exact Hm|].
  destruct (ordered_matching po lab m (n_labels node) false) as [[|p1 ps]|e|]; try (inversion H; subst; exact Hm).
  eapply jm_occupy_try; try eassumption. rewrite En. exact Hj.
Qed.
Lemma jm_occupy_nodes (J : cidr -> Prop) po lab ns : forall m m' pan, MapInv m -> Forall wf_node ns ->
  (forall n c cn, In n ns -> In (PGood c cn) (n_cidrs n) -> forall b, overlap b c -> J b) ->
  occupy_nodes po lab m ns = (m', pan) -> JM J m -> JM J m'.
Proof.
  induction ns as [|n ns IH]; intros m m' pan M Hw Hj H Hm; cbn in H; [inversion H; subst; exact Hm|].
  inversion Hw as [|n0 l0 Hn Hns]; subst.
  assert (Hj' : forall n0 c cn, In n0 ns -> In (PGood c cn) (n_cidrs n0) -> forall b, overlap b c -> J b) by (intros n0 c cn Hin; apply Hj; right; exact Hin).
  destruct (n_cidrs n) eqn:En; [eapply IH; eassumption|].
  destruct (occupy_cidrs po lab m n) as [m1 r1] eqn:Eo.
  assert (Hm1 : JM J m1).
  { eapply jm_occupy_cidrs; [exact M|exact Hn| |exact Eo|exact Hm]. intros c cn Hc. apply (Hj n c cn); [left; reflexivity|exact Hc]. }
  pose proof (occupy_cidrs_inv _ _ _ _ _ _ M Hn Eo) as M1.
  destruct r1; try (eapply IH; eassumption). inversion H; subst. exact Hm1.
Qed.

(* a freshly created entry has nothing in use *)
Lemma create_set_empty o term st c : create_set o term st = Ok c -> forall J : cidr -> Prop, JU J c.
Proof.
  unfold create_set. intros H J f pl Hp b Hb.
  assert (Hnew : forall want fp hb q, mk_pool want fp hb = Ok (Some q) -> used q = []).
  { intros want fp hb q Hq. unfold mk_pool in Hq. destruct fp as [| |x]; try discriminate.
    destruct (negb (fam_eqb (cf x) want)); [discriminate|]. unfold new_pool in Hq.
    destruct (_ && _)%bool; [discriminate|]. destruct (_ || _)%bool; [discriminate|]. inversion Hq; subst. reflexivity. }
  destruct (mk_pool V4 (o_v4 o) (o_hb o)) as [p4|e|] eqn:E4; try discriminate.
  destruct (mk_pool V6 (o_v6 o) (o_hb o)) as [p6|e|] eqn:E6; try discriminate.
  inversion H; subst c. destruct f; cbn in Hp; subst; [rewrite (Hnew _ _ _ _ E4) in Hb|rewrite (Hnew _ _ _ _ E6) in Hb]; destruct Hb.
Qed.
Lemma in_map_set2 m k c x : In x (all_entries (map_set m k c)) -> x = c \/ In x (all_entries m).
Proof.
  unfold map_set. destruct (find_key k m) as [l|] eqn:Ef.
  - intros Hx. apply all_entries_set_key in Hx. destruct Hx as [Hx|Hx]; [|right; exact Hx].
    apply in_app_or in Hx. destruct Hx as [Hx|[<-|[]]]; [right; eapply find_key_in; eassumption|left; reflexivity].
  - unfold all_entries. rewrite flat_map_app. intros Hx. apply in_app_or in Hx. destruct Hx as [Hx|Hx]; [right; exact Hx|].
    cbn in Hx. destruct Hx as [<-|[]]. left. reflexivity.
Qed.
Lemma jm_create (J : cidr -> Prop) m o term boot out m' r fx : create_cluster_cidr m o term boot out = (m', r, fx) -> JM J m -> JM J m'.
Proof.
  unfold create_cluster_cidr. intros H Hm.
  destruct (o_selkey o) as [k|]; [|inversion H; subst; exact Hm].
  destruct (create_set o term boot) as [c|e|] eqn:Ec; try (inversion H; subst; exact Hm).
  assert (Hmm : JM J (if is_mapped m k (o_name o) then m else map_set m k c)).
  { destruct (is_mapped m k (o_name o)); [exact Hm|]. intros x Hx. apply in_map_set2 in Hx. destruct Hx as [->|Hx]; [eapply create_set_empty; exact Ec|exact (Hm x Hx)]. }
  destruct (cc_v4 c), (cc_v6 c); try (inversion H; subst; exact Hm);
    (destruct boot; [|destruct (need_finalizer o); [destruct out|]]); inversion H; subst; first [exact Hmm|exact Hm].
Qed.
Lemma jm_bootstrap (J : cidr -> Prop) os : forall m outs m' fx, bootstrap_ccs m os outs = (m', fx) -> JM J m -> JM J m'.
Proof.
  induction os as [|o os IH]; intros m outs m' fx H Hm; cbn in H; [inversion H; subst; exact Hm|].
  destruct (reconcile_bootstrap m o (match outs with x :: _ => x | [] => UOk end)) as [[m1 r1] fx1] eqn:E1.
  destruct (bootstrap_ccs m1 os (tl outs)) as [m2 fx2] eqn:E2. inversion H; subst.
  eapply IH; [exact E2|]. unfold reconcile_bootstrap in E1. eapply jm_create; eassumption.
Qed.
Lemma jm_filter_service (J : cidr -> Prop) m svc : MapInv m -> wf_cidr svc -> (forall b, overlap b svc -> J b) -> JM J m -> JM J (filter_service m svc).
Proof.
  intros M Hw Hj Hm x Hx. unfold filter_service, all_entries in Hx. apply in_flat_map in Hx. destruct Hx as ([k l] & Hkl & Hx).
  apply in_map_iff in Hkl. destruct Hkl as ([k0 l0] & E & Hin). cbn [fst snd] in E. injection E as Ek El. subst k l. cbn [snd] in Hx.
  apply in_map_iff in Hx. destruct Hx as (c & <- & Hc).
  assert (Hce : In c (all_entries m)) by (unfold all_entries; apply in_flat_map; exists (k0, l0); split; assumption).
  unfold occupy_service. destruct (pool_of c (cf svc)); [|exact (Hm c Hce)]. destruct (overlapb _ svc); [|exact (Hm c Hce)].
  destruct (cc_occupy c svc) as [c'|e|] eqn:Eo; try exact (Hm c Hce).
  eapply ju_occupy; [exact (M c Hce)|exact Hw|exact Hj|exact Eo|exact (Hm c Hce)].
Qed.

(* C03: what a new incarnation holds in use is justified by the API objects it was built from *)
Definition justified (s1 s2 : option cidr) (nodes : list nodeobj) (b : cidr) : Prop :=
  (exists s, (s1 = Some s \/ s2 = Some s) /\ overlap b s) \/
  (exists n c cn, In n nodes /\ In (PGood c cn) (n_cidrs n) /\ overlap b c).

Theorem construct_resurrects_nothing po lab ccs outs s1 s2 nodes m fx pan :
  Forall good_obj ccs -> Forall wf_node nodes ->
  (forall s, s1 = Some s -> wf_cidr s) -> (forall s, s2 = Some s -> wf_cidr s) ->
  construct po lab ccs outs s1 s2 nodes = (m, fx, pan) ->
  forall e, In e (all_entries m) -> forall f pl, pool_of e f = Some pl -> forall b, In b (used pl) -> justified s1 s2 nodes b.
Proof.
  unfold construct. intros G Hn H1 H2 H.
  destruct (bootstrap_ccs [] ccs outs) as [m1 fx1] eqn:Eb.
  assert (M0 : MapInv []) by (intros c Hc; cbn in Hc; destruct Hc).
  assert (M1 : MapInv m1) by (eapply bootstrap_ccs_inv; [exact M0|exact G|exact Eb]).
  set (J := justified s1 s2 nodes).
  assert (J1 : JM J m1) by (eapply jm_bootstrap; [exact Eb|intros e []]).
  set (m2 := match s1 with Some s => filter_service m1 s | None => m1 end) in *.
  assert (M2 : MapInv m2) by (unfold m2; destruct s1; [apply filter_service_inv; [exact M1|apply H1; reflexivity]|exact M1]).
  assert (J2 : JM J m2).
  { unfold m2. destruct s1 as [s|] eqn:Es; [|exact J1]. apply jm_filter_service; [exact M1|apply H1; reflexivity| |exact J1].
    intros b Hb. left. exists s. split; [left; reflexivity|exact Hb]. }
  set (m3 := match s2 with Some s => filter_service m2 s | None => m2 end) in *.
  assert (M3 : MapInv m3) by (unfold m3; destruct s2; [apply filter_service_inv; [exact M2|apply H2; reflexivity]|exact M2]).
  assert (J3 : JM J m3).
  { unfold m3. destruct s2 as [s|] eqn:Es; [|exact J2]. apply jm_filter_service; [exact M2|apply H2; reflexivity| |exact J2].
    intros b Hb. left. exists s. split; [right; reflexivity|exact Hb]. }
  destruct (occupy_nodes po lab m3 nodes) as [m4 p4] eqn:Eo. inversion H; subst.
  assert (J4 : JM J m) by (eapply jm_occupy_nodes; [exact M3|exact Hn| |exact Eo|exact J3]; intros n c cn Hin Hc b Hb; right; exists n, c, cn; split; [exact Hin|split; [exact Hc|exact Hb]]).
  intros e He f pl Hp b Hb. exact (J4 e He f pl Hp b Hb).
Qed.
