(* Just2_proofs.v -- C04 as an invariant of histories: in every world reached by a history without node deletion and without
   a failed read-back after timed-out writes (the residues K-D21, K-TOMB, K-REPL and K-AMB are exactly these), every block that
   is in use in any pool of the controller overlaps a configured service range or a pod CIDR of an existing node. *)
From NIPAM Require Import Sys Geom_proofs Pool_proofs Prio_proofs Alloc_proofs Inv_proofs Sys_proofs World_proofs Complete_proofs Hist_proofs Hist2_proofs Hist3_proofs Hist4_proofs Conv_proofs Coh_proofs
  Path_proofs NoPanic_proofs Resv_proofs Svc_proofs Term_proofs Just_proofs.
From Coq Require Import Lia.
Open Scope N_scope.

(* ---------- the path-indexed form of JM ---------- *)
Definition PJ (J : cidr -> Prop) (m : cidrmap) : Prop := forall q e, get_entry m q = Some e -> JU J e.
(* all entries satisfy J, the one at p the weaker JT *)
Definition PJ2 (J JT : cidr -> Prop) (p : path) (m : cidrmap) : Prop :=
  (forall q e, q <> p -> get_entry m q = Some e -> JU J e) /\ (forall e, get_entry m p = Some e -> JU JT e).

Lemma ju_weaken (J J' : cidr -> Prop) e : (forall b, J b -> J' b) -> JU J e -> JU J' e.
Proof. intros H Hu f pl Hp b Hb. apply H. exact (Hu f pl Hp b Hb). Qed.

Lemma ju_esim (J : cidr -> Prop) e e' : esim e e' -> JU J e -> JU J e'.
Proof.
  intros He Hu f pl' Hp' b Hb. pose proof (esim_pool_of _ _ f He) as Ho. rewrite Hp' in Ho.
  destruct (pool_of e f) as [pl|] eqn:Ep; [|contradiction]. destruct Ho as [_ Hmem]. apply (Hu f pl Ep b). apply Hmem. exact Hb.
Qed.

Lemma pj_msim (J : cidr -> Prop) m m' : msim m m' -> PJ J m -> PJ J m'.
Proof.
  intros Hms H q e' Hg'. pose proof (msim_get _ _ q Hms) as Ho. rewrite Hg' in Ho.
  destruct (get_entry m q) as [e|] eqn:Eg; [|contradiction]. eapply ju_esim; [exact Ho|exact (H q e Eg)].
Qed.
Lemma pj2_msim (J JT : cidr -> Prop) p m m' : msim m m' -> PJ2 J JT p m -> PJ2 J JT p m'.
Proof.
  intros Hms [H1 H2]. split.
  - intros q e' Hne Hg'. pose proof (msim_get _ _ q Hms) as Ho. rewrite Hg' in Ho.
    destruct (get_entry m q) as [e|] eqn:Eg; [|contradiction]. eapply ju_esim; [exact Ho|exact (H1 q e Hne Eg)].
  - intros e' Hg'. pose proof (msim_get _ _ p Hms) as Ho. rewrite Hg' in Ho.
    destruct (get_entry m p) as [e|] eqn:Eg; [|contradiction]. eapply ju_esim; [exact Ho|exact (H2 e eq_refl)].
Qed.

Lemma pj_pj2 (J : cidr -> Prop) p m : PJ J m -> PJ2 J J p m.
Proof. intros H. split; [intros q e _ Hg; exact (H q e Hg)|intros e Hg; exact (H p e Hg)]. Qed.
Lemma pj2_pj (J JT : cidr -> Prop) p m : (forall b, JT b -> J b) -> PJ2 J JT p m -> PJ J m.
Proof.
  intros Hw [H1 H2] q e Hg. destruct (path_eq_dec q p) as [->|Hne]; [eapply ju_weaken; [exact Hw|exact (H2 e Hg)]|exact (H1 q e Hne Hg)].
Qed.

(* ---------- one entry: occupying and releasing ---------- *)
Definition jor (J : cidr -> Prop) (x : cidr) : cidr -> Prop := fun b => J b \/ overlap b x.
Definition jminus (J : cidr -> Prop) (x : cidr) : cidr -> Prop := fun b => J b /\ ~ overlap b x.

Lemma ju_occupy2 (J : cidr -> Prop) e x e' pl :
  pool_of e (cf x) = Some pl -> PoolInv pl -> clean_geom (pg pl) = true -> wf_cidr x ->
  cc_occupy e x = Ok e' -> JU J e -> JU (jor J x) e'.
Proof.
  intros Ep I Hcl Hw H Hu. unfold cc_occupy in H. rewrite Ep in H.
  destruct (occupy pl x) as [p'|] eqn:Eo; [|discriminate]. inversion H; subst e'.
  pose proof (occupy_spec pl x I Hcl Hw) as S. rewrite Eo in S. destruct S as (_ & I' & _ & Hg & _ & _ & Hu').
  intros f q Hq b Hb. destruct (fam_eq_dec (cf x) f) as [<-|Hne].
  - rewrite pool_of_with_pool_same in Hq. inversion Hq; subst q.
    destruct (inv_blocks p' I' b Hb) as (i & Hi & ->). rewrite Hg in *. apply (Hu' i Hi) in Hb.
    destruct Hb as [Hb|Hb]; [left; exact (Hu _ _ Ep _ Hb)|right; exact Hb].
  - rewrite pool_of_with_pool_other in Hq by exact Hne. left. exact (Hu f q Hq b Hb).
Qed.

Lemma ju_release2 (J : cidr -> Prop) e x e' : EntryInv e -> wf_cidr x -> cc_release e x = Ok e' -> JU J e -> JU (jminus J x) e'.
Proof.
  intros E Hw H Hu. unfold cc_release in H. destruct (pool_of e (cf x)) as [pl|] eqn:Ep; [|discriminate].
  destruct (release pl x) as [p'|] eqn:Er; [|discriminate]. inversion H; subst e'.
  destruct (pool_of_PI e (cf x) pl E Ep) as (I & Hf & Hcl).
  pose proof (release_spec pl x I Hcl Hw) as S. rewrite Er in S. destruct S as (_ & I' & _ & Hg & _ & _ & Hu').
  intros f q Hq b Hb. destruct (fam_eq_dec (cf x) f) as [<-|Hne].
  - rewrite pool_of_with_pool_same in Hq. inversion Hq; subst q.
    destruct (inv_blocks p' I' b Hb) as (i & Hi & ->). rewrite Hg in *. apply (Hu' i Hi) in Hb.
    destruct Hb as [Hb Hno]. split; [exact (Hu _ _ Ep _ Hb)|exact Hno].
  - rewrite pool_of_with_pool_other in Hq by exact Hne. split; [exact (Hu f q Hq b Hb)|].
    (* a block of the other family does not overlap x *)
    intros [Hfam _]. destruct (pool_of_PI e f q E Hq) as (Iq & Hfq & _).
    destruct (inv_blocks q Iq b Hb) as (i & Hi & ->).
    destruct (block_in_range (pg q) i (inv_wf q Iq) Hi) as [Hbf _]. apply Hne. rewrite <- Hfam, Hbf. exact Hfq.
Qed.

Lemma pj2_set_entry (J JT JT' : cidr -> Prop) p m c' :
  PJ2 J JT p m -> JU JT' c' -> PJ2 J JT' p (set_entry m p c').
Proof.
  intros [H1 H2] Hc. split.
  - intros q e Hne Hg. rewrite get_set_entry_other in Hg by exact Hne. exact (H1 q e Hne Hg).
  - intros e Hg. destruct (get_entry m p) as [c|] eqn:Eg.
    + rewrite (get_set_entry_same m p c c' Eg) in Hg. inversion Hg; subst. exact Hc.
    + (* p is not a path of m: set_entry is the identity *)
      unfold set_entry in Hg. unfold get_entry in Eg, Hg. destruct (find_key (fst p) m) as [l|] eqn:Ef; [|rewrite Ef in Hg; discriminate].
      rewrite find_key_set_key_same in Hg. exfalso. clear - Eg Hg. revert Eg Hg. generalize (snd p). induction l as [|h t IH]; intros n; destruct n; cbn; try discriminate.
      apply IH.
Qed.

(* ---------- allocateCIDR ---------- *)
Lemma pj_allocate (J JT : cidr -> Prop) held m p f c pl m' r :
  MapInv m -> get_entry m p = Some c -> pool_of c f = Some pl -> allocate_cidr held m p f = (m', r) -> PJ2 J JT p m ->
  match r with Ok x => PJ2 J (jor JT x) p m' | Err _ => PJ2 J JT p m' | Panic => False end.
Proof.
  intros M Hg Hp H HP. destruct (pool_of_PI c f pl (get_entry_inv _ _ _ M Hg) Hp) as (I & Hf & Hcl).
  destruct r as [x|e|].
  - destruct (allocate_cidr_ok_shape held m p f c pl m' x Hg Hp I Hf H) as (m1 & c1 & c2 & pl1 & j & Hms & Hg1 & Hp1 & I1 & Hgeo & Hj & Hx & _ & _ & Hocc & Hm').
    subst m'. pose proof (pj2_msim J JT p m m1 Hms HP) as HP1. apply (pj2_set_entry J JT (jor JT x) p m1 c2 HP1).
    assert (Hcf : cf x = f) by (rewrite Hx; cbn; exact Hf).
    eapply (ju_occupy2 JT c1 x c2 pl1); [rewrite Hcf; exact Hp1|exact I1|rewrite Hgeo; exact Hcl| |exact Hocc|exact (proj2 HP1 c1 Hg1)].
    rewrite Hx. apply block_wf; [apply (inv_wf pl I)|exact Hj].
  - destruct (allocate_cidr_complete held m p f c pl m' e Hg Hp I Hf Hcl H) as (_ & Hms & _). exact (pj2_msim J JT p m m' Hms HP).
  - pose proof (allocate_cidr_no_panic held m p f c pl Hg Hp I Hf) as Hn. rewrite H in Hn. apply Hn. reflexivity.
Qed.

(* ---------- prioritizedCIDRs ---------- *)
Definition jany (J : cidr -> Prop) (cs : list cidr) : cidr -> Prop := fun b => J b \/ exists x, In x cs /\ overlap b x.

Lemma pj2_weaken (J JT JT' : cidr -> Prop) p m : (forall b, JT b -> JT' b) -> PJ2 J JT p m -> PJ2 J JT' p m.
Proof. intros Hw [H1 H2]. split; [exact H1|intros e Hg; eapply ju_weaken; [exact Hw|exact (H2 e Hg)]]. Qed.

Lemma pj_prioritized_try (J : cidr -> Prop) held ps m m' r :
  MapInv m -> PJ J m -> prioritized_try held m ps = (m', r) ->
  match r with Ok (cs, p) => PJ2 J (jany J cs) p m' | Err _ => PJ J m' | Panic => True end.
Proof.
  intros M HP H. destruct r as [[cs p]|e|]; [| |exact I].
  2:{ pose proof (prioritized_try_result _ _ _ _ _ M H) as Hms. cbn in Hms. exact (pj_msim J m m' Hms HP). }
  destruct (prioritized_try_split2 _ _ _ _ _ _ H) as (pre & post & mk & er & _ & Hp & (c & Hgc & Hs)).
  pose proof (prioritized_try_result _ _ _ _ _ M Hp) as Hms. cbn in Hms.
  destruct (prioritized_try_inv _ _ _ _ _ M Hp) as [Mk _].
  pose proof (pj_pj2 J p mk (pj_msim J m mk Hms HP)) as HPk.
  destruct (cc_v4 c) as [pl4|] eqn:E4, (cc_v6 c) as [pl6|] eqn:E6.
  - destruct Hs as (m1 & x4 & x6 & Ha4 & Ha6 & ->).
    pose proof (pj_allocate J J held mk p V4 c pl4 m1 (Ok x4) Mk Hgc E4 Ha4 HPk) as HP1. cbn in HP1.
    destruct (alloc_block held mk p V4 c pl4 m1 x4 Mk Hgc E4 Ha4) as (_ & (c2 & Hg2 & Hoth)).
    pose proof (Hoth V6 ltac:(discriminate)) as Ho6. cbn in Ho6. rewrite E6 in Ho6. destruct (cc_v6 c2) as [pl6'|] eqn:E62; [|contradiction].
    pose proof (allocate_cidr_inv _ _ _ _ _ _ Mk Ha4) as M1.
    pose proof (pj_allocate J (jor J x4) held m1 p V6 c2 pl6' m' (Ok x6) M1 Hg2 E62 Ha6 HP1) as HP2. cbn in HP2.
    eapply pj2_weaken; [|exact HP2]. intros b [[Hb|Hb]|Hb]; [left; exact Hb|right; exists x4; split; [left; reflexivity|exact Hb]|right; exists x6; split; [right; left; reflexivity|exact Hb]].
  - destruct Hs as (x4 & Ha4 & ->).
    pose proof (pj_allocate J J held mk p V4 c pl4 m' (Ok x4) Mk Hgc E4 Ha4 HPk) as HP1. cbn in HP1.
    eapply pj2_weaken; [|exact HP1]. intros b [Hb|Hb]; [left; exact Hb|right; exists x4; split; [left; reflexivity|exact Hb]].
  - destruct Hs as (x6 & Ha6 & ->).
    pose proof (pj_allocate J J held mk p V6 c pl6 m' (Ok x6) Mk Hgc E6 Ha6 HPk) as HP1. cbn in HP1.
    eapply pj2_weaken; [|exact HP1]. intros b [Hb|Hb]; [left; exact Hb|right; exists x6; split; [left; reflexivity|exact Hb]].
  - destruct Hs as [-> ->]. eapply pj2_weaken; [|exact HPk]. intros b Hb. left. exact Hb.
Qed.

(* ---------- giving tentatively reserved blocks back ---------- *)
Definition own (x : cidr) (e : ccset) : Prop := exists pl j, pool_of e (cf x) = Some pl /\ j < maxc (pg pl) /\ x = block (pg pl) j.

Lemma cc_release_own e x0 e' x : EntryInv e -> wf_cidr x0 -> cc_release e x0 = Ok e' -> own x e -> own x e'.
Proof.
  intros E Hw H (pl & j & Hp & Hj & Hx). unfold cc_release in H. destruct (pool_of e (cf x0)) as [pl0|] eqn:Ep0; [|discriminate].
  destruct (release pl0 x0) as [p'|] eqn:Er; [|discriminate]. inversion H; subst e'.
  destruct (fam_eq_dec (cf x0) (cf x)) as [Heq|Hne].
  - rewrite Heq in Ep0. rewrite Ep0 in Hp. inversion Hp; subst pl0.
    destruct (pool_of_PI e (cf x) pl E Ep0) as (I & _ & Hcl). pose proof (release_spec pl x0 I Hcl Hw) as S. rewrite Er in S.
    destruct S as (_ & _ & _ & Hg & _). exists p', j. rewrite Heq, pool_of_with_pool_same, Hg. repeat split; assumption.
  - exists pl, j. rewrite pool_of_with_pool_other by exact Hne. repeat split; assumption.
Qed.

Lemma own_wf x e : EntryInv e -> own x e -> wf_cidr x.
Proof. intros E (pl & j & Hp & Hj & ->). destruct (pool_of_PI e _ pl E Hp) as (I & _ & _). apply block_wf; [apply (inv_wf pl I)|exact Hj]. Qed.

Lemma release_list_own cs : forall e, EntryInv e -> (forall x, In x cs -> own x e) -> exists e', release_list e cs = Ok e'.
Proof.
  induction cs as [|x cs IH]; intros e E Hown; cbn; [eexists; reflexivity|].
  destruct (Hown x (or_introl eq_refl)) as (pl & j & Hp & Hj & Hx).
  destruct (pool_of_PI e (cf x) pl E Hp) as (I & _ & Hcl).
  assert (Hw : wf_cidr x) by (eapply own_wf; [exact E|apply Hown; left; reflexivity]).
  unfold cc_release at 1. rewrite Hp. destruct (release pl x) as [p'|] eqn:Er.
  - assert (Hcr : cc_release e x = Ok (with_pool e (cf x) p')) by (unfold cc_release; rewrite Hp, Er; reflexivity).
    apply IH; [eapply cc_release_inv; eassumption|]. intros y Hy. eapply cc_release_own; [exact E|exact Hw|exact Hcr|apply Hown; right; exact Hy].
  - exfalso. exact (release_own_block_ok pl x j I Hcl Hj Hx Er).
Qed.

Lemma ju_release_list (J : cidr -> Prop) cs : forall e e', EntryInv e -> Forall wf_cidr cs -> release_list e cs = Ok e' ->
  JU (jany J cs) e -> JU J e'.
Proof.
  induction cs as [|x cs IH]; intros e e' E Hw H Hu; cbn in H.
  - inversion H; subst. eapply ju_weaken; [|exact Hu]. intros b [Hb|(y & [] & _)]. exact Hb.
  - inversion Hw as [|x0 l0 Hw1 Hw2]; subst. destruct (cc_release e x) as [e1|er|] eqn:Er; try discriminate.
    apply (IH e1 e' (cc_release_inv _ _ _ E Hw1 Er) Hw2 H).
    eapply ju_weaken; [|exact (ju_release2 _ e x e1 E Hw1 Er Hu)].
    intros b [[Hb|(y & [<-|Hy] & Hov)] Hno]; [left; exact Hb|contradiction|right; exists y; split; assumption].
Qed.

Lemma keys_at_own m p cs : MapInv m -> keys_at m p cs -> exists e, get_entry m p = Some e /\ EntryInv e /\ forall x, In x cs -> own x e.
Proof.
  intros M (e & Hg & Hk). pose proof (get_entry_inv _ _ _ M Hg) as E. exists e. split; [exact Hg|split; [exact E|]].
  intros x Hx. destruct (Hk x Hx) as (pl & Hp & Hin). destruct (pool_of_PI e (cf x) pl E Hp) as (I & _ & _).
  destruct (inv_blocks pl I x Hin) as (j & Hj & Hxj). exists pl, j. repeat split; assumption.
Qed.

Lemma pj_release_in (J : cidr -> Prop) m p cs m' r :
  MapInv m -> PJ2 J (jany J cs) p m -> keys_at m p cs -> release_in m p cs = (m', r) -> PJ J m' /\ r = Ok tt.
Proof.
  intros M HP Hk H. destruct (keys_at_own m p cs M Hk) as (e & Hg & E & Hown).
  destruct (release_list_own cs e E Hown) as (e' & Hr). unfold release_in in H. rewrite Hg, Hr in H. inversion H; subst.
  split; [|reflexivity]. apply (pj2_pj J J p); [auto|]. apply (pj2_set_entry J (jany J cs) J p m e' HP).
  eapply ju_release_list; [exact E| |exact Hr|exact (proj2 HP e Hg)].
  rewrite Forall_forall. intros x Hx. eapply own_wf; [exact E|exact (Hown x Hx)].
Qed.

(* ---------- updateCIDRsAllocation ---------- *)
Lemma patch_loop_ok canp name cs outs n fx : patch_loop canp name cs outs n = (true, fx) -> In (FxPatch name cs POk) fx /\ canp = true.
Proof.
  revert outs fx. induction n as [|n IH]; intros outs fx H; cbn in H; [discriminate|].
  destruct canp.
  - destruct (match outs with o :: _ => o | [] => PFail end) eqn:Eo.
    + inversion H; subst. split; [left; reflexivity|reflexivity].
    + destruct (patch_loop true name cs (tl outs) n) as [ok fx'] eqn:Ep. inversion H; subst. destruct (IH _ _ Ep) as [A B]. split; [right; exact A|exact B].
    + destruct (patch_loop true name cs (tl outs) n) as [ok fx'] eqn:Ep. inversion H; subst. destruct (IH _ _ Ep) as [A B]. split; [right; exact A|exact B].
    + destruct (patch_loop true name cs (tl outs) n) as [ok fx'] eqn:Ep. inversion H; subst. destruct (IH _ _ Ep) as [A B]. split; [right; exact A|exact B].
  - destruct (patch_loop false name cs (tl outs) n) as [ok fx'] eqn:Ep. inversion H; subst. destruct (IH _ _ Ep) as [_ B]. discriminate B.
Qed.

Lemma patch_loop_canp canp name cs outs n : forall e, In e (snd (patch_loop canp name cs outs n)) ->
  forall nm c o, e = FxPatch nm c o -> o <> PFail -> canp = true.
Proof.
  revert outs. induction n as [|n IH]; intros outs e He nm c o -> Hne; cbn in He; [destruct He|].
  destruct canp; [reflexivity|]. destruct (patch_loop false name cs (tl outs) n) as [ok fx'] eqn:Ep. cbn in He.
  destruct He as [E|He]; [inversion E; subst; contradiction|]. eapply (IH (tl outs)); [rewrite Ep; exact He|reflexivity|exact Hne].
Qed.

Definition kept_reason (canp apisame : list cidr -> bool) (name : str) (cs : list cidr) (reread : option nodeobj) (outs : list patch_outcome) (fx : list effect) : Prop :=
  (exists n, reread = Some n /\ same_cidrs (n_cidrs n) cs = true) \/
  (exists o, In (FxPatch name cs o) fx /\ (o = POk \/ o = PTimeoutApplied) /\ canp cs = true) \/
  apisame cs = true \/ nth_error outs 3 = Some PFail.

Lemma pj2_pj_any (J JT J' : cidr -> Prop) p m : (forall b, J b -> J' b) -> (forall b, JT b -> J' b) -> PJ2 J JT p m -> PJ J' m.
Proof.
  intros H1 H2 [A B] q e Hg. destruct (path_eq_dec q p) as [->|Hne]; [eapply ju_weaken; [exact H2|exact (B e Hg)]|eapply ju_weaken; [exact H1|exact (A q e Hne Hg)]].
Qed.

Lemma pj_update (J : cidr -> Prop) canp apisame m name cs p reread outs m' r fx :
  MapInv m -> PJ2 J (jany J cs) p m -> keys_at m p cs ->
  update_cidrs_allocation canp apisame m name cs p reread outs = (m', r, fx) ->
  PJ J m' \/ (PJ (jany J cs) m' /\ kept_reason canp apisame name cs reread outs fx).
Proof.
  unfold update_cidrs_allocation. intros M HP Hk H.
  assert (Hkeep : forall c, get_entry m p = Some c -> PJ (jany J cs) (set_entry m p (add_assoc name c))).
  { intros c Eg. apply (pj2_pj_any J (jany J cs) (jany J cs) p); [intros b Hb; left; exact Hb|auto|].
    apply (pj2_set_entry J (jany J cs) (jany J cs) p m _ HP). unfold add_assoc. apply ju_with_assoc. exact (proj2 HP c Eg). }
  assert (Hrel : forall m1 r1, release_in m p cs = (m1, r1) -> PJ J m1) by (intros m1 r1 E; exact (proj1 (pj_release_in J m p cs m1 r1 M HP Hk E))).
  destruct (keys_at_own m p cs M Hk) as (e0 & Hg0 & _ & _).
  destruct reread as [n|].
  2:{ destruct (release_in m p cs) as [m1 r1] eqn:E. inversion H; subst. left. eapply Hrel. reflexivity. }
  destruct ((length (n_cidrs n) =? length cs)%nat && same_cidrs (n_cidrs n) cs)%bool eqn:Esame.
  { rewrite Hg0 in H. inversion H; subst. right. split; [apply Hkeep; exact Hg0|]. left. exists n. split; [reflexivity|]. apply andb_prop in Esame. apply Esame. }
  destruct (n_cidrs n) as [|pc0 pcs] eqn:En.
  2:{ destruct (release_in m p cs) as [m1 r1] eqn:E. inversion H; subst. left. eapply Hrel. reflexivity. }
  pose proof (patch_loop_patches (canp cs) name cs outs 3) as Hpl.
  pose proof (patch_loop_canp (canp cs) name cs outs 3) as Hcp.
  destruct (patch_loop (canp cs) name cs outs 3) as [ok fxp] eqn:Epl. cbn [snd] in Hpl, Hcp.
  destruct ok.
  { rewrite Hg0 in H. inversion H; subst. right. split; [apply Hkeep; exact Hg0|]. right. left.
    destruct (patch_loop_ok _ _ _ _ _ _ Epl) as [A B]. exists POk. split; [exact A|split; [left; reflexivity|exact B]]. }
  rewrite Hg0 in H.
  destruct (existsb (fun e => match e with FxPatch _ _ PTimeoutApplied | FxPatch _ _ PTimeoutNotApplied => true | _ => false end) fxp) eqn:Etm.
  2:{ destruct (release_in m p cs) as [m1 r1] eqn:E. inversion H; subst. left. eapply Hrel. reflexivity. }
  destruct (nth_error outs 3) as [[]|] eqn:En3.
  - (* POk read-back *) destruct (apisame cs || existsb (fun e => match e with FxPatch _ _ PTimeoutApplied => true | _ => false end) fxp)%bool eqn:Eap.
    + inversion H; subst. right. split; [apply Hkeep; exact Hg0|]. apply Bool.orb_true_iff in Eap. destruct Eap as [Ea|Ea]; [right; right; left; exact Ea|].
      right. left. apply existsb_exists in Ea. destruct Ea as (e & He & Hm). destruct (Hpl e He) as (o & ->). destruct o; try discriminate.
      exists PTimeoutApplied. split; [apply in_or_app; left; exact He|]. split; [right; reflexivity|]. eapply Hcp; [exact He|reflexivity|discriminate].
    + destruct (release_in m p cs) as [m1 r1] eqn:E. inversion H; subst. left. eapply Hrel. reflexivity.
  - (* PFail read-back: kept, ambiguous *) inversion H; subst. right. split; [apply Hkeep; exact Hg0|]. right. right. right. exact En3.
  - destruct (apisame cs || existsb (fun e => match e with FxPatch _ _ PTimeoutApplied => true | _ => false end) fxp)%bool eqn:Eap.
    + inversion H; subst. right. split; [apply Hkeep; exact Hg0|]. apply Bool.orb_true_iff in Eap. destruct Eap as [Ea|Ea]; [right; right; left; exact Ea|].
      right. left. apply existsb_exists in Ea. destruct Ea as (e & He & Hm). destruct (Hpl e He) as (o & ->). destruct o; try discriminate.
      exists PTimeoutApplied. split; [apply in_or_app; left; exact He|]. split; [right; reflexivity|]. eapply Hcp; [exact He|reflexivity|discriminate].
    + destruct (release_in m p cs) as [m1 r1] eqn:E. inversion H; subst. left. eapply Hrel. reflexivity.
  - destruct (apisame cs || existsb (fun e => match e with FxPatch _ _ PTimeoutApplied => true | _ => false end) fxp)%bool eqn:Eap.
    + inversion H; subst. right. split; [apply Hkeep; exact Hg0|]. apply Bool.orb_true_iff in Eap. destruct Eap as [Ea|Ea]; [right; right; left; exact Ea|].
      right. left. apply existsb_exists in Ea. destruct Ea as (e & He & Hm). destruct (Hpl e He) as (o & ->). destruct o; try discriminate.
      exists PTimeoutApplied. split; [apply in_or_app; left; exact He|]. split; [right; reflexivity|]. eapply Hcp; [exact He|reflexivity|discriminate].
    + destruct (release_in m p cs) as [m1 r1] eqn:E. inversion H; subst. left. eapply Hrel. reflexivity.
  - destruct (apisame cs || existsb (fun e => match e with FxPatch _ _ PTimeoutApplied => true | _ => false end) fxp)%bool eqn:Eap.
    + inversion H; subst. right. split; [apply Hkeep; exact Hg0|]. apply Bool.orb_true_iff in Eap. destruct Eap as [Ea|Ea]; [right; right; left; exact Ea|].
      right. left. apply existsb_exists in Ea. destruct Ea as (e & He & Hm). destruct (Hpl e He) as (o & ->). destruct o; try discriminate.
      exists PTimeoutApplied. split; [apply in_or_app; left; exact He|]. split; [right; reflexivity|]. eapply Hcp; [exact He|reflexivity|discriminate].
    + destruct (release_in m p cs) as [m1 r1] eqn:E. inversion H; subst. left. eapply Hrel. reflexivity.
Qed.

(* ---------- ReleaseCIDR: blocks are only given back; the service ranges occupied again are justified by themselves ---------- *)
Lemma ju_occupy_service (J : cidr -> Prop) e svc : EntryInv e -> wf_cidr svc -> (forall b, overlap b svc -> J b) -> JU J e -> JU J (occupy_service e svc).
Proof.
  intros E Hw Hj Hu. unfold occupy_service. destruct (pool_of e (cf svc)) as [p|] eqn:Ep; [|exact Hu].
  destruct (overlapb (grange (pg p)) svc); [|exact Hu]. destruct (cc_occupy e svc) as [e'|er|] eqn:Eo; try exact Hu.
  eapply ju_occupy; eassumption.
Qed.

Lemma occupy_service_inv' e svc : EntryInv e -> wf_cidr svc -> EntryInv (occupy_service e svc).
Proof.
  intros E Hw. unfold occupy_service. destruct (pool_of e (cf svc)) as [p|]; [|exact E].
  destruct (overlapb (grange (pg p)) svc); [|exact E]. destruct (cc_occupy e svc) as [e'|er|] eqn:Eo; try exact E.
  eapply cc_occupy_inv; eassumption.
Qed.

Lemma ju_occupy_services (J : cidr -> Prop) svcs : forall e, EntryInv e -> Forall wf_cidr svcs ->
  (forall s, In s svcs -> forall b, overlap b s -> J b) -> JU J e -> JU J (occupy_services e svcs) /\ EntryInv (occupy_services e svcs).
Proof.
  induction svcs as [|s svcs IH]; intros e E Hw Hj Hu; cbn; [split; assumption|]. inversion Hw; subst.
  apply IH; [apply occupy_service_inv'; assumption|assumption|intros s0 Hs0; apply Hj; right; exact Hs0|].
  apply ju_occupy_service; try assumption. apply Hj. left. reflexivity.
Qed.

Lemma ju_release_pcidrs (J : cidr -> Prop) svcs cs : Forall wf_cidr svcs -> (forall s, In s svcs -> forall b, overlap b s -> J b) ->
  forall e e' r, EntryInv e -> Forall wf_pcidr cs -> release_pcidrs svcs e cs = (e', r) -> JU J e -> JU J e'.
Proof.
  intros Hws Hj. induction cs as [|pc cs IH]; intros e e' r E Hw H Hu; cbn in H; [inversion H; subst; exact Hu|].
  inversion Hw as [|pc0 l0 Hw1 Hw2]; subst. destruct pc as [|x cn]; [inversion H; subst; exact Hu|].
  destruct (cc_release e x) as [e1|er|] eqn:Er; try (inversion H; subst; exact Hu).
  pose proof (cc_release_inv _ _ _ E Hw1 Er) as E1.
  assert (Hu1 : JU J e1) by (eapply ju_weaken; [|exact (ju_release2 J e x e1 E Hw1 Er Hu)]; intros b [Hb _]; exact Hb).
  destruct (ju_occupy_services J svcs e1 E1 Hws Hj Hu1) as [Hu2 E2].
  exact (IH _ _ _ E2 Hw2 H Hu2).
Qed.

Lemma jm_release_all (J : cidr -> Prop) svcs node : Forall wf_cidr svcs -> wf_node node -> (forall s, In s svcs -> forall b, overlap b s -> J b) ->
  forall ps m m' r, MapInv m -> release_all svcs m node ps = (m', r) -> JM J m -> JM J m'.
Proof.
  intros Hws Hwn Hj. induction ps as [|p ps IH]; intros m m' r M H Hm; cbn in H; [inversion H; subst; exact Hm|].
  destruct (get_entry m p) as [c|] eqn:Eg; [|inversion H; subst; exact Hm].
  destruct (release_pcidrs svcs c (n_cidrs node)) as [c' rr] eqn:Er.
  pose proof (get_entry_inv _ _ _ M Eg) as Ec.
  pose proof (ju_release_pcidrs J svcs (n_cidrs node) Hws Hj c c' rr Ec Hwn Er (Hm c (get_entry_all _ _ _ Eg))) as Hu'.
  pose proof (release_pcidrs_inv svcs (n_cidrs node) Hws c c' rr Ec Hwn Er) as Ec'.
  destruct rr as [[]|er|].
  - eapply IH; [|exact H|].
    + apply set_entry_inv; [exact M|]. unfold del_assoc. apply with_assoc_inv. exact Ec'.
    + apply jm_set_entry; [exact Hm|]. unfold del_assoc. apply ju_with_assoc. exact Hu'.
  - inversion H; subst. apply jm_set_entry; assumption.
  - inversion H; subst. apply jm_set_entry; assumption.
Qed.

Lemma jm_release_cidr (J : cidr -> Prop) svcs m node m' r : MapInv m -> Forall wf_cidr svcs -> wf_node node ->
  (forall s, In s svcs -> forall b, overlap b s -> J b) -> release_cidr svcs m node = (m', r) -> JM J m -> JM J m'.
Proof.
  intros M Hws Hwn Hj H Hm. unfold release_cidr in H. destruct (n_cidrs node); [inversion H; subst; exact Hm|].
  destruct (assoc_paths m (n_name node)) as [|p0 ps0]; [inversion H; subst; exact Hm|].
  eapply jm_release_all; eassumption.
Qed.

(* ---------- JM and PJ ---------- *)
Lemma jm_pj (J : cidr -> Prop) m : JM J m -> PJ J m.
Proof. intros H q e Hg. apply H. eapply get_entry_all. exact Hg. Qed.

Lemma all_entries_path m e : KU m -> In e (all_entries m) -> exists q, get_entry m q = Some e.
Proof.
  intros HK Hin. unfold all_entries in Hin. apply in_flat_map in Hin. destruct Hin as ([k l] & Hkl & He). cbn in He.
  destruct (In_nth_error _ _ He) as (i & Hi). exists (k, i). unfold get_entry. cbn [fst snd]. rewrite (find_key_in_KU k l m HK Hkl). exact Hi.
Qed.
Lemma pj_jm (J : cidr -> Prop) m : KU m -> PJ J m -> JM J m.
Proof. intros HK H e He. destruct (all_entries_path m e HK He) as (q & Hq). exact (H q e Hq). Qed.

(* ---------- a node work item ---------- *)
Theorem jm_sync_node (J : cidr -> Prop) po lab svcs canp apisame held m cached reread outs m' r fx :
  MapInv m -> KU m -> Forall wf_cidr svcs -> (forall n, cached = Some n -> wf_node n) ->
  (forall s, In s svcs -> forall b, overlap b s -> J b) ->
  (* occupying the pod CIDRs the node is shown with: they must be justified *)
  (forall node c cn, cached = Some node -> reread <> None -> n_deleting node = false -> In (PGood c cn) (n_cidrs node) -> forall b, overlap b c -> J b) ->
  sync_node po lab svcs canp apisame held m cached reread outs = (m', r, fx) -> JM J m ->
  JM J m' \/
  exists node cs, cached = Some node /\ n_cidrs node = [] /\ n_deleting node = false /\ cs <> [] /\
                  JM (jany J cs) m' /\ kept_reason canp apisame (n_name node) cs reread outs fx.
Proof.
  intros M HK Hws Hwn Hjs Hocc H Hm. unfold sync_node in H. destruct cached as [node|]; [|inversion H; subst; left; exact Hm].
  pose proof (Hwn node eq_refl) as Hw.
  destruct (n_deleting node) eqn:Hdel.
  { destruct (release_cidr svcs m node) as [m1 r1] eqn:Er. inversion H; subst. left. eapply jm_release_cidr; eassumption. }
  unfold allocate_or_occupy in H. destruct (n_cidrs node) as [|c0 cs0] eqn:En.
  2:{ destruct reread as [nr|]; [|inversion H; subst; left; exact Hm].
      destruct (occupy_cidrs po lab m node) as [m1 r1] eqn:Eo. inversion H; subst. left.
      eapply (jm_occupy_cidrs J po lab m node m' r); [exact M|exact Hw| |exact Eo|exact Hm].
      intros c cn Hc b Hb. eapply (Hocc node c cn eq_refl); [discriminate|exact Hdel|exact Hc|exact Hb]. }
  destruct (prioritized_cidrs po lab held m node) as [m1 rp] eqn:Ep.
  assert (Hsh1 : shape m1 = shape m).
  { unfold prioritized_cidrs in Ep. destruct (ordered_matching po lab m (n_labels node) true); try (inversion Ep; reflexivity). eapply prioritized_try_shape. exact Ep. }
  assert (HP1 : match rp with Ok (cs, p) => PJ2 J (jany J cs) p m1 /\ keys_at m1 p cs | Err _ => PJ J m1 | Panic => True end /\ MapInv m1).
  { unfold prioritized_cidrs in Ep. destruct (ordered_matching po lab m (n_labels node) true) as [ps|e|]; try (inversion Ep; subst; split; [try exact I; apply jm_pj; exact Hm|exact M]).
    split; [|exact (proj1 (prioritized_try_inv _ _ _ _ _ M Ep))].
    pose proof (pj_prioritized_try J held ps m m1 rp M (jm_pj J m Hm) Ep) as A.
    destruct rp as [[cs p]|e|]; [|exact A|exact I]. split; [exact A|].
    pose proof (prioritized_try_result _ _ _ _ _ M Ep) as R. cbn in R. apply R. }
  destruct HP1 as [HP1 M1].
  assert (HK1 : KU m1) by (eapply shape_KU; [symmetry; exact Hsh1|exact HK]).
  destruct rp as [[cs p]|e|].
  - destruct cs as [|c1 cs1]; [inversion H; subst; left; apply pj_jm; [exact HK1|]; apply (pj2_pj_any J (jany J []) J p); [auto| |exact (proj1 HP1)]; intros b [Hb|(x & [] & _)]; exact Hb|].
    destruct HP1 as [HP1 Hk1].
    assert (HK' : KU m') by (eapply shape_KU; [|exact HK1]; symmetry; eapply update_shape; exact H).
    destruct (pj_update J canp apisame m1 (n_name node) (c1 :: cs1) p reread outs m' r fx M1 HP1 Hk1 H) as [A|[A B]].
    + left. apply pj_jm; assumption.
    + right. exists node, (c1 :: cs1). repeat split; try assumption; try discriminate. apply pj_jm; assumption.
  - inversion H; subst. left. apply pj_jm; assumption.
  - inversion H; subst. left. (* a panic: nothing is claimed about the state, the process ends; the map is the one before *)
    apply pj_jm; [exact HK1|]. unfold prioritized_cidrs in Ep. destruct (ordered_matching po lab m (n_labels node) true) as [ps|e|] eqn:Eo; try (inversion Ep; subst; apply jm_pj; exact Hm).
    exfalso. pose proof (prioritized_try_no_panic held ps m M (ordered_matching_valid po lab m _ _ ps HK Eo)) as Hn. rewrite Ep in Hn. apply Hn. reflexivity.
Qed.

(* ---------- a ClusterCIDR work item: entries are removed, re-marked, or created with empty pools ---------- *)
Definition from_old (m m' : cidrmap) : Prop :=
  forall x, In x (all_entries m') -> In x (all_entries m) \/ exists c, In c (all_entries m) /\ x = with_term c true.

Lemma ju_with_term (J : cidr -> Prop) e t : JU J e -> JU J (with_term e t).
Proof. intros H f pl Hp. apply (H f pl). destruct f; exact Hp. Qed.

Lemma jm_from_old (J : cidr -> Prop) m m' : from_old m m' -> JM J m -> JM J m'.
Proof. intros Ho Hm x Hx. destruct (Ho x Hx) as [H|(c & Hc & ->)]; [exact (Hm x H)|apply ju_with_term; exact (Hm c Hc)]. Qed.

Lemma delete_from_old m o m' r : delete_cluster_cidr m o = (m', r) -> from_old m m'.
Proof.
  assert (Hrefl : from_old m m) by (intros x Hx; left; exact Hx).
  unfold delete_cluster_cidr. intros H. destruct (o_selkey o) as [k|]; [|inversion H; subst; exact Hrefl].
  destruct (find_key k m) as [l|] eqn:Ef; [|inversion H; subst; exact Hrefl].
  destruct (find_name (o_name o) l 0) as [[i c]|] eqn:En; [|inversion H; subst; exact Hrefl].
  destruct (find_name_spec _ _ _ _ _ En) as (_ & Hn & _). rewrite Nat.sub_0_r in Hn.
  assert (Hc : In c (all_entries m)) by (eapply find_key_in; [exact Ef|eapply nth_error_In; exact Hn]).
  assert (O1 : from_old m (set_entry m (k, i) (with_term c true))).
  { intros x Hx. apply in_set_entry in Hx. destruct Hx as [->|Hx]; [right; exists c; split; [exact Hc|reflexivity]|left; exact Hx]. }
  destruct (cc_assoc c); [|inversion H; subst; exact O1].
  destruct l as [|c0 [|c1 l']]; [cbn in En; discriminate|..]; inversion H; subst; clear H.
  - intros x Hx. apply all_entries_del_key in Hx. apply O1. exact Hx.
  - intros x Hx. apply all_entries_set_key in Hx. destruct Hx as [Hx|Hx]; [|apply O1; exact Hx].
    apply in_remove_nth in Hx. apply in_set_nth in Hx. destruct Hx as [->|Hx]; [right; exists c; split; [exact Hc|reflexivity]|].
    left. eapply find_key_in; eassumption.
Qed.

Lemma remove_deleted_from_old m name : from_old m (remove_deleted m name).
Proof.
  intros x Hx. unfold remove_deleted, all_entries in Hx. apply in_flat_map in Hx. destruct Hx as ([k l] & Hkl & Hx).
  apply in_flat_map in Hkl. destruct Hkl as ([k0 l0] & Hin0 & Hkl).
  assert (Hl0 : forall y, In y l0 -> In y (all_entries m)).
  { intros y Hy. unfold all_entries. apply in_flat_map. exists (k0, l0). split; assumption. }
  cbn [fst snd] in Hkl.
  assert (Hrd : forall y, In y (remove_deleted_in name l0) -> In y (all_entries m) \/ (exists c, In c (all_entries m) /\ y = with_term c true)).
  { intros y Hy. unfold remove_deleted_in in Hy. destruct (find_name name l0 0) as [[i c]|] eqn:En; [|left; apply Hl0; exact Hy].
    destruct (find_name_spec _ _ _ _ _ En) as (_ & Hn & _). rewrite Nat.sub_0_r in Hn.
    destruct (cc_assoc c).
    - apply in_remove_nth in Hy. left. apply Hl0. exact Hy.
    - apply in_set_nth in Hy. destruct Hy as [->|Hy]; [right; exists c; split; [apply Hl0; eapply nth_error_In; exact Hn|reflexivity]|left; apply Hl0; exact Hy]. }
  destruct (remove_deleted_in name l0) as [|y ys] eqn:Er; [destruct Hkl|].
  destruct Hkl as [E|[]]. inversion E; subst. apply Hrd. exact Hx.
Qed.

Theorem jm_sync_cc (J : cidr -> Prop) m key cached out m' r fx : sync_cc m key cached out = (m', r, fx) -> JM J m -> JM J m'.
Proof.
  intros H Hm. unfold sync_cc in H. destruct cached as [o|]; [|inversion H; subst; eapply jm_from_old; [apply remove_deleted_from_old|exact Hm]].
  destruct (o_deleting o).
  - unfold reconcile_delete in H. destruct (delete_cluster_cidr m o) as [m1 r1] eqn:Ed.
    pose proof (jm_from_old J m m1 (delete_from_old _ _ _ _ Ed) Hm) as Hc.
    destruct r1 as [[]|e|]; [destruct (has_str finalizer (o_fins o))|..]; inversion H; subst; exact Hc.
  - unfold reconcile_create in H. destruct (need_finalizer o || negb (is_mapped_obj m o))%bool; [|inversion H; subst; exact Hm].
    eapply jm_create; eassumption.
Qed.

(* ================= the closed loop ================= *)
(* what justifies a block in world w: a configured service range, or a pod CIDR of an existing node *)
Definition Jw (w : world) : cidr -> Prop := fun b =>
  (exists s, In s (svc_list (w_svc w)) /\ overlap b s) \/
  (exists a c cn, In a (w_nodes w) /\ In (PGood c cn) (an_cidrs a) /\ overlap b c).
Definition WJ (w : world) : Prop := forall m, w_ctl w = Some m -> JM (Jw w) m.

(* a copy of a node (informer store, pending notification, fetched work item) shows only pod CIDRs the node of that name holds *)
Definition shows_ok (l : list anode) (y : nodeobj) : Prop :=
  forall pc, In pc (n_cidrs y) -> exists a, In a l /\ an_name a = n_name y /\ In pc (an_cidrs a).

Definition nodes_grow (l l' : list anode) : Prop :=
  forall a, In a l -> exists a', In a' l' /\ an_name a' = an_name a /\ forall pc, In pc (an_cidrs a) -> In pc (an_cidrs a').

Lemma grow_refl l : nodes_grow l l.
Proof. intros a Ha. exists a. repeat split; auto. Qed.
Lemma grow_trans a b c : nodes_grow a b -> nodes_grow b c -> nodes_grow a c.
Proof.
  intros H1 H2 x Hx. destruct (H1 x Hx) as (y & Hy & Hn & Hc). destruct (H2 y Hy) as (z & Hz & Hn2 & Hc2).
  exists z. split; [exact Hz|split; [congruence|intros pc Hpc; apply Hc2; apply Hc; exact Hpc]].
Qed.
Lemma grow_shows l l' y : nodes_grow l l' -> shows_ok l y -> shows_ok l' y.
Proof.
  intros G H pc Hpc. destruct (H pc Hpc) as (a & Ha & Hn & Hc). destruct (G a Ha) as (a' & Ha' & Hn' & Hc').
  exists a'. split; [exact Ha'|split; [congruence|apply Hc'; exact Hc]].
Qed.
Lemma grow_jw w w' b : nodes_grow (w_nodes w) (w_nodes w') -> w_svc w' = w_svc w -> Jw w b -> Jw w' b.
Proof.
  intros G Hs [H|(a & c & cn & Ha & Hc & Ho)]; [left; rewrite Hs; exact H|right].
  destruct (G a Ha) as (a' & Ha' & _ & Hc'). exists a', c, cn. split; [exact Ha'|split; [apply Hc'; exact Hc|exact Ho]].
Qed.
Lemma jm_grow w w' m : nodes_grow (w_nodes w) (w_nodes w') -> w_svc w' = w_svc w -> JM (Jw w) m -> JM (Jw w') m.
Proof. intros G Hs H e He. eapply ju_weaken; [|exact (H e He)]. intros b. apply grow_jw; assumption. Qed.

Lemma grow_upd l a a' : NoDup (map an_name l) -> find_anode (an_name a') l = Some a -> (forall pc, In pc (an_cidrs a) -> In pc (an_cidrs a')) ->
  nodes_grow l (upd_anode a' l).
Proof.
  intros Hnd Hf Hc x Hx. destruct (find_anode_some_in _ _ _ Hf) as [Ha Hn].
  destruct (str_eqb (an_name x) (an_name a')) eqn:E.
  - apply str_eqb_eq in E. assert (x = a).
    { clear - Hnd Hx Ha E Hn. induction l as [|h t IH]; [destruct Hx|]. cbn in Hnd. inversion Hnd; subst.
      destruct Hx as [->|Hx], Ha as [->|Ha]; try reflexivity.
      - exfalso. apply H1. rewrite E, <- Hn. apply in_map. exact Ha.
      - exfalso. apply H1. rewrite Hn, <- E. apply in_map. exact Hx.
      - apply IH; assumption. }
    subst x. exists a'. split; [|split; [symmetry; exact E|exact Hc]].
    clear - Ha Hn. induction l as [|h t IH]; [destruct Ha|]. cbn. destruct Ha as [->|Ha].
    + rewrite Hn, str_eqb_refl. left. reflexivity.
    + destruct (str_eqb (an_name h) (an_name a')); [left; reflexivity|right; apply IH; exact Ha].
  - exists x. split; [|split; [reflexivity|auto]]. apply in_upd_anode_old; [exact Hx|]. intros E2. rewrite E2, str_eqb_refl in E. discriminate.
Qed.

Lemma shows_view l a : In a l -> shows_ok l (node_view a).
Proof. intros Ha pc Hpc. exists a. split; [exact Ha|split; [reflexivity|exact Hpc]]. Qed.

(* the copy part of the invariant *)
Record CP (w : world) : Prop := {
  cp_names : NoDup (map an_name (w_nodes w));
  cp_cache : forall y, In y (w_ncache w) -> shows_ok (w_nodes w) y;
  cp_feed : forall e, In e (w_nfeed w) -> shows_ok (w_nodes w) (nev_node e);
  cp_fetch : forall wk key y, In (wk, (key, Some y)) (w_nfetch w) -> shows_ok (w_nodes w) y
}.

Lemma cp_grow w w' : CP w -> NoDup (map an_name (w_nodes w')) -> nodes_grow (w_nodes w) (w_nodes w') ->
  w_ncache w' = w_ncache w -> (forall e, In e (w_nfeed w') -> In e (w_nfeed w) \/ shows_ok (w_nodes w') (nev_node e)) -> w_nfetch w' = w_nfetch w -> CP w'.
Proof.
  intros [a b c d] Hnd G E1 E2 E3. constructor; [exact Hnd| | |].
  - rewrite E1. intros y Hy. eapply grow_shows; [exact G|exact (b y Hy)].
  - intros e He. destruct (E2 e He) as [H|H]; [eapply grow_shows; [exact G|exact (c e H)]|exact H].
  - rewrite E3. intros wk key y Hy. eapply grow_shows; [exact G|exact (d wk key y Hy)].
Qed.

Lemma in_push_nev' w e x : In x (push_nev w e) -> In x (w_nfeed w) \/ x = e.
Proof. unfold push_nev. destruct (w_synced w); [intros H; apply in_app_or in H; destruct H as [H|[<-|[]]]; auto|auto]. Qed.

Lemma apply_patch_cp w nm cs o : CP w ->
  CP (apply_patch w nm cs o) /\ nodes_grow (w_nodes w) (w_nodes (apply_patch w nm cs o)).
Proof.
  intros C. unfold apply_patch. destruct o; try (split; [exact C|apply grow_refl]);
    (destruct (find_anode nm (w_nodes w)) as [a|] eqn:Ea; [|split; [exact C|apply grow_refl]]; destruct (an_cidrs a) eqn:Ec; [|split; [exact C|apply grow_refl]]).
  all: destruct (find_anode_some_in _ _ _ Ea) as [Hin Hn].
  all: match goal with |- context [upd_anode ?a' _] => set (A' := a') end.
  all: assert (Hf' : find_anode (an_name A') (w_nodes w) = Some a) by (cbn; rewrite Hn; exact Ea).
  all: assert (G : nodes_grow (w_nodes w) (upd_anode A' (w_nodes w))) by (eapply grow_upd; [exact (cp_names w C)|exact Hf'|rewrite Ec; intros pc []]).
  all: split; [|exact G].
  all: apply (cp_grow w); [exact C|cbn [set_api w_nodes]; rewrite upd_anode_names; exact (cp_names w C)|exact G|reflexivity| |reflexivity].
  all: intros e He; cbn [set_api w_nfeed w_nodes] in *; apply in_push_nev' in He; destruct He as [He| ->]; [left; exact He|right].
  all: cbn [nev_node]; apply shows_view; eapply (find_anode_in (an_name A')); eapply find_anode_upd; exact Hf'.
Qed.

Lemma apply_effects_cp fx : forall w, CP w ->
  CP (apply_effects w fx) /\ nodes_grow (w_nodes w) (w_nodes (apply_effects w fx)).
Proof.
  induction fx as [|e fx IH]; intros w C; [split; [exact C|apply grow_refl]|].
  assert (Hsame : forall w1, w_nodes w1 = w_nodes w -> w_ncache w1 = w_ncache w -> w_nfeed w1 = w_nfeed w -> w_nfetch w1 = w_nfetch w ->
            CP (apply_effects w1 fx) /\ nodes_grow (w_nodes w) (w_nodes (apply_effects w1 fx))).
  { intros w1 E1 E2 E3 E4. assert (C1 : CP w1) by (destruct C as [a b c d]; constructor; rewrite ?E1, ?E2, ?E3, ?E4; assumption).
    destruct (IH w1 C1) as [A B]. split; [exact A|rewrite <- E1; exact B]. }
  destruct e as [nd cs po|? ?|? ?|o' out|o' out]; cbn [apply_effects].
  - destruct (apply_patch_cp w nd cs po C) as [C1 G1]. destruct (IH _ C1) as [A B]. split; [exact A|eapply grow_trans; eassumption].
  - apply IH. exact C.
  - apply IH. exact C.
  - apply Hsame; [apply apply_update_cc_nodes|apply apply_update_cc_ncache|apply apply_update_cc_feed|apply apply_update_cc_nfetch3].
  - destruct (apply_create_cc_frame w o' out) as (E1 & E2 & _ & _ & _ & _ & E4 & _ & E5 & _). apply Hsame; assumption.
Qed.

(* ---------- an applied PATCH leaves the node with the pod CIDRs ---------- *)
Definition pgs (cs : list cidr) : list pcidr := map (fun c => PGood c true) cs.

Lemma same_cidrs_eq have cs : same_cidrs have cs = true -> have = pgs cs.
Proof.
  revert cs. induction have as [|h have IH]; intros [|w cs]; cbn; try discriminate; [reflexivity| |].
  - destruct h as [|x cn]; [discriminate|]. destruct cn; discriminate.
  - destruct h as [|x cn]; [discriminate|]. destruct cn; [|discriminate]. intros H. apply andb_prop in H. destruct H as [H1 H2].
    apply cidr_eqb_eq in H1. subst. f_equal. apply IH. exact H2.
Qed.

Section Patched.
  Variable nm : str.
  Variable cs : list cidr.
  Definition nP (w : world) : Prop := exists a, find_anode nm (w_nodes w) = Some a /\ (an_cidrs a = [] \/ an_cidrs a = pgs cs).
  Definition nQ (w : world) : Prop := exists a, find_anode nm (w_nodes w) = Some a /\ an_cidrs a = pgs cs.

  Lemma apply_patch_nP w o : nP w -> nP (apply_patch w nm cs o) /\ ((o = POk \/ o = PTimeoutApplied) -> nQ (apply_patch w nm cs o)).
  Proof.
    intros (a & Ha & Hc). unfold apply_patch.
    assert (Hkeep : nP w) by (exists a; split; assumption).
    destruct o; try (split; [exact Hkeep|intros [E|E]; discriminate E]); rewrite Ha.
    all: destruct (an_cidrs a) as [|pc0 pcs] eqn:Ec.
    all: try (split; [exact Hkeep|intros _; exists a; split; [exact Ha|destruct Hc as [Hc|Hc]; [discriminate Hc|rewrite Ec; exact Hc]]]).
    all: destruct (find_anode_some_in _ _ _ Ha) as [_ Hn].
    all: match goal with |- context [upd_anode ?a' _] => set (A' := a') end.
    all: assert (Hf' : find_anode nm (upd_anode A' (w_nodes w)) = Some A') by (rewrite <- Hn; apply (find_anode_upd A' (w_nodes w) a); cbn; rewrite Hn; exact Ha).
    all: split; [exists A'; split; [exact Hf'|right; reflexivity]|intros _; exists A'; split; [exact Hf'|reflexivity]].
  Qed.

  Lemma apply_patch_nQ w o : nQ w -> nQ (apply_patch w nm cs o).
  Proof.
    intros (a & Ha & Hc). destruct (apply_patch_nP w o ltac:(exists a; split; [exact Ha|right; exact Hc])) as [(a' & Ha' & Hc') _].
    unfold apply_patch in *. destruct o; try (exists a; split; assumption); rewrite Ha in *.
    all: destruct (an_cidrs a) as [|pc0 pcs] eqn:Ec; [|exists a; split; [exact Ha|rewrite Ec; exact Hc]].
    all: exists a'; split; [exact Ha'|]; destruct Hc' as [Hc'|Hc']; [|exact Hc'].
    all: cbn [set_api w_nodes] in Ha'; destruct (find_anode_some_in _ _ _ Ha) as [_ Hn];
      match type of Ha' with find_anode _ (upd_anode ?a1 _) = _ =>
        assert (Hf' : find_anode nm (upd_anode a1 (w_nodes w)) = Some a1) by (rewrite <- Hn; apply (find_anode_upd a1 (w_nodes w) a); cbn; rewrite Hn; exact Ha) end;
      rewrite Hf' in Ha'; inversion Ha'; subst a'; reflexivity.
  Qed.

  Lemma other_effect_nodes e w : (forall nm' cs' o, e <> FxPatch nm' cs' o) -> w_nodes (apply_effects w [e]) = w_nodes w.
  Proof.
    intros Hne. destruct e as [nd c0 po|? ?|? ?|o' out|o' out]; cbn [apply_effects]; try reflexivity.
    - exfalso. eapply Hne. reflexivity.
    - apply apply_update_cc_nodes.
    - apply apply_create_cc_nodes.
  Qed.

  Lemma apply_effects_nQ fx : forall w, (forall nm' cs' o, In (FxPatch nm' cs' o) fx -> nm' = nm /\ cs' = cs) -> nQ w -> nQ (apply_effects w fx).
  Proof.
    induction fx as [|e fx IH]; intros w Hs Q; [exact Q|].
    assert (Hs' : forall nm' cs' o, In (FxPatch nm' cs' o) fx -> nm' = nm /\ cs' = cs) by (intros; eapply Hs; right; eassumption).
    destruct e as [nd c0 po|? ?|? ?|o' out|o' out]; cbn [apply_effects]; try (apply IH; assumption).
    - destruct (Hs nd c0 po (or_introl eq_refl)) as [-> ->]. apply IH; [exact Hs'|apply apply_patch_nQ; exact Q].
    - apply IH; [exact Hs'|]. unfold nQ. rewrite apply_update_cc_nodes. exact Q.
    - apply IH; [exact Hs'|]. unfold nQ. rewrite apply_create_cc_nodes. exact Q.
  Qed.

  Lemma apply_effects_patched fx : forall w, (forall nm' cs' o, In (FxPatch nm' cs' o) fx -> nm' = nm /\ cs' = cs) -> nP w ->
    (exists o, In (FxPatch nm cs o) fx /\ (o = POk \/ o = PTimeoutApplied)) -> nQ (apply_effects w fx).
  Proof.
    induction fx as [|e fx IH]; intros w Hs P (o & Hin & Ho); [destruct Hin|].
    assert (Hs' : forall nm' cs' o, In (FxPatch nm' cs' o) fx -> nm' = nm /\ cs' = cs) by (intros; eapply Hs; right; eassumption).
    destruct Hin as [->|Hin].
    - cbn [apply_effects]. apply apply_effects_nQ; [exact Hs'|]. apply (proj2 (apply_patch_nP w o P)). exact Ho.
    - destruct e as [nd c0 po|? ?|? ?|o' out|o' out]; cbn [apply_effects].
      + destruct (Hs nd c0 po (or_introl eq_refl)) as [-> ->]. apply IH; [exact Hs'|exact (proj1 (apply_patch_nP w po P))|exists o; split; assumption].
      + apply IH; [exact Hs'|exact P|exists o; split; assumption].
      + apply IH; [exact Hs'|exact P|exists o; split; assumption].
      + apply IH; [exact Hs'| |exists o; split; assumption]. unfold nP. rewrite apply_update_cc_nodes. exact P.
      + apply IH; [exact Hs'| |exists o; split; assumption]. unfold nP. rewrite apply_create_cc_nodes. exact P.
  Qed.
End Patched.

(* ---------- a node work item on the world ---------- *)
Section NodeItem.
  Variable po : parse_oracle.
  Variable lab : label_oracle.

  Lemma cp_same w w' : CP w -> w_nodes w' = w_nodes w -> w_ncache w' = w_ncache w -> w_nfeed w' = w_nfeed w -> w_nfetch w' = w_nfetch w -> CP w'.
  Proof. intros [a b c d] E1 E2 E3 E4. constructor; rewrite ?E1, ?E2, ?E3, ?E4; assumption. Qed.
  Lemma cp_crashed w : CP w -> CP (crashed w).
  Proof. intros [a b c d]. constructor; cbn; [exact a|intros y []|intros e []|intros wk key y []]. Qed.
  Lemma after_call_cp {A} w (r : res A) m' : CP w -> CP (after_call w r m').
  Proof. intros C. unfold after_call. destruct r; try (apply cp_crashed; exact C); apply (cp_same w); try reflexivity; exact C. Qed.
  Lemma after_call_nodes {A} w (r : res A) m' : w_nodes (after_call w r m') = w_nodes w /\ w_svc (after_call w r m') = w_svc w.
  Proof. unfold after_call. destruct r; split; reflexivity. Qed.

  Lemma jw_svc w s b : In s (svc_list (w_svc w)) -> overlap b s -> Jw w b.
  Proof. intros Hs Ho. left. exists s. split; assumption. Qed.
  Lemma jw_node w a pc c cn b : In a (w_nodes w) -> In pc (an_cidrs a) -> pc = PGood c cn -> overlap b c -> Jw w b.
  Proof. intros Ha Hpc -> Ho. right. exists a, c, cn. split; [exact Ha|split; [exact Hpc|exact Ho]]. Qed.

  Lemma run_node_sync_c4 W cached key outs :
    WInv W -> WK W -> CP W -> WJ W ->
    (forall y, cached = Some y -> shows_ok (w_nodes W) y /\ n_name y = key /\ wf_node y) ->
    nth_error outs 3 <> Some PFail ->
    CP (fst (run_node_sync po lab W cached key outs)) /\ WJ (fst (run_node_sync po lab W cached key outs)).
  Proof.
    intros I K C Hj Hcached Hamb. unfold run_node_sync. destruct (w_ctl W) as [m|] eqn:Em; [|split; assumption].
    destruct (sync_node po lab (svc_list (w_svc W)) (can_patch W key) (api_same W key) (held_cidrs (w_ncache W)) m cached (find_node key (w_ncache W)) outs)
      as [[m' r] fx] eqn:Es. cbn [fst].
    pose proof (after_call_cp W r m' C) as C1. destruct (apply_effects_cp fx _ C1) as [C' G'].
    destruct (after_call_nodes W r m') as [En1 Es1]. rewrite En1 in G'.
    destruct (apply_effects_cs fx (after_call W r m')) as [Ectl Esvc].
    split; [exact C'|].
    assert (Hsvc' : w_svc (apply_effects (after_call W r m') fx) = w_svc W) by (rewrite Esvc; exact Es1).
    intros mf Emf. rewrite Ectl in Emf.
    assert (Hr : r <> Panic /\ mf = m').
    { unfold after_call in Emf. destruct r; cbn in Emf; try discriminate; inversion Emf; split; [discriminate|reflexivity|discriminate|reflexivity]. }
    destruct Hr as [_ ->].
    pose proof (wi_ctl W I m Em) as M. pose proof (K m Em) as HK.
    destruct (jm_sync_node (Jw W) po lab (svc_list (w_svc W)) (can_patch W key) (api_same W key) (held_cidrs (w_ncache W)) m cached (find_node key (w_ncache W)) outs m' r fx M HK (wi_svc W I)) as [A|(y & cs & Ey & Hcy & Hdy & Hne & A & Hkr)].
    - intros n En. exact (proj2 (proj2 (Hcached n En))).
    - intros s Hs b Hb. eapply jw_svc; eassumption.
    - intros y c cn Ey _ _ Hc b Hb. destruct (Hcached y Ey) as (Hsh & _ & _). destruct (Hsh _ Hc) as (a & Ha & _ & Hpa). eapply jw_node; try eassumption. reflexivity.
    - exact Es.
    - exact (Hj m Em).
    - eapply jm_grow; [exact G'|exact Hsvc'|exact A].
    - (* the reservation was kept: the node now holds the pod CIDRs *)
      destruct (Hcached y Ey) as (Hsh & Hname & _).
      intros e He. eapply ju_weaken; [|exact (A e He)]. intros b [Hb|(x & Hx & Hov)]; [eapply grow_jw; eassumption|].
      assert (Hpx : In (PGood x true) (pgs cs)) by (unfold pgs; apply (in_map (fun c => PGood c true) cs x Hx)).
      destruct Hkr as [(n & Hn & Hsame)|[(o & Hin & Ho & Hcan)|[Hapi|Hf]]].
      + (* the re-read under the lock shows them already *)
        pose proof (find_node_in _ _ _ Hn) as Hnc. pose proof (cp_cache W C n Hnc) as Hshn.
        assert (Hpn : In (PGood x true) (n_cidrs n)) by (rewrite (same_cidrs_eq _ _ Hsame); exact Hpx). destruct (Hshn _ Hpn) as (a & Ha & _ & Hpa).
        destruct (G' a Ha) as (a' & Ha' & _ & Hc'). eapply jw_node; [exact Ha'|apply Hc'; exact Hpa|reflexivity|exact Hov].
      + (* a write was applied *)
        rewrite Hname in Hin.
        assert (HP : nP key cs (after_call W r m')).
        { unfold nP. rewrite En1. unfold can_patch in Hcan. destruct (find_anode key (w_nodes W)) as [a|]; [|discriminate]. exists a. split; [reflexivity|].
          destruct (an_cidrs a) as [|pc0 pcs] eqn:Ec; [left; reflexivity|right; apply same_cidrs_eq; exact Hcan]. }
        assert (Hs : forall nm' cs' o', In (FxPatch nm' cs' o') fx -> nm' = key /\ cs' = cs).
        { intros nm' cs' o' Hin'. exact (sync_node_patches_same _ _ _ _ _ _ _ _ _ _ _ _ _ Es _ _ _ _ _ _ Hin' Hin). }
        destruct (apply_effects_patched key cs fx _ Hs HP ltac:(exists o; split; assumption)) as (a' & Ha' & Hc').
        eapply jw_node; [eapply find_anode_in; exact Ha'|rewrite Hc'; exact Hpx|reflexivity|exact Hov].
      + (* the API server shows them *)
        unfold api_same in Hapi. destruct (find_anode key (w_nodes W)) as [a|] eqn:Ea; [|discriminate].
        destruct (an_cidrs a) as [|pc0 pcs] eqn:Ec; [discriminate|]. rewrite <- Ec in Hapi. apply same_cidrs_eq in Hapi.
        destruct (G' a (find_anode_in _ _ _ Ea)) as (a' & Ha' & _ & Hc'). eapply jw_node; [exact Ha'|apply Hc'; rewrite Hapi; exact Hpx|reflexivity|exact Hov].
      + contradiction.
  Qed.
End NodeItem.

(* ---------- every step ---------- *)
Section C04Step.
  Variable po : parse_oracle.
  Variable lab : label_oracle.

  Lemma wj_same w w' : WJ w -> w_ctl w' = w_ctl w -> w_nodes w' = w_nodes w -> w_svc w' = w_svc w -> WJ w'.
  Proof.
    intros H E1 E2 E3 m Em. rewrite E1 in Em. intros e He. eapply ju_weaken; [|exact (H m Em e He)].
    intros b [Hb|Hb]; [left; rewrite E3; exact Hb|right; rewrite E2; exact Hb].
  Qed.
  Lemma wj_none w : w_ctl w = None -> WJ w.
  Proof. intros E m Em. rewrite E in Em. discriminate. Qed.
  Lemma wj_grow w w' : WJ w -> w_ctl w' = w_ctl w -> nodes_grow (w_nodes w) (w_nodes w') -> w_svc w' = w_svc w -> WJ w'.
  Proof. intros H E1 G E3 m Em. rewrite E1 in Em. eapply jm_grow; [exact G|exact E3|exact (H m Em)]. Qed.

  Lemma handle_nevent_c4 W e : WInv W -> CP W -> WJ W -> shows_ok (w_nodes W) (nev_node e) -> wf_node (nev_node e) ->
    CP (fst (handle_nevent W e)) /\ WJ (fst (handle_nevent W e)) /\ w_nodes (fst (handle_nevent W e)) = w_nodes W.
  Proof.
    intros I C Hj Hsh Hwf. unfold handle_nevent. destruct e as [n|n|n]; cbn [nev_node] in *.
    - assert (C1 : CP (set_caches W (put_node n (w_ncache W)) (w_ccache W) (w_nfeed W) (w_cfeed W))).
      { destruct C as [a b c d]. constructor; cbn; try assumption. intros y Hy. apply in_put_node in Hy. destruct Hy as [->|[Hy _]]; [exact Hsh|exact (b y Hy)]. }
      cbn [set_caches w_ctl]. destruct (w_ctl W) eqn:Em; cbn [fst]; (split; [apply (cp_same _ _ C1); reflexivity|split; [apply (wj_same W); try reflexivity; try exact Hj; cbn; exact Em|reflexivity]]).
    - assert (C1 : CP (set_caches W (put_node n (w_ncache W)) (w_ccache W) (w_nfeed W) (w_cfeed W))).
      { destruct C as [a b c d]. constructor; cbn; try assumption. intros y Hy. apply in_put_node in Hy. destruct Hy as [->|[Hy _]]; [exact Hsh|exact (b y Hy)]. }
      cbn [set_caches w_ctl]. destruct (w_ctl W) eqn:Em; cbn [fst]; (split; [apply (cp_same _ _ C1); reflexivity|split; [apply (wj_same W); try reflexivity; try exact Hj; cbn; exact Em|reflexivity]]).
    - assert (C1 : CP (set_caches W (del_node (n_name n) (w_ncache W)) (w_ccache W) (w_nfeed W) (w_cfeed W))).
      { destruct C as [a b c d]. constructor; cbn; try assumption. intros y Hy. unfold del_node in Hy. apply filter_In in Hy. exact (b y (proj1 Hy)). }
      cbn [set_caches w_ctl]. destruct (w_ctl W) as [m|] eqn:Em.
      + destruct (release_cidr (svc_list (w_svc W)) m n) as [m' r] eqn:Er.
        assert (Hm' : JM (Jw W) m').
        { eapply (jm_release_cidr (Jw W)); [exact (wi_ctl W I m Em)|exact (wi_svc W I)|exact Hwf| |exact Er|exact (Hj m Em)].
          intros s Hs b Hb. left. exists s. split; assumption. }
        destruct r; cbn [fst]; try (split; [apply cp_crashed; exact C1|split; [apply wj_none; reflexivity|reflexivity]]);
          (split; [apply (cp_same _ _ C1); reflexivity|split; [|reflexivity]]); intros mf Emf; cbn in Emf; inversion Emf; subst; exact Hm'.
      + cbn [fst]. split; [exact C1|split; [apply wj_none; cbn; exact Em|reflexivity]].
  Qed.

  Lemma deliver_all_n_c4 es : forall W acc, WInv W -> CP W -> WJ W -> (forall e, In e es -> shows_ok (w_nodes W) (nev_node e) /\ wf_node (nev_node e)) ->
    CP (fst (deliver_all_n W es acc)) /\ WJ (fst (deliver_all_n W es acc)).
  Proof.
    induction es as [|e es IH]; intros W acc I C Hj Hes; cbn [deliver_all_n]; [split; assumption|].
    destruct (Hes e (or_introl eq_refl)) as [Hsh Hwf].
    destruct (handle_nevent_c4 W e I C Hj Hsh Hwf) as (C1 & J1 & N1).
    pose proof (handle_nevent_winv W e I Hwf) as I1.
    destruct (handle_nevent W e) as [w1 ob]. cbn [fst] in *.
    destruct (ob_res ob =? 3); [split; assumption|]. apply IH; try assumption.
    intros e' He'. rewrite N1. apply Hes. right. exact He'.
  Qed.

  Definition c04_op (o : op) : Prop :=
    match o with
    | UDeleteNode _ => False
    | RunNode _ outs | ProcNode outs => nth_error outs 3 <> Some PFail
    | _ => True
    end.

  Record C4 (w : world) : Prop := { c4_cp : CP w; c4_wj : WJ w }.

  Lemma c4_same w w' : C4 w -> w_nodes w' = w_nodes w -> w_ncache w' = w_ncache w -> w_nfeed w' = w_nfeed w -> w_nfetch w' = w_nfetch w ->
    w_ctl w' = w_ctl w -> w_svc w' = w_svc w -> C4 w'.
  Proof. intros [C J] E1 E2 E3 E4 E5 E6. split; [apply (cp_same w); assumption|apply (wj_same w); assumption]. Qed.

  Lemma run_cc_sync_c4 W key cached out : C4 W -> C4 (fst (run_cc_sync W key cached out)).
  Proof.
    intros [C Hj]. unfold run_cc_sync. destruct (w_ctl W) as [m|] eqn:Em; [|split; assumption].
    match goal with |- context [sync_cc m key cached ?o] => destruct (sync_cc m key cached o) as [[m' r] fx] eqn:Es end. cbn [fst].
    set (W1 := after_call W r m').
    set (W2 := match cached with
               | Some o => if (o_deleting o && negb (has_str (o_name o) (w_delseen W1)))%bool then set_delseen W1 (o_name o :: w_delseen W1) else W1
               | None => W1 end).
    assert (E2 : w_nodes W2 = w_nodes W /\ w_svc W2 = w_svc W /\ w_ctl W2 = w_ctl W1 /\ CP W2).
    { pose proof (after_call_cp W r m' C) as C1. destruct (after_call_nodes W r m') as [A B]. unfold W2.
      destruct cached as [o|]; [destruct (o_deleting o && negb (has_str (o_name o) (w_delseen W1)))%bool|].
      - split; [exact A|]. split; [exact B|]. split; [reflexivity|]. apply (cp_same W1); try reflexivity; exact C1.
      - split; [exact A|]. split; [exact B|]. split; [reflexivity|exact C1].
      - split; [exact A|]. split; [exact B|]. split; [reflexivity|exact C1]. }
    destruct E2 as (En & Esv & Ect & C2).
    destruct (apply_effects_cp fx W2 C2) as [C' G']. rewrite En in G'.
    destruct (apply_effects_cs fx W2) as [Ectl Esvc].
    split; [exact C'|]. intros mf Emf. rewrite Ectl, Ect in Emf.
    assert (mf = m' /\ r <> Panic) by (unfold W1, after_call in Emf; destruct r; cbn in Emf; try discriminate; inversion Emf; split; [reflexivity|discriminate|reflexivity|discriminate]).
    destruct H as [-> _]. eapply jm_grow; [exact G'|rewrite Esvc; exact Esv|]. eapply jm_sync_cc; [exact Es|exact (Hj m Em)].
  Qed.

  Lemma handle_cevent_frame w e :
    let w' := fst (handle_cevent w e) in
    w_nodes w' = w_nodes w /\ w_ncache w' = w_ncache w /\ w_nfeed w' = w_nfeed w /\ w_nfetch w' = w_nfetch w /\ w_ctl w' = w_ctl w /\ w_svc w' = w_svc w.
  Proof. unfold handle_cevent. destruct e; cbn [set_caches w_ctl]; destruct (w_ctl w) eqn:Em; cbn; repeat split; try reflexivity; first [exact Em|symmetry; exact Em]. Qed.

  Lemma deliver_all_c_c4 es : forall w, C4 w -> C4 (deliver_all_c w es).
  Proof.
    induction es as [|e es IH]; intros w H; cbn [deliver_all_c]; [exact H|]. apply IH.
    destruct (handle_cevent_frame w e) as (A & B & C & D & E & F). apply (c4_same w); assumption.
  Qed.

  Lemma svc_in s1 s2 s : (s1 = Some s \/ s2 = Some s) -> In s (svc_list (s1, s2)).
  Proof. intros [->| ->]; unfold svc_list; cbn [fst snd]; [left; reflexivity|apply in_or_app; right; left; reflexivity]. Qed.

  Lemma set_caches_feed_winv w rest : WInv w -> (forall x, In x rest -> In x (w_nfeed w)) ->
    WInv (set_caches w (w_ncache w) (w_ccache w) rest (w_cfeed w)).
  Proof.
    intros I H. destruct I as [a b c d e f g h i j]. constructor; cbn; try assumption.
    rewrite Forall_forall in *. intros x Hx. apply c. apply H. exact Hx.
  Qed.
  Lemma set_fetch_winv w nf cf : WInv w -> (forall x, In x nf -> In x (w_nfetch w)) -> (forall x, In x cf -> In x (w_cfetch w)) -> WInv (set_fetch w nf cf).
  Proof.
    intros I H1 H2. destruct I as [a b c d e f g h i j]. constructor; cbn; try assumption.
    - intros wk key n Hn. eapply g. apply H1. exact Hn.
    - intros wk key o Ho. eapply h. apply H2. exact Ho.
  Qed.

  Theorem step_c4 w o : WInv w -> WK w -> fetch_ok w -> C4 w -> wf_op o -> c04_op o -> C4 (fst (step po lab w o)).
  Proof.
    intros I K Hfo [C Hj] Ho Hc. pose proof (conj C Hj) as HC. assert (HC4 : C4 w) by (split; assumption).
    destruct o; cbn [step wf_op c04_op] in *.
    - (* UCreateNode *)
      destruct (find_anode name (w_nodes w)) eqn:Ef; [exact HC4|]. cbn [fst].
      set (a := mkANode name ls cs false).
      assert (G : nodes_grow (w_nodes w) (w_nodes w ++ [a])) by (intros x Hx; exists x; split; [apply in_or_app; left; exact Hx|split; [reflexivity|auto]]).
      split.
      + apply (cp_grow w); [exact C| |exact G|reflexivity| |reflexivity].
        * cbn [set_api w_nodes]. rewrite map_app. cbn. apply NoDup_app_snoc; [exact (cp_names w C)|apply find_anode_none; exact Ef].
        * intros e He. cbn [set_api w_nfeed w_nodes] in *. apply in_push_nev' in He. destruct He as [He| ->]; [left; exact He|right].
          cbn [nev_node]. apply shows_view. apply in_or_app. right. left. reflexivity.
      + apply (wj_grow w); [exact Hj|reflexivity|exact G|reflexivity].
    - (* ULabelNode *)
      destruct (find_anode name (w_nodes w)) as [a0|] eqn:Ef; [|exact HC4]. cbn [fst].
      destruct (find_anode_some_in _ _ _ Ef) as [Hin Hn].
      match goal with |- context [upd_anode ?a' _] => set (A' := a') end.
      assert (Hf' : find_anode (an_name A') (w_nodes w) = Some a0) by (cbn; exact Ef).
      assert (G : nodes_grow (w_nodes w) (upd_anode A' (w_nodes w))) by (eapply grow_upd; [exact (cp_names w C)|exact Hf'|cbn; auto]).
      split.
      + apply (cp_grow w); [exact C|cbn [set_api w_nodes]; rewrite upd_anode_names; exact (cp_names w C)|exact G|reflexivity| |reflexivity].
        intros e He. cbn [set_api w_nfeed w_nodes] in *. apply in_push_nev' in He. destruct He as [He| ->]; [left; exact He|right].
        cbn [nev_node]. apply shows_view. eapply (find_anode_in (an_name A')). eapply find_anode_upd. exact Hf'.
      + apply (wj_grow w); [exact Hj|reflexivity|exact G|reflexivity].
    - (* UDeleteNode *) contradiction.
    - (* UMarkNodeDeleting *)
      destruct (find_anode name (w_nodes w)) as [a0|] eqn:Ef; [|exact HC4]. cbn [fst].
      destruct (find_anode_some_in _ _ _ Ef) as [Hin Hn].
      match goal with |- context [upd_anode ?a' _] => set (A' := a') end.
      assert (Hf' : find_anode (an_name A') (w_nodes w) = Some a0) by (cbn; exact Ef).
      assert (G : nodes_grow (w_nodes w) (upd_anode A' (w_nodes w))) by (eapply grow_upd; [exact (cp_names w C)|exact Hf'|cbn; auto]).
      split.
      + apply (cp_grow w); [exact C|cbn [set_api w_nodes]; rewrite upd_anode_names; exact (cp_names w C)|exact G|reflexivity| |reflexivity].
        intros e He. cbn [set_api w_nfeed w_nodes] in *. apply in_push_nev' in He. destruct He as [He| ->]; [left; exact He|right].
        cbn [nev_node]. apply shows_view. eapply (find_anode_in (an_name A')). eapply find_anode_upd. exact Hf'.
      + apply (wj_grow w); [exact Hj|reflexivity|exact G|reflexivity].
    - (* UCreateCC *) destruct (find_cc (o_name o) (w_ccs w)); [exact HC4|]. apply (c4_same w); try reflexivity; exact HC4.
    - (* UDeleteCC *)
      destruct (find_cc name (w_ccs w)) as [c|]; [|exact HC4]. destruct (o_fins c); [apply (c4_same w); try reflexivity; exact HC4|].
      destruct (o_deleting c); [exact HC4|apply (c4_same w); try reflexivity; exact HC4].
    - (* USetCCFinalizers *)
      destruct (find_cc name (w_ccs w)) as [c|]; [|exact HC4].
      match goal with |- context [if ?b then _ else _] => destruct b end; apply (c4_same w); try reflexivity; exact HC4.
    - (* DeliverNode *)
      destruct (w_nfeed w) as [|e rest] eqn:Ef; [exact HC4|].
      set (W0 := set_caches w (w_ncache w) (w_ccache w) rest (w_cfeed w)).
      assert (C0 : CP W0) by (destruct C as [a b c d]; constructor; cbn; try assumption; intros e' He'; apply c; rewrite Ef; right; exact He').
      assert (I0 : WInv W0) by (apply set_caches_feed_winv; [exact I|rewrite Ef; intros x Hx; right; exact Hx]).
      destruct (handle_nevent_c4 W0 e I0 C0 (wj_same w W0 Hj eq_refl eq_refl eq_refl)) as (A & B & _).
      + apply (cp_feed w C). rewrite Ef. left. reflexivity.
      + pose proof (wi_nfeed w I) as F. rewrite Ef in F. inversion F; assumption.
      + split; assumption.
    - (* DeliverNodeTombstone *)
      destruct (w_nfeed w) as [|[n|n|n] rest] eqn:Ef; try exact HC4.
      set (W0 := set_caches w (w_ncache w) (w_ccache w) rest (w_cfeed w)).
      assert (C0 : CP W0) by (destruct C as [a b c d]; constructor; cbn; try assumption; intros e' He'; apply c; rewrite Ef; right; exact He').
      assert (I0 : WInv W0) by (apply set_caches_feed_winv; [exact I|rewrite Ef; intros x Hx; right; exact Hx]).
      match goal with |- context [handle_nevent W0 (NDel ?l)] => set (last := l) end.
      destruct (handle_nevent_c4 W0 (NDel last) I0 C0 (wj_same w W0 Hj eq_refl eq_refl eq_refl)) as (A & B & _).
      + cbn [nev_node]. unfold last. destruct (find_node (n_name n) (w_ncache w)) as [c|] eqn:Efn.
        * exact (cp_cache w C c (find_node_in _ _ _ Efn)).
        * apply (cp_feed w C (NDel n)). rewrite Ef. left. reflexivity.
      + cbn [nev_node]. unfold last. destruct (find_node (n_name n) (w_ncache w)) as [c|] eqn:Efn.
        * pose proof (wi_ncache w I) as F. rewrite Forall_forall in F. exact (F c (find_node_in _ _ _ Efn)).
        * pose proof (wi_nfeed w I) as F. rewrite Ef in F. inversion F; assumption.
      + split; assumption.
    - (* DeliverCC *)
      destruct (w_cfeed w) as [|e rest]; [exact HC4|].
      match goal with |- C4 (fst (handle_cevent ?W0 e)) => destruct (handle_cevent_frame W0 e) as (A & B & D & E & F & G) end.
      apply (c4_same w); try assumption.
    - (* ResyncNodes *) destruct (w_ctl w); [|exact HC4]. apply (c4_same w); try reflexivity; exact HC4.
    - (* ResyncCCs *) destruct (w_ctl w); [|exact HC4]. apply (c4_same w); try reflexivity; exact HC4.
    - (* RelistNodes *)
      destruct (w_synced w); [|exact HC4].
      set (W0 := set_caches w (w_ncache w) (w_ccache w) [] (w_cfeed w)).
      assert (C0 : CP W0) by (destruct C as [a b c d]; constructor; cbn; try assumption; intros e' []).
      assert (I0 : WInv W0) by (apply set_caches_feed_winv; [exact I|intros x []]).
      destruct (deliver_all_n_c4 (relist_nevents w) W0 0 I0 C0 (wj_same w W0 Hj eq_refl eq_refl eq_refl)) as [A B]; [|split; assumption].
      intros e He. unfold relist_nevents in He. apply in_app_or in He. destruct He as [He|He].
      + apply in_map_iff in He. destruct He as (a & <- & Ha). cbn [nev_node]. split; [apply shows_view; exact Ha|apply wf_node_view; eapply in_anodes_wf; eassumption].
      + apply in_flat_map in He. destruct He as (k & _ & He). destruct (find_anode k (w_nodes w)); [destruct He|].
        destruct (find_node k (w_ncache w)) as [n|] eqn:Efn; [|destruct He]. destruct He as [<-|[]]. cbn [nev_node].
        split; [exact (cp_cache w C n (find_node_in _ _ _ Efn))|]. pose proof (wi_ncache w I) as F. rewrite Forall_forall in F. exact (F n (find_node_in _ _ _ Efn)).
    - (* RelistCCs *)
      destruct (w_synced w); [|exact HC4]. cbn [fst]. apply deliver_all_c_c4. apply (c4_same w); try reflexivity; exact HC4.
    - (* FetchNode *)
      cbn [fst]. split; [|apply (wj_same w); try reflexivity; exact Hj].
      destruct C as [a b c d]. constructor; cbn; try assumption. intros wk key0 y [E|Hy].
      + inversion E; subst. exact (b y (find_node_in _ _ _ H2)).
      + apply filter_In in Hy. exact (d wk key0 y (proj1 Hy)).
    - (* RunNode *)
      destruct (find (fun x => fst x =? w0) (w_nfetch w)) as [[wk [key cached]]|] eqn:Efd; [|exact HC4].
      apply find_some in Efd. destruct Efd as [Hin _].
      set (W1 := set_fetch w (filter (fun x => negb (fst x =? w0)) (w_nfetch w)) (w_cfetch w)).
      assert (C1 : CP W1) by (destruct C as [a b c d]; constructor; cbn; try assumption; intros wk' key' y Hy; apply filter_In in Hy; exact (d wk' key' y (proj1 Hy))).
      assert (I1 : WInv W1) by (apply set_fetch_winv; [exact I|intros x Hx; apply filter_In in Hx; apply Hx|intros x Hx; exact Hx]).
      assert (K1 : WK W1) by (intros m0 E0; apply K; exact E0).
      assert (J1 : WJ W1) by (apply (wj_same w); try reflexivity; exact Hj).
      assert (Hca : forall y, cached = Some y -> shows_ok (w_nodes W1) y /\ n_name y = key /\ wf_node y).
      { intros y ->. split; [exact (cp_fetch w C wk key y Hin)|]. split; [exact (Hfo wk key y Hin)|exact (wi_nfetch w I wk key y Hin)]. }
      destruct (run_node_sync_c4 po lab W1 cached key outs I1 K1 C1 J1 Hca Hc) as [A B]. split; assumption.
    - (* FetchCC *) apply (c4_same w); try reflexivity; exact HC4.
    - (* RunCC *)
      destruct (find (fun x => fst x =? w0) (w_cfetch w)) as [[wk [key cached]]|]; [|exact HC4].
      apply run_cc_sync_c4. apply (c4_same w); try reflexivity; exact HC4.
    - (* ProcNode *)
      destruct (w_ctl w) as [m|] eqn:Em; [|exact HC4]. destruct (q_ready (w_nq w)) as [|key rest]; [exact HC4|].
      set (W1 := set_queues w (mkQ rest (q_retry (w_nq w))) (w_cq w)).
      assert (HW : CP (fst (run_node_sync po lab W1 (find_node key (w_ncache W1)) key outs)) /\ WJ (fst (run_node_sync po lab W1 (find_node key (w_ncache W1)) key outs))).
      { assert (I1 : WInv W1) by (apply set_queues_winv; exact I).
        assert (K1 : WK W1) by (intros m0 E0; apply K; exact E0).
        assert (C1 : CP W1) by (apply (cp_same w); try reflexivity; exact C).
        assert (J1 : WJ W1) by (apply (wj_same w); try reflexivity; exact Hj).
        apply (run_node_sync_c4 po lab W1 _ key outs I1 K1 C1 J1); [|exact Hc].
        intros y Hy. cbn [W1 set_queues w_ncache] in Hy. split; [exact (cp_cache w C y (find_node_in _ _ _ Hy))|]. split; [eapply find_node_name; exact Hy|].
        pose proof (wi_ncache w I) as F. rewrite Forall_forall in F. exact (F y (find_node_in _ _ _ Hy)). }
      destruct (run_node_sync po lab W1 (find_node key (w_ncache W1)) key outs) as [w2 ob2]. cbn [fst] in HW.
      destruct (ob_res ob2 =? 2); cbn [fst]; [|split; apply HW]. apply (c4_same w2); try reflexivity. split; apply HW.
    - (* ProcCC *)
      destruct (w_ctl w) as [m|] eqn:Em; [|exact HC4]. destruct (q_ready (w_cq w)) as [|key rest]; [exact HC4|].
      match goal with |- context [run_cc_sync ?w1 ?k ?c ?o] =>
        assert (HW : C4 (fst (run_cc_sync w1 k c o))) by (apply run_cc_sync_c4; apply (c4_same w); try reflexivity; exact HC4);
        destruct (run_cc_sync w1 k c o) as [w2 ob2] end.
      cbn [fst] in HW. destruct (ob_res ob2 =? 2); cbn [fst]; [|exact HW]. apply (c4_same w2); try reflexivity; exact HW.
    - (* Tick *) apply (c4_same w); try reflexivity; exact HC4.
    - (* Crash *) cbn [fst]. split; [apply cp_crashed; exact C|apply wj_none; reflexivity].
    - (* Construct *)
      destruct (w_ctl w) as [m0|] eqn:Em; [exact HC4|].
      destruct (construct po lab (with_default dp (w_ccs w)) outs svc1 svc2 (map node_view (w_nodes w))) as [[m fx] pan] eqn:Ec. cbn [fst].
      destruct Ho as (H1 & H2 & Hdp).
      set (W0 := mkWorld (w_nodes w) (w_ccs w) (w_rv w) [] [] [] [] empty_q empty_q (if pan then None else Some m) false [] [] (svc1, svc2) (w_delseen w)).
      assert (C0 : CP W0) by (constructor; cbn; [exact (cp_names w C)|intros y []|intros e []|intros wk key y []]).
      destruct (apply_effects_cp fx W0 C0) as [C' G']. destruct (apply_effects_cs fx W0) as [Ectl Esvc].
      split; [exact C'|]. intros mf Emf. rewrite Ectl in Emf. cbn in Emf. destruct pan; [discriminate|]. inversion Emf; subst mf.
      eapply jm_grow; [exact G'|exact Esvc|].
      assert (Hgood : Forall good_obj (with_default dp (w_ccs w))) by (apply with_default_good; [exact Hdp|exact (wi_ccs w I)]).
      assert (Hwn : Forall wf_node (map node_view (w_nodes w))).
      { rewrite Forall_forall. intros n Hn. apply in_map_iff in Hn. destruct Hn as (a & <- & Ha). apply wf_node_view. eapply in_anodes_wf; eassumption. }
      intros e He f pl Hp b Hb.
      destruct (construct_resurrects_nothing po lab _ outs svc1 svc2 _ m fx false Hgood Hwn H1 H2 Ec e He f pl Hp b Hb) as [(s & Hs & Hov)|(n & c & cn & Hn & Hcn & Hov)].
      + left. exists s. split; [cbn [W0 w_svc]; apply svc_in; exact Hs|exact Hov].
      + right. apply in_map_iff in Hn. destruct Hn as (a & <- & Ha). exists a, c, cn. split; [exact Ha|split; [exact Hcn|exact Hov]].
    - (* StartInformers *)
      destruct (w_ctl w) as [m|] eqn:Em; [|exact HC4]. destruct (w_synced w); [exact HC4|]. cbn [fst]. split.
      + destruct C as [a b c d]. constructor; cbn; try assumption; [|intros e []].
        intros y Hy. apply in_map_iff in Hy. destruct Hy as (x & <- & Hx). apply shows_view. exact Hx.
      + apply (wj_same w); try reflexivity; [exact Hj|cbn; symmetry; exact Em].
  Qed.
End C04Step.

Section C04History.
  Variable po : parse_oracle.
  Variable lab : label_oracle.

  Theorem run_c4 ops : forall w, WInv w -> WK w -> fetch_ok w -> C4 w -> Forall wf_op ops -> Forall c04_op ops -> C4 (run po lab w ops).
  Proof.
    induction ops as [|o ops IH]; intros w I K F H Hw Hc; [exact H|]. inversion Hw; subst. inversion Hc; subst.
    unfold run. cbn [fold_left]. apply IH; try assumption.
    - apply step_winv; assumption.
    - exact (proj1 (step_no_panic po lab w o I K H2)).
    - apply step_fetch_ok. exact F.
    - apply step_c4; assumption.
  Qed.

  Lemma c4_init : C4 init_world.
  Proof. split; [constructor; cbn; [constructor|intros y []|intros e []|intros wk key y []]|apply wj_none; reflexivity]. Qed.

  (* C04: in every world reached by a history of well-formed operations in which no node is deleted and no read-back after
     timed-out writes fails, every block in use in any pool of the controller overlaps a configured service range or a pod
     CIDR of an existing node *)
  Theorem used_blocks_are_justified_in_every_history ops :
    Forall wf_op ops -> Forall c04_op ops ->
    let w := run po lab init_world ops in
    forall m, w_ctl w = Some m -> forall e, In e (all_entries m) -> forall f pl, pool_of e f = Some pl -> forall b, In b (used pl) ->
      (exists s, In s (svc_list (w_svc w)) /\ overlap b s) \/
      (exists a c cn, In a (w_nodes w) /\ In (PGood c cn) (an_cidrs a) /\ overlap b c).
  Proof.
    intros Hw Hc w m Em e He f pl Hp b Hb.
    assert (H : C4 w) by (apply run_c4; [apply winv_init|intros m0 E0; discriminate E0|apply fetch_ok_init|apply c4_init|exact Hw|exact Hc]).
    exact (c4_wj w H m Em e He f pl Hp b Hb).
  Qed.
End C04History.

(* ---------- the decidable reading of "justified", for counterexamples ---------- *)
Definition used_blocks (w : world) : list cidr :=
  match w_ctl w with
  | Some m => flat_map (fun e => (match cc_v4 e with Some p => used p | None => [] end) ++ (match cc_v6 e with Some p => used p | None => [] end)) (all_entries m)
  | None => []
  end.
Definition justb (w : world) (b : cidr) : bool :=
  existsb (overlapb b) (svc_list (w_svc w)) ||
  existsb (fun a => existsb (fun pc => match pc with PGood c _ => overlapb b c | PBad => false end) (an_cidrs a)) (w_nodes w).

Lemma justb_complete w b : WInv w -> wf_cidr b -> Jw w b -> justb w b = true.
Proof.
  intros I Hb [(s & Hs & Ho)|(a & c & cn & Ha & Hc & Ho)]; unfold justb; apply Bool.orb_true_iff.
  - left. apply existsb_exists. exists s. split; [exact Hs|]. apply overlapb_spec; [exact Hb| |exact Ho].
    pose proof (wi_svc w I) as F. rewrite Forall_forall in F. exact (F s Hs).
  - right. apply existsb_exists. exists a. split; [exact Ha|]. apply existsb_exists. exists (PGood c cn). split; [exact Hc|].
    apply overlapb_spec; [exact Hb| |exact Ho].
    pose proof (wi_nodes w I) as F. rewrite Forall_forall in F. pose proof (F a Ha) as Hwa. unfold wf_anode in Hwa. rewrite Forall_forall in Hwa. exact (Hwa _ Hc).
Qed.
