(* Alloc.v -- the controller (multi_cidr_range_allocator.go) as functions on its shared state.
   One function per Go function, same control flow; every input the Go code obtains from its
   environment (lister reads, results of API writes, library parsers) is an explicit argument.
   Definitions only. *)
From NIPAM Require Export Pool Prio Sel.
Open Scope N_scope.

(* ---------- objects as the controller sees them ---------- *)
(* netutil.ParseCIDRSloppy on a podCIDR string; canon = the string is the canonical print of the value
   (updateCIDRsAllocation compares strings) *)
Inductive pcidr := PBad | PGood (c : cidr) (canon : bool).

Record nodeobj := mkNode {
  n_name : str;
  n_labels : labels;
  n_cidrs : list pcidr;        (* spec.podCIDRs *)
  n_deleting : bool            (* deletionTimestamp set *)
}.

(* spec.ipv4 / spec.ipv6 *)
Inductive fieldparse := FEmpty | FBad | FOk (c : cidr).

Record ccobj := mkCCObj {
  o_name : str;
  o_v4 : fieldparse;
  o_v6 : fieldparse;
  o_hb : Z;                    (* spec.perNodeHostBits *)
  o_selkey : option str;       (* nodeSelectorKey: None = the selector cannot be represented *)
  o_fins : list str;           (* metadata.finalizers *)
  o_deleting : bool;           (* deletionTimestamp set *)
  o_gen : N;                   (* metadata.generation *)
  o_rv : N;                    (* resourceVersion as a number; 0 = empty *)
  o_rest : N                   (* everything else, opaque *)
}.

Definition finalizer : str :=   (* networking.x-k8s.io/cluster-cidr-finalizer *)
  [110;101;116;119;111;114;107;105;110;103;46;120;45;107;56;115;46;105;111;47;99;108;117;115;116;101;114;45;99;105;100;114;45;102;105;110;97;108;105;122;101;114].

(* "kubernetes.io/clusterCIDR in (default)" : the printed default selector *)
Definition default_key : str :=
  default_key_label ++ [32;105;110;32;40] ++ default_value ++ [41].

Definition has_str (s : str) (l : list str) : bool := existsb (str_eqb s) l.
Definition remove_str (s : str) (l : list str) : list str := filter (fun x => negb (str_eqb s x)) l.

(* ---------- shared state ---------- *)
Record ccset := mkCC {
  cc_name : str;
  cc_v4 : option pool;
  cc_v6 : option pool;
  cc_assoc : list str;         (* AssociatedNodes *)
  cc_term : bool;              (* Terminating *)
  cc_start : bool              (* ghost: mapped by the constructor (its ClusterCIDR was known at start-up) *)
}.

Definition cidrmap := list (str * list ccset).   (* selector key -> entries (Go map; key order is irrelevant) *)

Definition path := (str * nat)%type.              (* an entry: key and position in the key's slice *)

Inductive errkind :=
| ENoMatch | EParse | EOccupy | ENoPool | EExhausted | ENoAvail | ENotFound | ENoAssoc | ERelease
| EPatch | ESelector | EInvalid | EUpdate | EBusy | EBadKey.

Inductive res (A : Type) := Ok (a : A) | Err (e : errkind) | Panic.
Arguments Ok {A}. Arguments Err {A}. Arguments Panic {A}.

(* observable effects of one controller call, in order *)
Inductive patch_outcome := POk | PFail | PTimeoutApplied | PTimeoutNotApplied.
Inductive upd_outcome := UOk | UFail | UAppliedErr.
Inductive effect :=
| FxPatch (node : str) (cs : list cidr) (o : patch_outcome)
| FxEvent (reason : N) (obj : str)               (* 1 CIDRNotAvailable, 2 CIDRAssignmentFailed *)
| FxGetNode (node : str) (ok : bool)             (* read-back of the node after a timed out write *)
| FxUpdateCC (o' : ccobj) (outcome : upd_outcome)
| FxCreateCC (o' : ccobj) (outcome : upd_outcome).

(* ---------- map access ---------- *)
Fixpoint find_key (k : str) (m : cidrmap) : option (list ccset) :=
  match m with
  | [] => None
  | (k', l) :: m' => if str_eqb k k' then Some l else find_key k m'
  end.

Fixpoint set_key (k : str) (l : list ccset) (m : cidrmap) : cidrmap :=
  match m with
  | [] => [(k, l)]
  | (k', l') :: m' => if str_eqb k k' then (k, l) :: m' else (k', l') :: set_key k l m'
  end.

Fixpoint del_key (k : str) (m : cidrmap) : cidrmap :=
  match m with
  | [] => []
  | (k', l') :: m' => if str_eqb k k' then m' else (k', l') :: del_key k m'
  end.

Definition get_entry (m : cidrmap) (p : path) : option ccset :=
  match find_key (fst p) m with Some l => nth_error l (snd p) | None => None end.

Fixpoint set_nth {A} (n : nat) (x : A) (l : list A) : list A :=
  match l, n with
  | [], _ => []
  | _ :: t, O => x :: t
  | h :: t, S n' => h :: set_nth n' x t
  end.

Definition set_entry (m : cidrmap) (p : path) (c : ccset) : cidrmap :=
  match find_key (fst p) m with Some l => set_key (fst p) (set_nth (snd p) c l) m | None => m end.

Definition all_entries (m : cidrmap) : list ccset := flat_map snd m.

Definition pool_of (c : ccset) (f : fam) : option pool := match f with V4 => cc_v4 c | V6 => cc_v6 c end.
Definition with_pool (c : ccset) (f : fam) (p : pool) : ccset :=
  match f with
  | V4 => mkCC (cc_name c) (Some p) (cc_v6 c) (cc_assoc c) (cc_term c) (cc_start c)
  | V6 => mkCC (cc_name c) (cc_v4 c) (Some p) (cc_assoc c) (cc_term c) (cc_start c)
  end.
Definition with_assoc (c : ccset) (a : list str) : ccset := mkCC (cc_name c) (cc_v4 c) (cc_v6 c) a (cc_term c) (cc_start c).
Definition with_term (c : ccset) (t : bool) : ccset := mkCC (cc_name c) (cc_v4 c) (cc_v6 c) (cc_assoc c) t (cc_start c).

(* allocator.Occupy / Release (578-617), with the nil-pool guard added by the repair of D1 *)
Definition cc_occupy (c : ccset) (x : cidr) : res ccset :=
  match pool_of c (cf x) with
  | None => Err ENoPool
  | Some p => match occupy p x with Some p' => Ok (with_pool c (cf x) p') | None => Err EOccupy end
  end.

Definition cc_release (c : ccset) (x : cidr) : res ccset :=
  match pool_of c (cf x) with
  | None => Err ENoPool
  | Some p => match release p x with Some p' => Ok (with_pool c (cf x) p') | None => Err ERelease end
  end.

(* ---------- ordering of matching entries (925-982) ---------- *)
Definition parse_oracle := str -> option (list req).    (* labels.Parse on a map key *)

Definition pview_of (p : pool) (label : str) : pview := mkPview (pmax p) (gnlen (pg p)) label.

(* the printed range of a pool (MultiCIDRSet.Label) enters through [label_of] *)
Definition label_oracle := cidr -> str.                 (* net.IPNet.String of a range *)

Definition item_of (lab : label_oracle) (cnt : N) (key : str) (c : ccset) : item :=
  mkItem cnt key
    (option_map (fun p => pview_of p (lab (grange (pg p)))) (cc_v4 c))
    (option_map (fun p => pview_of p (lab (grange (pg p)))) (cc_v6 c)).

Fixpoint enum_from {A} (n : nat) (l : list A) : list (nat * A) :=
  match l with [] => [] | x :: t => (n, x) :: enum_from (S n) t end.

Definition pitem := (item * path)%type.
Definition pitem_less (a b : pitem) : bool := less (fst a) (fst b).

(* the loop over r.cidrMap: None = a key did not parse (matchCIDRLabels error) *)
Fixpoint collect_items (po : parse_oracle) (lab : label_oracle) (ls : labels) (occ : bool) (m : cidrmap)
  : option (list pitem) :=
  match m with
  | [] => Some []
  | (k, ents) :: m' =>
      match po k with
      | None => None
      | Some rs =>
          let '(ok, cnt) := match_reqs ls rs in
          match collect_items po lab ls occ m' with
          | None => None
          | Some rest =>
              if ok then
                Some (map (fun ic => (item_of lab cnt k (snd ic), (k, fst ic)))
                          (filter (fun ic => negb occ || negb (cc_term (snd ic))) (enum_from 0 ents)) ++ rest)
              else Some rest
          end
      end
  end.

Definition ordered_matching (po : parse_oracle) (lab : label_oracle) (m : cidrmap) (ls : labels) (occ : bool)
  : res (list path) :=
  match collect_items po lab ls occ m with
  | None => Err EBadKey
  | Some items =>
      if forallb (fun it => has_pool (fst it)) items then
        let sorted := map snd (sort_by pitem_less items) in
        (* the catch-all entries; terminating ones are skipped when occupying (repair of D5) *)
        let dflt := match find_key default_key m with
                    | Some ents => map (fun ic => (default_key, fst ic))
                                       (filter (fun ic => negb occ || negb (cc_term (snd ic))) (enum_from 0 ents))
                    | None => []
                    end in
        Ok (sorted ++ dflt)
      else Panic   (* Less would dereference a nil pool *)
  end.

(* ---------- occupyCIDRs (523-575) ---------- *)
Inductive occ_out := OAll | OBreak | OParse.

(* inner loop over node.Spec.PodCIDRs for one entry; changes made before a break or a parse
   error stay (they were made through the pointer) *)
Fixpoint occupy_list (c : ccset) (cs : list pcidr) : ccset * occ_out :=
  match cs with
  | [] => (c, OAll)
  | PBad :: _ => (c, OParse)
  | PGood x _ :: cs' =>
      match cc_occupy c x with
      | Ok c' => occupy_list c' cs'
      | _ => (c, OBreak)
      end
  end.

Definition add_assoc (name : str) (c : ccset) : ccset :=
  with_assoc c (if has_str name (cc_assoc c) then cc_assoc c else name :: cc_assoc c).
Definition del_assoc (name : str) (c : ccset) : ccset := with_assoc c (remove_str name (cc_assoc c)).

(* canOccupyAll: every CIDR meets the range the entry has for its family (repair of D8); an
   unparseable CIDR is left to the loop below to report *)
Fixpoint can_occupy_all (c : ccset) (cs : list pcidr) : bool :=
  match cs with
  | [] => true
  | PBad :: _ => true
  | PGood x _ :: cs' =>
      match pool_of c (cf x) with
      | None => false
      | Some p => overlapb (grange (pg p)) x && can_occupy_all c cs'
      end
  end.

Fixpoint occupy_try (m : cidrmap) (node : nodeobj) (ps : list path) : cidrmap * res unit :=
  match ps with
  | [] => (m, Err EOccupy)
  | p :: ps' =>
      match get_entry m p with
      | None => (m, Panic)
      | Some c =>
          if negb (can_occupy_all c (n_cidrs node)) then occupy_try m node ps' else
          match occupy_list c (n_cidrs node) with
          | (c', OParse) => (set_entry m p c', Err EParse)
          | (c', OAll) => (set_entry m p (add_assoc (n_name node) c'), Ok tt)
          | (c', OBreak) => occupy_try (set_entry m p c') node ps'   (* unreachable after can_occupy_all for pools of the domain *)
          end
      end
  end.

Definition occupy_cidrs (po : parse_oracle) (lab : label_oracle) (m : cidrmap) (node : nodeobj) : cidrmap * res unit :=
  match n_cidrs node with
  | [] => (m, Ok tt)
  | _ =>
      (* terminating entries are considered too: the node does use these CIDRs (repair of D19) *)
      match ordered_matching po lab m (n_labels node) false with
      | Err e => (m, Err e)
      | Panic => (m, Panic)
      | Ok [] => (m, Err ENoMatch)
      | Ok ps => occupy_try m node ps
      end
  end.

(* ---------- allocateCIDR (848-877) ---------- *)
(* cidrInAllocatedList || cidrOverlapWithAllocatedList: some pool of the candidate's family, in any
   entry, has a used key equal to / overlapping the candidate *)
Definition in_allocated_list (m : cidrmap) (x : cidr) : bool :=
  existsb (fun c => match pool_of c (cf x) with Some p => mem_cidr x (used p) | None => false end) (all_entries m).
Definition overlaps_allocated (m : cidrmap) (x : cidr) : bool :=
  existsb (fun c => match pool_of c (cf x) with Some p => existsb (overlapb x) (used p) | None => false end) (all_entries m).

Inductive alloc_state :=
| ARun (evaluated : N) (m : cidrmap)
| ADone (m : cidrmap) (r : res cidr).

(* cidrInUseByNode: the candidate overlaps a (parseable) pod CIDR of some node in the node cache
   (repair of D4); [held] = those pod CIDRs *)
Definition in_use_by_node (held : list cidr) (x : cidr) : bool := existsb (overlapb x) held.

(* one iteration of `for evaluated := 0; evaluated < MaxCIDRs; evaluated++` *)
Definition alloc_step (held : list cidr) (p : path) (f : fam) (st : alloc_state) : alloc_state :=
  match st with
  | ADone _ _ => st
  | ARun ev m =>
      match get_entry m p with
      | None => ADone m Panic
      | Some c =>
          match pool_of c f with
          | None => ADone m Panic
          | Some pl =>
              if pmax pl <=? ev then ADone m (Err EExhausted)       (* loop condition fails *)
              else
                match next_candidate pl with
                | Exhausted _ => ADone m (Err EExhausted)
                | Cand blk sk pl' =>
                    let c1 := with_pool c f pl' in
                    let m1 := set_entry m p c1 in
                    let ev1 := ev + sk in
                    if in_allocated_list m1 blk || overlaps_allocated m1 blk || in_use_by_node held blk then ARun (ev1 + 1) m1
                    else
                      match cc_occupy c1 blk with
                      | Ok c2 => ADone (set_entry m1 p c2) (Ok blk)
                      | Err e => ADone m1 (Err e)
                      | Panic => ADone m1 Panic
                      end
                end
          end
      end
  end.

Definition allocate_cidr (held : list cidr) (m : cidrmap) (p : path) (f : fam) : cidrmap * res cidr :=
  let fuel := match get_entry m p with
              | Some c => match pool_of c f with Some pl => pmax pl + 1 | None => 1 end
              | None => 1 end in
  match N.iter fuel (alloc_step held p f) (ARun 0 m) with
  | ADone m' r => (m', r)
  | ARun _ m' => (m', Err EExhausted)    (* unreachable: the loop condition fails within pmax+1 steps *)
  end.

(* ---------- prioritizedCIDRs (817-846), with the release of the IPv4 block when the IPv6 pool is
   exhausted (repair of D7) ---------- *)
Fixpoint prioritized_try (held : list cidr) (m : cidrmap) (ps : list path) : cidrmap * res (list cidr * path) :=
  match ps with
  | [] => (m, Err ENoAvail)
  | p :: ps' =>
      match get_entry m p with
      | None => (m, Panic)
      | Some c =>
          let '(m1, r4) := match cc_v4 c with
                           | Some _ => let '(m', r) := allocate_cidr held m p V4 in (m', match r with Ok x => Ok [x] | Err e => Err e | Panic => Panic end)
                           | None => (m, Ok [])
                           end in
          match r4 with
          | Panic => (m1, Panic)
          | Err _ => prioritized_try held m1 ps'
          | Ok c4 =>
              match cc_v6 c with
              | None => (m1, Ok (c4, p))
              | Some _ =>
                  match allocate_cidr held m1 p V6 with
                  | (m2, Ok x6) => (m2, Ok (c4 ++ [x6], p))
                  | (m2, Panic) => (m2, Panic)
                  | (m2, Err _) =>
                      (* give the tentative IPv4 block back *)
                      let m3 := match c4, get_entry m2 p with
                                | [x4], Some c' => match cc_release c' x4 with Ok c'' => set_entry m2 p c'' | _ => m2 end
                                | _, _ => m2
                                end in
                      prioritized_try held m3 ps'
                  end
              end
          end
      end
  end.

Definition prioritized_cidrs (po : parse_oracle) (lab : label_oracle) (held : list cidr) (m : cidrmap) (node : nodeobj)
  : cidrmap * res (list cidr * path) :=
  match ordered_matching po lab m (n_labels node) true with
  | Err e => (m, Err e)
  | Panic => (m, Panic)
  | Ok ps => prioritized_try held m ps
  end.

(* ---------- updateCIDRsAllocation (730-793) ---------- *)
Fixpoint release_list (c : ccset) (xs : list cidr) : res ccset :=
  match xs with
  | [] => Ok c
  | x :: xs' => match cc_release c x with Ok c' => release_list c' xs' | Err e => Err e | Panic => Panic end
  end.

Definition release_in (m : cidrmap) (p : path) (xs : list cidr) : cidrmap * res unit :=
  match get_entry m p with
  | None => (m, Panic)
  | Some c => match release_list c xs with
              | Ok c' => (set_entry m p c', Ok tt)
              | Err e => (m, Err e)     (* the Go loop keeps earlier releases; blocks of our own pool never fail to release *)
              | Panic => (m, Panic)
              end
  end.

(* does the node (as re-read under the lock) already show exactly the proposed CIDRs? (string comparison) *)
Fixpoint same_cidrs (have : list pcidr) (want : list cidr) : bool :=
  match have, want with
  | [], [] => true
  | PGood h true :: have', w :: want' => cidr_eqb h w && same_cidrs have' want'
  | _, _ => false
  end.

(* the PATCH loop: up to cidrUpdateRetries = 3 attempts, one scripted outcome per attempt
   (a missing outcome counts as a clean failure) *)
(* [canp]: would the API server accept this PATCH at all (the node exists and its podCIDRs are
   empty or already equal)?  If not, the attempt fails cleanly whatever the script says. *)
Fixpoint patch_loop (canp : bool) (name : str) (cs : list cidr) (outs : list patch_outcome) (n : nat) : bool * list effect :=
  match n with
  | O => (false, [])
  | S n' =>
      let o := if canp then match outs with o :: _ => o | [] => PFail end else PFail in
      match o with
      | POk => (true, [FxPatch name cs POk])
      | _ => let '(ok, fx) := patch_loop canp name cs (tl outs) n' in (ok, FxPatch name cs o :: fx)
      end
  end.

Definition update_cidrs_allocation (canp apisame : list cidr -> bool) (m : cidrmap) (name : str) (cs : list cidr) (p : path)
           (reread : option nodeobj) (outs : list patch_outcome) : cidrmap * res unit * list effect :=
  match reread with
  | None =>
      (* node vanished between the fetch and the re-read: give the reservation back (repair of D16) *)
      let '(m', _) := release_in m p cs in (m', Err ENotFound, [])
  | Some n =>
      if (length (n_cidrs n) =? length cs)%nat && same_cidrs (n_cidrs n) cs then
        (* already written (an earlier attempt went through): record the association (repair of D17) *)
        match get_entry m p with
        | Some c => (set_entry m p (add_assoc name c), Ok tt, [])
        | None => (m, Panic, [])
        end
      else match n_cidrs n with
           | _ :: _ => let '(m', r) := release_in m p cs in (m', r, [])
           | [] =>
               let '(ok, fx) := patch_loop (canp cs) name cs outs 3 in
               if ok then
                 match get_entry m p with
                 | Some c => (set_entry m p (add_assoc name c), Ok tt, fx)
                 | None => (m, Panic, fx)
                 end
               else
                 (* a timed-out attempt may have been applied (repair of D9): the node is read back from the
                    API server (the 4th scripted outcome; missing = the read succeeds).  It has the CIDRs:
                    success.  It does not: release as for a clean failure.  The read fails too: the
                    reservation and the association are kept. *)
                 let timedout := existsb (fun e => match e with
                                                   | FxPatch _ _ PTimeoutApplied | FxPatch _ _ PTimeoutNotApplied => true
                                                   | _ => false end) fx in
                 let applied := existsb (fun e => match e with FxPatch _ _ PTimeoutApplied => true | _ => false end) fx in
                 let release_path (fx' : list effect) :=
                   let '(m', r) := release_in m p cs in
                   (m', match r with Ok _ => Err EPatch | e => e end, fx' ++ [FxEvent 2 name]) in
                 if timedout then
                   match nth_error outs 3 with
                   | Some PFail =>
                       match get_entry m p with
                       | Some c => (set_entry m p (add_assoc name c), Err EPatch, fx ++ [FxGetNode name false; FxEvent 2 name])
                       | None => (m, Panic, fx)
                       end
                   | _ =>
                       if apisame cs || applied then
                         match get_entry m p with
                         | Some c => (set_entry m p (add_assoc name c), Ok tt, fx ++ [FxGetNode name true])
                         | None => (m, Panic, fx)
                         end
                       else release_path (fx ++ [FxGetNode name true])
                   end
                 else release_path fx
           end
  end.

(* ---------- AllocateOrOccupyCIDR (625-658) ---------- *)
Definition allocate_or_occupy (po : parse_oracle) (lab : label_oracle) (canp apisame : list cidr -> bool) (held : list cidr) (m : cidrmap) (node : nodeobj)
           (reread : option nodeobj) (outs : list patch_outcome) : cidrmap * res unit * list effect :=
  match n_cidrs node with
  | _ :: _ =>
      (* the node vanished from the cache while the item waited for the lock: nothing to occupy (repair of D20) *)
      match reread with
      | None => (m, Ok tt, [])
      | Some _ => let '(m', r) := occupy_cidrs po lab m node in (m', r, [])
      end
  | [] =>
      match prioritized_cidrs po lab held m node with
      | (m', Err e) => (m', Err e, [FxEvent 1 (n_name node)])
      | (m', Panic) => (m', Panic, [])
      | (m', Ok ([], _)) => (m', Err ENoAvail, [FxEvent 1 (n_name node)])
      | (m', Ok (cs, p)) => update_cidrs_allocation canp apisame m' (n_name node) cs p reread outs
      end
  end.

(* ---------- ReleaseCIDR (661-690): the node's CIDRs are released from EVERY entry it is associated
   with, whatever its labels are now (repair of D10/D11); entries are visited by selector key, then
   position ---------- *)
(* ---------- service ranges (694-727), with the nil-pool guard (repair of D3') ---------- *)
Definition occupy_service (c : ccset) (svc : cidr) : ccset :=
  match pool_of c (cf svc) with
  | None => c
  | Some p => if overlapb (grange (pg p)) svc then match cc_occupy c svc with Ok c' => c' | _ => c end else c
  end.

(* after the release of a pod CIDR from an entry, the service ranges are occupied in it again: the released pod
   CIDR may have covered part of a service range (repair of D22) *)
Definition occupy_services (c : ccset) (svcs : list cidr) : ccset := fold_left occupy_service svcs c.

Fixpoint release_pcidrs (svcs : list cidr) (c : ccset) (cs : list pcidr) : ccset * res unit :=
  match cs with
  | [] => (c, Ok tt)
  | PBad :: _ => (c, Err EParse)
  | PGood x _ :: cs' => match cc_release c x with
                        | Ok c' => release_pcidrs svcs (occupy_services c' svcs) cs'
                        | Err e => (c, Err e)
                        | Panic => (c, Panic)
                        end
  end.

Definition assoc_paths (m : cidrmap) (name : str) : list path :=
  flat_map (fun k => match find_key k m with
                     | Some l => map (fun ic => (k, fst ic))
                                     (filter (fun ic => has_str name (cc_assoc (snd ic))) (enum_from 0 l))
                     | None => []
                     end)
           (sort_by str_ltb (map fst m)).

Fixpoint release_all (svcs : list cidr) (m : cidrmap) (node : nodeobj) (ps : list path) : cidrmap * res unit :=
  match ps with
  | [] => (m, Ok tt)
  | p :: ps' =>
      match get_entry m p with
      | None => (m, Panic)
      | Some c =>
          match release_pcidrs svcs c (n_cidrs node) with
          | (c', Ok _) => release_all svcs (set_entry m p (del_assoc (n_name node) c')) node ps'
          | (c', e) => (set_entry m p c', e)
          end
      end
  end.

Definition release_cidr (svcs : list cidr) (m : cidrmap) (node : nodeobj) : cidrmap * res unit :=
  match n_cidrs node with
  | [] => (m, Ok tt)
  | _ =>
      match assoc_paths m (n_name node) with
      | [] => (m, Err ENoAssoc)
      | ps => release_all svcs m node ps
      end
  end.

(* ---------- syncNode (468-490): cached = what nodeLister.Get returned to syncNode ---------- *)
Definition sync_node (po : parse_oracle) (lab : label_oracle) (svcs : list cidr) (canp apisame : list cidr -> bool) (held : list cidr) (m : cidrmap) (cached : option nodeobj)
           (reread : option nodeobj) (outs : list patch_outcome) : cidrmap * res unit * list effect :=
  match cached with
  | None => (m, Ok tt, [])
  | Some node =>
      if n_deleting node then let '(m', r) := release_cidr svcs m node in (m', r, [])
      else allocate_or_occupy po lab canp apisame held m node reread outs
  end.

(* ---------- ClusterCIDR handling (1087-1282) ---------- *)
(* createClusterCIDRSet (1172-1202); since the repair of D3 a range of the wrong family in a field
   is rejected here, and NewMultiCIDRSet rejects unusable host bits *)
Definition mk_pool (want : fam) (fp : fieldparse) (hb : Z) : res (option pool) :=
  match fp with
  | FEmpty => Ok None
  | FBad => Err EInvalid
  | FOk c =>
      if negb (fam_eqb (cf c) want) then Err EInvalid
      else match new_pool (cf c) (ca c) (cl c) hb with NewOk p => Ok (Some p) | NewErr => Err EInvalid end
  end.

Definition create_set (o : ccobj) (term start : bool) : res ccset :=
  match mk_pool V4 (o_v4 o) (o_hb o) with
  | Err e => Err e | Panic => Panic
  | Ok p4 =>
      match mk_pool V6 (o_v6 o) (o_hb o) with
      | Err e => Err e | Panic => Panic
      | Ok p6 => Ok (mkCC (o_name o) p4 p6 [] term start)
      end
  end.

Definition map_set (m : cidrmap) (k : str) (c : ccset) : cidrmap :=
  match find_key k m with
  | Some l => set_key k (l ++ [c]) m
  | None => m ++ [(k, [c])]
  end.

(* is an entry of that name already filed under the key? (mapping is idempotent per name: repair of D6) *)
Definition is_mapped (m : cidrmap) (k : str) (name : str) : bool :=
  match find_key k m with
  | Some l => existsb (fun c => str_eqb (cc_name c) name) l
  | None => false
  end.

Definition need_finalizer (o : ccobj) : bool := negb (o_deleting o) && negb (has_str finalizer (o_fins o)).

Definition with_fins (o : ccobj) (f : list str) : ccobj :=
  mkCCObj (o_name o) (o_v4 o) (o_v6 o) (o_hb o) (o_selkey o) f (o_deleting o) (o_gen o) (o_rv o) (o_rest o).

(* createClusterCIDR (1128-1169).  At bootstrap the entry is mapped first and the object is always
   written back; otherwise the finalizer is persisted first and the entry is mapped only when that
   write succeeded (or was not needed): repair of D6/D6b/D6c. *)
Definition create_cluster_cidr (m : cidrmap) (o : ccobj) (term bootstrap : bool) (out : upd_outcome)
  : cidrmap * res unit * list effect :=
  match o_selkey o with
  | None => (m, Err ESelector, [])
  | Some k =>
      match create_set o term bootstrap with
      | Err e => (m, Err e, [])
      | Panic => (m, Panic, [])
      | Ok c =>
          match cc_v4 c, cc_v6 c with
          | None, None => (m, Err EInvalid, [])
          | _, _ =>
              (* mapping is idempotent per name under the selector *)
              let mapped := if is_mapped m k (o_name o) then m else map_set m k c in
              let o' := if need_finalizer o then with_fins o (o_fins o ++ [finalizer]) else o in
              let fx := if o_rv o =? 0 then FxCreateCC o' out else FxUpdateCC o' out in
              if bootstrap then
                (mapped, match out with UOk => Ok tt | _ => Err EUpdate end, [fx])
              else if need_finalizer o then
                match out with
                | UOk => (mapped, Ok tt, [fx])
                | _ => (m, Err EUpdate, [fx])
                end
              else (mapped, Ok tt, [])
          end
      end
  end.

Definition is_mapped_obj (m : cidrmap) (o : ccobj) : bool :=
  match o_selkey o with Some k => is_mapped m k (o_name o) | None => false end.

Definition reconcile_create (m : cidrmap) (o : ccobj) (out : upd_outcome) : cidrmap * res unit * list effect :=
  if need_finalizer o || negb (is_mapped_obj m o) then create_cluster_cidr m o false false out else (m, Ok tt, []).

(* reconcileBootstrap (1105-1125); an object that is being deleted is mapped as terminating
   (repair of D12) *)
Definition reconcile_bootstrap (m : cidrmap) (o : ccobj) (out : upd_outcome) : cidrmap * res unit * list effect :=
  create_cluster_cidr m o ((1 <? o_gen o) || o_deleting o) true out.

(* deleteClusterCIDR (1244-1282) *)
Fixpoint find_name (name : str) (l : list ccset) (i : nat) : option (nat * ccset) :=
  match l with
  | [] => None
  | c :: l' => if str_eqb (cc_name c) name then Some (i, c) else find_name name l' (S i)
  end.

Fixpoint remove_nth {A} (n : nat) (l : list A) : list A :=
  match l, n with
  | [], _ => []
  | _ :: t, O => t
  | h :: t, S n' => h :: remove_nth n' t
  end.

Definition delete_cluster_cidr (m : cidrmap) (o : ccobj) : cidrmap * res unit :=
  match o_selkey o with
  | None => (m, Err ESelector)
  | Some k =>
      match find_key k m with
      | None => (m, Ok tt)
      | Some l =>
          match find_name (o_name o) l 0 with
          | None => (m, Ok tt)
          | Some (i, c) =>
              let m1 := set_entry m (k, i) (with_term c true) in
              match cc_assoc c with
              | _ :: _ => (m1, Err EBusy)
              | [] => match l with
                      | [_] => (del_key k m1, Ok tt)
                      | _ => (set_key k (remove_nth i (set_nth i (with_term c true) l)) m1, Ok tt)
                      end
              end
          end
      end
  end.

(* reconcileDelete (1220-1241): the entry is marked terminating and unmapped whether or not the
   finalizer is on the object (repair of D18); the finalizer is removed when present *)
Definition reconcile_delete (m : cidrmap) (o : ccobj) (out : upd_outcome) : cidrmap * res unit * list effect :=
  match delete_cluster_cidr m o with
  | (m', Ok _) =>
      if has_str finalizer (o_fins o) then
        let o' := with_fins o (remove_str finalizer (o_fins o)) in
        (m', match out with UOk => Ok tt | _ => Err EUpdate end, [FxUpdateCC o' out])
      else (m', Ok tt, [])
  | (m', e) => (m', e, [])
  end.

(* removeDeletedClusterCIDR: the object no longer exists (it was deleted before the finalizer could be
   persisted: repair of D6b).  Per selector the first entry of that name is marked terminating and,
   unless nodes are still associated with it, removed. *)
Definition remove_deleted_in (name : str) (l : list ccset) : list ccset :=
  match find_name name l 0 with
  | None => l
  | Some (i, c) =>
      match cc_assoc c with
      | _ :: _ => set_nth i (with_term c true) l
      | [] => remove_nth i l
      end
  end.

Definition remove_deleted (m : cidrmap) (name : str) : cidrmap :=
  flat_map (fun kl => match remove_deleted_in name (snd kl) with [] => [] | l => [(fst kl, l)] end) m.

(* syncClusterCIDR (498-520) *)
Definition sync_cc (m : cidrmap) (key : str) (cached : option ccobj) (out : upd_outcome) : cidrmap * res unit * list effect :=
  match cached with
  | None => (remove_deleted m key, Ok tt, [])
  | Some o => if o_deleting o then reconcile_delete m o out else reconcile_create m o out
  end.

(* ---------- service ranges (694-727): [occupy_service] is defined before [release_all] ---------- *)
Definition filter_service (m : cidrmap) (svc : cidr) : cidrmap :=
  map (fun kl => (fst kl, map (fun c => occupy_service c svc) (snd kl))) m.

(* ---------- createDefaultClusterCIDR (1183-1254): the --cluster-cidr / --node-cidr-mask-size* flags become a ClusterCIDR
   object named default-cluster-cidr, without selector, appended to the start-up listing unless an object of that name
   is listed already.  [dp]: the configured ranges, each with its per-node mask size. ---------- *)
Definition default_name : str :=   (* default-cluster-cidr *)
  [100;101;102;97;117;108;116;45;99;108;117;115;116;101;114;45;99;105;100;114].
Definition min_hb : Z := 4%Z.
Definition min_int32 : Z := (-2147483648)%Z.

Record dflt_acc := mkDA { da_v4 : fieldparse; da_v6 : fieldparse; da_hb : Z; da_h4 : Z; da_h6 : Z }.

Definition dflt_one (dual : bool) (a : dflt_acc) (cm : cidr * Z) : dflt_acc :=
  let '(c, mask) := cm in
  match cf c with
  | V4 => let h := (32 - mask)%Z in
          mkDA (FOk c) (da_v6 a) (if negb dual && (min_hb <? h)%Z then h else da_hb a) h (da_h6 a)
  | V6 => let h := (128 - mask)%Z in
          mkDA (da_v4 a) (FOk c) (if negb dual && (min_hb <? h)%Z then h else da_hb a) (da_h4 a) h
  end.

Definition default_cc_obj (dp : list (cidr * Z)) : ccobj :=
  let dual := Nat.eqb (length dp) 2 in
  let a := fold_left (dflt_one dual) dp (mkDA FEmpty FEmpty min_hb min_int32 min_int32) in
  let hb := if dual then
              if (min_hb <=? da_h4 a)%Z && (da_h4 a <=? da_h6 a)%Z then da_h4 a
              else if (min_hb <=? da_h6 a)%Z && (da_h6 a <=? 32)%Z then da_h6 a
              else da_hb a
            else da_hb a in
  mkCCObj default_name (da_v4 a) (da_v6 a) hb (Some default_key) [] false 0 0 0.

Definition with_default (dp : list (cidr * Z)) (ccs : list ccobj) : list ccobj :=
  match dp with
  | [] => ccs
  | _ => if existsb (fun o => str_eqb (o_name o) default_name) ccs then ccs else ccs ++ [default_cc_obj dp]
  end.

(* ---------- construction (158-318): bootstrap of the listed ClusterCIDRs, service ranges, occupation
   of the listed nodes ---------- *)
Fixpoint bootstrap_ccs (m : cidrmap) (os : list ccobj) (outs : list upd_outcome) : cidrmap * list effect :=
  match os with
  | [] => (m, [])
  | o :: os' =>
      let out := match outs with x :: _ => x | [] => UOk end in
      let '(m1, _, fx) := reconcile_bootstrap m o out in
      let '(m2, fx2) := bootstrap_ccs m1 os' (tl outs) in (m2, fx ++ fx2)
  end.

Fixpoint occupy_nodes (po : parse_oracle) (lab : label_oracle) (m : cidrmap) (ns : list nodeobj) : cidrmap * bool :=
  (* bool: a panic happened *)
  match ns with
  | [] => (m, false)
  | n :: ns' =>
      match n_cidrs n with
      | [] => occupy_nodes po lab m ns'
      | _ => match occupy_cidrs po lab m n with
             | (m', Panic) => (m', true)
             | (m', _) => occupy_nodes po lab m' ns'
             end
      end
  end.

Definition construct (po : parse_oracle) (lab : label_oracle) (ccs : list ccobj) (outs : list upd_outcome)
           (svc1 svc2 : option cidr) (nodes : list nodeobj) : cidrmap * list effect * bool :=
  let '(m1, fx) := bootstrap_ccs [] ccs outs in
  let m2 := match svc1 with Some s => filter_service m1 s | None => m1 end in
  let m3 := match svc2 with Some s => filter_service m2 s | None => m2 end in
  let '(m4, pan) := occupy_nodes po lab m3 nodes in
  (m4, fx, pan).
