(* BitLemmas.v -- general facts about N bit operations used by the geometry proofs. *)
From Coq Require Import NArith ZArith Lia ZifyN ZifyBool.
Open Scope N_scope.
Local Ltac Zify.zify_post_hook ::= Z.div_mod_to_equations.

(* [aligned k x] hides a mod-fact from lia (mod terms make zify slow) *)
Definition aligned (k x : N) : Prop := x mod 2 ^ k = 0.

(* lia on a context cleaned of div/mod/bit-operation facts (they make zify very slow) *)
Ltac hide_nl :=
  repeat match goal with
  | H : context [N.div _ _] |- _ => clear H
  | H : context [N.modulo _ _] |- _ => clear H
  | H : context [N.lxor _ _] |- _ => clear H
  | H : context [N.lor _ _] |- _ => clear H
  | H : context [N.shiftr _ _] |- _ => clear H
  | H : context [N.shiftl _ _] |- _ => clear H
  end.
Ltac slia := hide_nl; lia.

Lemma pow2_pos (k : N) : 0 < 2 ^ k.
Proof. apply N.neq_0_lt_0, N.pow_nonzero; discriminate. Qed.

Lemma pow2_split (a b : N) : b <= a -> 2 ^ a = 2 ^ (a - b) * 2 ^ b.
Proof. intros H. rewrite <- N.pow_add_r. f_equal. lia. Qed.

Lemma pow2_le (a b : N) : a <= b -> 2 ^ a <= 2 ^ b.
Proof. intros H. apply N.pow_le_mono_r; [discriminate|exact H]. Qed.

Lemma pow2_lt (a b : N) : a < b -> 2 ^ a < 2 ^ b.
Proof. intros H. apply N.pow_lt_mono_r; [reflexivity|exact H]. Qed.

Lemma land_disjoint (a b k : N) : a mod 2 ^ k = 0 -> b < 2 ^ k -> N.land a b = 0.
Proof.
  intros Ha Hb. apply N.bits_inj_0. intros n. rewrite N.land_spec.
  destruct (N.lt_ge_cases n k) as [Hn|Hn].
  - assert (Hbit : N.testbit a n = false).
    { assert (Hm : N.testbit (a mod 2 ^ k) n = N.testbit a n) by (apply N.mod_pow2_bits_low; exact Hn).
      rewrite <- Hm, Ha. apply N.bits_0. }
    rewrite Hbit. reflexivity.
  - assert (Hbit : N.testbit b n = false).
    { destruct (N.eq_dec b 0) as [->|Hb0]; [apply N.bits_0|].
      apply N.bits_above_log2. apply N.lt_le_trans with k; [|exact Hn].
      apply N.log2_lt_pow2; [lia|exact Hb]. }
    rewrite Hbit. apply Bool.andb_false_r.
Qed.

Lemma lor_add_disjoint (a b k : N) : a mod 2 ^ k = 0 -> b < 2 ^ k -> N.lor a b = a + b.
Proof.
  intros Ha Hb. pose proof (land_disjoint a b k Ha Hb) as Hl.
  rewrite <- (N.lxor_lor a b Hl). symmetry. apply N.add_nocarry_lxor. exact Hl.
Qed.

Lemma lxor_add_disjoint (a d k : N) : a mod 2 ^ k = 0 -> d < 2 ^ k -> N.lxor a (a + d) = d.
Proof.
  intros Ha Hd. rewrite <- (lor_add_disjoint a d k Ha Hd).
  pose proof (land_disjoint a d k Ha Hd) as Hl.
  rewrite <- (N.lxor_lor a d Hl). rewrite <- N.lxor_assoc, N.lxor_nilpotent, N.lxor_0_l. reflexivity.
Qed.

(* high parts: xor of two numbers with different quotients by 2^k is at least 2^k *)
Lemma lxor_div_pow2 (a b k : N) : N.lxor a b / 2 ^ k = N.lxor (a / 2 ^ k) (b / 2 ^ k).
Proof. rewrite <- !N.shiftr_div_pow2. apply N.shiftr_lxor. Qed.

Lemma lxor_eq_0 (a b : N) : N.lxor a b = 0 -> a = b.
Proof. apply N.lxor_eq. Qed.

Lemma lxor_high_differs (a b k : N) : a / 2 ^ k <> b / 2 ^ k -> 2 ^ k <= N.lxor a b.
Proof.
  intros Hne. destruct (N.lt_ge_cases (N.lxor a b) (2 ^ k)) as [Hlt|Hge]; [|exact Hge].
  exfalso. apply Hne. apply lxor_eq_0. rewrite <- lxor_div_pow2. apply N.div_small. exact Hlt.
Qed.

Lemma lxor_lt_pow2 (a b k : N) : a < 2 ^ k -> b < 2 ^ k -> N.lxor a b < 2 ^ k.
Proof.
  intros Ha Hb.
  destruct (N.eq_dec (N.lxor a b) 0) as [->|Hne]; [apply pow2_pos|].
  destruct (N.eq_dec k 0) as [->|Hk].
  { exfalso. apply Hne. change (2 ^ 0) with 1 in *. assert (a = 0) by lia. assert (b = 0) by lia. subst. reflexivity. }
  apply N.log2_lt_pow2; [lia|].
  eapply N.le_lt_trans; [apply N.log2_lxor|].
  apply N.max_lub_lt.
  - destruct (N.eq_dec a 0) as [->|Ha0]; [change (N.log2 0) with 0; lia|apply N.log2_lt_pow2; lia].
  - destruct (N.eq_dec b 0) as [->|Hb0]; [change (N.log2 0) with 0; lia|apply N.log2_lt_pow2; lia].
Qed.

Lemma mod_mod_pow2_le (a j k : N) : j <= k -> (a mod 2 ^ k) mod 2 ^ j = a mod 2 ^ j.
Proof.
  intros H. rewrite (pow2_split k j H).
  pose proof (pow2_pos j). pose proof (pow2_pos (k - j)).
  rewrite (N.mul_comm (2 ^ (k - j))). rewrite N.mod_mul_r by lia.
  rewrite (N.mul_comm (2 ^ j)). rewrite N.mod_add by lia. apply N.mod_mod. lia.
Qed.

Lemma mod_pow2_0_le (a j k : N) : j <= k -> a mod 2 ^ k = 0 -> a mod 2 ^ j = 0.
Proof.
  intros H Ha. rewrite <- (mod_mod_pow2_le a j k H), Ha. apply N.mod_0_l.
  pose proof (pow2_pos j). lia.
Qed.

Lemma aligned_fit (b k w : N) : k <= w -> b < 2 ^ w -> b mod 2 ^ k = 0 -> b + 2 ^ k <= 2 ^ w.
Proof.
  intros Hk Hb Hm. pose proof (pow2_pos k) as Pk.
  pose proof (N.div_mod b (2 ^ k) ltac:(lia)) as D. rewrite Hm, N.add_0_r in D.
  rewrite (pow2_split w k Hk) in *.
  set (q := b / 2 ^ k) in *. clearbody q. clear Hm. subst b.
  assert (Hq : q < 2 ^ (w - k)).
  { apply (N.mul_lt_mono_pos_l (2 ^ k)); [exact Pk|]. rewrite (N.mul_comm (2 ^ k) (2 ^ (w - k))). exact Hb. }
  generalize dependent (2 ^ (w - k)). generalize dependent (2 ^ k). intros. nia.
Qed.
