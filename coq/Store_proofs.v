(* Store_proofs.v -- informer stores as sets of objects with unique names: what put/delete do to membership, and that they
   respect equality up to order. *)
From NIPAM Require Import Sys Geom_proofs Pool_proofs Prio_proofs Alloc_proofs Inv_proofs Sys_proofs World_proofs Complete_proofs Resv_proofs Path_proofs
  Hist_proofs Hist2_proofs Hist3_proofs Hist4_proofs.
From Coq Require Import Lia Permutation.
Open Scope N_scope.

Lemma NoDup_map_filter' {A B} (f : A -> B) (g : A -> bool) l : NoDup (map f l) -> NoDup (map f (filter g l)).
Proof.
  induction l as [|h t IH]; cbn; [auto|]. intros H. inversion H; subst. destruct (g h); cbn; [|apply IH; assumption].
  constructor; [|apply IH; assumption]. intros Hin. apply H2. apply in_map_iff in Hin. destruct Hin as (x & E & Hx). apply filter_In in Hx. rewrite <- E. apply in_map. apply Hx.
Qed.

(* ---------- stores as sets of objects with unique names ---------- *)
Definition nd (l : list nodeobj) : Prop := NoDup (map n_name l).
Definition seq (l l' : list nodeobj) : Prop := nd l /\ nd l' /\ forall y, In y l <-> In y l'.

Lemma seq_refl l : nd l -> seq l l.
Proof. intros H. split; [exact H|split; [exact H|tauto]]. Qed.
Lemma seq_trans a b c : seq a b -> seq b c -> seq a c.
Proof. intros (A1 & A2 & A3) (B1 & B2 & B3). split; [exact A1|split; [exact B2|]]. intros y. rewrite A3. apply B3. Qed.

Lemma in_put_node_iff n l y : nd l -> (In y (put_node n l) <-> y = n \/ (In y l /\ n_name y <> n_name n)).
Proof.
  intros Hnd. split; [apply in_put_node|]. unfold put_node. destruct (find_node (n_name n) l) as [x|] eqn:Ef.
  - intros [->|[Hy Hne]].
    + apply in_map_iff. exists x. split; [|exact (find_node_in _ _ _ Ef)]. rewrite (find_node_name _ _ _ Ef), str_eqb_refl. reflexivity.
    + apply in_map_iff. exists y. split; [|exact Hy]. destruct (str_eqb (n_name y) (n_name n)) eqn:E; [apply str_eqb_eq in E; contradiction|reflexivity].
  - intros [->|[Hy _]]; apply in_or_app; [right; left; reflexivity|left; exact Hy].
Qed.

Lemma find_node_none_notin k l : find_node k l = None -> ~ In k (map n_name l).
Proof.
  induction l as [|h t IH]; cbn; [tauto|]. destruct (str_eqb (n_name h) k) eqn:E; [discriminate|].
  intros H [Hh|Ht]; [rewrite Hh, str_eqb_refl in E; discriminate|exact (IH H Ht)].
Qed.

Lemma put_node_names n l : nd l -> nd (put_node n l).
Proof.
  unfold nd, put_node. intros H. destruct (find_node (n_name n) l) as [x|] eqn:Ef.
  - assert (E : map n_name (map (fun x0 => if str_eqb (n_name x0) (n_name n) then n else x0) l) = map n_name l).
    { clear. induction l as [|h t IH]; [reflexivity|]. cbn. destruct (str_eqb (n_name h) (n_name n)) eqn:E; [apply str_eqb_eq in E; rewrite E|]; rewrite IH; reflexivity. }
    rewrite E. exact H.
  - rewrite map_app. cbn. apply NoDup_app_snoc; [exact H|apply find_node_none_notin; exact Ef].
Qed.

Lemma in_del_node_iff k l y : In y (del_node k l) <-> In y l /\ n_name y <> k.
Proof.
  unfold del_node. rewrite filter_In. split; intros [A B]; (split; [exact A|]).
  - intros E. rewrite E, str_eqb_refl in B. discriminate.
  - destruct (str_eqb (n_name y) k) eqn:E; [apply str_eqb_eq in E; contradiction|reflexivity].
Qed.
Lemma del_node_names k l : nd l -> nd (del_node k l).
Proof. unfold nd, del_node. apply NoDup_map_filter'. Qed.

Lemma put_node_seq n l l' : seq l l' -> seq (put_node n l) (put_node n l').
Proof.
  intros (A & B & C). split; [apply put_node_names; exact A|split; [apply put_node_names; exact B|]].
  intros y. rewrite (in_put_node_iff n l y A), (in_put_node_iff n l' y B), C. tauto.
Qed.
Lemma del_node_seq k l l' : seq l l' -> seq (del_node k l) (del_node k l').
Proof.
  intros (A & B & C). split; [apply del_node_names; exact A|split; [apply del_node_names; exact B|]].
  intros y. rewrite !in_del_node_iff, C. tauto.
Qed.
Definition views (l : list anode) : list nodeobj := map node_view l.
Lemma views_nd l : NoDup (map an_name l) -> nd (views l).
Proof. unfold nd, views. rewrite map_map. cbn. auto. Qed.


Lemma seq_of_eq c l : c = l -> nd l -> seq c l.
Proof. intros -> H. apply seq_refl. exact H. Qed.

(* looking a node up in a store that holds the views of the API objects, in whatever order *)
Lemma find_node_seq c l a : seq c (views l) -> In a l -> find_node (an_name a) c = Some (node_view a).
Proof.
  intros (A & _ & C) Ha. apply (find_node_nodup c (node_view a) A). apply C. unfold views. apply in_map. exact Ha.
Qed.
