(* Uniq_proofs.v -- C10 at the level of the closed loop: in every reachable world the controller's map holds, under each
   selector key, at most ONE entry per ClusterCIDR name -- whatever writes failed and were retried, whatever was listed at
   start-up and notified again, whatever stale object a work item saw.  With it, C06's "from the moment the deletion
   request was processed": after a ClusterCIDR work item for an object whose deletion was requested, THE entry of that
   name under its selector is marked terminating or gone. *)
From NIPAM Require Import Sys Geom_proofs Pool_proofs Prio_proofs Alloc_proofs Inv_proofs Sys_proofs World_proofs Complete_proofs Resv_proofs Path_proofs NoPanic_proofs Svc_proofs.
From Coq Require Import Lia Permutation.
Open Scope N_scope.

Definition NU (m : cidrmap) : Prop := forall k l, In (k, l) m -> NoDup (map cc_name l).

Lemma find_key_In k m l : find_key k m = Some l -> In (k, l) m.
Proof.
  induction m as [|[k0 l0] m IH]; cbn; [discriminate|]. destruct (str_eqb k k0) eqn:E.
  - intros H. inversion H; subst. apply str_eqb_eq in E. subst. left. reflexivity.
  - intros H. right. apply IH. exact H.
Qed.
Lemma in_set_key k l m k0 l0 : In (k0, l0) (set_key k l m) -> (k0, l0) = (k, l) \/ In (k0, l0) m.
Proof.
  induction m as [|[k1 l1] m IH]; cbn; [intros [H|[]]; left; symmetry; exact H|].
  destruct (str_eqb k k1); cbn; intros [H|H]; [left; symmetry; exact H|right; right; exact H|right; left; exact H|].
  destruct (IH H) as [H1|H1]; [left; exact H1|right; right; exact H1].
Qed.
Lemma in_del_key k m k0 l0 : In (k0, l0) (del_key k m) -> In (k0, l0) m.
Proof.
  induction m as [|[k1 l1] m IH]; cbn; [tauto|]. destruct (str_eqb k k1); cbn; [intros H; right; exact H|].
  intros [H|H]; [left; exact H|right; apply IH; exact H].
Qed.

Lemma nth_error_ext {A} (a b : list A) : (forall i, nth_error a i = nth_error b i) -> a = b.
Proof.
  revert b. induction a as [|x a IH]; intros [|y b] H; [reflexivity|specialize (H 0%nat); discriminate H|specialize (H 0%nat); discriminate H|].
  pose proof (H 0%nat) as H0. cbn in H0. inversion H0; subst. f_equal. apply IH. intros i. exact (H (S i)).
Qed.
Lemma map_names_set_nth i c c' l : nth_error l i = Some c -> cc_name c' = cc_name c -> map cc_name (set_nth i c' l) = map cc_name l.
Proof.
  revert l. induction i as [|i IH]; intros [|h t]; cbn; try discriminate.
  - intros E Hn. inversion E; subst. rewrite Hn. reflexivity.
  - intros E Hn. rewrite (IH t E Hn). reflexivity.
Qed.

Lemma nu_set_entry m p c c' : NU m -> get_entry m p = Some c -> cc_name c' = cc_name c -> NU (set_entry m p c').
Proof.
  intros N Hg Hn. unfold get_entry in Hg. unfold set_entry. destruct (find_key (fst p) m) as [l|] eqn:Ef; [|discriminate].
  intros k0 l0 Hin. apply in_set_key in Hin. destruct Hin as [E|Hin]; [|exact (N k0 l0 Hin)].
  inversion E; subst. rewrite (map_names_set_nth _ c c' l Hg Hn). exact (N _ _ (find_key_In _ _ _ Ef)).
Qed.

(* node work items: same shape, and the entry at every path keeps its name *)
Lemma stab_shape_nu m m' : shape m = shape m' -> stabm m m' -> KU m -> NU m -> NU m'.
Proof.
  intros Hsh St HK N k l' Hin.
  pose proof (shape_KU _ _ Hsh HK) as HK'.
  pose proof (find_key_in_KU k l' m' HK' Hin) as Hf'.
  pose proof (shape_find m m' k Hsh) as Hf. rewrite Hf' in Hf. destruct (find_key k m) as [l|] eqn:Ef; [|contradiction].
  assert (E : map cc_name l' = map cc_name l).
  { apply nth_error_ext. intros i. rewrite !nth_error_map.
    destruct (nth_error l' i) as [e'|] eqn:E'.
    - destruct (St (k, i) e') as (e & He & [(_ & Hn & _) _]); [unfold get_entry; cbn [fst snd]; rewrite Hf'; exact E'|].
      unfold get_entry in He. cbn [fst snd] in He. rewrite Ef in He. rewrite He. cbn. rewrite Hn. reflexivity.
    - apply nth_error_None in E'. assert (Hl : nth_error l i = None) by (apply nth_error_None; lia). rewrite Hl. reflexivity. }
  rewrite E. exact (N k l (find_key_In _ _ _ Ef)).
Qed.

(* ---------- ClusterCIDR work items ---------- *)
Lemma is_mapped_false_names m k name l : is_mapped m k name = false -> find_key k m = Some l -> ~ In name (map cc_name l).
Proof.
  unfold is_mapped. intros H Ef Hin. rewrite Ef in H. apply in_map_iff in Hin. destruct Hin as (c & Hc & Hcl).
  assert (Ht : existsb (fun c0 => str_eqb (cc_name c0) name) l = true) by (apply existsb_exists; exists c; split; [exact Hcl|rewrite Hc; apply str_eqb_refl]).
  congruence.
Qed.
Lemma nu_map_set m k c : NU m -> is_mapped m k (cc_name c) = false -> NU (map_set m k c).
Proof.
  intros N Hm. unfold map_set. destruct (find_key k m) as [l|] eqn:Ef.
  - intros k0 l0 Hin. apply in_set_key in Hin. destruct Hin as [E|Hin]; [|exact (N k0 l0 Hin)].
    inversion E; subst. rewrite map_app. cbn. apply NoDup_app_snoc_keys; [exact (N _ _ (find_key_In _ _ _ Ef))|exact (is_mapped_false_names _ _ _ _ Hm Ef)].
  - intros k0 l0 Hin. apply in_app_or in Hin. destruct Hin as [Hin|[E|[]]]; [exact (N k0 l0 Hin)|].
    inversion E; subst. cbn. constructor; [intros []|constructor].
Qed.
Lemma nu_create m o term boot out m' r fx : NU m -> create_cluster_cidr m o term boot out = (m', r, fx) -> NU m'.
Proof.
  unfold create_cluster_cidr. intros N H.
  destruct (o_selkey o) as [k|]; [|inversion H; subst; exact N].
  destruct (create_set o term boot) as [c|e|] eqn:Ec; try (inversion H; subst; exact N).
  assert (Hm : NU (if is_mapped m k (o_name o) then m else map_set m k c)).
  { destruct (is_mapped m k (o_name o)) eqn:Em; [exact N|]. apply nu_map_set; [exact N|]. rewrite (create_set_name _ _ _ _ Ec). exact Em. }
  destruct (cc_v4 c), (cc_v6 c); try (inversion H; subst; exact N);
    (destruct boot; [|destruct (need_finalizer o); [destruct out|]]); inversion H; subst; first [exact Hm|exact N].
Qed.

Lemma NoDup_map_remove_nth {A B} (f : A -> B) i l : NoDup (map f l) -> NoDup (map f (remove_nth i l)).
Proof.
  revert l. induction i as [|i IH]; intros [|h t]; cbn; try tauto.
  - intros H. inversion H; assumption.
  - intros H. inversion H; subst. constructor; [|apply IH; assumption].
    intros Hin. apply H2. apply in_map_iff in Hin. destruct Hin as (x & E & Hx). apply in_remove_nth in Hx. rewrite <- E. apply in_map. exact Hx.
Qed.

Lemma nu_delete m o m' r : NU m -> delete_cluster_cidr m o = (m', r) -> NU m'.
Proof.
  unfold delete_cluster_cidr. intros N H. destruct (o_selkey o) as [k|]; [|inversion H; subst; exact N].
  destruct (find_key k m) as [l|] eqn:Ef; [|inversion H; subst; exact N].
  destruct (find_name (o_name o) l 0) as [[i c]|] eqn:En; [|inversion H; subst; exact N].
  destruct (find_name_spec _ _ _ _ _ En) as (_ & Hn & _). rewrite Nat.sub_0_r in Hn.
  assert (Hg : get_entry m (k, i) = Some c) by (unfold get_entry; cbn; rewrite Ef; exact Hn).
  assert (N1 : NU (set_entry m (k, i) (with_term c true))) by (eapply nu_set_entry; [exact N|exact Hg|reflexivity]).
  destruct (cc_assoc c); [|inversion H; subst; exact N1].
  destruct l as [|c0 [|c1 l']]; [cbn in En; discriminate|..]; inversion H; subst; clear H.
  - intros k0 l0 Hin. apply in_del_key in Hin. exact (N1 k0 l0 Hin).
  - intros k0 l0 Hin. apply in_set_key in Hin. destruct Hin as [E|Hin]; [|exact (N1 k0 l0 Hin)].
    inversion E; subst. apply NoDup_map_remove_nth.
    rewrite (map_names_set_nth i c (with_term c true) _ Hn eq_refl). exact (N _ _ (find_key_In _ _ _ Ef)).
Qed.

Lemma nu_remove_deleted m name : NU m -> NU (remove_deleted m name).
Proof.
  intros N k l Hin. unfold remove_deleted in Hin. apply in_flat_map in Hin. destruct Hin as ([k0 l0] & Hin0 & Hkl). cbn [fst snd] in Hkl.
  assert (Hrd : NoDup (map cc_name (remove_deleted_in name l0))).
  { unfold remove_deleted_in. destruct (find_name name l0 0) as [[i c]|] eqn:En; [|exact (N _ _ Hin0)].
    destruct (find_name_spec _ _ _ _ _ En) as (_ & Hn & _). rewrite Nat.sub_0_r in Hn.
    destruct (cc_assoc c).
    - apply NoDup_map_remove_nth. exact (N _ _ Hin0).
    - rewrite (map_names_set_nth i c (with_term c true) _ Hn eq_refl). exact (N _ _ Hin0). }
  destruct (remove_deleted_in name l0) as [|y ys] eqn:Er; [destruct Hkl|]. destruct Hkl as [E|[]]. inversion E; subst. exact Hrd.
Qed.

Theorem sync_cc_nu m key cached out m' r fx : NU m -> sync_cc m key cached out = (m', r, fx) -> NU m'.
Proof.
  intros N H. unfold sync_cc in H. destruct cached as [o|]; [|inversion H; subst; apply nu_remove_deleted; exact N].
  destruct (o_deleting o).
  - unfold reconcile_delete in H. destruct (delete_cluster_cidr m o) as [m1 r1] eqn:Ed.
    pose proof (nu_delete _ _ _ _ N Ed) as N1.
    destruct r1 as [[]|e|]; [destruct (has_str finalizer (o_fins o))|..]; inversion H; subst; exact N1.
  - unfold reconcile_create in H. destruct (need_finalizer o || negb (is_mapped_obj m o))%bool; [|inversion H; subst; exact N].
    eapply nu_create; eassumption.
Qed.

(* ---------- node work items and releases ---------- *)
Theorem sync_node_nu po lab svcs canp apisame held m cached reread outs m' r fx :
  MapInv m -> KU m -> NU m -> SInv svcs m -> Forall wf_cidr svcs -> (forall n, cached = Some n -> wf_node n) ->
  sync_node po lab svcs canp apisame held m cached reread outs = (m', r, fx) -> NU m'.
Proof.
  intros M HK N S Hs Hc H.
  destruct (sync_node_svc _ _ _ _ _ _ _ _ _ _ _ _ _ M S Hs Hc H) as (_ & St & _).
  eapply stab_shape_nu; [symmetry; eapply sync_node_shape; exact H|exact St|exact HK|exact N].
Qed.
Lemma release_cidr_nu svcs m node m' r : MapInv m -> KU m -> NU m -> SInv svcs m -> Forall wf_cidr svcs -> wf_node node ->
  release_cidr svcs m node = (m', r) -> NU m'.
Proof.
  intros M HK N S Hs Hw H. destruct (release_cidr_svc svcs m node m' r M S Hs Hw H) as [_ St].
  eapply stab_shape_nu; [symmetry; eapply release_cidr_shape; exact H|exact St|exact HK|exact N].
Qed.

(* ---------- construction ---------- *)
Lemma bootstrap_nu os : forall m outs m' fx, NU m -> bootstrap_ccs m os outs = (m', fx) -> NU m'.
Proof.
  induction os as [|o os IH]; intros m outs m' fx N H; cbn in H; [inversion H; subst; exact N|].
  destruct (reconcile_bootstrap m o (match outs with x :: _ => x | [] => UOk end)) as [[m1 r1] fx1] eqn:E1.
  destruct (bootstrap_ccs m1 os (tl outs)) as [m2 fx2] eqn:E2. inversion H; subst.
  eapply IH; [|exact E2]. eapply nu_create; [exact N|exact E1].
Qed.
Lemma occupy_service_name c svc : cc_name (occupy_service c svc) = cc_name c.
Proof.
  unfold occupy_service. destruct (pool_of c (cf svc)); [|reflexivity]. destruct (overlapb _ svc); [|reflexivity].
  unfold cc_occupy. destruct (pool_of c (cf svc)); [|reflexivity]. destruct (occupy _ svc); [|reflexivity]. apply with_pool_name.
Qed.
Lemma nu_filter_service m svc : NU m -> NU (filter_service m svc).
Proof.
  intros N k l Hin. unfold filter_service in Hin. apply in_map_iff in Hin. destruct Hin as ([k0 l0] & E & Hin). cbn [fst snd] in E. inversion E; subst.
  rewrite map_map. rewrite (map_ext _ cc_name (fun c => occupy_service_name c svc)). exact (N _ _ Hin).
Qed.
Lemma occupy_nodes_nu po lab ns : forall m m' pan, MapInv m -> KU m -> NU m -> Forall wf_node ns -> occupy_nodes po lab m ns = (m', pan) -> NU m'.
Proof.
  induction ns as [|n ns IH]; intros m m' pan M HK N Hw H; cbn in H; [inversion H; subst; exact N|].
  inversion Hw as [|n0 l0 Hn Hns]; subst.
  destruct (n_cidrs n) eqn:En; [eapply IH; eassumption|].
  destruct (occupy_cidrs po lab m n) as [m1 r1] eqn:Eo.
  pose proof (occupy_cidrs_shape _ _ _ _ _ _ Eo) as S1. pose proof (occupy_cidrs_inv _ _ _ _ _ _ M Hn Eo) as M1.
  assert (N1 : NU m1) by (eapply stab_shape_nu; [symmetry; exact S1|eapply occupy_cidrs_stab; eassumption|exact HK|exact N]).
  assert (K1 : KU m1) by (eapply shape_KU; [symmetry; exact S1|exact HK]).
  destruct r1; try (eapply IH; eassumption). inversion H; subst. exact N1.
Qed.
Theorem construct_nu po lab ccs outs s1 s2 nodes m fx pan :
  Forall good_obj ccs -> Forall wf_node nodes ->
  (forall s, s1 = Some s -> wf_cidr s) -> (forall s, s2 = Some s -> wf_cidr s) ->
  construct po lab ccs outs s1 s2 nodes = (m, fx, pan) -> NU m.
Proof.
  unfold construct. intros G Hn H1 H2 H.
  destruct (bootstrap_ccs [] ccs outs) as [m1 fx1] eqn:Eb.
  assert (M0 : MapInv []) by (intros c Hc; cbn in Hc; destruct Hc).
  assert (M1 : MapInv m1) by (eapply bootstrap_ccs_inv; [exact M0|exact G|exact Eb]).
  assert (K1 : KU m1) by (eapply (bootstrap_KU ccs [] outs m1 fx1); [unfold KU; cbn; apply NoDup_nil|exact Eb]).
  assert (N1 : NU m1) by (eapply (bootstrap_nu ccs [] outs m1 fx1); [intros k l []|exact Eb]).
  set (m2 := match s1 with Some s => filter_service m1 s | None => m1 end) in *.
  assert (M2 : MapInv m2) by (unfold m2; destruct s1; [apply filter_service_inv; [exact M1|apply H1; reflexivity]|exact M1]).
  assert (K2 : KU m2) by (unfold m2; destruct s1; [apply KU_filter_service|]; exact K1).
  assert (N2 : NU m2) by (unfold m2; destruct s1; [apply nu_filter_service|]; exact N1).
  set (m3 := match s2 with Some s => filter_service m2 s | None => m2 end) in *.
  assert (M3 : MapInv m3) by (unfold m3; destruct s2; [apply filter_service_inv; [exact M2|apply H2; reflexivity]|exact M2]).
  assert (K3 : KU m3) by (unfold m3; destruct s2; [apply KU_filter_service|]; exact K2).
  assert (N3 : NU m3) by (unfold m3; destruct s2; [apply nu_filter_service|]; exact N2).
  destruct (occupy_nodes po lab m3 nodes) as [m4 p4] eqn:Eo. inversion H; subst.
  eapply occupy_nodes_nu; eassumption.
Qed.

(* ---------- the closed loop ---------- *)
Definition WNU (w : world) : Prop := forall m, w_ctl w = Some m -> NU m.
Lemma wnu_same w w' : WNU w -> w_ctl w' = w_ctl w -> WNU w'.
Proof. intros H E m Em. rewrite E in Em. exact (H m Em). Qed.
Lemma wnu_none w : w_ctl w = None -> WNU w.
Proof. intros E m Em. rewrite E in Em. discriminate. Qed.
Lemma wnu_apply_effects w fx : WNU w -> WNU (apply_effects w fx).
Proof. intros H. exact (wnu_same w _ H (proj1 (apply_effects_cs fx w))). Qed.
Lemma wnu_after_call {A} w (r : res A) m' : NU m' -> WNU (after_call w r m').
Proof. intros S. unfold after_call. destruct r; try (apply wnu_none; reflexivity); intros m Em; cbn in *; inversion Em; subst; exact S. Qed.

Section WorldUniq.
  Variable po : parse_oracle.
  Variable lab : label_oracle.

  Lemma run_node_sync_wnu w cached key outs :
    WInv w -> WK w -> WS w -> WNU w -> (forall n, cached = Some n -> wf_node n) -> WNU (fst (run_node_sync po lab w cached key outs)).
  Proof.
    intros I K S N Hc. unfold run_node_sync. destruct (w_ctl w) as [m|] eqn:Em; [|exact N].
    destruct (sync_node po lab (svc_list (w_svc w)) (can_patch w key) (api_same w key) (held_cidrs (w_ncache w)) m cached (find_node key (w_ncache w)) outs)
      as [[m' r] fx] eqn:Es.
    cbn [fst]. apply wnu_apply_effects. apply wnu_after_call.
    exact (sync_node_nu _ _ _ _ _ _ _ _ _ _ _ _ _ (wi_ctl w I m Em) (K m Em) (N m Em) (S m Em) (wi_svc w I) Hc Es).
  Qed.

  Lemma run_cc_sync_wnu w key cached out : WNU w -> WNU (fst (run_cc_sync w key cached out)).
  Proof.
    intros N. unfold run_cc_sync. destruct (w_ctl w) as [m|] eqn:Em; [|exact N].
    match goal with |- context [sync_cc m key cached ?o] => destruct (sync_cc m key cached o) as [[m' r] fx] eqn:Es end.
    cbn [fst]. apply wnu_apply_effects.
    assert (A : WNU (after_call w r m')) by (apply wnu_after_call; eapply sync_cc_nu; [exact (N m Em)|exact Es]).
    destruct cached as [o|]; [|exact A]. match goal with |- context [if ?b then _ else _] => destruct b end; [|exact A].
    apply (wnu_same (after_call w r m')); [exact A|reflexivity].
  Qed.

  Lemma handle_nevent_wnu w e : WInv w -> WK w -> WS w -> WNU w -> wf_node (nev_node e) -> WNU (fst (handle_nevent w e)).
  Proof.
    intros I K S N He. unfold handle_nevent. destruct e as [n|n|n]; cbn [nev_node] in He.
    - cbn [set_caches w_ctl]. destruct (w_ctl w) eqn:Em; cbn [fst]; apply (wnu_same w); try exact N; cbn; try reflexivity; exact Em.
    - cbn [set_caches w_ctl]. destruct (w_ctl w) eqn:Em; cbn [fst]; apply (wnu_same w); try exact N; cbn; try reflexivity; exact Em.
    - cbn [set_caches w_ctl w_svc]. destruct (w_ctl w) as [m|] eqn:Em.
      + destruct (release_cidr (svc_list (w_svc w)) m n) as [m' r] eqn:Er.
        pose proof (release_cidr_nu _ m n m' r (wi_ctl w I m Em) (K m Em) (N m Em) (S m Em) (wi_svc w I) He Er) as N'.
        destruct r; cbn [fst]; try (apply wnu_none; reflexivity); intros m0 E0; cbn in *; inversion E0; subst; exact N'.
      + cbn [fst]. apply wnu_none. cbn. exact Em.
  Qed.

  Lemma deliver_all_n_wnu es : forall w acc, WInv w -> WK w -> WS w -> WNU w -> Forall (fun e => wf_node (nev_node e)) es -> WNU (fst (deliver_all_n w es acc)).
  Proof.
    induction es as [|e es IH]; intros w acc I K S N H; cbn [deliver_all_n]; [exact N|].
    inversion H as [|e0 l0 He Hes]; subst.
    pose proof (handle_nevent_wnu w e I K S N He) as N1. pose proof (handle_nevent_winv w e I He) as I1.
    pose proof (handle_nevent_ws w e I S He) as S1. pose proof (proj1 (handle_nevent_ok w e K)) as K1.
    destruct (handle_nevent w e) as [w1 ob]. cbn [fst] in *. destruct (ob_res ob =? 3); [exact N1|]. apply IH; assumption.
  Qed.

  Theorem step_wnu w o : WInv w -> WK w -> WS w -> WNU w -> wf_op o -> WNU (fst (step po lab w o)).
  Proof.
    intros I K S N Ho. destruct o; cbn [step wf_op] in *.
    - destruct (find_anode name (w_nodes w)); [exact N|]. apply (wnu_same w); [exact N|reflexivity].
    - destruct (find_anode name (w_nodes w)); [|exact N]. apply (wnu_same w); [exact N|reflexivity].
    - destruct (find_anode name (w_nodes w)); [|exact N]. apply (wnu_same w); [exact N|reflexivity].
    - destruct (find_anode name (w_nodes w)); [|exact N]. apply (wnu_same w); [exact N|reflexivity].
    - destruct (find_cc (o_name o) (w_ccs w)); [exact N|]. apply (wnu_same w); [exact N|reflexivity].
    - destruct (find_cc name (w_ccs w)) as [c|]; [|exact N]. destruct (o_fins c); [apply (wnu_same w); [exact N|reflexivity]|].
      destruct (o_deleting c); [exact N|apply (wnu_same w); [exact N|reflexivity]].
    - destruct (find_cc name (w_ccs w)) as [c|]; [|exact N].
      match goal with |- context [if ?b then _ else _] => destruct b end; apply (wnu_same w); try reflexivity; exact N.
    - (* DeliverNode *)
      destruct (w_nfeed w) as [|e rest] eqn:Ef; [exact N|].
      pose proof (wi_nfeed w I) as Hf. rewrite Ef in Hf. inversion Hf; subst.
      apply handle_nevent_wnu; [| | | |assumption].
      + destruct I as [a1 b1 c1 d1 e1 f1 g1 h1 i1 j1]. constructor; cbn; try assumption.
      + intros m0 E0. apply K. exact E0.
      + apply (ws_same w); [exact S|reflexivity|reflexivity].
      + apply (wnu_same w); [exact N|reflexivity].
    - (* DeliverNodeTombstone *)
      destruct (w_nfeed w) as [|[n|n|n] rest] eqn:Ef; try exact N.
      pose proof (wi_nfeed w I) as Hf. rewrite Ef in Hf. inversion Hf; subst.
      apply handle_nevent_wnu.
      + destruct I as [a1 b1 c1 d1 e1 f1 g1 h1 i1 j1]. constructor; cbn; try assumption.
      + intros m0 E0. apply K. exact E0.
      + apply (ws_same w); [exact S|reflexivity|reflexivity].
      + apply (wnu_same w); [exact N|reflexivity].
      + cbn [nev_node]. destruct (find_node (n_name n) (w_ncache w)) as [c|] eqn:En; [eapply cached_node_wf; eassumption|assumption].
    - (* DeliverCC *)
      destruct (w_cfeed w) as [|e rest]; [exact N|].
      match goal with |- WNU (fst (handle_cevent ?w0 e)) => destruct (handle_cevent_cs w0 e) as [A B] end.
      apply (wnu_same w); [exact N|rewrite A; reflexivity].
    - destruct (w_ctl w) eqn:Em; [|exact N]. apply (wnu_same w); [exact N|reflexivity].
    - destruct (w_ctl w) eqn:Em; [|exact N]. apply (wnu_same w); [exact N|reflexivity].
    - (* RelistNodes *)
      destruct (w_synced w); [|exact N]. apply deliver_all_n_wnu; [| | | |apply relist_nevents_wf; exact I].
      + destruct I as [a1 b1 c1 d1 e1 f1 g1 h1 i1 j1]. constructor; cbn; try assumption. constructor.
      + intros m0 E0. apply K. exact E0.
      + apply (ws_same w); [exact S|reflexivity|reflexivity].
      + apply (wnu_same w); [exact N|reflexivity].
    - (* RelistCCs *)
      destruct (w_synced w); [|exact N]. cbn [fst].
      match goal with |- WNU (deliver_all_c ?w0 ?es) => destruct (deliver_all_c_cs es w0) as [A B] end.
      apply (wnu_same w); [exact N|rewrite A; reflexivity].
    - apply (wnu_same w); [exact N|reflexivity].
    - (* RunNode *)
      destruct (find (fun x => fst x =? w0) (w_nfetch w)) as [[wk [key cached]]|] eqn:Ef; [|exact N].
      apply run_node_sync_wnu.
      + destruct I as [a1 b1 c1 d1 e1 f1 g1 h1 i1 j1]. constructor; cbn; try assumption.
        intros wk' k n Hin. apply filter_In in Hin. destruct Hin as [Hin _]. eapply g1. exact Hin.
      + intros m0 E0. apply K. exact E0.
      + apply (ws_same w); [exact S|reflexivity|reflexivity].
      + apply (wnu_same w); [exact N|reflexivity].
      + intros n E. subst cached. apply find_some in Ef. destruct Ef as [Hin _]. eapply (wi_nfetch w I). exact Hin.
    - apply (wnu_same w); [exact N|reflexivity].
    - (* RunCC *)
      destruct (find (fun x => fst x =? w0) (w_cfetch w)) as [[wk [key cached]]|]; [|exact N].
      apply run_cc_sync_wnu. apply (wnu_same w); [exact N|reflexivity].
    - (* ProcNode *)
      destruct (w_ctl w) as [m|] eqn:Em; [|exact N]. destruct (q_ready (w_nq w)) as [|key rest]; [exact N|].
      match goal with |- context [run_node_sync po lab ?w1 ?c ?k ?o] =>
        assert (N2 : WNU (fst (run_node_sync po lab w1 c k o)));
          [|destruct (run_node_sync po lab w1 c k o) as [w2 ob2]] end.
      { apply run_node_sync_wnu; [apply set_queues_winv; exact I|intros m0 E0; apply K; cbn in E0; first [exact E0|congruence]|apply (ws_same w); [exact S|first [reflexivity|cbn; symmetry; exact Em|cbn; exact Em]|reflexivity]|apply (wnu_same w); [exact N|first [reflexivity|cbn; symmetry; exact Em|cbn; exact Em]]|].
        cbn [set_queues w_ncache]. intros n E. eapply cached_node_wf; eassumption. }
      cbn [fst] in N2. destruct (ob_res ob2 =? 2); cbn [fst]; [apply (wnu_same w2); [exact N2|reflexivity]|exact N2].
    - (* ProcCC *)
      destruct (w_ctl w) as [m|] eqn:Em; [|exact N]. destruct (q_ready (w_cq w)) as [|key rest]; [exact N|].
      match goal with |- context [run_cc_sync ?w1 ?k ?c ?o] =>
        assert (N2 : WNU (fst (run_cc_sync w1 k c o)));
          [|destruct (run_cc_sync w1 k c o) as [w2 ob2]] end.
      { apply run_cc_sync_wnu. apply (wnu_same w); [exact N|first [reflexivity|cbn; symmetry; exact Em|cbn; exact Em]]. }
      cbn [fst] in N2. destruct (ob_res ob2 =? 2); cbn [fst]; [apply (wnu_same w2); [exact N2|reflexivity]|exact N2].
    - apply (wnu_same w); [exact N|reflexivity].
    - apply wnu_none. reflexivity.
    - (* Construct *)
      destruct (w_ctl w) as [m0|] eqn:Em; [exact N|].
      destruct (construct po lab (with_default dp (w_ccs w)) outs svc1 svc2 (map node_view (w_nodes w))) as [[m fx] pan] eqn:Ec.
      cbn [fst]. destruct Ho as (H1 & H2 & Hdp). apply wnu_apply_effects.
      assert (Hgood : Forall good_obj (with_default dp (w_ccs w))) by (apply with_default_good; [exact Hdp|exact (wi_ccs w I)]).
      intros m1 E. cbn in E. destruct pan; [discriminate|]. inversion E; subst m1.
      eapply construct_nu; [exact Hgood| |exact H1|exact H2|exact Ec].
      rewrite Forall_forall. intros n Hn. apply in_map_iff in Hn. destruct Hn as (a & <- & Ha). apply wf_node_view. eapply in_anodes_wf; eassumption.
    - (* StartInformers *)
      destruct (w_ctl w) as [m|] eqn:Em; [|exact N]. destruct (w_synced w); [exact N|]. apply (wnu_same w); [exact N|first [reflexivity|cbn; symmetry; exact Em|cbn; exact Em]].
  Qed.

  Theorem run_wnu ops : forall w, WInv w -> WK w -> WS w -> WNU w -> Forall wf_op ops -> WNU (run po lab w ops).
  Proof.
    induction ops as [|o ops IH]; intros w I K S N H; [exact N|]. inversion H; subst. unfold run. cbn [fold_left].
    apply IH; [apply step_winv; assumption|exact (proj1 (step_no_panic po lab w o I K H2))|apply step_ws; assumption|apply step_wnu; assumption|assumption].
  Qed.

  (* C10 for the closed loop: one entry per ClusterCIDR name under each selector key, and each selector key once *)
  Theorem one_entry_per_clustercidr_in_every_history ops : Forall wf_op ops ->
    forall m, w_ctl (run po lab init_world ops) = Some m -> KU m /\ NU m.
  Proof.
    intros H m Em. split.
    - assert (K : WK (run po lab init_world ops)).
      { clear m Em. revert H. generalize (winv_init). assert (K0 : WK init_world) by (intros m E; discriminate E). revert K0.
        generalize init_world. induction ops as [|o ops IH]; intros w K I H; [exact K|]. inversion H; subst. unfold run. cbn [fold_left].
        apply IH; [exact (proj1 (step_no_panic po lab w o I K H2))|apply step_winv; assumption|assumption]. }
      exact (K m Em).
    - exact (run_wnu ops init_world winv_init ltac:(intros m0 E; discriminate E) ltac:(apply ws_none; reflexivity) ltac:(apply wnu_none; reflexivity) H m Em).
  Qed.
End WorldUniq.

(* ---------- C06: a terminating entry stays terminating for as long as it exists ---------- *)
Definition term_at (m : cidrmap) (k X : str) : Prop :=
  exists l c, find_key k m = Some l /\ In c l /\ cc_name c = X /\ cc_term c = true.
Definition all_term_at (m : cidrmap) (k X : str) : Prop :=
  forall l c, find_key k m = Some l -> In c l -> cc_name c = X -> cc_term c = true.

(* every entry of m' under a key comes from an entry of m under the same key with the same name (and is terminating if
   that one was), or its name did not occur under that key in m *)
Definition kfrom (m m' : cidrmap) : Prop :=
  forall k l' c', find_key k m' = Some l' -> In c' l' ->
    (exists l c, find_key k m = Some l /\ In c l /\ cc_name c = cc_name c' /\ (cc_term c = true -> cc_term c' = true)) \/
    (forall l, find_key k m = Some l -> ~ In (cc_name c') (map cc_name l)).

Lemma NoDup_map_inj_in {A B} (f : A -> B) l a b : NoDup (map f l) -> In a l -> In b l -> f a = f b -> a = b.
Proof.
  induction l as [|h t IH]; cbn; [tauto|]. intros H Ha Hb E. inversion H; subst.
  destruct Ha as [->|Ha], Hb as [->|Hb]; try reflexivity.
  - exfalso. apply H2. rewrite E. apply in_map. exact Hb.
  - exfalso. apply H2. rewrite <- E. apply in_map. exact Ha.
  - apply IH; assumption.
Qed.

Lemma kfrom_refl m : kfrom m m.
Proof. intros k l c Hf Hc. left. exists l, c. split; [exact Hf|split; [exact Hc|split; [reflexivity|auto]]]. Qed.

Lemma kfrom_persist m m' k X : NU m -> kfrom m m' -> term_at m k X -> all_term_at m' k X.
Proof.
  intros N F (l & c0 & Hf & Hc0 & Hn0 & Ht0) l' c' Hf' Hc' Hn'.
  destruct (F k l' c' Hf' Hc') as [(l1 & c & Hf1 & Hc & Hn & Ht)|Hfresh].
  - rewrite Hf in Hf1. inversion Hf1; subst l1.
    assert (c = c0) by (eapply (NoDup_map_inj_in cc_name l); [exact (N k l (find_key_In _ _ _ Hf))|exact Hc|exact Hc0|congruence]).
    subst c. exact (Ht Ht0).
  - exfalso. apply (Hfresh l Hf). rewrite Hn', <- Hn0. apply in_map. exact Hc0.
Qed.

(* node work items and releases *)
Lemma stab_shape_kfrom m m' : shape m = shape m' -> stabm m m' -> kfrom m m'.
Proof.
  intros Hsh St k l' c' Hf' Hc'. left.
  pose proof (shape_find m m' k Hsh) as Hf. rewrite Hf' in Hf. destruct (find_key k m) as [l|] eqn:Ef; [|contradiction].
  apply In_nth_error in Hc'. destruct Hc' as (i & Hi).
  destruct (St (k, i) c') as (c & He & [(_ & Hn & Ht) _]); [unfold get_entry; cbn [fst snd]; rewrite Hf'; exact Hi|].
  unfold get_entry in He. cbn [fst snd] in He. rewrite Ef in He.
  exists l, c. split; [reflexivity|split; [eapply nth_error_In; exact He|split; [symmetry; exact Hn|exact Ht]]].
Qed.

(* ClusterCIDR work items *)
Lemma find_key_keys k m l : find_key k m = Some l -> In k (map fst m).
Proof. intros H. apply find_key_In in H. apply (in_map fst) in H. exact H. Qed.

Lemma remove_deleted_keys m name k : In k (map fst (remove_deleted m name)) -> In k (map fst m).
Proof.
  intros H. apply in_map_iff in H. destruct H as ([k0 l0] & E & Hin). cbn in E. subst k0.
  unfold remove_deleted in Hin. apply in_flat_map in Hin. destruct Hin as ([k1 l1] & Hin1 & Hkl). cbn [fst snd] in Hkl.
  destruct (remove_deleted_in name l1); [destruct Hkl|]. destruct Hkl as [E|[]]. inversion E; subst. apply (in_map fst) in Hin1. exact Hin1.
Qed.

Lemma find_key_remove_deleted m name k l' : KU m -> find_key k (remove_deleted m name) = Some l' ->
  exists l, find_key k m = Some l /\ l' = remove_deleted_in name l.
Proof.
  unfold KU. induction m as [|[k0 l0] m IH]; cbn; [discriminate|]. intros HK H. inversion HK; subst.
  destruct (remove_deleted_in name l0) as [|y ys] eqn:Er; cbn in H.
  - destruct (str_eqb k k0) eqn:E.
    + exfalso. apply str_eqb_eq in E. subst k0. apply H2. apply (remove_deleted_keys m name). eapply find_key_keys. exact H.
    + apply IH; assumption.
  - destruct (str_eqb k k0) eqn:E.
    + inversion H; subst. exists l0. split; [reflexivity|symmetry; exact Er].
    + apply IH; assumption.
Qed.

Lemma remove_deleted_in_from name l c' : In c' (remove_deleted_in name l) ->
  exists c, In c l /\ cc_name c = cc_name c' /\ (cc_term c = true -> cc_term c' = true).
Proof.
  unfold remove_deleted_in. destruct (find_name name l 0) as [[i c]|] eqn:En.
  - destruct (find_name_spec _ _ _ _ _ En) as (_ & Hn & _). rewrite Nat.sub_0_r in Hn. destruct (cc_assoc c).
    + intros H. apply in_remove_nth in H. exists c'. split; [exact H|split; [reflexivity|auto]].
    + intros H. apply in_set_nth in H. destruct H as [->|H]; [exists c; split; [eapply nth_error_In; exact Hn|split; [reflexivity|auto]]|exists c'; split; [exact H|split; [reflexivity|auto]]].
  - intros H. exists c'. split; [exact H|split; [reflexivity|auto]].
Qed.

Lemma remove_deleted_kfrom m name : KU m -> kfrom m (remove_deleted m name).
Proof.
  intros HK k l' c' Hf' Hc'. left. destruct (find_key_remove_deleted m name k l' HK Hf') as (l & Hf & ->).
  destruct (remove_deleted_in_from name l c' Hc') as (c & Hc & Hn & Ht). exists l, c. split; [exact Hf|split; [exact Hc|split; [exact Hn|exact Ht]]].
Qed.

Lemma find_key_del_key k k' m : KU m -> find_key k' (del_key k m) = if str_eqb k' k then None else find_key k' m.
Proof.
  unfold KU. induction m as [|[k0 l0] m IH]; cbn; [destruct (str_eqb k' k); reflexivity|]. intros HK. inversion HK; subst.
  destruct (str_eqb k k0) eqn:E.
  - apply str_eqb_eq in E. subst k0. destruct (str_eqb k' k) eqn:E'; [|reflexivity].
    apply str_eqb_eq in E'. subst k'. destruct (find_key k m) as [l|] eqn:Ef; [|reflexivity].
    exfalso. apply H1. eapply find_key_keys. exact Ef.
  - cbn. destruct (str_eqb k' k0) eqn:E0.
    + apply str_eqb_eq in E0. subst k0. destruct (str_eqb k' k) eqn:E'; [|reflexivity].
      apply str_eqb_eq in E'. subst k'. rewrite str_eqb_refl in E. discriminate.
    + apply IH. exact H2.
Qed.

Lemma delete_kfrom m o m' r : KU m -> delete_cluster_cidr m o = (m', r) -> kfrom m m'.
Proof.
  unfold delete_cluster_cidr. intros HK H. destruct (o_selkey o) as [k|]; [|inversion H; subst; apply kfrom_refl].
  destruct (find_key k m) as [l|] eqn:Ef; [|inversion H; subst; apply kfrom_refl].
  destruct (find_name (o_name o) l 0) as [[i c]|] eqn:En; [|inversion H; subst; apply kfrom_refl].
  destruct (find_name_spec _ _ _ _ _ En) as (_ & Hn & _). rewrite Nat.sub_0_r in Hn.
  set (l1 := set_nth i (with_term c true) l) in *.
  assert (Hl1 : forall c', In c' l1 -> exists c0, In c0 l /\ cc_name c0 = cc_name c' /\ (cc_term c0 = true -> cc_term c' = true)).
  { intros c' Hc'. apply in_set_nth in Hc'. destruct Hc' as [->|Hc']; [exists c; split; [eapply nth_error_In; exact Hn|split; [reflexivity|auto]]|exists c'; split; [exact Hc'|split; [reflexivity|auto]]]. }
  assert (Hf1 : forall k', find_key k' (set_entry m (k, i) (with_term c true)) = if str_eqb k' k then Some l1 else find_key k' m).
  { intros k'. unfold set_entry. cbn [fst snd]. rewrite Ef. destruct (str_eqb k' k) eqn:E.
    - apply str_eqb_eq in E. subst k'. apply find_key_set_key_same.
    - apply find_key_set_key_other. intros E2. rewrite E2, str_eqb_refl in E. discriminate. }
  assert (K1 : kfrom m (set_entry m (k, i) (with_term c true))).
  { intros k' l' c' Hf' Hc'. left. rewrite Hf1 in Hf'. destruct (str_eqb k' k) eqn:E.
    - apply str_eqb_eq in E. subst k'. inversion Hf'; subst l'. destruct (Hl1 c' Hc') as (c0 & A & B & C). exists l, c0. split; [exact Ef|split; [exact A|split; [exact B|exact C]]].
    - exists l', c'. split; [exact Hf'|split; [exact Hc'|split; [reflexivity|auto]]]. }
  destruct (cc_assoc c); [|inversion H; subst; exact K1].
  assert (HK1 : KU (set_entry m (k, i) (with_term c true))) by (apply KU_set_entry; exact HK).
  destruct l as [|c0 [|c1 lt]]; [cbn in En; discriminate|..]; inversion H; subst; clear H.
  - intros k' l' c' Hf' Hc'. rewrite (find_key_del_key k k' _ HK1) in Hf'. destruct (str_eqb k' k) eqn:E; [discriminate|].
    apply (K1 k' l' c'); [|exact Hc']. rewrite Hf1, E. rewrite Hf1, E in Hf'. exact Hf'.
  - intros k' l' c' Hf' Hc'. left. destruct (str_eqb k' k) eqn:E.
    + apply str_eqb_eq in E. subst k'. rewrite find_key_set_key_same in Hf'. inversion Hf'; subst l'.
      apply in_remove_nth in Hc'. destruct (Hl1 c' Hc') as (c2 & A & B & C). exists (c0 :: c1 :: lt), c2. split; [exact Ef|split; [exact A|split; [exact B|exact C]]].
    + rewrite find_key_set_key_other in Hf' by (intros E2; rewrite E2, str_eqb_refl in E; discriminate).
      rewrite Hf1, E in Hf'. exists l', c'. split; [exact Hf'|split; [exact Hc'|split; [reflexivity|auto]]].
Qed.

Lemma find_key_app_none k m1 m2 : find_key k m1 = None -> find_key k (m1 ++ m2) = find_key k m2.
Proof. induction m1 as [|[k0 l0] m1 IH]; cbn; [reflexivity|]. destruct (str_eqb k k0); [discriminate|exact IH]. Qed.
Lemma find_key_app_some k m1 m2 l : find_key k m1 = Some l -> find_key k (m1 ++ m2) = Some l.
Proof. induction m1 as [|[k0 l0] m1 IH]; cbn; [discriminate|]. destruct (str_eqb k k0); [auto|exact IH]. Qed.

Lemma map_set_kfrom m k c : is_mapped m k (cc_name c) = false -> kfrom m (map_set m k c).
Proof.
  intros Hm k' l' c' Hf' Hc'. unfold map_set in Hf'. destruct (find_key k m) as [l|] eqn:Ef.
  - destruct (str_eqb k' k) eqn:E.
    + apply str_eqb_eq in E. subst k'. rewrite find_key_set_key_same in Hf'. inversion Hf'; subst l'.
      apply in_app_or in Hc'. destruct Hc' as [Hc'|[<-|[]]].
      * left. exists l, c'. split; [exact Ef|split; [exact Hc'|split; [reflexivity|auto]]].
      * right. intros l0 Hl0. rewrite Ef in Hl0. inversion Hl0; subst l0. exact (is_mapped_false_names _ _ _ _ Hm Ef).
    + rewrite find_key_set_key_other in Hf' by (intros E2; rewrite E2, str_eqb_refl in E; discriminate).
      left. exists l', c'. split; [exact Hf'|split; [exact Hc'|split; [reflexivity|auto]]].
  - destruct (find_key k' m) as [l0|] eqn:Ef0.
    + rewrite (find_key_app_some _ _ _ _ Ef0) in Hf'. inversion Hf'; subst l'. left. exists l0, c'. split; [reflexivity|split; [exact Hc'|split; [reflexivity|auto]]].
    + right. intros l1 Hl1. discriminate Hl1.
Qed.

Lemma create_kfrom m o term boot out m' r fx : create_cluster_cidr m o term boot out = (m', r, fx) -> kfrom m m'.
Proof.
  unfold create_cluster_cidr. intros H.
  destruct (o_selkey o) as [k|]; [|inversion H; subst; apply kfrom_refl].
  destruct (create_set o term boot) as [c|e|] eqn:Ec; try (inversion H; subst; apply kfrom_refl).
  assert (Hm : kfrom m (if is_mapped m k (o_name o) then m else map_set m k c)).
  { destruct (is_mapped m k (o_name o)) eqn:Em; [apply kfrom_refl|]. apply map_set_kfrom. rewrite (create_set_name _ _ _ _ Ec). exact Em. }
  destruct (cc_v4 c), (cc_v6 c); try (inversion H; subst; apply kfrom_refl);
    (destruct boot; [|destruct (need_finalizer o); [destruct out|]]); inversion H; subst; first [exact Hm|apply kfrom_refl].
Qed.

Theorem sync_cc_kfrom m key cached out m' r fx : KU m -> sync_cc m key cached out = (m', r, fx) -> kfrom m m'.
Proof.
  intros HK H. unfold sync_cc in H. destruct cached as [o|]; [|inversion H; subst; apply remove_deleted_kfrom; exact HK].
  destruct (o_deleting o).
  - unfold reconcile_delete in H. destruct (delete_cluster_cidr m o) as [m1 r1] eqn:Ed.
    pose proof (delete_kfrom _ _ _ _ HK Ed) as F1.
    destruct r1 as [[]|e|]; [destruct (has_str finalizer (o_fins o))|..]; inversion H; subst; exact F1.
  - unfold reconcile_create in H. destruct (need_finalizer o || negb (is_mapped_obj m o))%bool; [|inversion H; subst; apply kfrom_refl].
    eapply create_kfrom; exact H.
Qed.

(* the three kinds of controller calls *)
Theorem sync_cc_keeps_terminating m key cached out m' r fx k X :
  KU m -> NU m -> sync_cc m key cached out = (m', r, fx) -> term_at m k X -> all_term_at m' k X.
Proof. intros HK N H. apply kfrom_persist; [exact N|eapply sync_cc_kfrom; eassumption]. Qed.

Theorem sync_node_keeps_terminating po lab svcs canp apisame held m cached reread outs m' r fx k X :
  MapInv m -> NU m -> SInv svcs m -> Forall wf_cidr svcs -> (forall n, cached = Some n -> wf_node n) ->
  sync_node po lab svcs canp apisame held m cached reread outs = (m', r, fx) -> term_at m k X -> all_term_at m' k X.
Proof.
  intros M N S Hs Hc H. apply kfrom_persist; [exact N|].
  destruct (sync_node_svc _ _ _ _ _ _ _ _ _ _ _ _ _ M S Hs Hc H) as (_ & St & _).
  apply stab_shape_kfrom; [symmetry; eapply sync_node_shape; exact H|exact St].
Qed.

Theorem release_cidr_keeps_terminating svcs m node m' r k X :
  MapInv m -> NU m -> SInv svcs m -> Forall wf_cidr svcs -> wf_node node ->
  release_cidr svcs m node = (m', r) -> term_at m k X -> all_term_at m' k X.
Proof.
  intros M N S Hs Hw H. apply kfrom_persist; [exact N|].
  destruct (release_cidr_svc svcs m node m' r M S Hs Hw H) as [_ St].
  apply stab_shape_kfrom; [symmetry; eapply release_cidr_shape; exact H|exact St].
Qed.

(* ---------- C06: the work item of a ClusterCIDR whose deletion was requested marks THE entry terminating ---------- *)
Lemma find_name_none name l : forall i, find_name name l i = None -> forall c, In c l -> cc_name c <> name.
Proof.
  induction l as [|x l IH]; intros i H c Hc; [destruct Hc|]. cbn in H. destruct (str_eqb (cc_name x) name) eqn:E; [discriminate|].
  destruct Hc as [->|Hc]; [intros E2; rewrite E2, str_eqb_refl in E; discriminate|exact (IH _ H c Hc)].
Qed.
Lemma in_set_nth_other {A} i (x : A) l y : In y (set_nth i x l) -> y = x \/ exists j, j <> i /\ nth_error l j = Some y.
Proof.
  revert l. induction i as [|i IH]; intros [|h t]; cbn; try tauto.
  - intros [H|H]; [left; symmetry; exact H|]. right. apply In_nth_error in H. destruct H as (j & Hj). exists (S j). split; [discriminate|exact Hj].
  - intros [H|H]; [right; exists 0%nat; split; [discriminate|cbn; congruence]|].
    destruct (IH t H) as [H1|(j & Hne & Hj)]; [left; exact H1|right; exists (S j); split; [intros E; apply Hne; inversion E; reflexivity|exact Hj]].
Qed.
Lemma NoDup_map_nth_inj {A B} (f : A -> B) l i j a b : NoDup (map f l) -> nth_error l i = Some a -> nth_error l j = Some b -> f a = f b -> i = j.
Proof.
  intros H Ha Hb E. apply (proj1 (NoDup_nth_error (map f l)) H i j).
  - rewrite map_length. apply nth_error_Some. rewrite Ha. discriminate.
  - rewrite !nth_error_map, Ha, Hb. cbn. rewrite E. reflexivity.
Qed.

Theorem delete_marks_terminating m o m' r k :
  NU m -> KU m -> o_selkey o = Some k -> delete_cluster_cidr m o = (m', r) -> all_term_at m' k (o_name o).
Proof.
  unfold delete_cluster_cidr. intros N HK Hk H. rewrite Hk in H.
  destruct (find_key k m) as [l|] eqn:Ef; [|inversion H; subst; intros l c Hf; rewrite Ef in Hf; discriminate].
  destruct (find_name (o_name o) l 0) as [[i c]|] eqn:En.
  2:{ inversion H; subst. intros l0 c0 Hf Hc Hn. rewrite Ef in Hf. inversion Hf; subst l0. exfalso. exact (find_name_none _ _ _ En c0 Hc Hn). }
  destruct (find_name_spec _ _ _ _ _ En) as (_ & Hn & Hcn). rewrite Nat.sub_0_r in Hn.
  pose proof (N k l (find_key_In _ _ _ Ef)) as Hnd.
  set (l1 := set_nth i (with_term c true) l) in *.
  assert (Hl1 : forall c', In c' l1 -> cc_name c' = o_name o -> cc_term c' = true).
  { intros c' Hc' Hn'. apply in_set_nth_other in Hc'. destruct Hc' as [->|(j & Hne & Hj)]; [reflexivity|].
    exfalso. apply Hne. eapply (NoDup_map_nth_inj cc_name l j i c' c Hnd Hj Hn). congruence. }
  assert (Hf1 : find_key k (set_entry m (k, i) (with_term c true)) = Some l1).
  { unfold set_entry. cbn [fst snd]. rewrite Ef. apply find_key_set_key_same. }
  destruct (cc_assoc c) as [|a0 al].
  2:{ inversion H; subst. intros lz cz Hf Hc Hn0. rewrite Hf1 in Hf. inversion Hf; subst lz. exact (Hl1 cz Hc Hn0). }
  assert (HK1 : KU (set_entry m (k, i) (with_term c true))) by (apply KU_set_entry; exact HK).
  destruct l as [|c0 [|c1 lt]]; [cbn in En; discriminate|..]; inversion H; subst; clear H.
  - intros lz c2 Hf. rewrite (find_key_del_key k k _ HK1), str_eqb_refl in Hf. discriminate.
  - intros lz c2 Hf Hc Hn0. rewrite find_key_set_key_same in Hf. inversion Hf; subst lz. apply in_remove_nth in Hc. exact (Hl1 c2 Hc Hn0).
Qed.

Theorem reconcile_delete_marks_terminating m o out m' r fx k :
  NU m -> KU m -> o_selkey o = Some k -> reconcile_delete m o out = (m', r, fx) -> all_term_at m' k (o_name o).
Proof.
  intros N HK Hk H. unfold reconcile_delete in H. destruct (delete_cluster_cidr m o) as [m1 r1] eqn:Ed.
  pose proof (delete_marks_terminating _ _ _ _ _ N HK Hk Ed) as A.
  destruct r1 as [[]|e|]; [destruct (has_str finalizer (o_fins o))|..]; inversion H; subst; exact A.
Qed.
