(* Str.v -- Go strings as byte lists, compared bytewise as Go's < and == do. Definitions only. *)
From Coq Require Export List NArith Bool.
Export ListNotations.
Open Scope N_scope.

Definition str := list N.

Fixpoint str_eqb (a b : str) : bool :=
  match a, b with
  | [], [] => true
  | x :: a', y :: b' => (x =? y) && str_eqb a' b'
  | _, _ => false
  end.

Fixpoint str_ltb (a b : str) : bool :=
  match a, b with
  | [], [] => false
  | [], _ :: _ => true
  | _ :: _, [] => false
  | x :: a', y :: b' => if x <? y then true else if y <? x then false else str_ltb a' b'
  end.
