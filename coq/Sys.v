(* Sys.v -- the closed loop: API server state, watch feeds, informer caches, work queues, one
   controller incarnation (or none).  [step : world -> op -> world * obs]; a history is a list of
   ops.  The harness's fake API server / informers / queues implement the same semantics
   (assumptions E1-E5 of DESIGN.md).  Definitions only. *)
From NIPAM Require Export Alloc.
Open Scope N_scope.

(* ---------- API objects ---------- *)
Record anode := mkANode {
  an_name : str; an_labels : labels; an_cidrs : list pcidr; an_deleting : bool
}.
Definition node_view (a : anode) : nodeobj := mkNode (an_name a) (an_labels a) (an_cidrs a) (an_deleting a).

Inductive nevent := NAdd (n : nodeobj) | NUpd (n : nodeobj) | NDel (n : nodeobj).
Inductive cevent := CAdd (o : ccobj) | CUpd (o : ccobj) | CDel (o : ccobj).

Record queue := mkQ { q_ready : list str; q_retry : list str }.

Record world := mkWorld {
  w_nodes : list anode;            (* API server: nodes *)
  w_ccs : list ccobj;              (* API server: ClusterCIDRs *)
  w_rv : N;                        (* resourceVersion counter *)
  w_nfeed : list nevent;           (* node watch events not yet delivered, oldest first *)
  w_cfeed : list cevent;
  w_ncache : list nodeobj;         (* node informer store *)
  w_ccache : list ccobj;
  w_nq : queue; w_cq : queue;
  w_ctl : option cidrmap;          (* the running controller's shared state; None = no process *)
  w_synced : bool;                 (* informers have been started for this incarnation *)
  w_nfetch : list (N * (str * option nodeobj));   (* worker -> (key, object read by syncNode) *)
  w_cfetch : list (N * (str * option ccobj));
  w_svc : option cidr * option cidr;
  (* ghost history *)
  w_delseen : list str             (* ClusterCIDR names whose deletion request some sync has processed *)
}.

Definition empty_q := mkQ [] [].
Definition init_world : world :=
  mkWorld [] [] 1 [] [] [] [] empty_q empty_q None false [] [] (None, None) [].

(* ---------- operations ---------- *)
Inductive op :=
(* users / API side *)
| UCreateNode (name : str) (ls : labels) (cs : list pcidr)
| ULabelNode (name : str) (ls : labels)
| UDeleteNode (name : str)
| UMarkNodeDeleting (name : str)
| UCreateCC (o : ccobj)
| UDeleteCC (name : str)
| USetCCFinalizers (name : str) (fins : list str)     (* another actor edits finalizers (never ours) *)
(* informers *)
| DeliverNode | DeliverNodeTombstone | DeliverCC
| ResyncNodes | ResyncCCs
| RelistNodes | RelistCCs          (* the watch broke: the informer lists again and replaces its store (DeltaFIFO.Replace) *)
(* workers *)
| FetchNode (w : N) (key : str) | RunNode (w : N) (outs : list patch_outcome)
| FetchCC (w : N) (key : str) | RunCC (w : N) (out : upd_outcome)
| ProcNode (outs : list patch_outcome)      (* processNextNodeWorkItem on the queue head *)
| ProcCC (out : upd_outcome)
| Tick
(* process *)
| Crash
| Construct (svc1 svc2 : option cidr) (outs : list upd_outcome) (dp : list (cidr * Z))
    (* list nodes+ClusterCIDRs now, build the allocator; dp: the --cluster-cidr flags with their mask sizes *)
| StartInformers.                                                  (* fill the caches from the API state now; handlers fire *)

(* what one step shows *)
Record obs := mkObs {
  ob_res : N;                      (* 0 none, 1 ok, 2 err, 3 panic *)
  ob_fx : list effect;
  ob_requeued : bool
}.
Definition no_obs := mkObs 0 [] false.

(* ---------- helpers ---------- *)
Fixpoint find_anode (name : str) (l : list anode) : option anode :=
  match l with [] => None | a :: l' => if str_eqb (an_name a) name then Some a else find_anode name l' end.
Fixpoint upd_anode (a : anode) (l : list anode) : list anode :=
  match l with [] => [] | x :: l' => if str_eqb (an_name x) (an_name a) then a :: l' else x :: upd_anode a l' end.
Definition del_anode (name : str) (l : list anode) : list anode := filter (fun x => negb (str_eqb (an_name x) name)) l.

Fixpoint find_node (name : str) (l : list nodeobj) : option nodeobj :=
  match l with [] => None | a :: l' => if str_eqb (n_name a) name then Some a else find_node name l' end.
Definition put_node (a : nodeobj) (l : list nodeobj) : list nodeobj :=
  match find_node (n_name a) l with
  | Some _ => map (fun x => if str_eqb (n_name x) (n_name a) then a else x) l
  | None => l ++ [a]
  end.
Definition del_node (name : str) (l : list nodeobj) : list nodeobj := filter (fun x => negb (str_eqb (n_name x) name)) l.

Fixpoint find_cc (name : str) (l : list ccobj) : option ccobj :=
  match l with [] => None | a :: l' => if str_eqb (o_name a) name then Some a else find_cc name l' end.
Definition put_cc (a : ccobj) (l : list ccobj) : list ccobj :=
  match find_cc (o_name a) l with
  | Some _ => map (fun x => if str_eqb (o_name x) (o_name a) then a else x) l
  | None => l ++ [a]
  end.
Definition del_cc (name : str) (l : list ccobj) : list ccobj := filter (fun x => negb (str_eqb (o_name x) name)) l.

(* workqueue.Add: a key is queued at most once *)
Definition q_add (k : str) (q : queue) : queue :=
  if has_str k (q_ready q) then q else mkQ (q_ready q ++ [k]) (q_retry q).
Definition q_add_retry (k : str) (q : queue) : queue :=
  if has_str k (q_retry q) then q else mkQ (q_ready q) (q_retry q ++ [k]).
Definition q_tick (q : queue) : queue := fold_left (fun acc k => q_add k acc) (q_retry q) (mkQ (q_ready q) []).

Definition with_rv (o : ccobj) (rv : N) : ccobj :=
  mkCCObj (o_name o) (o_v4 o) (o_v6 o) (o_hb o) (o_selkey o) (o_fins o) (o_deleting o) (o_gen o) rv (o_rest o).
Definition with_deleting (o : ccobj) : ccobj :=
  mkCCObj (o_name o) (o_v4 o) (o_v6 o) (o_hb o) (o_selkey o) (o_fins o) true (o_gen o) (o_rv o) (o_rest o).

(* record update helpers for world (positional constructors keep extraction simple) *)
Definition set_api (w : world) (ns : list anode) (cs : list ccobj) (rv : N) (nf : list nevent) (cf : list cevent) : world :=
  mkWorld ns cs rv nf cf (w_ncache w) (w_ccache w) (w_nq w) (w_cq w) (w_ctl w) (w_synced w) (w_nfetch w) (w_cfetch w) (w_svc w) (w_delseen w).
Definition set_ctl (w : world) (c : option cidrmap) : world :=
  mkWorld (w_nodes w) (w_ccs w) (w_rv w) (w_nfeed w) (w_cfeed w) (w_ncache w) (w_ccache w) (w_nq w) (w_cq w) c (w_synced w) (w_nfetch w) (w_cfetch w) (w_svc w) (w_delseen w).
Definition set_caches (w : world) (nc : list nodeobj) (cc : list ccobj) (nf : list nevent) (cf : list cevent) : world :=
  mkWorld (w_nodes w) (w_ccs w) (w_rv w) nf cf nc cc (w_nq w) (w_cq w) (w_ctl w) (w_synced w) (w_nfetch w) (w_cfetch w) (w_svc w) (w_delseen w).
Definition set_queues (w : world) (nq cq : queue) : world :=
  mkWorld (w_nodes w) (w_ccs w) (w_rv w) (w_nfeed w) (w_cfeed w) (w_ncache w) (w_ccache w) nq cq (w_ctl w) (w_synced w) (w_nfetch w) (w_cfetch w) (w_svc w) (w_delseen w).
Definition set_fetch (w : world) (nf : list (N * (str * option nodeobj))) (cf : list (N * (str * option ccobj))) : world :=
  mkWorld (w_nodes w) (w_ccs w) (w_rv w) (w_nfeed w) (w_cfeed w) (w_ncache w) (w_ccache w) (w_nq w) (w_cq w) (w_ctl w) (w_synced w) nf cf (w_svc w) (w_delseen w).
Definition set_delseen (w : world) (d : list str) : world :=
  mkWorld (w_nodes w) (w_ccs w) (w_rv w) (w_nfeed w) (w_cfeed w) (w_ncache w) (w_ccache w) (w_nq w) (w_cq w) (w_ctl w) (w_synced w) (w_nfetch w) (w_cfetch w) (w_svc w) d.

(* the feeds only exist while informers run *)
(* the service ranges the running incarnation was started with, in the order they are filtered out *)
Definition svc_list (s : option cidr * option cidr) : list cidr :=
  (match fst s with Some c => [c] | None => [] end) ++ (match snd s with Some c => [c] | None => [] end).

Definition push_nev (w : world) (e : nevent) : list nevent := if w_synced w then w_nfeed w ++ [e] else w_nfeed w.
Definition push_cev (w : world) (e : cevent) : list cevent := if w_synced w then w_cfeed w ++ [e] else w_cfeed w.

(* ---------- applying the API writes a controller step made ---------- *)
(* E1: podCIDRs of a node, once set, are not changed; a PATCH on a vanished node fails
   (the scripted outcome says whether the write reached the server at all) *)
Definition apply_patch (w : world) (name : str) (cs : list cidr) (o : patch_outcome) : world :=
  match o with
  | PFail | PTimeoutNotApplied => w
  | POk | PTimeoutApplied =>
      match find_anode name (w_nodes w) with
      | None => w
      | Some a =>
          match an_cidrs a with
          | _ :: _ => w
          | [] =>
              let a' := mkANode (an_name a) (an_labels a) (map (fun c => PGood c true) cs) (an_deleting a) in
              set_api w (upd_anode a' (w_nodes w)) (w_ccs w) (w_rv w) (push_nev w (NUpd (node_view a'))) (w_cfeed w)
          end
      end
  end.

(* E4/E5: an update with a stale resourceVersion is a conflict; an object with a deletion timestamp
   and no finalizers disappears *)
Definition apply_update_cc (w : world) (o' : ccobj) (out : upd_outcome) : world :=
  match out with
  | UFail => w
  | UOk | UAppliedErr =>
      match find_cc (o_name o') (w_ccs w) with
      | None => w
      | Some cur =>
          if negb (o_rv cur =? o_rv o') then w        (* conflict: not applied (the scripted outcome must then be UFail; see harness) *)
          else
            let rv := w_rv w + 1 in
            let stored := with_rv (mkCCObj (o_name cur) (o_v4 cur) (o_v6 cur) (o_hb cur) (o_selkey cur) (o_fins o')
                                           (o_deleting cur) (o_gen cur) rv (o_rest o')) rv in
            if o_deleting stored && match o_fins stored with [] => true | _ => false end then
              set_api w (w_nodes w) (del_cc (o_name cur) (w_ccs w)) rv (w_nfeed w) (push_cev w (CDel stored))
            else
              set_api w (w_nodes w) (put_cc stored (w_ccs w)) rv (w_nfeed w) (push_cev w (CUpd stored))
      end
  end.

(* the Create of the default ClusterCIDR: the object appears in the API (with the finalizer the controller put on it)
   unless an object of that name exists *)
Definition apply_create_cc (w : world) (o' : ccobj) (out : upd_outcome) : world :=
  match out with
  | UFail => w
  | UOk | UAppliedErr =>
      match find_cc (o_name o') (w_ccs w) with
      | Some _ => w
      | None => let rv := w_rv w + 1 in let stored := with_rv o' rv in
                set_api w (w_nodes w) (w_ccs w ++ [stored]) rv (w_nfeed w) (push_cev w (CAdd stored))
      end
  end.

Fixpoint apply_effects (w : world) (fx : list effect) : world :=
  match fx with
  | [] => w
  | FxPatch n cs o :: fx' => apply_effects (apply_patch w n cs o) fx'
  | FxUpdateCC o' out :: fx' => apply_effects (apply_update_cc w o' out) fx'
  | FxCreateCC o' out :: fx' => apply_effects (apply_create_cc w o' out) fx'
  | FxEvent _ _ :: fx' => apply_effects w fx'
  | FxGetNode _ _ :: fx' => apply_effects w fx'
  end.

Definition res_code {A} (r : res A) : N := match r with Ok _ => 1 | Err _ => 2 | Panic => 3 end.

(* ---------- one controller call on the world ---------- *)
Section Step.
  Variable po : parse_oracle.
  Variable lab : label_oracle.

  (* a panic ends the process: same as Crash *)
  Definition crashed (w : world) : world :=
    mkWorld (w_nodes w) (w_ccs w) (w_rv w) [] [] [] [] empty_q empty_q None false [] [] (w_svc w) (w_delseen w).

  Definition after_call {A} (w : world) (r : res A) (m' : cidrmap) : world :=
    match r with Panic => crashed w | _ => set_ctl w (Some m') end.

  (* would the API server accept a PATCH of these podCIDRs on that node right now? (E1) *)
  Definition can_patch (w : world) (name : str) (cs : list cidr) : bool :=
    match find_anode name (w_nodes w) with
    | None => false
    | Some a => match an_cidrs a with [] => true | have => same_cidrs have cs end
    end.

  (* the parseable pod CIDRs of all nodes in the node cache *)
  Definition held_cidrs (l : list nodeobj) : list cidr :=
    flat_map (fun n => flat_map (fun pc => match pc with PGood c _ => [c] | PBad => [] end) (n_cidrs n)) l.

  (* does the API server show exactly these podCIDRs on that node right now? *)
  Definition api_same (w : world) (name : str) (cs : list cidr) : bool :=
    match find_anode name (w_nodes w) with
    | None => false
    | Some a => match an_cidrs a with [] => false | have => same_cidrs have cs end
    end.

  Definition run_node_sync (w : world) (cached : option nodeobj) (key : str) (outs : list patch_outcome) : world * obs :=
    match w_ctl w with
    | None => (w, no_obs)
    | Some m =>
        let reread := find_node key (w_ncache w) in
        let '(m', r, fx) := sync_node po lab (svc_list (w_svc w)) (can_patch w key) (api_same w key) (held_cidrs (w_ncache w)) m cached reread outs in
        (apply_effects (after_call w r m') fx, mkObs (res_code r) fx false)
    end.

  Definition run_cc_sync (w : world) (key : str) (cached : option ccobj) (out : upd_outcome) : world * obs :=
    match w_ctl w with
    | None => (w, no_obs)
    | Some m =>
        (* E5: an update built from a stale cached object (or of a vanished object) fails cleanly *)
        let out := match cached with
                   | Some o => match find_cc (o_name o) (w_ccs w) with
                               | Some cur => if o_rv cur =? o_rv o then out else UFail
                               | None => UFail end
                   | None => out end in
        let '(m', r, fx) := sync_cc m key cached out in
        let w1 := after_call w r m' in
        let w2 := match cached with
                  | Some o => if o_deleting o && negb (has_str (o_name o) (w_delseen w1))
                              then set_delseen w1 (o_name o :: w_delseen w1) else w1
                  | None => w1 end in
        (apply_effects w2 fx, mkObs (res_code r) fx false)
    end.

  (* handlers registered by the constructor *)
  Definition handle_nevent (w : world) (e : nevent) : world * obs :=
    match e with
    | NAdd n | NUpd n =>
        let w1 := set_caches w (put_node n (w_ncache w)) (w_ccache w) (w_nfeed w) (w_cfeed w) in
        (match w_ctl w1 with Some _ => set_queues w1 (q_add (n_name n) (w_nq w1)) (w_cq w1) | None => w1 end, no_obs)
    | NDel n =>
        let w1 := set_caches w (del_node (n_name n) (w_ncache w)) (w_ccache w) (w_nfeed w) (w_cfeed w) in
        match w_ctl w1 with
        | None => (w1, no_obs)
        | Some m =>
            let '(m', r) := release_cidr (svc_list (w_svc w)) m n in
            match r with
            | Panic => (crashed w1, mkObs 3 [] false)
            | _ => let w2 := set_ctl w1 (Some m') in
                   (set_queues w2 (q_add (n_name n) (w_nq w2)) (w_cq w2), mkObs (res_code r) [] false)
            end
        end
    end.

  Definition handle_cevent (w : world) (e : cevent) : world * obs :=
    let '(o, cache') := match e with
                        | CAdd o | CUpd o => (o, put_cc o (w_ccache w))
                        | CDel o => (o, del_cc (o_name o) (w_ccache w))
                        end in
    let w1 := set_caches w (w_ncache w) cache' (w_nfeed w) (w_cfeed w) in
    (match w_ctl w1 with Some _ => set_queues w1 (w_nq w1) (q_add (o_name o) (w_cq w1)) | None => w1 end, no_obs).

  (* a relist: pending watch events are dropped; every listed object is delivered as an update (or add), then every
     stored object that is no longer listed is delivered as a deletion carrying the store's last known state; a
     panic in a handler ends the process *)
  Fixpoint deliver_all_n (w : world) (es : list nevent) (acc : N) : world * obs :=
    match es with
    | [] => (w, mkObs acc [] false)
    | e :: es' => let '(w1, ob) := handle_nevent w e in
                  if ob_res ob =? 3 then (w1, mkObs 3 [] false) else deliver_all_n w1 es' (ob_res ob)
    end.
  Fixpoint deliver_all_c (w : world) (es : list cevent) : world :=
    match es with
    | [] => w
    | e :: es' => deliver_all_c (fst (handle_cevent w e)) es'
    end.
  Definition relist_nevents (w : world) : list nevent :=
    map (fun a => NUpd (node_view a)) (w_nodes w) ++
    flat_map (fun k => match find_anode k (w_nodes w), find_node k (w_ncache w) with
                       | None, Some n => [NDel n] | _, _ => [] end) (sort_by str_ltb (map n_name (w_ncache w))).
  Definition relist_cevents (w : world) : list cevent :=
    map CUpd (w_ccs w) ++
    flat_map (fun k => match find_cc k (w_ccs w), find_cc k (w_ccache w) with
                       | None, Some o => [CDel o] | _, _ => [] end) (sort_by str_ltb (map o_name (w_ccache w))).

  Definition step (w : world) (o : op) : world * obs :=
    match o with
    | UCreateNode name ls cs =>
        match find_anode name (w_nodes w) with
        | Some _ => (w, no_obs)
        | None => let a := mkANode name ls cs false in
                  (set_api w (w_nodes w ++ [a]) (w_ccs w) (w_rv w) (push_nev w (NAdd (node_view a))) (w_cfeed w), no_obs)
        end
    | ULabelNode name ls =>
        match find_anode name (w_nodes w) with
        | None => (w, no_obs)
        | Some a => let a' := mkANode name ls (an_cidrs a) (an_deleting a) in
                    (set_api w (upd_anode a' (w_nodes w)) (w_ccs w) (w_rv w) (push_nev w (NUpd (node_view a'))) (w_cfeed w), no_obs)
        end
    | UMarkNodeDeleting name =>
        match find_anode name (w_nodes w) with
        | None => (w, no_obs)
        | Some a => let a' := mkANode name (an_labels a) (an_cidrs a) true in
                    (set_api w (upd_anode a' (w_nodes w)) (w_ccs w) (w_rv w) (push_nev w (NUpd (node_view a'))) (w_cfeed w), no_obs)
        end
    | UDeleteNode name =>
        match find_anode name (w_nodes w) with
        | None => (w, no_obs)
        | Some a => (set_api w (del_anode name (w_nodes w)) (w_ccs w) (w_rv w) (push_nev w (NDel (node_view a))) (w_cfeed w), no_obs)
        end
    | UCreateCC o =>
        match find_cc (o_name o) (w_ccs w) with
        | Some _ => (w, no_obs)
        | None => let rv := w_rv w + 1 in let o' := with_rv o rv in
                  (set_api w (w_nodes w) (w_ccs w ++ [o']) rv (w_nfeed w) (push_cev w (CAdd o')), no_obs)
        end
    | UDeleteCC name =>
        match find_cc name (w_ccs w) with
        | None => (w, no_obs)
        | Some o =>
            let rv := w_rv w + 1 in
            match o_fins o with
            | [] => (set_api w (w_nodes w) (del_cc name (w_ccs w)) rv (w_nfeed w) (push_cev w (CDel (with_rv o rv))), no_obs)
            | _ => if o_deleting o then (w, no_obs)
                   else let o' := with_rv (with_deleting o) rv in
                        (set_api w (w_nodes w) (put_cc o' (w_ccs w)) rv (w_nfeed w) (push_cev w (CUpd o')), no_obs)
            end
        end
    | USetCCFinalizers name fins =>
        match find_cc name (w_ccs w) with
        | None => (w, no_obs)
        | Some o =>
            let rv := w_rv w + 1 in
            (* other actors never touch our finalizer *)
            let fins' := (if has_str finalizer (o_fins o) then [finalizer] else []) ++ remove_str finalizer fins in
            let o' := with_rv (with_fins o fins') rv in
            if o_deleting o' && match fins' with [] => true | _ => false end then
              (set_api w (w_nodes w) (del_cc name (w_ccs w)) rv (w_nfeed w) (push_cev w (CDel o')), no_obs)
            else (set_api w (w_nodes w) (put_cc o' (w_ccs w)) rv (w_nfeed w) (push_cev w (CUpd o')), no_obs)
        end
    | DeliverNode =>
        match w_nfeed w with
        | [] => (w, no_obs)
        | e :: rest => handle_nevent (set_caches w (w_ncache w) (w_ccache w) rest (w_cfeed w)) e
        end
    | DeliverNodeTombstone =>
        (* a missed delete: the notification carries the informer's last known state *)
        match w_nfeed w with
        | NDel n :: rest =>
            let last := match find_node (n_name n) (w_ncache w) with Some c => c | None => n end in
            handle_nevent (set_caches w (w_ncache w) (w_ccache w) rest (w_cfeed w)) (NDel last)
        | _ => (w, no_obs)
        end
    | DeliverCC =>
        match w_cfeed w with
        | [] => (w, no_obs)
        | e :: rest => handle_cevent (set_caches w (w_ncache w) (w_ccache w) (w_nfeed w) rest) e
        end
    | ResyncNodes =>
        (match w_ctl w with
         | Some _ => set_queues w (fold_left (fun q k => q_add k q) (sort_by str_ltb (map n_name (w_ncache w))) (w_nq w)) (w_cq w)
         | None => w end, no_obs)
    | ResyncCCs =>
        (match w_ctl w with
         | Some _ => set_queues w (w_nq w) (fold_left (fun q k => q_add k q) (sort_by str_ltb (map o_name (w_ccache w))) (w_cq w))
         | None => w end, no_obs)
    | RelistNodes =>
        if w_synced w then
          deliver_all_n (set_caches w (w_ncache w) (w_ccache w) [] (w_cfeed w)) (relist_nevents w) 0
        else (w, no_obs)
    | RelistCCs =>
        if w_synced w then
          (deliver_all_c (set_caches w (w_ncache w) (w_ccache w) (w_nfeed w) []) (relist_cevents w), no_obs)
        else (w, no_obs)
    | FetchNode wk key =>
        (set_fetch w ((wk, (key, find_node key (w_ncache w))) :: filter (fun x => negb (fst x =? wk)) (w_nfetch w)) (w_cfetch w), no_obs)
    | RunNode wk outs =>
        match find (fun x => fst x =? wk) (w_nfetch w) with
        | None => (w, no_obs)
        | Some (_, (key, cached)) =>
            run_node_sync (set_fetch w (filter (fun x => negb (fst x =? wk)) (w_nfetch w)) (w_cfetch w)) cached key outs
        end
    | FetchCC wk key =>
        (set_fetch w (w_nfetch w) ((wk, (key, find_cc key (w_ccache w))) :: filter (fun x => negb (fst x =? wk)) (w_cfetch w)), no_obs)
    | RunCC wk out =>
        match find (fun x => fst x =? wk) (w_cfetch w) with
        | None => (w, no_obs)
        | Some (_, (key, cached)) =>
            run_cc_sync (set_fetch w (w_nfetch w) (filter (fun x => negb (fst x =? wk)) (w_cfetch w))) key cached out
        end
    | ProcNode outs =>
        match w_ctl w, q_ready (w_nq w) with
        | Some _, key :: rest =>
            let w1 := set_queues w (mkQ rest (q_retry (w_nq w))) (w_cq w) in
            let '(w2, ob) := run_node_sync w1 (find_node key (w_ncache w1)) key outs in
            if ob_res ob =? 2 then (set_queues w2 (q_add_retry key (w_nq w2)) (w_cq w2), mkObs 2 (ob_fx ob) true)
            else (w2, ob)
        | _, _ => (w, no_obs)
        end
    | ProcCC out =>
        match w_ctl w, q_ready (w_cq w) with
        | Some _, key :: rest =>
            let w1 := set_queues w (w_nq w) (mkQ rest (q_retry (w_cq w))) in
            let '(w2, ob) := run_cc_sync w1 key (find_cc key (w_ccache w1)) out in
            if ob_res ob =? 2 then (set_queues w2 (w_nq w2) (q_add_retry key (w_cq w2)), mkObs 2 (ob_fx ob) true)
            else (w2, ob)
        | _, _ => (w, no_obs)
        end
    | Tick => (set_queues w (q_tick (w_nq w)) (q_tick (w_cq w)), no_obs)
    | Crash => (crashed w, no_obs)
    | Construct s1 s2 outs dp =>
        match w_ctl w with
        | Some _ => (w, no_obs)
        | None =>
            let '(m, fx, pan) := construct po lab (with_default dp (w_ccs w)) outs s1 s2 (map node_view (w_nodes w)) in
            let w0 := mkWorld (w_nodes w) (w_ccs w) (w_rv w) [] [] [] [] empty_q empty_q
                              (if pan then None else Some m) false [] [] (s1, s2) (w_delseen w) in
            (apply_effects w0 fx, mkObs (if pan then 3 else 1) fx false)
        end
    | StartInformers =>
        match w_ctl w with
        | None => (w, no_obs)
        | Some _ =>
            if w_synced w then (w, no_obs)
            else
              let nc := map node_view (w_nodes w) in
              let nq := fold_left (fun q n => q_add (n_name n) q) nc (w_nq w) in
              let cq := fold_left (fun q o => q_add (o_name o) q) (w_ccs w) (w_cq w) in
              (mkWorld (w_nodes w) (w_ccs w) (w_rv w) [] [] nc (w_ccs w) nq cq (w_ctl w) true (w_nfetch w) (w_cfetch w) (w_svc w) (w_delseen w), no_obs)
        end
    end.

  Definition run (w : world) (ops : list op) : world := fold_left (fun w o => fst (step w o)) ops w.

  (* the trace: every step's observation together with the world after it *)
  Fixpoint trace (w : world) (ops : list op) : list (op * obs * world) :=
    match ops with
    | [] => []
    | o :: ops' => let '(w', ob) := step w o in (o, ob, w') :: trace w' ops'
    end.
End Step.
