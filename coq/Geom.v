(* Geom.v -- the mathematical object the Go bit code is supposed to compute. Definitions only. *)
From NIPAM Require Export GoBits.
Open Scope N_scope.

(* size of one per-node block *)
Definition bsz (g : geom) : N := 2 ^ (gW g - gnlen g).
(* number of blocks *)
Definition maxc (g : geom) : N := 2 ^ (gnlen g - gclen g).
(* the i-th aligned sub-range *)
Definition block (g : geom) (i : N) : cidr := mkCidr (gf g) (gbase g + i * bsz g) (gnlen g).

(* The domain the property quantifies over (C13): every IPv4 geometry except the single
   2^32-block one, every IPv6 geometry with at most 16 index bits; the range base has
   arbitrary prefix bits and zero host bits (what ParseCIDRSloppy returns). *)
Definition wf_geom (g : geom) : Prop :=
  gclen g <= gnlen g /\ gnlen g <= gW g /\
  gbase g < 2 ^ gW g /\ gbase g mod 2 ^ (gW g - gclen g) = 0 /\
  match gf g with
  | V4 => ~ (gclen g = 0 /\ gnlen g = 32)
  | V6 => gnlen g - gclen g <= 16
  end.

Definition wf_geomb (g : geom) : bool :=
  (gclen g <=? gnlen g) && (gnlen g <=? gW g) &&
  (gbase g <? 2 ^ gW g) && (gbase g mod 2 ^ (gW g - gclen g) =? 0) &&
  match gf g with
  | V4 => negb ((gclen g =? 0) && (gnlen g =? 32))
  | V6 => gnlen g - gclen g <=? 16
  end.

(* the block numbers a CIDR touches *)
Definition touches (g : geom) (c : cidr) (i : N) : Prop := i < maxc g /\ overlap (block g i) c.

(* The zone ::ffff:0:0/96 of IPv4-mapped IPv6 addresses.  Go's net package treats these 16-byte
   values as IPv4 (To4() != nil), and so does the controller: an IPv6 range that meets this zone
   is outside the domain in which the model is faithful (DESIGN.md E6, known finding K1). *)
Definition v4zone : cidr := mkCidr V6 0xffff00000000 96.
Definition clean_geom (g : geom) : bool :=
  match gf g with V4 => true | V6 => negb (overlapb (grange g) v4zone) end.
Definition addr_ok (g : geom) (a : N) : bool :=
  match gf g with V4 => true | V6 => negb (v4mapped a) end.
