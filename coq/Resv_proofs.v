(* Resv_proofs.v -- the mechanism behind C01 for CIDRs the controller itself wrote, and behind C06:
   a block written to a node is a used key of an entry the node is associated with ([Held]); such a
   reservation survives every controller call except the release of an overlapping CIDR or of that very
   node; and no allocation ever hands out a block overlapping a held one. *)
From NIPAM Require Import Alloc Geom_proofs Pool_proofs Prio_proofs Alloc_proofs Inv_proofs Complete_proofs.
From Coq Require Import Lia.
Open Scope N_scope.

Definition Held (m : cidrmap) (name : str) (c : cidr) : Prop :=
  exists e pl, In e (all_entries m) /\ has_str name (cc_assoc e) = true /\ pool_of e (cf c) = Some pl /\ In c (used pl).

Definition mono (m m' : cidrmap) : Prop := forall name c, Held m name c -> Held m' name c.

Lemma mono_refl m : mono m m.  Proof. intros n c H; exact H. Qed.
Lemma mono_trans a b c : mono a b -> mono b c -> mono a c.
Proof. intros H1 H2 n x H. apply H2, H1, H. Qed.

(* ---------- msim preserves reservations ---------- *)
Lemma msim_entries m m' : msim m m' -> forall e, In e (all_entries m) -> exists e', In e' (all_entries m') /\ esim e e'.
Proof.
  intros H. unfold all_entries. induction H as [|[k1 l1] [k2 l2] a b [E F] H IH]; intros e He; [destruct He|].
  cbn [flat_map snd] in *. apply in_app_or in He. destruct He as [He|He].
  - cbn in F. clear - F He. induction F as [|x y l l' Hxy F IHF]; [destruct He|].
    destruct He as [<-|He]; [exists y; split; [apply in_or_app; left; left; reflexivity|exact Hxy]|].
    destruct (IHF He) as (e' & Hin & Hs). exists e'. split; [|exact Hs].
    apply in_app_or in Hin. apply in_or_app. destruct Hin as [Hin|Hin]; [left; right; exact Hin|right; exact Hin].
  - destruct (IH e He) as (e' & Hin & Hs). exists e'. split; [apply in_or_app; right; exact Hin|exact Hs].
Qed.

Lemma msim_mono m m' : msim m m' -> mono m m'.
Proof.
  intros H name c (e & pl & He & Ha & Hp & Hc).
  destruct (msim_entries m m' H e He) as (e' & He' & Hs).
  pose proof (esim_pool_of _ _ (cf c) Hs) as Hpo. rewrite Hp in Hpo.
  destruct (pool_of e' (cf c)) as [pl'|] eqn:Ep'; [|contradiction]. destruct Hpo as [_ Hu].
  destruct Hs as (_ & _ & _ & Hassoc & _).
  exists e', pl'. split; [exact He'|]. split; [rewrite <- Hassoc; exact Ha|]. split; [exact Ep'|apply Hu; exact Hc].
Qed.

(* ---------- replacing one entry by a bigger one ---------- *)
Definition grows (e e' : ccset) : Prop :=
  (forall name, has_str name (cc_assoc e) = true -> has_str name (cc_assoc e') = true) /\
  forall f pl, pool_of e f = Some pl -> exists pl', pool_of e' f = Some pl' /\ forall c, In c (used pl) -> In c (used pl').

Lemma grows_refl e : grows e e.
Proof. split; [auto|]. intros f pl H. exists pl. split; [exact H|auto]. Qed.
Lemma grows_trans a b c : grows a b -> grows b c -> grows a c.
Proof.
  intros [A1 A2] [B1 B2]. split; [auto|]. intros f pl H. destruct (A2 f pl H) as (pl1 & H1 & U1).
  destruct (B2 f pl1 H1) as (pl2 & H2 & U2). exists pl2. split; [exact H2|auto].
Qed.

Lemma in_set_nth_cover {A} i (x e e' : A) l : nth_error l i = Some e -> In x l -> In x (set_nth i e' l) \/ x = e.
Proof.
  revert l. induction i as [|i IH]; intros [|h t]; cbn; try discriminate.
  - intros E [<-|H]; [right; inversion E; reflexivity|left; right; exact H].
  - intros E [<-|H]; [left; left; reflexivity|]. destruct (IH t E H) as [H1|H1]; [left; right; exact H1|right; exact H1].
Qed.
Lemma in_set_nth_new {A} i (e e' : A) l : nth_error l i = Some e -> In e' (set_nth i e' l).
Proof. revert l. induction i as [|i IH]; intros [|h t]; cbn; try discriminate; intros E; [left; reflexivity|right; apply IH; exact E]. Qed.

Lemma all_entries_set_key_cover k l l' m x :
  find_key k m = Some l -> In x (all_entries m) -> In x (all_entries (set_key k l' m)) \/ In x l.
Proof.
  unfold all_entries. induction m as [|[k0 l0] m IH]; cbn; [discriminate|]. destruct (str_eqb k k0) eqn:E.
  - intros Hf Hx. inversion Hf; subst. cbn. apply in_app_or in Hx. destruct Hx as [Hx|Hx]; [right; exact Hx|left; apply in_or_app; right; exact Hx].
  - intros Hf Hx. cbn. apply in_app_or in Hx. destruct Hx as [Hx|Hx]; [left; apply in_or_app; left; exact Hx|].
    destruct (IH Hf Hx) as [H1|H1]; [left; apply in_or_app; right; exact H1|right; exact H1].
Qed.
Lemma all_entries_set_key_new k l l' m x : find_key k m = Some l -> In x l' -> In x (all_entries (set_key k l' m)).
Proof.
  unfold all_entries. induction m as [|[k0 l0] m IH]; cbn; [discriminate|]. destruct (str_eqb k k0) eqn:E.
  - intros _ Hx. cbn. apply in_or_app. left. exact Hx.
  - intros Hf Hx. cbn. apply in_or_app. right. apply IH; assumption.
Qed.

Lemma set_entry_cover m p e e' x :
  get_entry m p = Some e -> In x (all_entries m) -> In x (all_entries (set_entry m p e')) \/ x = e.
Proof.
  unfold get_entry, set_entry. destruct (find_key (fst p) m) as [l|] eqn:Ef; [|discriminate]. intros Hn Hx.
  destruct (all_entries_set_key_cover (fst p) l (set_nth (snd p) e' l) m x Ef Hx) as [H|H]; [left; exact H|].
  destruct (in_set_nth_cover (snd p) x e e' l Hn H) as [H1|H1]; [left; eapply all_entries_set_key_new; eassumption|right; exact H1].
Qed.
Lemma set_entry_new m p e e' : get_entry m p = Some e -> In e' (all_entries (set_entry m p e')).
Proof.
  unfold get_entry, set_entry. destruct (find_key (fst p) m) as [l|] eqn:Ef; [|discriminate]. intros Hn.
  eapply all_entries_set_key_new; [exact Ef|]. eapply in_set_nth_new. exact Hn.
Qed.

Lemma set_entry_mono m p e e' : get_entry m p = Some e -> grows e e' -> mono m (set_entry m p e').
Proof.
  intros Hg [G1 G2] name c (x & pl & Hx & Ha & Hp & Hc).
  destruct (set_entry_cover m p e e' x Hg Hx) as [H| ->].
  - exists x, pl. repeat split; assumption.
  - destruct (G2 _ _ Hp) as (pl' & Hp' & Hu). exists e', pl'. split; [eapply set_entry_new; exact Hg|].
    split; [apply G1; exact Ha|]. split; [exact Hp'|apply Hu; exact Hc].
Qed.

(* ---------- operations that only add ---------- *)
Lemma has_str_cons name x l : has_str name l = true -> has_str name (x :: l) = true.
Proof. unfold has_str. cbn. intros ->. apply Bool.orb_true_r. Qed.

Lemma add_assoc_grows n e : grows e (add_assoc n e).
Proof.
  split.
  - intros name H. unfold add_assoc. cbn. destruct (has_str n (cc_assoc e)); [exact H|apply has_str_cons; exact H].
  - intros f pl H. exists pl. split; [destruct f; exact H|auto].
Qed.
Lemma add_assoc_has n e : has_str n (cc_assoc (add_assoc n e)) = true.
Proof. unfold add_assoc. cbn. destruct (has_str n (cc_assoc e)) eqn:E; [exact E|]. unfold has_str. cbn. rewrite str_eqb_refl. reflexivity. Qed.
Lemma with_term_grows e t : grows e (with_term e t).
Proof. split; [auto|]. intros f pl H. exists pl. split; [destruct f; exact H|auto]. Qed.

Lemma with_pool_grows e f pl pl' :
  pool_of e f = Some pl -> (forall c, In c (used pl) -> In c (used pl')) -> grows e (with_pool e f pl').
Proof.
  intros Hp Hu. split; [intros name H; destruct f; exact H|].
  intros f' q Hq. destruct (fam_eq_dec f f') as [<-|Hne].
  - exists pl'. split; [apply pool_of_with_pool_same|]. rewrite Hp in Hq. inversion Hq; subst. exact Hu.
  - exists q. split; [rewrite pool_of_with_pool_other; assumption|auto].
Qed.

Lemma occupy_used_grows pl x pl' : PoolInv pl -> clean_geom (pg pl) = true -> wf_cidr x -> occupy pl x = Some pl' ->
  forall c, In c (used pl) -> In c (used pl').
Proof.
  intros I Hcl Hx Ho c Hc. pose proof (occupy_spec pl x I Hcl Hx) as Hs. rewrite Ho in Hs.
  destruct Hs as (_ & _ & _ & _ & _ & _ & Hu). destruct (inv_blocks pl I c Hc) as (i & Hi & ->).
  apply Hu; [exact Hi|left; exact Hc].
Qed.

Lemma cc_occupy_grows e x e' : EntryInv e -> wf_cidr x -> cc_occupy e x = Ok e' -> grows e e'.
Proof.
  unfold cc_occupy. intros E Hx H. destruct (pool_of e (cf x)) as [pl|] eqn:Ep; [|discriminate].
  destruct (occupy pl x) as [pl'|] eqn:Eo; [|discriminate]. inversion H; subst.
  destruct (pool_of_PI e (cf x) pl E Ep) as (I & _ & Hcl).
  eapply with_pool_grows; [exact Ep|]. eapply occupy_used_grows; eassumption.
Qed.
Lemma cc_occupy_has e x e' : EntryInv e -> wf_cidr x -> cc_occupy e x = Ok e' ->
  forall i pl, pool_of e (cf x) = Some pl -> i < maxc (pg pl) -> overlap (block (pg pl) i) x ->
  exists pl', pool_of e' (cf x) = Some pl' /\ In (block (pg pl) i) (used pl').
Proof.
  unfold cc_occupy. intros E Hx H i pl Ep Hi Hov. rewrite Ep in H.
  destruct (occupy pl x) as [pl'|] eqn:Eo; [|discriminate]. inversion H; subst.
  destruct (pool_of_PI e (cf x) pl E Ep) as (I & _ & Hcl).
  pose proof (occupy_spec pl x I Hcl Hx) as Hs. rewrite Eo in Hs. destruct Hs as (_ & _ & _ & _ & _ & _ & Hu).
  exists pl'. split; [apply pool_of_with_pool_same|]. apply Hu; [exact Hi|right; exact Hov].
Qed.

Lemma occupy_list_grows cs : forall e e' o, EntryInv e -> Forall wf_pcidr cs -> occupy_list e cs = (e', o) -> grows e e'.
Proof.
  induction cs as [|pc cs IH]; intros e e' o E Hw H; cbn in H; [inversion H; subst; apply grows_refl|].
  inversion Hw; subst. destruct pc as [|x canon]; [inversion H; subst; apply grows_refl|].
  destruct (cc_occupy e x) as [e1|er|] eqn:Eo; try (inversion H; subst; apply grows_refl).
  eapply grows_trans; [eapply cc_occupy_grows; [exact E|exact H2|exact Eo]|].
  eapply IH; [eapply cc_occupy_inv; eassumption|exact H3|exact H].
Qed.

Lemma occupy_try_mono node ps : forall m m' r, MapInv m -> wf_node node -> occupy_try m node ps = (m', r) -> mono m m'.
Proof.
  induction ps as [|p ps IH]; intros m m' r M Hw H; cbn in H; [inversion H; subst; apply mono_refl|].
  destruct (get_entry m p) as [e|] eqn:Eg; [|inversion H; subst; apply mono_refl].
  pose proof (get_entry_inv _ _ _ M Eg) as Ee.
  destruct (negb (can_occupy_all e (n_cidrs node))); [eapply IH; eassumption|].
  destruct (occupy_list e (n_cidrs node)) as [e' o] eqn:Eo.
  pose proof (occupy_list_grows _ _ _ _ Ee Hw Eo) as G.
  destruct o.
  - inversion H; subst. eapply set_entry_mono; [exact Eg|]. eapply grows_trans; [exact G|apply add_assoc_grows].
  - eapply mono_trans; [eapply set_entry_mono; [exact Eg|exact G]|].
    eapply IH; [|exact Hw|exact H]. apply set_entry_inv; [exact M|]. eapply occupy_list_inv; eassumption.
  - inversion H; subst. eapply set_entry_mono; [exact Eg|exact G].
Qed.

Lemma occupy_cidrs_mono po lab m node m' r : MapInv m -> wf_node node -> occupy_cidrs po lab m node = (m', r) -> mono m m'.
Proof.
  intros M Hw H. unfold occupy_cidrs in H. destruct (n_cidrs node) as [|pc0 pcs]; [inversion H; subst; apply mono_refl|].
  destruct (ordered_matching po lab m (n_labels node) false) as [ps|e|]; try (inversion H; subst; apply mono_refl).
  destruct ps as [|p1 ps]; [inversion H; subst; apply mono_refl|]. eapply occupy_try_mono; eassumption.
Qed.

(* ---------- a fresh block overlaps nothing that is held ---------- *)
Lemma fresh_avoids_held m x : overlaps_allocated m x = false -> forall name c, Held m name c -> overlapb x c = false.
Proof.
  intros H name c (e & pl & He & _ & Hp & Hc).
  destruct (fam_eqb (cf x) (cf c)) eqn:Ef.
  - apply fam_eqb_eq in Ef. eapply (overlaps_allocated_false m x H e pl c He); [rewrite Ef; exact Hp|exact Hc].
  - unfold overlapb. rewrite Ef. reflexivity.
Qed.

Theorem allocate_cidr_avoids_held held m p f c pl m' x :
  get_entry m p = Some c -> pool_of c f = Some pl -> PoolInv pl -> gf (pg pl) = f ->
  allocate_cidr held m p f = (m', Ok x) -> forall name k, Held m name k -> overlapb x k = false.
Proof.
  intros Hg Hp I Hf H name k Hk.
  destruct (allocate_cidr_ok_shape held m p f c pl m' x Hg Hp I Hf H)
    as (ma & ca & cb & pla & j & Hms & _ & _ & _ & _ & _ & _ & _ & Hov & _ & _).
  apply (fresh_avoids_held ma x Hov name k). apply (msim_mono _ _ Hms). exact Hk.
Qed.

(* ---------- giving blocks back keeps every key they do not overlap ---------- *)
Lemma cc_release_keeps e x e' : EntryInv e -> wf_cidr x -> cc_release e x = Ok e' ->
  cc_assoc e' = cc_assoc e /\
  forall f pl k, pool_of e f = Some pl -> In k (used pl) -> overlapb x k = false ->
    exists pl', pool_of e' f = Some pl' /\ In k (used pl').
Proof.
  unfold cc_release. intros E Hx H. destruct (pool_of e (cf x)) as [pl0|] eqn:Ep; [|discriminate].
  destruct (release pl0 x) as [pl1|] eqn:Er; [|discriminate]. inversion H; subst. split; [destruct (cf x); reflexivity|].
  intros f pl k Hp Hk Hov. destruct (fam_eq_dec (cf x) f) as [<-|Hne].
  - rewrite Ep in Hp. inversion Hp; subst pl0. exists pl1. split; [apply pool_of_with_pool_same|].
    destruct (pool_of_PI e (cf x) pl E Ep) as (I & _ & Hcl).
    pose proof (release_spec pl x I Hcl Hx) as Hs. rewrite Er in Hs. destruct Hs as (_ & _ & _ & _ & _ & _ & Hu).
    destruct (inv_blocks pl I k Hk) as (i & Hi & ->). apply Hu; [exact Hi|]. split; [exact Hk|].
    intros Hovl. assert (overlapb x (block (pg pl) i) = true); [|congruence].
    apply overlapb_spec; [exact Hx|apply block_wf; [apply (inv_wf pl I)|exact Hi]|].
    destruct Hovl as [Hf (y & Hy1 & Hy2)]. split; [symmetry; exact Hf|exists y; split; assumption].
  - exists pl. split; [rewrite pool_of_with_pool_other; assumption|exact Hk].
Qed.

Lemma release_list_keeps xs : forall e e', EntryInv e -> Forall wf_cidr xs -> release_list e xs = Ok e' ->
  cc_assoc e' = cc_assoc e /\
  forall f pl k, pool_of e f = Some pl -> In k (used pl) -> (forall x, In x xs -> overlapb x k = false) ->
    exists pl', pool_of e' f = Some pl' /\ In k (used pl').
Proof.
  induction xs as [|x xs IH]; intros e e' E Hw H; cbn in H.
  - inversion H; subst. split; [reflexivity|]. intros f pl k Hp Hk _. exists pl. split; assumption.
  - inversion Hw; subst. destruct (cc_release e x) as [e1|er|] eqn:Er; try discriminate.
    destruct (cc_release_keeps _ _ _ E H2 Er) as [Ha1 Hk1].
    destruct (IH e1 e' (cc_release_inv _ _ _ E H2 Er) H3 H) as [Ha2 Hk2].
    split; [congruence|]. intros f pl k Hp Hk Hov.
    destruct (Hk1 f pl k Hp Hk (Hov x (or_introl eq_refl))) as (pl1 & Hp1 & Hin1).
    apply (Hk2 f pl1 k Hp1 Hin1). intros y Hy. apply Hov. right. exact Hy.
Qed.

Lemma release_in_keeps m p xs m' r : MapInv m -> Forall wf_cidr xs -> release_in m p xs = (m', r) ->
  forall name k, Held m name k -> (forall x, In x xs -> overlapb x k = false) -> Held m' name k.
Proof.
  intros M Hw H name k Hk Hov. unfold release_in in H.
  destruct (get_entry m p) as [e|] eqn:Eg; [|inversion H; subst; exact Hk].
  destruct (release_list e xs) as [e'|er|] eqn:Er; try (inversion H; subst; exact Hk).
  inversion H; subst. destruct Hk as (x0 & pl & Hx0 & Ha & Hp & Hc).
  destruct (release_list_keeps xs e e' (get_entry_inv _ _ _ M Eg) Hw Er) as [Hassoc Hkeep].
  destruct (set_entry_cover m p e e' x0 Eg Hx0) as [Hin| ->].
  - exists x0, pl. repeat split; assumption.
  - destruct (Hkeep _ _ _ Hp Hc Hov) as (pl' & Hp' & Hin'). exists e', pl'. split; [eapply set_entry_new; exact Eg|].
    split; [rewrite Hassoc; exact Ha|]. split; assumption.
Qed.

(* ---------- prioritizedCIDRs: what a successful reservation looks like ---------- *)
Definition keys_at (m : cidrmap) (p : path) (cs : list cidr) : Prop :=
  exists e, get_entry m p = Some e /\ forall x, In x cs -> exists pl, pool_of e (cf x) = Some pl /\ In x (used pl).

Lemma occupy_own_block_grows c1 x c2 pl1 j :
  pool_of c1 (cf x) = Some pl1 -> PoolInv pl1 -> clean_geom (pg pl1) = true -> j < maxc (pg pl1) -> x = block (pg pl1) j ->
  cc_occupy c1 x = Ok c2 ->
  grows c1 c2 /\ exists q, pool_of c2 (cf x) = Some q /\ In x (used q) /\ forall f, f <> cf x -> pool_of c2 f = pool_of c1 f.
Proof.
  intros Hp I Hcl Hj Hx Ho. unfold cc_occupy in Ho. rewrite Hp in Ho.
  destruct (occupy pl1 x) as [q|] eqn:Eq; [|discriminate]. inversion Ho; subst c2.
  assert (Hwx : wf_cidr x) by (rewrite Hx; apply block_wf; [apply (inv_wf pl1 I)|exact Hj]).
  split; [eapply with_pool_grows; [exact Hp|eapply occupy_used_grows; eassumption]|].
  exists q. split; [apply pool_of_with_pool_same|]. split.
  - pose proof (occupy_spec pl1 x I Hcl Hwx) as Hs. rewrite Eq in Hs. destruct Hs as (_ & _ & _ & _ & _ & _ & Hu).
    rewrite Hx at 1. apply Hu; [exact Hj|]. right. rewrite <- Hx.
    split; [reflexivity|]. exists (ca x). unfold in_cidr. split; split; try lia;
      apply N.lt_add_pos_r; unfold hostsz; apply N.neq_0_lt_0; apply N.pow_nonzero; discriminate.
  - intros f Hne. apply pool_of_with_pool_other. congruence.
Qed.

Lemma prioritized_try_result held ps : forall m m' r,
  MapInv m -> prioritized_try held m ps = (m', r) ->
  match r with
  | Err _ => msim m m'
  | Ok (cs, p) => mono m m' /\ (forall name k, Held m name k -> forall x, In x cs -> overlapb x k = false) /\ keys_at m' p cs
  | Panic => True
  end.
Proof.
  induction ps as [|p0 ps IH]; intros m m' r M H; cbn [prioritized_try] in H; [inversion H; subst; apply msim_refl|].
  destruct (get_entry m p0) as [c|] eqn:Eg; [|inversion H; subst; exact I].
  pose proof (get_entry_inv m p0 c M Eg) as Ec.
  (* continuing after a failed attempt: compose with the relation of the rest *)
  assert (Hcont : forall mk, MapInv mk -> msim m mk -> prioritized_try held mk ps = (m', r) ->
            match r with
            | Err _ => msim m m'
            | Ok (cs, p) => mono m m' /\ (forall name k, Held m name k -> forall x, In x cs -> overlapb x k = false) /\ keys_at m' p cs
            | Panic => True
            end).
  { intros mk Mk Hmk Hk. specialize (IH mk m' r Mk Hk). destruct r as [[cs p]|e|]; [|eapply msim_trans; eassumption|exact I].
    destruct IH as (A & B & C). split; [eapply mono_trans; [apply msim_mono; exact Hmk|exact A]|].
    split; [|exact C]. intros name k Hh x Hx. eapply B; [apply (msim_mono _ _ Hmk); exact Hh|exact Hx]. }
  destruct (cc_v4 c) as [p4|] eqn:E4.
  - destruct (ei_v4 c Ec p4 E4) as (I4 & Hf4 & Hcl4).
    destruct (allocate_cidr held m p0 V4) as [m1 r4] eqn:Ea4.
    pose proof (allocate_cidr_inv _ _ _ _ _ _ M Ea4) as M1.
    destruct r4 as [x4|e4|]; [| |inversion H; subst; exact I].
    + destruct (allocate_cidr_ok_shape held m p0 V4 c p4 m1 x4 Eg E4 I4 Hf4 Ea4)
        as (ma & c1 & c2 & pl1 & j & Hma & Hga & Hpa & Ia & Hpga & Hj & Hx4 & Hfr & Hov4 & Hocc & Hm1).
      assert (Hcf4 : cf x4 = V4) by (rewrite Hx4; cbn; exact Hf4).
      assert (Hcla : clean_geom (pg pl1) = true) by (rewrite Hpga; exact Hcl4).
      destruct (occupy_own_block_grows c1 x4 c2 pl1 j ltac:(rewrite Hcf4; exact Hpa) Ia Hcla ltac:(rewrite Hpga; exact Hj) ltac:(rewrite Hpga; exact Hx4) Hocc)
        as (Hgr & q & Hq & Hinq & Hoth).
      assert (Hmono1 : mono m m1).
      { eapply mono_trans; [apply msim_mono; exact Hma|]. rewrite Hm1. eapply set_entry_mono; [exact Hga|exact Hgr]. }
      assert (Hfresh4 : forall name k, Held m name k -> overlapb x4 k = false).
      { intros name k Hk. apply (fresh_avoids_held ma x4 Hov4 name k). apply (msim_mono _ _ Hma). exact Hk. }
      assert (Hg1 : get_entry m1 p0 = Some c2) by (rewrite Hm1; eapply get_set_entry_same; exact Hga).
      destruct (cc_v6 c) as [p6|] eqn:E6.
      * destruct (allocate_cidr held m1 p0 V6) as [m2 r6] eqn:Ea6.
        pose proof (allocate_cidr_inv _ _ _ _ _ _ M1 Ea6) as M2.
        pose proof (get_entry_inv m1 p0 c2 M1 Hg1) as Ec2.
        assert (He1 : esim c c1) by (pose proof (msim_get _ _ p0 Hma) as Ho; rewrite Eg, Hga in Ho; exact Ho).
        assert (Hp62 : pool_of c2 V6 = pool_of c1 V6) by (apply Hoth; rewrite Hcf4; discriminate).
        destruct (pool_of c1 V6) as [p6a|] eqn:Ep6a;
          [|destruct He1 as (_ & He6 & _); rewrite E6 in He6; cbn in Ep6a; rewrite Ep6a in He6; contradiction].
        destruct (pool_of_PI c2 V6 p6a Ec2 Hp62) as (I6 & Hf6 & Hcl6).
        destruct r6 as [x6|e6|]; [| |inversion H; subst; exact I].
        -- (* both families reserved *)
           inversion H; subst m' r. clear H.
           destruct (allocate_cidr_ok_shape held m1 p0 V6 c2 p6a m2 x6 Hg1 Hp62 I6 Hf6 Ea6)
             as (mb & d1 & d2 & pl6 & j6 & Hmb & Hgb & Hpb & Ib & Hpgb & Hj6 & Hx6 & _ & Hov6 & Hocc6 & Hm2).
           assert (Hcf6 : cf x6 = V6) by (rewrite Hx6; cbn; exact Hf6).
           destruct (occupy_own_block_grows d1 x6 d2 pl6 j6 ltac:(rewrite Hcf6; exact Hpb) Ib ltac:(rewrite Hpgb; exact Hcl6)
                       ltac:(rewrite Hpgb; exact Hj6) ltac:(rewrite Hpgb; exact Hx6) Hocc6) as (Hgr6 & q6 & Hq6 & Hinq6 & Hoth6).
           split; [eapply mono_trans; [exact Hmono1|]; eapply mono_trans; [apply msim_mono; exact Hmb|];
                   rewrite Hm2; eapply set_entry_mono; [exact Hgb|exact Hgr6]|].
           split.
           ++ intros name k Hk x Hx. destruct Hx as [<-|[<-|[]]]; [exact (Hfresh4 name k Hk)|].
              apply (fresh_avoids_held mb x6 Hov6 name k). apply (msim_mono _ _ Hmb). apply Hmono1. exact Hk.
           ++ exists d2. split; [rewrite Hm2; eapply get_set_entry_same; exact Hgb|].
              intros x Hx. destruct Hx as [<-|[<-|[]]].
              ** (* the IPv4 block is still there: d1 is [esim] to c2, and d2 differs from d1 in the IPv6 pool only *)
                 assert (Hed : esim c2 d1) by (pose proof (msim_get _ _ p0 Hmb) as Ho; rewrite Hg1, Hgb in Ho; exact Ho).
                 pose proof (esim_pool_of _ _ (cf x4) Hed) as Hpo. rewrite Hq in Hpo.
                 destruct (pool_of d1 (cf x4)) as [qd|] eqn:Eqd; [|contradiction]. destruct Hpo as [_ Hu].
                 exists qd. split; [rewrite Hoth6; [exact Eqd|rewrite Hcf4, Hcf6; discriminate]|apply Hu; exact Hinq].
              ** exists q6. split; assumption.
        -- (* IPv6 exhausted: the IPv4 block is given back, the next entry is tried *)
           destruct (allocate_cidr_complete held m1 p0 V6 c2 p6a m2 e6 Hg1 Hp62 I6 Hf6 Hcl6 Ea6) as (_ & Hm12 & _).
           pose proof (msim_get _ _ p0 Hm12) as Hg2. rewrite Hg1 in Hg2.
           destruct (get_entry m2 p0) as [c'|] eqn:Eg2; [|contradiction].
           assert (Hrel_ok : exists c'', cc_release c' x4 = Ok c'').
           { unfold cc_release. pose proof (esim_pool_of _ _ (cf x4) Hg2) as Hpo. rewrite Hq in Hpo.
             destruct (pool_of c' (cf x4)) as [pl'|] eqn:Ep'; [|contradiction]. destruct Hpo as [Hpg' _].
             destruct (pool_of_PI c' (cf x4) pl' (get_entry_inv m2 p0 c' M2 Eg2) Ep') as (I' & _ & Hcl').
             assert (Hgeo : pg pl' = pg pl1).
             { rewrite <- Hpg'. unfold cc_occupy in Hocc. rewrite Hcf4, Hpa in Hocc. destruct (occupy pl1 x4) as [q0|] eqn:Eq0; [|discriminate].
               inversion Hocc; subst c2. rewrite Hcf4 in Hq. cbn in Hq. inversion Hq; subst q0.
               pose proof (occupy_spec pl1 x4 Ia Hcla ltac:(rewrite Hx4, <- Hpga; apply block_wf; [apply (inv_wf pl1 Ia)|rewrite Hpga; exact Hj])) as Ho.
               rewrite Eq0 in Ho. destruct Ho as (_ & _ & _ & Hqq & _). exact Hqq. }
             destruct (release pl' x4) as [rr|] eqn:Er; [eexists; reflexivity|].
             exfalso. eapply (release_own_block_ok pl' x4 j I' Hcl'); [rewrite Hgeo, Hpga; exact Hj|rewrite Hgeo, Hpga; exact Hx4|exact Er]. }
           destruct Hrel_ok as (c'' & Hrel_ok). rewrite Hrel_ok in H.
           assert (Hm3 : msim ma (set_entry m2 p0 c'')).
           { eapply (reserve_release_sim ma p0 c1 c2 x4 m2 c' c'' pl1 j Ia Hcla M2 Hga); try eassumption.
             - rewrite Hcf4. exact Hpa.
             - rewrite Hpga. exact Hj.
             - rewrite Hpga. exact Hx4.
             - rewrite <- Hm1. exact Hm12. }
           assert (M3 : MapInv (set_entry m2 p0 c'')).
           { apply set_entry_inv; [exact M2|]. eapply cc_release_inv; [exact (get_entry_inv m2 p0 c' M2 Eg2)| |exact Hrel_ok].
             rewrite Hx4, <- Hpga. apply block_wf; [apply (inv_wf pl1 Ia)|rewrite Hpga; exact Hj]. }
           apply (Hcont _ M3 (msim_trans _ _ _ Hma Hm3) H).
      * (* single stack IPv4 *)
        inversion H; subst m' r. split; [exact Hmono1|]. split.
        -- intros name k Hk x [<-|[]]. exact (Hfresh4 name k Hk).
        -- exists c2. split; [exact Hg1|]. intros x [<-|[]]. exists q. split; assumption.
    + destruct (allocate_cidr_complete held m p0 V4 c p4 m1 e4 Eg E4 I4 Hf4 Hcl4 Ea4) as (_ & Hm1 & _).
      apply (Hcont _ M1 Hm1 H).
  - destruct (cc_v6 c) as [p6|] eqn:E6.
    + destruct (ei_v6 c Ec p6 E6) as (I6 & Hf6 & Hcl6).
      destruct (allocate_cidr held m p0 V6) as [m2 r6] eqn:Ea6.
      pose proof (allocate_cidr_inv _ _ _ _ _ _ M Ea6) as M2.
      destruct r6 as [x6|e6|]; [| |inversion H; subst; exact I].
      * inversion H; subst m' r. clear H.
        destruct (allocate_cidr_ok_shape held m p0 V6 c p6 m2 x6 Eg E6 I6 Hf6 Ea6)
          as (mb & d1 & d2 & pl6 & j6 & Hmb & Hgb & Hpb & Ib & Hpgb & Hj6 & Hx6 & _ & Hov6 & Hocc6 & Hm2).
        assert (Hcf6 : cf x6 = V6) by (rewrite Hx6; cbn; exact Hf6).
        destruct (occupy_own_block_grows d1 x6 d2 pl6 j6 ltac:(rewrite Hcf6; exact Hpb) Ib ltac:(rewrite Hpgb; exact Hcl6)
                    ltac:(rewrite Hpgb; exact Hj6) ltac:(rewrite Hpgb; exact Hx6) Hocc6) as (Hgr6 & q6 & Hq6 & Hinq6 & _).
        split; [eapply mono_trans; [apply msim_mono; exact Hmb|]; rewrite Hm2; eapply set_entry_mono; [exact Hgb|exact Hgr6]|].
        split.
        -- intros name k Hk x [<-|[]]. apply (fresh_avoids_held mb x6 Hov6 name k). apply (msim_mono _ _ Hmb). exact Hk.
        -- exists d2. split; [rewrite Hm2; eapply get_set_entry_same; exact Hgb|]. intros x [<-|[]]. exists q6. split; assumption.
      * destruct (allocate_cidr_complete held m p0 V6 c p6 m2 e6 Eg E6 I6 Hf6 Hcl6 Ea6) as (_ & Hm2 & _).
        apply (Hcont _ M2 Hm2 H).
    + (* an entry without pools: the reservation is empty *)
      inversion H; subst m' r. split; [apply mono_refl|]. split; [intros name k _ x []|]. exists c. split; [exact Eg|intros x []].
Qed.

(* ---------- updateCIDRsAllocation ---------- *)
Lemma assoc_at_held m p e name cs :
  get_entry m p = Some e -> (forall x, In x cs -> exists pl, pool_of e (cf x) = Some pl /\ In x (used pl)) ->
  forall x, In x cs -> Held (set_entry m p (add_assoc name e)) name x.
Proof.
  intros Hg Hk x Hx. destruct (Hk x Hx) as (pl & Hp & Hin).
  exists (add_assoc name e), pl. split; [eapply set_entry_new; exact Hg|]. split; [apply add_assoc_has|].
  split; [destruct (cf x); exact Hp|exact Hin].
Qed.

Lemma update_keeps canp apisame m1 name cs p reread outs m' r fx :
  MapInv m1 -> Forall wf_cidr cs -> keys_at m1 p cs ->
  update_cidrs_allocation canp apisame m1 name cs p reread outs = (m', r, fx) ->
  (forall nm k, Held m1 nm k -> (forall x, In x cs -> overlapb x k = false) -> Held m' nm k) /\
  (r = Ok tt -> (exists o, In (FxPatch name cs o) fx) -> forall x, In x cs -> Held m' name x) /\
  (In (FxGetNode name false) fx -> forall x, In x cs -> Held m' name x).
Proof.
  intros M Hw (e & Hg & Hkeys) H. unfold update_cidrs_allocation in H.
  assert (Hrel : forall m2 r2, release_in m1 p cs = (m2, r2) ->
            forall nm k, Held m1 nm k -> (forall x, In x cs -> overlapb x k = false) -> Held m2 nm k).
  { intros m2 r2 Hr. eapply release_in_keeps; eassumption. }
  assert (Hadd : forall nm k, Held m1 nm k -> Held (set_entry m1 p (add_assoc name e)) nm k).
  { intros nm k Hk. eapply (set_entry_mono m1 p e); [exact Hg|apply add_assoc_grows|exact Hk]. }
  destruct reread as [n|].
  2:{ destruct (release_in m1 p cs) as [m2 r2] eqn:Er. inversion H; subst.
      split; [eapply Hrel; reflexivity|]. split; [discriminate|intros []]. }
  destruct ((length (n_cidrs n) =? length cs)%nat && same_cidrs (n_cidrs n) cs)%bool.
  { rewrite Hg in H. inversion H; subst. split; [intros nm k Hk _; apply Hadd; exact Hk|].
    split; [intros _ (o & []) |intros []]. }
  destruct (n_cidrs n) as [|c0 cs0].
  2:{ destruct (release_in m1 p cs) as [m2 r2] eqn:Er. inversion H; subst.
      split; [eapply Hrel; reflexivity|]. split; [intros _ (o & [])|intros []]. }
  destruct (patch_loop (canp cs) name cs outs 3) as [ok fxp] eqn:Epl.
  pose proof (patch_loop_patches (canp cs) name cs outs 3) as Hpl. rewrite Epl in Hpl. cbn [snd] in Hpl.
  assert (Hnoget : ~ In (FxGetNode name false) fxp).
  { intros Hin. destruct (Hpl _ Hin) as (o & Ho). discriminate Ho. }
  destruct ok.
  { rewrite Hg in H. inversion H; subst. split; [intros nm k Hk _; apply Hadd; exact Hk|].
    split; [intros _ _; apply (assoc_at_held m1 p e name cs Hg Hkeys)|intros Hin; contradiction]. }
  (* all attempts failed *)
  match type of H with context [existsb ?f1 fxp] => destruct (existsb f1 fxp) end.
  - destruct (nth_error outs 3) as [[]|] eqn:En.
    all: try (destruct (apisame cs || _)%bool;
              [rewrite Hg in H; inversion H; subst;
               split; [intros nm k Hk _; apply Hadd; exact Hk|];
               split; [intros _ _; apply (assoc_at_held m1 p e name cs Hg Hkeys)|];
               intros Hin; apply in_app_or in Hin; destruct Hin as [Hin|[Hin|[]]]; [contradiction|discriminate Hin]
              |destruct (release_in m1 p cs) as [m2 r2] eqn:Er; inversion H; subst;
               split; [eapply Hrel; reflexivity|];
               split; [intros Hr; destruct r2 as [[]|?|]; discriminate Hr|];
               intros Hin; apply in_app_or in Hin; destruct Hin as [Hin|[Hin|[]]]; [|discriminate Hin];
               apply in_app_or in Hin; destruct Hin as [Hin|[Hin|[]]]; [contradiction|discriminate Hin]]).
    (* the read-back failed too: reservation and association are kept *)
    rewrite Hg in H. inversion H; subst.
    split; [intros nm k Hk _; apply Hadd; exact Hk|].
    split; [discriminate|]. intros _. apply (assoc_at_held m1 p e name cs Hg Hkeys).
  - destruct (release_in m1 p cs) as [m2 r2] eqn:Er. inversion H; subst.
    split; [eapply Hrel; reflexivity|].
    split; [intros Hr; destruct r2 as [[]|?|]; discriminate Hr|].
    intros Hin. apply in_app_or in Hin. destruct Hin as [Hin|[Hin|[]]]; [contradiction|discriminate Hin].
Qed.

(* ---------- a node work item that is not a release ---------- *)
Theorem allocate_or_occupy_keeps po lab canp apisame held m node reread outs m' r fx :
  MapInv m -> wf_node node -> r <> Panic ->
  allocate_or_occupy po lab canp apisame held m node reread outs = (m', r, fx) ->
  mono m m' /\
  (forall cs, r = Ok tt -> (exists o, In (FxPatch (n_name node) cs o) fx) -> forall x, In x cs -> Held m' (n_name node) x) /\
  (forall cs o, In (FxPatch (n_name node) cs o) fx -> In (FxGetNode (n_name node) false) fx -> forall x, In x cs -> Held m' (n_name node) x) /\
  (forall nm cs o, In (FxPatch nm cs o) fx -> forall name k, Held m name k -> forall x, In x cs -> overlapb x k = false).
Proof.
  intros M Hw Hnp H. unfold allocate_or_occupy in H.
  destruct (n_cidrs node) as [|c0 cs0] eqn:En.
  2:{ destruct reread.
      - destruct (occupy_cidrs po lab m node) as [m1 r1] eqn:Eo. inversion H; subst.
        split; [eapply occupy_cidrs_mono; eassumption|]. split; [intros cs _ (o & [])|]. split; [intros cs o []|intros nm cs o []].
      - inversion H; subst. split; [apply mono_refl|]. split; [intros cs _ (o & [])|]. split; [intros cs o []|intros nm cs o []]. }
  destruct (prioritized_cidrs po lab held m node) as [m1 rp] eqn:Ep.
  assert (Hpt : match rp with
                | Err _ => msim m m1
                | Ok (cs, p) => mono m m1 /\ (forall name k, Held m name k -> forall x, In x cs -> overlapb x k = false) /\ keys_at m1 p cs
                | Panic => True end).
  { unfold prioritized_cidrs in Ep. destruct (ordered_matching po lab m (n_labels node) true) as [ps|e|].
    - eapply prioritized_try_result; eassumption.
    - inversion Ep; subst. apply msim_refl.
    - inversion Ep; subst. exact I. }
  assert (M1 : MapInv m1 /\ match rp with Ok (cs, _) => Forall wf_cidr cs | _ => True end).
  { unfold prioritized_cidrs in Ep. destruct (ordered_matching po lab m (n_labels node) true) as [ps|e|].
    - eapply prioritized_try_inv; eassumption.
    - inversion Ep; subst. split; [exact M|exact I].
    - inversion Ep; subst. split; [exact M|exact I]. }
  destruct M1 as [M1 Hwcs].
  destruct rp as [[cs p]|e|].
  - destruct Hpt as (Hmono & Hfresh & Hkeys).
    destruct cs as [|c1 cs1].
    + inversion H; subst. split; [exact Hmono|]. split; [intros cs _ (o & [Ho|[]]); discriminate Ho|].
      split; [intros cs o [Ho|[]]; discriminate Ho|intros nm cs o [Ho|[]]; discriminate Ho].
    + destruct (update_keeps _ _ _ _ _ _ _ _ _ _ _ M1 Hwcs Hkeys H) as (Hk1 & Hk2 & Hk3).
      assert (Hpatch : forall nm cs o, In (FxPatch nm cs o) fx -> nm = n_name node /\ cs = c1 :: cs1).
      { intros nm cs o Hin. destruct (update_patches_only_unassigned _ _ _ _ _ _ _ _ _ _ _ H _ Hin eq_refl) as [_ (o' & Ho')].
        inversion Ho'; subst. split; reflexivity. }
      split.
      * intros name k Hk. apply Hk1; [apply Hmono; exact Hk|]. intros x Hx. eapply Hfresh; eassumption.
      * split; [intros cs Hr (o & Ho) x Hx; destruct (Hpatch _ _ _ Ho) as [_ ->]; apply Hk2; try assumption; exists o; exact Ho|].
        split; [intros cs o Ho Hget x Hx; destruct (Hpatch _ _ _ Ho) as [_ ->]; apply Hk3; assumption|].
        intros nm cs o Ho name k Hk x Hx. destruct (Hpatch _ _ _ Ho) as [_ ->]. eapply Hfresh; eassumption.
  - inversion H; subst. split; [apply msim_mono; exact Hpt|]. split; [intros cs Hr; discriminate Hr|].
    split; [intros cs o [Ho|[]]; discriminate Ho|intros nm cs o [Ho|[]]; discriminate Ho].
  - inversion H; subst. contradiction.
Qed.

(* ---------- ReleaseCIDR: only the released node's own reservations, and keys its CIDRs overlap, can go ---------- *)
Lemma occupy_service_grows e svc : EntryInv e -> wf_cidr svc -> grows e (occupy_service e svc).
Proof.
  intros E Hw. unfold occupy_service. destruct (pool_of e (cf svc)); [|apply grows_refl].
  destruct (overlapb _ svc); [|apply grows_refl]. destruct (cc_occupy e svc) as [e'|er|] eqn:Eo; try apply grows_refl.
  eapply cc_occupy_grows; eassumption.
Qed.
Lemma occupy_service_assoc e svc : cc_assoc (occupy_service e svc) = cc_assoc e.
Proof.
  unfold occupy_service. destruct (pool_of e (cf svc)); [|reflexivity]. destruct (overlapb _ svc); [|reflexivity].
  unfold cc_occupy. destruct (pool_of e (cf svc)); [|reflexivity]. destruct (occupy _ svc); [|reflexivity]. destruct (cf svc); reflexivity.
Qed.
Lemma occupy_services_grows svcs : forall e, EntryInv e -> Forall wf_cidr svcs -> grows e (occupy_services e svcs) /\ cc_assoc (occupy_services e svcs) = cc_assoc e.
Proof.
  unfold occupy_services. induction svcs as [|s svcs IH]; intros e E Hw; cbn [fold_left]; [split; [apply grows_refl|reflexivity]|].
  inversion Hw as [|s0 l0 Hs1 Hs2]; subst. destruct (IH (occupy_service e s) (occupy_service_inv e s E Hs1) Hs2) as [G A]. split.
  - eapply grows_trans; [apply occupy_service_grows; [exact E|exact Hs1]|exact G].
  - rewrite A. apply occupy_service_assoc.
Qed.

Lemma release_pcidrs_keeps svcs cs : Forall wf_cidr svcs -> forall e e' r, EntryInv e -> Forall wf_pcidr cs -> release_pcidrs svcs e cs = (e', r) ->
  cc_assoc e' = cc_assoc e /\
  forall f pl k, pool_of e f = Some pl -> In k (used pl) ->
    (forall c canon, In (PGood c canon) cs -> overlapb c k = false) ->
    exists pl', pool_of e' f = Some pl' /\ In k (used pl').
Proof.
  intros Hsv. induction cs as [|pc cs IH]; intros e e' r E Hw H; cbn in H.
  - inversion H; subst. split; [reflexivity|]. intros f pl k Hp Hk _. exists pl. split; assumption.
  - inversion Hw; subst. destruct pc as [|x canon].
    + inversion H; subst. split; [reflexivity|]. intros f pl k Hp Hk _. exists pl. split; assumption.
    + destruct (cc_release e x) as [e1|er|] eqn:Er.
      * destruct (cc_release_keeps _ _ _ E H2 Er) as [Ha1 Hk1].
        pose proof (cc_release_inv _ _ _ E H2 Er) as E1.
        destruct (occupy_services_grows svcs e1 E1 Hsv) as [[_ Gp] Ga].
        destruct (IH (occupy_services e1 svcs) e' r (occupy_services_inv svcs e1 E1 Hsv) H3 H) as [Ha2 Hk2].
        split; [congruence|]. intros f pl k Hp Hk Hov.
        destruct (Hk1 f pl k Hp Hk (Hov x canon (or_introl eq_refl))) as (pl1 & Hp1 & Hin1).
        destruct (Gp f pl1 Hp1) as (pl2 & Hp2 & U2).
        apply (Hk2 f pl2 k Hp2 (U2 k Hin1)). intros c cn Hc. eapply Hov. right. exact Hc.
      * inversion H; subst. split; [reflexivity|]. intros f pl k Hp Hk _. exists pl. split; assumption.
      * inversion H; subst. split; [reflexivity|]. intros f pl k Hp Hk _. exists pl. split; assumption.
Qed.

Lemma release_pcidrs_inv svcs cs : Forall wf_cidr svcs -> forall e e' r, EntryInv e -> Forall wf_pcidr cs -> release_pcidrs svcs e cs = (e', r) -> EntryInv e'.
Proof.
  intros Hsv. induction cs as [|pc cs IH]; intros e e' r E Hw H; cbn in H; [inversion H; subst; exact E|].
  inversion Hw; subst. destruct pc as [|x cn]; [inversion H; subst; exact E|].
  destruct (cc_release e x) as [e1| |] eqn:Er; try (inversion H; subst; exact E).
  eapply IH; [apply occupy_services_inv; [eapply cc_release_inv; eassumption|exact Hsv]|exact H3|exact H].
Qed.

Lemma has_str_remove name n l : name <> n -> has_str name l = true -> has_str name (remove_str n l) = true.
Proof.
  intros Hne H. unfold has_str, remove_str in *. apply existsb_exists in H. destruct H as (x & Hx & He).
  apply existsb_exists. exists x. split; [|exact He]. apply filter_In. split; [exact Hx|].
  apply str_eqb_eq in He. subst x. destruct (str_eqb n name) eqn:E; [apply str_eqb_eq in E; congruence|reflexivity].
Qed.

Theorem release_cidr_keeps svcs m node m' r : MapInv m -> Forall wf_cidr svcs -> wf_node node -> release_cidr svcs m node = (m', r) ->
  forall name k, Held m name k -> name <> n_name node ->
    (forall c canon, In (PGood c canon) (n_cidrs node) -> overlapb c k = false) -> Held m' name k.
Proof.
  intros M Hsv Hw H name k Hk Hne Hov. unfold release_cidr in H.
  destruct (n_cidrs node) as [|pc0 pcs] eqn:En; [inversion H; subst; exact Hk|].
  destruct (assoc_paths m (n_name node)) as [|p0 ps]; [inversion H; subst; exact Hk|].
  assert (G : forall ps m0 m2 r2, MapInv m0 -> release_all svcs m0 node ps = (m2, r2) -> Held m0 name k -> Held m2 name k).
  { clear H Hk. intros ps0. induction ps0 as [|p ps0 IH]; intros m0 m2 r2 M0 H Hk; cbn in H; [inversion H; subst; exact Hk|].
    destruct (get_entry m0 p) as [e|] eqn:Eg; [|inversion H; subst; exact Hk].
    pose proof (get_entry_inv _ _ _ M0 Eg) as Ee.
    destruct (release_pcidrs svcs e (n_cidrs node)) as [e' rr] eqn:Erp.
    destruct (release_pcidrs_keeps svcs _ Hsv _ _ _ Ee Hw Erp) as [Hassoc Hkeep].
    assert (Hstep : forall e2, cc_assoc e2 = remove_str (n_name node) (cc_assoc e') \/ cc_assoc e2 = cc_assoc e' ->
              (forall f pl, pool_of e' f = Some pl -> exists pl2, pool_of e2 f = Some pl2 /\ forall c, In c (used pl) -> In c (used pl2)) ->
              Held (set_entry m0 p e2) name k).
    { intros e2 Ha2 Hp2. destruct Hk as (x0 & pl & Hx0 & Ha & Hp & Hc).
      destruct (set_entry_cover m0 p e e2 x0 Eg Hx0) as [Hin| ->].
      - exists x0, pl. repeat split; assumption.
      - destruct (Hkeep _ _ _ Hp Hc) as (pl' & Hp' & Hin').
        { intros c canon Hc0. apply (Hov c canon). rewrite <- En. exact Hc0. }
        destruct (Hp2 _ _ Hp') as (pl2 & Hp2' & Hu2).
        exists e2, pl2. split; [eapply set_entry_new; exact Eg|]. split.
        + destruct Ha2 as [-> | ->]; [apply has_str_remove; [exact Hne|rewrite Hassoc; exact Ha]|rewrite Hassoc; exact Ha].
        + split; [exact Hp2'|apply Hu2; exact Hin']. }
    pose proof (release_pcidrs_inv svcs _ Hsv _ _ _ Ee Hw Erp) as Ee'.
    destruct rr as [[]|er|].
    - eapply IH; [|exact H|].
      + apply set_entry_inv; [exact M0|]. apply del_assoc_inv. exact Ee'.
      + apply Hstep; [left; reflexivity|]. intros f pl Hpl. exists pl. split; [destruct f; exact Hpl|auto].
    - inversion H; subst. apply Hstep; [right; reflexivity|]. intros f pl Hpl. exists pl. split; [exact Hpl|auto].
    - inversion H; subst. apply Hstep; [right; reflexivity|]. intros f pl Hpl. exists pl. split; [exact Hpl|auto]. }
  eapply G; eassumption.
Qed.

(* ---------- ClusterCIDR work items never drop a reservation ---------- *)
Definition hcov (m m' : cidrmap) : Prop :=
  forall e, In e (all_entries m) -> cc_assoc e = [] \/ exists e', In e' (all_entries m') /\ grows e e'.

Lemma hcov_mono m m' : hcov m m' -> mono m m'.
Proof.
  intros H name c (e & pl & He & Ha & Hp & Hc). destruct (H e He) as [Hn|(e' & He' & [G1 G2])].
  - rewrite Hn in Ha. discriminate Ha.
  - destruct (G2 _ _ Hp) as (pl' & Hp' & Hu). exists e', pl'. split; [exact He'|]. split; [apply G1; exact Ha|]. split; [exact Hp'|apply Hu; exact Hc].
Qed.
Lemma hcov_refl m : hcov m m.
Proof. intros e He. right. exists e. split; [exact He|apply grows_refl]. Qed.
Lemma hcov_trans a b c : hcov a b -> hcov b c -> hcov a c.
Proof.
  intros H1 H2 e He. destruct (H1 e He) as [Hn|(e1 & He1 & G1)]; [left; exact Hn|].
  destruct (H2 e1 He1) as [Hn|(e2 & He2 & G2)].
  - (* e1 has no associations, hence neither had e *)
    left. destruct (cc_assoc e) as [|a0 l] eqn:Ea; [reflexivity|]. exfalso.
    destruct G1 as [G1 _]. specialize (G1 a0). rewrite Ea in G1. unfold has_str in G1. cbn in G1. rewrite str_eqb_refl in G1.
    specialize (G1 eq_refl). rewrite Hn in G1. discriminate G1.
  - right. exists e2. split; [exact He2|eapply grows_trans; eassumption].
Qed.

Lemma hcov_set_entry m p e e' : get_entry m p = Some e -> grows e e' -> hcov m (set_entry m p e').
Proof.
  intros Hg G x Hx. right. destruct (set_entry_cover m p e e' x Hg Hx) as [H| ->].
  - exists x. split; [exact H|apply grows_refl].
  - exists e'. split; [eapply set_entry_new; exact Hg|exact G].
Qed.

Lemma all_entries_app m1 m2 : all_entries (m1 ++ m2) = all_entries m1 ++ all_entries m2.
Proof. unfold all_entries. apply flat_map_app. Qed.

Lemma hcov_map_set m k c : hcov m (map_set m k c).
Proof.
  intros x Hx. right. exists x. split; [|apply grows_refl]. unfold map_set.
  destruct (find_key k m) as [l|] eqn:Ef.
  - destruct (all_entries_set_key_cover k l (l ++ [c]) m x Ef Hx) as [H|H]; [exact H|].
    eapply all_entries_set_key_new; [exact Ef|apply in_or_app; left; exact H].
  - rewrite all_entries_app. apply in_or_app. left. exact Hx.
Qed.

Lemma all_entries_del_key_cover k l m x : find_key k m = Some l -> In x (all_entries m) -> In x (all_entries (del_key k m)) \/ In x l.
Proof.
  unfold all_entries. induction m as [|[k0 l0] m IH]; cbn; [discriminate|]. destruct (str_eqb k k0) eqn:E.
  - intros Hf Hx. inversion Hf; subst. apply in_app_or in Hx. destruct Hx as [Hx|Hx]; [right; exact Hx|left; exact Hx].
  - intros Hf Hx. cbn. apply in_app_or in Hx. destruct Hx as [Hx|Hx]; [left; apply in_or_app; left; exact Hx|].
    destruct (IH Hf Hx) as [H1|H1]; [left; apply in_or_app; right; exact H1|right; exact H1].
Qed.

Lemma in_remove_nth_cover {A} i (x : A) l : In x l -> In x (remove_nth i l) \/ nth_error l i = Some x.
Proof.
  revert l. induction i as [|i IH]; intros [|h t]; cbn; try tauto.
  - intros [<-|H]; [right; reflexivity|left; exact H].
  - intros [<-|H]; [left; left; reflexivity|]. destruct (IH t H) as [H1|H1]; [left; right; exact H1|right; exact H1].
Qed.


Lemma delete_cluster_cidr_hcov m o m' r : delete_cluster_cidr m o = (m', r) -> hcov m m'.
Proof.
  unfold delete_cluster_cidr. intros H. destruct (o_selkey o) as [k|]; [|inversion H; subst; apply hcov_refl].
  destruct (find_key k m) as [l|] eqn:Ef; [|inversion H; subst; apply hcov_refl].
  destruct (find_name (o_name o) l 0) as [[i c]|] eqn:En; [|inversion H; subst; apply hcov_refl].
  destruct (find_name_spec _ _ _ _ _ En) as (_ & Hn & _). rewrite Nat.sub_0_r in Hn.
  assert (Hg : get_entry m (k, i) = Some c) by (unfold get_entry; cbn; rewrite Ef; exact Hn).
  pose proof (hcov_set_entry m (k, i) c (with_term c true) Hg (with_term_grows c true)) as H1.
  set (m1 := set_entry m (k, i) (with_term c true)) in *.
  assert (Hf1 : find_key k m1 = Some (set_nth i (with_term c true) l)).
  { subst m1. unfold set_entry. cbn. rewrite Ef. apply find_key_set_key_same. }
  destruct (cc_assoc c) as [|a0 al] eqn:Ea; [|inversion H; subst; exact H1].
  assert (Hrm : forall x, In x (set_nth i (with_term c true) l) ->
                 In x (remove_nth i (set_nth i (with_term c true) l)) \/ cc_assoc x = []).
  { intros x Hx. destruct (in_remove_nth_cover i x _ Hx) as [Hr|Hr]; [left; exact Hr|right].
    rewrite (nth_error_set_nth i (with_term c true) c l Hn) in Hr. inversion Hr; subst. cbn. exact Ea. }
  eapply hcov_trans; [exact H1|].
  destruct l as [|c1 [|c2 l2]].
  - exfalso. destruct i; discriminate Hn.
  - inversion H; subst. intros x Hx. destruct (all_entries_del_key_cover k _ m1 x Hf1 Hx) as [Hd|Hd]; [right; exists x; split; [exact Hd|apply grows_refl]|].
    left. destruct (Hrm x Hd) as [Hr|Hr]; [|exact Hr]. destruct i as [|i']; [cbn in Hr; destruct Hr|exfalso; cbn in Hn; destruct i'; discriminate Hn].
  - inversion H; subst. intros x Hx.
    destruct (all_entries_set_key_cover k _ (remove_nth i (set_nth i (with_term c true) (c1 :: c2 :: l2))) m1 x Hf1 Hx) as [Hd|Hd];
      [right; exists x; split; [exact Hd|apply grows_refl]|].
    destruct (Hrm x Hd) as [Hr|Hr]; [|left; exact Hr].
    right. exists x. split; [|apply grows_refl]. eapply all_entries_set_key_new; [exact Hf1|exact Hr].
Qed.

Lemma remove_deleted_hcov m name : hcov m (remove_deleted m name).
Proof.
  intros x Hx. unfold all_entries in Hx. apply in_flat_map in Hx. destruct Hx as ([k l] & Hkl & Hxl). cbn in Hxl.
  assert (Hin : forall l', l' <> [] -> In (k, l') (flat_map (fun kl => match remove_deleted_in name (snd kl) with [] => [] | l0 => [(fst kl, l0)] end) m) ->
                forall y, In y l' -> In y (all_entries (remove_deleted m name))).
  { intros l' _ Hl' y Hy. unfold all_entries, remove_deleted. apply in_flat_map. exists (k, l'). split; [exact Hl'|exact Hy]. }
  assert (Hkl' : remove_deleted_in name l <> [] -> In (k, remove_deleted_in name l)
             (flat_map (fun kl => match remove_deleted_in name (snd kl) with [] => [] | l0 => [(fst kl, l0)] end) m)).
  { intros Hne. apply in_flat_map. exists (k, l). split; [exact Hkl|]. cbn. destruct (remove_deleted_in name l); [congruence|left; reflexivity]. }
  unfold remove_deleted_in in *. destruct (find_name name l 0) as [[i c]|] eqn:En.
  - destruct (find_name_spec _ _ _ _ _ En) as (_ & Hn & _). rewrite Nat.sub_0_r in Hn.
    destruct (cc_assoc c) as [|a0 al] eqn:Ea.
    + destruct (in_remove_nth_cover i x l Hxl) as [Hr|Hr].
      * right. exists x. split; [|apply grows_refl]. eapply Hin; [|apply Hkl'|exact Hr]; intros E; rewrite E in Hr; destruct Hr.
      * left. rewrite Hn in Hr. inversion Hr; subst. exact Ea.
    + right. destruct (in_set_nth_cover i x c (with_term c true) l Hn Hxl) as [Hr| ->].
      * exists x. split; [|apply grows_refl]. eapply Hin; [|apply Hkl'|exact Hr]; intros E; rewrite E in Hr; destruct Hr.
      * exists (with_term c true). split; [|apply with_term_grows].
        pose proof (in_set_nth_new i c (with_term c true) l Hn) as Hnew.
        eapply Hin; [|apply Hkl'|exact Hnew]; intros E; rewrite E in Hnew; destruct Hnew.
  - right. exists x. split; [|apply grows_refl]. eapply Hin; [|apply Hkl'|exact Hxl]; intros E; rewrite E in Hxl; destruct Hxl.
Qed.

Theorem sync_cc_keeps m key cached out m' r fx : sync_cc m key cached out = (m', r, fx) -> mono m m'.
Proof.
  intros H. apply hcov_mono. unfold sync_cc in H. destruct cached as [o|]; [|inversion H; subst; apply remove_deleted_hcov].
  destruct (o_deleting o).
  - unfold reconcile_delete in H. destruct (delete_cluster_cidr m o) as [m1 r1] eqn:Ed.
    pose proof (delete_cluster_cidr_hcov _ _ _ _ Ed) as Hc.
    destruct r1 as [[]|e|]; [destruct (has_str finalizer (o_fins o))|..]; inversion H; subst; exact Hc.
  - unfold reconcile_create in H. destruct (need_finalizer o || negb (is_mapped_obj m o))%bool; [|inversion H; subst; apply hcov_refl].
    unfold create_cluster_cidr in H. destruct (o_selkey o) as [k|]; [|inversion H; subst; apply hcov_refl].
    destruct (create_set o false false) as [c|e|]; try (inversion H; subst; apply hcov_refl).
    assert (Hm : hcov m (if is_mapped m k (o_name o) then m else map_set m k c)) by (destruct (is_mapped m k (o_name o)); [apply hcov_refl|apply hcov_map_set]).
    destruct (cc_v4 c), (cc_v6 c); try (inversion H; subst; apply hcov_refl);
      (destruct (need_finalizer o); [destruct out|]; inversion H; subst; first [exact Hm|apply hcov_refl]).
Qed.

(* ---------- the same at the level of syncNode ---------- *)
Theorem sync_node_keeps po lab svcs canp apisame held m cached reread outs m' r fx :
  MapInv m -> (forall n, cached = Some n -> wf_node n /\ n_deleting n = false) -> r <> Panic ->
  sync_node po lab svcs canp apisame held m cached reread outs = (m', r, fx) ->
  mono m m' /\
  (forall nm cs o, In (FxPatch nm cs o) fx -> forall name k, Held m name k -> forall x, In x cs -> overlapb x k = false) /\
  (forall nm cs o, In (FxPatch nm cs o) fx -> r = Ok tt \/ In (FxGetNode nm false) fx -> forall x, In x cs -> Held m' nm x).
Proof.
  intros M Hc Hnp H. unfold sync_node in H. destruct cached as [node|].
  2:{ inversion H; subst. split; [apply mono_refl|]. split; [intros nm cs o []|intros nm cs o []]. }
  destruct (Hc node eq_refl) as [Hw Hd]. rewrite Hd in H.
  destruct (allocate_or_occupy_keeps _ _ _ _ _ _ _ _ _ _ _ _ M Hw Hnp H) as (A & B & C & D).
  split; [exact A|]. split; [exact D|].
  intros nm cs o Hin Hor x Hx.
  assert (Hnm : nm = n_name node).
  { assert (Hs : sync_node po lab svcs canp apisame held m (Some node) reread outs = (m', r, fx)) by (unfold sync_node; rewrite Hd; exact H).
    destruct (sync_node_patches po lab svcs canp apisame held m (Some node) reread outs m' r fx Hs nm cs o Hin) as ((nd & E1 & E2 & _) & _).
    inversion E1; subst nd. exact E2. }
  subst nm. destruct Hor as [Hr|Hg].
  - eapply B; [exact Hr|exists o; exact Hin|exact Hx].
  - eapply C; eassumption.
Qed.

(* ---------- a panicking node item has written nothing ---------- *)
Lemma release_list_no_panic xs : forall e, release_list e xs <> Panic.
Proof.
  induction xs as [|x xs IH]; intros e; cbn; [discriminate|].
  unfold cc_release. destruct (pool_of e (cf x)) as [pl|]; [|discriminate].
  destruct (release pl x); [apply IH|discriminate].
Qed.

Lemma release_in_no_panic m p xs e : get_entry m p = Some e -> snd (release_in m p xs) <> Panic.
Proof.
  intros Hg. unfold release_in. rewrite Hg. pose proof (release_list_no_panic xs e) as Hn.
  destruct (release_list e xs); cbn; congruence.
Qed.

Lemma update_no_panic canp apisame m1 name cs p reread outs m' r fx :
  keys_at m1 p cs -> update_cidrs_allocation canp apisame m1 name cs p reread outs = (m', r, fx) -> r <> Panic.
Proof.
  intros (e & Hg & _) H. unfold update_cidrs_allocation in H.
  pose proof (release_in_no_panic m1 p cs e Hg) as Hrp.
  destruct reread as [n|].
  2:{ destruct (release_in m1 p cs) as [m2 r2]. inversion H; subst. discriminate. }
  destruct ((length (n_cidrs n) =? length cs)%nat && same_cidrs (n_cidrs n) cs)%bool.
  { rewrite Hg in H. inversion H; subst. discriminate. }
  destruct (n_cidrs n) as [|c0 cs0].
  2:{ destruct (release_in m1 p cs) as [m2 r2]. inversion H; subst. exact Hrp. }
  destruct (patch_loop (canp cs) name cs outs 3) as [ok fxp].
  destruct ok; [rewrite Hg in H; inversion H; subst; discriminate|].
  rewrite Hg in H.
  repeat match type of H with
         | context [if ?b then _ else _] => destruct b
         | context [match nth_error ?l ?k with _ => _ end] => destruct (nth_error l k) as [[]|]
         end;
    try (inversion H; subst; discriminate);
    destruct (release_in m1 p cs) as [m2 r2]; cbn [snd] in Hrp; inversion H; subst; destruct r2 as [[]|?|]; try discriminate; congruence.
Qed.

Theorem sync_node_panic_writes_nothing po lab svcs canp apisame held m cached reread outs m' fx :
  MapInv m -> sync_node po lab svcs canp apisame held m cached reread outs = (m', Panic, fx) -> fx = [].
Proof.
  intros M H. unfold sync_node in H. destruct cached as [node|]; [|inversion H; reflexivity].
  destruct (n_deleting node); [destruct (release_cidr svcs m node); inversion H; reflexivity|].
  unfold allocate_or_occupy in H. destruct (n_cidrs node) as [|c0 cs0].
  2:{ destruct reread; [destruct (occupy_cidrs po lab m node)|]; inversion H; reflexivity. }
  destruct (prioritized_cidrs po lab held m node) as [m1 rp] eqn:Ep.
  destruct rp as [[cs p]|e|]; [|inversion H|inversion H; reflexivity].
  destruct cs as [|c1 cs1]; [inversion H|].
  exfalso.
  assert (Hk : keys_at m1 p (c1 :: cs1)).
  { unfold prioritized_cidrs in Ep. destruct (ordered_matching po lab m (n_labels node) true) as [ps|e|]; try discriminate.
    pose proof (prioritized_try_result held ps m m1 _ M Ep) as (_ & _ & Hk). exact Hk. }
  exact (update_no_panic _ _ _ _ _ _ _ _ _ _ _ Hk H eq_refl).
Qed.

(* ---------- a write that reached the API server is never followed by giving the reservation back ---------- *)
Lemma patch_loop_false_no_ok canp name cs outs n fx :
  patch_loop canp name cs outs n = (false, fx) -> ~ In (FxPatch name cs POk) fx.
Proof.
  revert outs fx. induction n as [|n IH]; intros outs fx H; cbn in H; [inversion H; subst; intros []|].
  destruct (if canp then match outs with o :: _ => o | [] => PFail end else PFail) eqn:Eo; [discriminate|..];
    destruct (patch_loop canp name cs (tl outs) n) as [ok fx1] eqn:Ep; inversion H; subst;
    intros [Hin|Hin]; try discriminate Hin; exact (IH _ _ Ep Hin).
Qed.

Theorem update_applied_is_kept canp apisame m1 name cs p reread outs m' r fx o :
  keys_at m1 p cs -> update_cidrs_allocation canp apisame m1 name cs p reread outs = (m', r, fx) ->
  In (FxPatch name cs o) fx -> o = POk \/ o = PTimeoutApplied ->
  r = Ok tt \/ In (FxGetNode name false) fx.
Proof.
  intros (e & Hg & _) H Hin Ho. unfold update_cidrs_allocation in H.
  destruct reread as [n|].
  2:{ destruct (release_in m1 p cs) as [m2 r2]. inversion H; subst. destruct Hin. }
  destruct ((length (n_cidrs n) =? length cs)%nat && same_cidrs (n_cidrs n) cs)%bool.
  { rewrite Hg in H. inversion H; subst. destruct Hin. }
  destruct (n_cidrs n) as [|c0 cs0].
  2:{ destruct (release_in m1 p cs) as [m2 r2]. inversion H; subst. destruct Hin. }
  destruct (patch_loop (canp cs) name cs outs 3) as [ok fxp] eqn:Epl.
  destruct ok; [rewrite Hg in H; inversion H; subst; left; reflexivity|].
  pose proof (patch_loop_false_no_ok _ _ _ _ _ _ Epl) as Hnok.
  (* the patch is in fxp (everything appended later is an event or a read-back) *)
  assert (Hinp : In (FxPatch name cs o) fxp).
  { rewrite Hg in H.
    repeat match type of H with
           | context [if ?b then _ else _] => destruct b
           | context [match nth_error ?l ?k with _ => _ end] => destruct (nth_error l k) as [[]|]
           | context [let '(_, _) := release_in ?a ?b ?c in _] => destruct (release_in a b c)
           end; inversion H; subst; clear H;
      repeat (apply in_app_or in Hin; destruct Hin as [Hin|Hin]); try exact Hin;
      repeat (destruct Hin as [Hin|Hin]; [discriminate Hin|]); destruct Hin. }
  destruct Ho as [-> | ->]; [contradiction|].
  assert (Ht : existsb (fun e0 => match e0 with FxPatch _ _ PTimeoutApplied | FxPatch _ _ PTimeoutNotApplied => true | _ => false end) fxp = true)
    by (apply existsb_exists; exists (FxPatch name cs PTimeoutApplied); split; [exact Hinp|reflexivity]).
  assert (Ha : existsb (fun e0 => match e0 with FxPatch _ _ PTimeoutApplied => true | _ => false end) fxp = true)
    by (apply existsb_exists; exists (FxPatch name cs PTimeoutApplied); split; [exact Hinp|reflexivity]).
  rewrite Ht, Ha, Hg, Bool.orb_true_r in H.
  destruct (nth_error outs 3) as [[]|]; inversion H; subst; try (left; reflexivity).
  right. apply in_or_app. right. left. reflexivity.
Qed.

Theorem sync_node_applied_is_kept po lab svcs canp apisame held m cached reread outs m' r fx :
  MapInv m -> sync_node po lab svcs canp apisame held m cached reread outs = (m', r, fx) ->
  forall nm cs o, In (FxPatch nm cs o) fx -> o = POk \/ o = PTimeoutApplied -> r = Ok tt \/ In (FxGetNode nm false) fx.
Proof.
  intros M H nm cs o Hin Ho. unfold sync_node in H. destruct cached as [node|]; [|inversion H; subst; destruct Hin].
  destruct (n_deleting node); [destruct (release_cidr svcs m node); inversion H; subst; destruct Hin|].
  unfold allocate_or_occupy in H. destruct (n_cidrs node) as [|c0 cs0].
  2:{ destruct reread; [destruct (occupy_cidrs po lab m node)|]; inversion H; subst; destruct Hin. }
  destruct (prioritized_cidrs po lab held m node) as [m1 rp] eqn:Ep.
  destruct rp as [[cs1 p]|e|].
  - destruct cs1 as [|c1 cs1]; [inversion H; subst; destruct Hin as [Hin|[]]; discriminate Hin|].
    assert (Hk : keys_at m1 p (c1 :: cs1)).
    { unfold prioritized_cidrs in Ep. destruct (ordered_matching po lab m (n_labels node) true) as [ps|e|]; try discriminate.
      pose proof (prioritized_try_result held ps m m1 _ M Ep) as (_ & _ & Hk). exact Hk. }
    destruct (update_patches_only_unassigned _ _ _ _ _ _ _ _ _ _ _ H _ Hin eq_refl) as [_ (o' & Ho')].
    inversion Ho'; subst. eapply update_applied_is_kept; eassumption.
  - inversion H; subst. destruct Hin as [Hin|[]]; discriminate Hin.
  - inversion H; subst. destruct Hin.
Qed.

Lemma sync_node_patches_same po lab svcs canp apisame held m cached reread outs m' r fx :
  sync_node po lab svcs canp apisame held m cached reread outs = (m', r, fx) ->
  forall n1 c1 o1 n2 c2 o2, In (FxPatch n1 c1 o1) fx -> In (FxPatch n2 c2 o2) fx -> n1 = n2 /\ c1 = c2.
Proof.
  intros H n1 c1 o1 n2 c2 o2 H1 H2. unfold sync_node in H. destruct cached as [node|]; [|inversion H; subst; destruct H1].
  destruct (n_deleting node); [destruct (release_cidr svcs m node); inversion H; subst; destruct H1|].
  unfold allocate_or_occupy in H. destruct (n_cidrs node) as [|c0 cs0].
  2:{ destruct reread; [destruct (occupy_cidrs po lab m node)|]; inversion H; subst; destruct H1. }
  destruct (prioritized_cidrs po lab held m node) as [m1 rp].
  destruct rp as [[cs1 p]|e|].
  - destruct cs1 as [|x cs1]; [inversion H; subst; destruct H1 as [H1|[]]; discriminate H1|].
    destruct (update_patches_only_unassigned _ _ _ _ _ _ _ _ _ _ _ H _ H1 eq_refl) as [_ (oa & Ha)].
    destruct (update_patches_only_unassigned _ _ _ _ _ _ _ _ _ _ _ H _ H2 eq_refl) as [_ (ob & Hb)].
    inversion Ha; inversion Hb; subst. split; reflexivity.
  - inversion H; subst. destruct H1 as [H1|[]]; discriminate H1.
  - inversion H; subst. destruct H1.
Qed.
