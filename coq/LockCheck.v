(* LockCheck.v -- a verified checker for the lock discipline of the allocator (C16), over program
   facts extracted from the Go source by /verif/translator.
   A program is a list of functions; function i calls the functions listed in f_calls.
   A call path starts at an entry point with the lock free; entering a [Locks] function (it takes
   r.lock as its first statement and releases it by a deferred unlock) sets "held" for everything
   below it on the path. *)
From Coq Require Import List NArith Arith Bool Lia.
Import ListNotations.
Open Scope N_scope.

Inductive lockmode := NoLock | Locks | Irregular.

Record fn := mkFn {
  f_lock : lockmode;
  f_calls : list N;      (* indices of possible callees (static, interface-resolved, function values handed on) *)
  f_touches : bool;      (* reads or writes mutable shared state directly *)
  f_blocks : bool;       (* contains a blocking primitive (channel op, select, Wait, Sleep, queue Get, ...) *)
  f_entry : bool         (* entry point: public interface, informer handler, worker / goroutine body *)
}.

Definition program := list fn.

Definition get (p : program) (i : N) : option fn := nth_error p (N.to_nat i).
Definition is_locks (f : fn) : bool := match f_lock f with Locks => true | _ => false end.
Definition is_irregular (f : fn) : bool := match f_lock f with Irregular => true | _ => false end.

(* ---- semantics: which (function, lock held inside it) pairs can occur on a call path ---- *)
Inductive reach (p : program) : N -> bool -> Prop :=
| r_entry i f : get p i = Some f -> f_entry f = true -> reach p i (is_locks f)
| r_call i h j fi fj :
    reach p i h -> get p i = Some fi -> In j (f_calls fi) -> get p j = Some fj ->
    (is_locks fj = true -> h = false) ->          (* otherwise the call never returns: see [deadlock] *)
    reach p j (h || is_locks fj).

(* the four ways the discipline can be broken *)
Definition deadlock (p : program) : Prop :=      (* a function taking the lock is called while the lock is held *)
  exists i h j fi fj, reach p i h /\ get p i = Some fi /\ In j (f_calls fi) /\ get p j = Some fj /\ is_locks fj = true /\ h = true.
Definition unguarded (p : program) : Prop :=     (* shared state touched without the lock *)
  exists i f, reach p i false /\ get p i = Some f /\ f_touches f = true.
Definition blocked (p : program) : Prop :=       (* a blocking primitive while holding the lock *)
  exists i f, reach p i true /\ get p i = Some f /\ f_blocks f = true.
Definition irregular (p : program) : Prop :=     (* a reachable function uses the lock in any other way *)
  exists i h f, reach p i h /\ get p i = Some f /\ is_irregular f = true.

(* ---- the checker ---- *)
Definition state := (N * bool)%type.
Definition st_eqb (a b : state) : bool := (fst a =? fst b) && Bool.eqb (snd a) (snd b).
Definition mem (s : state) (l : list state) : bool := existsb (st_eqb s) l.

Definition succs (p : program) (s : state) : list state :=
  match get p (fst s) with
  | None => []
  | Some fi =>
      flat_map (fun j => match get p j with
                         | None => []
                         | Some fj => if is_locks fj && snd s then [] else [(j, snd s || is_locks fj)]
                         end) (f_calls fi)
  end.

Definition add_all (new old : list state) : list state :=
  fold_left (fun acc s => if mem s acc then acc else s :: acc) new old.

Fixpoint iterate (p : program) (fuel : nat) (S : list state) : list state :=
  match fuel with
  | O => S
  | Datatypes.S n => iterate p n (add_all (flat_map (succs p) S) S)
  end.

Fixpoint entries_from (p : program) (i : N) (l : list fn) : list state :=
  match l with
  | [] => []
  | f :: l' => (if f_entry f then [(i, is_locks f)] else []) ++ entries_from p (N.succ i) l'
  end.

Definition closedb (p : program) (S : list state) : bool :=
  forallb (fun s => forallb (fun t => mem t S) (succs p s)) S.

(* no violation at a state of the set, nor on an edge out of it *)
Definition state_ok (p : program) (s : state) : bool :=
  match get p (fst s) with
  | None => true
  | Some f =>
      negb (is_irregular f) && negb (f_touches f && negb (snd s)) && negb (f_blocks f && snd s) &&
      forallb (fun j => match get p j with
                        | Some fj => negb (is_locks fj && snd s)
                        | None => true end) (f_calls f)
  end.

Definition reachable_set (p : program) : list state :=
  iterate p (2 * length p + 2) (entries_from p 0 p).

Definition check (p : program) : bool :=
  let S := reachable_set p in
  forallb (fun s => mem s S) (entries_from p 0 p) && closedb p S && forallb (state_ok p) S.

(* ---- soundness ---- *)
Lemma st_eqb_eq a b : st_eqb a b = true <-> a = b.
Proof.
  unfold st_eqb. rewrite andb_true_iff, N.eqb_eq, eqb_true_iff. destruct a, b; cbn. split; [intros [-> ->]; reflexivity|intros H; inversion H; auto].
Qed.

Lemma mem_In s l : mem s l = true <-> In s l.
Proof.
  unfold mem. rewrite existsb_exists. split.
  - intros (x & Hx & He). apply st_eqb_eq in He. subst. exact Hx.
  - intros H. exists s. split; [exact H|apply st_eqb_eq; reflexivity].
Qed.

Lemma entries_from_spec p l : forall i0 i f, nth_error l (N.to_nat i - N.to_nat i0) = Some f -> i0 <= i -> f_entry f = true ->
  In (i, is_locks f) (entries_from p i0 l).
Proof.
  induction l as [|x l IH]; intros i0 i f Hn Hle He.
  - destruct (N.to_nat i - N.to_nat i0)%nat; discriminate.
  - cbn [entries_from]. apply in_or_app. destruct (N.eq_dec i i0) as [->|Hne].
    + left. rewrite Nat.sub_diag in Hn. cbn in Hn. inversion Hn; subst. rewrite He. left. reflexivity.
    + right. apply IH; [|lia|exact He].
      replace (N.to_nat i - N.to_nat i0)%nat with (Datatypes.S (N.to_nat i - N.to_nat (N.succ i0))) in Hn by lia. exact Hn.
Qed.

Lemma succs_spec p i h j fi fj :
  get p i = Some fi -> In j (f_calls fi) -> get p j = Some fj -> (is_locks fj = true -> h = false) ->
  In (j, h || is_locks fj) (succs p (i, h)).
Proof.
  intros Hi Hj Hfj Hok. unfold succs. cbn [fst snd]. rewrite Hi. apply in_flat_map. exists j. split; [exact Hj|].
  rewrite Hfj. destruct (is_locks fj) eqn:El; [rewrite (Hok eq_refl); cbn; left; reflexivity|cbn; left; reflexivity].
Qed.

Theorem check_sound p : check p = true ->
  ~ deadlock p /\ ~ unguarded p /\ ~ blocked p /\ ~ irregular p.
Proof.
  unfold check. set (S := reachable_set p). intros H.
  apply andb_true_iff in H. destruct H as [H Hok]. apply andb_true_iff in H. destruct H as [Hent Hclosed].
  rewrite forallb_forall in Hent, Hok. unfold closedb in Hclosed. rewrite forallb_forall in Hclosed.
  (* every reachable pair is in S *)
  assert (Hin : forall i h, reach p i h -> In (i, h) S).
  { induction 1 as [i f Hg He|i h j fi fj Hr IH Hi Hj Hfj Hcan].
    - apply mem_In. apply Hent. unfold get in Hg. apply (entries_from_spec p p 0 i f); [rewrite Nat.sub_0_r; exact Hg|lia|exact He].
    - specialize (Hclosed _ IH). rewrite forallb_forall in Hclosed. apply mem_In. apply Hclosed. eapply succs_spec; eassumption. }
  assert (Hst : forall i h f, reach p i h -> get p i = Some f ->
            is_irregular f = false /\ (f_touches f = true -> h = true) /\ (f_blocks f = true -> h = false) /\
            forall j fj, In j (f_calls f) -> get p j = Some fj -> is_locks fj = true -> h = false).
  { intros i h f Hr Hg. specialize (Hok _ (Hin _ _ Hr)). unfold state_ok in Hok. cbn [fst snd] in Hok. rewrite Hg in Hok.
    repeat (apply andb_true_iff in Hok; destruct Hok as [Hok ?]).
    split; [destruct (is_irregular f); [discriminate|reflexivity]|]. split; [|split].
    - intros Ht. rewrite Ht in *. destruct h; [reflexivity|discriminate].
    - intros Hb. rewrite Hb in *. destruct h; [discriminate|reflexivity].
    - intros j fj Hj Hfj Hl. rewrite forallb_forall in H. specialize (H j Hj). rewrite Hfj, Hl in H. destruct h; [discriminate|reflexivity]. }
  repeat split.
  - intros (i & h & j & fi & fj & Hr & Hi & Hj & Hfj & Hl & Hh). destruct (Hst _ _ _ Hr Hi) as (_ & _ & _ & Hd). specialize (Hd j fj Hj Hfj Hl). congruence.
  - intros (i & f & Hr & Hi & Ht). destruct (Hst _ _ _ Hr Hi) as (_ & Hu & _). specialize (Hu Ht). discriminate.
  - intros (i & f & Hr & Hi & Hb). destruct (Hst _ _ _ Hr Hi) as (_ & _ & Hu & _). specialize (Hu Hb). discriminate.
  - intros (i & h & f & Hr & Hi & Hirr). destruct (Hst _ _ _ Hr Hi) as (Hu & _). congruence.
Qed.
