(* Hist4_proofs.v -- the full informer contract in the C01/C03 history theorem: delete notifications that carry only
   the informer's last known state (tombstones) and relists (DeltaFIFO.Replace: pending events dropped, every listed
   node re-delivered, every vanished one deleted with its last known state) are allowed at any time.
   Extra invariant KInv: every copy of a node (cache, pending add/update) shows only CIDRs its node holds; no event of
   a name follows that name's delete notification; cache names are unique. *)
From NIPAM Require Import Sys Geom_proofs Pool_proofs Prio_proofs Alloc_proofs Inv_proofs Sys_proofs World_proofs Complete_proofs Resv_proofs Hist_proofs Hist2_proofs Hist3_proofs.
From Coq Require Import Lia.
Open Scope N_scope.

Fixpoint last_ok (f : list nevent) : Prop :=
  match f with
  | [] => True
  | e :: r => (match e with NDel x => forall e', In e' r -> n_name (nev_node e') <> n_name x | _ => True end) /\ last_ok r
  end.

Lemma last_ok_snoc f e : last_ok f -> (forall x, In (NDel x) f -> n_name x <> n_name (nev_node e)) -> last_ok (f ++ [e]).
Proof.
  induction f as [|h t IH]; intros H Hd; cbn; [split; [destruct e; auto; intros e' []|exact I]|].
  destruct H as [H1 H2]. split.
  - destruct h as [n|n|n]; try exact I. intros e' He'. apply in_app_or in He'. destruct He' as [He'|[<-|[]]]; [apply H1; exact He'|].
    intros E. apply (Hd n (or_introl eq_refl)). symmetry. exact E.
  - apply IH; [exact H2|]. intros x Hx. apply Hd. right. exact Hx.
Qed.

Lemma last_ok_tail e r : last_ok (e :: r) -> last_ok r.
Proof. intros [_ H]. exact H. Qed.

Record KInv (w : world) : Prop := {
  k_ch : forall y, copy_of w y -> forall c, shows y c -> holder w (n_name y) c;
  k_last : last_ok (w_nfeed w);
  k_cn : NoDup (map n_name (w_ncache w))
}.

Lemma kinv_init : KInv init_world.
Proof. constructor; cbn; [intros y [[]|[[]|[]]]|exact I|apply NoDup_nil]. Qed.

(* put_node keeps cache names unique *)
Lemma put_node_names n l : NoDup (map n_name l) -> NoDup (map n_name (put_node n l)).
Proof.
  intros H. unfold put_node. destruct (find_node (n_name n) l) eqn:Ef.
  - assert (E : map n_name (map (fun x => if str_eqb (n_name x) (n_name n) then n else x) l) = map n_name l).
    { rewrite map_map. apply map_ext_in. intros x _. destruct (str_eqb (n_name x) (n_name n)) eqn:E; [apply str_eqb_eq in E; congruence|reflexivity]. }
    rewrite E. exact H.
  - rewrite map_app. cbn. apply NoDup_app_snoc; [exact H|]. intros Hin. apply in_map_iff in Hin. destruct Hin as (y & Hy & Hin).
    clear - Ef Hy Hin. induction l as [|h t IH]; [destruct Hin|]. cbn in Ef. destruct (str_eqb (n_name h) (n_name n)) eqn:E; [discriminate|].
    destruct Hin as [->|Hin]; [rewrite Hy, str_eqb_refl in E; discriminate|exact (IH Ef Hin)].
Qed.
Lemma del_node_names k l : NoDup (map n_name l) -> NoDup (map n_name (del_node k l)).
Proof.
  unfold del_node. induction l as [|h t IH]; cbn; [auto|]. intros H. inversion H; subst.
  destruct (negb (str_eqb (n_name h) k)); cbn; [|apply IH; exact H3]. constructor; [|apply IH; exact H3].
  intros Hin. apply H2. apply in_map_iff in Hin. destruct Hin as (y & E & Hy). apply filter_In in Hy. rewrite <- E. apply in_map. apply Hy.
Qed.
Lemma in_put_node n l y : In y (put_node n l) -> y = n \/ (In y l /\ n_name y <> n_name n).
Proof.
  unfold put_node. destruct (find_node (n_name n) l) eqn:Ef.
  - intros H. apply in_map_iff in H. destruct H as (z & E & Hz). destruct (str_eqb (n_name z) (n_name n)) eqn:Ez; [left; symmetry; exact E|].
    right. subst y. split; [exact Hz|]. intros E2. rewrite E2, str_eqb_refl in Ez. discriminate.
  - intros H. apply in_app_or in H. destruct H as [H|[<-|[]]]; [|left; reflexivity]. right. split; [exact H|].
    intros E. clear - Ef H E. induction l as [|h t IH]; [destruct H|]. cbn in Ef. destruct (str_eqb (n_name h) (n_name n)) eqn:Eh; [discriminate|].
    destruct H as [->|H]; [rewrite E, str_eqb_refl in Eh; discriminate|exact (IH Ef H)].
Qed.

(* what KInv needs of the rest of the world *)
Record NInv (w : world) : Prop := {
  ni_names : NoDup (map an_name (w_nodes w));
  ni_dead : forall x, In (NDel x) (w_nfeed w) -> ~ In (n_name x) (map an_name (w_nodes w))
}.
Lemma hinv_ninv w : HInv w -> NInv w.
Proof. intros I. constructor; [exact (h_names w I)|exact (h_dead w I)]. Qed.

Lemma kinv_same w w' : KInv w -> w_nodes w' = w_nodes w -> w_nfeed w' = w_nfeed w -> w_ncache w' = w_ncache w -> KInv w'.
Proof.
  intros [a b c] E1 E2 E3. constructor; rewrite ?E2, ?E3; try assumption.
  intros y Hy c0 Hc. assert (Hy' : copy_of w y) by (unfold copy_of in *; rewrite E2, E3 in Hy; exact Hy).
  pose proof (a y Hy' c0 Hc) as H. unfold holder in *. rewrite E1, E2. exact H.
Qed.
Lemma ninv_same w w' : NInv w -> w_nodes w' = w_nodes w -> w_nfeed w' = w_nfeed w -> NInv w'.
Proof. intros [a b] E1 E2. constructor; rewrite ?E1, ?E2; assumption. Qed.

Lemma kinv_crashed w : KInv (crashed w).
Proof. constructor; cbn; [intros y [[]|[[]|[]]]|exact I|apply NoDup_nil]. Qed.

Lemma in_push_nev w e e' : In e' (push_nev w e) -> In e' (w_nfeed w) \/ (e' = e /\ w_synced w = true).
Proof.
  unfold push_nev. destruct (w_synced w); [|auto]. intros H. apply in_app_or in H. destruct H as [H|[<-|[]]]; [left; exact H|right; split; reflexivity].
Qed.
Lemma in_push_nev_old w e e' : In e' (w_nfeed w) -> In e' (push_nev w e).
Proof. unfold push_nev. destruct (w_synced w); [|auto]. intros H. apply in_or_app. left. exact H. Qed.
Lemma last_ok_push w e : last_ok (w_nfeed w) -> (forall x, In (NDel x) (w_nfeed w) -> n_name x <> n_name (nev_node e)) -> last_ok (push_nev w e).
Proof. unfold push_nev. destruct (w_synced w); [|auto]. apply last_ok_snoc. Qed.

(* an API node is updated in place (labels, or its first podCIDRs): KInv and NInv stay *)
Lemma updated_kn w a a' :
  KInv w -> NInv w -> In a (w_nodes w) -> an_name a' = an_name a ->
  (forall c, node_cidr a c -> node_cidr a' c) ->
  let w' := set_api w (upd_anode a' (w_nodes w)) (w_ccs w) (w_rv w) (push_nev w (NUpd (node_view a'))) (w_cfeed w) in
  KInv w' /\ NInv w'.
Proof.
  intros K Nv Ha Hn Hc w'.
  assert (Hapi : In (an_name a') (map an_name (w_nodes w))) by (rewrite Hn; apply in_map; exact Ha).
  assert (Hnew : In a' (upd_anode a' (w_nodes w))) by (apply in_upd_anode_new; exists a; split; [exact Ha|symmetry; exact Hn]).
  assert (Hh : forall nm c, holder w nm c -> holder w' nm c).
  { intros nm c [(b & Hb & Hbn & Hbc)|(x & cn & Hx & Hxn & Hxc)].
    - left. destruct (str_eqb (an_name b) (an_name a')) eqn:E.
      + apply str_eqb_eq in E. assert (b = a) by (apply (api_node_unique w); [exact (ni_names w Nv)|exact Hb|exact Ha|congruence]). subst b.
        exists a'. split; [exact Hnew|split; [congruence|apply Hc; exact Hbc]].
      + exists b. split; [|split; assumption]. cbn. apply in_upd_anode_old; [exact Hb|]. intros E2. rewrite E2, str_eqb_refl in E. discriminate.
    - right. exists x, cn. split; [cbn; apply in_push_nev_old; exact Hx|split; assumption]. }
  split.
  - destruct K as [kc kl kn]. constructor; cbn [w' set_api w_nfeed w_ncache]; [| |exact kn].
    + intros y Hy c Hs. assert (Hy' : copy_of w y \/ y = node_view a').
      { destruct Hy as [Hy|[Hy|Hy]]; cbn [w' set_api w_ncache w_nfeed] in Hy.
        - left. left. exact Hy.
        - apply in_push_nev in Hy. destruct Hy as [Hy|[E _]]; [left; right; left; exact Hy|discriminate E].
        - apply in_push_nev in Hy. destruct Hy as [Hy|[E _]]; [left; right; right; exact Hy|right; inversion E; reflexivity]. }
      destruct Hy' as [Hy'| ->]; [apply Hh; exact (kc y Hy' c Hs)|].
      left. exists a'. split; [exact Hnew|split; [reflexivity|exact Hs]].
    + apply last_ok_push; [exact kl|]. intros x Hx E. apply (ni_dead w Nv x Hx). rewrite E. exact Hapi.
  - constructor; cbn [w' set_api w_nodes w_nfeed].
    + rewrite upd_anode_names. exact (ni_names w Nv).
    + intros x Hx. rewrite upd_anode_names. apply in_push_ndel in Hx; [|exact I]. exact (ni_dead w Nv x Hx).
Qed.

Lemma apply_patch_kn w nm cs o : KInv w -> NInv w -> KInv (apply_patch w nm cs o) /\ NInv (apply_patch w nm cs o).
Proof.
  intros K Nv. unfold apply_patch.
  destruct o; try (split; assumption);
    (destruct (find_anode nm (w_nodes w)) as [a|] eqn:Ea; [|split; assumption]; destruct (an_cidrs a) eqn:Ec; [|split; assumption]);
    (apply (updated_kn w a); [exact K|exact Nv|exact (find_anode_in _ _ _ Ea)|reflexivity|]; intros c (cn & Hc); rewrite Ec in Hc; destruct Hc).
Qed.

Lemma apply_update_cc_kn w o out : KInv w -> NInv w -> KInv (apply_update_cc w o out) /\ NInv (apply_update_cc w o out).
Proof.
  intros K Nv. split.
  - apply (kinv_same w); [exact K|apply apply_update_cc_nodes|apply apply_update_cc_feed|apply apply_update_cc_ncache].
  - apply (ninv_same w); [exact Nv|apply apply_update_cc_nodes|apply apply_update_cc_feed].
Qed.

Lemma apply_create_cc_kn w o out : KInv w -> NInv w -> KInv (apply_create_cc w o out) /\ NInv (apply_create_cc w o out).
Proof.
  intros K Nv. destruct (apply_create_cc_frame w o out) as (E1 & E2 & _ & _ & _ & _ & E4 & _). split.
  - apply (kinv_same w); assumption.
  - apply (ninv_same w); assumption.
Qed.

Lemma apply_effects_kn fx : forall w, KInv w -> NInv w -> KInv (apply_effects w fx) /\ NInv (apply_effects w fx).
Proof.
  induction fx as [|e fx IH]; intros w K Nv; [split; assumption|]. destruct e as [nd cs po|? ?|? ?|o' out|o' out]; cbn [apply_effects]; try (apply IH; assumption).
  - destruct (apply_patch_kn w nd cs po K Nv) as [A B]. apply IH; assumption.
  - destruct (apply_update_cc_kn w o' out K Nv) as [A B]. apply IH; assumption.
  - destruct (apply_create_cc_kn w o' out K Nv) as [A B]. apply IH; assumption.
Qed.

Definition setnf (w : world) (f : list nevent) : world := set_caches w (w_ncache w) (w_ccache w) f (w_cfeed w).

Lemma ninv_crashed w : NInv w -> NInv (crashed w).
Proof. intros [a b]. constructor; cbn; [exact a|intros x []]. Qed.

Lemma after_call_kn {A} w (r : res A) m' : KInv w -> NInv w -> KInv (after_call w r m') /\ NInv (after_call w r m').
Proof.
  intros K Nv. unfold after_call. destruct r.
  - split; [apply (kinv_same w); [exact K|reflexivity|reflexivity|reflexivity]|apply (ninv_same w); [exact Nv|reflexivity|reflexivity]].
  - split; [apply (kinv_same w); [exact K|reflexivity|reflexivity|reflexivity]|apply (ninv_same w); [exact Nv|reflexivity|reflexivity]].
  - split; [apply kinv_crashed|apply ninv_crashed; exact Nv].
Qed.

Section Hist4.
  Variable po : parse_oracle.
  Variable lab : label_oracle.

  Lemma run_node_sync_kn w cached key outs :
    KInv w -> NInv w -> KInv (fst (run_node_sync po lab w cached key outs)) /\ NInv (fst (run_node_sync po lab w cached key outs)).
  Proof.
    intros K Nv. unfold run_node_sync. destruct (w_ctl w) as [m|]; [|split; assumption].
    destruct (sync_node po lab (svc_list (w_svc w)) (can_patch w key) (api_same w key) (held_cidrs (w_ncache w)) m cached (find_node key (w_ncache w)) outs) as [[m' r] fx].
    cbn [fst].
    assert (A : KInv (after_call w r m') /\ NInv (after_call w r m')) by (apply after_call_kn; assumption).
    destruct A as [A B]. apply apply_effects_kn; assumption.
  Qed.

  Lemma run_cc_sync_kn w key cached out :
    KInv w -> NInv w -> KInv (fst (run_cc_sync w key cached out)) /\ NInv (fst (run_cc_sync w key cached out)).
  Proof.
    intros K Nv. unfold run_cc_sync. destruct (w_ctl w) as [m|]; [|split; assumption].
    match goal with |- context [sync_cc m key cached ?o] => destruct (sync_cc m key cached o) as [[m' r] fx] end.
    cbn [fst].
    assert (A : KInv (after_call w r m') /\ NInv (after_call w r m')) by (apply after_call_kn; assumption).
    destruct A as [A B]. apply apply_effects_kn.
    - destruct cached as [o|]; [|exact A]. match goal with |- context [if ?b then _ else _] => destruct b end; [|exact A].
      apply (kinv_same (after_call w r m')); [exact A|reflexivity|reflexivity|reflexivity].
    - destruct cached as [o|]; [|exact B]. match goal with |- context [if ?b then _ else _] => destruct b end; [|exact B].
      apply (ninv_same (after_call w r m')); [exact B|reflexivity|reflexivity].
  Qed.

  (* an add or update notification is handled *)
  Lemma deliver_put_kinv w e rest n :
    e = NAdd n \/ e = NUpd n -> KInv w -> w_nfeed w = e :: rest -> KInv (fst (handle_nevent (setnf w rest) e)).
  Proof.
    intros He K Ef.
    assert (G : KInv (set_caches (setnf w rest) (put_node n (w_ncache w)) (w_ccache w) rest (w_cfeed w))).
    { destruct K as [kc kl kn]. constructor; cbn [set_caches setnf w_nfeed w_ncache].
      - intros y Hy c Hs. assert (Hy' : copy_of w y).
        { destruct Hy as [Hy|[Hy|Hy]]; cbn [set_caches setnf w_nfeed w_ncache] in Hy.
          - apply in_put_node in Hy. destruct Hy as [->|[Hy _]]; [|left; exact Hy]. right. rewrite Ef. destruct He as [->| ->]; [left|right]; left; reflexivity.
          - right. left. rewrite Ef. right. exact Hy.
          - right. right. rewrite Ef. right. exact Hy. }
        destruct (kc y Hy' c Hs) as [H|(x & cn & Hx & Hn & Hc)]; [left; exact H|].
        right. exists x, cn. split; [|split; assumption]. cbn. rewrite Ef in Hx. destruct Hx as [E|Hx]; [destruct He as [->| ->]; discriminate E|exact Hx].
      - rewrite Ef in kl. exact (last_ok_tail _ _ kl).
      - apply put_node_names. exact kn. }
    unfold handle_nevent. destruct He as [->| ->]; cbn [set_caches setnf w_ctl w_nfeed w_ncache w_ccache w_cfeed w_svc] in *;
      (destruct (w_ctl w); cbn [fst]; [|exact G]); eapply kinv_same; [exact G|reflexivity|reflexivity|reflexivity|exact G|reflexivity|reflexivity|reflexivity].
  Qed.

  (* a delete notification is handled; it may carry the store's last known state instead of the final one *)
  Lemma deliver_del_kinv w n rest last :
    KInv w -> w_nfeed w = NDel n :: rest -> n_name last = n_name n -> KInv (fst (handle_nevent (setnf w rest) (NDel last))).
  Proof.
    intros K Ef Hl.
    assert (G : KInv (set_caches (setnf w rest) (del_node (n_name last) (w_ncache w)) (w_ccache w) rest (w_cfeed w))).
    { destruct K as [kc kl kn]. rewrite Ef in kl. destruct kl as [kl1 kl2]. constructor; cbn [set_caches setnf w_nfeed w_ncache].
      - intros y Hy c Hs. assert (Hy' : copy_of w y /\ n_name y <> n_name n).
        { destruct Hy as [Hy|[Hy|Hy]]; cbn [set_caches setnf w_nfeed w_ncache] in Hy.
          - unfold del_node in Hy. apply filter_In in Hy. destruct Hy as [Hy Hne]. split; [left; exact Hy|].
            intros E. rewrite <- Hl in E. rewrite E, str_eqb_refl in Hne. discriminate Hne.
          - split; [right; left; rewrite Ef; right; exact Hy|]. exact (kl1 (NAdd y) Hy).
          - split; [right; right; rewrite Ef; right; exact Hy|]. exact (kl1 (NUpd y) Hy). }
        destruct Hy' as [Hy' Hne]. destruct (kc y Hy' c Hs) as [H|(x & cn & Hx & Hn & Hc)]; [left; exact H|].
        right. exists x, cn. split; [|split; assumption]. cbn. rewrite Ef in Hx. destruct Hx as [E|Hx]; [inversion E as [E']; exfalso; apply Hne; rewrite E'; symmetry; exact Hn|exact Hx].
      - exact kl2.
      - apply del_node_names. exact kn. }
    unfold handle_nevent. cbn [set_caches setnf w_ctl w_nfeed w_ncache w_ccache w_cfeed w_svc] in *.
    destruct (w_ctl w) as [m|]; [|exact G]. destruct (release_cidr (svc_list (w_svc w)) m last) as [m' r]. destruct r; cbn [fst]; try apply kinv_crashed;
      (eapply kinv_same; [exact G|reflexivity|reflexivity|reflexivity]).
  Qed.

  Lemma deliver_del_hinv w n rest last :
    HInv w -> w_nfeed w = NDel n :: rest -> n_name last = n_name n -> wf_node last ->
    (forall c cn, In (PGood c cn) (n_cidrs last) -> holder w (n_name n) c) ->
    HInv (fst (handle_nevent (setnf w rest) (NDel last))).
  Proof.
    intros I Ef Hl Hwe Hlast.
    assert (Hsy : w_synced w = true).
    { destruct (w_synced w) eqn:E; [reflexivity|]. destruct (h_uns w I E) as (_ & B & _). rewrite Ef in B. discriminate B. }
    assert (W0 : WInv (setnf w rest)).
    { pose proof (h_w w I) as Ww. destruct Ww as [a1 b1 c1 d1 e1 f1 g1 h1 i1 j1]. constructor; cbn; try assumption. rewrite Ef in c1. inversion c1; assumption. }
    pose proof (handle_nevent_winv (setnf w rest) (NDel last) W0 Hwe) as Wh.
    unfold handle_nevent, setnf in *. cbn [nev_node] in *. rewrite Hl in *.
    assert (Hdn' : NoDup (n_name n :: dead_names rest)) by (pose proof (h_dead_nodup w I) as H; rewrite Ef in H; exact H).
    assert (Hhold : forall nm c, holder (set_caches w (del_node (n_name n) (w_ncache w)) (w_ccache w) rest (w_cfeed w)) nm c -> holder w nm c /\ nm <> n_name n).
    { intros nm c [(b & Hb & Hn & Hc)|(x & cn & Hx & Hn & Hc)].
      - split; [left; exists b; repeat split; assumption|]. intros E. apply (h_dead w I n ltac:(rewrite Ef; left; reflexivity)).
        rewrite <- E, <- Hn. apply in_map. exact Hb.
      - split; [right; exists x, cn; split; [rewrite Ef; right; exact Hx|split; assumption]|].
        intros E. inversion Hdn'; subst. apply H1. apply dead_names_in. exists x. split; [exact Hx|congruence]. }
    assert (Hcopies : forall y, copy_of (set_caches w (del_node (n_name n) (w_ncache w)) (w_ccache w) rest (w_cfeed w)) y -> copy_of w y).
    { intros y [Hy|[Hy|Hy]]; [left; unfold del_node in Hy; apply filter_In in Hy; apply Hy|right; left; rewrite Ef; right; exact Hy|right; right; rewrite Ef; right; exact Hy]. }
    assert (Hcached : forall nm c, nm <> n_name n -> cached_c w nm c -> cached_c (set_caches w (del_node (n_name n) (w_ncache w)) (w_ccache w) rest (w_cfeed w)) nm c).
    { intros nm c Hne (y & Hy & Hn & Hc). exists y. split; [|split; assumption]. cbn. unfold del_node. apply filter_In. split; [exact Hy|].
      destruct (str_eqb (n_name y) (n_name n)) eqn:E; [apply str_eqb_eq in E; congruence|reflexivity]. }
    cbn [set_caches w_ctl w_ncache w_ccache w_nfeed w_cfeed w_svc] in *. destruct (w_ctl w) as [m|] eqn:Em.
    * pose proof (wi_ctl w (h_w w I) m Em) as M.
      destruct (release_cidr (svc_list (w_svc w)) m last) as [m' r] eqn:Er.
      assert (Hkeep : forall nm c, holder w nm c -> nm <> n_name n -> Held m nm c -> Held m' nm c).
      { intros nm c Hc Hne Hh. eapply (release_cidr_keeps _ m last m' r M (wi_svc w (h_w w I)) Hwe Er nm c Hh); [rewrite Hl; exact Hne|].
        intros c0 canon Hc0. apply (h_disj w I (n_name n) c0 nm c); [|exact Hc|congruence]. exact (Hlast c0 canon Hc0). }
      assert (Hres : forall nm c w1, w_ctl w1 = Some m' -> holder w nm c -> nm <> n_name n -> reserved w nm c -> reserved w1 nm c).
      { intros nm c w1 E1 Hc Hne (m0 & E0 & Hh). rewrite Em in E0. inversion E0; subst m0. exists m'. split; [exact E1|apply Hkeep; assumption]. }
      destruct r; cbn [fst] in *.
      -- pose proof I as I0. hsplit I; try assumption.
         ++ intros e0 He0. apply Hfd. rewrite Ef. right. exact He0.
         ++ intros x Hx. unfold del_node in Hx. apply filter_In in Hx. apply Hca. apply Hx.
         ++ intros x Hx. apply Hde. rewrite Ef. right. exact Hx.
         ++ inversion Hdn'; assumption.
         ++ intros n1 c1 n2 c2 H1 H2. apply Hdj; [apply (Hhold n1 c1 H1)|apply (Hhold n2 c2 H2)].
         ++ intros Hs nm c Hc. destruct (Hhold nm c Hc) as [Hc' Hne]. destruct (Hpr Hs nm c Hc') as [H|H].
            ** left. eapply Hres; [reflexivity|exact Hc'|exact Hne|exact H].
            ** right. apply Hcached; assumption.
         ++ intros y Hy c Hc. destruct (Hhold _ c Hc) as [Hc' Hne]. destruct (Hcp y (Hcopies y Hy) c Hc') as [H|H]; [left; eapply Hres; [reflexivity|exact Hc'|exact Hne|exact H]|right; exact H].
         ++ intros Hs. rewrite Hsy in Hs. discriminate Hs.
         ++ intros E0. discriminate E0.
      -- pose proof I as I0. hsplit I; try assumption.
         ++ intros e0 He0. apply Hfd. rewrite Ef. right. exact He0.
         ++ intros x Hx. unfold del_node in Hx. apply filter_In in Hx. apply Hca. apply Hx.
         ++ intros x Hx. apply Hde. rewrite Ef. right. exact Hx.
         ++ inversion Hdn'; assumption.
         ++ intros n1 c1 n2 c2 H1 H2. apply Hdj; [apply (Hhold n1 c1 H1)|apply (Hhold n2 c2 H2)].
         ++ intros Hs nm c Hc. destruct (Hhold nm c Hc) as [Hc' Hne]. destruct (Hpr Hs nm c Hc') as [H|H].
            ** left. eapply Hres; [reflexivity|exact Hc'|exact Hne|exact H].
            ** right. apply Hcached; assumption.
         ++ intros y Hy c Hc. destruct (Hhold _ c Hc) as [Hc' Hne]. destruct (Hcp y (Hcopies y Hy) c Hc') as [H|H]; [left; eapply Hres; [reflexivity|exact Hc'|exact Hne|exact H]|right; exact H].
         ++ intros Hs. rewrite Hsy in Hs. discriminate Hs.
         ++ intros E0. discriminate E0.
      -- apply (crashed_hinv_of w); [exact I| |reflexivity].
         pose proof (h_w w I) as Ww. destruct Ww as [a1 b1 c1 d1 e1 f1 g1 h1 i1 j1]. constructor; cbn; try assumption.
         ++ rewrite Ef in c1. inversion c1; assumption.
         ++ apply Forall_del_node. exact e1.
    * exfalso. pose proof (h_down w I Em) as Hd. rewrite Hsy in Hd. discriminate Hd.
  Qed.

  Lemma step_kinv w o : HInv w -> KInv w -> op_ok w o -> KInv (fst (step po lab w o)).
  Proof.
    intros I K Hok. pose proof (hinv_ninv w I) as Nv.
    destruct o; cbn [step op_ok] in *; try contradiction.
    - (* UCreateNode *)
      destruct Hok as (Hfr & _ & _). destruct (find_anode name (w_nodes w)) eqn:Ea; [exact K|]. cbn [fst].
      set (a' := mkANode name ls cs false).
      destruct K as [kc kl kn]. constructor; cbn [set_api w_nfeed w_ncache]; [| |exact kn].
      + intros y Hy c Hs.
        assert (Hy' : copy_of w y \/ y = node_view a').
        { destruct Hy as [Hy|[Hy|Hy]]; cbn [set_api w_ncache w_nfeed] in Hy.
          - left. left. exact Hy.
          - apply in_push_nev in Hy. destruct Hy as [Hy|[E _]]; [left; right; left; exact Hy|right; inversion E; reflexivity].
          - apply in_push_nev in Hy. destruct Hy as [Hy|[E _]]; [left; right; right; exact Hy|discriminate E]. }
        destruct Hy' as [Hy'| ->].
        * destruct (kc y Hy' c Hs) as [(b & Hb & Hn & Hc)|(x & cn & Hx & Hn & Hc)].
          -- left. exists b. split; [cbn; apply in_or_app; left; exact Hb|split; assumption].
          -- right. exists x, cn. split; [cbn; apply in_push_nev_old; exact Hx|split; assumption].
        * left. exists a'. split; [cbn; apply in_or_app; right; left; reflexivity|split; [reflexivity|exact Hs]].
      + apply last_ok_push; [exact kl|]. intros x Hx E. apply Hfr. apply dead_names_in. exists x. split; [exact Hx|exact E].
    - (* ULabelNode *)
      destruct (find_anode name (w_nodes w)) as [a|] eqn:Ea; [|exact K]. cbn [fst].
      apply (updated_kn w a); [exact K|exact Nv|exact (find_anode_in _ _ _ Ea)|cbn; symmetry; exact (find_anode_name _ _ _ Ea)|].
      intros c Hc. exact Hc.
    - (* UDeleteNode *)
      destruct (find_anode name (w_nodes w)) as [a|] eqn:Ea; [|exact K]. cbn [fst].
      pose proof (find_anode_in _ _ _ Ea) as Hina. pose proof (find_anode_name _ _ _ Ea) as Hnm.
      destruct (w_synced w) eqn:Es.
      + destruct K as [kc kl kn]. constructor; cbn [set_api w_nfeed w_ncache]; [| |exact kn].
        * intros y Hy c Hs.
          assert (Hy' : copy_of w y).
          { destruct Hy as [Hy|[Hy|Hy]]; cbn [set_api w_ncache w_nfeed] in Hy.
            - left. exact Hy.
            - apply in_push_nev in Hy. destruct Hy as [Hy|[E _]]; [right; left; exact Hy|discriminate E].
            - apply in_push_nev in Hy. destruct Hy as [Hy|[E _]]; [right; right; exact Hy|discriminate E]. }
          destruct (kc y Hy' c Hs) as [(b & Hb & Hn & Hc)|(x & cn & Hx & Hn & Hc)].
          -- destruct (str_eqb (an_name b) name) eqn:E.
             ++ apply str_eqb_eq in E. assert (b = a) by (apply (api_node_unique w); [exact (ni_names w Nv)|exact Hb|exact Hina|congruence]). subst b.
                destruct Hc as (cn & Hc). right. exists (node_view a), cn. split; [|split; [exact Hn|exact Hc]].
                cbn. unfold push_nev. rewrite Es. apply in_or_app. right. left. reflexivity.
             ++ left. exists b. split; [|split; assumption]. cbn. unfold del_anode. apply filter_In. split; [exact Hb|]. rewrite E. reflexivity.
          -- right. exists x, cn. split; [cbn; apply in_push_nev_old; exact Hx|split; assumption].
        * apply last_ok_push; [exact kl|]. intros x Hx E. apply (ni_dead w Nv x Hx). rewrite E. cbn. apply in_map. exact Hina.
      + destruct (h_uns w I Es) as (Hc0 & Hf0 & _). constructor; cbn [set_api w_nfeed w_ncache]; unfold push_nev; rewrite ?Es, ?Hc0, ?Hf0.
        * intros y [Hy|[Hy|Hy]]; cbn [set_api w_ncache w_nfeed] in Hy; unfold push_nev in Hy; rewrite ?Es, ?Hc0, ?Hf0 in Hy; destruct Hy.
        * exact Logic.I.
        * apply NoDup_nil.
    - (* UCreateCC *)
      destruct (find_cc (o_name o) (w_ccs w)); [exact K|]. apply (kinv_same w); [exact K|reflexivity|reflexivity|reflexivity].
    - (* UDeleteCC *)
      destruct (find_cc name (w_ccs w)) as [c|]; [|exact K]. destruct (o_fins c); [apply (kinv_same w); [exact K|reflexivity|reflexivity|reflexivity]|].
      destruct (o_deleting c); [exact K|apply (kinv_same w); [exact K|reflexivity|reflexivity|reflexivity]].
    - (* USetCCFinalizers *)
      destruct (find_cc name (w_ccs w)) as [c|]; [|exact K].
      match goal with |- context [if ?b then _ else _] => destruct b end; apply (kinv_same w); try reflexivity; exact K.
    - (* DeliverNode *)
      destruct (w_nfeed w) as [|e rest] eqn:Ef; [exact K|].
      destruct e as [n|n|n].
      + exact (deliver_put_kinv w (NAdd n) rest n (or_introl eq_refl) K Ef).
      + exact (deliver_put_kinv w (NUpd n) rest n (or_intror eq_refl) K Ef).
      + exact (deliver_del_kinv w n rest n K Ef eq_refl).
    - (* DeliverCC *)
      destruct (w_cfeed w) as [|e rest]; [exact K|].
      match goal with |- KInv (fst (handle_cevent ?w0 e)) => destruct (handle_cevent_same w0 e) as (A & B & C & D & E) end.
      apply (kinv_same w); try assumption.
    - (* ResyncNodes *) destruct (w_ctl w); [|exact K]. apply (kinv_same w); try reflexivity; exact K.
    - (* ResyncCCs *) destruct (w_ctl w); [|exact K]. apply (kinv_same w); try reflexivity; exact K.
    - (* RelistCCs *)
      destruct (w_synced w) eqn:Es; [|exact K]. cbn [fst].
      match goal with |- KInv (deliver_all_c ?w0 ?es) => destruct (deliver_all_c_same es w0) as (A & B & C & D & E) end.
      apply (kinv_same w); try assumption.
    - (* FetchNode *) apply (kinv_same w); try reflexivity; exact K.
    - (* RunNode *)
      destruct (find (fun x => fst x =? w0) (w_nfetch w)) as [[wk [key cached]]|]; [|exact K].
      apply run_node_sync_kn; [apply (kinv_same w); try reflexivity; exact K|apply (ninv_same w); try reflexivity; exact Nv].
    - (* FetchCC *) apply (kinv_same w); try reflexivity; exact K.
    - (* RunCC *)
      destruct (find (fun x => fst x =? w0) (w_cfetch w)) as [[wk [key cached]]|]; [|exact K].
      apply run_cc_sync_kn; [apply (kinv_same w); try reflexivity; exact K|apply (ninv_same w); try reflexivity; exact Nv].
    - (* ProcNode *)
      destruct (w_ctl w) as [m|] eqn:Em; [|exact K]. destruct (q_ready (w_nq w)) as [|key rest]; [exact K|].
      match goal with |- context [run_node_sync po lab ?w1 ?c ?k ?o] =>
        assert (K2 : KInv (fst (run_node_sync po lab w1 c k o)));
          [|destruct (run_node_sync po lab w1 c k o) as [w2 ob2]] end.
      { apply run_node_sync_kn; [apply (kinv_same w); try reflexivity; exact K|apply (ninv_same w); try reflexivity; exact Nv]. }
      cbn [fst] in K2. destruct (ob_res ob2 =? 2); cbn [fst]; [|exact K2]. apply (kinv_same w2); try reflexivity; exact K2.
    - (* ProcCC *)
      destruct (w_ctl w) as [m|] eqn:Em; [|exact K]. destruct (q_ready (w_cq w)) as [|key rest]; [exact K|].
      match goal with |- context [run_cc_sync ?w1 ?k ?c ?o] =>
        assert (K2 : KInv (fst (run_cc_sync w1 k c o)));
          [|destruct (run_cc_sync w1 k c o) as [w2 ob2]] end.
      { apply run_cc_sync_kn; [apply (kinv_same w); try reflexivity; exact K|apply (ninv_same w); try reflexivity; exact Nv]. }
      cbn [fst] in K2. destruct (ob_res ob2 =? 2); cbn [fst]; [|exact K2]. apply (kinv_same w2); try reflexivity; exact K2.
    - (* Tick *) apply (kinv_same w); try reflexivity; exact K.
    - (* Crash *) apply kinv_crashed.
    - (* Construct *)
      destruct (w_ctl w); [exact K|].
      destruct (construct po lab (with_default dp (w_ccs w)) outs svc1 svc2 (map node_view (w_nodes w))) as [[m fx] pan]. cbn [fst].
      apply apply_effects_kn.
      + constructor; cbn; [intros y [[]|[[]|[]]]|exact Logic.I|apply NoDup_nil].
      + constructor; cbn; [exact (ni_names w Nv)|intros x []].
    - (* StartInformers *)
      destruct (w_ctl w); [|exact K]. destruct (w_synced w) eqn:Es; [exact K|]. cbn [fst].
      constructor; cbn.
      + intros y [Hy|[[]|[]]] c0 Hs. cbn in Hy. apply in_map_iff in Hy. destruct Hy as (a & <- & Ha).
        left. exists a. split; [exact Ha|split; [reflexivity|exact Hs]].
      + exact Logic.I.
      + rewrite map_map. cbn. exact (ni_names w Nv).
  Qed.

  (* ----- a relist: what the replacement events are ----- *)
  Definition gone (w : world) (k : str) : list nevent :=
    match find_anode k (w_nodes w), find_node k (w_ncache w) with None, Some n => [NDel n] | _, _ => [] end.

  Lemma gone_in w k e : In e (gone w k) -> exists x, e = NDel x /\ n_name x = k /\ In x (w_ncache w) /\ ~ In k (map an_name (w_nodes w)).
  Proof.
    unfold gone. destruct (find_anode k (w_nodes w)) eqn:Ea; [intros []|]. destruct (find_node k (w_ncache w)) as [n|] eqn:En; [|intros []].
    intros [<-|[]]. exists n. split; [reflexivity|]. split; [exact (find_node_name _ _ _ En)|]. split; [exact (find_node_in _ _ _ En)|exact (find_anode_none _ _ Ea)].
  Qed.

  Lemma gone_list l w : NoDup l ->
    NoDup (dead_names (flat_map (gone w) l)) /\ last_ok (flat_map (gone w) l) /\
    (forall e, In e (flat_map (gone w) l) -> In (n_name (nev_node e)) l).
  Proof.
    induction l as [|k l IH]; intros Hnd; cbn [flat_map]; [split; [apply NoDup_nil|split; [exact I|intros e []]]|].
    inversion Hnd; subst. destruct (IH H2) as (A & B & C).
    assert (Hk : gone w k = [] \/ exists x, gone w k = [NDel x] /\ n_name x = k).
    { unfold gone. destruct (find_anode k (w_nodes w)); [left; reflexivity|]. destruct (find_node k (w_ncache w)) as [n|] eqn:En; [|left; reflexivity].
      right. exists n. split; [reflexivity|exact (find_node_name _ _ _ En)]. }
    destruct Hk as [->|(x & -> & Hx)]; cbn [app].
    - split; [exact A|split; [exact B|]]. intros e He. right. exact (C e He).
    - split; [|split].
      + cbn. constructor; [|exact A]. intros Hin. apply dead_names_in in Hin. destruct Hin as (y & Hy & Hn). apply H1.
        rewrite Hx in Hn. rewrite <- Hn. exact (C (NDel y) Hy).
      + cbn. split; [|exact B]. intros e' He' E. apply H1. rewrite <- Hx, <- E. exact (C e' He').
      + intros e [<-|He]; [left; symmetry; exact Hx|right; exact (C e He)].
  Qed.

  Lemma find_node_nodup l x : NoDup (map n_name l) -> In x l -> find_node (n_name x) l = Some x.
  Proof.
    induction l as [|h t IH]; intros Hnd Hin; [destruct Hin|]. cbn in *. inversion Hnd; subst.
    destruct Hin as [->|Hin]; [rewrite str_eqb_refl; reflexivity|].
    destruct (str_eqb (n_name h) (n_name x)) eqn:E; [|exact (IH H2 Hin)].
    apply str_eqb_eq in E. exfalso. apply H1. rewrite E. apply in_map. exact Hin.
  Qed.

  Lemma relist_split w : relist_nevents w = map (fun a => NUpd (node_view a)) (w_nodes w) ++ flat_map (gone w) (sort_by str_ltb (map n_name (w_ncache w))).
  Proof. reflexivity. Qed.

  Lemma relist_ndel w x : NoDup (map n_name (w_ncache w)) ->
    (In (NDel x) (relist_nevents w) <-> In x (w_ncache w) /\ ~ In (n_name x) (map an_name (w_nodes w))).
  Proof.
    intros Hnd. rewrite relist_split. split.
    - intros H. apply in_app_or in H. destruct H as [H|H]; [apply in_map_iff in H; destruct H as (a & E & _); discriminate E|].
      apply in_flat_map in H. destruct H as (k & _ & Hk). apply gone_in in Hk. destruct Hk as (y & E & Hn & Hy & Hno). inversion E; subst y. rewrite Hn. split; assumption.
    - intros [Hx Hno]. apply in_or_app. right. apply in_flat_map. exists (n_name x). split.
      + eapply Permutation.Permutation_in; [apply sort_perm|]. apply in_map. exact Hx.
      + unfold gone. rewrite (find_node_nodup _ _ Hnd Hx).
        destruct (find_anode (n_name x) (w_nodes w)) as [a|] eqn:Ea; [|left; reflexivity].
        exfalso. apply Hno. rewrite <- (find_anode_name _ _ _ Ea). apply in_map. exact (find_anode_in _ _ _ Ea).
  Qed.
  Lemma relist_nupd w y : In (NUpd y) (relist_nevents w) <-> exists a, In a (w_nodes w) /\ y = node_view a.
  Proof.
    rewrite relist_split. split.
    - intros H. apply in_app_or in H. destruct H as [H|H].
      + apply in_map_iff in H. destruct H as (a & E & Ha). exists a. split; [exact Ha|inversion E; reflexivity].
      + apply in_flat_map in H. destruct H as (k & _ & Hk). apply gone_in in Hk. destruct Hk as (x & E & _). discriminate E.
    - intros (a & Ha & ->). apply in_or_app. left. apply in_map_iff. exists a. split; [reflexivity|exact Ha].
  Qed.
  Lemma relist_nadd w y : ~ In (NAdd y) (relist_nevents w).
  Proof.
    rewrite relist_split. intros H. apply in_app_or in H. destruct H as [H|H].
    - apply in_map_iff in H. destruct H as (a & E & _). discriminate E.
    - apply in_flat_map in H. destruct H as (k & _ & Hk). apply gone_in in Hk. destruct Hk as (x & E & _). discriminate E.
  Qed.
  Lemma dead_names_upds l : dead_names (map (fun a => NUpd (node_view a)) l) = [].
  Proof. induction l as [|h t IH]; [reflexivity|exact IH]. Qed.
  Lemma last_ok_upds l r : last_ok r -> last_ok (map (fun a => NUpd (node_view a)) l ++ r).
  Proof. intros H. induction l as [|h t IH]; [exact H|cbn; split; [exact I|exact IH]]. Qed.

  (* the world at the moment of the relist, seen as a world whose pending notifications are the replacement events *)
  Lemma relist_feed w : HInv w -> KInv w -> w_synced w = true ->
    HInv (setnf w (relist_nevents w)) /\ KInv (setnf w (relist_nevents w)).
  Proof.
    intros I K Hsy. pose proof (k_cn w K) as Hcn.
    assert (Hsorted : NoDup (sort_by str_ltb (map n_name (w_ncache w)))) by (eapply Permutation.Permutation_NoDup; [apply sort_perm|exact Hcn]).
    destruct (gone_list _ w Hsorted) as (Gd & Gl & _).
    assert (Hdel : forall x, In (NDel x) (relist_nevents w) -> In x (w_ncache w) /\ ~ In (n_name x) (map an_name (w_nodes w))) by (intros x; apply relist_ndel; exact Hcn).
    (* holders only shrink *)
    assert (Hhold : forall nm c, holder (setnf w (relist_nevents w)) nm c -> holder w nm c).
    { intros nm c [H|(x & cn & Hx & Hn & Hc)]; [left; exact H|].
      cbn in Hx. destruct (Hdel x Hx) as [Hxc Hno]. pose proof (k_ch w K x (or_introl Hxc) c (ex_intro _ cn Hc)) as Hh. rewrite Hn in Hh. exact Hh. }
    assert (Hcopy : forall y, copy_of (setnf w (relist_nevents w)) y -> copy_of w y \/ exists a, In a (w_nodes w) /\ y = node_view a).
    { intros y [Hy|[Hy|Hy]]; cbn in Hy; [left; left; exact Hy|destruct (relist_nadd w y Hy)|right; apply relist_nupd; exact Hy]. }
    split.
    - pose proof I as I0. hsplit I; unfold setnf; cbn [set_caches w_nodes w_nfeed w_ncache w_nfetch w_ctl w_synced]; try assumption.
      + pose proof Hw as Ww. destruct Ww as [a1 b1 c1 d1 e1 f1 g1 h1 i1 j1]. constructor; cbn; try assumption. apply relist_nevents_wf. exact Hw.
      + intros e He. destruct e as [y|y|y]; cbn.
        * destruct (relist_nadd w y He).
        * apply relist_nupd in He. destruct He as (a & Ha & ->). cbn. exact (Hnd a Ha).
        * apply Hca. exact (proj1 (Hdel y He)).
      + intros x Hx. exact (proj2 (Hdel x Hx)).
      + rewrite relist_split, dead_names_app, dead_names_upds. exact Gd.
      + intros n1 c1 n2 c2 H1 H2. apply Hdj; apply Hhold; assumption.
      + intros Hs nm c Hc. destruct (Hpr Hs nm c (Hhold nm c Hc)) as [H|H]; [left; exact H|right; exact H].
      + intros y Hy c Hc. destruct (Hcopy y Hy) as [Hy'|(a & Ha & ->)]; [exact (Hcp y Hy' c (Hhold _ c Hc))|].
        right. destruct Hc as [(b & Hb & Hn & Hbc)|(x & cn & Hx & Hn & _)].
        * assert (b = a) by (apply (api_node_unique w); [exact Hnm|exact Hb|exact Ha|exact Hn]). subst b. exact Hbc.
        * exfalso. cbn in Hx. apply (proj2 (Hdel x Hx)). rewrite Hn. cbn. apply in_map. exact Ha.
      + intros Hs. rewrite Hsy in Hs. discriminate Hs.
    - constructor; unfold setnf; cbn [set_caches w_nfeed w_ncache].
      + intros y Hy c Hs. destruct (Hcopy y Hy) as [Hy'|(a & Ha & ->)].
        * destruct Hy as [Hy|[Hy|Hy]]; cbn in Hy.
          -- (* a cache entry: its holder is the API node, or it is one of the vanished nodes *)
             destruct (k_ch w K y (or_introl Hy) c Hs) as [H|(x & cn & Hx & Hn & Hc)]; [left; exact H|].
             right. destruct Hs as (cn' & Hs). exists y, cn'. split; [|split; [reflexivity|exact Hs]]. cbn.
             apply relist_ndel; [exact Hcn|]. split; [exact Hy|]. rewrite <- Hn. exact (h_dead w I x Hx).
          -- destruct (relist_nadd w y Hy).
          -- apply relist_nupd in Hy. destruct Hy as (a & Ha & ->). left. exists a. split; [exact Ha|split; [reflexivity|exact Hs]].
        * left. exists a. split; [exact Ha|split; [reflexivity|exact Hs]].
      + rewrite relist_split. apply last_ok_upds. exact Gl.
      + exact Hcn.
  Qed.

  Lemma setnf_id w : setnf w (w_nfeed w) = w.
  Proof. destruct w; reflexivity. Qed.

  Lemma handle_nevent_setnf w f e :
    handle_nevent (setnf w f) e =
    ((if ob_res (snd (handle_nevent w e)) =? 3 then fst (handle_nevent w e) else setnf (fst (handle_nevent w e)) f), snd (handle_nevent w e)).
  Proof.
    unfold handle_nevent, setnf. destruct e as [n|n|n]; cbn [set_caches w_ctl w_ncache w_ccache w_nfeed w_cfeed w_svc].
    - destruct (w_ctl w); reflexivity.
    - destruct (w_ctl w); reflexivity.
    - destruct (w_ctl w) as [m|]; [|reflexivity]. destruct (release_cidr (svc_list (w_svc w)) m n) as [m' r]. destruct r; reflexivity.
  Qed.

  Lemma handle_nevent_feed w e : w_nfeed w = [] -> w_nfeed (fst (handle_nevent w e)) = [].
  Proof.
    intros Hf. unfold handle_nevent. destruct e as [n|n|n]; cbn [set_caches w_ctl w_svc].
    - destruct (w_ctl w); cbn; exact Hf.
    - destruct (w_ctl w); cbn; exact Hf.
    - destruct (w_ctl w) as [m|]; [|cbn; exact Hf]. destruct (release_cidr (svc_list (w_svc w)) m n) as [m' r]. destruct r; cbn; try exact Hf; reflexivity.
  Qed.

  Definition op_ok4 (w : world) (o : op) : Prop :=
    match o with
    | DeliverNodeTombstone | RelistNodes => True
    | _ => op_ok w o
    end.

  Lemma deliver_all_n_jinv es : forall w acc, w_nfeed w = [] -> HInv (setnf w es) -> KInv (setnf w es) ->
    HInv (fst (deliver_all_n w es acc)) /\ KInv (fst (deliver_all_n w es acc)).
  Proof.
    induction es as [|e es IH]; intros w acc Hf I K; cbn [deliver_all_n].
    - rewrite <- Hf, setnf_id in I, K. split; assumption.
    - pose proof (op_ok_step po lab (setnf w (e :: es)) DeliverNode I Logic.I) as I1.
      pose proof (step_kinv (setnf w (e :: es)) DeliverNode I K Logic.I) as K1.
      change (fst (step po lab (setnf w (e :: es)) DeliverNode)) with (fst (handle_nevent (setnf w es) e)) in I1, K1.
      rewrite handle_nevent_setnf in I1, K1. cbn [fst] in I1, K1.
      destruct (handle_nevent w e) as [w1 ob] eqn:Eh. cbn [fst snd] in *.
      destruct (ob_res ob =? 3); [split; assumption|].
      apply IH; [|exact I1|exact K1]. pose proof (handle_nevent_feed w e Hf) as H. rewrite Eh in H. exact H.
  Qed.

  Record JInv (w : world) : Prop := { j_h : HInv w; j_k : KInv w }.

  Lemma jinv_init : JInv init_world.
  Proof. split; [apply hinv_init|apply kinv_init]. Qed.

  Theorem step_jinv w o : JInv w -> op_ok4 w o -> JInv (fst (step po lab w o)).
  Proof.
    intros [I K] Hok.
    destruct o; try (split; [apply op_ok_step; assumption|apply step_kinv; assumption]).
    - (* DeliverNodeTombstone *)
      cbn [step]. destruct (w_nfeed w) as [|e rest] eqn:Ef; [split; assumption|]. destruct e as [n|n|n]; try (split; assumption).
      assert (Hn : wf_node n) by (pose proof (wi_nfeed w (h_w w I)) as H; rewrite Ef in H; inversion H; assumption).
      change (set_caches w (w_ncache w) (w_ccache w) rest (w_cfeed w)) with (setnf w rest).
      destruct (find_node (n_name n) (w_ncache w)) as [c|] eqn:Ec.
      + pose proof (find_node_name _ _ _ Ec) as Hcn. pose proof (find_node_in _ _ _ Ec) as Hci. split.
        * apply (deliver_del_hinv w n rest c I Ef Hcn).
          -- pose proof (wi_ncache w (h_w w I)) as H. rewrite Forall_forall in H. exact (H c Hci).
          -- intros c0 cn Hc0. rewrite <- Hcn. exact (k_ch w K c (or_introl Hci) c0 (ex_intro _ cn Hc0)).
        * exact (deliver_del_kinv w n rest c K Ef Hcn).
      + split.
        * apply (deliver_del_hinv w n rest n I Ef eq_refl Hn). intros c0 cn Hc0. right. exists n, cn. split; [rewrite Ef; left; reflexivity|split; [reflexivity|exact Hc0]].
        * exact (deliver_del_kinv w n rest n K Ef eq_refl).
    - (* RelistNodes *)
      cbn [step]. destruct (w_synced w) eqn:Es; [|split; assumption].
      destruct (relist_feed w I K Es) as [I1 K1].
      destruct (deliver_all_n_jinv (relist_nevents w) (set_caches w (w_ncache w) (w_ccache w) [] (w_cfeed w)) 0 eq_refl I1 K1) as [I2 K2].
      split; assumption.
  Qed.

  Fixpoint valid4 (w : world) (ops : list op) : Prop :=
    match ops with
    | [] => True
    | o :: r => op_ok4 w o /\ valid4 (fst (step po lab w o)) r
    end.

  Theorem valid4_jinv ops : forall w, JInv w -> valid4 w ops -> JInv (run po lab w ops).
  Proof.
    induction ops as [|o ops IH]; intros w J H; [exact J|]. destruct H as [H1 H2].
    unfold run. cbn [fold_left]. apply IH; [apply step_jinv; assumption|exact H2].
  Qed.

  (* C01 / C03 with the whole informer contract: tombstones and relists at any time *)
  Theorem no_overlap_with_tombstones_and_relists ops :
    valid4 init_world ops ->
    let w := run po lab init_world ops in
    forall n1 c1 n2 c2, holder w n1 c1 -> holder w n2 c2 -> n1 <> n2 -> overlapb c1 c2 = false.
  Proof. intros H w. apply h_disj. apply j_h. subst w. apply valid4_jinv; [apply jinv_init|exact H]. Qed.

  (* every valid history of Hist3 is valid here *)
  Lemma valid_valid4 ops : forall w, valid po lab w ops -> valid4 w ops.
  Proof.
    induction ops as [|o ops IH]; intros w H; [exact Logic.I|]. destruct H as [H1 H2]. split; [|apply IH; exact H2].
    destruct o; cbn [op_ok op_ok4] in *; try exact H1; exact Logic.I.
  Qed.
End Hist4.
