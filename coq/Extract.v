(* Extract.v -- extraction of the executable model for the correspondence check.
   ExtrOcamlBasic only: bool, option, unit, list, prod, sumbool, sumor, comparison are mapped to
   OCaml's; N, Z, positive stay Coq datatypes (no machine integers anywhere). *)
Require Extraction.
Require Import ExtrOcamlBasic.
From NIPAM Require Import Pool.
Extraction "model.ml"
  new_pool occupy release next_candidate go_index_to_block go_get_index go_begin_end gmax
  wf_geomb wf_cidrb overlapb.
