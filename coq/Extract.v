(* Extract.v -- extraction of the executable model for the correspondence check.
   ExtrOcamlBasic only: bool, option, unit, list, prod, sumbool, sumor, comparison are mapped to
   OCaml's; N, Z, positive stay Coq datatypes (no machine integers anywhere). *)
Require Extraction.
Require Import ExtrOcamlBasic.
From NIPAM Require Import Pool Prio Sel Lbl Alloc Sys Valid ValidSel.
Extraction "model.ml"
  new_pool occupy release next_candidate go_index_to_block go_get_index go_begin_end gmax
  wf_geomb wf_cidrb overlapb
  less sort_by req_matches match_reqs flatten_sel parse_int64
  step init_world finalizer default_key ordered_matching default_reqs
  validate_spec validate_update get_entry
  selector_key parse sel_parse match_key lex validate_spec_raw.
