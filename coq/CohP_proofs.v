(* CohP_proofs.v -- informer coherence up to order, in EVERY history (node relists included): the node store has one
   object per name, and replaying the pending node notifications onto it yields exactly the views of the API objects, as a
   set.  A relist may reorder the store; nothing else changes. *)
From NIPAM Require Import Sys Geom_proofs Pool_proofs Prio_proofs Alloc_proofs Inv_proofs Sys_proofs World_proofs Complete_proofs Resv_proofs Path_proofs NoPanic_proofs
  Hist_proofs Hist2_proofs Hist3_proofs Hist4_proofs Store_proofs Progress_proofs Conv_proofs Coh_proofs.
From Coq Require Import Lia Permutation.
Open Scope N_scope.

Lemma replay_seq f : forall c c', seq c c' -> seq (replay_n c f) (replay_n c' f).
Proof.
  induction f as [|e f IH]; intros c c' H; [exact H|]. destruct e; cbn; apply IH; first [apply put_node_seq|apply del_node_seq]; exact H.
Qed.
Lemma replay_names f : forall c, nd c -> nd (replay_n c f).
Proof. induction f as [|e f IH]; intros c H; [exact H|]. destruct e; cbn; apply IH; first [apply put_node_names|apply del_node_names]; exact H. Qed.


(* ---------- the invariant ---------- *)
Record CohP (w : world) : Prop := {
  cq_names : NoDup (map an_name (w_nodes w));
  cq_store : nd (w_ncache w);
  cq_sync : w_synced w = true -> seq (replay_n (w_ncache w) (w_nfeed w)) (views (w_nodes w));
  cq_uns : w_synced w = false -> w_nfeed w = []
}.

Lemma cohp_init : CohP init_world.
Proof. constructor; cbn; [apply NoDup_nil|apply NoDup_nil|discriminate|reflexivity]. Qed.
Lemma cohp_same w w' : CohP w -> w_nodes w' = w_nodes w -> w_nfeed w' = w_nfeed w -> w_ncache w' = w_ncache w -> w_synced w' = w_synced w -> CohP w'.
Proof. intros [a b c d] E1 E2 E3 E4. constructor; rewrite ?E1, ?E2, ?E3, ?E4; assumption. Qed.
Lemma cohp_crashed w : CohP w -> CohP (crashed w).
Proof. intros [a b c d]. constructor; cbn; [exact a|apply NoDup_nil|discriminate|reflexivity]. Qed.

(* an API change together with its notification: same premise as for the exact coherence *)
Lemma cohp_push w nodes' e :
  CohP w -> NoDup (map an_name nodes') ->
  replay_n (views (w_nodes w)) [e] = views nodes' ->
  CohP (set_api w nodes' (w_ccs w) (w_rv w) (push_nev w e) (w_cfeed w)).
Proof.
  intros [a b c d] Hnd He. constructor; cbn [set_api w_nodes w_nfeed w_ncache w_synced].
  - exact Hnd.
  - exact b.
  - intros Hs. unfold push_nev. rewrite Hs, replay_app, <- He. apply replay_seq. exact (c Hs).
  - intros Hs. unfold push_nev. rewrite Hs. exact (d Hs).
Qed.

Lemma cohp_update w a a' : CohP w -> find_anode (an_name a') (w_nodes w) = Some a ->
  CohP (set_api w (upd_anode a' (w_nodes w)) (w_ccs w) (w_rv w) (push_nev w (NUpd (node_view a'))) (w_cfeed w)).
Proof.
  intros C Hf. destruct (find_anode_some_in _ _ _ Hf) as [Hin Hn]. apply cohp_push; [exact C|rewrite upd_anode_names; exact (cq_names w C)|].
  cbn. apply put_node_view; [exact (cq_names w C)|]. exists a. split; assumption.
Qed.

Lemma apply_patch_cohp w nm cs o : CohP w -> CohP (apply_patch w nm cs o).
Proof.
  intros C. unfold apply_patch. destruct o; try exact C;
    (destruct (find_anode nm (w_nodes w)) as [a|] eqn:Ea; [|exact C]; destruct (an_cidrs a) eqn:Ec; [|exact C]);
    (destruct (find_anode_some_in _ _ _ Ea) as [_ Hn]; eapply (cohp_update w a); [exact C|cbn; rewrite Hn; exact Ea]).
Qed.
Lemma apply_effects_cohp fx : forall w, CohP w -> CohP (apply_effects w fx).
Proof.
  induction fx as [|e fx IH]; intros w C; [exact C|]. destruct e as [nd0 cs po|? ?|? ?|o' out|o' out]; cbn [apply_effects]; try (apply IH; exact C).
  - apply IH. apply apply_patch_cohp. exact C.
  - apply IH. apply (cohp_same w); [exact C|apply apply_update_cc_nodes|apply apply_update_cc_feed|apply apply_update_cc_ncache|apply apply_update_cc_synced].
  - apply IH. destruct (apply_create_cc_frame w o' out) as (E1 & E2 & _ & _ & _ & _ & E4 & E6 & _). apply (cohp_same w); assumption.
Qed.
Lemma after_call_cohp {A} w (r : res A) m' : CohP w -> CohP (after_call w r m').
Proof. intros C. unfold after_call. destruct r; try (apply cohp_crashed; exact C); apply (cohp_same w); try reflexivity; exact C. Qed.

Section CohPStep.
  Variable po : parse_oracle.
  Variable lab : label_oracle.

  Lemma run_node_sync_cohp w cached key outs : CohP w -> CohP (fst (run_node_sync po lab w cached key outs)).
  Proof.
    intros C. unfold run_node_sync. destruct (w_ctl w) as [m|]; [|exact C].
    destruct (sync_node po lab (svc_list (w_svc w)) (can_patch w key) (api_same w key) (held_cidrs (w_ncache w)) m cached (find_node key (w_ncache w)) outs) as [[m' r] fx].
    cbn [fst]. apply apply_effects_cohp. apply after_call_cohp. exact C.
  Qed.
  Lemma run_cc_sync_cohp w key cached out : CohP w -> CohP (fst (run_cc_sync w key cached out)).
  Proof.
    intros C. unfold run_cc_sync. destruct (w_ctl w) as [m|]; [|exact C].
    match goal with |- context [sync_cc m key cached ?o] => destruct (sync_cc m key cached o) as [[m' r] fx] end.
    cbn [fst]. apply apply_effects_cohp. pose proof (after_call_cohp w r m' C) as A.
    destruct cached as [o|]; [|exact A]. match goal with |- context [if ?b then _ else _] => destruct b end; [|exact A].
    apply (cohp_same (after_call w r m')); try reflexivity; exact A.
  Qed.

  (* delivering the oldest pending notification (possibly carrying another state of the same node, for a deletion) *)
  Lemma deliver_cohp w e rest e' : CohP w -> w_nfeed w = e :: rest ->
    (forall c, replay_n c [e'] = replay_n c [e]) ->
    CohP (fst (handle_nevent (set_caches w (w_ncache w) (w_ccache w) rest (w_cfeed w)) e')).
  Proof.
    intros C Ef He.
    assert (Hsy : w_synced w = true).
    { destruct (w_synced w) eqn:E; [reflexivity|]. pose proof (cq_uns w C E) as B. rewrite Ef in B. discriminate B. }
    pose proof (cq_sync w C Hsy) as Hr. rewrite Ef in Hr. change (e :: rest) with ([e] ++ rest) in Hr. rewrite replay_app, <- He in Hr.
    assert (Hst : nd (replay_n (w_ncache w) [e'])) by (apply replay_names; exact (cq_store w C)).
    assert (G : forall W, w_nodes W = w_nodes w -> w_nfeed W = rest -> w_ncache W = replay_n (w_ncache w) [e'] -> w_synced W = true -> CohP W).
    { intros W E1 E2 E3 E4. constructor; rewrite ?E1, ?E2, ?E3, ?E4; [exact (cq_names w C)|exact Hst|intros _; exact Hr|discriminate]. }
    unfold handle_nevent. destruct e' as [n|n|n]; cbn [set_caches w_ctl w_ncache w_ccache w_nfeed w_cfeed w_svc].
    - destruct (w_ctl w); cbn [fst]; apply G; reflexivity || exact Hsy.
    - destruct (w_ctl w); cbn [fst]; apply G; reflexivity || exact Hsy.
    - destruct (w_ctl w) as [m|]; [|cbn [fst]; apply G; reflexivity || exact Hsy].
      destruct (release_cidr (svc_list (w_svc w)) m n) as [m' r]. destruct r; cbn [fst]; try (apply G; reflexivity || exact Hsy).
      apply cohp_crashed. apply G; reflexivity || exact Hsy.
  Qed.

  (* ----- a relist: the replacement notifications replay, from ANY store with unique names, to the views of the API objects ----- *)
  Lemma replay_puts l : forall c, nd c -> NoDup (map an_name l) ->
    let c' := replay_n c (map (fun a => NUpd (node_view a)) l) in
    nd c' /\ forall y, In y c' <-> In y (views l) \/ (In y c /\ ~ In (n_name y) (map an_name l)).
  Proof.
    induction l as [|a l IH]; intros c Hc Hnd; cbn [map replay_n].
    - split; [exact Hc|]. intros y. cbn. tauto.
    - inversion Hnd as [|x0 l0 Hna Hndl]; subst.
      destruct (IH (put_node (node_view a) c) (put_node_names _ _ Hc) Hndl) as [A B]. split; [exact A|].
      intros y. rewrite B, (in_put_node_iff (node_view a) c y Hc). cbn [views map node_view n_name].
      split.
      + intros [H|[[->|[Hy Hne]] Hno]].
        * left. right. exact H.
        * left. left. reflexivity.
        * right. split; [exact Hy|]. cbn. intros [E|Hin]; [apply Hne; symmetry; exact E|exact (Hno Hin)].
      + intros [[<-|H]|[Hy Hno]].
        * right. split; [left; reflexivity|]. cbn. exact Hna.
        * left. exact H.
        * right. split; [right; split; [exact Hy|]|].
          -- cbn. intros E. apply Hno. left. symmetry. exact E.
          -- intros Hin. apply Hno. right. exact Hin.
  Qed.

  Lemma replay_gone w ks : forall c, nd c ->
    let c' := replay_n c (flat_map (gone w) ks) in
    nd c' /\ forall y, In y c' <-> In y c /\ ~ (In (n_name y) ks /\ ~ In (n_name y) (map an_name (w_nodes w)) /\ In (n_name y) (map n_name (w_ncache w))).
  Proof.
    induction ks as [|k ks IH]; intros c Hc; cbn [flat_map].
    - split; [exact Hc|]. intros y. cbn. tauto.
    - rewrite replay_app.
      assert (Hk : (gone w k = [] /\ (In k (map an_name (w_nodes w)) \/ ~ In k (map n_name (w_ncache w)))) \/
                   (exists x, gone w k = [NDel x] /\ n_name x = k /\ ~ In k (map an_name (w_nodes w)) /\ In k (map n_name (w_ncache w)))).
      { unfold gone. destruct (find_anode k (w_nodes w)) as [a|] eqn:Ea.
        - left. split; [reflexivity|]. left. destruct (find_anode_some_in _ _ _ Ea) as [Hin Hn]. rewrite <- Hn. apply in_map. exact Hin.
        - destruct (find_node k (w_ncache w)) as [n|] eqn:En.
          + right. exists n. split; [reflexivity|]. split; [exact (find_node_name _ _ _ En)|]. split; [exact (find_anode_none _ _ Ea)|].
            rewrite <- (find_node_name _ _ _ En). apply in_map. exact (find_node_in _ _ _ En).
          + left. split; [reflexivity|]. right. apply find_node_none_notin. exact En. }
      destruct Hk as [[-> Hk]|(x & -> & Hx & Hno & Hin)]; cbn [replay_n].
      + destruct (IH c Hc) as [A B]. split; [exact A|]. intros y. rewrite B. split; intros [Hy Hn]; (split; [exact Hy|]).
        * intros ([E|Hin] & H1 & H2); [subst k; destruct Hk as [Hk|Hk]; [exact (H1 Hk)|exact (Hk H2)]|apply Hn; split; [exact Hin|split; assumption]].
        * intros (Hin & H1 & H2). apply Hn. split; [right; exact Hin|split; assumption].
      + destruct (IH (del_node (n_name x) c) (del_node_names _ _ Hc)) as [A B]. split; [exact A|]. intros y. rewrite B, in_del_node_iff, Hx.
        split.
        * intros [[Hy Hne] Hn]. split; [exact Hy|]. intros ([E|Hk] & H1 & H2); [exact (Hne (eq_sym E))|apply Hn; split; [exact Hk|split; assumption]].
        * intros [Hy Hn]. split; [split; [exact Hy|]|].
          -- intros E. apply Hn. split; [left; symmetry; exact E|]. rewrite E. split; assumption.
          -- intros (Hk & H1 & H2). apply Hn. split; [right; exact Hk|split; assumption].
  Qed.

  Lemma relist_replay w : nd (w_ncache w) -> NoDup (map an_name (w_nodes w)) ->
    seq (replay_n (w_ncache w) (relist_nevents w)) (views (w_nodes w)).
  Proof.
    intros Hc Hn. rewrite relist_split, replay_app.
    destruct (replay_puts (w_nodes w) (w_ncache w) Hc Hn) as [A B]. cbv zeta in A, B.
    destruct (replay_gone w (sort_by str_ltb (map n_name (w_ncache w))) _ A) as [A2 B2]. cbv zeta in A2, B2.
    split; [exact A2|split; [apply views_nd; exact Hn|]]. intros y. rewrite B2, B. split.
    - intros [[Hv|[Hy Hno]] Hn2]; [exact Hv|]. exfalso. apply Hn2. split; [|split; [exact Hno|apply in_map; exact Hy]].
      eapply Permutation_in; [apply sort_perm|]. apply in_map. exact Hy.
    - intros Hv. split; [left; exact Hv|]. intros (_ & Hno & _). apply Hno. unfold views in Hv. apply in_map_iff in Hv. destruct Hv as (a & <- & Ha). cbn. apply in_map. exact Ha.
  Qed.

  Lemma deliver_all_n_cohp es : forall w acc, w_nfeed w = [] -> CohP (setnf w es) -> CohP (fst (deliver_all_n w es acc)).
  Proof.
    induction es as [|e es IH]; intros w acc Hf C; cbn [deliver_all_n].
    - rewrite <- Hf, setnf_id in C. exact C.
    - pose proof (deliver_cohp (setnf w (e :: es)) e es e C eq_refl (fun c => eq_refl)) as C1.
      change (set_caches (setnf w (e :: es)) (w_ncache (setnf w (e :: es))) (w_ccache (setnf w (e :: es))) es (w_cfeed (setnf w (e :: es)))) with (setnf w es) in C1.
      rewrite handle_nevent_setnf in C1. cbn [fst] in C1.
      destruct (handle_nevent w e) as [w1 ob] eqn:Eh. cbn [fst snd] in *.
      destruct (ob_res ob =? 3); [exact C1|].
      apply IH; [|exact C1]. pose proof (handle_nevent_feed w e Hf) as H. rewrite Eh in H. exact H.
  Qed.

  (* every step of every history *)
  Theorem step_cohp w o : CohP w -> CohP (fst (step po lab w o)).
  Proof.
    intros C. destruct o; cbn [step] in *.
    - destruct (find_anode name (w_nodes w)) eqn:Ea; [exact C|]. cbn [fst]. apply cohp_push; [exact C| |].
      + rewrite map_app. cbn. apply NoDup_app_snoc; [exact (cq_names w C)|exact (find_anode_none _ _ Ea)].
      + cbn. apply (put_node_view_new (mkANode name ls cs false)). cbn. exact Ea.
    - destruct (find_anode name (w_nodes w)) as [a|] eqn:Ea; [|exact C]. cbn [fst]. apply (cohp_update w a); [exact C|cbn; exact Ea].
    - destruct (find_anode name (w_nodes w)) as [a|] eqn:Ea; [|exact C]. cbn [fst].
      destruct (find_anode_some_in _ _ _ Ea) as [_ Hn]. apply cohp_push; [exact C|apply del_anode_nodup; exact (cq_names w C)|].
      cbn. rewrite Hn. apply del_node_view.
    - destruct (find_anode name (w_nodes w)) as [a|] eqn:Ea; [|exact C]. cbn [fst]. apply (cohp_update w a); [exact C|cbn; exact Ea].
    - destruct (find_cc (o_name o) (w_ccs w)); [exact C|]. apply (cohp_same w); try reflexivity; exact C.
    - destruct (find_cc name (w_ccs w)) as [c|]; [|exact C]. destruct (o_fins c); [apply (cohp_same w); try reflexivity; exact C|].
      destruct (o_deleting c); [exact C|apply (cohp_same w); try reflexivity; exact C].
    - destruct (find_cc name (w_ccs w)) as [c|]; [|exact C].
      match goal with |- context [if ?b then _ else _] => destruct b end; apply (cohp_same w); try reflexivity; exact C.
    - destruct (w_nfeed w) as [|e rest] eqn:Ef; [exact C|]. apply (deliver_cohp w e rest e C Ef). reflexivity.
    - destruct (w_nfeed w) as [|[n|n|n] rest] eqn:Ef; try exact C.
      apply (deliver_cohp w (NDel n) rest _ C Ef). intros c. cbn.
      destruct (find_node (n_name n) (w_ncache w)) as [x|] eqn:Ex; [rewrite (find_node_name _ _ _ Ex)|]; reflexivity.
    - destruct (w_cfeed w) as [|e rest]; [exact C|].
      match goal with |- CohP (fst (handle_cevent ?w0 e)) => destruct (handle_cevent_same w0 e) as (A & B & D & _ & _) end.
      apply (cohp_same w); try assumption. unfold handle_cevent. destruct e; cbn; destruct (w_ctl w); reflexivity.
    - destruct (w_ctl w); [|exact C]. apply (cohp_same w); try reflexivity; exact C.
    - destruct (w_ctl w); [|exact C]. apply (cohp_same w); try reflexivity; exact C.
    - (* RelistNodes *)
      destruct (w_synced w) eqn:Es; [|exact C].
      apply deliver_all_n_cohp; [reflexivity|].
      constructor; cbn [setnf set_caches w_nodes w_ncache w_nfeed w_synced]; [exact (cq_names w C)|exact (cq_store w C)| |rewrite Es; discriminate].
      intros _. apply relist_replay; [exact (cq_store w C)|exact (cq_names w C)].
    - (* RelistCCs *)
      destruct (w_synced w) eqn:Es; [|exact C]. cbn [fst].
      match goal with |- CohP (deliver_all_c ?w0 ?es) => destruct (deliver_all_c_same es w0) as (A & B & D & _ & _); pose proof (deliver_all_c_synced es w0) as F end.
      apply (cohp_same w); try assumption.
    - apply (cohp_same w); try reflexivity; exact C.
    - destruct (find (fun x => fst x =? w0) (w_nfetch w)) as [[wk [key cached]]|]; [|exact C].
      apply run_node_sync_cohp. apply (cohp_same w); try reflexivity; exact C.
    - apply (cohp_same w); try reflexivity; exact C.
    - destruct (find (fun x => fst x =? w0) (w_cfetch w)) as [[wk [key cached]]|]; [|exact C].
      apply run_cc_sync_cohp. apply (cohp_same w); try reflexivity; exact C.
    - destruct (w_ctl w) as [m|] eqn:Em; [|exact C]. destruct (q_ready (w_nq w)) as [|key rest]; [exact C|].
      match goal with |- context [run_node_sync po lab ?w1 ?c ?k ?o] =>
        assert (C2 : CohP (fst (run_node_sync po lab w1 c k o)));
          [|destruct (run_node_sync po lab w1 c k o) as [w2 ob2]] end.
      { apply run_node_sync_cohp. apply (cohp_same w); try reflexivity; exact C. }
      cbn [fst] in C2. destruct (ob_res ob2 =? 2); cbn [fst]; [apply (cohp_same w2); try reflexivity; exact C2|exact C2].
    - destruct (w_ctl w) as [m|] eqn:Em; [|exact C]. destruct (q_ready (w_cq w)) as [|key rest]; [exact C|].
      match goal with |- context [run_cc_sync ?w1 ?k ?c ?o] =>
        assert (C2 : CohP (fst (run_cc_sync w1 k c o)));
          [|destruct (run_cc_sync w1 k c o) as [w2 ob2]] end.
      { apply run_cc_sync_cohp. apply (cohp_same w); try reflexivity; exact C. }
      cbn [fst] in C2. destruct (ob_res ob2 =? 2); cbn [fst]; [apply (cohp_same w2); try reflexivity; exact C2|exact C2].
    - apply (cohp_same w); try reflexivity; exact C.
    - apply cohp_crashed. exact C.
    - destruct (w_ctl w); [exact C|].
      destruct (construct po lab (with_default dp (w_ccs w)) outs svc1 svc2 (map node_view (w_nodes w))) as [[m fx] pan]. cbn [fst].
      apply apply_effects_cohp. constructor; cbn; [exact (cq_names w C)|apply NoDup_nil|discriminate|reflexivity].
    - destruct (w_ctl w); [|exact C]. destruct (w_synced w); [exact C|]. cbn [fst].
      constructor; cbn; [exact (cq_names w C)|apply views_nd; exact (cq_names w C)|intros _; apply seq_refl; apply views_nd; exact (cq_names w C)|discriminate].
  Qed.

  Theorem run_cohp ops : forall w, CohP w -> CohP (run po lab w ops).
  Proof. induction ops as [|o ops IH]; intros w C; [exact C|]. unfold run. cbn [fold_left]. apply IH. apply step_cohp. exact C. Qed.
End CohPStep.

(* ---------- draining the node feed, in a world reached by ANY history ---------- *)
Section DrainP.
  Variable po : parse_oracle.
  Variable lab : label_oracle.

  Lemma drain_spec_p : forall n w, length (w_nfeed w) = n -> CohP w -> w_synced w = true ->
    let w' := run po lab w (repeat DeliverNode n) in
    CohP w' /\ w_nfeed w' = [] /\ w_synced w' = true /\ w_nodes w' = w_nodes w /\
    (forall m, w_ctl w = Some m -> exists m', w_ctl w' = Some m').
  Proof.
    induction n as [|n IH]; intros w Hl C Hs; cbn [repeat run fold_left].
    - destruct (w_nfeed w) eqn:Ef; [|discriminate]. split; [exact C|]. split; [first [exact Ef|reflexivity]|]. split; [exact Hs|]. split; [reflexivity|].
      intros m E; exists m; exact E.
    - destruct (w_nfeed w) as [|e rest] eqn:Ef; [discriminate|]. cbn in Hl. injection Hl as Hl.
      destruct (deliver_step po lab w e rest Ef) as (A & B & D & E).
      pose proof (step_cohp po lab w DeliverNode C) as C1.
      unfold run. cbn [fold_left].
      destruct (IH (fst (step po lab w DeliverNode)) ltac:(rewrite A; exact Hl) C1 ltac:(rewrite B; exact Hs)) as (C' & F' & S' & N' & M').
      unfold run in *. split; [exact C'|]. split; [exact F'|]. split; [exact S'|]. split; [rewrite N'; exact D|].
      intros m Em. destruct (E m Em) as (m1 & Em1). exact (M' m1 Em1).
  Qed.

  (* a world in which the controller and the informers run becomes quiet by delivering the pending node notifications *)
  Theorem quiet_after_drain_p w :
    WInv w -> WK w -> CohP w -> w_synced w = true -> (exists m, w_ctl w = Some m) ->
    (forall a, In a (w_nodes w) -> an_deleting a = false) -> Quiet (drain po lab w).
  Proof.
    intros I K C Hs (m & Em) Hdel. unfold drain.
    destruct (drain_spec_p (length (w_nfeed w)) w eq_refl C Hs) as (C' & F' & S' & N' & M').
    assert (HI : forall n w0, WInv w0 -> WK w0 -> WInv (run po lab w0 (repeat DeliverNode n)) /\ WK (run po lab w0 (repeat DeliverNode n))).
    { induction n as [|n IHn]; intros w0 I0 K0; cbn [repeat]; [split; assumption|]. unfold run. cbn [fold_left].
      apply IHn; [apply step_winv; [exact I0|exact Logic.I]|exact (proj1 (step_no_panic po lab w0 DeliverNode I0 K0 Logic.I))]. }
    destruct (HI (length (w_nfeed w)) w I K) as [I' K2].
    constructor; try assumption.
    - exact (M' m Em).
    - pose proof (cq_sync _ C' S') as H. rewrite F' in H. exact H.
    - rewrite N'. exact (cq_names w C).
    - rewrite N'. exact Hdel.
  Qed.

  (* C11 from the world reached by any history whatever -- node relists, tombstones, crashes and restarts included -- in which
     the controller and the informers run and no node is being deleted: drain the feed, then at most
     (nodes without pod CIDRs) + 1 fair rounds *)
  Lemma run_winv_wk ops : forall w, WInv w -> WK w -> Forall wf_op ops -> WInv (run po lab w ops) /\ WK (run po lab w ops).
  Proof.
    induction ops as [|o ops IH]; intros w I K H; [split; assumption|]. inversion H; subst. unfold run. cbn [fold_left].
    apply IH; [apply step_winv; assumption|exact (proj1 (step_no_panic po lab w o I K H2))|assumption].
  Qed.

  Theorem converge_in_any_history ops :
    Forall wf_op ops ->
    let w := run po lab init_world ops in
    w_synced w = true -> (exists m, w_ctl w = Some m) -> (forall a, In a (w_nodes w) -> an_deleting a = false) ->
    exists k, (k <= S (length (unserved_nodes (drain po lab w))))%nat /\ settled po lab (Nat.iter k (round po lab) (drain po lab w)).
  Proof.
    intros Hwf w Hs Hm Hdel.
    assert (Q : Quiet (drain po lab w)).
    { apply quiet_after_drain_p; try assumption.
      - apply run_winv_wk; [apply winv_init|intros m E; discriminate E|exact Hwf].
      - apply run_winv_wk; [apply winv_init|intros m E; discriminate E|exact Hwf].
      - apply run_cohp. apply cohp_init. }
    destruct (rounds_converge po lab (length (unserved_nodes (drain po lab w))) (drain po lab w) Q (le_n _)) as (k & Hk & _ & Sk).
    exists k. split; assumption.
  Qed.
End DrainP.
